import MoPepGen.Model.Coord
/-!
# Fusion parsers and the reading of a Fusion GVF record (Layer M of property C15)

Models, function by function, of

* `moPepGen/parser/STARFusionParser.py`   : `STARFusionRecord.convert_to_variant_records`,
  `get_donor_transcripts`, `get_accepter_transcripts`
* `moPepGen/parser/ArribaParser.py`       : `ArribaConfidence` (`__lt__`, `__le__`, `__eq__` and the
  Python rich-comparison dispatch for the operators that are *not* defined), `ArribaRecord.is_valid`,
  `transcript_on_antisense_strand`, `convert_to_variant_records`
* `moPepGen/parser/FusionCatcherParser.py`: `FusionCatcherRecord.convert_to_variant_records`
  (versioned / unversioned gene id look-up)
* `moPepGen/gtf/GenomicAnnotation.py`     : `get_transcripts_with_position`,
  `get_gene_model_from_unversioned_id`, `create_gene_id_version_mapper`
* `moPepGen/cli/parse_star_fusion.py`, `parse_arriba.py`, `parse_fusion_catcher.py` : the record
  loop with its tally table, the `--skip-failed` handling and the sort by gene rank
* `moPepGen/seqvar/VariantRecord.py`      : `shift_breakpoint_to_closest_exon`,
  `to_transcript_variant` (fusion branch)
* `moPepGen/util/brute_force.py`          : `get_variant_sequence_fusion` without further variants —
  the documented reading of a Fusion record (the same four pieces `ThreeFrameTVG.apply_fusion`
  assembles): donor transcript prefix, LEFT insertion, RIGHT insertion, acceptor transcript suffix.

Coordinates and sequences are those of `Model/Coord.lean` (reused, not re-modelled).
Breakpoints of all three tools are 1-based genomic positions: the *left* breakpoint is the last
donor base kept, the *right* breakpoint the first acceptor base kept.
-/
namespace MoPepGen.Fusion
open MoPepGen

/-! ## annotation -/

/-- a transcript of the annotation: id, `transcript.location` (the GTF `transcript` line) and the
coordinate model (strand + sorted exons) -/
structure TxEntry where
  id : String
  loc : Iv
  tx : Transcript
deriving Repr, DecidableEq, Inhabited

/-- a gene of the annotation: id, `gene_name`, `chrom`, the coordinate model and
`genes[id].transcripts` resolved through `anno.transcripts` -/
structure GeneEntry where
  id : String
  name : String
  chrom : String
  gene : Gene
  txs : List TxEntry
deriving Repr, DecidableEq, Inhabited

/-- `GenomicAnnotation`: `source == 'ENSEMBL'` and the genes in file order (the gene rank) -/
structure Anno where
  ensembl : Bool
  genes : List GeneEntry
deriving Repr, Inhabited

/-- `anno.genes[id]` (`KeyError` = `none`) -/
def Anno.find (a : Anno) (id : String) : Option GeneEntry := a.genes.find? (fun g => g.id == id)

/-- `id in anno.genes` -/
def Anno.has (a : Anno) (id : String) : Bool := (a.find id).isSome

/-- the genome: `genome[chrom].seq` (`KeyError` = `none`) -/
abbrev Genome := List (String × List Char)
def Genome.find (g : Genome) (chrom : String) : Option (List Char) :=
  (List.find? (fun x => x.1 == chrom) g).map (·.2)

/-- errors of the converters -/
inductive FusErr where
  /-- `err.GeneNotFoundError` -/
  | geneNotFound
  /-- `ValueError` of `coordinate_genomic_to_gene` (breakpoint outside the gene) or of
  `create_gene_id_version_mapper` -/
  | value
  /-- `IndexError` of `genome[chrom].seq[i]` -/
  | index
  /-- `KeyError` of `genome[chrom]` -/
  | key
deriving DecidableEq, Repr, Inhabited

/-- `GenomicAnnotation.get_transcripts_with_position(gene_id, pos)`: transcripts of the gene that
have an exon and whose `transcript.location` contains the position (exon or intron) -/
def txsWithPosition (g : GeneEntry) (pos : Nat) : List TxEntry :=
  g.txs.filter fun t => !t.tx.exons.isEmpty && t.loc.contains pos

/-- `anno.coordinate_genomic_to_gene(bp - 1, gene)` for a 1-based breakpoint; `bp = 0` gives the
index `-1`, which is below every gene (`ValueError`) -/
def bpToGene (g : GeneEntry) (bp : Nat) : Except FusErr Nat :=
  if bp = 0 then .error .value
  else match genomicToGene g.gene (bp - 1) with
    | .ok i => .ok i
    | .error _ => .error .value

/-! ## the emitted record -/

/-- a `VariantRecord` of type `Fusion` as the parsers build it (`alt = '<FUSION>'`) -/
structure FusionRec where
  /-- `location.seqname` (donor gene id) -/
  gene : String
  /-- `location.start` (gene coordinate of the first donor base *dropped*); `end = start + 1` -/
  start : Nat
  ref : String
  id : String
  /-- `TRANSCRIPT_ID` -/
  donorTx : String
  /-- `GENE_SYMBOL` -/
  symbol : String
  /-- `GENOMIC_POSITION` -/
  genomicPos : String
  /-- `ACCEPTER_GENE_ID` -/
  accGene : String
  /-- `ACCEPTER_TRANSCRIPT_ID` -/
  accTx : String
  /-- `ACCEPTER_SYMBOL` -/
  accSymbol : String
  /-- `ACCEPTER_POSITION` (gene coordinate of the first acceptor base kept) -/
  accPos : Nat
  /-- `ACCEPTER_GENOMIC_POSITION` -/
  accGenomicPos : String
deriving Repr, DecidableEq, Inhabited

/-- the loop over `itertools.product(donor_transcripts, accepter_transcripts)` common to the three
converters -/
def mkRecords (donorGeneId accGeneId : String) (dg ag : GeneEntry) (dchrom achrom : String)
    (lb rb dpos apos : Nat) (ref : String) (dtxs atxs : List TxEntry) : List FusionRec :=
  dtxs.flatMap fun d => atxs.map fun a =>
    { gene := donorGeneId, start := dpos, ref := ref,
      id := s!"FUSION-{d.id}:{dpos}-{a.id}:{apos}",
      donorTx := d.id, symbol := dg.name,
      genomicPos := s!"{dchrom}:{lb}:{lb}",
      accGene := accGeneId, accTx := a.id, accSymbol := ag.name, accPos := apos,
      accGenomicPos := s!"{achrom}:{rb}:{rb}" }

/-- the REF column.  Plus strand: `genome[chrom].seq[idx]` (`IndexError` past the end);
minus strand: `str(genome[chrom].seq[lb:lb+1].reverse_complement())` (slicing never raises). -/
def refBase (chrom : List Char) (s : Strand) (plusIdx lb : Nat) : Except FusErr String :=
  match s with
  | .plus => match chrom[plusIdx]? with
    | some c => .ok (String.singleton c)
    | none => .error .index
  | .minus => .ok (String.ofList (revComp ((chrom.drop lb).take 1)))

/-- `VariantRecord.__init__` raises `ValueError` when `len(ref) != len(location)` (= 1, e.g. the
empty slice of a minus-strand donor whose breakpoint is the last chromosome base); the
constructor is only reached when there is at least one transcript pair -/
def checkedRecords (ref : String) (dtxs atxs : List TxEntry) (recs : List FusionRec) :
    Except FusErr (List FusionRec) :=
  if ref.length ≠ 1 ∧ (dtxs.isEmpty || atxs.isEmpty) = false then .error .value else .ok recs

/-! ## STAR-Fusion -/

/-- one line of `star-fusion.fusion_predictions.tsv` after `STARFusionParser.parse`; `est_J` is kept
in hundredths (the harness only writes values with two decimals) -/
structure StarRow where
  estJ : Nat
  leftGene : String
  leftChrom : String
  left : Nat
  rightGene : String
  rightChrom : String
  right : Nat
deriving Repr, DecidableEq, Inhabited

/-- `STARFusionRecord.convert_to_variant_records` (same order of look-ups and raises) -/
def convertStar (anno : Anno) (genome : Genome) (r : StarRow) : Except FusErr (List FusionRec) :=
  match anno.find r.leftGene with
  | none => .error .geneNotFound
  | some dg =>
    match bpToGene dg r.left with
    | .error e => .error e
    | .ok d0 =>
      let dtxs := txsWithPosition dg (r.left - 1)
      match anno.find r.rightGene with
      | none => .error .geneNotFound
      | some ag =>
        match bpToGene ag r.right with
        | .error e => .error e
        | .ok apos =>
          let atxs := txsWithPosition ag (r.right - 1)
          match genome.find r.leftChrom with
          | none => .error .key
          | some chrom =>
            match refBase chrom dg.gene.strand (r.left + 1) r.left with
            | .error e => .error e
            | .ok ref => checkedRecords ref dtxs atxs
                (mkRecords r.leftGene r.rightGene dg ag r.leftChrom r.rightChrom
                  r.left r.right (d0 + 1) apos ref dtxs atxs)

/-! ## Arriba -/

/-- `ArribaConfidence.levels` -/
inductive Conf where
  | low | medium | high
deriving DecidableEq, Repr, Inhabited

/-- `ArribaConfidence.to_int` -/
def Conf.toInt : Conf → Nat
  | .low => 0 | .medium => 1 | .high => 2

/-- `ArribaConfidence.__lt__` AS WRITTEN: `self.to_int() > other.to_int()` -/
def Conf.dunderLt (a b : Conf) : Bool := decide (a.toInt > b.toInt)
/-- `ArribaConfidence.__eq__`: `self.data == other.data` -/
def Conf.dunderEq (a b : Conf) : Bool := decide (a = b)
/-- Python `a > b` for two `ArribaConfidence` objects: the class defines no `__gt__`
(`__st__`/`__se__` are not special names), `object.__gt__` returns `NotImplemented`, so the
interpreter evaluates the reflected `b.__lt__(a)` -/
def Conf.pyGt (a b : Conf) : Bool := Conf.dunderLt b a
/-- `ArribaConfidence.__le__` AS WRITTEN: `self == other or self > other` -/
def Conf.dunderLe (a b : Conf) : Bool := Conf.dunderEq a b || Conf.pyGt a b
/-- Python `a >= b`: no `__ge__`, hence the reflected `b.__le__(a)` -/
def Conf.pyGe (a b : Conf) : Bool := Conf.dunderLe b a
/-- Python `a < b` / `a <= b` (defined methods are called directly) -/
def Conf.pyLt (a b : Conf) : Bool := Conf.dunderLt a b
def Conf.pyLe (a b : Conf) : Bool := Conf.dunderLe a b

/-- one line of Arriba's `fusions.tsv` after `ArribaParser.parse`; `tStrand` is the part of
`strand1(gene/fusion)` after the `/` (`none` = `.`) -/
structure ArribaRow where
  geneId1 : String
  geneId2 : String
  tStrand1 : Option Strand
  tStrand2 : Option Strand
  bp1 : Nat
  bp2 : Nat
  split1 : Nat
  split2 : Nat
  conf : Conf
deriving Repr, DecidableEq, Inhabited

/-- `ArribaRecord.is_valid(min_split_reads1, min_split_reads2, confidence)` -/
def ArribaRow.isValid (r : ArribaRow) (min1 min2 : Nat) (minConf : Conf) : Bool :=
  decide (r.split1 ≥ min1) && decide (r.split2 ≥ min2) && Conf.pyGe r.conf minConf

/-- `ArribaRecord.transcript_on_antisense_strand` for two known genes -/
def ArribaRow.antisense (r : ArribaRow) (g1 g2 : GeneEntry) : Bool :=
  decide (r.tStrand1 ≠ some g1.gene.strand) || decide (r.tStrand2 ≠ some g2.gene.strand)

/-- `ArribaRecord.convert_to_variant_records` -/
def convertArriba (anno : Anno) (genome : Genome) (r : ArribaRow) :
    Except FusErr (List FusionRec) :=
  match anno.find r.geneId1 with
  | none => .error .geneNotFound
  | some dg =>
    match anno.find r.geneId2 with
    | none => .error .geneNotFound
    | some ag =>
      match bpToGene dg r.bp1 with
      | .error e => .error e
      | .ok d0 =>
        let dtxs := txsWithPosition dg (r.bp1 - 1)
        match bpToGene ag r.bp2 with
        | .error e => .error e
        | .ok apos =>
          let atxs := txsWithPosition ag (r.bp2 - 1)
          match genome.find dg.chrom with
          | none => .error .key
          | some chrom =>
            match refBase chrom dg.gene.strand r.bp1 r.bp1 with
            | .error e => .error e
            | .ok ref => checkedRecords ref dtxs atxs
                (mkRecords r.geneId1 r.geneId2 dg ag dg.chrom ag.chrom
                  r.bp1 r.bp2 (d0 + 1) apos ref dtxs atxs)

/-! ## FusionCatcher -/

/-- one line of FusionCatcher's `final-list_candidate-fusion-genes.txt` after
`FusionCatcherParser.parse` -/
structure FcRow where
  common : Nat
  spanUnique : Nat
  gene5 : String
  gene3 : String
  left : Nat
  right : Nat
deriving Repr, DecidableEq, Inhabited

/-- `re.compile(r'\.[0-9]+$').search(id)`: the id ends in a dot followed by ≥ 1 digits -/
def isVersioned (id : String) : Bool :=
  let digits := id.toList.reverse.takeWhile Char.isDigit
  let rest := id.toList.reverse.dropWhile Char.isDigit
  !digits.isEmpty && rest.head? == some '.'

/-- `versioned.split('.')[0]` -/
def unversioned (id : String) : String := String.ofList (id.toList.takeWhile (· != '.'))

/-- `p in s` for strings (as lists) -/
def hasInfix (p : List Char) : List Char → Bool
  | [] => p.isEmpty
  | c :: cs => p.isPrefixOf (c :: cs) || hasInfix p cs

/-- `'_PAR_Y' in versioned`: the chrY copy of a pseudo-autosomal gene (GENCODE lists such a gene
twice, `<id>` on chrX and `<id>_PAR_Y` on chrY) -/
def isParY (id : String) : Bool := hasInfix "_PAR_Y".toList id.toList

/-- two ids of the list share the unversioned part -/
def hasCollisionAll : List String → Bool
  | [] => false
  | x :: xs => xs.any (fun y => unversioned y == unversioned x) || hasCollisionAll xs

/-- `create_gene_id_version_mapper` raises `ValueError('Unversioned gene ID collapsed.')` when two
gene ids that are NOT `_PAR_Y` copies share the unversioned part (a `_PAR_Y` id never replaces
an entry and may be replaced by the chrX id) -/
def hasCollision (ids : List String) : Bool := hasCollisionAll (ids.filter fun i => !isParY i)

/-- `GenomicAnnotation.get_gene_model_from_unversioned_id`: the mapper holds, per unversioned id,
the non-`_PAR_Y` gene if there is one, else the first `_PAR_Y` copy -/
def Anno.findUnversioned (a : Anno) (id : String) : Except FusErr GeneEntry :=
  if a.ensembl then
    match a.find id with
    | some g => .ok g
    | none => .error .geneNotFound
  else if hasCollision (a.genes.map (·.id)) then .error .value
  else match a.genes.find? (fun g => !isParY g.id && unversioned g.id == id) with
    | some g => .ok g
    | none => match a.genes.find? (fun g => unversioned g.id == id) with
      | some g => .ok g
      | none => .error .geneNotFound

/-- the gene look-up at the head of `FusionCatcherRecord.convert_to_variant_records` -/
def fcGenes (anno : Anno) (r : FcRow) : Except FusErr (GeneEntry × GeneEntry) :=
  if isVersioned r.gene5 then
    match anno.find r.gene5 with
    | none => .error .geneNotFound
    | some dg => match anno.find r.gene3 with
      | none => .error .geneNotFound
      | some ag => .ok (dg, ag)
  else
    match anno.findUnversioned r.gene5 with
    | .error e => .error e
    | .ok dg => match anno.findUnversioned r.gene3 with
      | .error e => .error e
      | .ok ag => .ok (dg, ag)

/-- `FusionCatcherRecord.convert_to_variant_records` -/
def convertFc (anno : Anno) (genome : Genome) (r : FcRow) : Except FusErr (List FusionRec) :=
  match fcGenes anno r with
  | .error e => .error e
  | .ok (dg, ag) =>
    match bpToGene dg r.left with
    | .error e => .error e
    | .ok d0 =>
      match bpToGene ag r.right with
      | .error e => .error e
      | .ok apos =>
        let dtxs := txsWithPosition dg (r.left - 1)
        let atxs := txsWithPosition ag (r.right - 1)
        match genome.find dg.chrom with
        | none => .error .key
        | some chrom =>
          match refBase chrom dg.gene.strand r.left r.left with
          | .error e => .error e
          | .ok ref => checkedRecords ref dtxs atxs
              (mkRecords dg.id ag.id dg ag dg.chrom ag.chrom
                r.left r.right (d0 + 1) apos ref dtxs atxs)

/-! ## the command loops (`parse_star_fusion`, `parse_arriba`, `parse_fusion_catcher`) -/

/-- `TallyTable` + `TallyTableSkipped` -/
structure Tally where
  total : Nat := 0
  succeed : Nat := 0
  skipped : Nat := 0
  invalidGene : Nat := 0
  invalidPos : Nat := 0
  insufficient : Nat := 0
  antisense : Nat := 0
deriving Repr, DecidableEq, Inhabited

/-- what the pre-checks of a command decide for one row before conversion -/
inductive Pre where
  | go
  | insufficient
  | invalidGene
  | antisense
deriving DecidableEq, Repr

/-- the body of the `for record in parse(...)` loop, common to the three commands:
`pre` = the checks before the `try`, `conv` = `record.convert_to_variant_records(anno, genome)`.
`GeneNotFoundError` is always skipped and counted, every other exception only under
`--skip-failed`, otherwise it is re-raised and the command aborts. -/
def cliLoop {Row : Type} (pre : Row → Pre) (conv : Row → Except FusErr (List FusionRec))
    (skipFailed : Bool) : List Row → Tally → List FusionRec → Except FusErr (Tally × List FusionRec)
  | [], t, acc => .ok (t, acc)
  | r :: rs, t, acc =>
    let t := { t with total := t.total + 1 }
    match pre r with
    | .insufficient =>
      cliLoop pre conv skipFailed rs
        { t with insufficient := t.insufficient + 1, skipped := t.skipped + 1 } acc
    | .invalidGene =>
      cliLoop pre conv skipFailed rs
        { t with invalidGene := t.invalidGene + 1, skipped := t.skipped + 1 } acc
    | .antisense =>
      cliLoop pre conv skipFailed rs
        { t with antisense := t.antisense + 1, skipped := t.skipped + 1 } acc
    | .go =>
      match conv r with
      | .ok recs => cliLoop pre conv skipFailed rs { t with succeed := t.succeed + 1 } (acc ++ recs)
      | .error .geneNotFound =>
        cliLoop pre conv skipFailed rs
          { t with invalidGene := t.invalidGene + 1, skipped := t.skipped + 1 } acc
      | .error e =>
        if skipFailed then
          cliLoop pre conv skipFailed rs
            { t with invalidPos := t.invalidPos + 1, skipped := t.skipped + 1 } acc
        else .error e

/-- `sorted(variants, key=lambda x: genes_rank[x.location.seqname])` (stable): records grouped by
donor gene in annotation order, input order kept inside a gene.  Every record produced by the
converters names a gene of the annotation. -/
def sortByRank (anno : Anno) (recs : List FusionRec) : List FusionRec :=
  anno.genes.flatMap fun g => recs.filter fun r => r.gene == g.id

/-- outcome of a command: the tally and the records written (`none` = no GVF file written because
no record was produced) -/
structure CliOut where
  tally : Tally
  written : Option (List FusionRec)
deriving Repr, DecidableEq

def finishCli (anno : Anno) (x : Except FusErr (Tally × List FusionRec)) : Except FusErr CliOut :=
  match x with
  | .error e => .error e
  | .ok (t, recs) =>
    if recs.isEmpty then .ok ⟨t, none⟩ else .ok ⟨t, some (sortByRank anno recs)⟩

/-- `parse_star_fusion`: `record.est_j < args.min_est_j` → insufficient evidence -/
def starPre (minEstJ : Nat) (r : StarRow) : Pre :=
  if r.estJ < minEstJ then .insufficient else .go

def cliStar (anno : Anno) (genome : Genome) (minEstJ : Nat) (skipFailed : Bool)
    (rows : List StarRow) : Except FusErr CliOut :=
  finishCli anno (cliLoop (starPre minEstJ) (convertStar anno genome) skipFailed rows {} [])

/-- `parse_arriba`: unknown gene ids, then `is_valid`, then antisense, in this order -/
def arribaPre (anno : Anno) (min1 min2 : Nat) (minConf : Conf) (r : ArribaRow) : Pre :=
  match anno.find r.geneId1, anno.find r.geneId2 with
  | some g1, some g2 =>
    if !r.isValid min1 min2 minConf then .insufficient
    else if r.antisense g1 g2 then .antisense
    else .go
  | _, _ => .invalidGene

def cliArriba (anno : Anno) (genome : Genome) (min1 min2 : Nat) (minConf : Conf)
    (skipFailed : Bool) (rows : List ArribaRow) : Except FusErr CliOut :=
  finishCli anno
    (cliLoop (arribaPre anno min1 min2 minConf) (convertArriba anno genome) skipFailed rows {} [])

/-- `parse_fusion_catcher`: `counts_of_common_mapping_reads > max_common_mapping or
spanning_unique_reads < min_spanning_unique` → insufficient evidence -/
def fcPre (maxCommon minSpanUnique : Nat) (r : FcRow) : Pre :=
  if r.common > maxCommon ∨ r.spanUnique < minSpanUnique then .insufficient else .go

def cliFc (anno : Anno) (genome : Genome) (maxCommon minSpanUnique : Nat) (skipFailed : Bool)
    (rows : List FcRow) : Except FusErr CliOut :=
  finishCli anno
    (cliLoop (fcPre maxCommon minSpanUnique) (convertFc anno genome) skipFailed rows {} [])

/-! ## the documented reading of a Fusion record -/

/-- Python slice `l[a:b]` for `0 ≤ a`, `0 ≤ b` -/
def pySlice (l : List Char) (a b : Nat) : List Char := (l.drop a).take (b - a)

/-- the record after `shift_breakpoint_to_closest_exon`: new `location.start`,
`LEFT_INSERTION_START/END`, `RIGHT_INSERTION_START/END`, new `ACCEPTER_POSITION` -/
structure Shifted where
  start : Nat
  leftIns : Option (Nat × Nat)
  rightIns : Option (Nat × Nat)
  accPos : Nat
deriving Repr, DecidableEq, Inhabited

/-- an `Int` that must be a natural number (a negative genomic position is outside the model; it
cannot arise from a gene coordinate inside the gene) -/
def natOf (i : Int) : Except CoordErr Nat := if i < 0 then .error .outOfRange else .ok i.toNat

/-- donor half of `VariantRecord.shift_breakpoint_to_closest_exon`: returns the new
`location.start` and the left insertion.  `start = 0` (index `-1`) is outside the model. -/
def shiftLeft (gD : Gene) (tD : Transcript) (start : Nat) :
    Except CoordErr (Nat × Option (Nat × Nat)) :=
  if start = 0 then .error .outOfRange
  else match natOf (geneToGenomic gD (start - 1)) with
    | .error e => .error e
    | .ok lb =>
      if isExonic tD lb then .ok (start, none)
      else match upstreamExonEnd tD lb with
        | .error e => .error e
        | .ok ue => match genomicToGene gD ue with
          | .error e => .error e
          | .ok i => .ok (i + 1, some (i + 1, start))

/-- acceptor half of `shift_breakpoint_to_closest_exon`: new `ACCEPTER_POSITION` and the right
insertion -/
def shiftRight (gA : Gene) (tA : Transcript) (accPos : Nat) :
    Except CoordErr (Nat × Option (Nat × Nat)) :=
  match natOf (geneToGenomic gA accPos) with
  | .error e => .error e
  | .ok rb =>
    if isExonic tA rb then .ok (accPos, none)
    else match downstreamExonStart tA rb with
      | .error e => .error e
      | .ok ds => match genomicToGene gA ds with
        | .error e => .error e
        | .ok i => .ok (i, some (accPos, i))

/-- `VariantRecord.shift_breakpoint_to_closest_exon` -/
def shiftBreakpoint (gD : Gene) (tD : Transcript) (gA : Gene) (tA : Transcript)
    (start accPos : Nat) : Except CoordErr Shifted :=
  match shiftLeft gD tD start with
  | .error e => .error e
  | .ok (s, li) => match shiftRight gA tA accPos with
    | .error e => .error e
    | .ok (ap, ri) => .ok ⟨s, li, ri, ap⟩

/-- `location.start` of `VariantRecord.to_transcript_variant` for a fusion:
`coordinate_gene_to_transcript(var_start - 1) + 1`.  The branch `variant_start_before_tx_start`
(record starting 5' of the transcript) is not modelled: it is unreachable when `start - 1` lies
inside the transcript, which is what the theorems establish for parser output. -/
def fusionTxStart (gD : Gene) (tD : Transcript) (start : Nat) : Except CoordErr Nat :=
  if start = 0 then .error .outOfRange
  else match geneToTx gD tD (start - 1) with
    | .ok k => .ok (k + 1)
    | .error e => .error e

/-- the sequence a Fusion record denotes: `load_variants` (shift, `to_transcript_variant`) followed by
`get_variant_sequence_fusion` with no other variant:
`donor_tx_seq[:start] + donor_gene_seq[LEFT_INSERTION_START:LEFT_INSERTION_END]
 + accepter_gene_seq[RIGHT_INSERTION_START:RIGHT_INSERTION_END] + accepter_tx_seq[breakpoint_tx:]` -/
def gvfFusionSeq (chromD : List Char) (gD : Gene) (tD : Transcript) (chromA : List Char) (gA : Gene)
    (tA : Transcript) (start accPos : Nat) : Except CoordErr (List Char) :=
  match shiftBreakpoint gD tD gA tA start accPos with
  | .error e => .error e
  | .ok sh =>
    match fusionTxStart gD tD sh.start with
    | .error e => .error e
    | .ok k =>
      match txSeq chromD tD with
      | .error e => .error e
      | .ok dseq =>
        match txSeq chromA tA with
        | .error e => .error e
        | .ok aseq =>
          match geneToTx gA tA sh.accPos with
          | .error e => .error e
          | .ok bk =>
            let li := match sh.leftIns with
              | none => []
              | some (a, b) => pySlice (geneSeq chromD gD) a b
            let ri := match sh.rightIns with
              | none => []
              | some (a, b) => pySlice (geneSeq chromA gA) a b
            .ok (dseq.take k ++ li ++ ri ++ aseq.drop bk)

end MoPepGen.Fusion
