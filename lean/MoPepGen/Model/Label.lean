/-
Layer M for moPepGen/aa/VariantPeptideIdentifier.py (header grammar:
`parse_variant_peptide_id`, the four `__str__`) and the entry-level helpers of
moPepGen/aa/VariantPeptideLabel.py (`is_fusion`, `is_circ_rna`,
`is_splice_altering`, `get_transcript_ids`).

A FASTA header is `entries` separated by `' '`; an entry is `fields` separated by
`'|'`.  The model works on the split form (`Entry = List Field`,
`Field = List Char`); the two `str.split` / `str.join` calls are performed by the
driver (`String.splitOn` / `intercalate`) and by `Lemmas/Label.lean`
(`splitOnC`/`joinC` round trip).
-/
import MoPepGen.Generated.Labels
namespace MoPepGen

abbrev Field := List Char
abbrev Entry := List Field
abbrev Header := List Entry

/-- Python exceptions that the modelled code can raise -/
inductive PErr where
  | valueError | indexError | keyError | typeError | sourceNotFound
  deriving DecidableEq, Repr

instance instDecEqExceptLabel {ε α} [DecidableEq ε] [DecidableEq α] : DecidableEq (Except ε α) := fun a b =>
  match a, b with
  | .ok x, .ok y => if h : x = y then isTrue (by rw [h]) else isFalse (by intro h'; cases h'; exact h rfl)
  | .error x, .error y =>
    if h : x = y then isTrue (by rw [h]) else isFalse (by intro h'; cases h'; exact h rfl)
  | .ok _, .error _ => isFalse (by intro h; cases h)
  | .error _, .ok _ => isFalse (by intro h; cases h)

def PErr.name : PErr → String
  | .valueError => "ValueError"
  | .indexError => "IndexError"
  | .keyError => "KeyError"
  | .typeError => "TypeError"
  | .sourceNotFound => "VariantSourceNotFoundError"

/-- `field.startswith(p)` -/
def pfx (p : List Char) (f : Field) : Bool := p.isPrefixOf f

/-! ### `int(str)` on ASCII text -/

def isPyWs (c : Char) : Bool :=
  c == ' ' || c == '\t' || c == '\n' || c == '\r' || c == '\x0b' || c == '\x0c'

/-- digits with single underscores between digits -/
def pyDigits (acc : Nat) (prevDigit : Bool) : List Char → Option Nat
  | [] => if prevDigit then some acc else none
  | c :: cs =>
    if c.isDigit then pyDigits (acc * 10 + (c.toNat - 48)) true cs
    else if c == '_' && prevDigit then pyDigits acc false cs
    else none

/-- M: `int(s)` for an ASCII string; `none` = ValueError -/
def pyInt (f : Field) : Option Int :=
  let s := ((f.dropWhile isPyWs).reverse.dropWhile isPyWs).reverse
  match s with
  | '+' :: r => (pyDigits 0 false r).map Int.ofNat
  | '-' :: r => (pyDigits 0 false r).map fun n => - Int.ofNat n
  | r => (pyDigits 0 false r).map Int.ofNat

/-- `str(n)` for an int -/
def intStr (n : Int) : Field := (toString n).toList

/-! ### identifiers -/

inductive Kind where
  | base | circ | fusion | novel
  deriving DecidableEq, Repr

/-- The four identifier classes in one record.
`v1`: base/circ `variant_ids`, fusion `first_variants`;
`v2`: fusion `second_variants`;
`v0`: fusion `peptide_variants`, novel ORF `codon_reassigns`. -/
structure Ident where
  kind : Kind
  backbone : Field
  geneId : Option Field
  v1 : List Field
  v2 : List Field
  v0 : List Field
  orf : Option Field
  index : Option Int
  deriving DecidableEq, Repr

/-- loop state of step 1 of `parse_variant_peptide_id` -/
structure PState where
  ty : Option Kind := none          -- only `fusion` / `circ` are set in step 1
  backbone : Field := []
  k0 : List Field := []             -- var_ids[0]
  k1 : List Field := []             -- var_ids[1]
  k2 : List Field := []             -- var_ids[2]
  alt : List Field := []
  orf : Option Field := none

def pfxOrf : List Char := ['O', 'R', 'F']

/-- one iteration of the `for i, field in enumerate(fields)` loop -/
def stepField (st : PState) (i : Nat) (f : Field) : Except PErr PState :=
  if pfx Generated.pfxFusion f then
    if i != 0 then .error .valueError
    else .ok { st with backbone := f, ty := some .fusion }
  else if pfx Generated.pfxCi f || pfx Generated.pfxCirc f then
    if i != 0 then .error .valueError
    else .ok { st with backbone := f, ty := some .circ }
  else if pfx pfxOrf f then .ok { st with orf := some f }
  else if st.ty == some .fusion then
    if pfx ['1', '-'] f then .ok { st with k1 := st.k1 ++ [f.drop 2] }
    else if pfx ['2', '-'] f then .ok { st with k2 := st.k2 ++ [f.drop 2] }
    else .ok { st with k0 := st.k0 ++ [f] }
  else if Generated.pfxAltTranslation.any (pfx · f) then .ok { st with alt := st.alt ++ [f] }
  else if Generated.pfxCtbv.any (pfx · f) then .ok { st with k1 := st.k1 ++ [f] }
  else .ok st

def stepFields (st : PState) (i : Nat) : List Field → Except PErr PState
  | [] => .ok st
  | f :: fs =>
    match stepField st i f with
    | .error e => .error e
    | .ok st' => stepFields st' (i + 1) fs

/-- `index = int(fields[-1]); fields.pop()` / `index = None` -/
def splitIndex (e : Entry) : Entry × Option Int :=
  match e.getLast? with
  | none => (e, none)
  | some l =>
    match pyInt l with
    | some n => (e.dropLast, some n)
    | none => (e, none)

/-- M: one iteration of the outer loop of `parse_variant_peptide_id`
(one header entry, already split on `'|'`). -/
def parseEntry (e : Entry) : Except PErr Ident :=
  let (fields, index) := splitIndex e
  match stepFields {} 0 fields with
  | .error err => .error err
  | .ok st =>
    match st.ty with
    | some .fusion =>
      .ok ⟨.fusion, st.backbone, none, st.k1, st.k2, st.k0, st.orf, index⟩
    | some _ =>
      .ok ⟨.circ, st.backbone, none, st.k1 ++ st.alt, [], [], st.orf, index⟩
    | none =>
      match fields with
      | [] => .error .indexError
      | f0 :: rest =>
        if st.k1.isEmpty && st.orf.isSome then
          .ok ⟨.novel, f0, rest.head?, [], [], st.alt, st.orf, index⟩
        else
          .ok ⟨.base, f0, none, st.k1 ++ st.alt, [], [], st.orf, index⟩

/-- `[x] if x` (Python truthiness of an optional string) -/
def optField : Option Field → List Field
  | some (c :: cs) => [c :: cs]
  | _ => []

/-- `[str(index)] if index` -/
def optIndex : Option Int → List Field
  | some n => if n == 0 then [] else [intStr n]
  | none => []

/-- M: the four `__str__` methods (result still split on `'|'`) -/
def Ident.str (d : Ident) : Entry :=
  match d.kind with
  | .base => [d.backbone] ++ optField d.geneId ++ d.v1 ++ optField d.orf ++ optIndex d.index
  | .novel => [d.backbone] ++ optField d.geneId ++ d.v0 ++ optField d.orf ++ optIndex d.index
  | .circ => [d.backbone] ++ optField d.orf ++ d.v1 ++ optIndex d.index
  | .fusion => [d.backbone] ++ optField d.orf ++ d.v1.map (['1', '-'] ++ ·)
      ++ d.v2.map (['2', '-'] ++ ·) ++ d.v0 ++ optIndex d.index

/-- normal form of an entry: `str(parse(entry))` -/
def normEntry (e : Entry) : Except PErr Entry := (parseEntry e).map Ident.str

/-! ### splitting helpers (Python `str.split(sep)`, `str.split(sep, n)`) -/

/-- `s.split(c)` -/
def splitOnC (c : Char) : List Char → List (List Char)
  | [] => [[]]
  | x :: xs =>
    if x == c then [] :: splitOnC c xs
    else match splitOnC c xs with
      | [] => [[x]]
      | h :: t => (x :: h) :: t

/-- `sep.join(parts)` for a one-character separator -/
def joinC (c : Char) : List (List Char) → List Char
  | [] => []
  | [x] => x
  | x :: y :: r => x ++ c :: joinC c (y :: r)

/-- `y in x` for strings -/
def isInfix (y x : List Char) : Bool :=
  match x with
  | [] => y.isEmpty
  | c :: cs => y.isPrefixOf (c :: cs) || isInfix y cs

/-! ### entry-level queries of `VariantPeptideInfo` -/

/-- M: `BaseVariantPeptideIdentifier.is_alternative_splicing`
(`any(x.split('-', 1)[0] in alt_splice_types for x in self.variant_ids)` — after the `fix:`
that replaced the substring test `y in x`) -/
def Ident.isAltSplicing (d : Ident) : Bool :=
  d.v1.any fun x => Generated.altSpliceTypes.contains ((splitOnC '-' x).headD [])

/-- M: `is_splice_altering` -/
def Ident.isSpliceAltering (d : Ident) : Bool := d.kind == .base && d.isAltSplicing

/-- M: `FusionVariantPeptideIdentifier.first_tx_id / second_tx_id`:
`_, first, second = fusion_id.split('-')`, then `.split(':')[0]` -/
def fusionTxIds (fid : Field) : Except PErr (List Field) :=
  match splitOnC '-' fid with
  | [_, a, b] => .ok [(splitOnC ':' a).headD [], (splitOnC ':' b).headD []]
  | _ => .error .valueError

/-- M: `circ_rna_id.split('-', 2)[1]` -/
def circTxId (cid : Field) : Except PErr Field :=
  match splitOnC '-' cid with
  | _ :: a :: _ => .ok a
  | _ => .error .indexError

/-- M: `get_transcript_ids` (on an already parsed identifier) -/
def Ident.txIds (d : Ident) : Except PErr (List Field) :=
  match d.kind with
  | .circ => (circTxId d.backbone).map fun a => [a]
  | .fusion => fusionTxIds d.backbone
  | .base => .ok [d.backbone]
  | .novel => .ok [d.backbone]

end MoPepGen
