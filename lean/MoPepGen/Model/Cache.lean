/-!
# Pointer-dictionary cache (import-free)

Model of `GenePointerDict.__getitem__` / `TranscriptPointerDict.__getitem__`
(`moPepGen/gtf/GTFPointer.py`): a bounded cache of loaded models.

State: `keys` = the deque `_cached_keys` (head = left end, `appendleft` = cons, `pop` = remove
last), `map` = the dict `_cache`.  `load k` stands for `self.get_pointer(k).load()` (seek +
read + parse of the byte range of `k`); `none` = it raises (`KeyError` for an unknown key,
or a parse error).  The file is not modified while the annotation is open, so `load` is a
function of the key (trusted assumption, see the harness).
-/
namespace MoPepGen

structure CacheState (K V : Type) where
  keys : List K
  map : K → Option V

/-- outcome of one `__getitem__` -/
inductive CacheRes (V : Type) where
  /-- value returned -/
  | ok (v : V)
  /-- `self._cache.pop(key_pop)` raised `KeyError` (evicting a key that was never stored) -/
  | evictKeyError
  /-- `get_pointer(k).load()` raised -/
  | loadError
deriving DecidableEq, Repr

variable {K V : Type} [DecidableEq K]

def CacheState.empty : CacheState K V := { keys := [], map := fun _ => none }

def mapSet (m : K → Option V) (k : K) (v : Option V) : K → Option V :=
  fun x => if x = k then v else m x

/-- `__getitem__(k)`, statement by statement:
```
if k in self._cache: return self._cache[k]
self._cached_keys.appendleft(k)
if len(self._cached_keys) > SIZE:
    key_pop = self._cached_keys.pop(); self._cache.pop(key_pop)     # may raise KeyError
val = self.get_pointer(k).load()                                     # may raise
self._cache[k] = val
return val
```
A raise leaves the mutations made so far in place. -/
def CacheState.get (size : Nat) (load : K → Option V) (c : CacheState K V) (k : K) :
    CacheState K V × CacheRes V :=
  match c.map k with
  | some v => (c, .ok v)
  | none =>
    let keys1 := k :: c.keys
    if keys1.length > size then
      -- `keys1` is non-empty
      let keyPop := keys1.getLast?
      let keys2 := keys1.dropLast
      match keyPop with
      | none => ({ keys := keys2, map := c.map }, .evictKeyError)   -- unreachable
      | some kp =>
        match c.map kp with
        | none => ({ keys := keys2, map := c.map }, .evictKeyError)
        | some _ =>
          let map2 := mapSet c.map kp none
          match load k with
          | none => ({ keys := keys2, map := map2 }, .loadError)
          | some v => ({ keys := keys2, map := mapSet map2 k (some v) }, .ok v)
    else
      match load k with
      | none => ({ keys := keys1, map := c.map }, .loadError)
      | some v => ({ keys := keys1, map := mapSet c.map k (some v) }, .ok v)

/-- run an access history from a state, collecting the outcomes -/
def CacheState.run (size : Nat) (load : K → Option V) :
    CacheState K V → List K → CacheState K V × List (CacheRes V)
  | c, [] => (c, [])
  | c, k :: ks =>
    let (c1, r) := c.get size load k
    let (c2, rs) := CacheState.run size load c1 ks
    (c2, r :: rs)

/-- The repaired access order (load first, then record the key): what the cache is
evidently meant to do.  Used to state the full-strength property for the fixed code. -/
def CacheState.getFixed (size : Nat) (load : K → Option V) (c : CacheState K V) (k : K) :
    CacheState K V × CacheRes V :=
  match c.map k with
  | some v => (c, .ok v)
  | none =>
    match load k with
    | none => (c, .loadError)
    | some v =>
      let keys1 := k :: c.keys
      if keys1.length > size then
        match keys1.getLast? with
        | none => ({ keys := keys1.dropLast, map := mapSet c.map k (some v) }, .ok v)
        | some kp => ({ keys := keys1.dropLast, map := mapSet (mapSet c.map kp none) k (some v) }, .ok v)
      else ({ keys := keys1, map := mapSet c.map k (some v) }, .ok v)

def CacheState.runFixed (size : Nat) (load : K → Option V) :
    CacheState K V → List K → CacheState K V × List (CacheRes V)
  | c, [] => (c, [])
  | c, k :: ks =>
    let (c1, r) := c.getFixed size load k
    let (c2, rs) := CacheState.runFixed size load c1 ks
    (c2, r :: rs)

end MoPepGen
