import MoPepGen.Model.Coord
import MoPepGen.Model.Gvf
/-!
# The GTF codec: writer, parser, annotation models (property C11, last clause)

Models, function by function, of

* `moPepGen/gtf/GtfIO.py`                : `line_to_seq_feature`, `GtfIterator.iterate`,
                                           `to_gtf_record`, `write`
* `moPepGen/gtf/GenomicAnnotation.py`    : `dump_gtf` (with `biotype=None`), `add_gene_record`,
                                           `add_transcript_record`
* `moPepGen/gtf/TranscriptAnnotationModel.py` : `GTF_FEATURE_TYPES`, `add_record`, `split_utr`,
                                           `sort_records`
* `moPepGen/gtf/GTFSeqFeature.py`        : the properties `gene_id`, `transcript_id`,
                                           `protein_id`, `gene_name` (getter and setter)
* `moPepGen/SeqFeature.py`               : `FeatureLocation.__gt__/__eq__`, `SeqFeature.__lt__/__gt__`

Text is `List Char` (`Gvf.Str`, as in `Model/Gvf.lean`, whose string primitives are reused).
A GTF line is the abstract `Line`: the fields the parser reads (seqname, feature, 1-based
inclusive start / end, strand field, frame) and the attribute column already cut into
`(key, raw value)` pairs.  Cutting the attribute column text (`rstrip(';')`, `split(';')`,
`strip()`, `split(' ', 1)`) is the separate pair `colText` / `colParse`.  Tab splitting and
decimal integers are not modelled (the driver does them); columns 2 and 6 (`source`, `score`)
are written as `.` and never read.

Not modelled: the `source` (GENCODE / ENSEMBL) that `GTFSourceInferrer` attaches to every
record.  It is a function of the chromosome names (of the record itself for the first 101
records of a file, of the majority among those afterwards), selects the attribute the
`biotype` property reads (`gene_type` / `gene_biotype`; both attributes are kept and compared
here) and is compared on the real objects by the harness; `dump_gtf` is modelled with
`biotype=None`.  Also not modelled: `record.id`; non-ASCII `str.lower()`.

Python `raise` → `Except GErr`.  No imports outside `Model/`.
-/
namespace MoPepGen.Gtf
open MoPepGen.Gvf (Str AttrVal dictGet dictSet splitOn rstripChar stripChar isPySpace rstrip)

/-- exceptions of the modelled functions -/
inductive GErr where
  /-- `ValueError('Same gene has multiple records')` -/
  | dupGene
  /-- `ValueError('Gene ID … not found')` -/
  | geneNotFound
  /-- `ValueError('UTR found but not CDS …')` -/
  | utrNoCds
  /-- `AttributeError`: `self.transcript` is `None` (`split_utr`, `write`) -/
  | noTxRecord
  /-- `KeyError`: `anno.transcripts[tx_id]` in `write` -/
  | keyError
  /-- `ValueError`: attribute without a value (`key, val = [...]` unpacking) or
  `end < start` (`Bio.SeqFeature.SimpleLocation`) -/
  | badLine
  /-- outside the model: a record without `gene_id` / `transcript_id` (Python keys the dict by
  `None`), start column `0` (Python builds a location starting at `-1`) -/
  | unmodelled
  deriving DecidableEq, Repr, Inhabited

def GErr.name : GErr → String
  | .dupGene => "ValueError:dup-gene" | .geneNotFound => "ValueError:gene-not-found"
  | .utrNoCds => "ValueError:utr-no-cds" | .noTxRecord => "AttributeError"
  | .keyError => "KeyError" | .badLine => "ValueError:line" | .unmodelled => "unmodelled"

/-- `[f(x) for x in xs]` with exceptions -/
def mapE {α β : Type} (f : α → Except GErr β) : List α → Except GErr (List β)
  | [] => .ok []
  | x :: xs =>
    match f x with
    | .error e => .error e
    | .ok y => match mapE f xs with
      | .error e => .error e
      | .ok ys => .ok (y :: ys)

/-- nested loop `for x in xs: out += f(x)` with exceptions -/
def flatMapE {α β : Type} (f : α → Except GErr (List β)) : List α → Except GErr (List β)
  | [] => .ok []
  | x :: xs =>
    match f x with
    | .error e => .error e
    | .ok ys => match flatMapE f xs with
      | .error e => .error e
      | .ok zs => .ok (ys ++ zs)

/-! ## constants -/

def kGeneId : Str := ['g','e','n','e','_','i','d']
def kTranscriptId : Str := ['t','r','a','n','s','c','r','i','p','t','_','i','d']
def kProteinId : Str := ['p','r','o','t','e','i','n','_','i','d']
def kGeneName : Str := ['g','e','n','e','_','n','a','m','e']
def kGeneType : Str := ['g','e','n','e','_','t','y','p','e']
def kGeneBiotype : Str := ['g','e','n','e','_','b','i','o','t','y','p','e']
def kTag : Str := ['t','a','g']
def kIpc : Str := ['i','s','_','p','r','o','t','e','i','n','_','c','o','d','i','n','g']
def vTrue : Str := ['t','r','u','e']
def vFalse : Str := ['f','a','l','s','e']
def fGene : Str := ['g','e','n','e']

/-- `attributes_to_keep` of `line_to_seq_feature` -/
def keepKeys : List Str :=
  [kGeneId, kTranscriptId, kProteinId, kGeneName, kGeneType, kGeneBiotype, kTag, kIpc]

/-- ASCII `str.lower()` -/
def lower (s : Str) : Str := s.map Char.toLower

/-! ## the attribute column as text -/

/-- one iteration of the `attrs += f" {key} {val};"` loop of `to_gtf_record` -/
def attrField (kv : Str × Str) : Str := ' ' :: kv.1 ++ ' ' :: kv.2 ++ [';']

/-- column 9 as `to_gtf_record` builds it from the flat `(key, value)` list -/
def colText (kvs : List (Str × Str)) : Str := (kvs.map attrField).flatten

/-- `s.strip()` -/
def strip (s : Str) : Str := rstrip (s.dropWhile isPySpace)

/-- `s.split(c, 1)` when it has two parts (`none`: `c` does not occur, one part) -/
def splitFirst (c : Char) : Str → Option (Str × Str)
  | [] => none
  | x :: xs =>
    if x = c then some ([], xs)
    else match splitFirst c xs with
      | some (a, b) => some (x :: a, b)
      | none => none

/-- `field.strip().split(' ', 1)` followed by the unpacking `key, val = …`
(`ValueError` when there is no space) -/
def colField (f : Str) : Except GErr (Str × Str) :=
  match splitFirst ' ' (strip f) with
  | some kv => .ok kv
  | none => .error .badLine

/-- `[field.strip().split(' ', 1) for field in fields[8].rstrip(';').split(';')]` -/
def colParse (s : Str) : Except GErr (List (Str × Str)) :=
  mapE colField (splitOn ';' (rstripChar ';' s))

/-! ## records -/

/-- `location.strand`: `1`, `-1`, `0` (field `?`), `None` (any other field) -/
inductive GStrand where
  | plus | minus | unknown | none
  deriving DecidableEq, Repr, Inhabited

/-- `_STRAND_LEVELS` -/
def GStrand.level : GStrand → Nat
  | .none => 0 | .unknown => 1 | .minus => 2 | .plus => 3

/-- `{'+':1, '-':-1, '?':0}[fields[6]]`, `KeyError` → `None` -/
def strandOfField (s : Str) : GStrand :=
  if s = ['+'] then .plus else if s = ['-'] then .minus else if s = ['?'] then .unknown else .none

/-- the strand column of `to_gtf_record` -/
def strandField : GStrand → Str
  | .plus => ['+'] | .minus => ['-'] | _ => ['.']

/-- the fields of one GTF line that the parser reads -/
structure Line where
  seqname : Str
  feature : Str
  /-- column 4, 1-based inclusive -/
  start1 : Nat
  /-- column 5, 1-based inclusive -/
  end1 : Nat
  strand : Str
  /-- column 8, `none` = `.` -/
  frame : Option Nat
  /-- column 9 after `colParse` -/
  attrs : List (Str × Str)
  deriving DecidableEq, Repr, Inhabited

/-- `GTFSeqFeature`: chromosome, type, 0-based half-open location, strand, frame and the
`attributes` dict (insertion ordered; `tag` holds a list, every other key a string) -/
structure Rec where
  chrom : Str
  type : Str
  iv : Iv
  strand : GStrand
  frame : Option Nat
  attrs : List (Str × AttrVal)
  deriving DecidableEq, Repr, Inhabited

/-- one iteration of the attribute loop of `line_to_seq_feature` -/
def attrStep (d : List (Str × AttrVal)) (kv : Str × Str) : List (Str × AttrVal) :=
  if keepKeys.contains kv.1 then
    let v := stripChar '"' kv.2
    if kv.1 = kTag then
      match dictGet d kTag with
      | some (.list l) => dictSet d kTag (.list (l ++ [v]))
      | _ => dictSet d kTag (.list [v])
    else dictSet d kv.1 (.str v)
  else d

def parseAttrs (kvs : List (Str × Str)) : List (Str × AttrVal) := kvs.foldl attrStep []

/-- `GtfIO.line_to_seq_feature` on the abstract line -/
def lineToRec (l : Line) : Except GErr Rec :=
  if l.start1 = 0 then .error .unmodelled
  else if l.end1 < l.start1 - 1 then .error .badLine
  else .ok { chrom := l.seqname, type := l.feature, iv := ⟨l.start1 - 1, l.end1⟩,
             strand := strandOfField l.strand, frame := l.frame, attrs := parseAttrs l.attrs }

/-- the `for key, val in record.attributes.items()` loop of `to_gtf_record` as a flat list -/
def flatAttrs : List (Str × AttrVal) → List (Str × Str)
  | [] => []
  | (k, .str v) :: r => (k, v) :: flatAttrs r
  | (k, .list l) :: r => l.map (fun v => (k, v)) ++ flatAttrs r

/-- the `is_protein_coding` suffix of `to_gtf_record` -/
def ipcAttr : Option Bool → List (Str × Str)
  | none => []
  | some true => [(kIpc, vTrue)]
  | some false => [(kIpc, vFalse)]

/-- `GtfIO.to_gtf_record(record, is_protein_coding)` -/
def recToLine (r : Rec) (ipc : Option Bool) : Line :=
  { seqname := r.chrom, feature := r.type, start1 := r.iv.start + 1, end1 := r.iv.stop,
    strand := strandField r.strand, frame := r.frame,
    attrs := flatAttrs r.attrs ++ ipcAttr ipc }

/-- a string-valued attribute (the properties `gene_id`, `transcript_id`, `protein_id` return
`None` when the key is absent) -/
def Rec.getStr (r : Rec) (k : Str) : Option Str :=
  match dictGet r.attrs k with
  | some (.str s) => some s
  | _ => none

/-- the property setters: `self.attributes[key] = val` -/
def Rec.setStr (r : Rec) (k v : Str) : Rec := { r with attrs := dictSet r.attrs k (.str v) }

/-! ## ordering of records (`list.sort()` on `GTFSeqFeature`s) -/

/-- `FeatureLocation.__gt__` (start, then `_STRAND_LEVELS`, then end) -/
def Rec.gt (a b : Rec) : Bool :=
  decide (a.iv.start > b.iv.start) ||
  (decide (a.iv.start = b.iv.start) &&
    (decide (a.strand.level > b.strand.level) ||
      (decide (a.strand.level = b.strand.level) && decide (a.iv.stop > b.iv.stop))))

/-- `FeatureLocation.__eq__` -/
def Rec.eqLoc (a b : Rec) : Bool :=
  decide (a.iv.start = b.iv.start) && decide (a.iv.stop = b.iv.stop) && decide (a.strand = b.strand)

/-- `SeqFeature.__lt__` = `not (self == other or self > other)` -/
def Rec.lt (a b : Rec) : Bool := !(a.eqLoc b || a.gt b)

/-- insertion step of a stable sort: `x` (which precedes every element of the list in the
input) goes before the first element that is not smaller -/
def insertBy {α : Type} (lt : α → α → Bool) (x : α) : List α → List α
  | [] => [x]
  | y :: ys => if lt y x then y :: insertBy lt x ys else x :: y :: ys

/-- stable sort by `lt` (insertion sort).  `list.sort()` is stable and calls only `__lt__`;
for a strict weak order every stable sort returns the same list. -/
def sortBy {α : Type} (lt : α → α → Bool) : List α → List α
  | [] => []
  | x :: xs => insertBy lt x (sortBy lt xs)

/-- `records.sort()` -/
def sortRecs (l : List Rec) : List Rec := sortBy Rec.lt l

/-! ## annotation models -/

/-- `GeneAnnotationModel`: the gene record and the transcript ids in order of appearance -/
structure GeneModel where
  gene : Rec
  transcripts : List Str
  deriving DecidableEq, Repr, Inhabited

/-- `TranscriptAnnotationModel` (`gene_type` is never set: `GTFSeqFeature` has no such
attribute, so `hasattr(record, 'gene_type')` is false; `_seq` is a cache) -/
structure TxModel where
  transcript : Option Rec := none
  cds : List Rec := []
  exon : List Rec := []
  startCodon : List Rec := []
  stopCodon : List Rec := []
  utr : List Rec := []
  fiveUtr : List Rec := []
  threeUtr : List Rec := []
  sec : List Rec := []
  isProteinCoding : Option Bool := none
  transcriptId : Option Str := none
  geneId : Option Str := none
  proteinId : Option Str := none
  geneName : Option Str := none
  deriving DecidableEq, Repr, Inhabited

/-- `GenomicAnnotation`: the two insertion-ordered dicts -/
structure Anno where
  genes : List (Str × GeneModel) := []
  txs : List (Str × TxModel) := []
  deriving DecidableEq, Repr, Inhabited

/-- the values of `GTF_FEATURE_TYPES` -/
inductive Slot where
  | transcript | cds | exon | startCodon | stopCodon | utr | sec | fiveUtr | threeUtr
  deriving DecidableEq, Repr, Inhabited

/-- `GTF_FEATURE_TYPES` (keyed by `record.type.lower()`) -/
def slotOf (f : Str) : Option Slot :=
  if f = ['t','r','a','n','s','c','r','i','p','t'] then some .transcript
  else if f = ['c','d','s'] then some .cds
  else if f = ['e','x','o','n'] then some .exon
  else if f = ['s','t','a','r','t','_','c','o','d','o','n'] then some .startCodon
  else if f = ['s','t','o','p','_','c','o','d','o','n'] then some .stopCodon
  else if f = ['u','t','r'] then some .utr
  else if f = ['s','e','l','e','n','o','c','y','s','t','e','i','n','e'] then some .sec
  else if f = ['f','i','v','e','_','p','r','i','m','e','_','u','t','r'] then some .fiveUtr
  else if f = ['t','h','r','e','e','_','p','r','i','m','e','_','u','t','r'] then some .threeUtr
  else none

/-- the slot a record goes to -/
def Rec.slot (r : Rec) : Option Slot := slotOf (lower r.type)

/-- one iteration of the `for key in […]` loop of `add_record`: the model value is taken from
the record when the model has none (and the record's is neither `None` nor `''`); otherwise
the record's attribute is overwritten with the model's. -/
def syncKey (mv : Option Str) (r : Rec) (k : Str) : Option Str × Rec :=
  match mv with
  | none =>
    match r.getStr k with
    | some v => if v = [] then (none, r) else (some v, r)
    | none => (none, r)
  | some v => (some v, r.setStr k v)

/-- the ids of a `TranscriptAnnotationModel` -/
structure Ids where
  transcriptId : Option Str := none
  geneId : Option Str := none
  proteinId : Option Str := none
  geneName : Option Str := none
  deriving DecidableEq, Repr, Inhabited

/-- the whole key loop of `add_record` (keys in the order of the Python list) -/
def syncIds (i : Ids) (r : Rec) : Ids × Rec :=
  let (t, r1) := syncKey i.transcriptId r kTranscriptId
  let (g, r2) := syncKey i.geneId r1 kGeneId
  let (p, r3) := syncKey i.proteinId r2 kProteinId
  let (n, r4) := syncKey i.geneName r3 kGeneName
  (⟨t, g, p, n⟩, r4)

def TxModel.ids (m : TxModel) : Ids := ⟨m.transcriptId, m.geneId, m.proteinId, m.geneName⟩

def TxModel.setIds (m : TxModel) (i : Ids) : TxModel :=
  { m with transcriptId := i.transcriptId, geneId := i.geneId, proteinId := i.proteinId,
           geneName := i.geneName }

/-- `d.pop(k)` / `del d[k]` on an insertion-ordered dict -/
def dictErase {β : Type} (d : List (Str × β)) (k : Str) : List (Str × β) :=
  d.filter (fun kv => kv.1 ≠ k)

/-- the second half of `add_record`: the `transcript` record replaces `self.transcript` (its
`is_protein_coding` attribute is popped and becomes the flag), any other record is appended
to its list -/
def place (m : TxModel) (s : Slot) (r : Rec) : TxModel :=
  match s with
  | .transcript =>
    match dictGet r.attrs kIpc with
    | some v => { m with transcript := some { r with attrs := dictErase r.attrs kIpc },
                         isProteinCoding := some (decide (v = .str vTrue)) }
    | none => { m with transcript := some r }
  | .cds => { m with cds := m.cds ++ [r] }
  | .exon => { m with exon := m.exon ++ [r] }
  | .startCodon => { m with startCodon := m.startCodon ++ [r] }
  | .stopCodon => { m with stopCodon := m.stopCodon ++ [r] }
  | .utr => { m with utr := m.utr ++ [r] }
  | .sec => { m with sec := m.sec ++ [r] }
  | .fiveUtr => { m with fiveUtr := m.fiveUtr ++ [r] }
  | .threeUtr => { m with threeUtr := m.threeUtr ++ [r] }

/-- `TranscriptAnnotationModel.add_record`; also returns the record as mutated by the key loop
(the caller reads `record.gene_id` afterwards) -/
def addRecord (m : TxModel) (s : Slot) (r : Rec) : TxModel × Rec :=
  let (i, r') := syncIds m.ids r
  (place (m.setIds i) s r', r')

/-- `GenomicAnnotation.add_gene_record` -/
def addGene (a : Anno) (r : Rec) : Except GErr Anno :=
  match r.getStr kGeneId with
  | none => .error .unmodelled
  | some gid =>
    match dictGet a.genes gid with
    | some _ => .error .dupGene
    | none => .ok { a with genes := a.genes ++ [(gid, ⟨r, []⟩)] }

/-- `GenomicAnnotation.add_transcript_record` (records of a type outside `GTF_FEATURE_TYPES`
are ignored; `record.gene_id` is read after `add_record` has overwritten it) -/
def addTx (a : Anno) (r : Rec) : Except GErr Anno :=
  match r.slot with
  | none => .ok a
  | some s =>
    match r.getStr kTranscriptId with
    | none => .error .unmodelled
    | some tid =>
      let m := (dictGet a.txs tid).getD {}
      let (m', r') := addRecord m s r
      let txs' := dictSet a.txs tid m'
      match r'.getStr kGeneId with
      | none => .error .geneNotFound
      | some gid =>
        match dictGet a.genes gid with
        | none => .error .geneNotFound
        | some g =>
          if g.transcripts.contains tid then .ok { a with txs := txs' }
          else .ok { genes := dictSet a.genes gid { g with transcripts := g.transcripts ++ [tid] },
                     txs := txs' }

/-- the loop body of `dump_gtf` (no `biotype` filter) -/
def step (a : Anno) (r : Rec) : Except GErr Anno :=
  if lower r.type = fGene then addGene a r else addTx a r

/-- the `for utr in self.utr` loop of `split_utr` on the 5' side (`first`/`last` = `cds[0]`,
`cds[-1]`) -/
def isFive (strand : GStrand) (first last u : Rec) : Bool :=
  (decide (strand = .plus) && u.lt first) || (decide (strand = .minus) && u.gt last)

/-- `TranscriptAnnotationModel.sort_records` (with `split_utr` inlined) -/
def sortRecords (m : TxModel) : Except GErr TxModel :=
  let cds := sortRecs m.cds
  let fin (five three : List Rec) : TxModel :=
    { m with cds := cds, exon := sortRecs m.exon, startCodon := sortRecs m.startCodon,
             stopCodon := sortRecs m.stopCodon, utr := sortRecs m.utr,
             threeUtr := sortRecs three, fiveUtr := sortRecs five, sec := sortRecs m.sec }
  if m.utr = [] then .ok (fin m.fiveUtr m.threeUtr)
  else
    match m.transcript with
    | none => .error .noTxRecord
    | some t =>
      match cds.head?, cds.getLast? with
      | some first, some last =>
        .ok (fin (m.fiveUtr ++ m.utr.filter (isFive t.strand first last))
                 (m.threeUtr ++ m.utr.filter (fun u => !isFive t.strand first last u)))
      | _, _ => .error .utrNoCds

/-- one iteration of the final `for transcript_model in self.transcripts.values()` loop -/
def sortEntry (kv : Str × TxModel) : Except GErr (Str × TxModel) :=
  match sortRecords kv.2 with
  | .ok m => .ok (kv.1, m)
  | .error e => .error e

/-- the final `for transcript_model in self.transcripts.values(): sort_records()` -/
def finalize (a : Anno) : Except GErr Anno :=
  match mapE sortEntry a.txs with
  | .ok txs => .ok { a with txs := txs }
  | .error e => .error e

/-- the record loop of `dump_gtf` over `GtfIterator.iterate` -/
def parseLines (a : Anno) : List Line → Except GErr Anno
  | [] => .ok a
  | l :: ls =>
    match lineToRec l with
    | .error e => .error e
    | .ok r =>
      match step a r with
      | .error e => .error e
      | .ok a' => parseLines a' ls

/-- `GenomicAnnotation().dump_gtf(handle)` on the non-comment lines of the file -/
def parseGtf (ls : List Line) : Except GErr Anno :=
  match parseLines {} ls with
  | .error e => .error e
  | .ok a => finalize a

/-! ## the writer -/

/-- `x` is the same object as a member of `tx_model.utr`.  Records have no identity here; in
every model the package builds (`add_record` + `split_utr`, `fake.fake_transcript_model`) the
objects shared between `utr` and `five_utr`/`three_utr` are exactly the records of type `UTR`,
and `five_prime_utr` / `three_prime_utr` records are never in `utr`. -/
def isUtrObject (x : Rec) : Bool := decide (x.slot = some .utr)

/-- the records `write` emits after the transcript record, in its order -/
def txRecords (m : TxModel) : List Rec :=
  m.sec ++ (sortRecs (m.cds ++ m.exon) ++ m.utr
    ++ (m.fiveUtr ++ m.threeUtr).filter (fun x => !isUtrObject x)
    ++ (m.startCodon ++ m.stopCodon))

/-- the lines of one transcript in `GtfIO.write` -/
def writeTx (m : TxModel) : Except GErr (List Line) :=
  match m.transcript with
  | none => .error .noTxRecord
  | some t => .ok (recToLine t m.isProteinCoding :: (txRecords m).map (recToLine · none))

/-- `tx_model = anno.transcripts[tx_id]` and its lines -/
def writeTxOf (a : Anno) (tid : Str) : Except GErr (List Line) :=
  match dictGet a.txs tid with
  | none => .error .keyError
  | some m => writeTx m

/-- the lines of one gene -/
def writeGene (a : Anno) (g : GeneModel) : Except GErr (List Line) :=
  match flatMapE (writeTxOf a) g.transcripts with
  | .error e => .error e
  | .ok ls => .ok (recToLine g.gene none :: ls)

/-- `GtfIO.write(handle, anno)` -/
def writeGtf (a : Anno) : Except GErr (List Line) :=
  flatMapE (fun kv : Str × GeneModel => writeGene a kv.2) a.genes

/-! ## normal form, well-formedness (all decidable and executable: the driver evaluates them
on the models the real loader builds) -/

/-- forget the attribute dict of a record -/
def Rec.erase (r : Rec) : Rec := { r with attrs := [] }

/-- forget the attribute dicts of the records in the eight lists (the `transcript` record,
the flag and the ids are kept) -/
def TxModel.erase (m : TxModel) : TxModel :=
  { m with cds := m.cds.map Rec.erase, exon := m.exon.map Rec.erase,
           startCodon := m.startCodon.map Rec.erase, stopCodon := m.stopCodon.map Rec.erase,
           utr := m.utr.map Rec.erase, fiveUtr := m.fiveUtr.map Rec.erase,
           threeUtr := m.threeUtr.map Rec.erase, sec := m.sec.map Rec.erase }

def Anno.erase (a : Anno) : Anno :=
  { a with txs := a.txs.map fun kv => (kv.1, kv.2.erase) }

/-- the transcripts dict re-listed gene by gene, in the order of `gene.transcripts`
(the order in which `write` emits them and therefore the dict order after parsing) -/
def Anno.canon (a : Anno) : Anno :=
  { a with txs := a.genes.flatMap fun kv =>
      kv.2.transcripts.filterMap fun tid => (dictGet a.txs tid).map fun m => (tid, m) }

/-- the key loop of `add_record` run over a list of records in order -/
def syncAll (i : Ids) : List Rec → Ids × List Rec
  | [] => (i, [])
  | r :: rs =>
    let (i1, r') := syncIds i r
    let (i2, rs') := syncAll i1 rs
    (i2, r' :: rs')

/-- the first record of the list carrying a non-empty string for `k` -/
def firstAttr (k : Str) : List Rec → Option Str
  | [] => none
  | r :: rs =>
    match r.getStr k with
    | some v => if v = [] then firstAttr k rs else some v
    | none => firstAttr k rs

/-- `"…".strip('"')` leaves the value unchanged (it neither starts nor ends with `"`) -/
def quoteFree (v : Str) : Bool := decide (stripChar '"' v = v)

/-- an `attributes` dict that `to_gtf_record` → `line_to_seq_feature` reproduces: distinct
kept keys, `tag` (and only `tag`) holds a non-empty list, no value starts or ends with `"` -/
def attrsOK (d : List (Str × AttrVal)) : Bool :=
  decide ((d.map (·.1)).Nodup) &&
  d.all fun kv =>
    keepKeys.contains kv.1 &&
    match kv.2 with
    | .str s => decide (kv.1 ≠ kTag) && quoteFree s
    | .list l => decide (kv.1 = kTag) && decide (l ≠ []) && l.all quoteFree

/-- a record the line codec reproduces: `start ≤ end`, strand `+`, `-` or none (strand `0`
is written as `.` and read back as `None`) -/
def Rec.ok (r : Rec) : Bool :=
  attrsOK r.attrs && decide (r.strand ≠ .unknown) && decide (r.iv.start ≤ r.iv.stop)

/-- sorted for `list.sort()`: no later element is smaller than an earlier one -/
def sortedRecs (l : List Rec) : Bool := decide (l.Pairwise fun a b => b.lt a = false)

/-- every record of a list is codec-clean, goes to slot `s` and names the transcript -/
def listOK (tid : Str) (s : Slot) (l : List Rec) : Bool :=
  l.all fun r => r.ok && decide (r.slot = some s) && decide (r.getStr kTranscriptId = some tid)

/-- the UTR records `split_utr` puts on the 5' side / the 3' side -/
def splitUtr (five : Bool) (t : Rec) (m : TxModel) : List Rec :=
  match m.cds.head?, m.cds.getLast? with
  | some first, some last => m.utr.filter fun u => isFive t.strand first last u == five
  | _, _ => []

/-- A transcript model in the normal form of the loader, listed by gene `gid` under id `tid`:
* a codec-clean `transcript` record of type `transcript` naming `tid` and the (non-empty) `gid`,
  without an `is_protein_coding` attribute (the loader pops it);
* every list holds codec-clean records of its own type naming `tid` (`five_utr`/`three_utr`:
  of type `five_prime_utr`/`three_prime_utr`, or `UTR` records);
* `cds`, `exon`, `start_codon`, `stop_codon`, `utr`, `selenocysteine` sorted;
* `utr` records only together with `cds` records;
* `five_utr` (`three_utr`) = sorted (its own `five_prime_utr` (`three_prime_utr`) records followed
  by the `UTR` records `split_utr` puts on that side);
* the four ids are those of the first record, in writing order, that carries one. -/
def TxModel.wf (gid tid : Str) (m : TxModel) : Bool :=
  match m.transcript with
  | none => false
  | some t =>
    t.ok && decide (t.slot = some .transcript) && decide (t.getStr kTranscriptId = some tid) &&
    decide (t.getStr kGeneId = some gid) && decide (gid ≠ []) &&
    (dictGet t.attrs kIpc).isNone &&
    listOK tid .cds m.cds && listOK tid .exon m.exon && listOK tid .startCodon m.startCodon &&
    listOK tid .stopCodon m.stopCodon && listOK tid .utr m.utr && listOK tid .sec m.sec &&
    listOK tid .fiveUtr (m.fiveUtr.filter fun x => !isUtrObject x) &&
    listOK tid .threeUtr (m.threeUtr.filter fun x => !isUtrObject x) &&
    sortedRecs m.cds && sortedRecs m.exon && sortedRecs m.startCodon && sortedRecs m.stopCodon &&
    sortedRecs m.utr && sortedRecs m.sec &&
    (decide (m.utr = []) || decide (m.cds ≠ [])) &&
    decide (m.fiveUtr = sortRecs ((m.fiveUtr.filter fun x => !isUtrObject x) ++ splitUtr true t m)) &&
    decide (m.threeUtr = sortRecs ((m.threeUtr.filter fun x => !isUtrObject x) ++ splitUtr false t m)) &&
    decide (m.ids = ⟨firstAttr kTranscriptId (t :: txRecords m), firstAttr kGeneId (t :: txRecords m),
                     firstAttr kProteinId (t :: txRecords m), firstAttr kGeneName (t :: txRecords m)⟩)

/-- A well-formed annotation: distinct gene ids; every transcript id listed by exactly one gene
and once; every gene record codec-clean, of type `gene`, carrying its key as `gene_id`; every
listed transcript present in the transcripts dict and well-formed for that gene. -/
def Anno.wf (a : Anno) : Bool :=
  decide ((a.genes.map (·.1)).Nodup) &&
  decide ((a.genes.flatMap (·.2.transcripts)).Nodup) &&
  a.genes.all fun kv =>
    kv.2.gene.ok && decide (lower kv.2.gene.type = fGene) &&
    decide (kv.2.gene.getStr kGeneId = some kv.1) &&
    kv.2.transcripts.all fun tid =>
      match dictGet a.txs tid with
      | some m => m.wf kv.1 tid
      | none => false

/-- the transcripts dict is listed gene by gene (true for every file that lists each gene's
transcripts before the next gene, and after any `write` → `dump_gtf`) -/
def Anno.ordered (a : Anno) : Bool := decide (a.canon = a)

/-- the key loop of `add_record`, run over the records in writing order, changes no attribute
dict (true after one `write` → `dump_gtf`; false e.g. for a freshly loaded ENSEMBL file whose
`protein_id` sits on the CDS records only) -/
def TxModel.stable (m : TxModel) : Bool :=
  match m.transcript with
  | none => false
  | some t => decide ((syncAll {} (t :: txRecords m)).2 = t :: txRecords m)

def Anno.stable (a : Anno) : Bool := a.txs.all fun kv => kv.2.stable

/-! ## the round trip as one function, closure of the well-formedness predicates -/

/-- `GtfIO.write(buf, a)` followed by `GenomicAnnotation().dump_gtf(buf)`: the reloaded
annotation (composition of `writeGtf` and `parseGtf`; an exception of either is the result) -/
def reload (a : Anno) : Except GErr Anno :=
  match writeGtf a with
  | .ok ls => parseGtf ls
  | .error e => .error e

/-- the three hypotheses of the round-trip theorems together: `wf ∧ ordered ∧ stable` (what
`gtf_roundtrip_closed` proves of every reloaded annotation) -/
def Anno.closed (a : Anno) : Bool := a.wf && a.ordered && a.stable

/-! ## what the coordinate model of `Model/Coord.lean` reads from a transcript model -/

def toStrand : GStrand → Option Strand
  | .plus => some .plus | .minus => some .minus | _ => none

/-- strand of the `transcript` record and the exon intervals -/
def TxModel.toTranscript (m : TxModel) : Option Transcript :=
  match m.transcript with
  | none => none
  | some t => (toStrand t.strand).map fun s => ⟨s, m.exon.map (·.iv)⟩

def TxModel.cdsList (m : TxModel) : List Cds := m.cds.map fun r => ⟨r.iv, r.frame⟩
def TxModel.threeUtrIvs (m : TxModel) : List Iv := m.threeUtr.map (·.iv)
def TxModel.secIvs (m : TxModel) : List Iv := m.sec.map (·.iv)

/-- `is_cds_start_nf()` / `is_mrna_end_nf()`: the tag list of the `transcript` record -/
def TxModel.hasTag (m : TxModel) (tag : Str) : Bool :=
  match m.transcript with
  | none => false
  | some t => match dictGet t.attrs kTag with
    | some (.list l) => l.contains tag
    | _ => false

/-! ## text-level well-formedness of the attribute column -/

/-- a key `colText` → `colParse` reproduces: non-empty, no white space, no `;` -/
def keyTextOK (k : Str) : Bool := decide (k ≠ []) && k.all fun c => !isPySpace c && decide (c ≠ ';')

/-- a value `colText` → `colParse` reproduces: non-empty, no `;`, no white space at either end -/
def valTextOK (v : Str) : Bool :=
  decide (v ≠ []) && v.all (fun c => decide (c ≠ ';')) &&
  (match v.head? with | some c => !isPySpace c | none => false) &&
  (match v.getLast? with | some c => !isPySpace c | none => false)

/-- the attribute dict of a record can be written as column text and read back: at least one
`(key, value)` pair is written and every key / value is text-clean -/
def Rec.textOK (r : Rec) : Bool :=
  decide (flatAttrs r.attrs ≠ []) &&
  r.attrs.all fun kv =>
    keyTextOK kv.1 &&
    match kv.2 with
    | .str s => valTextOK s
    | .list l => l.all valTextOK

def TxModel.textOK (m : TxModel) : Bool :=
  (match m.transcript with | some t => t.textOK | none => true) &&
  (m.cds ++ m.exon ++ m.startCodon ++ m.stopCodon ++ m.utr ++ m.fiveUtr ++ m.threeUtr ++ m.sec).all
    Rec.textOK

def Anno.textOK (a : Anno) : Bool :=
  (a.genes.all fun kv => kv.2.gene.textOK) && a.txs.all fun kv => kv.2.textOK

end MoPepGen.Gtf
