import MoPepGen.Model.Coord
/-!
# parseCIRCexplorer (import-free core, C17)

Models, function by function, of

* `moPepGen/parser/CIRCexplorerParser.py` : `CIRCexplorer2KnownRecord.convert_to_circ_rna`,
  `CIRCexplorer2KnownRecord.is_valid`, `CIRCexplorer3KnownRecord.is_valid`
* `moPepGen/gtf/GenomicAnnotation.py`     : `feature_coordinate_gene_to_genomic` (the
  `coordinate='gene'` entry of `find_exon_index` / `find_intron_index`; the two look-ups
  themselves are `findExonIndex` / `findIntronIndex` of `Model/Coord.lean`)
* `moPepGen/circ/CircRNA.py`              : `get_circ_rna_sequence`, the numeric part of `to_string`
* `moPepGen/cli/parse_circexplorer.py`    : the record loop of `parse_circexplorer` (thresholds,
  tallies, skip on `ExonNotFoundError` / `IntronNotFoundError`, abort on anything else, order of
  the emitted records)

The text codec of the emitted GVF line (`CircRNAModel.to_string`, `line_to_circ_model`) is the
subject of C13 (`Model/Gvf.lean`); here the line is a tuple of numbers.

Conventions: a CIRCexplorer record is BED12-like, 0-based half-open; block `i` is the chromosome
interval `[start + offsets[i], start + offsets[i] + sizes[i])`.  Gene and transcript are the
structures of `Model/Coord.lean`; the transcript strand is used where the Python uses
`tx_model.transcript.strand`, the gene strand where it uses `gene.location.strand`.
`exon == feature` in the Python also compares strands: the model assumes features are compared on
the strand of the transcript, i.e. `transcript.strand = gene.strand` (always true for a GTF).

File fields are restricted to natural numbers (`int()` of a digit string); negative sizes /
offsets are outside the model.  Floating point fields (`fpb_circ`, `circ_score` and their
thresholds) are integers in a common fixed-point unit (only compared, never added).
-/
namespace MoPepGen

/-- `circ_type` column -/
inductive CircType where
  /-- `'circRNA'` : every block is an exon -/
  | circ
  /-- `'ciRNA'` : every block is (the 5' part of) an intron -/
  | ci
  /-- anything else: `ValueError('circRNA type unsupported')` -/
  | other
deriving DecidableEq, Repr, Inhabited

/-- exceptions of `convert_to_circ_rna` -/
inductive CircErr where
  /-- raised by a coordinate function or a look-up (`ValueError`, `ExonNotFoundError`,
  `IntronNotFoundError`) -/
  | coord (e : CoordErr)
  /-- `ValueError('circRNA type unsupported: …')` -/
  | badType
  /-- `IndexError` of `self.exon_offsets[i]` -/
  | index
  /-- `KeyError` of `anno.transcripts[tx_id]` -/
  | noTx
deriving DecidableEq, Repr, Inhabited

/-- the fields of `CIRCexplorer2KnownRecord` / `CIRCexplorer3KnownRecord` that the code reads -/
structure CxRecord where
  start : Nat
  stop : Nat
  sizes : List Nat
  offsets : List Nat
  reads : Nat
  ctype : CircType
  /-- `fpb_circ` (CIRCexplorer3 only) -/
  fpb : Int := 0
  /-- `circ_score` (CIRCexplorer3 only) -/
  score : Int := 0
deriving DecidableEq, Repr, Inhabited

/-- chromosome intervals of the blocks, as far as both lists go (specification side) -/
def blocksOf (start : Nat) : List Nat → List Nat → List Iv
  | size :: ss, off :: os => ⟨start + off, start + off + size⟩ :: blocksOf start ss os
  | _, _ => []

def CxRecord.blocks (r : CxRecord) : List Iv := blocksOf r.start r.sizes r.offsets

/-! ## block → fragment -/

/-- `coordinate_genomic_to_gene` on a Python integer (a negative index is below every gene) -/
def genomicToGeneZ (g : Gene) (p : Int) : Except CoordErr Nat :=
  if p < 0 then .error .outOfRange else genomicToGene g p.toNat

/-- the "start, end = …; if strand == -1: swap; end += 1; FeatureLocation(start, end)" idiom.
`FeatureLocation` (Biopython `SimpleLocation`) raises `ValueError` when `end < start`. -/
def orientIv (s : Strand) (a b : Nat) : Except CoordErr Iv :=
  let iv : Iv := match s with
    | .plus => ⟨a, b + 1⟩
    | .minus => ⟨b, a + 1⟩
  if iv.start > iv.stop then .error .badLocation else .ok iv

/-- chromosome interval `[lo, hi)` → gene coordinates the way `convert_to_circ_rna` does it for a
block and for the back-splice site: both ends through `coordinate_genomic_to_gene`
(`hi - 1` is a Python integer, `-1` when `hi = 0`), swapped on the minus strand of the
*transcript*. -/
def spanToGene (g : Gene) (s : Strand) (lo hi : Nat) : Except CoordErr Iv :=
  match genomicToGene g lo with
  | .error e => .error e
  | .ok a =>
    match genomicToGeneZ g ((hi : Int) - 1) with
    | .error e => .error e
    | .ok b => orientIv s a b

/-- loop body of `convert_to_circ_rna`, location of the fragment of one block -/
def blockToFragment (g : Gene) (s : Strand) (start off size : Nat) : Except CoordErr Iv :=
  spanToGene g s (start + off) (start + off + size)

/-- `coordinate_gene_to_genomic` on a Python integer -/
def geneToGenomicZ (g : Gene) (i : Int) : Int :=
  match g.strand with
  | .plus => (g.loc.start : Int) + i
  | .minus => (g.loc.stop : Int) - 1 - i

/-- `GenomicAnnotation.feature_coordinate_gene_to_genomic` (uses the *gene* strand).
`ValueError` when the new end is below the new start.  Biopython accepts a negative start; the
look-ups of `Model/Coord.lean` are over natural numbers, so a negative start is reported as
`outOfRange` here — that branch is unreachable from `convert_to_circ_rna`
(`Lemmas/Circ.lean: featGeneToGenomic_spanToGene`). -/
def featGeneToGenomic (g : Gene) (f : Iv) : Except CoordErr Iv :=
  let a := geneToGenomicZ g f.start
  let b := geneToGenomicZ g ((f.stop : Int) - 1)
  let lo := match g.strand with | .plus => a | .minus => b
  let hi := (match g.strand with | .plus => b | .minus => a) + 1
  if hi < lo then .error .badLocation
  else if lo < 0 then .error .outOfRange
  else .ok ⟨lo.toNat, hi.toNat⟩

/-- `find_exon_index(tx_id, fragment)` / `find_intron_index(tx_id, fragment, 'gene', rs, re)` with
the default `coordinate='gene'` -/
def lookupFragment (g : Gene) (t : Transcript) (isCi : Bool) (rs re : Int × Int) (f : Iv) :
    Except CoordErr Nat :=
  match featGeneToGenomic g f with
  | .error e => .error e
  | .ok gf => if isCi then findIntronIndex t gf rs re else findExonIndex t gf

/-- what the block loop of `convert_to_circ_rna` accumulates -/
structure BlockAcc where
  /-- `fragments` (gene coordinates, block order) -/
  fragments : List Iv
  /-- `intron` : `intron.append(i)` — the 0-based *block* index -/
  intron : List Nat
  /-- third components of `fragment_ids` (exon / intron index found), block order -/
  ids : List Nat
deriving DecidableEq, Repr, Inhabited

/-- the block loop `for i, exon_size in enumerate(self.exon_sizes)`; the first exception wins -/
def convertBlocks (g : Gene) (t : Transcript) (isCi : Bool) (rs re : Int × Int)
    (start : Nat) (offsets : List Nat) : List Nat → Nat → Except CircErr BlockAcc
  | [], _ => .ok ⟨[], [], []⟩
  | size :: rest, i =>
    match offsets[i]? with
    | none => .error .index
    | some off =>
      match blockToFragment g t.strand start off size with
      | .error e => .error (.coord e)
      | .ok frag =>
        match lookupFragment g t isCi rs re frag with
        | .error e => .error (.coord e)
        | .ok k =>
          match convertBlocks g t isCi rs re start offsets rest (i + 1) with
          | .error e => .error e
          | .ok acc => .ok ⟨frag :: acc.fragments, if isCi then i :: acc.intron else acc.intron,
              k :: acc.ids⟩

/-- the `CircRNAModel` built by `convert_to_circ_rna` (ids and names are carried by the harness) -/
structure CircOut where
  fragments : List Iv
  intron : List Nat
  /-- `circ_id = f"CIRC-{tx_id}-{start_gene}:{end_gene}"` (also `backsplicing_site`) -/
  idStart : Nat
  idStop : Nat
  /-- `genomic_location = f"{chrom}:{start}:{end}"` -/
  genomicStart : Nat
  genomicStop : Nat
  /-- the exon / intron indices of `fragment_ids` (computed, sorted and then dropped by the code) -/
  ids : List Nat
deriving DecidableEq, Repr, Inhabited

/-- `CIRCexplorer2KnownRecord.convert_to_circ_rna` for a record whose `isoform_name` resolves to
transcript `t` of gene `g` -/
def convertToCircRna (g : Gene) (t : Transcript) (rs re : Int × Int) (r : CxRecord) :
    Except CircErr CircOut :=
  match r.ctype with
  | .other => .error .badType
  | ct =>
    let isCi := decide (ct = .ci)
    match convertBlocks g t isCi rs re r.start r.offsets r.sizes 0 with
    | .error e => .error e
    | .ok acc =>
      match spanToGene g t.strand r.start r.stop with
      | .error e => .error (.coord e)
      | .ok bs => .ok ⟨acc.fragments, acc.intron, bs.start, bs.stop, r.start, r.stop, acc.ids⟩

/-! ## `CircRNAModel` -/

/-- `a <= b` as Python's `sorted` sees it (`not b < a`, `SeqFeature.__lt__`, same strand) -/
def Iv.le (a b : Iv) : Bool := !(b.lt a)

/-- `sorted(self.fragments)` — a stable sort by `SeqFeature.__lt__` -/
def sortFragments (fs : List Iv) : List Iv := fs.mergeSort Iv.le

/-- `CircRNAModel.get_circ_rna_sequence(seq)` (sequence letters only): the slices
`seq[start:end]` of the sorted fragments, concatenated -/
def circSeq (geneSeq : List Char) (fs : List Iv) : List Char :=
  exonConcat geneSeq (sortFragments fs)

/-- numeric content of `CircRNAModel.to_string`: `start = fragments[0].start`
(`IndexError` without fragments), `OFFSET`, `LENGTH` -/
def gvfNumbers (fs : List Iv) : Option (Nat × List Int × List Nat) :=
  match fs with
  | [] => none
  | f0 :: _ => some (f0.start, fs.map (fun f => (f.start : Int) - f0.start),
      fs.map (fun f => f.stop - f.start))

/-- the fragment type the GVF *reader* assigns to fragment `j`
(`'intron' if j+1 in introns else 'exon'`, `circ/io.py` and `get_gene_coordinates`) -/
def readerIsIntron (intron : List Nat) (j : Nat) : Bool := intron.contains (j + 1)

/-- the fragment type the *parser* gave fragment `j` (`intron.append(i)` for every block of a
ciRNA) -/
def writerIsIntron (intron : List Nat) (j : Nat) : Bool := intron.contains j

/-! ## thresholds and the record loop of `parse_circexplorer` -/

/-- the CLI options that take part in the loop -/
structure CxOptions where
  /-- `--circexplorer3` -/
  ce3 : Bool
  /-- `--min-read-number` -/
  minReads : Nat
  /-- `min_fbr_circ` (`None` = not given) -/
  minFpb : Option Int := none
  /-- `--min-circ-score` -/
  minScore : Option Int := none
  rs : Int × Int
  re : Int × Int
deriving DecidableEq, Repr, Inhabited

/-- Python truthiness of an optional number: `None` and `0` are false -/
def truthy : Option Int → Bool
  | none => false
  | some x => x != 0

/-- `CIRCexplorer2KnownRecord.is_valid` -/
def isValid2 (r : CxRecord) (minReads : Nat) : Bool := decide (r.reads ≥ minReads)

/-- `CIRCexplorer3KnownRecord.is_valid` -/
def isValid3 (r : CxRecord) (minReads : Nat) (minFpb minScore : Option Int) : Bool :=
  if truthy minFpb && decide (r.fpb < minFpb.getD 0) then false
  else if truthy minScore && decide (r.score < minScore.getD 0) then false
  else isValid2 r minReads

/-- the validity test the loop applies -/
def isValid (o : CxOptions) (r : CxRecord) : Bool :=
  if o.ce3 then isValid3 r o.minReads o.minFpb o.minScore else isValid2 r o.minReads

/-- the tallies of `TallyTable` that the loop touches (`succeed` is never incremented by the
code and is not modelled) -/
structure Tally where
  total : Nat := 0
  skipped : Nat := 0
  insufficient : Nat := 0
  invalid : Nat := 0
deriving DecidableEq, Repr, Inhabited

/-- one input record together with what `anno.transcripts[isoform_name]` resolves to: the rank
of the gene in `anno.get_genes_rank()`, the gene and the transcript (`none` = `KeyError`) -/
structure CxInput where
  record : CxRecord
  ref : Option (Nat × Gene × Transcript)
deriving Repr, Inhabited

/-- what happens to one record in the loop -/
inductive Outcome where
  | insufficient
  | invalid
  | emitted (rank : Nat) (c : CircOut)
  | abort (e : CircErr)
deriving DecidableEq, Repr, Inhabited

/-- loop body of `parse_circexplorer` for one record -/
def processRecord (o : CxOptions) (x : CxInput) : Outcome :=
  if !isValid o x.record then .insufficient
  else match x.ref with
    | none => .abort .noTx
    | some (rank, g, t) =>
      match convertToCircRna g t o.rs o.re x.record with
      | .ok c => .emitted rank c
      | .error (.coord .exonNotFound) => .invalid
      | .error (.coord .intronNotFound) => .invalid
      | .error e => .abort e

/-- the loop: tallies and the converted records in input order; any other exception aborts the
command (nothing is written) -/
def runLoop (o : CxOptions) : List CxInput → Tally → List (Nat × CircOut) →
    Except CircErr (Tally × List (Nat × CircOut))
  | [], t, acc => .ok (t, acc.reverse)
  | x :: xs, t, acc =>
    let t := { t with total := t.total + 1 }
    match processRecord o x with
    | .insufficient =>
      runLoop o xs { t with skipped := t.skipped + 1, insufficient := t.insufficient + 1 } acc
    | .invalid =>
      runLoop o xs { t with skipped := t.skipped + 1, invalid := t.invalid + 1 } acc
    | .emitted rank c => runLoop o xs t ((rank, c) :: acc)
    | .abort e => .error e

/-- order of the written lines: genes by `genes_rank`, records of one gene in input order
(dict of lists + `sorted(keys)`), i.e. a stable sort by rank -/
def emitOrder (l : List (Nat × CircOut)) : List (Nat × CircOut) :=
  l.mergeSort (fun a b => decide (a.1 ≤ b.1))

/-- `parse_circexplorer`: tallies and the records in the order they are written -/
def parseCircexplorer (o : CxOptions) (xs : List CxInput) :
    Except CircErr (Tally × List (Nat × CircOut)) :=
  match runLoop o xs {} [] with
  | .error e => .error e
  | .ok (t, l) => .ok (t, emitOrder l)

end MoPepGen
