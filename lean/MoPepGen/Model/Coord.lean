/-!
# Reference-model coordinates and sequences (import-free core, reused by C11, C14–C17)

Models, function by function, of

* `moPepGen/gtf/GenomicAnnotation.py`  : `coordinate_genomic_to_gene`, `coordinate_gene_to_genomic`,
  `coordinate_transcript_to_genomic`, `coordinate_gene_to_transcript`, `find_exon_index`,
  `find_intron_index`
* `moPepGen/gtf/TranscriptAnnotationModel.py` : `get_transcript_index`, `get_transcript_sequence`
  (sequence, ORF, selenocysteine), `get_cds_start_index`, `get_cds_end_index`, `is_exonic`,
  `get_upstream_exon_end`, `get_downstream_exon_start`, `transcript_len`
* `moPepGen/gtf/GeneAnnotationModel.py` : `get_gene_sequence`

Conventions (those of the Python after `GtfIO.line_to_seq_feature`):
all intervals are 0-based half-open `[start, stop)` on the chromosome; the exon list of a
transcript is the list `tx_model.exon` *after* `sort_records`, i.e. ascending by genomic
start on both strands; transcript / gene coordinates count from the 5' end of the feature
(so on the minus strand they run from high to low genomic positions).

Python `raise` is modelled by `Except CoordErr`; the harness maps the error classes to
`reject:<class>` / `crash:<type>`.
-/
namespace MoPepGen

/-- strand of a gene / transcript (`location.strand` = `1` / `-1`).  Unstranded features
(`strand ∈ {0, None}`) are rejected by every modelled function with
`ValueError("Don't know how to handle unstranded …")` and are outside this model. -/
inductive Strand where
  | plus
  | minus
deriving DecidableEq, Repr, Inhabited

/-- half-open interval `[start, stop)` of 0-based positions (`FeatureLocation`) -/
structure Iv where
  start : Nat
  stop : Nat
deriving DecidableEq, Repr, Inhabited

namespace Iv
/-- `len(location)` = `end - start` -/
def len (e : Iv) : Nat := e.stop - e.start
/-- `pos in location` : `start <= pos < end` -/
def contains (e : Iv) (p : Nat) : Bool := decide (e.start ≤ p) && decide (p < e.stop)
/-- `a.is_superset(b)` -/
def isSuperset (a b : Iv) : Bool := decide (a.start ≤ b.start) && decide (b.stop ≤ a.stop)
end Iv

/-- errors raised by the modelled functions -/
inductive CoordErr where
  /-- `ValueError`: position outside the gene / transcript -/
  | outOfRange
  /-- `ValueError(ERROR_INDEX_IN_INTRON)` -/
  | intron
  /-- `IndexError`: the transcript model has no exon -/
  | noExon
  /-- `err.ExonNotFoundError` -/
  | exonNotFound
  /-- `err.IntronNotFoundError` -/
  | intronNotFound
  /-- `UnboundLocalError` (`get_upstream_exon_end` never assigns `ind` before the first exon) -/
  | unbound
  /-- `ValueError("Could not find the upstream exon end.")` -/
  | notFound
  /-- `TypeError` (`cds_start + None` when the first CDS record has frame `.` on `+`) -/
  | typeError
  /-- `ValueError` of `Bio.SeqFeature.SimpleLocation(start, end)` when `end < start` -/
  | badLocation
deriving DecidableEq, Repr, Inhabited

deriving instance DecidableEq for Except

/-- a gene: strand and genomic interval (`GeneAnnotationModel.location`) -/
structure Gene where
  strand : Strand
  loc : Iv
deriving DecidableEq, Repr, Inhabited

/-- a transcript: strand and exon list (`TranscriptAnnotationModel.exon` after `sort_records`,
ascending genomic order on both strands) -/
structure Transcript where
  strand : Strand
  exons : List Iv
deriving DecidableEq, Repr, Inhabited

/-! ## well-formedness -/

/-- every interval is non-empty -/
def NonEmptyIvs (es : List Iv) : Prop := ∀ e ∈ es, e.start < e.stop
/-- ascending and pairwise separated by at least one base (an intron of length ≥ 1) -/
def Separated (es : List Iv) : Prop := es.Pairwise (fun a b => a.stop < b.start)

instance (es : List Iv) : Decidable (NonEmptyIvs es) := by unfold NonEmptyIvs; infer_instance
instance (es : List Iv) : Decidable (Separated es) := by unfold Separated; infer_instance

/-- Well-formed transcript: at least one exon, exons non-empty, sorted ascending, pairwise
separated by ≥ 1 base. -/
def Transcript.WF (t : Transcript) : Prop :=
  t.exons ≠ [] ∧ NonEmptyIvs t.exons ∧ Separated t.exons

instance (t : Transcript) : Decidable t.WF := by unfold Transcript.WF; infer_instance

/-- Well-formed gene: non-empty interval. -/
def Gene.WF (g : Gene) : Prop := g.loc.start < g.loc.stop
instance (g : Gene) : Decidable g.WF := by unfold Gene.WF; infer_instance

/-- the transcript lies inside the gene and on the same strand -/
def Transcript.Within (t : Transcript) (g : Gene) : Prop :=
  t.strand = g.strand ∧ ∀ e ∈ t.exons, g.loc.start ≤ e.start ∧ e.stop ≤ g.loc.stop
instance (t : Transcript) (g : Gene) : Decidable (t.Within g) := by
  unfold Transcript.Within; infer_instance

/-- every interval of `fs` is contained in one exon (`CDS ⊆ exons`, `Sec ⊆ exons`, …) -/
def Transcript.Covers (t : Transcript) (fs : List Iv) : Prop :=
  ∀ f ∈ fs, f.start < f.stop ∧ ∃ e ∈ t.exons, e.isSuperset f = true
instance (t : Transcript) (fs : List Iv) : Decidable (t.Covers fs) := by
  unfold Transcript.Covers; infer_instance

/-! ## gene ↔ genomic -/

/-- gene length -/
def Gene.len (g : Gene) : Nat := g.loc.len

/-- `GenomicAnnotation.coordinate_genomic_to_gene` -/
def genomicToGene (g : Gene) (p : Nat) : Except CoordErr Nat :=
  if g.loc.start ≤ p ∧ p < g.loc.stop then
    match g.strand with
    | .plus => .ok (p - g.loc.start)
    | .minus => .ok (g.loc.stop - 1 - p)
  else .error .outOfRange

/-- `GenomicAnnotation.coordinate_gene_to_genomic` — the Python does **no** range check, so
the result is an integer that may lie outside the gene (and be negative on the minus strand). -/
def geneToGenomic (g : Gene) (i : Nat) : Int :=
  match g.strand with
  | .plus => (g.loc.start : Int) + i
  | .minus => (g.loc.stop : Int) - 1 - i

/-! ## transcript ↔ genomic -/

/-- `TranscriptAnnotationModel.transcript_len` / `sum(len(x.location) for x in exon)` -/
def exonsLen : List Iv → Nat
  | [] => 0
  | e :: es => e.len + exonsLen es

def Transcript.len (t : Transcript) : Nat := exonsLen t.exons

/-- `exon[0].location.start` (0 when there is no exon) -/
def Transcript.spanStart (t : Transcript) : Nat :=
  match t.exons.head? with | some e => e.start | none => 0
/-- `exon[-1].location.end` (0 when there is no exon) -/
def Transcript.spanStop (t : Transcript) : Nat :=
  match t.exons.getLast? with | some e => e.stop | none => 0

/-- `TranscriptAnnotationModel.is_exonic` -/
def isExonic (t : Transcript) (p : Nat) : Bool := t.exons.any (·.contains p)

/-- plus-strand loop of `get_transcript_index`; `acc` is the running `index`.
Falling out of the loop returns `index` (as the Python does). -/
def txIndexPlus (p : Nat) : List Iv → Nat → Except CoordErr Nat
  | [], acc => .ok acc
  | e :: es, acc =>
    if e.stop < p then txIndexPlus p es (acc + (e.stop - e.start))
    else if e.stop = p then .error .intron
    else if e.start ≤ p then .ok (acc + (p - e.start))
    else .error .intron

/-- minus-strand loop of `get_transcript_index` over `reversed(exon)`; the Python starts
with `index = -1`; `acc1` holds `index + 1` so that it stays a natural number. -/
def txIndexMinus (p : Nat) : List Iv → Nat → Except CoordErr Nat
  | [], acc1 => .ok (acc1 - 1)
  | e :: es, acc1 =>
    if e.start ≥ p then
      if e.start = p then .ok (acc1 + (e.stop - e.start) - 1)
      else txIndexMinus p es (acc1 + (e.stop - e.start))
    else if e.stop > p then .ok (acc1 + (e.stop - p) - 1)
    else .error .intron

/-- `TranscriptAnnotationModel.get_transcript_index` (genomic → transcript) -/
def txIndex (t : Transcript) (p : Nat) : Except CoordErr Nat :=
  match t.exons.head?, t.exons.getLast? with
  | some first, some last =>
    if p < first.start ∨ p ≥ last.stop then .error .outOfRange
    else match t.strand with
      | .plus => txIndexPlus p t.exons 0
      | .minus => txIndexMinus p t.exons.reverse 0
  | _, _ => .error .noExon

/-- plus-strand loop of `coordinate_transcript_to_genomic` -/
def toGenomicPlus (i : Nat) : List Iv → Except CoordErr Nat
  | [] => .error .outOfRange
  | e :: es =>
    if i < e.stop - e.start then .ok (i + e.start)
    else toGenomicPlus (i - (e.stop - e.start)) es

/-- minus-strand loop of `coordinate_transcript_to_genomic` over `reversed(exon)` -/
def toGenomicMinus (i : Nat) : List Iv → Except CoordErr Nat
  | [] => .error .outOfRange
  | e :: es =>
    if i < e.stop - e.start then .ok (e.stop - 1 - i)
    else toGenomicMinus (i - (e.stop - e.start)) es

/-- `GenomicAnnotation.coordinate_transcript_to_genomic` (transcript → genomic).
`index == tx_size` passes the explicit check but falls out of the loop into the final
`raise ValueError`; both are the class `out-of-range`. -/
def txToGenomic (t : Transcript) (i : Nat) : Except CoordErr Nat :=
  if t.len < i then .error .outOfRange
  else match t.strand with
    | .plus => toGenomicPlus i t.exons
    | .minus => toGenomicMinus i t.exons.reverse

/-- `GenomicAnnotation.coordinate_gene_to_transcript` (membership of the transcript in the
gene is checked by the caller / harness). A negative genomic position is below every exon,
hence out of range. -/
def geneToTx (g : Gene) (t : Transcript) (i : Nat) : Except CoordErr Nat :=
  let p := geneToGenomic g i
  if p < 0 then (if t.exons = [] then .error .noExon else .error .outOfRange)
  else txIndex t p.toNat

/-- transcript → gene coordinate, as composed in `variant_coordinates_to_gene`
(`coordinate_transcript_to_genomic` then `coordinate_genomic_to_gene`) -/
def txToGene (g : Gene) (t : Transcript) (i : Nat) : Except CoordErr Nat :=
  match txToGenomic t i with
  | .ok p => genomicToGene g p
  | .error e => .error e

/-! ## sequences -/

/-- Watson–Crick complement on the genome alphabet (`Bio.Seq.complement` restricted to
`ACGTN`, either case; other letters are left unchanged here) -/
def complement (c : Char) : Char :=
  match c with
  | 'A' => 'T' | 'T' => 'A' | 'C' => 'G' | 'G' => 'C'
  | 'a' => 't' | 't' => 'a' | 'c' => 'g' | 'g' => 'c'
  | c => c

/-- `Seq.reverse_complement` -/
def revComp (s : List Char) : List Char := (s.map complement).reverse

/-- the base a feature on `strand` reads at a genomic base -/
def strandBase : Strand → Char → Char
  | .plus, c => c
  | .minus, c => complement c

/-- Python chromSlice `chrom.seq[start:end]` (truncating at the end of the chromosome) -/
def chromSlice (chrom : List Char) (e : Iv) : List Char := (chrom.drop e.start).take (e.stop - e.start)

/-- `GeneAnnotationModel.get_gene_sequence` -/
def geneSeq (chrom : List Char) (g : Gene) : List Char :=
  match g.strand with
  | .plus => chromSlice chrom g.loc
  | .minus => revComp (chromSlice chrom g.loc)

/-- concatenation of the exon slices in genomic order -/
def exonConcat (chrom : List Char) : List Iv → List Char
  | [] => []
  | e :: es => chromSlice chrom e ++ exonConcat chrom es

/-- the sequence part of `TranscriptAnnotationModel.get_transcript_sequence`
(`ValueError` when there is no exon) -/
def txSeq (chrom : List Char) (t : Transcript) : Except CoordErr (List Char) :=
  if t.exons = [] then .error .noExon
  else match t.strand with
    | .plus => .ok (exonConcat chrom t.exons)
    | .minus => .ok (revComp (exonConcat chrom t.exons))

/-- all exons lie on the chromosome (otherwise Python slicing silently truncates) -/
def OnChrom (n : Nat) (es : List Iv) : Prop := ∀ e ∈ es, e.stop ≤ n
instance (n : Nat) (es : List Iv) : Decidable (OnChrom n es) := by unfold OnChrom; infer_instance

/-! ## CDS / ORF / selenocysteine -/

/-- a CDS record: interval and GTF frame column (`none` = `.`) -/
structure Cds where
  iv : Iv
  frame : Option Nat
deriving DecidableEq, Repr, Inhabited

/-- plus-strand loop of `get_cds_start_index` (`c` = `cds[0].location.start`) -/
def cdsStartPlus (c : Nat) : List Iv → Nat → Nat
  | [], acc => acc
  | e :: es, acc =>
    if e.contains c then acc + (c - e.start) else cdsStartPlus c es (acc + e.len)

/-- minus-strand loop of `get_cds_start_index` over `reversed(exon)`
(`c` = `cds[-1].location.end`) -/
def cdsStartMinus (c : Nat) : List Iv → Nat → Nat
  | [], acc => acc
  | e :: es, acc =>
    if c ≠ e.stop ∧ e.contains c = false then cdsStartMinus c es (acc + e.len)
    else acc + (e.stop - c)

/-- `TranscriptAnnotationModel.get_cds_start_index`; `cds` is sorted ascending.
On the plus strand the frame of the first record is added as is (`None` → `TypeError`),
on the minus strand `frame or 0` of the last record. An empty `cds` is an `IndexError`. -/
def cdsStartIndex (t : Transcript) (cds : List Cds) : Except CoordErr Nat :=
  match t.strand with
  | .plus =>
    match cds.head? with
    | none => .error .noExon
    | some c0 =>
      match c0.frame with
      | none => .error .typeError
      | some f => .ok (cdsStartPlus c0.iv.start t.exons 0 + f)
  | .minus =>
    match cds.getLast? with
    | none => .error .noExon
    | some cl => .ok (cdsStartMinus cl.iv.stop t.exons.reverse 0 + cl.frame.getD 0)

/-- `end - (end - start) % 3` with Python's (floored) `%` on integers -/
def alignEnd (e start : Int) : Int := e - (e - start) % 3

/-- `TranscriptAnnotationModel.get_cds_end_index(seq, start)`; `threeUtr` is the sorted list
`three_utr` (ENSEMBL `three_prime_utr` records and the GENCODE `UTR` records that
`split_utr` put on the 3' side), `seqLen = len(seq)`. -/
def cdsEndIndex (t : Transcript) (threeUtr : List Iv) (seqLen start : Nat) :
    Except CoordErr Int :=
  match t.strand with
  | .plus =>
    match threeUtr.head? with
    | none => .ok (alignEnd seqLen start)
    | some u => match txIndex t u.start with
      | .ok e => .ok (alignEnd e start)
      | .error x => .error x
  | .minus =>
    match threeUtr.getLast? with
    | none => .ok (alignEnd seqLen start)
    | some u => match txIndex t (u.stop - 1) with
      | .ok e => .ok (alignEnd e start)
      | .error x => .error x

/-- the `orf` attached by `get_transcript_sequence`: `none` when there is no CDS;
`FeatureLocation(start=cds_start, end=cds_end)` raises when `cds_end < cds_start` (a CDS
shorter than its own frame offset) -/
def txOrf (t : Transcript) (cds : List Cds) (threeUtr : List Iv) :
    Except CoordErr (Option (Nat × Int)) :=
  if cds = [] then .ok none
  else match cdsStartIndex t cds with
    | .error x => .error x
    | .ok s => match cdsEndIndex t threeUtr t.len s with
      | .error x => .error x
      | .ok e => if e < (s : Int) then .error .badLocation else .ok (some (s, e))

/-- one selenocysteine feature mapped to transcript coordinates (loop body in
`get_transcript_sequence`; the feature strand is the transcript strand) -/
def secLoc (t : Transcript) (sec : Iv) : Except CoordErr (Nat × Nat) :=
  match t.strand with
  | .plus =>
    match txIndex t sec.start, txIndex t (sec.stop - 1) with
    | .ok a, .ok b => .ok (a, b + 1)
    | .error x, _ => .error x
    | _, .error x => .error x
  | .minus =>
    match txIndex t (sec.stop - 1), txIndex t sec.start with
    | .ok a, .ok b => .ok (a, b + 1)
    | .error x, _ => .error x
    | _, .error x => .error x

/-- all selenocysteine features, in the order of the (sorted) input list; the Python sorts the
result afterwards (done by the caller) -/
def secLocs (t : Transcript) : List Iv → Except CoordErr (List (Nat × Nat))
  | [] => .ok []
  | s :: ss => match secLoc t s with
    | .error x => .error x
    | .ok r => match secLocs t ss with
      | .error x => .error x
      | .ok rs => .ok (r :: rs)

/-! ## exon lookups -/

/-- plus-strand loop of `get_upstream_exon_end`; `ind = none` models the unassigned local -/
def upstreamEndPlus (p : Nat) : List Iv → Option Nat → Option Nat
  | [], ind => ind
  | e :: es, ind => if e.stop > p then ind else upstreamEndPlus p es (some (e.stop - 1))

def upstreamEndMinus (p : Nat) : List Iv → Option Nat → Option Nat
  | [], ind => ind
  | e :: es, ind => if e.start < p then ind else upstreamEndMinus p es (some e.start)

/-- `TranscriptAnnotationModel.get_upstream_exon_end`. `ind` is never initialised in the
Python, so "no upstream exon" is an `UnboundLocalError`, not the intended `ValueError`. -/
def upstreamExonEnd (t : Transcript) (p : Nat) : Except CoordErr Nat :=
  match (match t.strand with
    | .plus => upstreamEndPlus p t.exons none
    | .minus => upstreamEndMinus p t.exons.reverse none) with
  | none => .error .unbound
  | some i => .ok i

/-- `TranscriptAnnotationModel.get_downstream_exon_start` -/
def downstreamExonStart (t : Transcript) (p : Nat) : Except CoordErr Nat :=
  match (match t.strand with
    | .plus => t.exons.find? (fun e => e.start ≥ p) |>.map (·.start)
    | .minus => t.exons.reverse.find? (fun e => e.stop - 1 ≤ p) |>.map (·.stop - 1)) with
  | none => .error .notFound
  | some i => .ok i

/-- `FeatureLocation.__gt__` for two locations on the same strand -/
def Iv.gt (a b : Iv) : Bool :=
  decide (a.start > b.start) || (decide (a.start = b.start) && decide (a.stop > b.stop))

/-- `FeatureLocation.__lt__` = `not (a > b or a == b)` (same strand) -/
def Iv.lt (a b : Iv) : Bool := !(a.gt b || decide (a = b))

def findExonPlus (f : Iv) : List Iv → Nat → Except CoordErr Nat
  | [], _ => .error .exonNotFound
  | e :: es, i =>
    if e = f then .ok i else if e.gt f then .error .exonNotFound else findExonPlus f es (i + 1)

def findExonMinus (f : Iv) : List Iv → Nat → Except CoordErr Nat
  | [], _ => .error .exonNotFound
  | e :: es, i =>
    if e = f then .ok i else if e.lt f then .error .exonNotFound else findExonMinus f es (i + 1)

/-- `GenomicAnnotation.find_exon_index(tx, feature, coordinate='genomic')` for a feature on
the transcript's strand: index of the exon in transcript (5'→3') order -/
def findExonIndex (t : Transcript) (f : Iv) : Except CoordErr Nat :=
  match t.strand with
  | .plus => findExonPlus f t.exons 0
  | .minus => findExonMinus f t.exons.reverse 0

/-- `x in FeatureLocation(start=lo, end=hi+1)` for an integer offset -/
def inRange (x : Int) (r : Int × Int) : Bool := decide (r.1 ≤ x) && decide (x < r.2 + 1)

/-- plus-strand loop of `find_intron_index` (`i` = index of `e` in `exons`) -/
def findIntronPlus (f : Iv) (rs re : Int × Int) : List Iv → Nat → Except CoordErr Nat
  | [], _ => .error .intronNotFound
  | e :: es, i =>
    if inRange ((f.start : Int) - e.stop) rs then
      match es with
      | [] => .error .intronNotFound
      | e2 :: _ =>
        if inRange ((f.stop : Int) - e2.start) re then .ok i
        else if e2.start ≥ f.stop then .ok i
        else .error .intronNotFound
    else if e.start > f.stop then .error .intronNotFound
    else findIntronPlus f rs re es (i + 1)

/-- minus-strand loop of `find_intron_index` over `reversed(list(enumerate(exons)))`;
`i` is the *genomic-order* index of `e`; the Python returns `i_next + 1 = i` -/
def findIntronMinus (f : Iv) (rs re : Int × Int) : List Iv → Nat → Except CoordErr Nat
  | [], _ => .error .intronNotFound
  | e :: es, i =>
    if inRange (-((f.stop : Int) - e.start)) rs then
      match es with
      | [] => .error .intronNotFound
      | e2 :: _ =>
        if inRange (-((f.start : Int) - e2.stop)) re then .ok i
        else if e2.stop ≤ f.start then .ok i
        else .error .intronNotFound
    else if e.stop < f.start then .error .intronNotFound
    else findIntronMinus f rs re es (i - 1)

/-- `GenomicAnnotation.find_intron_index(tx, feature, 'genomic', start_range, end_range)`.
Plus strand: index of the upstream exon in genomic order; minus strand: genomic-order index
of the upstream (higher) exon. -/
def findIntronIndex (t : Transcript) (f : Iv) (rs re : Int × Int) : Except CoordErr Nat :=
  match t.strand with
  | .plus => findIntronPlus f rs re t.exons 0
  | .minus => findIntronMinus f rs re t.exons.reverse (t.exons.length - 1)

end MoPepGen
