/-
Layer S for the site/range pairing of moPepGen/aa/expasy_rules.py
(EXPASY_RULES ↔ EXPASY_RULES2 ↔ EXPASY_RULES_WINGS_SIZE) as
`AminoAcidSeqRecord.iter_enzymatic_cleave_sites_with_range` uses them:

* `Re.matchRange`   the range that belongs to a site: the window of the leftmost
                    alternative that matches there (what the graph code calls the
                    "full cleavage pattern range");
* `rangeSpec`       positional statement of `iter_enzymatic_cleave_sites_with_range`;
* `Re.pairOK`       decidable condition on a rule under which the k-th `re.finditer`
                    match of the site pattern and the k-th overlapped match of the
                    flattened pattern belong together for EVERY string;
* `wingsCover`      `EXPASY_RULES_WINGS_SIZE[rule]` reaches at least as far as every
                    look-behind (+ the consumed residue) and look-ahead of the rule.

No imports outside Model: linked into the native driver.
-/
import MoPepGen.Model.Digest
namespace MoPepGen

/-- No character satisfies both classes (sound, not complete: `false` for two negated
classes and for `\w` against a negated class). -/
def Cls.disjoint : Cls → Cls → Bool
  | .pos xs, .pos ys => xs.all fun c => !ys.contains c
  | .pos xs, .neg ys => xs.all fun c => ys.contains c
  | .neg xs, .pos ys => ys.all fun c => xs.contains c
  | .pos xs, .word   => xs.all fun c => !isWordChar c
  | .word,   .pos ys => ys.all fun c => !isWordChar c
  | _, _ => false

/-- Two class sequences laid over the same start cannot both match: at some common
index the classes are disjoint. -/
def clash : List Cls → List Cls → Bool
  | x :: xs, y :: ys => x.disjoint y || clash xs ys
  | _, _ => false

/-- `a` (longer look-behind) and `b` can never match such that `b`'s window starts
inside the first `|lb a| - |lb b|` residues of `a`'s window or at its start — i.e. never
with the same consumed residue, never with the same start, never crossing. -/
def Alt.compatOK (a b : Alt) : Bool :=
  if b.lb.length < a.lb.length then
    (List.range (a.lb.length - b.lb.length + 1)).all fun e => clash (a.flat.drop e) b.flat
  else true

/-- The rule's alternatives with different look-behind lengths exclude each other
wherever their windows could be paired wrongly. -/
def Re.pairOK (r : Re) : Bool := r.all fun a => r.all fun b => a.compatOK b

/-- The range that belongs to site `i` (1-based end of the consumed residue):
`(start, end)` of the leftmost alternative matching with its consumed residue at `i-1`. -/
def Re.matchRange (r : Re) (s : List Char) (i : Nat) : Nat × Nat :=
  match r.find? (·.matchAt s (i - 1)) with
  | some a => (i - 1 - a.lb.length, i + a.la.length)
  | none => (0, 0)

/-- S: what `iter_enzymatic_cleave_sites_with_range` is to return: every ExPASy site
(ascending) with the range of the alternative that matches there. -/
def rangeSpec (rule : Re) (exc : Option Re) (s : Pep) : List (Nat × (Nat × Nat)) :=
  ((List.range (s.length + 1)).filter (isSite rule exc s)).map fun i => (i, rule.matchRange s i)

/-- longest look-behind / look-ahead of a rule -/
def Re.lbMax (r : Re) : Nat := (r.map (·.lb.length)).foldr max 0
def Re.laMax (r : Re) : Nat := (r.map (·.la.length)).foldr max 0

/-- `EXPASY_RULES_WINGS_SIZE[rule] = (l, r)` covers the rule: `l` residues to the left of
the site include the consumed residue and every look-behind, `r` to the right every
look-ahead. -/
def wingsCover (r : Re) (w : Nat × Nat) : Bool := decide (r.lbMax + 1 ≤ w.1) && decide (r.laMax ≤ w.2)

end MoPepGen
