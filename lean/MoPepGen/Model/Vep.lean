import MoPepGen.Model.Coord
/-!
# parseVEP / parseREDItools (import-free model, C14)

Layer M — models, function by function and branch by branch, of

* `moPepGen/parser/VEPParser.py`      : `VEPRecord.convert_to_variant_record`
* `moPepGen/parser/REDItoolsParser.py`: `REDItoolsRecord.get_valid_subs`,
  `REDItoolsRecord.convert_to_variant_records`

and Layer S — the genomic event a VEP row denotes (`rowEvent`), its application to the
chromosome (`applyEvent`), the application of a GVF record to a gene sequence (`applyGvf`).

Coordinates, genes, transcripts and sequences are those of `Model/Coord.lean` (C11).
The text parsers (`VEPParser.parse`, `REDItoolsParser.parse`) are not modelled: the
correspondence harness drives them through the CLI functions and compares the records.
-/
namespace MoPepGen

/-! ## Layer S : genomic events -/

/-- replace the 0-based half-open chromosome interval `[s, e)` by `repl` (bases of the `+`
strand).  Deletion: `repl = []`; insertion between two bases: `s = e`. -/
structure GEvent where
  s : Nat
  e : Nat
  repl : List Char
deriving DecidableEq, Repr, Inhabited

/-- the mutated chromosome -/
def applyEvent (chrom : List Char) (ev : GEvent) : List Char :=
  chrom.take ev.s ++ ev.repl ++ chrom.drop ev.e

/-- the gene interval after the event (same start, end shifted by the length change); only
meaningful for events inside the gene -/
def geneAfter (g : Gene) (ev : GEvent) : Gene :=
  { g with loc := ⟨g.loc.start, g.loc.stop + ev.repl.length - (ev.e - ev.s)⟩ }

/-- one row of VEP tab output, as far as `convert_to_variant_record` reads it:
`Location` = `chr:s` (then `e = s`) or `chr:s-e` (1-based, inclusive), `Allele`
(`none` = `-`). -/
structure VepRow where
  s : Nat
  e : Nat
  allele : Option (List Char)
deriving DecidableEq, Repr, Inhabited

/-- The genomic event denoted by a VEP row (VEP output conventions):
* allele `-`                      : deletion of the bases `s..e`;
* two-base span, allele given     : insertion of the allele between base `s` and base `s+1`;
* anything else                   : the bases `s..e` are replaced by the allele (SNV, one-base
  span insertion spelled with the reference base as first or last allele base, substitution,
  deletion spelled with the remaining bases). -/
def rowEvent (row : VepRow) : GEvent :=
  match row.allele with
  | none => ⟨row.s - 1, row.e, []⟩
  | some al => if row.e = row.s + 1 then ⟨row.s, row.s, al⟩ else ⟨row.s - 1, row.e, al⟩

/-- GVF variant type as computed by `convert_to_variant_record` -/
inductive VType where
  | snv | indel | mnv
deriving DecidableEq, Repr, Inhabited

/-- the part of a GVF record the property speaks about: gene interval `[start, stop)`, REF,
ALT (and the type, which is compared by the correspondence only) -/
structure GvfRec where
  start : Nat
  stop : Nat
  ref : List Char
  alt : List Char
  type : VType
deriving DecidableEq, Repr, Inhabited

/-- apply a GVF record to a gene sequence: `seq[start:stop]` replaced by ALT -/
def applyGvf (seq : List Char) (r : GvfRec) : List Char :=
  seq.take r.start ++ r.alt ++ seq.drop r.stop

/-- Python slice `seq[a:b]` for `0 ≤ a`, `0 ≤ b` (truncating) -/
def pySlice (seq : List Char) (a b : Nat) : List Char := (seq.drop a).take (b - a)

/-! ## Layer M : `VEPRecord.convert_to_variant_record` -/

/-- outcomes other than a well-placed record -/
inductive VepErr where
  /-- `ValueError` of `coordinate_genomic_to_gene` (position outside the gene) -/
  | outOfGene
  /-- `TranscriptionStartSiteMutationError` -/
  | startSite
  /-- `TranscriptionStopSiteMutationError` -/
  | stopSite
  /-- `ValueError("Don't know how to process this variant")` -/
  | unanchorable
  /-- `ValueError(ERROR_REF_LENGTH_NOT_MATCH_WITH_LOCATION)` from `VariantRecord.__init__`
  (a slice truncated at the end of the gene sequence) -/
  | refLen
  /-- `IndexError` (`seq.seq[i]` beyond the sequence; only when the gene runs off the chromosome) -/
  | indexError
  /-- NOT an exception: Python's `alt_start -= 1` went to `-1`, `seq.seq[-1]` is the LAST base
  of the gene and a record is returned at `[-1, 0)` with that base as REF (`ref`, `alt` kept) -/
  | negAnchor (ref alt : List Char)
deriving DecidableEq, Repr, Inhabited

/-- `_type` : `SNV` if both have length 1, `INDEL` if `len(ref) == 1` (the second disjunct of
the Python repeats the first), else `MNV` — so deletions are typed `MNV`. -/
def vepType (ref alt : List Char) : VType :=
  if ref.length = 1 ∧ alt.length = 1 then .snv
  else if ref.length = 1 ∨ ref.length = 1 then .indel
  else .mnv

/-- `seqvar.VariantRecord(location=FeatureLocation(start, end), ref, alt, _type, …)`:
`len(location) != len(ref)` is a `ValueError` -/
def mkRec (a b : Nat) (ref alt : List Char) : Except VepErr GvfRec :=
  if b - a ≠ ref.length then .error .refLen
  else .ok ⟨a, b, ref, alt, vepType ref alt⟩

/-- gene coordinates of the row and of the transcript: `(alt_start, alt_end, tx_start_genetic,
tx_end_genetic)` after the strand swap and `alt_end += 1`.  `tx_model.transcript.location` is
the span of the exons (`spanStart`, `spanStop`).  Location `chr:0` gives genomic index `-1`,
outside every gene. -/
def vepLocate (g : Gene) (t : Transcript) (row : VepRow) :
    Except VepErr (Nat × Nat × Nat × Nat) :=
  if row.s = 0 ∨ row.e = 0 then .error .outOfGene else
  match genomicToGene g (row.s - 1), genomicToGene g (row.e - 1) with
  | .ok a0, .ok b0 =>
    match g.strand with
    | .plus =>
      match genomicToGene g t.spanStart, genomicToGene g (t.spanStop - 1) with
      | .ok ts, .ok te => .ok (a0, b0 + 1, ts, te + 1)
      | _, _ => .error .outOfGene
    | .minus =>
      match genomicToGene g (t.spanStop - 1), genomicToGene g t.spanStart with
      | .ok ts, .ok te => .ok (b0, a0 + 1, ts, te + 1)
      | _, _ => .error .outOfGene
  | _, _ => .error .outOfGene

/-- the allele in gene orientation (`Seq(allele).reverse_complement()` on the minus strand) -/
def strandAllele : Strand → List Char → List Char
  | .plus, al => al
  | .minus, al => revComp al

/-- the strand-independent tail of `convert_to_variant_record`: from the gene interval
`[a, b)` (`alt_start`, `alt_end`), `tx_start_genetic` and the allele in gene orientation to
the anchored record.  `seq` is the gene sequence. -/
def vepAnchor (seq : List Char) (a b txS : Nat) (allele : Option (List Char)) :
    Except VepErr GvfRec :=
  match allele with
  | none =>
    -- deletion
    if a = txS then
      -- at the transcript start (only reachable under cds_start_NF): anchored at the END
      mkRec a (b + 1) (pySlice seq a (b + 1)) (pySlice seq b (b + 1))
    else
      match seq[a - 1]? with
      | none => .error .indexError
      | some c => mkRec (a - 1) b (pySlice seq (a - 1) b) [c]
  | some al =>
    if b - a = 1 then
      if al.length > 1 then
        -- one-base span insertion
        match seq[a]? with
        | none => .error .indexError
        | some ref =>
          if some ref = al.getLast? then
            -- end-inclusion spelling: re-anchor one base upstream
            if a = 0 then
              match seq.getLast? with
              | none => .error .indexError
              | some l => .error (.negAnchor [l] (l :: al.dropLast))
            else
              match seq[a - 1]? with
              | none => .error .indexError
              | some r2 => mkRec (a - 1) a [r2] (r2 :: al.dropLast)
          else if some ref = al.head? then
            mkRec a b [ref] al
          else .error .unanchorable
      else
        -- SNV
        match seq[a]? with
        | none => .error .indexError
        | some ref => mkRec a b [ref] al
    else if b - a = 2 then
      -- insertion between the two bases of the span
      match seq[a]? with
      | none => .error .indexError
      | some ref => mkRec a (b - 1) [ref] (ref :: al)
    else
      mkRec a b (pySlice seq a b) al

/-- `VEPRecord.convert_to_variant_record(anno, genome)`; `nf` = `tx_model.is_cds_start_nf()`,
`seq` = `gene_model.get_gene_sequence(genome[chrom])`. -/
def vepConvert (g : Gene) (t : Transcript) (nf : Bool) (seq : List Char) (row : VepRow) :
    Except VepErr GvfRec :=
  match vepLocate g t row with
  | .error e => .error e
  | .ok (a, b, txS, txE) =>
    if a < txS ∨ (a = txS ∧ nf = false) then .error .startSite
    else if b > txE then .error .stopSite
    else vepAnchor seq a b txS (row.allele.map (strandAllele g.strand))

/-! ## Layer M : REDItools -/

/-- one row of the annotated REDItools table, as far as the converter reads it -/
structure RediSite where
  /-- 1-based genomic position -/
  pos : Nat
  /-- `BaseCount[A,C,G,T]` -/
  nA : Nat
  nC : Nat
  nG : Nat
  nT : Nat
  /-- `AllSubs` -/
  subs : List (Char × Char)
  /-- `gCoverage-q`: `none` when the field is not an integer (e.g. `-`) -/
  gcov : Option Int
deriving DecidableEq, Repr, Inhabited

/-- thresholds of `parseREDItools`; `--min-frequency-alt` as the exact rational `fnum / fden` -/
structure RediParams where
  minAlt : Int
  fnum : Nat
  fden : Nat
  minRna : Int
  minDna : Int
deriving DecidableEq, Repr, Inhabited

def RediSite.total (s : RediSite) : Nat := s.nA + s.nC + s.nG + s.nT

/-- `base_count[base_count_order[alt]]` (`KeyError` for a letter outside `ACGT`) -/
def RediSite.count (s : RediSite) (c : Char) : Option Nat :=
  if c = 'A' then some s.nA else if c = 'C' then some s.nC
  else if c = 'G' then some s.nG else if c = 'T' then some s.nT else none

inductive RediErr where
  | keyError
  | zeroDivision
  /-- `ValueError` of `coordinate_genomic_to_gene` -/
  | outOfGene
deriving DecidableEq, Repr, Inhabited

/-- the loop over `all_subs` in `get_valid_subs` -/
def rediSubLoop (p : RediParams) (s : RediSite) :
    List (Char × Char) → Except RediErr (List (Char × Char))
  | [] => .ok []
  | sub :: rest =>
    match s.count sub.2 with
    | none => .error .keyError
    | some n =>
      if (n : Int) < p.minAlt then rediSubLoop p s rest
      else if s.total = 0 then .error .zeroDivision
      -- read_count / total_count < min_frequency_alt, exactly: n / total < fnum / fden
      else if n * p.fden < p.fnum * s.total then rediSubLoop p s rest
      else match rediSubLoop p s rest with
        | .ok l => .ok (sub :: l)
        | .error e => .error e

/-- `if self.g_coverage_q != -1: if self.g_coverage_q is None or self.g_coverage_q <
min_coverage_dna: return []` -/
def gcovFails (gcov : Option Int) (minDna : Int) : Bool :=
  match gcov with
  | none => true
  | some c => decide (c ≠ -1) && decide (c < minDna)

/-- `REDItoolsRecord.get_valid_subs` -/
def rediValidSubs (p : RediParams) (s : RediSite) : Except RediErr (List (Char × Char)) :=
  if (s.total : Int) < p.minRna then .ok []
  else if gcovFails s.gcov p.minDna then .ok []
  else rediSubLoop p s s.subs

/-- a record of parseREDItools: index of the listed transcript, gene position, REF, ALT -/
structure RediRec where
  tx : Nat
  pos : Nat
  ref : Char
  alt : Char
deriving DecidableEq, Repr, Inhabited

/-- loop of `convert_to_variant_records` over the listed transcripts (`feature == 'transcript'`),
AS WRITTEN: only the `ValueError` whose message is `ERROR_INDEX_IN_INTRON` skips the
transcript; the out-of-range `ValueError` is swallowed by the `except` and execution falls
through.  `i` is the index of the head of the list. -/
def rediLoop (p : RediParams) (s : RediSite) :
    List (Gene × Transcript) → Nat → Except RediErr (List RediRec)
  | [], _ => .ok []
  | (g, t) :: rest, i =>
    if txIndex t (s.pos - 1) = .error .intron then rediLoop p s rest (i + 1)
    else
      match genomicToGene g (s.pos - 1) with
      | .error _ => .error .outOfGene
      | .ok q =>
        match rediValidSubs p s with
        | .error e => .error e
        | .ok subs =>
          match rediLoop p s rest (i + 1) with
          | .error e => .error e
          | .ok l => .ok (subs.map (fun sub => ⟨i, q, sub.1, sub.2⟩) ++ l)

/-- `REDItoolsRecord.convert_to_variant_records` as written -/
def rediConvert (p : RediParams) (s : RediSite) (listed : List (Gene × Transcript)) :
    Except RediErr (List RediRec) :=
  rediLoop p s listed 0

/-- the repaired loop: every `ValueError` of `get_transcript_index` (intron AND out of the
transcript's range) skips the transcript -/
def rediLoopFixed (p : RediParams) (s : RediSite) :
    List (Gene × Transcript) → Nat → Except RediErr (List RediRec)
  | [], _ => .ok []
  | (g, t) :: rest, i =>
    match txIndex t (s.pos - 1) with
    | .error _ => rediLoopFixed p s rest (i + 1)
    | .ok _ =>
      match genomicToGene g (s.pos - 1) with
      | .error _ => .error .outOfGene
      | .ok q =>
        match rediValidSubs p s with
        | .error e => .error e
        | .ok subs =>
          match rediLoopFixed p s rest (i + 1) with
          | .error e => .error e
          | .ok l => .ok (subs.map (fun sub => ⟨i, q, sub.1, sub.2⟩) ++ l)

def rediConvertFixed (p : RediParams) (s : RediSite) (listed : List (Gene × Transcript)) :
    Except RediErr (List RediRec) :=
  rediLoopFixed p s listed 0

end MoPepGen
