/-
Layer G, function level — a model of the FIRST stage of moPepGen's graph algorithm,
`ThreeFrameTVG.create_variant_graph` (moPepGen/svgraph/ThreeFrameTVG.py), function by function.

SCOPE.  Linear transcripts with ONLY small records: SNV, RNAEditingSite, INDEL and the MNV
records `create_variant_graph` merges from adjacent ones.  No Fusion / Insertion / Substitution /
Deletion (alternative splicing) records, no circRNA (`global_variant = None`, one subgraph, every
node on level 0, `branch = False` everywhere).  Coding and non-coding transcripts (the
`active_frames` logic differs), frameshifting indels included.

What a `TVGNode` is reduced to: its `reading_frame_index`, its kind — a null node (`seq = None`:
the graph root and the three frame roots), a REFERENCE stretch whose `seq.locations` is the single
matched location `[a, b)` of the transcript, or the VARIANT node of one record — and its
sequence.  `TVGEdge` objects compare by identity, so the edges of the graph form a multiset: an
explicit edge list.  Node identity = index in the node list; mutation → returned state; `raise` →
`Except` (the message names the Python exception).  Where Python iterates over a `set` of edges
and the result would depend on the iteration order (`get_reference_next` with two candidate edges,
`get_reference_prev` with two reference in-edges) the model raises `model: …` — `Lemmas/Tvg.lean`
shows that reachable states never have two candidates.

The tie to the real code is structural: the driver op `G tvgbuild` prints the graph of
`createVariantGraph` in a canonical form (nodes keyed by frame / kind / range or record ids /
sequence, typed edges as pairs of keys, everything sorted) and the harness prints the graph the
real `create_variant_graph` built in the same form (`harness/graph_stages.py`, `canon_tvg`).
-/
import MoPepGen.Spec.CallVariant
namespace MoPepGen.Tvg
open MoPepGen MoPepGen.Spec

/-- result of a Python call that may `raise` -/
abbrev R := Except String

/-- `seqvar.VariantRecord` reduced to what `create_variant_graph` reads (transcript coordinates,
VCF style: `ref` = the transcript at `[start, stop)`); `ids` = the GVF records it stands for
(two for a merged MNV: `INDIVIDUAL_VARIANT_IDS`) -/
structure Rec where
  start : Nat
  stop : Nat
  ref : List Char
  alt : List Char
  type : String
  ids : List Nat
  deriving Repr, DecidableEq, Inhabited

/-- `TVGEdge.type` -/
inductive EType where
  | reference | variantStart | variantEnd
  deriving DecidableEq, Repr, Inhabited

/-- what a `TVGNode` is, in scope -/
inductive NKind where
  /-- `seq = None`: the graph root and the three frame roots -/
  | root
  /-- reference stretch, `seq.locations = [[a, b)]`; `b ≤ a` stands for an empty sequence
  (`seq.locations = []`) -/
  | ref (a b : Nat)
  /-- the variant node of record `v`; `seq.locations = []` -/
  | var (v : Rec)
  deriving DecidableEq, Repr, Inhabited

structure TNode where
  /-- `reading_frame_index`; `3` stands for `None` (the graph root) -/
  rf : Nat
  kind : NKind
  seq : List Char
  deriving DecidableEq, Repr, Inhabited

structure TEdge where
  src : Nat
  dst : Nat
  ty : EType
  deriving DecidableEq, Repr, Inhabited

/-- the graph: `TVGNode`s by index, `TVGEdge`s as a list (a multiset) -/
structure TState where
  nodes : List TNode
  edges : List TEdge
  deriving Repr, Inhabited, DecidableEq

/-- the fields of `ThreeFrameTVG` that `create_variant_graph` reads -/
structure TvgIn where
  seq : List Char
  /-- `has_known_orf` (= `tx_model.is_protein_coding` in `call_peptide_main`) -/
  hasKnownOrf : Bool
  /-- `self.seq.orf` -/
  orf : Option (Nat × Nat)
  /-- `mrna_end_nf` -/
  mrnaEndNF : Bool
  /-- `max_adjacent_as_mnv` -/
  maxAdj : Nat := 2
  deriving Repr, Inhabited

/-! ### graph primitives -/

/-- `ThreeFrameTVG.add_edge` -/
def addEdge (s : TState) (i o : Nat) (ty : EType) : TState :=
  { s with edges := s.edges ++ [⟨i, o, ty⟩] }

/-- a new `TVGNode` (`create_node`); returns its index -/
def addNode (s : TState) (n : TNode) : TState × Nat :=
  ({ s with nodes := s.nodes ++ [n] }, s.nodes.length)

/-- `node.out_edges` -/
def outEdges (s : TState) (i : Nat) : List TEdge := s.edges.filter fun e => e.src == i

/-- `node.in_edges` -/
def inEdges (s : TState) (i : Nat) : List TEdge := s.edges.filter fun e => e.dst == i

/-- `(node.seq.locations[0].ref.start, node.seq.locations[-1].ref.end)` -/
def nodeLoc (s : TState) (i : Nat) : R (Nat × Nat) :=
  match s.nodes[i]? with
  | none => .error "model: no such node"
  | some n =>
    match n.kind with
    | .root => .error "AttributeError: 'NoneType' object has no attribute 'locations'"
    | .var _ => .error "IndexError: list index out of range"
    | .ref a b => if a < b then .ok (a, b) else .error "IndexError: list index out of range"

/-- `DNASeqRecordWithCoordinates.get_query_index` on `node.seq` (`-1` when no location contains
the reference index) -/
def getQueryIndex (s : TState) (i : Nat) (x : Nat) : R Int :=
  match s.nodes[i]? with
  | none => .error "model: no such node"
  | some n =>
    match n.kind with
    | .root => .error "AttributeError: 'NoneType' object has no attribute 'get_query_index'"
    | .var _ => .ok (-1)
    | .ref a b => if a ≤ x ∧ x < b then .ok ((x - a : Nat) : Int) else .ok (-1)

/-- `slice(i, None).indices(len)[0]`: Python's normalisation of a slice bound -/
def pyIndex (i : Int) (len : Nat) : Nat :=
  if i < 0 then (i + (len : Int)).toNat else min i.toNat len

/-- `TVGNode.get_reference_next`: no out-edge → `None`; one out-edge → its node whatever its
type; otherwise the node of the LAST edge of type `reference` / `variant_end` in the iteration
order of the `set` (`branch` is `False` on every node in scope) — the model raises when there
are two such edges, `ValueError` as Python when there is none -/
def getReferenceNext (s : TState) (i : Nat) : R (Option Nat) :=
  match outEdges s i with
  | [] => .ok none
  | [e] => .ok (some e.dst)
  | es =>
    match es.filter fun e => e.ty == .reference || e.ty == .variantEnd with
    | [] => .error "ValueError: No reference edge was found."
    | [e] => .ok (some e.dst)
    | _ => .error "model: get_reference_next depends on set iteration order"

/-- `TVGNode.get_reference_prev`: the in-node of the first in-edge of type `reference` in the
iteration order of the `set`; the model raises when there are two -/
def getReferencePrev (s : TState) (i : Nat) : R (Option Nat) :=
  match (inEdges s i).filter fun e => e.ty == .reference with
  | [] => .ok none
  | [e] => .ok (some e.src)
  | _ => .error "model: get_reference_prev depends on set iteration order"

/-! ### `__init__` / `init_three_frames` -/

/-- `ThreeFrameTVG.__init__` (`self.root = create_node(seq=None)`) followed by
`ThreeFrameTVG.init_three_frames(truncate_head=True)`: root 0, frame roots 1–3, the three
reference nodes 4–6 holding `seq`, `seq[1:]`, `seq[2:]` with locations `[f, |seq|)` -/
def initThreeFrames (seq : List Char) : TState :=
  let L := seq.length
  { nodes := [⟨3, .root, []⟩, ⟨0, .root, []⟩, ⟨1, .root, []⟩, ⟨2, .root, []⟩,
              ⟨0, .ref 0 L, seq⟩, ⟨1, .ref 1 L, seq.drop 1⟩, ⟨2, .ref 2 L, seq.drop 2⟩],
    edges := [⟨1, 4, .reference⟩, ⟨0, 1, .reference⟩, ⟨2, 5, .reference⟩, ⟨0, 2, .reference⟩,
              ⟨3, 6, .reference⟩, ⟨0, 3, .reference⟩] }

/-- `self.reading_frames` after `init_three_frames` (`splice` keeps the left node, so the
entries never change) -/
def readingFrames : List Nat := [1, 2, 3]

/-! ### `splice` -/

/-- the state after `splice` of reference node `n = [a, b)` (`nd`) at sequence offset `k`:
`TVGNode.truncate_right(k)` keeps `seq[:k]` / `[a, a+k)` in `n` and returns the new node
`seq[k:]` / `[a+k, b)`; every out-edge of `n` is re-attached to the new node; the edge
`n → new` of type `ty` is added -/
def spliceAt (s : TState) (n : Nat) (nd : TNode) (a b k : Nat) (ty : EType) : TState :=
  let r := s.nodes.length
  { nodes := s.nodes.set n { nd with kind := .ref a (a + k), seq := nd.seq.take k } ++
      [{ rf := nd.rf, kind := .ref (a + k) b, seq := nd.seq.drop k }],
    edges := (s.edges.map fun e => if e.src == n then { e with src := r } else e) ++ [⟨n, r, ty⟩] }

/-- `ThreeFrameTVG.splice(node, i, _type)` → `(left_node, right_node)`; `TVGNode.truncate_right`.
(`self.root` and the entries of `self.reading_frames` are replaced by `left_node`, which is the
same object as `node`: nothing to do.)  In scope only reference nodes are spliced (a variant node would split its
`VariantRecordWithCoordinate`, which the model does not carry). -/
def splice (s : TState) (n : Nat) (i : Int) (ty : EType) : R (TState × Nat × Nat) :=
  match s.nodes[n]? with
  | none => .error "model: no such node"
  | some nd =>
    match nd.kind with
    | .root => .error "TypeError: 'NoneType' object is not subscriptable"
    | .var _ => .error "model: splice of a variant node is outside the modelled scope"
    | .ref a b =>
      let k := pyIndex i nd.seq.length
      .ok (spliceAt s n nd a b k ty, n, s.nodes.length)

/-! ### `apply_variant` -/

/-- the loop `while cur.seq.locations[-1].ref.end <= variant_end and cur.out_edges:
cur = cur.get_reference_next()` of `apply_variant` -/
def walkToEnd (s : TState) : Nat → Nat → Nat → R Nat
  | 0, _, _ => .error "model: fuel"
  | fuel + 1, cur, stop => do
    let (_, e) ← nodeLoc s cur
    if e ≤ stop && !(outEdges s cur).isEmpty then
      match ← getReferenceNext s cur with
      | none => .error "AttributeError: 'NoneType' object has no attribute 'seq'"
      | some nx => walkToEnd s fuel nx stop
    else pure cur

/-- `apply_variant`, part "# variant start": returns the state, `returns[0]` and the (possibly
replaced) `target` -/
def avStart (s : TState) (source target varNode : Nat) (v : Rec) (sStart : Nat) (inFrame : Bool) :
    R (TState × Nat × Nat) :=
  if v.start == sStart then do
    -- no need to splice: another variant happened at the same location
    match ← getReferencePrev s source with
    | none => .error "AttributeError: 'NoneType' object has no attribute 'out_edges'"
    | some prev => pure (addEdge s prev varNode .variantStart, source, target)
  else do
    let idx ← getQueryIndex s source v.start
    let (s, head, tail) ← splice s source idx .reference
    pure (addEdge s head varNode .variantStart, head, if inFrame then tail else target)

/-- `apply_variant`, part "# variant end": returns the state and `returns` -/
def avEnd (s : TState) (target varNode : Nat) (v : Rec) (tEnd ret0 : Nat) (inFrame atStart : Bool) :
    R (TState × Nat × Nat) :=
  if v.stop < tEnd then do
    let idx ← getQueryIndex s target v.stop
    let (s, head, tail) ← splice s target idx .reference
    let s := addEdge s varNode tail .variantEnd
    if inFrame then
      if atStart then pure (s, head, head) else pure (s, ret0, ret0)
    else pure (s, ret0, head)
  else do
    -- the range of the variant is larger than the node, such as a deletion
    let cur ← walkToEnd s (s.nodes.length + 1) target v.stop
    let (_, cEnd) ← nodeLoc s cur
    let s ← (if cEnd > v.stop then do
        let idx ← getQueryIndex s cur v.stop
        if idx == 0 then pure (addEdge s varNode cur .variantEnd)
        else do
          let (s, _, right) ← splice s cur idx .reference
          pure (addEdge s varNode right .variantEnd)
      else pure s : R TState)
    pure (s, ret0, if inFrame then ret0 else target)

/-- `ThreeFrameTVG.apply_variant(source, target, variant)` → `returns` (the two nodes the
cursors of the source and the target frame continue from).  `variant.type == 'Deletion'`
(alternative splicing) is out of scope, so the variant node's sequence is `variant.alt` (for a
deletion-type INDEL that is the anchor base). -/
def applyVariant (s : TState) (source target : Nat) (v : Rec) : R (TState × Nat × Nat) := do
  let inFrame := source == target
  let (sStart, sEnd) ← nodeLoc s source
  let (tStart, tEnd) ← nodeLoc s target
  if v.start < sStart || v.start > sEnd then
    throw "ValueError: Variant out of source range of source"
  if v.start < tStart || v.start > tEnd then
    throw "ValueError: Variant out of source range of target"
  let rf := (s.nodes[source]?.map (·.rf)).getD 3
  let (s, varNode) := addNode s { rf := rf, kind := .var v, seq := v.alt }
  let (s, ret0, target) ← avStart s source target varNode v sStart inFrame
  avEnd s target varNode v tEnd ret0 inFrame (v.start == sStart)

/-! ### `VariantRecord` predicates and order -/

/-- `VariantRecord.is_insertion` (type ≠ 'Insertion' in scope) -/
def isInsertion (v : Rec) : Bool :=
  v.type == "Insertion" || (v.ref.length == 1 && v.alt.head? != some '<' && v.alt.length > 1)

/-- `VariantRecord.is_deletion` -/
def isDeletion (v : Rec) : Bool :=
  v.type == "Deletion" || (v.ref.length > 1 && v.alt.length == 1)

/-- `VariantRecord.frames_shifted`: `(len(location) - len(alt)) % 3` (Python `%`: non-negative) -/
def framesShifted (v : Rec) : Nat :=
  ((((v.stop - v.start : Nat) : Int) - (v.alt.length : Int)) % 3).toNat

/-- `VariantRecord.is_frameshifting` -/
def isFrameshifting (v : Rec) : Bool := v.type == "Fusion" || framesShifted v != 0

/-- `VariantRecord.to_end_inclusion(seq)`: start exclusion / end inclusion form — the anchor base
moves to the right end (`seq.seq[location.end]` raises `IndexError` at the transcript end) -/
def toEndInclusion (seq : List Char) (v : Rec) : R Rec :=
  if v.type != "Insertion" && v.alt.head? == some '<' then
    .error "ValueError: This variant should not be converted to end inclusion"
  else match seq[v.stop]? with
    | none => .error "IndexError: string index out of range"
    | some c => .ok { v with start := v.start + 1, stop := v.stop + 1,
                             ref := v.ref.drop 1 ++ [c], alt := v.alt.drop 1 ++ [c] }

/-- `FeatureLocation.overlaps` with `other = [lo, hi)` (`x in loc` ⇔ `loc.start ≤ x < loc.end`) -/
def overlaps (start stop : Nat) (lo hi : Int) : Bool :=
  let s : Int := start
  let e : Int := stop
  (decide (lo ≤ s) && decide (s < hi)) || (decide (lo ≤ e - 1) && decide (e - 1 < hi)) ||
    (decide (s ≤ lo) && decide (lo < e)) || (decide (s ≤ hi - 1) && decide (hi - 1 < e))

/-- `FeatureLocation.__gt__` / `__eq__` of the records' locations (no strand) -/
def locGt (a b : Rec) : Bool := decide (a.start > b.start) || (a.start == b.start && decide (a.stop > b.stop))
def locEq (a b : Rec) : Bool := a.start == b.start && a.stop == b.stop

/-- `VariantRecord.__eq__` -/
def recEq (a b : Rec) : Bool := locEq a b && a.ref == b.ref && a.alt == b.alt && a.type == b.type

/-- `VariantRecord.__gt__` (`alt` and `type` compared as Python strings: by code point) -/
def recGt (a b : Rec) : Bool :=
  locGt a b ||
    (locEq a b && (decide (b.alt < a.alt) || (a.ref == b.ref && decide (b.type < a.type))))

/-- `VariantRecord.__lt__` = `not (self == other or self > other)` -/
def recLt (a b : Rec) : Bool := !(recEq a b || recGt a b)

/-! ### `sorted` (CPython 3.12 `list.sort`, lists shorter than 64: one run + binary insertion) -/

/-- how many further elements continue the run (`count_run`) -/
def runMore {α : Type} (p : α → α → Bool) : α → List α → Nat
  | _, [] => 0
  | prev, x :: xs => if p prev x then runMore p x xs + 1 else 0

/-- the binary search of `binarysort`: `while l < r: p = l + ((r-l) >> 1);
if pivot < a[p]: r = p else: l = p + 1` -/
def bisect {α : Type} [Inhabited α] (lt : α → α → Bool) (pivot : α) (a : List α) : Nat → Nat → Nat → Nat
  | 0, l, _ => l
  | fuel + 1, l, r =>
    if l < r then
      let p := l + (r - l) / 2
      if lt pivot (a.getD p default) then bisect lt pivot a fuel l p else bisect lt pivot a fuel (p + 1) r
    else l

/-- `binarysort`: insert the remaining elements one by one -/
def binInsertAll {α : Type} [Inhabited α] (lt : α → α → Bool) (sorted : List α) : List α → List α
  | [] => sorted
  | pivot :: rest =>
    let l := bisect lt pivot sorted (sorted.length + 1) 0 sorted.length
    binInsertAll lt (sorted.take l ++ pivot :: sorted.drop l) rest

/-- `sorted(xs)` through `__lt__` only; for fewer than 64 elements CPython's merge sort is one
`count_run` (ascending, or strictly descending and reversed) followed by `binarysort` -/
def pySorted {α : Type} [Inhabited α] (lt : α → α → Bool) (xs : List α) : R (List α) :=
  match xs with
  | [] => .ok []
  | [x] => .ok [x]
  | x :: y :: rest =>
    if xs.length ≥ 64 then .error "model: list.sort of 64 or more elements is not modelled"
    else
      let desc := lt y x
      let n := 1 + (if desc then runMore (fun prev z => lt z prev) x (y :: rest)
                    else runMore (fun prev z => !lt z prev) x (y :: rest))
      let run := if desc then (xs.take n).reverse else xs.take n
      .ok (binInsertAll lt run (xs.drop n))

/-! ### `find_mnvs_from_adjacent_variants` -/

/-- `compatible_type_map` -/
def mnvClass (v : Rec) : Option String :=
  if v.type == "SNV" || v.type == "RNAEditingSite" then some "SNV"
  else if v.type == "INDEL" then some "INDEL" else none

/-- the scan `for j in range(i_t + 1, len(variants))` for one combination `comb`, with its
`continue`s and its `break` (`rest` = the records from `i_t + 1` on, with their indices) -/
def mnvScan (v0 : Rec) (type0 : String) (comb : List Nat) : List (Nat × Rec) → List (List Nat)
  | [] => []
  | (j, vj) :: rest =>
    match mnvClass vj with
    | none => mnvScan v0 type0 comb rest
    | some tj =>
      if vj.start < v0.stop then mnvScan v0 type0 comb rest
      else if vj.start > v0.stop then []
      else if tj == type0 then (comb ++ [j]) :: mnvScan v0 type0 comb rest
      else mnvScan v0 type0 comb rest

/-- one level `k` of `adjacent_combs` from level `k - 1` -/
def mnvLevel (vs : List Rec) (v0 : Rec) (type0 : String) (prev : List (List Nat)) : List (List Nat) :=
  prev.flatMap fun comb =>
    let it := comb.getLast?.getD 0
    if it + 1 ≥ vs.length then []
    else mnvScan v0 type0 comb (((List.range vs.length).zip vs).drop (it + 1))

/-- levels `1 … max_adjacent_as_mnv - 1`; `adjacent_combs[k - 1]` raises `KeyError` when level
`k - 1 ≥ 1` found nothing (only reachable with `max_adjacent_as_mnv ≥ 3`) -/
def mnvLevels (vs : List Rec) (v0 : Rec) (type0 : String) : Nat → Nat → List (List Nat) → R (List (List Nat))
  | 0, _, _ => .ok []
  | n + 1, k, prev =>
    if k ≥ 2 && prev.isEmpty then .error "KeyError"
    else do
      let cur := mnvLevel vs v0 type0 prev
      let more ← mnvLevels vs v0 type0 n (k + 1) cur
      pure (cur ++ more)

/-- `create_mnv_from_adjacent` -/
def mkMnv (vs : List Rec) (comb : List Nat) : Rec :=
  let rs := comb.filterMap fun i => vs[i]?
  match rs with
  | [] => default
  | v0 :: _ =>
    { start := v0.start, stop := (rs.getLast?.getD v0).stop,
      ref := rs.flatMap (·.ref), alt := rs.flatMap (·.alt), type := "MNV", ids := rs.flatMap (·.ids) }

/-- `seqvar.find_mnvs_from_adjacent_variants(variants, max_adjacent_as_mnv)` -/
def findMnvs (vs : List Rec) (maxAdj : Nat) : R (List Rec) :=
  ((List.range vs.length).zip vs).foldlM (init := []) fun acc (i, v0) =>
    match mnvClass v0 with
    | none => pure acc
    | some type0 => do
      let combs ← mnvLevels vs v0 type0 (maxAdj - 1) 1 [[i]]
      pure (acc ++ combs.map (mkMnv vs))

/-! ### `create_variant_graph` -/

/-- `tx_end = self.seq.orf.end if self.seq.orf is not None else len(self.seq.seq)` -/
def txEnd (inp : TvgIn) : Int :=
  match inp.orf with
  | some (_, e) => e
  | none => inp.seq.length

/-- the "Filter variants" loop of `create_variant_graph` for one record (none of the records in
scope is a fusion or an alternative-splicing record): an insertion / deletion anchored on the
last base of the start codon is re-anchored (`to_end_inclusion`); records before `start_index`
are dropped; for `mrna_end_NF` so are records overlapping the last three bases before `tx_end` -/
def filterOne (inp : TvgIn) (startIndex : Nat) (v : Rec) : R (Option Rec) := do
  let v ← (if v.start + 1 == startIndex && (isInsertion v || isDeletion v) then
      toEndInclusion inp.seq v else pure v : R Rec)
  if v.start < startIndex then pure none
  else if inp.mrnaEndNF && overlaps v.start v.stop (txEnd inp - 3) (txEnd inp) then pure none
  else pure (some v)

/-- the "Filter variants" loop: `filtered_variants` (raises at the first record that raises) -/
def filterAll (inp : TvgIn) (startIndex : Nat) : List Rec → R (List Rec)
  | [] => .ok []
  | v :: vs => do
    let r ← filterOne inp startIndex v
    let rest ← filterAll inp startIndex vs
    pure (match r with
      | some x => x :: rest
      | none => rest)

/-- state of the `while variant:` loop -/
structure LoopSt where
  g : TState
  /-- `cursors` (`None` once `get_reference_next()` ran off the end) -/
  cursors : List (Option Nat)
  /-- `active_frames` -/
  active : List Bool
  deriving Repr, Inhabited

/-- `any(c.seq.locations[0].ref.start > variant.location.start for c in cursors)` (short-circuit;
a `None` cursor reached before a `True` raises `AttributeError`) -/
def anyCursorBehind (g : TState) (v : Rec) : List (Option Nat) → R Bool
  | [] => .ok false
  | none :: _ => .error "AttributeError: 'NoneType' object has no attribute 'seq'"
  | some c :: rest => do
    let (a, _) ← nodeLoc g c
    if a > v.start then pure true else anyCursorBehind g v rest

/-- the activation loop `for i in range(3): if active_frames[i]: active_frames[(i + shift) % 3] = True`
(in place: a frame activated at `i` is seen at a later `i`) -/
def activate (active : List Bool) (shift : Nat) : List Bool :=
  [0, 1, 2].foldl (fun act i => if act.getD i false then act.set ((i + shift) % 3) true else act) active

/-- the loop that moves expired cursors on: `if cursor.seq.locations[-1].ref.end <=
variant.location.start: cursors[i] = cursors[i].get_reference_next()` -/
def expireCursors (g : TState) (v : Rec) : List (Option Nat) → R (List (Option Nat) × Bool)
  | [] => .ok ([], false)
  | none :: _ => .error "AttributeError: 'NoneType' object has no attribute 'seq'"
  | some c :: rest => do
    let (_, e) ← nodeLoc g c
    let (rest', any) ← expireCursors g v rest
    if e ≤ v.start then do
      let nx ← getReferenceNext g c
      pure (nx :: rest', true)
    else pure (some c :: rest', any)

/-- `cursors[i]` as a node (`None.seq` raises) -/
def cursorAt (cs : List (Option Nat)) (i : Nat) : R Nat :=
  match cs.getD i none with
  | some c => .ok c
  | none => .error "AttributeError: 'NoneType' object has no attribute 'seq'"

/-- the frameshifting branch: `for i in range(3): if active_frames[i]: j = (i + shift) % 3;
cursors[i], cursors[j] = self.apply_variant(cursors[i], cursors[j], variant)` -/
def applyShift (v : Rec) (shift : Nat) (active : List Bool) :
    List Nat → TState → List (Option Nat) → R (TState × List (Option Nat))
  | [], g, cs => .ok (g, cs)
  | i :: is, g, cs =>
    if active.getD i false then do
      let j := (i + shift) % 3
      let ci ← cursorAt cs i
      let cj ← cursorAt cs j
      let (g, r0, r1) ← applyVariant g ci cj v
      applyShift v shift active is g ((cs.set i (some r0)).set j (some r1))
    else applyShift v shift active is g cs

/-- the in-frame branch: `for i, _ in enumerate(cursors): if active_frames[i]:
cursors[i], _ = self.apply_variant(cursors[i], cursors[i], variant)` -/
def applyInFrame (v : Rec) (active : List Bool) :
    List Nat → TState → List (Option Nat) → R (TState × List (Option Nat))
  | [], g, cs => .ok (g, cs)
  | i :: is, g, cs =>
    if active.getD i false then do
      let ci ← cursorAt cs i
      let (g, r0, _) ← applyVariant g ci ci v
      applyInFrame v active is g (cs.set i (some r0))
    else applyInFrame v active is g cs

/-- the `while variant:` loop of `create_variant_graph` (small records only) -/
def cvgLoop : Nat → List Rec → LoopSt → R TState
  | 0, _, _ => .error "model: fuel"
  | _, [], st => .ok st.g
  | fuel + 1, v :: rest, st =>
    if st.cursors.all (·.isNone) then .ok st.g                 -- `if not any(cursors): break`
    else do
      if ← anyCursorBehind st.g v st.cursors then cvgLoop fuel rest st
      else
        let active := if isFrameshifting v then activate st.active (framesShifted v) else st.active
        let (cursors, expired) ← expireCursors st.g v st.cursors
        if expired then cvgLoop fuel (v :: rest) { st with cursors := cursors, active := active }
        else if isFrameshifting v then do
          let (g, cs) ← applyShift v (framesShifted v) active [0, 1, 2] st.g cursors
          cvgLoop fuel rest { g := g, cursors := cs, active := active }
        else do
          let (g, cs) ← applyInFrame v active [0, 1, 2] st.g cursors
          cvgLoop fuel rest { g := g, cursors := cs, active := active }

/-- the records `create_variant_graph` walks over: filter, merged MNVs, `sorted` -/
def variantsWithMnv (inp : TvgIn) (vs : List Rec) : R (List Rec) := do
  let start0 ← (if inp.hasKnownOrf then
      match inp.orf with
      | some (s, _) => pure s
      | none => throw "AttributeError: 'NoneType' object has no attribute 'start'"
    else pure 0 : R Nat)
  let startIndex := start0 + 3                -- `unmutated_start_size = 3`
  let filtered ← filterAll inp startIndex vs
  let merged ← findMnvs filtered inp.maxAdj
  pySorted recLt (filtered ++ merged)

/-- `active_frames` when the caller passes none -/
def initialActive (inp : TvgIn) : R (List Bool) :=
  if inp.hasKnownOrf then
    match inp.orf with
    | some (s, _) => pure ([false, false, false].set (s % 3) true)   -- `get_known_reading_frame_index`
    | none => throw "AttributeError: 'NoneType' object has no attribute 'start'"
  else pure [true, true, true]

/-- the record types of the modelled scope -/
def inScope (v : Rec) : Bool := v.type == "SNV" || v.type == "RNAEditingSite" || v.type == "INDEL"

/-- `ThreeFrameTVG.create_variant_graph(variants, …)` on the graph `g` (`init_three_frames`
done), `active_frames=None`, `known_orf_index=None`, `unmutated_start_size=3` -/
def createVariantGraphOn (inp : TvgIn) (g : TState) (vs : List Rec) : R TState :=
  -- the branches for `Fusion` / `Insertion` / `Substitution` records (and `Deletion` in
  -- `apply_variant`) are not modelled
  if !(vs.all inScope) then .error "model: record type outside the modelled scope"
  else do
    let sorted ← variantsWithMnv inp vs
    -- `cursors = [x.get_reference_next() for x in self.reading_frames]`
    let cursors ← readingFrames.mapM (getReferenceNext g)
    let active ← initialActive inp
    cvgLoop (8 * sorted.length + 8) sorted { g := g, cursors := cursors, active := active }

/-- `__init__`, `init_three_frames`, `create_variant_graph` as `call_peptide_main` calls them -/
def createVariantGraph (inp : TvgIn) (vs : List Rec) : R TState :=
  createVariantGraphOn inp (initThreeFrames inp.seq) vs

/-! ### bridge to the definitional layer -/

/-- a record as the `Var` of `Spec/CallVariant.lean` (merge class irrelevant here) -/
def Rec.toVar (v : Rec) : Var :=
  { start := v.start, stop := v.stop, ref := v.ref, alt := v.alt, cls := .other, ids := v.ids }

end MoPepGen.Tvg
