/-
Layer S for `AminoAcidSeqRecord.enzymatic_cleave`: the digestion products stated with
POSITIONS and the positional site predicate `isSite` only — no boundary list, no index
into a list, none of the scanning helpers of Model/Digest.lean.

`posDigest` is the executable form of that set-builder statement (all pairs of positions
are tried); the harness runs it against the real `enzymatic_cleave` (stream `pcleave`).

No imports outside Model: linked into the native driver.
-/
import MoPepGen.Model.Digest
namespace MoPepGen

/-- `a` is a boundary of the digest of `s`: the N-terminus, a cleavage site, or the
C-terminus. -/
def isBoundary (c : CleaveCfg) (s : Pep) (a : Nat) : Bool :=
  a == 0 || isSite c.rule c.exc s a || a == s.length

/-- number of cleavage sites strictly between the positions `a` and `b` -/
def sitesBetween (c : CleaveCfg) (s : Pep) (a b : Nat) : Nat :=
  ((List.range b).filter fun i => decide (a < i) && isSite c.rule c.exc s i).length

/-- The code appends `len(seq)` to its boundary list even when that position is already
there (as the cleavage site after the last residue, or as `0` when the protein is empty);
the empty stretch `seq[len:len]` is then a candidate too (it survives only when
`min_length = 0` and `min_mw` is below the mass of water). -/
def endTwice (c : CleaveCfg) (s : Pep) : Bool :=
  s.length == 0 || isSite c.rule c.exc s s.length

/-- `(a, b)` delimit a candidate: two boundaries, `a < b` (or the duplicated end), at most
`misc` sites strictly between them. -/
def posPair (c : CleaveCfg) (s : Pep) (a b : Nat) : Bool :=
  isBoundary c s a && isBoundary c s b &&
    (decide (a < b) || (a == s.length && b == s.length && endTwice c s)) &&
    decide (sitesBetween c s a b ≤ c.misc)

/-- all candidates, by trying every pair of positions -/
def posCandidates (c : CleaveCfg) (s : Pep) (nf : Bool) : List Pep :=
  (List.range (s.length + 1)).flatMap fun a =>
    (List.range (s.length + 1)).flatMap fun b =>
      if posPair c s a b then
        (if a == 0 && !nf && (slice s a b).head? == some 'M' then [(slice s a b).drop 1] else [])
          ++ [slice s a b]
      else []

/-- S (executable): the digest by positions; `none` = ValueError from the mass of a candidate -/
def posDigest (c : CleaveCfg) (s : Pep) (nf : Bool) : Option (List Pep) :=
  filterKeep c (posCandidates c s nf)

end MoPepGen
