/-
Layer G, function level, THIRD stage: `ThreeFrameTVG.translate`
(moPepGen/svgraph/ThreeFrameTVG.py) with `TVGNode.translate`, `PVGNode.fix_selenocysteines`,
`PeptideVariantGraph.add_stop`, `TVGNode.get_reference_next`, `PVGNode.split_node` (as called at
the end of `translate`: the fake stop for an annotated CDS end that is not a stop codon).

Input = the transcript variant graph as it stands when `translate` is entered (after
`fit_into_codons`): nodes with DNA sequence, typed out-edges in the iteration order of the
Python `set`, reading-frame index, the variants they carry with node-local locations, the matched
reference locations (`seq.locations`, needed by `fix_selenocysteines` and by `get_query_index`),
level, `branch`, `orf`; and the graph-level fields `reading_frames`, `has_known_orf`, `seq.orf`,
`sect_variants`, `mrna_end_nf`, `is_circ_rna()`.

Output = the peptide variant graph `translate` returns.  Python nodes are objects without names;
the model NAMES the `PVGNode` that `visited` holds for TVG node `o` by the index `o + 2`
(0 = the root, 1 = `PeptideVariantGraph.stop`), the nodes the final split creates are appended
behind.  `raise` → `Except`.

Not carried by the model: the flags `is_stop_altering` / `is_silent` that
`TVGNode.check_stop_altering` sets on the variant records (nothing else in `translate` reads
them), `PVGNode.orf`, and the reference part of the amino-acid locations after
`fix_selenocysteines` has used them.

Scope (decidable, `linearInput`): a linear transcript (`is_circ_rna()` false), every node on
level 0 and every matched location pointing into the level-0 graph (no subgraphs).  The
functions below follow the code also outside this scope wherever the code is a function of the
dumped fields.
-/
import MoPepGen.Model.Graph
namespace MoPepGen.Translate
open MoPepGen MoPepGen.Spec MoPepGen.Graph

/-! ### input -/

/-- `MatchedLocation` of a TVG node's sequence (DNA coordinates): `query` = range inside the
node, `ref` = range on the transcript; `lvl0` = `loc.ref.seqname in subgraphs.data and
subgraphs[loc.ref.seqname].level == 0` -/
structure DLoc where
  qStart : Nat
  qEnd : Nat
  /-- `loc.query.reading_frame_index`; 3 = `None` -/
  qRf : Nat
  rStart : Nat
  rEnd : Nat
  lvl0 : Bool := true
  deriving Repr, Inhabited, DecidableEq

/-- `VariantRecordWithCoordinate` on a TVG node: ids of the GVF records, node-local location -/
structure DVar where
  ids : List Nat
  start : Nat
  stop : Nat
  deriving Repr, Inhabited, DecidableEq

/-- `TVGEdge.type` -/
inductive EType where
  | reference | variantStart | variantEnd
  deriving Repr, Inhabited, DecidableEq

structure DNode where
  seq : List Char
  /-- `seq is None` (the root and the three frame roots) -/
  isNull : Bool := false
  /-- `out_edges` in the iteration order of the set: (index of `out_node`, type) -/
  out : List (Nat × EType)
  /-- `reading_frame_index`; 3 = `None` -/
  rf : Nat
  vars : List DVar := []
  locs : List DLoc := []
  level : Nat := 0
  branch : Bool := false
  /-- `node.orf[1]` -/
  orfEnd : Option Nat := none
  deriving Repr, Inhabited

structure TGraphIn where
  nodes : Array DNode
  /-- `self.reading_frames` (node indices) -/
  frames : List Nat
  hasKnownOrf : Bool
  /-- `self.seq.orf` -/
  orf : Option (Nat × Nat)
  /-- `self.sect_variants`: the locations of the annotated Sec codons, in list order -/
  sect : List (Nat × Nat) := []
  mrnaEndNF : Bool := false
  /-- `self.is_circ_rna()` -/
  isCirc : Bool := false
  deriving Repr, Inhabited

/-- `ThreeFrameTVG.should_clip_trailing_nodes` -/
def TGraphIn.clip (g : TGraphIn) : Bool := g.isCirc || g.mrnaEndNF

/-- the input conditions of this model's theorems: a linear transcript without subgraphs -/
def linearInput (g : TGraphIn) : Bool :=
  !g.isCirc && g.nodes.all fun n => n.level == 0 && n.locs.all (·.lvl0)

/-! ### output -/

/-- `MatchedLocation` of the translated node (amino-acid coordinates, `TVGNode.translate`) -/
structure ALoc where
  qStart : Nat
  qEnd : Nat
  qStartOff : Nat
  qEndOff : Nat
  qRf : Nat
  rStart : Int
  rEnd : Int
  rStartOff : Int
  rEndOff : Int
  lvl0 : Bool
  deriving Repr, Inhabited, DecidableEq

/-- `VariantRecordWithCoordinate` in protein coordinates -/
structure PVar where
  ids : List Nat
  start : Nat
  stop : Nat
  startOff : Nat
  endOff : Nat
  deriving Repr, Inhabited, DecidableEq

structure PNode where
  /-- false = no such Python object (the slot of a TVG node the search never reached) -/
  present : Bool := true
  seq : List Char
  /-- `seq is None` (the root) -/
  isNull : Bool := false
  /-- `out_nodes` (a set: no duplicates), in insertion order -/
  out : List Nat := []
  rf : Nat
  vars : List PVar := []
  truncated : Bool := false
  /-- `selenocysteines`: node-local positions -/
  secs : List Nat := []
  level : Nat := 0
  deriving Repr, Inhabited

structure PGraph where
  nodes : Array PNode
  /-- `pgraph.reading_frames` -/
  frames : List (Option Nat)
  /-- `pgraph.known_orf` -/
  knownOrf : Option (Nat × Nat)
  deriving Repr, Inhabited

def rootIx : Nat := 0
/-- `PeptideVariantGraph.stop` -/
def stopIx : Nat := 1
/-- the name of `visited[o]` -/
def pix (o : Nat) : Nat := o + 2

def absent : PNode := { present := false, seq := [], rf := 3 }

/-! ### `TVGNode.translate` -/

/-- sequence part: `self.seq[:len - len % 3].translate()` for a node without out-edges,
`self.seq.translate()` otherwise (Biopython drops a trailing partial codon) -/
def nodeAA (n : DNode) : List Char :=
  if n.out.isEmpty then translate (n.seq.take (n.seq.length - n.seq.length % 3))
  else translate n.seq

/-- `math.ceil(x / 3)` -/
def ceilDiv3 (x : Nat) : Nat := (x + 2) / 3

/-- one matched location in amino-acid coordinates (the loop over `self.seq.locations`) -/
def aaLoc (l : DLoc) : ALoc :=
  let qs := l.qStart / 3
  let qe := ceilDiv3 l.qEnd
  let qso := l.qStart - qs * 3
  let qeo := qe * 3 - l.qEnd
  let dnaRefCodonStart : Int := (l.rStart : Int) - ((l.qStart : Int) - (qs * 3 : Nat))
  let rs : Int := dnaRefCodonStart / 3        -- `math.floor` (Int `/` rounds down for a positive divisor)
  let dnaRefCodonEnd : Int := (l.rEnd : Int) + (((qe * 3 : Nat) : Int) - (l.qEnd : Int))
  let re : Int := rs + ((qe : Int) - (qs : Int))      -- `ref_start + len(query)`
  { qStart := qs, qEnd := qe, qStartOff := qso, qEndOff := qeo, qRf := l.qRf,
    rStart := rs, rEnd := re, rStartOff := dnaRefCodonStart - rs * 3,
    rEndOff := dnaRefCodonEnd - re * 3, lvl0 := l.lvl0 }

/-- `VariantRecordWithCoordinate.to_protein_coordinates` -/
def toProteinCoordinates (v : DVar) : PVar :=
  let s := v.start / 3
  let e := ceilDiv3 v.stop
  { ids := v.ids, start := s, stop := e, startOff := v.start - s * 3, endOff := e * 3 - v.stop }

/-! ### `PVGNode.fix_selenocysteines` -/

def ALoc.len (l : ALoc) : Nat := l.qEnd - l.qStart
/-- `MatchedLocation.get_ref_codon_start` -/
def ALoc.refCodonStart (l : ALoc) : Int := l.rStart * 3 + l.rStartOff
/-- `MatchedLocation.get_ref_codon_end` -/
def ALoc.refCodonEnd (l : ALoc) : Int := l.rEnd * 3 + l.rEndOff
/-- `MatchedLocation.get_ref_dna_start` -/
def ALoc.refDnaStart (l : ALoc) : Int := l.refCodonStart + l.qStartOff

/-- the whole-codon window of a location on the transcript: `ref_codon_start`, `ref_codon_end`
with the start / end offset guards -/
def ALoc.window (l : ALoc) : Int × Int :=
  (if l.qStartOff > 0 then l.refCodonStart + 3 else l.refCodonStart,
   if l.qEndOff > 0 then l.refCodonEnd - 3 else l.refCodonEnd)

/-- the `while loc and sect` loop: two cursors over the locations and the Sec records; returns
the positions `k` collected in `sects`.  (`MatchedLocation.__len__` makes an empty location
falsy: the loop ends there.)  Every iteration advances one cursor, so `fuel` = the number of
locations plus the number of Sec records never runs out before a list does
(`Lemmas/TranslateSec.lean`, `secLoopAux_fuel`). -/
def secLoopAux : Nat → List ALoc → List (Nat × Nat) → List Nat
  | 0, _, _ => []
  | _ + 1, [], _ => []
  | _ + 1, _ :: _, [] => []
  | fuel + 1, loc :: ls, sect :: ss =>
    if loc.len == 0 then []
    else if !loc.lvl0 then secLoopAux fuel ls (sect :: ss)
    else if loc.qRf != sect.1 % 3 then
      if loc.refDnaStart > (sect.1 : Int) then secLoopAux fuel (loc :: ls) ss
      else secLoopAux fuel ls (sect :: ss)
    else
      let w := loc.window
      if w.1 ≥ w.2 then secLoopAux fuel ls (sect :: ss)
      else if w.1 ≤ (sect.1 : Int) && w.2 ≥ (sect.2 : Int) then    -- `dna_loc.is_superset`
        (loc.qStart + (Int.tdiv ((sect.1 : Int) - loc.refCodonStart) 3).toNat) :: secLoopAux fuel (loc :: ls) ss
      else if w.1 > (sect.1 : Int) || (w.1 == (sect.1 : Int) && w.2 > (sect.2 : Int)) then   -- `dna_loc > sect.location`
        secLoopAux fuel (loc :: ls) ss
      else secLoopAux fuel ls (sect :: ss)

def secLoop (locs : List ALoc) (sects : List (Nat × Nat)) : List Nat :=
  secLoopAux (locs.length + sects.length) locs sects

/-- the rebuilding loop `for i, sect in enumerate(sects)`: `prev` = the previous `k` -/
def rebuildSec (seq : List Char) : Option Nat → List Nat → List Char
  | none, [] => seq                       -- `if not sects: return`
  | some p, [] => seq.drop (p + 1)        -- behind the last one: `seq[k+1:]`
  | none, k :: ks => seq.take k ++ 'U' :: rebuildSec seq (some k) ks
  | some p, k :: ks => slice seq (p + 1) k ++ 'U' :: rebuildSec seq (some k) ks

/-- `fix_selenocysteines`: (new sequence, `selenocysteines`); `self.seq.seq[k]` raises IndexError
for a position outside the sequence -/
def fixSelenocysteines (locs : List ALoc) (sect : List (Nat × Nat)) (seq : List Char) :
    Except String (List Char × List Nat) :=
  let ks := secLoop locs sect
  if ks.any (fun k => seq.length ≤ k) then .error "IndexError:fix_selenocysteines"
  else .ok (rebuildSec seq none ks, ks)

/-! ### the body of the edge loop of `ThreeFrameTVG.translate` -/

/-- `DNASeqRecordWithCoordinates.get_query_index` (`none` = -1) -/
def queryIndex : List DLoc → Nat → Option Nat
  | [], _ => none
  | l :: ls, r => if l.rStart ≤ r && r < l.rEnd then some (l.qStart + r - l.rStart) else queryIndex ls r

/-- `orf = known_orf if has_known_orf else out_node.orf`; the part read later: `orf[1]`
(`has_known_orf` with `seq.orf is None` has raised before the loop) -/
def orfEndOf (g : TGraphIn) (n : DNode) : Option Nat :=
  if g.hasKnownOrf then g.orf.map (·.2) else n.orfEnd

/-- the new `PVGNode` for `out_node`: `TVGNode.translate`, then (unless circRNA)
`fix_selenocysteines`, then the empty-sequence case of a node without successors outside
`should_clip_trailing_nodes` (`new_pnode.seq.seq = Seq('*')`) -/
def mkNode (g : TGraphIn) (n : DNode) : Except String PNode :=
  if n.isNull then .error "TypeError:null-node"
  else
    match (if g.isCirc then .ok (nodeAA n, []) else fixSelenocysteines (n.locs.map aaLoc) g.sect (nodeAA n)) with
    | .error e => .error e
    | .ok (aa, secs) =>
      let aa := if aa.isEmpty && n.out.isEmpty && !g.clip then ['*'] else aa
      .ok { seq := aa, rf := n.rf, vars := n.vars.map toProteinCoordinates, secs := secs, level := n.level }

/-- `terminal_nodes.append((new_pnode, pnode_orf_end))`: the annotated CDS end lies inside the
node, in frame, at least one codon before its end, is not a stop codon and no variant of the
node covers the position (`orf_end_query in v.location`: the DNA index is compared with the
PROTEIN coordinates of the variants — as in the code) -/
def terminalSite (orfEnd : Option Nat) (n : DNode) (pn : PNode) : Except String (Option Nat) :=
  match orfEnd with
  | none => .ok none
  | some 0 => .ok none
  | some e =>
    if n.level != 0 then .ok none
    else match queryIndex n.locs e with
      | none => .ok none
      | some q =>
        if 0 < q && q + 3 ≤ n.seq.length && q % 3 == 0 then
          let k := q / 3
          let stopLost := pn.vars.any fun v => v.start ≤ q && q < v.stop
          match pn.seq[k]? with
          | none => .error "IndexError:orf-end"
          | some c => .ok (if c != '*' && !stopLost then some k else none)
        else .ok none

/-! ### the search -/

structure St where
  /-- slot 0 = root, 1 = stop, `o + 2` = `visited[o]` -/
  nodes : Array PNode
  /-- head = the next `queue.pop()` -/
  queue : List (Nat × Nat)
  terminal : List (Nat × Nat)
  deriving Repr, Inhabited

/-- `PVGNode.add_out_edge` (`out_nodes` is a set) -/
def addEdge (nodes : Array PNode) (p q : Nat) : Array PNode :=
  nodes.modify p fun n => if n.out.contains q then n else { n with out := n.out ++ [q] }

def setTruncated (nodes : Array PNode) (p : Nat) : Array PNode :=
  nodes.modify p fun n => { n with truncated := true }

def isVisited (st : St) (o : Nat) : Bool := (st.nodes[pix o]?.map (·.present)).getD false

/-- one iteration of `for edge in dnode.out_edges` (`nOut = len(dnode.out_edges)`).  A new
node that is EMPTY and has no successor makes, under `should_clip_trailing_nodes`, a parent with a
single out-edge `truncated` (outside `clip` such a node reads `*`, see `mkNode`; under `clip`
the sequence tested by the code is the final one). -/
def visitEdge (g : TGraphIn) (nOut : Nat) (p : Nat) (st : St) (o : Nat) : Except String St :=
  match g.nodes[o]? with
  | none => .error "dangling-edge"
  | some n =>
    if isVisited st o then .ok { st with nodes := addEdge st.nodes p (pix o) }
    else
      match mkNode g n with
      | .error e => .error e
      | .ok pn =>
        match terminalSite (orfEndOf g n) n pn with
        | .error e => .error e
        | .ok site =>
          let nodes := if pn.seq.isEmpty && n.out.isEmpty && g.clip && nOut == 1
            then setTruncated st.nodes p else st.nodes
          let terminal := match site with
            | some k => st.terminal ++ [(pix o, k)]
            | none => st.terminal
          .ok { nodes := addEdge (nodes.setIfInBounds (pix o) pn) p (pix o),
                queue := st.queue ++ [(o, pix o)], terminal := terminal }

/-- `for edge in dnode.out_edges:` -/
def visitEdges (g : TGraphIn) (nOut : Nat) (p : Nat) : St → List (Nat × EType) → Except String St
  | st, [] => .ok st
  | st, e :: es =>
    match visitEdge g nOut p st e.1 with
    | .error err => .error err
    | .ok st' => visitEdges g nOut p st' es

/-- one `queue.pop()`: a node without out-edges gets the stop node (`add_stop`) and, under
`should_clip_trailing_nodes`, `truncated`; otherwise the edge loop -/
def processItem (g : TGraphIn) (st : St) (d p : Nat) : Except String St :=
  match g.nodes[d]? with
  | none => .error "dangling-edge"
  | some dn =>
    if dn.out.isEmpty then
      let nodes := addEdge st.nodes p stopIx
      .ok { st with nodes := if g.clip then setTruncated nodes p else nodes }
    else visitEdges g dn.out.length p st dn.out

/-- `while queue:` — every node is put on the queue at most once, so
`g.nodes.size + g.frames.length + 1` iterations suffice (`Lemmas/TranslateFuel.lean`,
`translateCore_fuel_stable`: more fuel never changes the result); running out of fuel is an error -/
def bfs (g : TGraphIn) : Nat → St → Except String St
  | 0, st => if st.queue.isEmpty then .ok st else .error "fuel"
  | fuel + 1, st =>
    match st.queue with
    | [] => .ok st
    | (d, p) :: q =>
      match processItem g { st with queue := q } d p with
      | .error e => .error e
      | .ok st' => bfs g fuel st'

/-- the state before the loop: `root`, `stop`, nothing visited;
`queue = deque([(dnode, root) for dnode in self.reading_frames])`, `pop()` takes from the right -/
def initSt (g : TGraphIn) : St :=
  { nodes := #[{ seq := [], isNull := true, rf := 3 }, { seq := ['*'], rf := 3 }] ++
      Array.replicate g.nodes.size absent,
    queue := g.frames.reverse.map fun d => (d, rootIx),
    terminal := [] }

/-- the `while queue` loop of `translate`: the graph before the fake stops are split off, and
`terminal_nodes` (`has_known_orf` with `seq.orf is None` raises before the loop) -/
def translateCore (g : TGraphIn) : Except String St :=
  if g.hasKnownOrf && g.orf.isNone then .error "AttributeError:seq.orf"
  else bfs g (g.nodes.size + g.frames.length + 1) (initSt g)

/-! ### `pgraph.reading_frames` -/

/-- `TVGNode.get_reference_next` -/
def referenceNext (g : TGraphIn) (d : Nat) : Except String (Option Nat) :=
  match g.nodes[d]? with
  | none => .error "dangling-frame"
  | some dn =>
    match dn.out with
    | [] => .ok none
    | [e] => .ok (some e.1)
    | es =>
      let r := es.foldl (fun (acc : Option Nat) e =>
        if e.2 == .reference || e.2 == .variantEnd then
          match acc with
          | none => some e.1
          | some r => if !((g.nodes[r]?.map (·.branch)).getD false) then some e.1 else some r
        else acc) none
      match r with
      | none => .error "ValueError:no-reference-edge"
      | some r => .ok (some r)

def readingFrames (g : TGraphIn) : List Nat → Except String (List (Option Nat))
  | [] => .ok []
  | d :: ds =>
    match referenceNext g d with
    | .error e => .error e
    | .ok r =>
      match readingFrames g ds with
      | .error e => .error e
      | .ok rs => .ok (r.map pix :: rs)

/-! ### the fake stop (`PVGNode.split_node` with `cleavage=False`) -/

/-- `variant[:index]` for a variant that starts before `index` and ends behind it -/
def PVar.leftPart (v : PVar) (index : Nat) : PVar :=
  { v with stop := index, startOff := if v.start == 0 then v.startOff else 0, endOff := 0 }

/-- `variant.shift(-index)` -/
def PVar.shiftLeft (v : PVar) (index : Nat) : PVar :=
  { v with start := v.start - index, stop := v.stop - index }

def splitVarsLeft (vs : List PVar) (index : Nat) : List PVar :=
  vs.filterMap fun v =>
    if v.start < index then (if v.stop ≤ index then some v else some (v.leftPart index)) else none

def splitVarsRight (vs : List PVar) (index : Nat) : List PVar :=
  vs.filterMap fun v => if v.stop > index then some (v.shiftLeft index) else none

/-- `split_node(index)`: the node keeps the left part and gets the new node (appended at the
end of the array) as its only successor; the new node takes the right part, the out-edges and
`truncated`.  Returns the index of the new node. -/
def splitNode (nodes : Array PNode) (t index : Nat) : Array PNode × Nat :=
  match nodes[t]? with
  | none => (nodes, t)
  | some n =>
    let r := nodes.size
    let right : PNode :=
      { seq := n.seq.drop index, out := n.out, rf := n.rf, vars := splitVarsRight n.vars index,
        truncated := n.truncated, secs := (n.secs.filter (fun s => !(s < index))).map (· - index),
        level := n.level }
    let left : PNode :=
      { n with seq := n.seq.take index, out := [r], vars := splitVarsLeft n.vars index,
               truncated := false, secs := n.secs.filter (· < index) }
    ((nodes.setIfInBounds t left).push right, r)

/-- one `(terminal_node, stop_site)` of the final loop -/
def splitTerminal (nodes : Array PNode) (t k : Nat) : Array PNode :=
  let (nodes, r) := splitNode nodes t k
  let rseq := (nodes[r]?.map (·.seq)).getD []
  if rseq.length > 1 && rseq.head? == some '*' then (splitNode nodes r 1).1
  else
    let f := nodes.size
    let rf := (nodes[t]?.map (·.rf)).getD 3
    addEdge (nodes.push { seq := ['*'], rf := rf }) t f

/-! ### `ThreeFrameTVG.translate` -/

/-- the final loop `for terminal_node, stop_site in terminal_nodes` (only with a known ORF) -/
def splitTerminals (g : TGraphIn) (st : St) : Array PNode :=
  if g.hasKnownOrf then st.terminal.foldl (fun ns tk => splitTerminal ns tk.1 tk.2) st.nodes
  else st.nodes

def translateGraph (g : TGraphIn) : Except String PGraph :=
  match translateCore g with
  | .error e => .error e
  | .ok st =>
    match readingFrames g g.frames with
    | .error e => .error e
    | .ok frames =>
      .ok { nodes := splitTerminals g st, frames := frames,
            knownOrf := if g.hasKnownOrf then g.orf else none }

/-! ### the graphs as Layer G graphs (`Model/Graph.lean`) -/

def TGraphIn.toGraph (g : TGraphIn) : Graph :=
  g.nodes.map fun n =>
    { seq := n.seq, vars := n.vars.flatMap (·.ids), out := n.out.map (·.1), rf := n.rf }

/-- a node array as a Layer G graph; the shared stop node is the end sentinel -/
def nodesGraph (ns : Array PNode) : Graph :=
  ns.mapIdx fun i n =>
    { seq := n.seq, vars := n.vars.flatMap (·.ids), out := n.out, rf := n.rf, isStop := i == stopIx }

def PGraph.toGraph (pg : PGraph) : Graph := nodesGraph pg.nodes

end MoPepGen.Translate
