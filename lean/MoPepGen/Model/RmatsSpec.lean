import MoPepGen.Model.Rmats
/-!
# Layer S for C16: what an alternative-splicing record *means*

`docs/file-format.md` §1.4: a **Deletion** removes the region `START … END` of the gene from
the transcript, an **Insertion** inserts the region `DONOR_START … DONOR_END` of the gene
after position `POS` (`location.start`), a **Substitution** replaces the region
`START … END` by the donor region.  All coordinates are gene coordinates (0-based,
half-open, counted from the 5' end of the gene on its own strand).

The definitions below do not look at how `parseRMATS` computes anything: the only link
between the gene and the transcript is `basesBefore`, the number of transcript bases lying
upstream of a gene position.
-/
namespace MoPepGen.Rmats
open MoPepGen

/-- a genomic interval inside the gene, in gene coordinates -/
def geneIv (g : Gene) (e : Iv) : Iv :=
  match g.strand with
  | .plus => ⟨e.start - g.loc.start, e.stop - g.loc.start⟩
  | .minus => ⟨g.loc.stop - e.stop, g.loc.stop - e.start⟩

/-- number of bases of the transcript (exon list `es`, any order) whose gene coordinate is
`< q` -/
def basesBefore (g : Gene) : List Iv → Nat → Nat
  | [], _ => 0
  | e :: es, q => (min q (geneIv g e).stop - min q (geneIv g e).start) + basesBefore g es q

/-- Python slice `s[a:b]` -/
def slice (s : List Char) (a b : Nat) : List Char := (s.drop a).take (b - a)

/-- the documented meaning of a record `r` of a transcript with exons `es` of gene `g`:
`X` is the transcript sequence, `G` the gene sequence -/
def applyAS (g : Gene) (es : List Iv) (X G : List Char) (r : ASRec) : List Char :=
  match r.kind with
  | .deletion =>
    X.take (basesBefore g es r.start) ++ X.drop (basesBefore g es r.stop)
  | .insertion =>
    X.take (basesBefore g es (r.start + 1)) ++ slice G r.donorStart r.donorStop
      ++ X.drop (basesBefore g es (r.start + 1))
  | .substitution =>
    X.take (basesBefore g es r.start) ++ slice G r.donorStart r.donorStop
      ++ X.drop (basesBefore g es r.stop)

/-- the sequence of a transcript with exon list `es` (ascending genomic order) on `strand`:
what `get_transcript_sequence` returns (`Coord.txSeq`, C11) -/
def seqOfExons (chrom : List Char) (s : Strand) (es : List Iv) : List Char :=
  match s with
  | .plus => exonConcat chrom es
  | .minus => revComp (exonConcat chrom es)

/-- some isoform has two consecutive exons joined by the junction `a → b` -/
def HasJunction (a b : Nat) (es : List Iv) : Prop :=
  ∃ pre x y post, es = pre ++ x :: y :: post ∧ x.stop = a ∧ y.start = b

end MoPepGen.Rmats
