/-
Layer G, function level — the decidable condition under which a graph state of
`Model/Tvg.lean` has a path for a given list of records ("the records are ATTACHED along the
frames the path runs through").

`create_variant_graph` attaches the variant node of a record only to the reading frames that are
active when the record is reached, and a frameshifting record moves the path into ANOTHER frame's
reference chain (`apply_variant(cursors[i], cursors[j], variant)`).  So a list of records `h`
(ascending, strictly separated) has a path from the reference chain of frame `g` exactly when the
first record has a variant node in frame `g` and, if more records follow, one of the frames its
`variant_end` edges lead to carries the rest in the same sense: `attached s g h`.
These are definitions over the graph state (what the completeness theorem of `Props/C01.lean`
assumes / proves), not models of Python functions.
-/
import MoPepGen.Model.Tvg
namespace MoPepGen.Tvg
open MoPepGen MoPepGen.Spec

/-- `reading_frame_index` of node `i` (3 when there is no such node) -/
def nodeFrame (s : TState) (i : Nat) : Nat := (s.nodes[i]?.map (·.rf)).getD 3

/-- node `n` is a variant node of frame `g` whose record, as a `Var`, is `v` -/
def isVarOf (n : TNode) (g : Nat) (v : Var) : Bool :=
  n.rf == g && (match n.kind with
    | .var r => r.toVar == v
    | _ => false)

/-- record `v` has a variant node in frame `g` -/
def carries (s : TState) (g : Nat) (v : Var) : Bool := s.nodes.any fun n => isVarOf n g v

/-- the frames of the nodes that the out-edges of the variant nodes of `v` in frame `g` lead to:
where a path that took `v` in frame `g` can continue -/
def bridgeFrames (s : TState) (g : Nat) (v : Var) : List Nat :=
  (s.edges.filter fun e => match s.nodes[e.src]? with
    | some n => isVarOf n g v
    | none => false).map fun e => nodeFrame s e.dst

/-- **the records `h` are attached along the frames from frame `g` on**: the first record has a
variant node in frame `g`, and if more records follow, one of the frames behind it carries the
rest -/
def attached (s : TState) : Nat → List Var → Bool
  | _, [] => true
  | g, v :: rest =>
    carries s g v && (rest.isEmpty || (bridgeFrames s g v).any fun g' => attached s g' rest)

/-- every record that has a variant node has one in each of the three frames — what
`create_variant_graph` builds when all three frames are active from the start (a transcript
without a known ORF) -/
def allFrames (s : TState) : Bool :=
  s.nodes.all fun n => match n.kind with
    | .var r => [0, 1, 2].all fun g => carries s g r.toVar
    | _ => true

/-- the records that have a variant node in the graph (`varPool` of `Lemmas/Tvg.lean`) -/
def varRecs (s : TState) : List Var :=
  s.nodes.filterMap fun n => match n.kind with
    | .var v => some v.toVar
    | _ => none

/-- **the record lists of the maximal paths of frame `f`, computed without walking the graph**:
every sub-collection of the records of the graph that, in ascending order, is strictly separated
and attached along the frames from `f` on (`Props.C01.tvg_attached_subs_spec`: exactly the record
lists of the maximal paths from the reference node of frame `f` starting at `f`) -/
def attachedSubs (s : TState) (f : Nat) : List (List Var) :=
  ((sublists (varRecs s).eraseDups).map sortByStart).filter fun h => separated h && attached s f h

/-! ### the input of `create_variant_graph` as an input of the definitional layer -/

/-- the merge class (`compatible_type_map` of `find_mnvs_from_adjacent_variants`) of a record as
the class of the definitional layer -/
def recCls (v : Rec) : VCls :=
  if v.type == "SNV" || v.type == "RNAEditingSite" then .snv
  else if v.type == "INDEL" then .indel else .other

/-- a record as the `Var` of `Spec/CallVariant.lean`, merge class included -/
def Rec.toSpec (v : Rec) : Var :=
  { start := v.start, stop := v.stop, ref := v.ref, alt := v.alt, cls := recCls v, ids := v.ids }

/-- the transcript of `create_variant_graph` as the `TxIn` of the definitional layer (no Sec
sites, no `cds_start_NF`: neither is read by the record pool) -/
def TvgIn.toTx (inp : TvgIn) : TxIn :=
  { seq := inp.seq, coding := inp.hasKnownOrf,
    orfStart := match inp.orf with
      | some (s, _) => s
      | none => 0,
    orfEnd := match inp.orf with
      | some (_, e) => e
      | none => inp.seq.length,
    startNF := false, endNF := inp.mrnaEndNF, sec := [] }

/-- ascending starts, as a decidable check -/
def ascStarts : List Rec → Bool
  | [] => true
  | [_] => true
  | a :: b :: rest => decide (a.start ≤ b.start) && ascStarts (b :: rest)

/-- what the caller of `create_variant_graph` guarantees about its input (`call_peptide_main`
hands over the records of one transcript from a `VariantRecordPool`): the transcript has a known
ORF exactly when it carries one; `max_adjacent_as_mnv` is the default 2; every record is of a
modelled type, a non-empty stretch inside the transcript, and typed `INDEL` exactly when its
alleles make it an insertion or a deletion; the records come in ascending order of start -/
def poolInputOk (inp : TvgIn) (vs : List Rec) : Bool :=
  (inp.hasKnownOrf == inp.orf.isSome) && (inp.maxAdj == 2) && decide (3 ≤ inp.seq.length) &&
  (vs.all fun v => inScope v && decide (v.start < v.stop) && decide (v.stop ≤ inp.seq.length) &&
    ((v.type == "INDEL") == (isInsertion v || isDeletion v))) &&
  ascStarts vs

end MoPepGen.Tvg
