/-
Layer M for the LOCAL range search of moPepGen/aa/AminoAcidSeqRecord.py:

* `AminoAcidSeqRecord.get_local_matched_range`  (the `while True` loop with the two cursors
  `ucur` / `lcur` inside the wings window, its `if not pattern_found` tail, the return value);
* `AminoAcidSeqRecord.iter_enzymatic_cleave_sites_with_range_local`.

Function by function, same control flow.  Cursors are `Int` as in the Python (`ucur` does
reach `upper - 1`, possibly `-1`, right before the loop breaks).  `raise ValueError` is an
outcome (`none` / `Except.error`), never merged with fuel exhaustion: the loop carries a
fuel, `localLoop … = none` means "fuel used up", and `Props.C10.localRange_fuel_stable`
proves that the fuel `getLocalMatchedRange` passes is never used up and that any larger
fuel gives the same result.

Layer S: `localStep` / `localSched` (the cursor schedule as a function of the step number,
no pattern involved) and `localSchedClosed` (its closed form).

No imports outside Model: linked into the native driver.
-/
import MoPepGen.Model.Pairing
namespace MoPepGen

/-- `p.search(t)` for a rule expression `p` on a string `t` of its own (`re.search` on the
substring `seq[ucur:lcur]`: look-behinds and look-aheads see nothing outside `t`).
`search` returns the first match `finditer` would produce. -/
def Re.search (r : Re) (t : Pep) : Bool := (r.finditer t).head?.isSome

/-- the loop condition `upper <= ucur < lcur <= lower` -/
def inWin (upper lower ucur lcur : Int) : Bool :=
  decide (upper ≤ ucur) && decide (ucur < lcur) && decide (lcur ≤ lower)

/-- the cursor update of one pass of the loop:
`if (site - ucur) <= (lcur - site) or lcur == lower: ucur -= 1 else: lcur += 1` -/
def localStep (site lower : Int) (c : Int × Int) : Int × Int :=
  if site - c.1 ≤ c.2 - site ∨ c.2 = lower then (c.1 - 1, c.2) else (c.1, c.2 + 1)

/-- M: the `while True` loop of `get_local_matched_range`.  Returns the final
`(ucur, lcur, pattern_found)`; `none` = fuel used up (proved not to happen). -/
def localLoop (p : Re) (s : Pep) (site upper lower : Int) : Nat → Int → Int → Option (Int × Int × Bool)
  | 0, _, _ => none
  | fuel + 1, ucur, lcur =>
    if !inWin upper lower ucur lcur then some (ucur, lcur, false)          -- break
    else if p.search (slice s ucur.toNat lcur.toNat) then some (ucur, lcur, true)
    else
      let c := localStep site lower (ucur, lcur)
      localLoop p s site upper lower fuel c.1 c.2

/-- `upper = max(site - wings_size[0], 0)` -/
def localUpper (site : Nat) (w : Nat × Nat) : Int := max ((site : Int) - w.1) 0
/-- `lower = min(site + wings_size[1], len(seq))` -/
def localLower (s : Pep) (site : Nat) (w : Nat × Nat) : Int := min ((site : Int) + w.2) s.length
/-- the initial cursors: `(site-1, site)` if `wings_size[0] >= wings_size[1]` else `(site, site+1)` -/
def localStart (site : Nat) (w : Nat × Nat) : Int × Int :=
  if w.1 ≥ w.2 then ((site : Int) - 1, (site : Int)) else ((site : Int), (site : Int) + 1)

/-- the fuel `getLocalMatchedRange` gives its loop (every pass widens `[ucur, lcur)` by one and
the window is at most `w.1 + w.2` wide) -/
def localFuel (w : Nat × Nat) : Nat := w.1 + w.2 + 2

/-- M: `AminoAcidSeqRecord.get_local_matched_range(seq, site, p, wings_size)` for a
position `site ≥ 0` and non-negative wings.
`some (some (u, l))` = returned tuple, `some none` = `ValueError("Cannot extract matched
pattern …")`, `none` = fuel used up (never: `localRange_fuel_stable`). -/
def getLocalMatchedRange (p : Re) (s : Pep) (site : Nat) (w : Nat × Nat) : Option (Option (Nat × Nat)) :=
  let st := localStart site w
  match localLoop p s site (localUpper site w) (localLower s site w) (localFuel w) st.1 st.2 with
  | none => none
  | some (u, l, true) => some (some (u.toNat, l.toNat))
  | some (_, _, false) => some none

/-- what `iter_enzymatic_cleave_sites_with_range_local` can raise -/
inductive LocalErr where
  | wingsZero                    -- "Invalid enzyme pattern with the size being 0 for both wings"
  | cannotExtract (site : Nat)   -- "Cannot extract matched pattern at position {site} from {seq}"
  | fuel                         -- never (`localRange_fuel_stable`)
  deriving Repr, DecidableEq

/-- the `for s in sites:` loop of `iter_enzymatic_cleave_sites_with_range_local`
(`if s in exception_sites: continue`; the first failing site raises) -/
def localSitesLoop (rule : Re) (excSites : List Nat) (w : Nat × Nat) (s : Pep) :
    List Nat → Except LocalErr (List (Nat × (Nat × Nat)))
  | [] => .ok []
  | x :: xs =>
    if excSites.contains x then localSitesLoop rule excSites w s xs
    else match getLocalMatchedRange rule s x w with
      | none => .error .fuel
      | some none => .error (.cannotExtract x)
      | some (some r) =>
        match localSitesLoop rule excSites w s xs with
        | .ok l => .ok ((x, r) :: l)
        | .error e => .error e

/-- M: `iter_enzymatic_cleave_sites_with_range_local(rule, exception)` consumed as a list,
with `w = EXPASY_RULES_WINGS_SIZE[rule]`. -/
def cleaveSitesWithRangeLocal (rule : Re) (exc : Option Re) (w : Nat × Nat) (s : Pep) :
    Except LocalErr (List (Nat × (Nat × Nat))) :=
  let excSites := excEnds exc s
  let sites := rule.ends s
  if w.1 == 0 && w.2 == 0 then .error .wingsZero
  else localSitesLoop rule excSites w s sites

/-! ### Layer S: the cursor schedule -/

/-- S: the cursors after `k` passes that did not find the pattern, as a function of `k` only
(no pattern, no window check): `localStep` iterated from the start cursors. -/
def localSched (site lower : Int) (c0 : Int × Int) : Nat → Int × Int
  | 0 => c0
  | k + 1 => localStep site lower (localSched site lower c0 k)

/-- the segment `seq[ucur:lcur]` of a cursor pair -/
def segOf (s : Pep) (c : Int × Int) : Pep := slice s c.1.toNat c.2.toNat

/-- no pass before the `k`-th left the loop: all earlier cursor pairs are inside the window and
their segments carry no match -/
def NoHitBefore (p : Re) (s : Pep) (site upper lower : Int) (c0 : Int × Int) (k : Nat) : Prop :=
  ∀ j, j < k → inWin upper lower (localSched site lower c0 j).1 (localSched site lower c0 j).2 = true ∧
    p.search (segOf s (localSched site lower c0 j)) = false

/-- S: closed form of the schedule.  With `b0 = 0` (start `(site-1, site)`) or `b0 = 1`
(start `(site, site+1)`) and `B = lower - site ≥ b0` residues available on the right, the
`k`-th segment reaches `b = min (max b0 ⌈k/2⌉) B` residues to the right of the site and
`k + 1 - b` to the left: left and right grow in turn, left first on a tie, and only the left
cursor moves once the right one has reached `lower`. -/
def localSchedClosed (site : Int) (b0 B k : Nat) : Int × Int :=
  let b := min (max b0 ((k + 1) / 2)) B
  (site - ((k + 1 - b : Nat) : Int), site + (b : Int))

/-- The wings entry is BALANCED for the rule: no alternative looks further ahead than it
reaches behind (consumed residue included).  Needed, besides `wingsCover`, for the local
search to find the pattern at every site: the cursors widen the segment alternately and
stop as soon as the LEFT one leaves the window. -/
def Re.balanced (r : Re) : Bool := r.all fun a => decide (a.la.length ≤ a.lb.length + 1)

end MoPepGen
