/-
Layer M for the GVF text format and its byte-offset index (property C13):

* moPepGen/seqvar/VariantRecord.py    `to_string`, `info`, `transcript_id`, `__eq__`, `__hash__`
* moPepGen/seqvar/io.py               `parse_attrs`, `line_to_variant_record`, `iterate`
* moPepGen/circ/CircRNA.py            `CircRNAModel.to_string`
* moPepGen/circ/io.py                 `line_to_circ_model`
* moPepGen/seqvar/GVFIndex.py         `iterate_pointer`, `GVFPointer.to_line/parse/__iter__`
* moPepGen/seqvar/VariantRecordPoolOnDisk.py
                                      `validate_gvf_index`, `load_index`, `generate_index`,
                                      `VariantRecordPoolOnDiskOpener.open`, the pointer loop
                                      of `__getitem__`
* moPepGen/cli/index_gvf.py           `index_gvf`

Text is `List Char` (one element = one byte of the file; the harness keeps the
model streams ASCII, see the assumptions of harness/c13.py).  Python exceptions
are `Except Err`.  SHA-512 is the parameter `H`.  The constant `ATTRS_POSITION`
and the attribute keys of the circRNA reader / writer are parameters here; the
driver instantiates them with `MoPepGen.Generated` (extracted from the source).
No imports outside core Lean.
-/
namespace MoPepGen.Gvf

abbrev Str := List Char

/-- Python exception classes that the modelled functions can raise. -/
inductive Err where
  | index   -- IndexError
  | value   -- ValueError
  | key     -- KeyError
  | type    -- TypeError
  deriving DecidableEq, Repr

def Err.name : Err → String
  | .index => "IndexError" | .value => "ValueError" | .key => "KeyError" | .type => "TypeError"

/-! ## string primitives -/

/-- `s.split(c)` for a one-character separator (never returns `[]`). -/
def splitOn (c : Char) : Str → List Str
  | [] => [[]]
  | x :: xs =>
    if x = c then [] :: splitOn c xs
    else match splitOn c xs with
      | [] => [[x]]
      | h :: t => (x :: h) :: t

/-- `c.join(xs)` -/
def joinWith (c : Char) : List Str → Str
  | [] => []
  | [x] => x
  | x :: y :: r => x ++ c :: joinWith c (y :: r)

/-- `str.isspace()` of one character: the code points Python's `str.strip()`/`rstrip()` remove
(checked against CPython over all code points by the harness stream `space`). -/
def isPySpace (c : Char) : Bool :=
  let n := c.toNat
  (9 ≤ n && n ≤ 13) || (28 ≤ n && n ≤ 32) || n = 133 || n = 160 || n = 5760 ||
  (8192 ≤ n && n ≤ 8202) || n = 8232 || n = 8233 || n = 8239 || n = 8287 || n = 12288

/-- `s.rstrip()` -/
def rstrip : Str → Str
  | [] => []
  | c :: cs =>
    match rstrip cs with
    | [] => if isPySpace c then [] else [c]
    | r => c :: r

/-- the text does not end in a white-space character -/
def noTrailSpace (s : Str) : Bool :=
  match s.getLast? with
  | none => true
  | some c => !isPySpace c

/-- `s.rstrip(c)` for a single character `c` -/
def rstripChar (c : Char) : Str → Str
  | [] => []
  | x :: xs =>
    match rstripChar c xs with
    | [] => if x = c then [] else [x]
    | r => x :: r

/-- `s.lstrip(chars)` -/
def lstripP (p : Char → Bool) (s : Str) : Str := s.dropWhile p

/-- `s.strip(c)` for a single character `c` -/
def stripChar (c : Char) (s : Str) : Str := rstripChar c (s.dropWhile (· = c))

/-- `s.startswith(p)` -/
def startsWith (p s : Str) : Bool := p.isPrefixOf s

/-- ASCII `str.upper()` (keys outside ASCII are excluded by well-formedness). -/
def upper (s : Str) : Str := s.map Char.toUpper

/-! ## decimal integers -/

def digitChar (d : Nat) : Char := Char.ofNat (48 + d)

/-- decimal digits of `n`, most significant first; `fuel ≥ n` is always enough
(structural recursion, so that closed instances evaluate by `decide`) -/
def natToStrAux : Nat → Nat → Str
  | 0, n => [digitChar (n % 10)]
  | fuel + 1, n =>
    if n < 10 then [digitChar n] else natToStrAux fuel (n / 10) ++ [digitChar (n % 10)]

/-- `str(n)` for `n ≥ 0` -/
def natToStr (n : Nat) : Str := natToStrAux n n

def isDigit (c : Char) : Bool := 48 ≤ c.toNat && c.toNat ≤ 57

def parseDigits (acc : Nat) : Str → Option Nat
  | [] => some acc
  | c :: cs => if isDigit c then parseDigits (acc * 10 + (c.toNat - 48)) cs else none

/-- `int(s)` restricted to `[0-9]+` -/
def parseNat (s : Str) : Option Nat :=
  match s with
  | [] => none
  | _ => parseDigits 0 s

/-- `str(z)` -/
def intToStr (z : Int) : Str :=
  match z with
  | .ofNat n => natToStr n
  | .negSucc n => '-' :: natToStr (n + 1)

/-- `int(s)` restricted to `-?[0-9]+` (Python also accepts surrounding white space, `+`,
`_` separators and non-ASCII digits: outside the modelled domain). `ValueError` otherwise. -/
def parseInt (s : Str) : Except Err Int :=
  match s with
  | [] => .error .value
  | c :: r =>
    if c = '-' then
      match parseNat r with
      | some n => .ok (-(n : Int))
      | none => .error .value
    else
      match parseNat (c :: r) with
      | some n => .ok (n : Int)
      | none => .error .value

/-- `[f(x) for x in xs]` with exceptions -/
def mapE {α β : Type} (f : α → Except Err β) : List α → Except Err (List β)
  | [] => .ok []
  | x :: xs =>
    match f x with
    | .error e => .error e
    | .ok y => match mapE f xs with
      | .error e => .error e
      | .ok ys => .ok (y :: ys)

/-- nested loop `for x in xs: out += f(x)` with exceptions -/
def flatMapE {α β : Type} (f : α → Except Err (List β)) : List α → Except Err (List β)
  | [] => .ok []
  | x :: xs =>
    match f x with
    | .error e => .error e
    | .ok ys => match flatMapE f xs with
      | .error e => .error e
      | .ok zs => .ok (ys ++ zs)

/-! ## insertion-ordered dict -/

/-- `d[k] = v` on an insertion-ordered dict -/
def dictSet {β : Type} (d : List (Str × β)) (k : Str) (v : β) : List (Str × β) :=
  match d with
  | [] => [(k, v)]
  | (k', v') :: r => if k' = k then (k', v) :: r else (k', v') :: dictSet r k v

/-- `d.get(k)` -/
def dictGet {β : Type} (d : List (Str × β)) (k : Str) : Option β :=
  match d with
  | [] => none
  | (k', v') :: r => if k' = k then some v' else dictGet r k

/-! ## variant records -/

/-- a value of `VariantRecord.attrs`: anything that is written with `str()` (given as that
text), or a list (written `','.join(str(x) …)`) -/
inductive AttrVal where
  | str (s : Str)
  | list (xs : List Str)
  deriving DecidableEq, Repr

/-- `VariantRecord` (location = seqname, start, end) -/
structure VarRec where
  seqname : Str
  start : Int
  stop : Int
  ref : Str
  alt : Str
  type : Str
  id : Str
  attrs : List (Str × AttrVal)
  deriving DecidableEq, Repr

def tSNV : Str := ['S','N','V']
def tSNP : Str := ['S','N','P']
def tINDEL : Str := ['I','N','D','E','L']
def tMNV : Str := ['M','N','V']
def tRES : Str := ['R','N','A','E','d','i','t','i','n','g','S','i','t','e']
def tFusion : Str := ['F','u','s','i','o','n']
def tInsertion : Str := ['I','n','s','e','r','t','i','o','n']
def tDeletion : Str := ['D','e','l','e','t','i','o','n']
def tSubstitution : Str := ['S','u','b','s','t','i','t','u','t','i','o','n']
def tCircRNA : Str := ['c','i','r','c','R','N','A']
def tSECT : Str := ['S','E','C','T']
def tW2F : Str := ['W','2','F']
/-- `_VARIANT_TYPES` of VariantRecord.py -/
def variantTypes : List Str := [tSNV, tINDEL, tMNV, tFusion, tRES, tInsertion, tDeletion,
  tSubstitution, tCircRNA, tSECT, tW2F]

def aFUSION : Str := ['<','F','U','S','I','O','N','>']
def aDEL : Str := ['<','D','E','L','>']
def aINS : Str := ['<','I','N','S','>']
def aSUB : Str := ['<','S','U','B','>']
def kEND : Str := ['E','N','D']
def kTRANSCRIPT_ID : Str := ['T','R','A','N','S','C','R','I','P','T','_','I','D']

/-- constants of the source that the model depends on -/
structure Consts where
  /-- `constant.ATTRS_POSITION` -/
  attrsPosition : List Str
  /-- `constant.SINGLE_NUCLEOTIDE_SUBSTITUTION` -/
  sns : List Str

/-- the text written for one attribute value (`VariantRecord.info`, loop body) -/
def attrText (C : Consts) (k : Str) (v : AttrVal) : Except Err Str :=
  if C.attrsPosition.contains k then
    match v with
    | .str s => match parseInt s with
      | .ok z => .ok (intToStr (z + 1))
      | .error e => .error e
    | .list _ => .error .type
  else
    match v with
    | .str s => .ok s
    | .list xs => .ok (joinWith ',' xs)

/-- `VariantRecord.info` -/
def info (C : Consts) (attrs : List (Str × AttrVal)) : Except Err Str :=
  match mapE (fun kv => match attrText C kv.1 kv.2 with
      | .ok t => .ok (upper kv.1 ++ '=' :: t ++ [';'])
      | .error e => .error e) attrs with
  | .ok parts => .ok (rstripChar ';' parts.flatten)
  | .error e => .error e

/-- `VariantRecord.__init__` checks -/
def ctorOk (r : VarRec) : Bool :=
  (r.type = tSubstitution || r.type = tDeletion || r.type = tCircRNA ||
    decide (r.stop - r.start = (r.ref.length : Int))) && variantTypes.contains r.type

/-- the REF and ALT columns of `VariantRecord.to_string` (first character of `ref` for the
symbolic kinds: `IndexError` on an empty `ref`) -/
def refAlt (C : Consts) (r : VarRec) : Except Err (Str × Str) :=
  if C.sns.contains r.type then .ok (r.ref, r.alt)
  else match r.ref with
    | [] => .error .index
    | c :: _ =>
      if r.type = tFusion then .ok ([c], aFUSION)
      else if r.type = tInsertion || r.type = tDeletion || r.type = tSubstitution then
        .ok ([c], '<' :: (upper r.type).take 3 ++ ['>'])
      else .ok ([c], '<' :: upper r.type ++ ['>'])

/-- `VariantRecord.to_string` -/
def toLine (C : Consts) (r : VarRec) : Except Err Str :=
  match refAlt C r with
  | .error e => .error e
  | .ok (ref, alt) =>
    match info C r.attrs with
    | .error e => .error e
    | .ok inf =>
      .ok (joinWith '\t' [r.seqname, intToStr (r.start + 1), r.id, ref, alt, ['.'], ['.'], inf])

/-- loop body of `seqvar.io.parse_attrs` -/
def parseAttrStep (C : Consts) (acc : List (Str × AttrVal)) (field : Str) :
    Except Err (List (Str × AttrVal)) :=
  match splitOn '=' field with
  | [k, v] =>
    let v := stripChar '"' v
    if C.attrsPosition.contains k then
      match parseInt v with
      | .ok z => .ok (dictSet acc k (.str (intToStr (z - 1))))
      | .error e => .error e
    else .ok (dictSet acc k (.str v))
  | _ => .error .value

def parseAttrsGo (C : Consts) (acc : List (Str × AttrVal)) : List Str →
    Except Err (List (Str × AttrVal))
  | [] => .ok acc
  | f :: fs => match parseAttrStep C acc f with
    | .ok acc' => parseAttrsGo C acc' fs
    | .error e => .error e

/-- `seqvar.io.parse_attrs` -/
def parseAttrs (C : Consts) (inf : Str) : Except Err (List (Str × AttrVal)) :=
  parseAttrsGo C [] (splitOn ';' inf)

/-- `attrs['END']` then `int(...)` -/
def attrEnd (attrs : List (Str × AttrVal)) : Except Err Int :=
  match dictGet attrs kEND with
  | none => .error .key
  | some (.str s) => parseInt s
  | some (.list _) => .error .type

/-- the `end` / `_type` branch of `line_to_variant_record` -/
def endType (start : Int) (f3 f4 : Str) (attrs : List (Str × AttrVal)) : Except Err (Int × Str) :=
  if !(startsWith ['<'] f4) then
    .ok (start + f3.length,
      if f3.length = 1 && f4.length = 1 then tSNV
      else if f3.length = 1 || f4.length = 1 then tINDEL else tMNV)
  else if f4 = aFUSION then .ok (start + 1, tFusion)
  else if f4 = aDEL then match attrEnd attrs with
    | .ok e => .ok (e, tDeletion) | .error e => .error e
  else if f4 = aINS then .ok (start + 1, tInsertion)
  else if f4 = aSUB then match attrEnd attrs with
    | .ok e => .ok (e, tSubstitution) | .error e => .error e
  else .error .value

/-- `seqvar.io.line_to_variant_record` -/
def parseLine (C : Consts) (line : Str) : Except Err VarRec :=
  match splitOn '\t' (rstrip line) with
  | f0 :: f1 :: f2 :: f3 :: f4 :: _ :: _ :: f7 :: _ =>
    match parseInt f1 with
    | .error e => .error e
    | .ok p =>
      let start := p - 1
      match parseAttrs C f7 with
      | .error e => .error e
      | .ok attrs =>
        match endType start f3 f4 attrs with
        | .error e => .error e
        | .ok (stop, ty) =>
          -- Bio.SeqFeature.SimpleLocation: ValueError when end < start
          if stop < start then .error .value
          else
            let r : VarRec := { seqname := f0, start := start, stop := stop, ref := f3,
                                alt := f4, type := ty, id := f2, attrs := attrs }
            if ctorOk r then .ok r else .error .value
  | _ :: f1 :: _ =>
    -- fewer than 8 fields: `int(fields[1])` is evaluated before the first missing index
    match parseInt f1 with
    | .error e => .error e
    | .ok _ => .error .index
  | _ => .error .index

/-- `VariantRecord.transcript_id` -/
def VarRec.transcriptId (r : VarRec) : Except Err Str :=
  match dictGet r.attrs kTRANSCRIPT_ID with
  | some (.str s) => .ok s
  | some (.list _) => .error .type     -- a list is not a dict key downstream
  | none => .ok r.seqname

/-- `VariantRecord.__eq__` -/
def VarRec.pyEq (a b : VarRec) : Bool :=
  a.start = b.start && a.stop = b.stop && a.ref = b.ref && a.alt = b.alt && a.type = b.type

/-- the tuple hashed by `VariantRecord.__hash__` -/
def VarRec.hashKey (r : VarRec) : List (Option AttrVal) × (Int × Int × Str × Str × Str) :=
  ( [ ['D','O','N','O','R','_','T','R','A','N','S','C','R','I','P','T','_','I','D'],
      ['S','T','A','R','T'], ['E','N','D'], ['D','O','N','O','R','_','S','T','A','R','T'],
      ['D','O','N','O','R','_','E','N','D'],
      ['L','E','F','T','_','I','N','S','E','R','T','_','S','T','A','R','T'],
      ['L','E','F','T','_','I','N','S','E','R','T','_','E','N','D'],
      ['R','I','G','H','T','_','I','N','S','E','R','T','_','S','T','A','R','T'],
      ['R','I','G','H','T','_','I','N','S','E','R','T','_','E','N','D'] ].map (dictGet r.attrs),
    (r.start, r.stop, r.ref, r.alt, r.type) )

/-- two records collapse in `set(records)` when hash key and `__eq__` agree
(hash collisions of Python's tuple hash are not modelled) -/
def VarRec.sameInSet (a b : VarRec) : Bool := a.hashKey = b.hashKey && a.pyEq b

/-- `set(records)` keeping the first representative, in first-occurrence order -/
def dedupBy {α : Type} (same : α → α → Bool) : List α → List α
  | [] => []
  | x :: xs => x :: (dedupBy same xs).filter (fun y => !same x y)

/-! ## Layer S: well-formed records and the normal form a record has after a round trip -/

/-- no tab: the text can be a GVF column -/
def noTab (s : Str) : Bool := !s.contains '\t'

/-- a written attribute value: stays inside its `KEY=value;` cell and is not quoted -/
def textOK (t : Str) : Bool :=
  !t.contains '\t' && !t.contains ';' && !t.contains '=' &&
  t.head? != some '"' && t.getLast? != some '"'

/-- an attribute key: stays inside its cell and is its own `upper()` -/
def keyOK (k : Str) : Bool :=
  !k.contains '\t' && !k.contains ';' && !k.contains '=' && upper k == k

/-- the text `info` writes for an attribute (`[]` when `attrText` raises) -/
def textOf (C : Consts) (kv : Str × AttrVal) : Str :=
  match attrText C kv.1 kv.2 with
  | .ok t => t
  | .error _ => []

def attrOK (C : Consts) (kv : Str × AttrVal) : Bool :=
  keyOK kv.1 && match attrText C kv.1 kv.2 with
    | .ok t => textOK t
    | .error _ => false

/-- there is a last attribute and its text does not end in white space
(`line.rstrip()` in the reader) -/
def lastOK (C : Consts) (attrs : List (Str × AttrVal)) : Bool :=
  match attrs.getLast? with
  | none => false
  | some kv => noTrailSpace (textOf C kv)

/-- record kinds written with literal REF / ALT -/
def snsKinds : List Str := [tSNV, tINDEL, tMNV, tRES]
/-- record kinds written with a symbolic ALT -/
def symKinds : List Str := [tFusion, tInsertion, tDeletion, tSubstitution]

/-- the constants extracted from the source classify the eight GVF kinds as the model assumes -/
def ConstsOK (C : Consts) : Bool :=
  snsKinds.all (C.sns.contains ·) && symKinds.all (!C.sns.contains ·)

/-- kind-specific well-formedness -/
def kindOK (r : VarRec) : Bool :=
  if snsKinds.contains r.type then
    !startsWith ['<'] r.alt && noTab r.ref && noTab r.alt &&
      decide (r.stop - r.start = (r.ref.length : Int))
  else if r.type = tFusion || r.type = tInsertion then
    match r.ref with
    | [] => false
    | c :: _ => c != '\t'
  else if r.type = tDeletion || r.type = tSubstitution then
    (match r.ref with
      | [] => false
      | c :: _ => c != '\t') &&
    (match attrEnd r.attrs with
      | .ok e => decide (r.start ≤ e)
      | .error _ => false)
  else false

/-- a well-formed record of one of the eight GVF kinds (decidable) -/
def WFrec (C : Consts) (r : VarRec) : Bool :=
  noTab r.seqname && noTab r.id && kindOK r && r.attrs.all (attrOK C) && lastOK C r.attrs &&
  decide ((r.attrs.map (·.1)).Nodup)

/-- the value `parse_attrs` stores for a written attribute -/
def parsedVal (C : Consts) (k : Str) (v : AttrVal) : AttrVal :=
  if C.attrsPosition.contains k then
    match v with
    | .str s => match parseInt s with
      | .ok z => .str (intToStr z)
      | .error _ => v
    | .list _ => v
  else
    match v with
    | .str s => .str s
    | .list xs => .str (joinWith ',' xs)

def normAttrs (C : Consts) (attrs : List (Str × AttrVal)) : List (Str × AttrVal) :=
  attrs.map fun kv => (kv.1, parsedVal C kv.1 kv.2)

/-- the record read back from the line of `r`: same seqname, start, id, attribute keys and
order; REF/ALT as written; values as text (position values in canonical decimal); `end` and
`type` recomputed by the reader -/
def normalise (C : Consts) (r : VarRec) : VarRec :=
  match refAlt C r with
  | .ok (ref, alt) =>
    let attrs := normAttrs C r.attrs
    match endType r.start ref alt attrs with
    | .ok (stop, ty) => { r with stop := stop, ref := ref, alt := alt, type := ty, attrs := attrs }
    | .error _ => r
  | .error _ => r

/-- a record that is already in the form the reader produces: nothing is lost -/
def Canonical (C : Consts) (r : VarRec) : Bool :=
  decide (normalise C r = r)

/-! ## circRNA records -/

/-- `CircRNAModel` (fragments = (start, end) of each `SeqFeature`; the fragment type
`'intron' if j+1 in introns else 'exon'` is a function of the other fields) -/
structure Circ where
  geneId : Str
  fragments : List (Int × Int)
  intron : List Int
  id : Str
  txId : Str
  geneName : Str
  genomicPosition : Str
  deriving DecidableEq, Repr

def kOFFSET : Str := ['O','F','F','S','E','T']
def kLENGTH : Str := ['L','E','N','G','T','H']
def kINTRON : Str := ['I','N','T','R','O','N']
def kGENE_SYMBOL : Str := ['G','E','N','E','_','S','Y','M','B','O','L']

/-- `CircRNAModel.to_string`; `wk` is the key under which the writer emits
`self.genomic_position` -/
def circToLine (wk : Str) (c : Circ) : Except Err Str :=
  match c.fragments with
  | [] => .error .index
  | (s0, _) :: _ =>
    let offset := joinWith ',' (c.fragments.map fun f => intToStr (f.1 - s0))
    let length := joinWith ',' (c.fragments.map fun f => intToStr (f.2 - f.1))
    let intron := joinWith ',' (c.intron.map intToStr)
    let inf := joinWith ';' [kOFFSET ++ '=' :: offset, kLENGTH ++ '=' :: length,
      kINTRON ++ '=' :: intron, kTRANSCRIPT_ID ++ '=' :: c.txId,
      kGENE_SYMBOL ++ '=' :: c.geneName, wk ++ '=' :: c.genomicPosition]
    .ok (joinWith '\t' [c.geneId, intToStr s0, c.id, ['.'], ['.'], ['.'], ['.'], inf])

/-- value of the `attrs` dict of `line_to_circ_model` -/
inductive CircVal where
  | ints (l : List Int)
  | s (v : Str)
  deriving DecidableEq, Repr

/-- loop body over `fields[7].split(';')` in `line_to_circ_model` -/
def circAttrStep (acc : List (Str × CircVal)) (field : Str) : Except Err (List (Str × CircVal)) :=
  match splitOn '=' field with
  | [k, v] =>
    if k = kOFFSET || k = kLENGTH then
      match mapE parseInt (splitOn ',' v) with
      | .ok l => .ok (dictSet acc k (.ints l))
      | .error e => .error e
    else if k = kINTRON then
      if v = [] then .ok (dictSet acc k (.ints []))
      else match mapE parseInt (splitOn ',' v) with
        | .ok l => .ok (dictSet acc k (.ints l))
        | .error e => .error e
    else .ok (dictSet acc k (.s v))
  | _ => .error .value

def circAttrsGo (acc : List (Str × CircVal)) : List Str → Except Err (List (Str × CircVal))
  | [] => .ok acc
  | f :: fs => match circAttrStep acc f with
    | .ok acc' => circAttrsGo acc' fs
    | .error e => .error e

def getInts (d : List (Str × CircVal)) (k : Str) : Except Err (List Int) :=
  match dictGet d k with
  | none => .error .key
  | some (.ints l) => .ok l
  | some (.s _) => .error .type

def getStr (d : List (Str × CircVal)) (k : Str) : Except Err Str :=
  match dictGet d k with
  | none => .error .key
  | some (.s v) => .ok v
  | some (.ints _) => .error .type

/-- `zip(offsets, lengths)` → fragments; `FeatureLocation` raises `ValueError` when end < start -/
def circFragments (start : Int) : List Int → List Int → Except Err (List (Int × Int))
  | o :: os, l :: ls =>
    if l < 0 then .error .value
    else match circFragments start os ls with
      | .ok fs => .ok ((start + o, start + o + l) :: fs)
      | .error e => .error e
  | _, _ => .ok []

/-- `circ.io.line_to_circ_model`; `rk` is the key the reader looks up for the genomic
position (`attrs.get(rk, '')`) -/
def circParseLine (rk : Str) (line : Str) : Except Err Circ :=
  match splitOn '\t' (rstrip line) with
  | f0 :: f1 :: f2 :: _ :: _ :: _ :: _ :: f7 :: _ =>
    match parseInt f1 with
    | .error e => .error e
    | .ok start =>
      match circAttrsGo [] (splitOn ';' f7) with
      | .error e => .error e
      | .ok attrs =>
        match getInts attrs kOFFSET, getInts attrs kLENGTH, getInts attrs kINTRON,
              getStr attrs kTRANSCRIPT_ID, getStr attrs kGENE_SYMBOL with
        | .ok offs, .ok lens, .ok intr, .ok tx, .ok sym =>
          let gp : Except Err Str := match dictGet attrs rk with
            | none => .ok []
            | some (.s v) => .ok v
            | some (.ints _) => .error .type
          match gp with
          | .error e => .error e
          | .ok g =>
            match circFragments start offs lens with
            | .error e => .error e
            | .ok frags => .ok { geneId := f0, fragments := frags, intron := intr, id := f2,
                                 txId := tx, geneName := sym, genomicPosition := g }
        | .error e, _, _, _, _ => .error e
        | _, .error e, _, _, _ => .error e
        | _, _, .error e, _, _ => .error e
        | _, _, _, .error e, _ => .error e
        | _, _, _, _, .error e => .error e
  | _ :: f1 :: _ =>
    match parseInt f1 with
    | .error e => .error e
    | .ok _ => .error .index
  | _ => .error .index

/-! ## byte-offset index -/

/-- `GVFPointer` without its handle: key, start, end (byte offsets) -/
structure Ptr where
  key : Str
  start : Nat
  stop : Nat
  deriving DecidableEq, Repr

/-- `for line in handle` on a binary handle: split after every `\n`, keeping it -/
def splitLinesKeep : Str → List Str
  | [] => []
  | c :: cs =>
    if c = '\n' then [c] :: splitLinesKeep cs
    else match splitLinesKeep cs with
      | [] => [[c]]
      | h :: t => (c :: h) :: t

def isComment (l : Str) : Bool := startsWith ['#'] l

/-- loop of `GVFIndex.iterate_pointer` from line `ls` on, with `line_end` and the pointer
under construction (`cur_key` is always `pointer.key`).  `keyOf` = parse the record of a
line and take its `transcript_id`. -/
def iterPtrGo (keyOf : Str → Except Err Str) : List Str → Nat → Option Ptr →
    Except Err (List Ptr)
  | [], _, none => .ok []
  | [], _, some p => .ok [p]
  | l :: ls, lineEnd, cur =>
    let lineStart := lineEnd
    let lineEnd := lineEnd + l.length
    if isComment l then iterPtrGo keyOf ls lineEnd cur
    else match keyOf l with
      | .error e => .error e
      | .ok key =>
        match cur with
        | none => iterPtrGo keyOf ls lineEnd (some ⟨key, lineStart, lineEnd⟩)
        | some p =>
          if p.key = key then iterPtrGo keyOf ls lineEnd (some { p with stop := lineEnd })
          else match iterPtrGo keyOf ls lineEnd (some ⟨key, lineStart, lineEnd⟩) with
            | .ok ps => .ok (p :: ps)
            | .error e => .error e

/-- `list(GVFIndex.iterate_pointer(handle, is_circ_rna))` on the bytes `content` -/
def iteratePointer (keyOf : Str → Except Err Str) (content : Str) : Except Err (List Ptr) :=
  iterPtrGo keyOf (splitLinesKeep content) 0 none

/-- `handle.seek(start); handle.read(end - start)` -/
def slice (content : Str) (p : Ptr) : Str := (content.drop p.start).take (p.stop - p.start)

/-- the lines `GVFPointer.__iter__` hands to the record parser -/
def loadLines (content : Str) (p : Ptr) : List Str := splitOn '\n' (rstrip (slice content p))

/-- `GVFPointer.load()` -/
def loadPtr {R : Type} (parse : Str → Except Err R) (content : Str) (p : Ptr) :
    Except Err (List R) :=
  mapE parse (loadLines content p)

/-- linear scan (`seqvar.io.iterate` / `circ.io.parse`): the non-comment lines -/
def scanLines (content : Str) : List Str := (splitLinesKeep content).filter (!isComment ·)

/-- `GVFPointer.to_line` -/
def Ptr.toLine (p : Ptr) : Str :=
  joinWith '\t' [p.key, natToStr p.start, natToStr (p.stop - p.start)]

def checksumPrefix : Str := ['C','H','E','C','K','S','U','M','=']

/-- the `.idx` text `index_gvf` writes: checksum line, then one line per pointer -/
def writeIdx (sum : Str) (ps : List Ptr) : Str :=
  (['#', ' '] ++ checksumPrefix ++ sum ++ ['\n']) ++ (ps.map fun p => p.toLine ++ ['\n']).flatten

/-- `index_gvf` (content of the `.idx` it produces for the GVF bytes `gvf`) -/
def indexGvf (H : Str → Str) (keyOf : Str → Except Err Str) (gvf : Str) : Except Err Str :=
  match iteratePointer keyOf gvf with
  | .ok ps => .ok (writeIdx (H gvf) ps)
  | .error e => .error e

/-- one line of `GVFPointer.parse` -/
def parsePtrLine (line : Str) : Except Err Ptr :=
  match splitOn '\t' (rstrip line) with
  | [k, s, l] =>
    match parseInt s, parseInt l with
    | .ok s, .ok l => .ok ⟨k, s.toNat, (s + l).toNat⟩
    | .error e, _ => .error e
    | _, .error e => .error e
  | _ => .error .value

/-- `list(GVFPointer.parse(index_handle, …))` -/
def parseIdx (idx : Str) : Except Err (List Ptr) :=
  mapE parsePtrLine ((splitLinesKeep idx).filter (!isComment ·))

inductive IdxReject where
  | missingChecksum   -- ValueError('Cannot find checksum value from the idx file.')
  | mismatch          -- ValueError("GVF checksum don't match.")
  deriving DecidableEq, Repr

/-- the loop of `validate_gvf_index` that finds `sum_expect` -/
def findChecksum : List Str → Option Str
  | [] => none
  | l :: ls =>
    if isComment l then
      let l' := lstripP (fun c => c = '#' || c = ' ') (rstrip l)
      if startsWith checksumPrefix l' then (splitOn '=' l')[1]?
      else findChecksum ls
    else none

/-- `VariantRecordPoolOnDisk.validate_gvf_index` -/
def validate (H : Str → Str) (gvf idx : Str) : Except IdxReject Unit :=
  match findChecksum (splitLinesKeep idx) with
  | none => .error .missingChecksum
  | some s => if H gvf = s then .ok () else .error .mismatch

inductive OpenErr where
  | reject (r : IdxReject)
  | py (e : Err)
  deriving DecidableEq, Repr

/-- one iteration of `VariantRecordPoolOnDiskOpener.open`: the pointers registered for a
GVF file, from its `.idx` when there is one (after validation), else generated -/
def openFile (H : Str → Str) (keyOf : Str → Except Err Str) (gvf : Str) (idx : Option Str) :
    Except OpenErr (List Ptr) :=
  match idx with
  | some i =>
    match validate H gvf i with
    | .error r => .error (.reject r)
    | .ok () => match parseIdx i with
      | .ok ps => .ok ps
      | .error e => .error (.py e)
  | none => match iteratePointer keyOf gvf with
    | .ok ps => .ok ps
    | .error e => .error (.py e)

/-- an opened pool: per file (in `gvf_files` order) its bytes and its pointers;
`pool.pointers[k]` is the concatenation over the files of the pointers with key `k` -/
abbrev Pool := List (Str × List Ptr)

def openPool (H : Str → Str) (keyOf : Str → Except Err Str) :
    List (Str × Option Str) → Except OpenErr Pool
  | [] => .ok []
  | (gvf, idx) :: fs =>
    match openFile H keyOf gvf idx with
    | .error e => .error e
    | .ok ps => match openPool H keyOf fs with
      | .ok pool => .ok ((gvf, ps) :: pool)
      | .error e => .error e

/-- `key in pool` -/
def Pool.contains (pool : Pool) (k : Str) : Bool :=
  pool.any fun f => f.2.any fun p => p.key = k

/-- the text lines reached by `for pointer in self.pointers[key]: pointer.load()` -/
def Pool.lines (pool : Pool) (k : Str) : List Str :=
  pool.flatMap fun f => (f.2.filter (·.key = k)).flatMap (loadLines f.1)

/-- the records loop of `VariantRecordPoolOnDisk.__getitem__` (before `set()`) -/
def Pool.records {R : Type} (parse : Str → Except Err R) (pool : Pool) (k : Str) :
    Except Err (List R) :=
  flatMapE (fun f => flatMapE (loadPtr parse f.1) (f.2.filter (·.key = k))) pool

/-- the line's record has transcript id `k` -/
def keyIs (keyOf : Str → Except Err Str) (k : Str) (l : Str) : Bool :=
  match keyOf l with
  | .ok k' => k' = k
  | .error _ => false

/-- linear scan of the files: all records whose transcript id is `k`, in file order -/
def scanRecords {R : Type} (parse : Str → Except Err R) (keyOf : Str → Except Err Str)
    (files : List Str) (k : Str) : Except Err (List R) :=
  mapE parse (files.flatMap fun c => (scanLines c).filter (keyIs keyOf k))

/-- `record.transcript_id` of the parsed line, as `iterate_pointer` computes it (variant GVF) -/
def varKey (C : Consts) (l : Str) : Except Err Str :=
  match parseLine C l with
  | .ok r => r.transcriptId
  | .error e => .error e

/-- the same for a circRNA GVF -/
def circKey (rk : Str) (l : Str) : Except Err Str :=
  match circParseLine rk l with
  | .ok c => .ok c.txId
  | .error e => .error e

/-! ## Layer S for files -/

/-- one physical line: ends with its only `\n` -/
def isLine (l : Str) : Bool := l.getLast? == some '\n' && !(l.dropLast.contains '\n')

/-- a record line of a GVF body: a physical line that is not a comment, not blank, and whose
record parses to a transcript id -/
def goodLine (keyOf : Str → Except Err Str) (l : Str) : Bool :=
  isLine l && !isComment l && rstrip l != [] &&
    match keyOf l with
    | .ok _ => true
    | .error _ => false

/-- a GVF file as `write` produces it: comment lines, then record lines -/
structure GvfFile where
  header : List Str
  body : List Str

def GvfFile.content (f : GvfFile) : Str := (f.header ++ f.body).flatten

def GvfFile.wf (keyOf : Str → Except Err Str) (f : GvfFile) : Bool :=
  f.header.all (fun l => isLine l && isComment l) && f.body.all (goodLine keyOf)

/-- a value of the circRNA INFO column: stays inside its `KEY=value;` cell -/
def cellOK (t : Str) : Bool := !t.contains '\t' && !t.contains ';' && !t.contains '='

/-- the five keys the circRNA reader and writer agree on -/
def circFixedKeys : List Str := [kOFFSET, kLENGTH, kINTRON, kTRANSCRIPT_ID, kGENE_SYMBOL]

/-- a well-formed circRNA record, for a writer that emits the genomic position under key `k` -/
def WFcirc (k : Str) (c : Circ) : Bool :=
  noTab c.geneId && noTab c.id && c.fragments != [] && c.fragments.all (fun f => decide (f.1 ≤ f.2)) &&
  cellOK c.txId && cellOK c.geneName && cellOK c.genomicPosition && cellOK k &&
  noTrailSpace c.genomicPosition && !circFixedKeys.contains k

/-- a checksum text that survives its `# CHECKSUM=...` line (any hex digest does) -/
def sumOK (s : Str) : Bool := !s.contains '\n' && !s.contains '=' && noTrailSpace s

/-- a pointer whose `.idx` line can be read back -/
def ptrOK (p : Ptr) : Bool :=
  !p.key.contains '\t' && !p.key.contains '\n' && p.key.head? != some '#' &&
    decide (p.start ≤ p.stop)

end MoPepGen.Gvf
