import MoPepGen.Model.Coord
/-!
# Layer S of property C15: the fusion transcript defined by two breakpoints

Written in genomic terms only (chromosome, strand, exon intervals, two 0-based genomic
breakpoint positions); no gene or transcript coordinate, no look-up of neighbouring exons.

A genomic position `q` is *retained* relative to a breakpoint `p` of a transcript when it is
exonic, or when the whole stretch between `q` and `p` (both included) is non-exonic — i.e. `q`
is one of "the intronic bases between the breakpoint and the nearest exon" of an intronic
breakpoint.  The donor part is the retained positions at or 5' of the left breakpoint, read in
transcript orientation; the acceptor part the retained positions at or 3' of the right one.
-/
namespace MoPepGen.FusionSpec
open MoPepGen

/-- no position of `[lo, hi]` is exonic -/
def allIntronic (t : Transcript) (lo hi : Nat) : Bool :=
  (List.range' lo (hi + 1 - lo)).all fun r => !isExonic t r

/-- `q` belongs to the fusion transcript on the side of breakpoint `p` -/
def retained (t : Transcript) (p q : Nat) : Bool :=
  isExonic t q || allIntronic t (min p q) (max p q)

/-- genomic positions of the donor part in transcript (5'→3') order; `n` = chromosome length -/
def donorPositions (n : Nat) (t : Transcript) (p : Nat) : List Nat :=
  match t.strand with
  | .plus => (List.range' 0 (p + 1)).filter (retained t p)
  | .minus => ((List.range' p (n - p)).filter (retained t p)).reverse

/-- genomic positions of the acceptor part in transcript (5'→3') order -/
def acceptorPositions (n : Nat) (t : Transcript) (p : Nat) : List Nat :=
  match t.strand with
  | .plus => (List.range' p (n - p)).filter (retained t p)
  | .minus => ((List.range' 0 (p + 1)).filter (retained t p)).reverse

/-- the bases a feature on strand `s` reads at the genomic positions `ps` -/
def readBases (chrom : List Char) (s : Strand) (ps : List Nat) : List Char :=
  ps.map fun q => strandBase s (chrom.getD q 'N')

/-- **the fusion transcript**: donor transcript up to and including the left breakpoint `lb`
(plus the retained intronic bases when `lb` is intronic) followed by the acceptor transcript
from the right breakpoint `rb` (preceded by the retained intronic bases when `rb` is intronic).
`lb`, `rb` are 0-based genomic positions. -/
def fusedSeq (chromD : List Char) (tD : Transcript) (lb : Nat) (chromA : List Char)
    (tA : Transcript) (rb : Nat) : List Char :=
  readBases chromD tD.strand (donorPositions chromD.length tD lb) ++
  readBases chromA tA.strand (acceptorPositions chromA.length tA rb)

end MoPepGen.FusionSpec
