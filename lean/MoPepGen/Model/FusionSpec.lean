import MoPepGen.Model.Coord
/-!
# Layer S of property C15: the fusion transcript defined by two breakpoints

Written in genomic terms only (chromosome, strand, exon intervals, two 0-based genomic
breakpoint positions); no gene or transcript coordinate, no look-up of neighbouring exons.

A genomic position `q` is *retained* relative to a breakpoint `p` of a transcript when it is
exonic, or when the whole stretch between `q` and `p` (both included) is non-exonic — i.e. `q`
is one of "the intronic bases between the breakpoint and the nearest exon" of an intronic
breakpoint.  The donor part is the retained positions at or 5' of the left breakpoint, read in
transcript orientation; the acceptor part the retained positions at or 3' of the right one.
-/
namespace MoPepGen.FusionSpec
open MoPepGen

/-- no position of `[lo, hi]` is exonic -/
def allIntronic (t : Transcript) (lo hi : Nat) : Bool :=
  (List.range' lo (hi + 1 - lo)).all fun r => !isExonic t r

/-- `q` belongs to the fusion transcript on the side of breakpoint `p` -/
def retained (t : Transcript) (p q : Nat) : Bool :=
  isExonic t q || allIntronic t (min p q) (max p q)

/-- genomic positions of the donor part in transcript (5'→3') order; `n` = chromosome length -/
def donorPositions (n : Nat) (t : Transcript) (p : Nat) : List Nat :=
  match t.strand with
  | .plus => (List.range' 0 (p + 1)).filter (retained t p)
  | .minus => ((List.range' p (n - p)).filter (retained t p)).reverse

/-- genomic positions of the acceptor part in transcript (5'→3') order -/
def acceptorPositions (n : Nat) (t : Transcript) (p : Nat) : List Nat :=
  match t.strand with
  | .plus => (List.range' p (n - p)).filter (retained t p)
  | .minus => ((List.range' 0 (p + 1)).filter (retained t p)).reverse

/-- the bases a feature on strand `s` reads at the genomic positions `ps` -/
def readBases (chrom : List Char) (s : Strand) (ps : List Nat) : List Char :=
  ps.map fun q => strandBase s (chrom.getD q 'N')

/-- **the fusion transcript**: donor transcript up to and including the left breakpoint `lb`
(plus the retained intronic bases when `lb` is intronic) followed by the acceptor transcript
from the right breakpoint `rb` (preceded by the retained intronic bases when `rb` is intronic).
`lb`, `rb` are 0-based genomic positions. -/
def fusedSeq (chromD : List Char) (tD : Transcript) (lb : Nat) (chromA : List Char)
    (tA : Transcript) (rb : Nat) : List Char :=
  readBases chromD tD.strand (donorPositions chromD.length tD lb) ++
  readBases chromA tA.strand (acceptorPositions chromA.length tA rb)

/-! ## the four stretches of the fusion transcript (callVariant clause)

`callVariant` treats the fusion transcript as a backbone whose coordinates refer to four
stretches: the donor transcript's own (exonic) prefix — its length is the donor breakpoint in
transcript coordinates —, the retained donor intron, the retained acceptor intron, and the
acceptor transcript's own suffix (its first position bounds the ATGs a non-coding donor may use).
In transcript order the retained intronic positions of the donor come LAST and those of the
acceptor FIRST (`Props.C15.donorSplit_spec`, `acceptorSplit_spec`), so the stretches are cut out
with `takeWhile` / `dropWhile`. -/

/-- donor positions: (exonic prefix, retained intron) -/
def donorSplit (n : Nat) (t : Transcript) (p : Nat) : List Nat × List Nat :=
  let dp := donorPositions n t p
  (dp.takeWhile (isExonic t), dp.dropWhile (isExonic t))

/-- acceptor positions: (retained intron, exonic suffix) -/
def acceptorSplit (n : Nat) (t : Transcript) (p : Nat) : List Nat × List Nat :=
  let ap := acceptorPositions n t p
  (ap.takeWhile (fun q => !isExonic t q), ap.dropWhile (fun q => !isExonic t q))

structure FusedParts where
  donorExonic : List Char
  donorIntron : List Char
  accIntron : List Char
  accExonic : List Char

def FusedParts.join (x : FusedParts) : List Char :=
  x.donorExonic ++ x.donorIntron ++ x.accIntron ++ x.accExonic

/-- `fusedSeq` cut into its four stretches (`Props.C15.fusedParts_join`: their concatenation IS
`fusedSeq`) -/
def fusedParts (chromD : List Char) (tD : Transcript) (lb : Nat) (chromA : List Char)
    (tA : Transcript) (rb : Nat) : FusedParts :=
  let d := donorSplit chromD.length tD lb
  let a := acceptorSplit chromA.length tA rb
  { donorExonic := readBases chromD tD.strand d.1
    donorIntron := readBases chromD tD.strand d.2
    accIntron := readBases chromA tA.strand a.1
    accExonic := readBases chromA tA.strand a.2 }

end MoPepGen.FusionSpec
