/-
Layer M for moPepGen/cli/decoy_fasta.py (class DecoyFasta) and Layer S for
property C20 (one faithful, reproducible decoy per target).

External inputs are parameters:
* the cleavage rule is the `Re` of Model/Regex.lean (sites: `cleaveSites` of
  Model/Digest.lean — nothing about regexes is re-modelled here);
* every list returned by `random.sample(indices_to_shuffle, len(indices_to_shuffle))`
  is an element of the parameter `perms : List (List Nat)` (one per call, in
  call order; the harness records them from the real run);
* the FASTA reader/writer (Biopython) is outside: a run maps the parsed records
  (`description`, `seq`) to the records handed to the writer.

No imports outside Model/: this file is linked into the native driver.
-/
import MoPepGen.Model.Digest
namespace MoPepGen.Decoy
open MoPepGen

/-! ## find_fixed_indices -/

/-- The options `find_fixed_indices` reads from `self`.
`off` is the amount subtracted from each value of the site enumeration:
`0` = the unchanged tree (`fixed_indices += …find_all_enzymatic_cleave_sites(…)`),
`1` = the repaired behaviour (index of the residue consumed by the rule's match).
`exc` is the exception expression the site enumeration ends up using
(`none` on the unchanged tree: the name `'trypsin_expection'` is not a key of
`EXPASY_RULES`, so it is used as a literal pattern that never ends at a K/R). -/
structure Cfg where
  enzyme : Option Re
  exc    : Option Re
  off    : Nat
  keepN  : Bool
  keepC  : Bool
  /-- `args.non_shuffle_pattern.split(',')` -/
  pats   : List (List Char)
  deriving Inhabited

/-- the three tests of the `for i, it in enumerate(seq)` body -/
def Cfg.keepAt (c : Cfg) (n : Nat) (i : Nat) (ch : Char) : Bool :=
  (i == 0 && c.keepN) || (i + 1 == n && c.keepC) || c.pats.contains [ch]

/-- the `for i, it in enumerate(seq)` loop, from position `p` over the suffix `rest` -/
def Cfg.scanFrom (c : Cfg) (n : Nat) : Pep → Nat → List Nat
  | [], _ => []
  | ch :: rest, p =>
    if c.keepAt n p ch then p :: Cfg.scanFrom c n rest (p + 1) else Cfg.scanFrom c n rest (p + 1)

/-- M: the enzyme part of `find_fixed_indices` -/
def Cfg.siteIndices (c : Cfg) (s : Pep) : List Nat :=
  match c.enzyme with
  | none => []
  | some r => (cleaveSites r c.exc s).map (· - c.off)

/-- M: `DecoyFasta.find_fixed_indices` -/
def fixedIndices (c : Cfg) (s : Pep) : List Nat :=
  c.siteIndices s ++ c.scanFrom s.length s 0

/-- S: position `i` of `s` has to stay in place: peptide N or C terminus when asked,
a listed residue, or the residue at a cleavage site (the residue consumed by the
rule's match: the chain is cut after it, i.e. `i + 1` is a site). -/
def MustKeep (enzyme exc : Option Re) (keepN keepC : Bool) (pats : List (List Char))
    (s : Pep) (i : Nat) : Prop :=
  i < s.length ∧
    ((i = 0 ∧ keepN = true) ∨ (i + 1 = s.length ∧ keepC = true) ∨
     (∃ ch, s[i]? = some ch ∧ [ch] ∈ pats) ∨
     (∃ r, enzyme = some r ∧ isSite r exc s (i + 1) = true))

/-! ## reverse_sequence / shuffle_sequence -/

/-- `[i for i,_ in enumerate(seq) if i not in fixed_indices]` -/
def movable (n : Nat) (fixed : List Nat) : List Nat :=
  (List.range n).filter fun i => !fixed.contains i

/-- iterations of the `while` with `i + offset ≥ len(seq)`:
a fixed `i + offset` raises IndexError (`none`), otherwise `indices[i]` is consumed -/
def loopPast (seq : Pep) (fixed : List Nat) : List Nat → Nat → Option Pep
  | [], _ => some []
  | j :: π, p =>
    if fixed.contains p then none
    else match seq[j]?, loopPast seq fixed π (p + 1) with
      | some c, some t => some (c :: t)
      | _, _ => none

/-- M: the `while i < len(indices)` loop of `reverse_sequence`/`shuffle_sequence`.
`π` = `indices[i:]`, `p` = `i + offset` = `len(shuffled_seq)`, `rest` = `seq[p:]`
(ghost argument that makes the recursion structural). Result: the characters
appended from here on; `none` = IndexError. -/
def loop (seq : Pep) (fixed : List Nat) : Pep → List Nat → Nat → Option Pep
  | [], π, p => loopPast seq fixed π p
  | _ :: _, [], _ => some []
  | c :: rest, j :: π, p =>
    if fixed.contains p then
      (loop seq fixed rest (j :: π) (p + 1)).map (c :: ·)     -- append seq[i+offset]; offset += 1
    else match seq[j]?, loop seq fixed rest π (p + 1) with    -- append seq[indices[i]]; i += 1
      | some cj, some t => some (cj :: t)
      | _, _ => none

/-- `if len(out) < len(seq): out += list(seq[len(out) - len(seq):])`
(a negative start `len(out) - len(seq)` is the index `len(out)`). -/
def addTail (seq out : Pep) : Pep :=
  if out.length < seq.length then out ++ seq.drop out.length else out

/-- both functions after `indices` has been computed -/
def weave (seq : Pep) (fixed : List Nat) (π : List Nat) : Option Pep :=
  (loop seq fixed seq π 0).map (addTail seq)

/-- M: `DecoyFasta.reverse_sequence` -/
def reverseSeq (seq : Pep) (fixed : List Nat) : Option Pep :=
  weave seq fixed (movable seq.length fixed).reverse

/-- M: `DecoyFasta.shuffle_sequence`; `π` = the value of
`random.sample(indices_to_shuffle, len(indices_to_shuffle))`.
The contract of the external call — the result is a rearrangement of its first
argument — is part of the model: a `π` that breaks it is `none` (the harness checks
the contract on every recorded call, and such a `π` would show up as a diff). -/
def shuffleSeq (seq : Pep) (fixed : List Nat) (π : List Nat) : Option Pep :=
  if π.isPerm (movable seq.length fixed) then weave seq fixed π else none

/-- elements of `l` whose absolute position (first element at `p`) satisfies `b` -/
def selPos {α : Type} (b : Nat → Bool) : List α → Nat → List α
  | [], _ => []
  | x :: xs, p => if b p then x :: selPos b xs (p + 1) else selPos b xs (p + 1)

/-- S: the subsequence of `l` at the positions that may move -/
def movSub (fixed : List Nat) (l : Pep) : Pep := selPos (fun i => !fixed.contains i) l 0
/-- S: the subsequence of `l` at the fixed positions -/
def fixSub (fixed : List Nat) (l : Pep) : Pep := selPos (fun i => fixed.contains i) l 0

/-! ## generate_decoy_sequence, main -/

structure Rec where
  hdr : String
  seq : Pep
  deriving DecidableEq, Repr, Inhabited

inductive Method | reverse | shuffle
  deriving DecidableEq, Repr, Inhabited
inductive Order | juxtaposed | targetFirst | decoyFirst
  deriving DecidableEq, Repr, Inhabited

structure RunCfg extends Cfg where
  method      : Method
  maxAttempts : Nat
  decoyString : String
  /-- `decoy_string_position == 'prefix'` -/
  isPrefix    : Bool
  order       : Order
  deriving Inhabited

/-- header construction in `generate_decoy_sequence` -/
def decoyHeader (c : RunCfg) (h : String) : String :=
  if c.isPrefix then c.decoyString ++ h else h ++ c.decoyString

/-- M: the `while True` of `generate_decoy_sequence` (method shuffle).
`a` = `attempts` so far; consumes one recorded permutation per attempt.
Result: decoy, attempts made, overlap flag (`n_overlap += 1`), unused permutations.
`none` = IndexError in `shuffle_sequence`, a `random.sample` contract breach,
or the recorded permutations ran out. -/
def retry (seq : Pep) (fixed : List Nat) (inPool : Pep → Bool) (maxAtt : Nat) :
    Nat → List (List Nat) → Option (Pep × Nat × Bool × List (List Nat))
  | _, [] => none
  | a, π :: rest =>
    match shuffleSeq seq fixed π with
    | none => none
    | some d =>
      if !inPool d then some (d, a + 1, false, rest)
      else if a + 1 ≥ maxAtt then some (d, a + 1, true, rest)
      else retry seq fixed inPool maxAtt (a + 1) rest

/-- M: the sequence part of `generate_decoy_sequence`: decoy, overlap flag, unused permutations -/
def genSeq (c : RunCfg) (tpool dpool : List Pep) (s : Pep) (perms : List (List Nat)) :
    Option (Pep × Bool × List (List Nat)) :=
  let fixed := fixedIndices c.toCfg s
  match c.method with
  | .reverse =>
    (reverseSeq s fixed).map fun d => (d, tpool.contains d || dpool.contains d, perms)
  | .shuffle =>
    (retry s fixed (fun d => tpool.contains d || dpool.contains d) c.maxAttempts 0 perms).map
      fun r => (r.1, r.2.2.1, r.2.2.2)

/-- M: `for seq in self.target_db: self.generate_decoy_sequence(seq)`.
Result: `decoy_db`, `n_overlap`, unused permutations. -/
def genAll (c : RunCfg) (tpool : List Pep) :
    List Rec → List Pep → List (List Nat) → Option (List Rec × Nat × List (List Nat))
  | [], _, perms => some ([], 0, perms)
  | t :: ts, dpool, perms =>
    match genSeq c tpool dpool t.seq perms with
    | none => none
    | some (d, ov, perms') =>
      match genAll c tpool ts (d :: dpool) perms' with
      | none => none
      | some (ds, n, rest) =>
        some ({ hdr := decoyHeader c t.hdr, seq := d } :: ds, n + (if ov then 1 else 0), rest)

/-- `Seq.__lt__` (bytes comparison) on ASCII strings -/
def ltSeq : Pep → Pep → Bool
  | [], [] => false
  | [], _ :: _ => true
  | _ :: _, [] => false
  | a :: as, b :: bs => decide (a.toNat < b.toNat) || (a.toNat == b.toNat && ltSeq as bs)

/-- stable insertion: `x` goes before the first element that is not smaller -/
def insertRec (x : Rec) : List Rec → List Rec
  | [] => [x]
  | y :: ys => if ltSeq y.seq x.seq then y :: insertRec x ys else x :: y :: ys

/-- M: `self.target_db.sort(key=lambda x: x.seq)` (stable) -/
def sortRecs : List Rec → List Rec
  | [] => []
  | x :: xs => insertRec x (sortRecs xs)

/-- juxtaposed: `yield target; yield decoy_db[i]` -/
def interleave : List Rec → List Rec → List Rec
  | t :: ts, d :: ds => t :: d :: interleave ts ds
  | _, _ => []

/-- M: `iterate_target_decoy_database` -/
def arrange : Order → List Rec → List Rec → List Rec
  | .juxtaposed, T, D => interleave T D
  | .targetFirst, T, D => T ++ D
  | .decoyFirst, T, D => D ++ T

/-- M: `DecoyFasta.main` from the parsed records to the records written:
(records in output order, `n_overlap`, number of unused recorded permutations). -/
def run (c : RunCfg) (targets : List Rec) (perms : List (List Nat)) :
    Option (List Rec × Nat × Nat) :=
  let T := sortRecs targets
  match genAll c (T.map (·.seq)) T [] perms with
  | none => none
  | some (D, n, rest) => some (arrange c.order T D, n, rest.length)

/-! ## Layer S for the run -/

/-- S: `d` is a faithful decoy of target `t`: header = target header with the decoy string
attached, residues rearranged, every position of `keep` unchanged. -/
def IsDecoyOf (c : RunCfg) (keep : Pep → Nat → Prop) (t d : Rec) : Prop :=
  d.hdr = decoyHeader c t.hdr ∧ d.seq.Perm t.seq ∧ d.seq.length = t.seq.length ∧
    ∀ i, keep t.seq i → d.seq[i]? = t.seq[i]?

/-- S: the two lists have the same length and are related position by position
(exactly one `d` per `t`). -/
def Paired (R : Rec → Rec → Prop) : List Rec → List Rec → Prop
  | [], [] => True
  | t :: ts, d :: ds => R t d ∧ Paired R ts ds
  | _, _ => False

end MoPepGen.Decoy
