import MoPepGen.Model.Gtf
import MoPepGen.Lemmas.Gvf
/-! Helper lemmas for the GTF codec part of property C11 (`Model/Gtf.lean`). -/
namespace MoPepGen.Gtf
open MoPepGen.Gvf (Str AttrVal dictGet dictSet splitOn rstripChar stripChar isPySpace rstrip)

/-! ## stable insertion sort -/

/-- the order facts the sort lemmas need: `lt` is asymmetric and `¬ lt` is transitive
(a strict weak order) -/
structure StrictWeak {α : Type} (lt : α → α → Bool) : Prop where
  asymm : ∀ a b, lt a b = true → lt b a = false
  trans : ∀ a b c, lt b a = false → lt c b = false → lt c a = false

/-- no later element is smaller than an earlier one -/
def SortedBy {α : Type} (lt : α → α → Bool) (l : List α) : Prop :=
  l.Pairwise fun a b => lt b a = false

section SortLemmas
variable {α : Type} {lt : α → α → Bool}

theorem insertBy_cons_pos {x y : α} {ys : List α} (h : lt y x = true) :
    insertBy lt x (y :: ys) = y :: insertBy lt x ys := by rw [insertBy, if_pos h]

theorem insertBy_cons_neg {x y : α} {ys : List α} (h : lt y x = false) :
    insertBy lt x (y :: ys) = x :: y :: ys := by rw [insertBy, if_neg (by simp [h])]

theorem mem_insertBy {x y : α} : ∀ {l : List α}, y ∈ insertBy lt x l ↔ y = x ∨ y ∈ l
  | [] => by simp [insertBy]
  | z :: zs => by
    unfold insertBy
    by_cases h : lt z x = true
    · rw [if_pos h]; simp only [List.mem_cons, mem_insertBy (l := zs)]
      constructor
      · rintro (h | h | h) <;> simp [h]
      · rintro (h | h | h) <;> simp [h]
    · rw [if_neg h]; simp

theorem mem_sortBy {y : α} : ∀ {l : List α}, y ∈ sortBy lt l ↔ y ∈ l
  | [] => by simp [sortBy]
  | x :: xs => by simp [sortBy, mem_insertBy, mem_sortBy (l := xs)]

theorem sortBy_of_sorted : ∀ {l : List α}, SortedBy lt l → sortBy lt l = l
  | [], _ => rfl
  | [x], _ => rfl
  | x :: y :: ys, h => by
    have h' : SortedBy lt (y :: ys) := (List.pairwise_cons.mp h).2
    have hy : lt y x = false := (List.pairwise_cons.mp h).1 y (by simp)
    rw [sortBy, sortBy_of_sorted h', insertBy, if_neg (by simp [hy])]

theorem sorted_insertBy (sw : StrictWeak lt) (x : α) :
    ∀ {l : List α}, SortedBy lt l → SortedBy lt (insertBy lt x l)
  | [], _ => by simp [insertBy, SortedBy]
  | y :: ys, h => by
    obtain ⟨hy, hs⟩ := List.pairwise_cons.mp h
    unfold insertBy
    by_cases hyx : lt y x = true
    · rw [if_pos hyx]
      refine List.pairwise_cons.mpr ⟨?_, sorted_insertBy sw x hs⟩
      intro z hz
      rcases mem_insertBy.mp hz with rfl | hz
      · exact sw.asymm _ _ hyx
      · exact hy z hz
    · rw [if_neg hyx]
      have hyx' : lt y x = false := by simpa using hyx
      refine List.pairwise_cons.mpr ⟨?_, h⟩
      intro z hz
      rcases List.mem_cons.mp hz with rfl | hz
      · exact hyx'
      · exact sw.trans _ _ _ hyx' (hy z hz)

theorem sorted_sortBy (sw : StrictWeak lt) : ∀ l : List α, SortedBy lt (sortBy lt l)
  | [] => List.Pairwise.nil
  | x :: xs => sorted_insertBy sw x (sorted_sortBy sw xs)

theorem filter_insertBy_neg (p : α → Bool) {x : α} (hp : p x = false) :
    ∀ l : List α, (insertBy lt x l).filter p = l.filter p
  | [] => by simp [insertBy, hp]
  | y :: ys => by
    unfold insertBy
    by_cases hyx : lt y x = true
    · rw [if_pos hyx]; simp only [List.filter_cons, filter_insertBy_neg p hp ys]
    · rw [if_neg hyx]; simp [hp]

theorem filter_insertBy_pos (sw : StrictWeak lt) (p : α → Bool) {x : α} (hp : p x = true) :
    ∀ {l : List α}, SortedBy lt l → (insertBy lt x l).filter p = insertBy lt x (l.filter p)
  | [], _ => by simp [insertBy, hp]
  | y :: ys, h => by
    obtain ⟨hy, hs⟩ := List.pairwise_cons.mp h
    by_cases hyx : lt y x = true
    · rw [insertBy_cons_pos hyx]
      by_cases hpy : p y = true
      · rw [List.filter_cons, if_pos hpy, List.filter_cons, if_pos hpy,
          filter_insertBy_pos sw p hp hs, insertBy_cons_pos hyx]
      · rw [List.filter_cons, if_neg hpy, List.filter_cons, if_neg hpy,
          filter_insertBy_pos sw p hp hs]
    · have hyx' : lt y x = false := by simpa using hyx
      rw [insertBy_cons_neg hyx']
      have : ∀ z ∈ (y :: ys).filter p, lt z x = false := by
        intro z hz
        have hz' := (List.mem_filter.mp hz).1
        rcases List.mem_cons.mp hz' with rfl | hz'
        · exact hyx'
        · exact sw.trans _ _ _ hyx' (hy z hz')
      rw [List.filter_cons, if_pos hp]
      cases hf : (y :: ys).filter p with
      | nil => rfl
      | cons z zs =>
        have := this z (by rw [hf]; simp)
        rw [insertBy_cons_neg this]

theorem filter_sortBy (sw : StrictWeak lt) (p : α → Bool) :
    ∀ l : List α, (sortBy lt l).filter p = sortBy lt (l.filter p)
  | [] => rfl
  | x :: xs => by
    by_cases hp : p x = true
    · rw [sortBy, filter_insertBy_pos sw p hp (sorted_sortBy sw xs), filter_sortBy sw p xs,
        List.filter_cons, if_pos hp, sortBy]
    · have hp' : p x = false := by simpa using hp
      rw [sortBy, filter_insertBy_neg p hp', filter_sortBy sw p xs, List.filter_cons, hp']
      simp

theorem map_insertBy {β : Type} {lt' : β → β → Bool} (f : α → β)
    (hf : ∀ a b, lt' (f a) (f b) = lt a b) (x : α) :
    ∀ l : List α, insertBy lt' (f x) (l.map f) = (insertBy lt x l).map f
  | [] => rfl
  | y :: ys => by
    simp only [List.map_cons, insertBy, hf]
    by_cases h : lt y x = true
    · simp [h, map_insertBy f hf x ys]
    · simp [h]

theorem map_sortBy {β : Type} {lt' : β → β → Bool} (f : α → β)
    (hf : ∀ a b, lt' (f a) (f b) = lt a b) :
    ∀ l : List α, sortBy lt' (l.map f) = (sortBy lt l).map f
  | [] => rfl
  | x :: xs => by
    simp only [List.map_cons, sortBy, map_sortBy f hf xs, map_insertBy f hf]

theorem sortBy_eq_nil {l : List α} : sortBy lt l = [] ↔ l = [] := by
  constructor
  · intro h
    cases l with
    | nil => rfl
    | cons x xs =>
      have : x ∈ sortBy lt (x :: xs) := mem_sortBy.mpr (by simp)
      rw [h] at this; simp at this
  · rintro rfl; rfl

end SortLemmas

/-! ## the order on records -/

theorem level_inj {a b : GStrand} : a = b ↔ a.level = b.level := by
  cases a <;> cases b <;> simp [GStrand.level]

/-- `__lt__` is the lexicographic order on (start, strand level, end) -/
theorem recLt_iff (a b : Rec) : Rec.lt a b = true ↔
    (a.iv.start < b.iv.start ∨ (a.iv.start = b.iv.start ∧
      (a.strand.level < b.strand.level ∨
        (a.strand.level = b.strand.level ∧ a.iv.stop < b.iv.stop)))) := by
  simp only [Rec.lt, Rec.eqLoc, Rec.gt, level_inj, Bool.not_eq_true', Bool.or_eq_false_iff,
    Bool.and_eq_false_iff, Bool.or_eq_true, Bool.and_eq_true, decide_eq_true_eq,
    decide_eq_false_iff_not]
  omega

theorem recLt_false_iff (a b : Rec) : Rec.lt a b = false ↔
    ¬ (a.iv.start < b.iv.start ∨ (a.iv.start = b.iv.start ∧
      (a.strand.level < b.strand.level ∨
        (a.strand.level = b.strand.level ∧ a.iv.stop < b.iv.stop)))) := by
  rw [← recLt_iff]; simp

theorem recLt_sw : StrictWeak Rec.lt where
  asymm := by
    intro a b h
    rw [recLt_iff] at h; rw [recLt_false_iff]; omega
  trans := by
    intro a b c h1 h2
    rw [recLt_false_iff] at *; omega

/-- `f` changes at most the attribute dict -/
def SameCore (f : Rec → Rec) : Prop :=
  ∀ r, (f r).chrom = r.chrom ∧ (f r).type = r.type ∧ (f r).iv = r.iv ∧
    (f r).strand = r.strand ∧ (f r).frame = r.frame

theorem sameCore_erase : SameCore Rec.erase := fun _ => ⟨rfl, rfl, rfl, rfl, rfl⟩

theorem SameCore.lt {f : Rec → Rec} (h : SameCore f) (a b : Rec) :
    Rec.lt (f a) (f b) = Rec.lt a b := by
  obtain ⟨_, _, h1, h2, _⟩ := h a
  obtain ⟨_, _, h3, h4, _⟩ := h b
  simp only [Rec.lt, Rec.eqLoc, Rec.gt, h1, h2, h3, h4]

theorem SameCore.gt {f : Rec → Rec} (h : SameCore f) (a b : Rec) :
    Rec.gt (f a) (f b) = Rec.gt a b := by
  obtain ⟨_, _, h1, h2, _⟩ := h a
  obtain ⟨_, _, h3, h4, _⟩ := h b
  simp only [Rec.gt, h1, h2, h3, h4]

theorem SameCore.slot {f : Rec → Rec} (h : SameCore f) (a : Rec) : (f a).slot = a.slot := by
  simp only [Rec.slot, (h a).2.1]

theorem SameCore.sortRecs {f : Rec → Rec} (h : SameCore f) (l : List Rec) :
    sortRecs (l.map f) = (sortRecs l).map f := map_sortBy f h.lt l

theorem sortRecs_of_sorted {l : List Rec} (h : sortedRecs l = true) : sortRecs l = l :=
  sortBy_of_sorted (by simpa [sortedRecs, SortedBy] using h)

/-! ## insertion-ordered dicts -/

theorem dictGet_eq_none {β : Type} : ∀ {d : List (Str × β)} {k : Str},
    k ∉ d.map (·.1) → dictGet d k = none
  | [], _, _ => rfl
  | (k', v') :: r, k, h => by
    have hk : k' ≠ k := fun e => h (by simp [e])
    have hr : k ∉ r.map (·.1) := fun e => h (by simp [e])
    simp [dictGet, hk, dictGet_eq_none hr]

theorem dictGet_append_last {β : Type} : ∀ {d : List (Str × β)} {k : Str} {v : β},
    k ∉ d.map (·.1) → dictGet (d ++ [(k, v)]) k = some v
  | [], _, _, _ => by simp [dictGet]
  | (k', v') :: r, k, v, h => by
    have hk : k' ≠ k := fun e => h (by simp [e])
    have hr : k ∉ r.map (·.1) := fun e => h (by simp [e])
    simp [dictGet, hk, dictGet_append_last hr]

theorem dictSet_append_last {β : Type} : ∀ {d : List (Str × β)} {k : Str} {v v' : β},
    k ∉ d.map (·.1) → dictSet (d ++ [(k, v)]) k v' = d ++ [(k, v')]
  | [], _, _, _, _ => by simp [dictSet]
  | (k', w) :: r, k, v, v', h => by
    have hk : k' ≠ k := fun e => h (by simp [e])
    have hr : k ∉ r.map (·.1) := fun e => h (by simp [e])
    simp [dictSet, hk, dictSet_append_last hr]

theorem dictGet_append_ne {β : Type} : ∀ {d : List (Str × β)} {k k' : Str} {v : β},
    k' ≠ k → dictGet (d ++ [(k', v)]) k = dictGet d k
  | [], _, _, _, h => by simp [dictGet, h]
  | (k'', w) :: r, k, k', v, h => by
    simp only [List.cons_append, dictGet, dictGet_append_ne (d := r) h]

theorem dictSet_append_ne {β : Type} : ∀ {d : List (Str × β)} {k k' : Str} {v w : β},
    k' ≠ k → k ∈ d.map (·.1) → dictSet (d ++ [(k', v)]) k w = dictSet d k w ++ [(k', v)]
  | [], _, _, _, _, _, hm => by simp at hm
  | (k'', x) :: r, k, k', v, w, h, hm => by
    by_cases hk : k'' = k
    · simp [dictSet, hk]
    · have hr : k ∈ r.map (·.1) := by
        simp only [List.map_cons, List.mem_cons] at hm
        rcases hm with e | e
        · exact absurd e.symm hk
        · exact e
      simp [dictSet, hk, dictSet_append_ne (d := r) h hr]

theorem dictGet_dictSet_same {β : Type} : ∀ (d : List (Str × β)) (k : Str) (v : β),
    dictGet (dictSet d k v) k = some v
  | [], _, _ => by simp [dictSet, dictGet]
  | (k', w) :: r, k, v => by
    by_cases hk : k' = k
    · simp [dictSet, dictGet, hk]
    · simp [dictSet, dictGet, hk, dictGet_dictSet_same r k v]

theorem dictGet_dictSet_ne {β : Type} : ∀ (d : List (Str × β)) {k k' : Str} (v : β),
    k' ≠ k → dictGet (dictSet d k' v) k = dictGet d k
  | [], _, _, _, h => by simp [dictSet, dictGet, h]
  | (k'', w) :: r, k, k', v, h => by
    by_cases hk : k'' = k'
    · subst hk; simp [dictSet, dictGet, h]
    · simp only [dictSet, hk, if_false, dictGet, dictGet_dictSet_ne r v h]

theorem dictSet_same_value {β : Type} : ∀ {d : List (Str × β)} {k : Str} {v : β},
    dictGet d k = some v → dictSet d k v = d
  | [], _, _, h => by simp [dictGet] at h
  | (k', w) :: r, k, v, h => by
    by_cases hk : k' = k
    · simp [dictGet, hk] at h; simp [dictSet, hk, h]
    · simp only [dictGet, hk, if_false] at h
      simp [dictSet, hk, dictSet_same_value h]

theorem dictGet_isSome_of_mem {β : Type} : ∀ {d : List (Str × β)} {k : Str},
    k ∈ d.map (·.1) → (dictGet d k).isSome = true
  | [], _, h => by simp at h
  | (k', w) :: r, k, h => by
    by_cases hk : k' = k
    · simp [dictGet, hk]
    · simp only [List.map_cons, List.mem_cons] at h
      rcases h with e | e
      · exact absurd e.symm hk
      · simp [dictGet, hk, dictGet_isSome_of_mem e]

theorem mem_keys_of_dictGet {β : Type} : ∀ {d : List (Str × β)} {k : Str} {v : β},
    dictGet d k = some v → (k, v) ∈ d
  | [], _, _, h => by simp [dictGet] at h
  | (k', w) :: r, k, v, h => by
    by_cases hk : k' = k
    · simp [dictGet, hk] at h; simp [hk, h]
    · simp only [dictGet, hk, if_false] at h
      exact List.mem_cons_of_mem _ (mem_keys_of_dictGet h)

theorem dictErase_append_last {β : Type} {d : List (Str × β)} {k : Str} {v : β}
    (h : k ∉ d.map (·.1)) : dictErase (d ++ [(k, v)]) k = d := by
  unfold dictErase
  rw [List.filter_append]
  have : d.filter (fun kv => decide (kv.1 ≠ k)) = d := by
    apply List.filter_eq_self.mpr
    intro kv hkv
    have : kv.1 ≠ k := fun e => h (by rw [← e]; exact List.mem_map_of_mem hkv)
    simpa using this
  rw [this]; simp

/-! ## the attribute dict through `to_gtf_record` → `line_to_seq_feature` -/

theorem attrsOK_cons {k : Str} {v : AttrVal} {r : List (Str × AttrVal)}
    (h : attrsOK ((k, v) :: r) = true) :
    k ∉ r.map (·.1) ∧ attrsOK r = true ∧ keepKeys.contains k = true ∧
      (match v with
        | .str s => k ≠ kTag ∧ stripChar '"' s = s
        | .list l => k = kTag ∧ l ≠ [] ∧ ∀ s ∈ l, stripChar '"' s = s) := by
  simp only [attrsOK, List.map_cons, List.nodup_cons, List.all_cons, Bool.and_eq_true,
    decide_eq_true_eq] at h
  obtain ⟨⟨h1, h2⟩, ⟨h3, h4⟩, h5⟩ := h
  refine ⟨h1, ?_, h3, ?_⟩
  · simp only [attrsOK, Bool.and_eq_true, decide_eq_true_eq]; exact ⟨h2, h5⟩
  · cases v with
    | str s => simpa [quoteFree] using h4
    | list l => simpa [quoteFree, and_assoc] using h4

theorem attrStep_tags (acc : List (Str × AttrVal)) (hk : kTag ∉ acc.map (·.1)) :
    ∀ (l l0 : List Str), (∀ s ∈ l, stripChar '"' s = s) →
      (l.map fun v => (kTag, v)).foldl attrStep (acc ++ [(kTag, .list l0)]) =
        acc ++ [(kTag, .list (l0 ++ l))]
  | [], l0, _ => by simp
  | v :: vs, l0, h => by
    have hv : stripChar '"' v = v := h v (by simp)
    have ih := attrStep_tags acc hk vs (l0 ++ [v]) (fun s hs => h s (by simp [hs]))
    simp only [List.map_cons, List.foldl_cons]
    have : attrStep (acc ++ [(kTag, AttrVal.list l0)]) (kTag, v) =
        acc ++ [(kTag, .list (l0 ++ [v]))] := by
      have hkeep : keepKeys.contains kTag = true := by decide
      simp only [attrStep, hkeep, if_true, hv, dictGet_append_last hk, dictSet_append_last hk]
    rw [this, ih]; simp

theorem foldl_attrStep_flat : ∀ (d acc : List (Str × AttrVal)) (extra : List (Str × Str)),
    attrsOK d = true → (∀ k ∈ d.map (·.1), k ∉ acc.map (·.1)) →
    (flatAttrs d ++ extra).foldl attrStep acc = extra.foldl attrStep (acc ++ d)
  | [], acc, extra, _, _ => by simp [flatAttrs]
  | (k, v) :: r, acc, extra, h, hd => by
    obtain ⟨hkr, hr, hkeep, hv⟩ := attrsOK_cons h
    have hka : k ∉ acc.map (·.1) := hd k (by simp)
    have hd' : ∀ k' ∈ r.map (·.1), k' ∉ (acc ++ [(k, v)]).map (·.1) := by
      intro k' hk'
      have := hd k' (by simp [hk'])
      simp only [List.map_append, List.map_cons, List.map_nil, List.mem_append, List.mem_cons,
        List.not_mem_nil, or_false, not_or]
      exact ⟨this, fun e => hkr (e ▸ hk')⟩
    cases v with
    | str s =>
      obtain ⟨hnt, hq⟩ := hv
      have : attrStep acc (k, s) = acc ++ [(k, .str s)] := by
        simp only [attrStep, hkeep, if_true, hnt, if_false, hq]
        exact Gvf.dictSet_new acc k _ hka
      simp only [flatAttrs, List.cons_append, List.foldl_cons, this]
      rw [foldl_attrStep_flat r _ extra hr hd']; simp
    | list l =>
      obtain ⟨rfl, hne, hq⟩ := hv
      cases l with
      | nil => exact absurd rfl hne
      | cons v0 vs =>
        have hq0 : stripChar '"' v0 = v0 := hq v0 (by simp)
        have h0 : attrStep acc (kTag, v0) = acc ++ [(kTag, .list [v0])] := by
          simp only [attrStep, hkeep, if_true, hq0, dictGet_eq_none hka]
          exact Gvf.dictSet_new acc kTag _ hka
        simp only [flatAttrs, List.map_cons, List.cons_append, List.foldl_cons, h0,
          List.append_assoc, List.foldl_append]
        rw [attrStep_tags acc hka vs [v0] (fun s hs => hq s (by simp [hs]))]
        have := foldl_attrStep_flat r (acc ++ [(kTag, .list (v0 :: vs))]) extra hr hd'
        simp only [List.foldl_append] at this
        simpa using this

theorem parseAttrs_flat {d : List (Str × AttrVal)} (h : attrsOK d = true) :
    parseAttrs (flatAttrs d) = d := by
  have := foldl_attrStep_flat d [] [] h (by simp)
  simpa [parseAttrs] using this

/-- the attribute dict `line_to_seq_feature` builds from what `to_gtf_record` wrote with the
`is_protein_coding` suffix -/
def withIpc (d : List (Str × AttrVal)) : Option Bool → List (Str × AttrVal)
  | none => d
  | some true => d ++ [(kIpc, .str vTrue)]
  | some false => d ++ [(kIpc, .str vFalse)]

theorem parseAttrs_flat_ipc {d : List (Str × AttrVal)} (h : attrsOK d = true)
    (hk : kIpc ∉ d.map (·.1)) (ipc : Option Bool) :
    parseAttrs (flatAttrs d ++ ipcAttr ipc) = withIpc d ipc := by
  have := foldl_attrStep_flat d [] (ipcAttr ipc) h (by simp)
  simp only [parseAttrs, this, List.nil_append]
  have hkeep : keepKeys.contains kIpc = true := by decide
  have hnt : kIpc ≠ kTag := by decide
  have q1 : stripChar '"' vTrue = vTrue := by decide
  have q2 : stripChar '"' vFalse = vFalse := by decide
  cases ipc with
  | none => rfl
  | some b =>
    cases b <;>
      simp only [ipcAttr, List.foldl_cons, List.foldl_nil, attrStep, hkeep, if_true, hnt,
        if_false, q1, q2, withIpc] <;>
      exact Gvf.dictSet_new d kIpc _ hk

/-! ## one record through `to_gtf_record` → `line_to_seq_feature` -/

theorem strandOfField_strandField {s : GStrand} (h : s ≠ .unknown) :
    strandOfField (strandField s) = s := by
  cases s
  · decide
  · decide
  · exact absurd rfl h
  · decide

theorem Rec.ok_iff {r : Rec} (h : r.ok = true) :
    attrsOK r.attrs = true ∧ r.strand ≠ .unknown ∧ r.iv.start ≤ r.iv.stop := by
  simpa [Rec.ok, and_assoc] using h

theorem lineToRec_recToLine_ipc {r : Rec} (h : r.ok = true) (hk : kIpc ∉ r.attrs.map (·.1))
    (ipc : Option Bool) :
    lineToRec (recToLine r ipc) = .ok { r with attrs := withIpc r.attrs ipc } := by
  obtain ⟨ha, hs, hiv⟩ := Rec.ok_iff h
  unfold lineToRec recToLine
  simp only [Nat.add_one_ne_zero, if_false, Nat.add_sub_cancel]
  rw [if_neg (by omega), strandOfField_strandField hs, parseAttrs_flat_ipc ha hk]

theorem lineToRec_recToLine {r : Rec} (h : r.ok = true) :
    lineToRec (recToLine r none) = .ok r := by
  obtain ⟨ha, hs, hiv⟩ := Rec.ok_iff h
  unfold lineToRec recToLine
  simp only [Nat.add_one_ne_zero, if_false, Nat.add_sub_cancel, ipcAttr, List.append_nil]
  rw [if_neg (by omega), strandOfField_strandField hs, parseAttrs_flat ha]

/-! ## the attribute column as text -/

theorem mapE_ok {α β : Type} {f : α → Except GErr β} {g : α → β} :
    ∀ l : List α, (∀ x ∈ l, f x = .ok (g x)) → mapE f l = .ok (l.map g)
  | [], _ => rfl
  | x :: xs, h => by
    have ih := mapE_ok xs (fun y hy => h y (by simp [hy]))
    simp [mapE, h x (by simp), ih]

theorem mapE_map_ok {α β : Type} {f : α → Except GErr β} {g : β → α} :
    ∀ l : List β, (∀ x ∈ l, f (g x) = .ok x) → mapE f (l.map g) = .ok l
  | [], _ => rfl
  | x :: xs, h => by
    have ih := mapE_map_ok xs (fun y hy => h y (by simp [hy]))
    simp [mapE, h x (by simp), ih]

theorem splitFirst_append {c : Char} : ∀ {k : Str} (v : Str), c ∉ k →
    splitFirst c (k ++ c :: v) = some (k, v)
  | [], v, _ => by simp [splitFirst]
  | x :: xs, v, h => by
    have hx : x ≠ c := fun e => h (by simp [e])
    have hxs : c ∉ xs := fun e => h (by simp [e])
    simp [splitFirst, hx, splitFirst_append v hxs]

/-- the text of one attribute without its closing `;` -/
def attrPart (kv : Str × Str) : Str := ' ' :: kv.1 ++ ' ' :: kv.2

theorem keyTextOK_iff {k : Str} (h : keyTextOK k = true) :
    k ≠ [] ∧ ∀ c ∈ k, isPySpace c = false ∧ c ≠ ';' := by
  simp only [keyTextOK, Bool.and_eq_true, decide_eq_true_eq, List.all_eq_true,
    Bool.not_eq_true'] at h
  exact h

theorem valTextOK_iff {v : Str} (h : valTextOK v = true) :
    v ≠ [] ∧ ';' ∉ v ∧ Gvf.noTrailSpace v = true := by
  simp only [valTextOK, Bool.and_eq_true, decide_eq_true_eq, List.all_eq_true] at h
  obtain ⟨⟨⟨h1, h2⟩, _⟩, h4⟩ := h
  refine ⟨h1, fun hm => h2 _ hm rfl, ?_⟩
  unfold Gvf.noTrailSpace
  cases hl : v.getLast? with
  | none => rfl
  | some c => rw [hl] at h4; exact h4

theorem colField_attrPart {kv : Str × Str} (hk : keyTextOK kv.1 = true)
    (hv : valTextOK kv.2 = true) : colField (attrPart kv) = .ok kv := by
  obtain ⟨k, v⟩ := kv
  obtain ⟨hkne, hkc⟩ := keyTextOK_iff hk
  obtain ⟨hvne, _, hvt⟩ := valTextOK_iff hv
  have hsp : isPySpace ' ' = true := by decide
  have hnk : ' ' ∉ k := fun hm => by
    have := (hkc ' ' hm).1; rw [hsp] at this; cases this
  have h1 : (attrPart (k, v)).dropWhile isPySpace = k ++ ' ' :: v := by
    cases k with
    | nil => exact absurd rfl hkne
    | cons c cs =>
      have := (hkc c (by simp)).1
      simp [attrPart, List.dropWhile, hsp, this]
  have h2 : rstrip (k ++ ' ' :: v) = k ++ ' ' :: v := by
    apply Gvf.rstrip_eq_self
    unfold Gvf.noTrailSpace at hvt ⊢
    cases v with
    | nil => exact absurd rfl hvne
    | cons c cs =>
      have : (k ++ ' ' :: c :: cs).getLast? = (c :: cs).getLast? := by
        have e : k ++ ' ' :: c :: cs = (k ++ [' ']) ++ (c :: cs) := by simp
        rw [e, List.getLast?_append]
        cases hl : (c :: cs).getLast? with
        | none => simp at hl
        | some x => rfl
      rw [this]; exact hvt
  simp only [colField, strip, h1, h2, splitFirst_append v hnk]

theorem colText_eq (kvs : List (Str × Str)) :
    colText kvs = ((kvs.map attrPart).map (· ++ [';'])).flatten := by
  unfold colText
  rw [List.map_map]
  rfl

/-- `colParse` reads back what `colText` wrote: for a non-empty attribute list whose keys
are non-empty, free of white space and `;`, and whose values are non-empty, free of `;` and
do not begin or end with white space. -/
theorem colParse_colText {kvs : List (Str × Str)} (hne : kvs ≠ [])
    (h : ∀ kv ∈ kvs, keyTextOK kv.1 = true ∧ valTextOK kv.2 = true) :
    colParse (colText kvs) = .ok kvs := by
  have hparts : ∀ p ∈ kvs.map attrPart, p ≠ [] ∧ ';' ∉ p := by
    intro p hp
    obtain ⟨kv, hkv, rfl⟩ := List.mem_map.mp hp
    obtain ⟨hk, hv⟩ := h kv hkv
    obtain ⟨_, hkc⟩ := keyTextOK_iff hk
    obtain ⟨_, hvc, _⟩ := valTextOK_iff hv
    refine ⟨by simp [attrPart], ?_⟩
    intro hm
    simp only [attrPart, List.mem_cons, List.mem_append] at hm
    rcases hm with (e | e) | (e | e)
    · exact absurd e (by decide)
    · exact (hkc _ e).2 rfl
    · exact absurd e (by decide)
    · exact hvc e
  unfold colParse
  rw [colText_eq, Gvf.rstripChar_flatten (by simpa using hne) hparts,
    Gvf.splitOn_joinWith _ _ (by simpa using hne) (fun x hx => (hparts x hx).2)]
  exact mapE_map_ok _ (fun kv hkv => colField_attrPart (h kv hkv).1 (h kv hkv).2)

/-! ## the key loop of `add_record` -/

theorem getStr_setStr_same (r : Rec) (k v : Str) : (r.setStr k v).getStr k = some v := by
  simp [Rec.getStr, Rec.setStr, dictGet_dictSet_same]

theorem getStr_setStr_ne (r : Rec) {k k' : Str} (v : Str) (h : k' ≠ k) :
    (r.setStr k' v).getStr k = r.getStr k := by
  simp [Rec.getStr, Rec.setStr, dictGet_dictSet_ne _ _ h]

/-- the value `add_record` takes from a record: `None` and `''` do not count -/
def neStr : Option Str → Option Str
  | some v => if v = [] then none else some v
  | none => none

/-- model value after one record -/
def orNe (mv : Option Str) (r : Rec) (k : Str) : Option Str :=
  match mv with
  | some v => some v
  | none => neStr (r.getStr k)

theorem syncKey_fst (mv : Option Str) (r : Rec) (k : Str) : (syncKey mv r k).1 = orNe mv r k := by
  cases mv with
  | some v => rfl
  | none =>
    simp only [syncKey, orNe, neStr]
    cases r.getStr k with
    | none => rfl
    | some v => by_cases h : v = [] <;> simp [h]

theorem syncKey_snd_none (r : Rec) (k : Str) : (syncKey none r k).2 = r := by
  simp only [syncKey]
  cases r.getStr k with
  | none => rfl
  | some v => by_cases h : v = [] <;> simp [h]

theorem syncKey_getStr_ne (mv : Option Str) (r : Rec) {k k' : Str} (h : k' ≠ k) :
    (syncKey mv r k').2.getStr k = r.getStr k := by
  cases mv with
  | none => rw [syncKey_snd_none]
  | some v => exact getStr_setStr_ne r v h

theorem syncKey_getStr_same {mv : Option Str} {r : Rec} {k v : Str}
    (h : (syncKey mv r k).1 = some v) : (syncKey mv r k).2.getStr k = some v := by
  cases mv with
  | some w =>
    have : v = w := by simp only [syncKey] at h; cases h; rfl
    subst this
    exact getStr_setStr_same r k v
  | none =>
    rw [syncKey_snd_none]
    rw [syncKey_fst] at h
    simp only [orNe, neStr] at h
    cases hg : r.getStr k with
    | none => rw [hg] at h; cases h
    | some w =>
      rw [hg] at h
      by_cases hw : w = []
      · simp [hw] at h
      · simp [hw] at h; rw [h]

theorem syncKey_sameCore (mv : Option Str) (k : Str) : SameCore fun r => (syncKey mv r k).2 := by
  intro r
  cases mv with
  | none =>
    show (syncKey none r k).2.chrom = _ ∧ (syncKey none r k).2.type = _ ∧
      (syncKey none r k).2.iv = _ ∧ (syncKey none r k).2.strand = _ ∧
      (syncKey none r k).2.frame = _
    rw [syncKey_snd_none]; exact ⟨rfl, rfl, rfl, rfl, rfl⟩
  | some v => exact ⟨rfl, rfl, rfl, rfl, rfl⟩

theorem syncIds_fst (i : Ids) (r : Rec) :
    (syncIds i r).1 = ⟨orNe i.transcriptId r kTranscriptId, orNe i.geneId r kGeneId,
      orNe i.proteinId r kProteinId, orNe i.geneName r kGeneName⟩ := by
  simp only [syncIds, syncKey_fst]
  have h1 : kTranscriptId ≠ kGeneId := by decide
  have h2 : kTranscriptId ≠ kProteinId := by decide
  have h3 : kTranscriptId ≠ kGeneName := by decide
  have h4 : kGeneId ≠ kProteinId := by decide
  have h5 : kGeneId ≠ kGeneName := by decide
  have h6 : kProteinId ≠ kGeneName := by decide
  simp only [orNe, syncKey_getStr_ne _ _ h1, syncKey_getStr_ne _ _ h2, syncKey_getStr_ne _ _ h3,
    syncKey_getStr_ne _ _ h4, syncKey_getStr_ne _ _ h5, syncKey_getStr_ne _ _ h6]

theorem syncIds_sameCore (i : Ids) : SameCore fun r => (syncIds i r).2 := by
  intro r
  simp only [syncIds]
  have a := syncKey_sameCore i.transcriptId kTranscriptId r
  have b := syncKey_sameCore i.geneId kGeneId (syncKey i.transcriptId r kTranscriptId).2
  have c := syncKey_sameCore i.proteinId kProteinId
    (syncKey i.geneId (syncKey i.transcriptId r kTranscriptId).2 kGeneId).2
  have d := syncKey_sameCore i.geneName kGeneName
    (syncKey i.proteinId (syncKey i.geneId (syncKey i.transcriptId r kTranscriptId).2 kGeneId).2
      kProteinId).2
  simp only at a b c d
  refine ⟨?_, ?_, ?_, ?_, ?_⟩
  · rw [d.1, c.1, b.1, a.1]
  · rw [d.2.1, c.2.1, b.2.1, a.2.1]
  · rw [d.2.2.1, c.2.2.1, b.2.2.1, a.2.2.1]
  · rw [d.2.2.2.1, c.2.2.2.1, b.2.2.2.1, a.2.2.2.1]
  · rw [d.2.2.2.2, c.2.2.2.2, b.2.2.2.2, a.2.2.2.2]

theorem syncIds_slot (i : Ids) (r : Rec) : (syncIds i r).2.slot = r.slot :=
  (syncIds_sameCore i).slot r

theorem syncIds_empty (r : Rec) : (syncIds {} r).2 = r := by
  simp only [syncIds, syncKey_snd_none]

/-- after the key loop the record carries the model's gene id -/
theorem syncIds_geneId {i : Ids} {r : Rec} {g : Str} (h : (syncIds i r).1.geneId = some g) :
    (syncIds i r).2.getStr kGeneId = some g := by
  have h4 : kProteinId ≠ kGeneId := by decide
  have h5 : kGeneName ≠ kGeneId := by decide
  simp only [syncIds] at h ⊢
  rw [syncKey_getStr_ne _ _ h5, syncKey_getStr_ne _ _ h4]
  exact syncKey_getStr_same h

theorem firstAttr_cons (k : Str) (r : Rec) (rs : List Rec) :
    firstAttr k (r :: rs) = match neStr (r.getStr k) with
      | some v => some v
      | none => firstAttr k rs := by
  simp only [firstAttr, neStr]
  cases r.getStr k with
  | none => rfl
  | some v => by_cases h : v = [] <;> simp [h]

/-- model value after a list of records -/
def orFirst (mv : Option Str) (k : Str) (rs : List Rec) : Option Str :=
  match mv with
  | some v => some v
  | none => firstAttr k rs

theorem orFirst_cons (mv : Option Str) (k : Str) (r : Rec) (rs : List Rec) :
    orFirst (orNe mv r k) k rs = orFirst mv k (r :: rs) := by
  cases mv with
  | some v => rfl
  | none =>
    simp only [orNe, orFirst, firstAttr_cons]

theorem syncAll_fst : ∀ (rs : List Rec) (i : Ids),
    (syncAll i rs).1 = ⟨orFirst i.transcriptId kTranscriptId rs, orFirst i.geneId kGeneId rs,
      orFirst i.proteinId kProteinId rs, orFirst i.geneName kGeneName rs⟩
  | [], i => by
    cases i with
    | mk a b c d => cases a <;> cases b <;> cases c <;> cases d <;> rfl
  | r :: rs, i => by
    simp only [syncAll, syncAll_fst rs, syncIds_fst, orFirst_cons]

theorem syncAll_snd_erase : ∀ (rs : List Rec) (i : Ids),
    (syncAll i rs).2.map Rec.erase = rs.map Rec.erase
  | [], _ => rfl
  | r :: rs, i => by
    simp only [syncAll, List.map_cons, syncAll_snd_erase rs]
    refine congrArg (· :: _) ?_
    obtain ⟨h1, h2, h3, h4, h5⟩ := syncIds_sameCore i r
    simp only at h1 h2 h3 h4 h5
    simp only [Rec.erase, h1, h2, h3, h4, h5]

theorem syncAll_snd_slot : ∀ (rs : List Rec) (i : Ids) (P : Option Slot → Prop),
    (∀ r ∈ rs, P r.slot) → ∀ r ∈ (syncAll i rs).2, P r.slot
  | [], _, _, _ => by simp [syncAll]
  | r :: rs, i, P, h => by
    intro x hx
    simp only [syncAll, List.mem_cons] at hx
    rcases hx with rfl | hx
    · rw [syncIds_slot]; exact h r (by simp)
    · exact syncAll_snd_slot rs _ P (fun y hy => h y (by simp [hy])) x hx

/-! ## one transcript: the records of its block through `add_record` and `sort_records` -/

/-- `add_transcript_record` restricted to the model of one transcript -/
def foldTx (m : TxModel) : List Rec → TxModel
  | [] => m
  | r :: rs =>
    match r.slot with
    | some s => foldTx (addRecord m s r).1 rs
    | none => foldTx m rs

/-- the records of a list that go to slot `s` -/
def collect (s : Slot) (l : List Rec) : List Rec := l.filter fun r => decide (r.slot = some s)

theorem collect_append (s : Slot) (a b : List Rec) :
    collect s (a ++ b) = collect s a ++ collect s b := List.filter_append ..

theorem collect_eq_self {s : Slot} {l : List Rec} (h : ∀ r ∈ l, r.slot = some s) :
    collect s l = l :=
  List.filter_eq_self.mpr fun r hr => by simp [h r hr]

theorem collect_eq_nil {s s' : Slot} {l : List Rec} (h : ∀ r ∈ l, r.slot = some s')
    (hne : s' ≠ s) : collect s l = [] :=
  List.filter_eq_nil_iff.mpr fun r hr => by simp [h r hr, hne]

theorem collect_map {f : Rec → Rec} (hf : SameCore f) (s : Slot) (l : List Rec) :
    collect s (l.map f) = (collect s l).map f := by
  unfold collect
  rw [List.filter_map]
  congr 1
  apply List.filter_congr
  intro r _
  simp [hf.slot]

/-- the model with the ids replaced and the records of `rs` appended to their lists -/
def addLists (m : TxModel) (i : Ids) (rs : List Rec) : TxModel :=
  { transcript := m.transcript, isProteinCoding := m.isProteinCoding,
    cds := m.cds ++ collect .cds rs, exon := m.exon ++ collect .exon rs,
    startCodon := m.startCodon ++ collect .startCodon rs,
    stopCodon := m.stopCodon ++ collect .stopCodon rs,
    utr := m.utr ++ collect .utr rs, fiveUtr := m.fiveUtr ++ collect .fiveUtr rs,
    threeUtr := m.threeUtr ++ collect .threeUtr rs, sec := m.sec ++ collect .sec rs,
    transcriptId := i.transcriptId, geneId := i.geneId, proteinId := i.proteinId,
    geneName := i.geneName }

/-- a record that is placed in one of the eight lists -/
def SubSlot (o : Option Slot) : Prop := ∃ s, o = some s ∧ s ≠ .transcript

theorem addLists_place {m : TxModel} {i1 i2 : Ids} {s : Slot} {r : Rec} {rs : List Rec}
    (hs : r.slot = some s) (hne : s ≠ .transcript) :
    addLists (place (m.setIds i1) s r) i2 rs = addLists m i2 (r :: rs) := by
  cases s <;>
    first
    | exact absurd rfl hne
    | simp [addLists, place, TxModel.setIds, collect, List.filter_cons, hs]

theorem place_ids (m : TxModel) (s : Slot) (r : Rec) : (place m s r).ids = m.ids := by
  cases s <;> try rfl
  simp only [place]
  cases dictGet r.attrs kIpc <;> rfl

theorem setIds_ids (m : TxModel) (i : Ids) : (m.setIds i).ids = i := rfl

theorem foldTx_eq : ∀ (rs : List Rec) (m : TxModel), (∀ r ∈ rs, SubSlot r.slot) →
    foldTx m rs = addLists m (syncAll m.ids rs).1 (syncAll m.ids rs).2
  | [], m, _ => by
    simp [foldTx, syncAll, addLists, collect, TxModel.ids]
  | r :: rs, m, h => by
    obtain ⟨s, hs, hne⟩ := h r (by simp)
    have ih := foldTx_eq rs (place (m.setIds (syncIds m.ids r).1) s (syncIds m.ids r).2)
      (fun x hx => h x (by simp [hx]))
    rw [place_ids, setIds_ids] at ih
    simp only [foldTx, hs, addRecord, ih, syncAll]
    exact addLists_place (by rw [syncIds_slot]; exact hs) hne

/-- what the loader makes of a transcript record `t`, flag `ipc`, ids `i` and the records `rs`
of the eight lists (in file order) -/
def build (t : Rec) (ipc : Option Bool) (i : Ids) (rs : List Rec) : Except GErr TxModel :=
  sortRecords (addLists { transcript := some t, isProteinCoding := ipc } i rs)

/-- `f` applied to the records of the eight lists -/
def mapLists (f : Rec → Rec) (m : TxModel) : TxModel :=
  { m with cds := m.cds.map f, exon := m.exon.map f, startCodon := m.startCodon.map f,
           stopCodon := m.stopCodon.map f, utr := m.utr.map f, fiveUtr := m.fiveUtr.map f,
           threeUtr := m.threeUtr.map f, sec := m.sec.map f }

theorem mapLists_erase (m : TxModel) : mapLists Rec.erase m = m.erase := rfl

theorem isFive_map {f : Rec → Rec} (hf : SameCore f) (st : GStrand) (a b u : Rec) :
    isFive st (f a) (f b) (f u) = isFive st a b u := by
  simp only [isFive, hf.lt, hf.gt]

theorem build_map {f : Rec → Rec} (hf : SameCore f) (t : Rec) (ipc : Option Bool) (i : Ids)
    (rs : List Rec) :
    build t ipc i (rs.map f) = (build t ipc i rs).map (mapLists f) := by
  simp only [build, addLists, sortRecords, List.nil_append, collect_map hf, hf.sortRecs,
    List.map_eq_nil_iff]
  by_cases hu : collect .utr rs = []
  · simp only [hu, if_true, Except.map, mapLists]
  · simp only [hu, if_false, List.head?_map, List.getLast?_map]
    cases h1 : (sortRecs (collect .cds rs)).head? with
    | none => simp [Except.map]
    | some first =>
      cases h2 : (sortRecs (collect .cds rs)).getLast? with
      | none => simp [Except.map]
      | some last =>
        simp only [Option.map_some, Except.map, mapLists, List.filter_map, Function.comp_def,
          isFive_map hf, hf.sortRecs]
        rw [← List.map_append, ← List.map_append, hf.sortRecs, hf.sortRecs]

/-! ## well-formed transcript models -/

/-- the own `five_prime_utr` / `three_prime_utr` records of a list (not shared with `utr`) -/
def ownUtr (l : List Rec) : List Rec := l.filter fun x => !isUtrObject x

/-- `TxModel.wf` unpacked -/
structure TxWF (gid tid : Str) (m : TxModel) (t : Rec) : Prop where
  ht : m.transcript = some t
  tok : t.ok = true
  tslot : t.slot = some .transcript
  ttid : t.getStr kTranscriptId = some tid
  tgid : t.getStr kGeneId = some gid
  gne : gid ≠ []
  tipc : dictGet t.attrs kIpc = none
  cds : listOK tid .cds m.cds = true
  exon : listOK tid .exon m.exon = true
  start : listOK tid .startCodon m.startCodon = true
  stop : listOK tid .stopCodon m.stopCodon = true
  utr : listOK tid .utr m.utr = true
  sec : listOK tid .sec m.sec = true
  five : listOK tid .fiveUtr (ownUtr m.fiveUtr) = true
  three : listOK tid .threeUtr (ownUtr m.threeUtr) = true
  scds : sortedRecs m.cds = true
  sexon : sortedRecs m.exon = true
  sstart : sortedRecs m.startCodon = true
  sstop : sortedRecs m.stopCodon = true
  sutr : sortedRecs m.utr = true
  ssec : sortedRecs m.sec = true
  utrCds : m.utr = [] ∨ m.cds ≠ []
  fiveEq : m.fiveUtr = sortRecs (ownUtr m.fiveUtr ++ splitUtr true t m)
  threeEq : m.threeUtr = sortRecs (ownUtr m.threeUtr ++ splitUtr false t m)
  ids : m.ids = ⟨firstAttr kTranscriptId (t :: txRecords m), firstAttr kGeneId (t :: txRecords m),
    firstAttr kProteinId (t :: txRecords m), firstAttr kGeneName (t :: txRecords m)⟩

theorem TxWF.of_wf {gid tid : Str} {m : TxModel} (h : m.wf gid tid = true) :
    ∃ t, TxWF gid tid m t := by
  unfold TxModel.wf at h
  cases ht : m.transcript with
  | none => rw [ht] at h; cases h
  | some t =>
    rw [ht] at h
    simp only [Bool.and_eq_true, decide_eq_true_eq, Bool.or_eq_true,
      Option.isNone_iff_eq_none, and_assoc] at h
    obtain ⟨h1, h2, h3, h4, h5, h6, h7, h8, h9, h10, h11, h12, h13, h14, h15, h16, h17, h18,
      h19, h20, h21, h22, h23, h24⟩ := h
    exact ⟨t, ⟨ht, h1, h2, h3, h4, h5, h6, h7, h8, h9, h10, h11, h12, h13, h14, h15, h16, h17,
      h18, h19, h20, h21, h22, h23, h24⟩⟩

theorem listOK_iff {tid : Str} {s : Slot} {l : List Rec} (h : listOK tid s l = true) :
    ∀ r ∈ l, r.ok = true ∧ r.slot = some s ∧ r.getStr kTranscriptId = some tid := by
  simpa [listOK, and_assoc] using h

theorem collect_sortRecs (s : Slot) (l : List Rec) :
    collect s (sortRecs l) = sortRecs (collect s l) := filter_sortBy recLt_sw _ l

theorem collect_of_listOK {tid : Str} {s' : Slot} {l : List Rec} (h : listOK tid s' l = true)
    (s : Slot) : collect s l = if s' = s then l else [] := by
  by_cases e : s' = s
  · subst e; rw [if_pos rfl]; exact collect_eq_self fun r hr => (listOK_iff h r hr).2.1
  · rw [if_neg e]; exact collect_eq_nil (fun r hr => (listOK_iff h r hr).2.1) e

theorem txRecords_eq (m : TxModel) : txRecords m =
    m.sec ++ (sortRecs (m.cds ++ m.exon) ++ m.utr ++ (ownUtr m.fiveUtr ++ ownUtr m.threeUtr)
      ++ (m.startCodon ++ m.stopCodon)) := by
  simp [txRecords, ownUtr, List.filter_append]

theorem sortRecs_nil : sortRecs [] = [] := rfl

/-- the records `write` emits, put back into their lists -/
theorem addLists_txRecords {gid tid : Str} {m : TxModel} {t : Rec} (w : TxWF gid tid m t)
    (m0 : TxModel) (i : Ids)
    (h0 : m0.cds = [] ∧ m0.exon = [] ∧ m0.startCodon = [] ∧ m0.stopCodon = [] ∧ m0.utr = [] ∧
      m0.fiveUtr = [] ∧ m0.threeUtr = [] ∧ m0.sec = []) :
    addLists m0 i (txRecords m) =
      { transcript := m0.transcript, isProteinCoding := m0.isProteinCoding,
        cds := m.cds, exon := m.exon, startCodon := m.startCodon, stopCodon := m.stopCodon,
        utr := m.utr, fiveUtr := ownUtr m.fiveUtr, threeUtr := ownUtr m.threeUtr, sec := m.sec,
        transcriptId := i.transcriptId, geneId := i.geneId, proteinId := i.proteinId,
        geneName := i.geneName } := by
  obtain ⟨a1, a2, a3, a4, a5, a6, a7, a8⟩ := h0
  simp only [addLists, txRecords_eq, collect_append, collect_sortRecs,
    collect_of_listOK w.cds, collect_of_listOK w.exon, collect_of_listOK w.start,
    collect_of_listOK w.stop, collect_of_listOK w.utr, collect_of_listOK w.sec,
    collect_of_listOK w.five, collect_of_listOK w.three, a1, a2, a3, a4, a5, a6, a7, a8,
    if_true, reduceCtorEq, if_false, List.append_nil, List.nil_append, sortRecs_nil,
    sortRecs_of_sorted w.scds, sortRecs_of_sorted w.sexon]

theorem splitUtr_nil {five : Bool} {t : Rec} {m : TxModel} (h : m.utr = []) :
    splitUtr five t m = [] := by
  unfold splitUtr
  cases m.cds.head? <;> cases m.cds.getLast? <;> simp [h]

/-- `sort_records` on the lists `write` emitted gives the model back -/
theorem build_txRecords {gid tid : Str} {m : TxModel} {t : Rec} (w : TxWF gid tid m t) :
    build t m.isProteinCoding m.ids (txRecords m) = .ok m := by
  unfold build
  rw [addLists_txRecords w _ _ ⟨rfl, rfl, rfl, rfl, rfl, rfl, rfl, rfl⟩]
  have e5 := w.fiveEq
  have e3 := w.threeEq
  have ht := w.ht
  simp only [sortRecords, sortRecs_of_sorted w.scds, sortRecs_of_sorted w.sexon,
    sortRecs_of_sorted w.sstart, sortRecs_of_sorted w.sstop, sortRecs_of_sorted w.sutr,
    sortRecs_of_sorted w.ssec]
  by_cases hu : m.utr = []
  · rw [if_pos hu]
    rw [splitUtr_nil hu, List.append_nil] at e5 e3
    rw [← e5, ← e3]
    cases m; simp only [TxModel.ids] at ht ⊢; subst ht; rfl
  · rw [if_neg hu]
    have hc : m.cds ≠ [] := by
      rcases w.utrCds with h | h
      · exact absurd h hu
      · exact h
    obtain ⟨first, hf⟩ : ∃ x, m.cds.head? = some x := by
      cases hh : m.cds with
      | nil => exact absurd hh hc
      | cons x xs => exact ⟨x, rfl⟩
    obtain ⟨last, hl⟩ : ∃ x, m.cds.getLast? = some x := by
      cases hh : m.cds.getLast? with
      | none => exact absurd (List.getLast?_eq_none_iff.mp hh) hc
      | some x => exact ⟨x, rfl⟩
    simp only [splitUtr, hf, hl] at e5 e3
    simp only [hf, hl]
    have f5 : (m.utr.filter fun u => isFive t.strand first last u == true)
        = m.utr.filter (isFive t.strand first last) := by
      congr 1; funext u; simp
    have f3 : (m.utr.filter fun u => isFive t.strand first last u == false)
        = m.utr.filter fun u => !isFive t.strand first last u := by
      congr 1; funext u; cases isFive t.strand first last u <;> rfl
    rw [f5] at e5; rw [f3] at e3
    rw [← e5, ← e3]
    cases m; simp only [TxModel.ids] at ht ⊢; subst ht; rfl

/-! ## the block of one transcript -/

/-- the `transcript` record as `line_to_seq_feature` reads it back (with the flag attribute) -/
def txPlus (t : Rec) (ipc : Option Bool) : Rec := { t with attrs := withIpc t.attrs ipc }

theorem not_mem_keys_of_dictGet_none {β : Type} : ∀ {d : List (Str × β)} {k : Str},
    dictGet d k = none → k ∉ d.map (·.1)
  | [], _, _ => by simp
  | (k', w) :: r, k, h => by
    by_cases hk : k' = k
    · simp [dictGet, hk] at h
    · simp only [dictGet, hk, if_false] at h
      simp only [List.map_cons, List.mem_cons, not_or]
      exact ⟨fun e => hk e.symm, not_mem_keys_of_dictGet_none h⟩

theorem getStr_txPlus (t : Rec) (ipc : Option Bool) {k : Str} (hk : kIpc ≠ k) :
    (txPlus t ipc).getStr k = t.getStr k := by
  cases ipc with
  | none => rfl
  | some b =>
    cases b <;> simp only [txPlus, withIpc, Rec.getStr, dictGet_append_ne hk]

theorem txPlus_slot (t : Rec) (ipc : Option Bool) : (txPlus t ipc).slot = t.slot := rfl

/-- the `transcript` record of a block starts the model -/
theorem addRecord_txPlus {t : Rec} (ipc : Option Bool) (hipc : dictGet t.attrs kIpc = none) :
    (addRecord {} .transcript (txPlus t ipc)).1 =
      (({ transcript := some t, isProteinCoding := ipc } : TxModel).setIds (syncIds {} t).1) ∧
    (addRecord {} .transcript (txPlus t ipc)).2 = txPlus t ipc := by
  have hk := not_mem_keys_of_dictGet_none hipc
  have e1 : (syncIds ({} : TxModel).ids (txPlus t ipc)).2 = txPlus t ipc := syncIds_empty _
  have e2 : (syncIds ({} : TxModel).ids (txPlus t ipc)).1 = (syncIds {} t).1 := by
    show (syncIds {} (txPlus t ipc)).1 = _
    rw [syncIds_fst, syncIds_fst]
    simp only [orNe, getStr_txPlus t ipc (by decide : kIpc ≠ kTranscriptId),
      getStr_txPlus t ipc (by decide : kIpc ≠ kGeneId),
      getStr_txPlus t ipc (by decide : kIpc ≠ kProteinId),
      getStr_txPlus t ipc (by decide : kIpc ≠ kGeneName)]
  refine ⟨?_, e1⟩
  simp only [addRecord, e1, e2]
  cases ipc with
  | none =>
    simp only [place, txPlus, withIpc, hipc]
    rfl
  | some b =>
    cases b
    · simp only [place, txPlus, withIpc, dictGet_append_last hk, dictErase_append_last hk]
      rfl
    · simp only [place, txPlus, withIpc, dictGet_append_last hk, dictErase_append_last hk]
      rfl

/-- all records `write` emits after the transcript record go to one of the eight lists and
name the transcript -/
theorem TxWF.sub {gid tid : Str} {m : TxModel} {t : Rec} (w : TxWF gid tid m t) :
    ∀ r ∈ txRecords m, r.ok = true ∧ SubSlot r.slot ∧ r.getStr kTranscriptId = some tid := by
  intro r hr
  rw [txRecords_eq] at hr
  simp only [List.mem_append, mem_sortBy, sortRecs] at hr
  have key : ∀ {s : Slot} {l : List Rec}, listOK tid s l = true → s ≠ .transcript → r ∈ l →
      r.ok = true ∧ SubSlot r.slot ∧ r.getStr kTranscriptId = some tid := by
    intro s l h hne hm
    obtain ⟨a, b, c⟩ := listOK_iff h r hm
    exact ⟨a, ⟨s, b, hne⟩, c⟩
  rcases hr with h | (((h | h) | h) | h | h) | h | h
  · exact key w.sec (by decide) h
  · exact key w.cds (by decide) h
  · exact key w.exon (by decide) h
  · exact key w.utr (by decide) h
  · exact key w.five (by decide) h
  · exact key w.three (by decide) h
  · exact key w.start (by decide) h
  · exact key w.stop (by decide) h

/-- the records of the block of one transcript, as the parser reads them -/
def txRecs (t : Rec) (m : TxModel) : List Rec := txPlus t m.isProteinCoding :: txRecords m

theorem syncAll_cons_empty (t : Rec) (rs : List Rec) :
    syncAll {} (t :: rs) =
      ((syncAll (syncIds {} t).1 rs).1, t :: (syncAll (syncIds {} t).1 rs).2) := by
  simp only [syncAll, syncIds_empty]

/-- the model `add_record` builds from the block of a transcript -/
theorem foldTx_block {gid tid : Str} {m : TxModel} {t : Rec} (w : TxWF gid tid m t) :
    foldTx {} (txRecs t m) =
      addLists { transcript := some t, isProteinCoding := m.isProteinCoding }
        (syncAll {} (t :: txRecords m)).1 (syncAll {} (t :: txRecords m)).2.tail := by
  have hs : (txPlus t m.isProteinCoding).slot = some .transcript := w.tslot
  obtain ⟨h1, _⟩ := addRecord_txPlus m.isProteinCoding w.tipc
  simp only [txRecs, foldTx, hs, h1]
  rw [foldTx_eq _ _ (fun r hr => (w.sub r hr).2.1), syncAll_cons_empty]
  rfl

/-- `Except.map f x = ok y` -/
theorem except_map_eq_ok {α β : Type} {f : α → β} {x : Except GErr α} {y : β}
    (h : x.map f = .ok y) : ∃ a, x = .ok a ∧ f a = y := by
  cases x with
  | error e => simp [Except.map] at h
  | ok a => exact ⟨a, rfl, by simpa [Except.map] using h⟩

/-- the block of one transcript loads as `build` of the synced records -/
theorem loadBlock_eq {gid tid : Str} {m : TxModel} {t : Rec} (w : TxWF gid tid m t) :
    sortRecords (foldTx {} (txRecs t m)) =
      build t m.isProteinCoding m.ids (syncAll {} (t :: txRecords m)).2.tail := by
  rw [foldTx_block w, build, syncAll_fst]
  have := w.ids
  simp only [orFirst]
  rw [← this]

/-- **one transcript, normal form**: writing the block of a well-formed transcript model and
loading it gives a model that differs from the original at most in the attribute dicts of
the records in its eight lists -/
theorem loadBlock_erase {gid tid : Str} {m : TxModel} {t : Rec} (w : TxWF gid tid m t) :
    ∃ m', sortRecords (foldTx {} (txRecs t m)) = .ok m' ∧ m'.erase = m.erase := by
  rw [loadBlock_eq w]
  have h1 := build_map sameCore_erase t m.isProteinCoding m.ids
    (syncAll {} (t :: txRecords m)).2.tail
  have h2 := build_map sameCore_erase t m.isProteinCoding m.ids (txRecords m)
  have e : (syncAll {} (t :: txRecords m)).2.tail.map Rec.erase = (txRecords m).map Rec.erase := by
    rw [syncAll_cons_empty]; exact syncAll_snd_erase _ _
  rw [e, h2, build_txRecords w] at h1
  obtain ⟨m', hm, he⟩ := except_map_eq_ok h1.symm
  exact ⟨m', hm, by rw [← mapLists_erase, he]; rfl⟩

/-- **one transcript, exact**: if the key loop changes no attribute dict, the model is
reproduced exactly -/
theorem loadBlock_exact {gid tid : Str} {m : TxModel} {t : Rec} (w : TxWF gid tid m t)
    (hst : (syncAll {} (t :: txRecords m)).2 = t :: txRecords m) :
    sortRecords (foldTx {} (txRecs t m)) = .ok m := by
  rw [loadBlock_eq w, hst]; exact build_txRecords w

/-! ## the whole file: `dump_gtf` over what `write` emitted -/

/-- the record loop of `dump_gtf` on records already decoded -/
def parseRecs (a : Anno) : List Rec → Except GErr Anno
  | [] => .ok a
  | r :: rs =>
    match step a r with
    | .error e => .error e
    | .ok a' => parseRecs a' rs

theorem parseLines_eq_parseRecs : ∀ (ls : List Line) (rs : List Rec) (a : Anno),
    mapE lineToRec ls = .ok rs → parseLines a ls = parseRecs a rs
  | [], rs, a, h => by simp [mapE] at h; subst h; rfl
  | l :: ls, rs, a, h => by
    simp only [mapE] at h
    cases hl : lineToRec l with
    | error e => rw [hl] at h; cases h
    | ok r =>
      rw [hl] at h
      cases hm : mapE lineToRec ls with
      | error e => rw [hm] at h; cases h
      | ok rs' =>
        rw [hm] at h; simp only [Except.ok.injEq] at h; subst h
        simp only [parseLines, hl, parseRecs]
        cases step a r with
        | error e => rfl
        | ok a' => exact parseLines_eq_parseRecs ls rs' a' hm

theorem slotOf_gene : slotOf fGene = none := by decide

theorem not_gene_of_slot {r : Rec} {s : Slot} (h : r.slot = some s) : lower r.type ≠ fGene := by
  intro e
  rw [Rec.slot, e, slotOf_gene] at h
  cases h

theorem step_gene {G : List (Str × GeneModel)} {T : List (Str × TxModel)} {gid : Str} {r : Rec}
    (ht : lower r.type = fGene) (hg : r.getStr kGeneId = some gid) (hG : gid ∉ G.map (·.1)) :
    step ⟨G, T⟩ r = .ok ⟨G ++ [(gid, ⟨r, []⟩)], T⟩ := by
  simp only [step, ht, if_true, addGene, hg, dictGet_eq_none hG]

theorem step_tx {G : List (Str × GeneModel)} {T : List (Str × TxModel)} {tid gid : Str}
    {grec : Rec} {done : List Str} {t : Rec} (ipc : Option Bool)
    (hs : t.slot = some .transcript) (htid : t.getStr kTranscriptId = some tid)
    (hgid : t.getStr kGeneId = some gid) (gne : gid ≠ []) (hipc : dictGet t.attrs kIpc = none)
    (hT : tid ∉ T.map (·.1)) (hG : gid ∉ G.map (·.1)) (hd : tid ∉ done) :
    step ⟨G ++ [(gid, ⟨grec, done⟩)], T⟩ (txPlus t ipc) =
      .ok ⟨G ++ [(gid, ⟨grec, done ++ [tid]⟩)],
           T ++ [(tid, (addRecord {} .transcript (txPlus t ipc)).1)]⟩ ∧
    (addRecord {} .transcript (txPlus t ipc)).1.geneId = some gid := by
  obtain ⟨h1, h2⟩ := addRecord_txPlus ipc hipc
  have hs' : (txPlus t ipc).slot = some .transcript := hs
  have hgeneId : (addRecord {} .transcript (txPlus t ipc)).1.geneId = some gid := by
    rw [h1]
    show (syncIds {} t).1.geneId = some gid
    rw [syncIds_fst]
    simp [orNe, hgid, neStr, gne]
  refine ⟨?_, hgeneId⟩
  have e1 : (txPlus t ipc).getStr kTranscriptId = some tid := by
    rw [getStr_txPlus t ipc (by decide)]; exact htid
  have e2 : (txPlus t ipc).getStr kGeneId = some gid := by
    rw [getStr_txPlus t ipc (by decide)]; exact hgid
  have hc : done.contains tid = false := by simpa using hd
  simp only [step, not_gene_of_slot hs', if_false, addTx, hs', e1, dictGet_eq_none hT,
    Option.getD_none, h2, e2, dictGet_append_last hG, hc, Bool.false_eq_true,
    Gvf.dictSet_new T tid _ hT, dictSet_append_last hG]

theorem step_sub {G : List (Str × GeneModel)} {T : List (Str × TxModel)} {tid gid : Str}
    {mc : TxModel} {g : GeneModel} {r : Rec}
    (hs : SubSlot r.slot) (htid : r.getStr kTranscriptId = some tid)
    (hT : tid ∉ T.map (·.1)) (hg : dictGet G gid = some g) (hmem : tid ∈ g.transcripts)
    (hmg : mc.geneId = some gid) :
    ∃ mc', step ⟨G, T ++ [(tid, mc)]⟩ r = .ok ⟨G, T ++ [(tid, mc')]⟩ ∧
      mc'.geneId = some gid ∧ ∀ rs, foldTx mc (r :: rs) = foldTx mc' rs := by
  obtain ⟨s, hs, hne⟩ := hs
  refine ⟨(addRecord mc s r).1, ?_, ?_, ?_⟩
  · have hi : (syncIds mc.ids r).1.geneId = some gid := by
      rw [syncIds_fst]; simp [orNe, TxModel.ids, hmg]
    have e2 : (addRecord mc s r).2.getStr kGeneId = some gid := syncIds_geneId hi
    have hc : g.transcripts.contains tid = true := by simpa using hmem
    simp only [step, not_gene_of_slot hs, if_false, addTx, hs, htid, dictGet_append_last hT,
      Option.getD_some, e2, hg, hc, if_true, dictSet_append_last hT]
  · show (place (mc.setIds (syncIds mc.ids r).1) s (syncIds mc.ids r).2).geneId = some gid
    have := place_ids (mc.setIds (syncIds mc.ids r).1) s (syncIds mc.ids r).2
    have h2 : (place (mc.setIds (syncIds mc.ids r).1) s (syncIds mc.ids r).2).geneId
        = (syncIds mc.ids r).1.geneId := by
      show (place (mc.setIds (syncIds mc.ids r).1) s (syncIds mc.ids r).2).ids.geneId = _
      rw [this]; rfl
    rw [h2, syncIds_fst]
    simp [orNe, TxModel.ids, hmg]
  · intro rs; simp only [foldTx, hs]

/-- the records of the eight lists of one transcript -/
theorem parseRecs_sub {G : List (Str × GeneModel)} {T : List (Str × TxModel)} {tid gid : Str}
    {g : GeneModel} (hT : tid ∉ T.map (·.1)) (hg : dictGet G gid = some g)
    (hmem : tid ∈ g.transcripts) :
    ∀ (rs : List Rec) (mc : TxModel) (rest : List Rec),
      (∀ r ∈ rs, SubSlot r.slot ∧ r.getStr kTranscriptId = some tid) → mc.geneId = some gid →
      parseRecs ⟨G, T ++ [(tid, mc)]⟩ (rs ++ rest) =
        parseRecs ⟨G, T ++ [(tid, foldTx mc rs)]⟩ rest
  | [], _, _, _, _ => rfl
  | r :: rs, mc, rest, h, hmg => by
    obtain ⟨h1, h2⟩ := h r (by simp)
    obtain ⟨mc', hst, hmg', hf⟩ := step_sub h1 h2 hT hg hmem hmg
    simp only [List.cons_append, parseRecs, hst, hf]
    exact parseRecs_sub hT hg hmem rs mc' rest (fun x hx => h x (by simp [hx])) hmg'

/-- the block of one transcript -/
theorem parseRecs_tx {G : List (Str × GeneModel)} {T : List (Str × TxModel)} {tid gid : Str}
    {grec : Rec} {done : List Str} {m : TxModel} {t : Rec} (w : TxWF gid tid m t)
    (hT : tid ∉ T.map (·.1)) (hG : gid ∉ G.map (·.1)) (hd : tid ∉ done) (rest : List Rec) :
    parseRecs ⟨G ++ [(gid, ⟨grec, done⟩)], T⟩ (txRecs t m ++ rest) =
      parseRecs ⟨G ++ [(gid, ⟨grec, done ++ [tid]⟩)], T ++ [(tid, foldTx {} (txRecs t m))]⟩
        rest := by
  obtain ⟨hst, hmg⟩ := step_tx (G := G) (T := T) (grec := grec) (done := done) m.isProteinCoding
    w.tslot w.ttid w.tgid w.gne w.tipc hT hG hd
  have hs : (txPlus t m.isProteinCoding).slot = some .transcript := w.tslot
  simp only [txRecs, List.cons_append, parseRecs, hst]
  rw [parseRecs_sub hT (dictGet_append_last hG) (by simp) (txRecords m) _ rest
    (fun r hr => (w.sub r hr).2) hmg]
  simp only [foldTx, hs]

/-- what `write` emits for the transcripts `tids`, decoded -/
def txsRecs (a : Anno) (tids : List Str) : List Rec :=
  tids.flatMap fun tid =>
    match dictGet a.txs tid with
    | some m => match m.transcript with
      | some t => txRecs t m
      | none => []
    | none => []

/-- the transcripts dict entries the parser builds for `tids` (before `sort_records`) -/
def txsLoaded (a : Anno) (tids : List Str) : List (Str × TxModel) :=
  tids.map fun tid =>
    match dictGet a.txs tid with
    | some m => match m.transcript with
      | some t => (tid, foldTx {} (txRecs t m))
      | none => (tid, m)
    | none => (tid, {})

theorem parseRecs_txs (a : Anno) {G : List (Str × GeneModel)} {gid : Str} {grec : Rec}
    (hG : gid ∉ G.map (·.1)) :
    ∀ (todo done : List Str) (T : List (Str × TxModel)) (rest : List Rec),
      (∀ tid ∈ todo, ∃ m t, dictGet a.txs tid = some m ∧ TxWF gid tid m t) →
      (done ++ todo).Nodup → (T.map (·.1) ++ todo).Nodup →
      parseRecs ⟨G ++ [(gid, ⟨grec, done⟩)], T⟩ (txsRecs a todo ++ rest) =
        parseRecs ⟨G ++ [(gid, ⟨grec, done ++ todo⟩)], T ++ txsLoaded a todo⟩ rest
  | [], done, T, rest, _, _, _ => by simp [txsRecs, txsLoaded]
  | tid :: todo, done, T, rest, hw, hn1, hn2 => by
    obtain ⟨m, t, hm, w⟩ := hw tid (by simp)
    have hd : tid ∉ done := by
      have := List.nodup_append.mp hn1
      exact fun h => this.2.2 tid h tid (by simp) rfl
    have hT : tid ∉ T.map (·.1) := by
      have := List.nodup_append.mp hn2
      exact fun h => this.2.2 tid h tid (by simp) rfl
    have e1 : txsRecs a (tid :: todo) = txRecs t m ++ txsRecs a todo := by
      simp [txsRecs, hm, w.ht]
    have e2 : txsLoaded a (tid :: todo) = (tid, foldTx {} (txRecs t m)) :: txsLoaded a todo := by
      simp [txsLoaded, hm, w.ht]
    rw [e1, List.append_assoc, parseRecs_tx w hT hG hd, e2]
    have ih := parseRecs_txs a (grec := grec) hG todo (done ++ [tid]) (T ++ [(tid, foldTx {} (txRecs t m))]) rest
      (fun x hx => hw x (by simp [hx]))
      (by simpa [List.append_assoc] using hn1)
      (by simpa [List.append_assoc] using hn2)
    rw [ih]; simp [List.append_assoc]

/-- `Anno.wf` for one gene, unpacked -/
structure GeneWF (a : Anno) (gid : Str) (g : GeneModel) : Prop where
  gok : g.gene.ok = true
  gtype : lower g.gene.type = fGene
  ggid : g.gene.getStr kGeneId = some gid
  txs : ∀ tid ∈ g.transcripts, ∃ m t, dictGet a.txs tid = some m ∧ TxWF gid tid m t

theorem Anno.wf_iff {a : Anno} (h : a.wf = true) :
    (a.genes.map (·.1)).Nodup ∧ (a.genes.flatMap (·.2.transcripts)).Nodup ∧
      ∀ kv ∈ a.genes, GeneWF a kv.1 kv.2 := by
  simp only [Anno.wf, Bool.and_eq_true, decide_eq_true_eq, List.all_eq_true] at h
  obtain ⟨⟨h1, h2⟩, h3⟩ := h
  refine ⟨h1, h2, fun kv hkv => ?_⟩
  obtain ⟨⟨⟨g1, g2⟩, g3⟩, g4⟩ := h3 kv hkv
  refine ⟨g1, g2, g3, fun tid htid => ?_⟩
  have := g4 tid htid
  cases hm : dictGet a.txs tid with
  | none => rw [hm] at this; cases this
  | some m =>
    rw [hm] at this
    obtain ⟨t, w⟩ := TxWF.of_wf this
    exact ⟨m, t, rfl, w⟩

/-- the decoded records of what `write` emits for the genes `gs` -/
def annoRecs (a : Anno) (gs : List (Str × GeneModel)) : List Rec :=
  gs.flatMap fun kv => kv.2.gene :: txsRecs a kv.2.transcripts

/-- the transcripts dict the parser builds for the genes `gs` (before `sort_records`) -/
def annoLoaded (a : Anno) (gs : List (Str × GeneModel)) : List (Str × TxModel) :=
  gs.flatMap fun kv => txsLoaded a kv.2.transcripts

theorem txsLoaded_keys (a : Anno) (tids : List Str) : (txsLoaded a tids).map (·.1) = tids := by
  induction tids with
  | nil => rfl
  | cons tid tids ih =>
    simp only [txsLoaded, List.map_cons, List.map_map] at ih ⊢
    rw [ih]
    congr 1
    cases dictGet a.txs tid with
    | none => rfl
    | some m => simp only []; split <;> rfl

theorem parseRecs_genes (a : Anno) :
    ∀ (gs G : List (Str × GeneModel)) (T : List (Str × TxModel)) (rest : List Rec),
      (∀ kv ∈ gs, GeneWF a kv.1 kv.2) → (G.map (·.1) ++ gs.map (·.1)).Nodup →
      (T.map (·.1) ++ gs.flatMap (·.2.transcripts)).Nodup →
      parseRecs ⟨G, T⟩ (annoRecs a gs ++ rest) = parseRecs ⟨G ++ gs, T ++ annoLoaded a gs⟩ rest
  | [], G, T, rest, _, _, _ => by simp [annoRecs, annoLoaded]
  | (gid, g) :: gs, G, T, rest, hw, hn1, hn2 => by
    have w := hw (gid, g) (by simp)
    have hG : gid ∉ G.map (·.1) := by
      have := List.nodup_append.mp hn1
      exact fun h => this.2.2 gid h gid (by simp) rfl
    have hn2' : (T.map (·.1) ++ (g.transcripts ++ gs.flatMap (·.2.transcripts))).Nodup := by
      simpa using hn2
    have hn3 : (T.map (·.1) ++ g.transcripts).Nodup := by
      rw [← List.append_assoc] at hn2'
      exact (List.nodup_append.mp hn2').1
    have hn4 : g.transcripts.Nodup := (List.nodup_append.mp hn3).2.1
    have e1 : annoRecs a ((gid, g) :: gs) = g.gene :: (txsRecs a g.transcripts ++ annoRecs a gs) := by
      simp [annoRecs]
    rw [e1, List.cons_append, parseRecs, step_gene w.gtype w.ggid hG]
    simp only []
    rw [List.append_assoc, parseRecs_txs a hG g.transcripts [] T _ w.txs (by simpa using hn4) hn3]
    have ih := parseRecs_genes a gs (G ++ [(gid, g)]) (T ++ txsLoaded a g.transcripts) rest
      (fun kv hkv => hw kv (by simp [hkv]))
      (by simpa [List.append_assoc] using hn1)
      (by simp only [List.map_append, txsLoaded_keys, List.append_assoc]; exact hn2')
    simp only [List.nil_append]
    rw [ih]
    simp [annoLoaded, List.append_assoc]

/-! ### `sort_records` over the loaded dict -/

/-- a transcript model written (as its block) and loaded again -/
def reloadTx (m : TxModel) : TxModel :=
  match m.transcript with
  | none => m
  | some t =>
    match sortRecords (foldTx {} (txRecs t m)) with
    | .ok m' => m'
    | .error _ => m

theorem reloadTx_erase {gid tid : Str} {m : TxModel} {t : Rec} (w : TxWF gid tid m t) :
    (reloadTx m).erase = m.erase := by
  obtain ⟨m', h1, h2⟩ := loadBlock_erase w
  simp only [reloadTx, w.ht, h1, h2]

theorem reloadTx_exact {gid tid : Str} {m : TxModel} {t : Rec} (w : TxWF gid tid m t)
    (hst : m.stable = true) : reloadTx m = m := by
  have : (syncAll {} (t :: txRecords m)).2 = t :: txRecords m := by
    simpa [TxModel.stable, w.ht] using hst
  simp only [reloadTx, w.ht, loadBlock_exact w this]

theorem mapE_append {α β : Type} {f : α → Except GErr β} : ∀ {xs ys : List α} {xs' ys' : List β},
    mapE f xs = .ok xs' → mapE f ys = .ok ys' → mapE f (xs ++ ys) = .ok (xs' ++ ys')
  | [], _, _, _, h1, h2 => by simp [mapE] at h1; subst h1; simpa using h2
  | x :: xs, ys, xs', ys', h1, h2 => by
    simp only [mapE] at h1
    cases hx : f x with
    | error e => rw [hx] at h1; cases h1
    | ok y =>
      rw [hx] at h1
      cases hm : mapE f xs with
      | error e => rw [hm] at h1; cases h1
      | ok zs =>
        rw [hm] at h1; simp only [Except.ok.injEq] at h1; subst h1
        simp [mapE, hx, mapE_append hm h2]

/-- the entries of the transcripts dict listed by the genes `gs`, gene by gene -/
def canonTxs (a : Anno) (gs : List (Str × GeneModel)) : List (Str × TxModel) :=
  gs.flatMap fun kv =>
    kv.2.transcripts.filterMap fun tid => (dictGet a.txs tid).map fun m => (tid, m)

theorem canon_txs (a : Anno) : a.canon.txs = canonTxs a a.genes := rfl

theorem sort_txsLoaded (a : Anno) {gid : Str} : ∀ (tids : List Str),
    (∀ tid ∈ tids, ∃ m t, dictGet a.txs tid = some m ∧ TxWF gid tid m t) →
    mapE sortEntry (txsLoaded a tids) =
      .ok ((tids.filterMap fun tid => (dictGet a.txs tid).map fun m => (tid, m)).map
        fun kv => (kv.1, reloadTx kv.2))
  | [], _ => rfl
  | tid :: tids, h => by
    obtain ⟨m, t, hm, w⟩ := h tid (by simp)
    obtain ⟨m', h1, _⟩ := loadBlock_erase w
    have ih := sort_txsLoaded a tids (fun x hx => h x (by simp [hx]))
    have e : reloadTx m = m' := by simp only [reloadTx, w.ht, h1]
    simp only [txsLoaded, List.map_cons, hm, w.ht, mapE, sortEntry, h1, List.filterMap_cons,
      Option.map_some, e]
    simp only [txsLoaded] at ih
    rw [ih]

theorem sort_annoLoaded (a : Anno) : ∀ (gs : List (Str × GeneModel)),
    (∀ kv ∈ gs, GeneWF a kv.1 kv.2) →
    mapE sortEntry (annoLoaded a gs) = .ok ((canonTxs a gs).map fun kv => (kv.1, reloadTx kv.2))
  | [], _ => rfl
  | (gid, g) :: gs, h => by
    have w := h (gid, g) (by simp)
    have h1 := sort_txsLoaded a g.transcripts w.txs
    have h2 := sort_annoLoaded a gs (fun kv hkv => h kv (by simp [hkv]))
    have := mapE_append h1 h2
    simpa [annoLoaded, canonTxs] using this

/-- every entry of the canonical transcripts dict is a well-formed model of some gene -/
theorem mem_canonTxs {a : Anno} : ∀ {gs : List (Str × GeneModel)} {kv : Str × TxModel},
    (∀ g ∈ gs, GeneWF a g.1 g.2) → kv ∈ canonTxs a gs → ∃ gid t, TxWF gid kv.1 kv.2 t := by
  intro gs kv h hm
  simp only [canonTxs, List.mem_flatMap, List.mem_filterMap] at hm
  obtain ⟨g, hg, tid, htid, hkv⟩ := hm
  obtain ⟨m, t, hd, w⟩ := (h g hg).txs tid htid
  rw [hd] at hkv
  simp only [Option.map_some, Option.some.injEq] at hkv
  subst hkv
  exact ⟨g.1, t, w⟩

/-! ### the writer's lines decode to `annoRecs` -/

theorem flatMapE_append_ok {α β : Type} {f : α → Except GErr (List β)} {x : α} {xs : List α}
    {a b : List β} (h1 : f x = .ok a) (h2 : flatMapE f xs = .ok b) :
    flatMapE f (x :: xs) = .ok (a ++ b) := by
  simp [flatMapE, h1, h2]

theorem writeTx_decodes {gid tid : Str} {m : TxModel} {t : Rec} (w : TxWF gid tid m t) :
    ∃ ls, writeTx m = .ok ls ∧ mapE lineToRec ls = .ok (txRecs t m) := by
  refine ⟨_, by simp only [writeTx, w.ht]; rfl, ?_⟩
  have h1 := lineToRec_recToLine_ipc w.tok (not_mem_keys_of_dictGet_none w.tipc) m.isProteinCoding
  have h2 : mapE lineToRec ((txRecords m).map (recToLine · none)) = .ok (txRecords m) :=
    mapE_map_ok _ (fun r hr => lineToRec_recToLine (w.sub r hr).1)
  simp only [mapE, h1, h2, txRecs, txPlus]

theorem writeTxs_decodes (a : Anno) {gid : Str} : ∀ (tids : List Str),
    (∀ tid ∈ tids, ∃ m t, dictGet a.txs tid = some m ∧ TxWF gid tid m t) →
    ∃ ls, flatMapE (writeTxOf a) tids = .ok ls ∧ mapE lineToRec ls = .ok (txsRecs a tids)
  | [], _ => ⟨[], rfl, rfl⟩
  | tid :: tids, h => by
    obtain ⟨m, t, hm, w⟩ := h tid (by simp)
    obtain ⟨l1, hw1, hd1⟩ := writeTx_decodes w
    obtain ⟨l2, hw2, hd2⟩ := writeTxs_decodes a tids (fun x hx => h x (by simp [hx]))
    refine ⟨l1 ++ l2, flatMapE_append_ok (by simp only [writeTxOf, hm]; exact hw1) hw2, ?_⟩
    have := mapE_append hd1 hd2
    simpa [txsRecs, hm, w.ht] using this

theorem writeGtf_decodes (a : Anno) : ∀ (gs : List (Str × GeneModel)),
    (∀ kv ∈ gs, GeneWF a kv.1 kv.2) →
    ∃ ls, flatMapE (fun kv : Str × GeneModel => writeGene a kv.2) gs = .ok ls ∧
      mapE lineToRec ls = .ok (annoRecs a gs)
  | [], _ => ⟨[], rfl, rfl⟩
  | (gid, g) :: gs, h => by
    have w := h (gid, g) (by simp)
    obtain ⟨l1, hw1, hd1⟩ := writeTxs_decodes a g.transcripts w.txs
    obtain ⟨l2, hw2, hd2⟩ := writeGtf_decodes a gs (fun kv hkv => h kv (by simp [hkv]))
    have hg : writeGene a g = .ok (recToLine g.gene none :: l1) := by
      unfold writeGene; rw [hw1]
    refine ⟨(recToLine g.gene none :: l1) ++ l2, flatMapE_append_ok hg hw2, ?_⟩
    have h0 : mapE lineToRec (recToLine g.gene none :: l1) = .ok (g.gene :: txsRecs a g.transcripts) := by
      simp only [mapE, lineToRec_recToLine w.gok, hd1]
    have := mapE_append h0 hd2
    simpa [annoRecs] using this

/-- **the round trip, computed**: for a well-formed annotation `write` succeeds and `dump_gtf`
of its lines returns the gene dict unchanged and the transcripts dict re-listed gene by gene
with every model reloaded from its own block -/
theorem parse_write {a : Anno} (h : a.wf = true) :
    ∃ ls, writeGtf a = .ok ls ∧
      parseGtf ls = .ok { genes := a.genes,
                          txs := a.canon.txs.map fun kv => (kv.1, reloadTx kv.2) } := by
  obtain ⟨h1, h2, h3⟩ := Anno.wf_iff h
  obtain ⟨ls, hw, hd⟩ := writeGtf_decodes a a.genes h3
  refine ⟨ls, hw, ?_⟩
  have hp := parseLines_eq_parseRecs ls _ {} hd
  have hg := parseRecs_genes a a.genes [] [] [] h3 (by simpa using h1) (by simpa using h2)
  simp only [List.append_nil, List.nil_append, parseRecs] at hg
  have hs := sort_annoLoaded a a.genes h3
  simp only [parseGtf, hp]
  show (match parseRecs ⟨[], []⟩ (annoRecs a a.genes) with
    | Except.error e => Except.error e
    | Except.ok a => finalize a) = _
  rw [hg]
  simp only [finalize]
  rw [hs, canon_txs]

/-! ### look-ups in the canonical transcripts dict -/

theorem dictGet_of_mem_nodup {β : Type} : ∀ {d : List (Str × β)} {k : Str} {v : β},
    (d.map (·.1)).Nodup → (k, v) ∈ d → dictGet d k = some v
  | [], _, _, _, h => by simp at h
  | (k', w) :: r, k, v, hn, h => by
    simp only [List.map_cons, List.nodup_cons] at hn
    rcases List.mem_cons.mp h with e | e
    · cases e; simp [dictGet]
    · have hk : k' ≠ k := fun e' => hn.1 (by
        rw [e']; exact List.mem_map_of_mem (f := (·.1)) e)
      simp only [dictGet, hk, if_false]
      exact dictGet_of_mem_nodup hn.2 e

theorem dictGet_map_snd {β γ : Type} (f : β → γ) : ∀ (d : List (Str × β)) (k : Str),
    dictGet (d.map fun kv => (kv.1, f kv.2)) k = (dictGet d k).map f
  | [], _ => rfl
  | (k', w) :: r, k => by
    by_cases hk : k' = k
    · simp [dictGet, hk]
    · simp [dictGet, hk, dictGet_map_snd f r k]

theorem canonTids_keys {a : Anno} {gid : Str} : ∀ (tids : List Str),
    (∀ tid ∈ tids, ∃ m t, dictGet a.txs tid = some m ∧ TxWF gid tid m t) →
    (tids.filterMap fun tid => (dictGet a.txs tid).map fun m => (tid, m)).map (·.1) = tids
  | [], _ => rfl
  | tid :: tids, h => by
    obtain ⟨m, t, hm, _⟩ := h tid (by simp)
    simp [List.filterMap_cons, hm, canonTids_keys tids (fun x hx => h x (by simp [hx]))]

theorem canonTxs_keys {a : Anno} : ∀ (gs : List (Str × GeneModel)),
    (∀ kv ∈ gs, GeneWF a kv.1 kv.2) →
    (canonTxs a gs).map (·.1) = gs.flatMap (·.2.transcripts)
  | [], _ => rfl
  | (gid, g) :: gs, h => by
    have w := h (gid, g) (by simp)
    simp only [canonTxs, List.flatMap_cons, List.map_append, canonTids_keys g.transcripts w.txs]
    congr 1
    exact canonTxs_keys gs (fun kv hkv => h kv (by simp [hkv]))

/-- the canonical dict has the same entry as the original for every listed transcript -/
theorem dictGet_canon {a : Anno} (h : a.wf = true) {g : Str × GeneModel} (hg : g ∈ a.genes)
    {tid : Str} (ht : tid ∈ g.2.transcripts) :
    ∃ m, dictGet a.txs tid = some m ∧ dictGet a.canon.txs tid = some m := by
  obtain ⟨_, h2, h3⟩ := Anno.wf_iff h
  obtain ⟨m, t, hm, _⟩ := (h3 g hg).txs tid ht
  refine ⟨m, hm, ?_⟩
  apply dictGet_of_mem_nodup
  · rw [canon_txs, canonTxs_keys _ h3]; exact h2
  · rw [canon_txs]
    simp only [canonTxs, List.mem_flatMap, List.mem_filterMap]
    exact ⟨g, hg, tid, ht, by simp [hm]⟩

/-! ### what the coordinate functions read is a function of the normal form -/

theorem erase_lists {l l' : List Rec} (h : l'.map Rec.erase = l.map Rec.erase) :
    l'.map (·.iv) = l.map (·.iv) ∧
      l'.map (fun r => (⟨r.iv, r.frame⟩ : Cds)) = l.map (fun r => (⟨r.iv, r.frame⟩ : Cds)) := by
  have h1 := congrArg (List.map (·.iv)) h
  have h2 := congrArg (List.map (fun r => (⟨r.iv, r.frame⟩ : Cds))) h
  simp only [List.map_map] at h1 h2
  exact ⟨h1, h2⟩

theorem erase_eq_coord {m m' : TxModel} (h : m'.erase = m.erase) :
    m'.toTranscript = m.toTranscript ∧ m'.cdsList = m.cdsList ∧
      m'.threeUtrIvs = m.threeUtrIvs ∧ m'.secIvs = m.secIvs ∧
      m'.isProteinCoding = m.isProteinCoding ∧ (∀ tag, m'.hasTag tag = m.hasTag tag) ∧
      m'.ids = m.ids := by
  cases m; cases m'
  simp only [TxModel.erase, TxModel.mk.injEq] at h
  obtain ⟨h1, h2, h3, h4, h5, h6, h7, h8, h9, h10, h11, h12, h13, h14⟩ := h
  subst h1 h10 h11 h12 h13 h14
  refine ⟨?_, ?_, ?_, ?_, rfl, fun _ => rfl, rfl⟩
  · simp only [TxModel.toTranscript, (erase_lists h3).1]
  · exact (erase_lists h2).2
  · exact (erase_lists h8).1
  · exact (erase_lists h9).1

/-! ### the written column text of a record -/

theorem flatAttrs_textOK : ∀ (d : List (Str × AttrVal)),
    (d.all fun kv => keyTextOK kv.1 &&
      match kv.2 with
      | .str s => valTextOK s
      | .list l => l.all valTextOK) = true →
    ∀ kv ∈ flatAttrs d, keyTextOK kv.1 = true ∧ valTextOK kv.2 = true
  | [], _ => by simp [flatAttrs]
  | (k, .str v) :: r, h => by
    simp only [List.all_cons, Bool.and_eq_true] at h
    intro kv hkv
    simp only [flatAttrs, List.mem_cons] at hkv
    rcases hkv with rfl | hkv
    · exact ⟨h.1.1, h.1.2⟩
    · exact flatAttrs_textOK r h.2 kv hkv
  | (k, .list l) :: r, h => by
    simp only [List.all_cons, Bool.and_eq_true, List.all_eq_true] at h
    intro kv hkv
    simp only [flatAttrs, List.mem_append, List.mem_map] at hkv
    rcases hkv with ⟨v, hv, rfl⟩ | hkv
    · exact ⟨h.1.1, h.1.2 v hv⟩
    · exact flatAttrs_textOK r (by simpa [List.all_eq_true] using h.2) kv hkv

theorem ipcAttr_textOK (ipc : Option Bool) :
    ∀ kv ∈ ipcAttr ipc, keyTextOK kv.1 = true ∧ valTextOK kv.2 = true := by
  cases ipc with
  | none => simp [ipcAttr]
  | some b =>
    cases b
    · simp only [ipcAttr, List.mem_singleton]; rintro kv rfl; exact ⟨by decide, by decide⟩
    · simp only [ipcAttr, List.mem_singleton]; rintro kv rfl; exact ⟨by decide, by decide⟩

theorem colParse_recToLine {r : Rec} (h : r.textOK = true) (ipc : Option Bool) :
    colParse (colText (recToLine r ipc).attrs) = .ok (recToLine r ipc).attrs := by
  simp only [Rec.textOK, Bool.and_eq_true, decide_eq_true_eq] at h
  apply colParse_colText
  · simp only [recToLine]
    intro e
    exact h.1 (List.append_eq_nil_iff.mp e).1
  · intro kv hkv
    simp only [recToLine, List.mem_append] at hkv
    rcases hkv with hkv | hkv
    · exact flatAttrs_textOK _ h.2 kv hkv
    · exact ipcAttr_textOK ipc kv hkv

end MoPepGen.Gtf
