/-
The records `create_variant_graph` walks over (`Model/Tvg.lean`: the "Filter variants" loop,
`find_mnvs_from_adjacent_variants`, `sorted`) are the record pool of the definitional layer
(`Spec.recordPool`: `usable` records + `mergedPairs`), for inputs that satisfy `poolInputOk`
(`Model/TvgLang.lean`).
-/
import MoPepGen.Model.TvgLang
import MoPepGen.Lemmas.TvgSorted
import MoPepGen.Lemmas.TvgLoop
import MoPepGen.Model.Graph
namespace MoPepGen.Tvg
open MoPepGen MoPepGen.Spec

/-! ### `sorted` is a permutation (as far as membership goes) -/

theorem binInsertAll_mem_rev {α : Type} [Inhabited α] (lt : α → α → Bool) :
    ∀ (rest sorted : List α) (x : α), x ∈ sorted ∨ x ∈ rest → x ∈ binInsertAll lt sorted rest := by
  intro rest
  induction rest with
  | nil =>
    intro sorted x h
    rcases h with h | h
    · exact h
    · simp at h
  | cons p rest ih =>
    intro sorted x h
    simp only [binInsertAll]
    apply ih
    rcases h with h | h
    · left
      generalize bisect lt p sorted (sorted.length + 1) 0 sorted.length = l
      rw [← List.take_append_drop l sorted] at h
      rcases List.mem_append.mp h with h | h
      · exact List.mem_append_left _ h
      · exact List.mem_append_right _ (List.mem_cons_of_mem _ h)
    · rcases List.mem_cons.mp h with rfl | h
      · left; simp
      · right; exact h

theorem pySorted_mem_iff {α : Type} [Inhabited α] (lt : α → α → Bool) (xs out : List α)
    (h : pySorted lt xs = .ok out) (x : α) : x ∈ out ↔ x ∈ xs := by
  refine ⟨pySorted_mem lt xs out h x, ?_⟩
  intro hx
  unfold pySorted at h
  split at h
  · cases h; exact hx
  · cases h; exact hx
  · rename_i a b rest
    split at h
    · cases h
    · simp only [Except.ok.injEq] at h
      subst h
      apply binInsertAll_mem_rev
      generalize (1 + if lt b a = true then runMore (fun prev z => lt z prev) a (b :: rest)
        else runMore (fun prev z => !lt z prev) a (b :: rest)) = n
      rw [← List.take_append_drop n (a :: b :: rest)] at hx
      rcases List.mem_append.mp hx with hx | hx
      · left
        split
        · exact List.mem_reverse.mpr hx
        · exact hx
      · exact Or.inr hx

/-! ### the filter is `usable` -/

theorem recCls_indel {v : Rec} : recCls v = .indel ↔ v.type = "INDEL" := by
  simp only [recCls]
  split
  · rename_i h
    simp only [Bool.or_eq_true, beq_iff_eq] at h
    constructor
    · intro h'; cases h'
    · intro h'; rw [h'] at h; rcases h with h | h <;> simp at h
  · split
    · rename_i h; simp only [beq_iff_eq] at h; simp [h]
    · rename_i h; simp only [beq_iff_eq] at h; simp [h]

theorem overlaps_iff (s e tx : Nat) (hse : s < e) :
    overlaps s e ((tx : Int) - 3) (tx : Int) = (decide (s < tx) && decide (tx - 3 < e)) := by
  simp only [overlaps]
  rw [Bool.eq_iff_iff]
  simp only [Bool.or_eq_true, Bool.and_eq_true, decide_eq_true_eq]
  omega

theorem txEnd_toTx (inp : TvgIn) (hc : inp.hasKnownOrf = inp.orf.isSome) :
    txEnd inp = ((if inp.toTx.coding then inp.toTx.orfEnd else inp.toTx.seq.length : Nat) : Int) := by
  simp only [txEnd, TvgIn.toTx]
  cases ho : inp.orf with
  | none => simp [hc, ho]
  | some p => obtain ⟨s, e⟩ := p; simp [hc, ho]

/-- one record of the "Filter variants" loop against `usable` -/
theorem filterOne_usable {inp : TvgIn} (hc : inp.hasKnownOrf = inp.orf.isSome) {v : Rec}
    (hss : v.start < v.stop) (hindel : (v.type == "INDEL") = (isInsertion v || isDeletion v))
    {r : Option Rec} (h : filterOne inp (startIndex inp.toTx) v = .ok r) :
    usable inp.toTx v.toSpec = r.map Rec.toSpec ∧ ∀ r', r = some r' → r'.start < r'.stop ∧
      startIndex inp.toTx ≤ r'.start ∧ ((r'.start = startIndex inp.toTx ∧ v.start + 1 = startIndex inp.toTx) ∨ r' = v) := by
  unfold filterOne at h
  obtain ⟨w, hw, h⟩ := tvg_bind_ok.mp h
  -- the re-anchoring
  have hcond : (v.start + 1 == startIndex inp.toTx && (isInsertion v || isDeletion v)) =
      (v.toSpec.start + 1 == startIndex inp.toTx && v.toSpec.cls == .indel) := by
    rw [← hindel]
    congr 1
    rw [Bool.eq_iff_iff]
    simp only [beq_iff_eq, Rec.toSpec, recCls_indel]
  have hwspec : (if v.toSpec.start + 1 == startIndex inp.toTx && v.toSpec.cls == .indel
      then Spec.toEndInclusion inp.toTx.seq v.toSpec else v.toSpec) = w.toSpec ∧ w.start < w.stop ∧
      ((w.start = startIndex inp.toTx ∧ v.start + 1 = startIndex inp.toTx) ∨ w = v) := by
    rw [← hcond]
    split at hw
    · rename_i hc1
      simp only [hc1, if_true]
      have hst : v.start + 1 = startIndex inp.toTx := by
        simp only [Bool.and_eq_true, beq_iff_eq] at hc1; exact hc1.1
      unfold toEndInclusion at hw
      split at hw
      · cases hw
      · split at hw
        · cases hw
        · rename_i c hcs
          cases hw
          refine ⟨?_, by simp; omega, Or.inl ⟨by simpa using hst, hst⟩⟩
          simp only [Spec.toEndInclusion, Rec.toSpec, TvgIn.toTx, hcs, recCls]
    · rename_i hc1
      simp only [hc1, if_false, Bool.false_eq_true]
      simp only [pure, Except.pure, Except.ok.injEq] at hw
      subst hw
      exact ⟨rfl, hss, Or.inr rfl⟩
  obtain ⟨hw1, hw2, hw4⟩ := hwspec
  simp only [usable, hw1]
  have hstart : w.toSpec.start = w.start := rfl
  have hstop : w.toSpec.stop = w.stop := rfl
  split at h
  · rename_i hlt
    simp only [pure, Except.pure, Except.ok.injEq] at h
    subst h
    simp [hstart, hlt]
  · rename_i hge
    simp only [hstart, hge, if_false]
    have htx := txEnd_toTx inp hc
    generalize (if inp.toTx.coding then inp.toTx.orfEnd else inp.toTx.seq.length) = T at htx ⊢
    rw [htx, overlaps_iff _ _ _ hw2] at h
    have hfus : inp.toTx.isFusion = false := rfl
    have hnf : inp.toTx.endNF = inp.mrnaEndNF := rfl
    simp only [hfus, hnf, hstop, Bool.not_false, Bool.and_true]
    rw [← Bool.and_assoc] at h
    split at h
    · rename_i hov
      simp only [pure, Except.pure, Except.ok.injEq] at h
      subst h
      simp [hov]
    · rename_i hov
      simp only [pure, Except.pure, Except.ok.injEq] at h
      subst h
      have hov' : (inp.mrnaEndNF && decide (w.start < T) && decide (T - 3 < w.stop)) = false := by
        simpa using hov
      simp only [hov', Bool.false_eq_true, if_false, Option.map_some]
      refine ⟨trivial, ?_⟩
      intro r' hr'
      cases hr'
      exact ⟨hw2, by omega, hw4⟩

/-- the "Filter variants" loop is `filterMap usable`; it keeps the ascending order (a re-anchored
record moves to `start_index`, the smallest start a kept record can have) -/
theorem filterAll_usable {inp : TvgIn} (hc : inp.hasKnownOrf = inp.orf.isSome) :
    ∀ (vs l : List Rec),
      (∀ v ∈ vs, v.start < v.stop ∧ (v.type == "INDEL") = (isInsertion v || isDeletion v)) →
      filterAll inp (startIndex inp.toTx) vs = .ok l →
      l.map Rec.toSpec = (vs.map Rec.toSpec).filterMap (usable inp.toTx) ∧
      (∀ r ∈ l, r.start < r.stop ∧ startIndex inp.toTx ≤ r.start ∧
        ((r.start = startIndex inp.toTx ∧ ∃ u ∈ vs, u.start + 1 = startIndex inp.toTx) ∨ r ∈ vs)) ∧
      (AscBy (·.start) vs → AscBy (·.start) l) := by
  intro vs
  induction vs with
  | nil =>
    intro l _ h
    simp only [filterAll, Except.ok.injEq] at h
    subst h
    exact ⟨rfl, by simp, fun _ => List.Pairwise.nil⟩
  | cons v vs ih =>
    intro l hvs h
    simp only [filterAll] at h
    obtain ⟨r, hr, h⟩ := tvg_bind_ok.mp h
    obtain ⟨rest, hrest, h⟩ := tvg_bind_ok.mp h
    simp only [pure, Except.pure, Except.ok.injEq] at h
    obtain ⟨hv1, hv2⟩ := hvs v (by simp)
    obtain ⟨hu, hr'⟩ := filterOne_usable hc hv1 hv2 hr
    obtain ⟨ih1, ih2, ih3⟩ := ih rest (fun w hw => hvs w (by simp [hw])) hrest
    subst h
    cases r with
    | none =>
      simp only [Option.map_none] at hu
      refine ⟨by simp [hu, ih1], ?_, ?_⟩
      · intro x hx
        obtain ⟨a, b, c⟩ := ih2 x hx
        exact ⟨a, b, c.imp (fun ⟨h1, u, hu, h2⟩ => ⟨h1, u, by simp [hu], h2⟩) (fun h => by simp [h])⟩
      · intro hasc
        exact ih3 (List.pairwise_cons.mp hasc).2
    | some x =>
      simp only [Option.map_some] at hu
      obtain ⟨a1, a2, a3⟩ := hr' x rfl
      refine ⟨by simp [hu, ih1], ?_, ?_⟩
      · intro y hy
        rcases List.mem_cons.mp hy with rfl | hy
        · exact ⟨a1, a2, a3.imp (fun ⟨h1, h2⟩ => ⟨h1, v, by simp, h2⟩) (fun h => by simp [h])⟩
        · obtain ⟨a, b, c⟩ := ih2 y hy
          exact ⟨a, b, c.imp (fun ⟨h1, u, hu, h2⟩ => ⟨h1, u, by simp [hu], h2⟩) (fun h => by simp [h])⟩
      · intro hasc
        obtain ⟨hhead, htail⟩ := List.pairwise_cons.mp hasc
        refine List.pairwise_cons.mpr ⟨?_, ih3 htail⟩
        intro y hy
        obtain ⟨_, b, c⟩ := ih2 y hy
        show x.start ≤ y.start
        rcases a3 with ⟨a3, _⟩ | rfl
        · rw [a3]; exact b
        · rcases c with ⟨_, u, hu, hu2⟩ | c
          · have := hhead u hu
            simp only at this
            omega
          · exact hhead y c

/-! ### `find_mnvs_from_adjacent_variants` (pairs) is `mergedPairs` -/

theorem mnvClass_none_iff {v : Rec} : mnvClass v = none ↔ recCls v = .other := by
  simp only [mnvClass, recCls]
  split
  · simp
  · split <;> simp

theorem mnvClass_eq {a b : Rec} {ta tb : String} (ha : mnvClass a = some ta) (hb : mnvClass b = some tb) :
    recCls a ≠ .other ∧ (tb == ta) = (recCls a == recCls b) := by
  unfold mnvClass at ha hb
  unfold recCls
  by_cases h1 : (a.type == "SNV" || a.type == "RNAEditingSite") = true <;>
  by_cases h2 : (b.type == "SNV" || b.type == "RNAEditingSite") = true <;>
  by_cases h3 : (a.type == "INDEL") = true <;> by_cases h4 : (b.type == "INDEL") = true <;>
  simp only [h1, h2, h3, h4, if_true, if_false, Bool.false_eq_true] at ha hb ⊢ <;>
  first
    | (cases ha; cases hb; decide)
    | (cases ha; cases hb)
    | (cases ha)
    | (cases hb)

theorem mnvLevels_pairs (vs : List Rec) (v0 : Rec) (type0 : String) (i : Nat) :
    mnvLevels vs v0 type0 1 1 [[i]] = .ok (mnvLevel vs v0 type0 [[i]]) := by
  simp [mnvLevels, bind, Except.bind, pure, Except.pure]

theorem mnvLevel_single (vs : List Rec) (v0 : Rec) (type0 : String) (i : Nat) :
    mnvLevel vs v0 type0 [[i]] =
      if i + 1 ≥ vs.length then []
      else mnvScan v0 type0 [i] (((List.range vs.length).zip vs).drop (i + 1)) := by
  simp only [mnvLevel, List.flatMap_cons, List.flatMap_nil, List.append_nil, List.getLast?_singleton,
    Option.getD_some]
  split <;> rename_i h <;> simp [h]

/-- the merged form of the definitional layer -/
def mergeOf (a b : Var) : Var :=
  { start := a.start, stop := b.stop, ref := a.ref ++ b.ref, alt := a.alt ++ b.alt,
    cls := .other, ids := a.ids ++ b.ids, touch := a.touch }

theorem mergedPairs_eq (us : List Var) :
    mergedPairs us = us.flatMap fun a =>
      (us.filter fun b => a.stop == b.start && sameMergeCls a b).map (mergeOf a) := rfl

theorem mkMnv_pair {vs : List Rec} {i j : Nat} {v0 vj : Rec} (hi : vs[i]? = some v0)
    (hj : vs[j]? = some vj) : (mkMnv vs [i, j]).toSpec = mergeOf v0.toSpec vj.toSpec := by
  simp [mkMnv, hi, hj, Rec.toSpec, mergeOf, recCls]

/-- the scan of one combination `[i]` over the records behind it, in ascending order: exactly
the records that start where `v0` ends and have its class (the `break` loses nothing) -/
theorem mnvScan_spec {vs : List Rec} {i : Nat} {v0 : Rec} {type0 : String} (hi : vs[i]? = some v0)
    (hcls : mnvClass v0 = some type0) :
    ∀ (zs : List (Nat × Rec)), (∀ p ∈ zs, vs[p.1]? = some p.2) → AscBy (·.start) (zs.map (·.2)) →
      (mnvScan v0 type0 [i] zs).map (fun c => (mkMnv vs c).toSpec) =
        ((zs.map (·.2.toSpec)).filter fun b => v0.toSpec.stop == b.start && sameMergeCls v0.toSpec b).map
          (mergeOf v0.toSpec) := by
  intro zs
  induction zs with
  | nil => intro _ _; rfl
  | cons p rest ih =>
    intro hidx hasc
    obtain ⟨j, vj⟩ := p
    have hj : vs[j]? = some vj := hidx (j, vj) (by simp)
    have hasc' : AscBy (·.start) (vj :: rest.map (·.2)) := hasc
    have ih' := ih (fun q hq => hidx q (by simp [hq])) (List.pairwise_cons.mp hasc').2
    have hlater : ∀ q ∈ rest, vj.start ≤ q.2.start := by
      intro q hq
      exact (List.pairwise_cons.mp hasc').1 q.2 (List.mem_map.mpr ⟨q, hq, rfl⟩)
    simp only [mnvScan, List.map_cons, List.filter_cons]
    have hstop : v0.toSpec.stop = v0.stop := rfl
    have hstart : vj.toSpec.start = vj.start := rfl
    cases hcj : mnvClass vj with
    | none =>
      have : recCls vj = .other := mnvClass_none_iff.mp hcj
      have hno : (v0.toSpec.stop == vj.toSpec.start && sameMergeCls v0.toSpec vj.toSpec) = false := by
        have h0 := (mnvClass_eq hcls hcls).1
        simp only [sameMergeCls, Rec.toSpec, this]
        cases hc0 : recCls v0 <;> simp_all
      simp only [hno, Bool.false_eq_true, if_false]
      exact ih'
    | some tj =>
      obtain ⟨h0, heq⟩ := mnvClass_eq hcls hcj
      simp only
      by_cases h1 : vj.start < v0.stop
      · have hno : (v0.toSpec.stop == vj.toSpec.start && sameMergeCls v0.toSpec vj.toSpec) = false := by
          have : ¬ v0.stop = vj.start := by omega
          simp [hstop, hstart, this]
        simp only [h1, if_true, hno, Bool.false_eq_true, if_false]
        exact ih'
      · simp only [h1, if_false]
        by_cases h2 : vj.start > v0.stop
        · -- `break`: nothing behind can start at `v0.stop`
          simp only [h2, if_true, List.map_nil]
          have hno : (v0.toSpec.stop == vj.toSpec.start && sameMergeCls v0.toSpec vj.toSpec) = false := by
            have : ¬ v0.stop = vj.start := by omega
            simp [hstop, hstart, this]
          simp only [hno, Bool.false_eq_true, if_false]
          symm
          rw [List.map_eq_nil_iff, List.filter_eq_nil_iff]
          intro b hb
          obtain ⟨q, hq, rfl⟩ := List.mem_map.mp hb
          have := hlater q hq
          have hb' : q.2.toSpec.start = q.2.start := rfl
          have : ¬ v0.stop = q.2.start := by omega
          simp [hstop, hb', this]
        · simp only [h2, if_false]
          have he : v0.stop = vj.start := by omega
          by_cases h3 : (tj == type0) = true
          · have hyes : (v0.toSpec.stop == vj.toSpec.start && sameMergeCls v0.toSpec vj.toSpec) = true := by
              have hc : (recCls v0 == recCls vj) = true := by rw [← heq]; exact h3
              have hne : (recCls v0 != VCls.other) = true := by simpa using h0
              simp only [sameMergeCls, Rec.toSpec, hne, hc, he, beq_self_eq_true, Bool.and_self]
            simp only [h3, if_true, hyes, List.map_cons, List.cons_append, List.nil_append]
            rw [mkMnv_pair hi hj, ih']
          · have hno : (v0.toSpec.stop == vj.toSpec.start && sameMergeCls v0.toSpec vj.toSpec) = false := by
              have hc : (recCls v0 == recCls vj) = false := by rw [← heq]; simpa using h3
              simp only [sameMergeCls, Rec.toSpec, hc, Bool.and_false]
            simp only [h3, if_false, hno, Bool.false_eq_true]
            exact ih'

/-- what record `p.2` at index `p.1` contributes to `find_mnvs_from_adjacent_variants` (pairs) -/
def mnvContrib (vs : List Rec) (p : Nat × Rec) : List Rec :=
  match mnvClass p.2 with
  | none => []
  | some type0 => (mnvLevel vs p.2 type0 [[p.1]]).map (mkMnv vs)

/-- one step of the fold of `find_mnvs_from_adjacent_variants` with `max_adjacent_as_mnv = 2` -/
def mnvStep (vs : List Rec) (acc : List Rec) (p : Nat × Rec) : R (List Rec) :=
  match mnvClass p.2 with
  | none => pure acc
  | some type0 => do
    let combs ← mnvLevels vs p.2 type0 1 1 [[p.1]]
    pure (acc ++ combs.map (mkMnv vs))

theorem mnvStep_eq (vs : List Rec) (acc : List Rec) (p : Nat × Rec) :
    mnvStep vs acc p = .ok (acc ++ mnvContrib vs p) := by
  simp only [mnvStep, mnvContrib]
  cases mnvClass p.2 with
  | none => simp [pure, Except.pure]
  | some type0 => simp [mnvLevels_pairs, bind, Except.bind, pure, Except.pure]

theorem findMnvs_fold (vs : List Rec) :
    ∀ (zs : List (Nat × Rec)) (acc : List Rec),
      zs.foldlM (mnvStep vs) acc = (.ok (acc ++ zs.flatMap (mnvContrib vs)) : R (List Rec)) := by
  intro zs
  induction zs with
  | nil => intro acc; simp [pure, Except.pure]
  | cons p zs ih =>
    intro acc
    rw [List.foldlM_cons, mnvStep_eq]
    show zs.foldlM (mnvStep vs) (acc ++ mnvContrib vs p) = _
    rw [ih]
    simp [List.append_assoc]

theorem zip_range_idx {vs : List Rec} {p : Nat × Rec} (hp : p ∈ (List.range vs.length).zip vs) :
    vs[p.1]? = some p.2 := by
  obtain ⟨i, hi⟩ := List.getElem?_of_mem hp
  rw [List.getElem?_zip_eq_some] at hi
  obtain ⟨h1, h2⟩ := hi
  rw [List.getElem?_range] at h1
  · simp only [Option.some.injEq] at h1
    rw [← h1]; exact h2
  · rcases Nat.lt_or_ge i vs.length with h | h
    · exact h
    · simp [List.getElem?_eq_none h] at h2

theorem flatMap_congr_mem {α β : Type} {l : List α} {f g : α → List β} (h : ∀ x ∈ l, f x = g x) :
    l.flatMap f = l.flatMap g := by
  induction l with
  | nil => rfl
  | cons a l ih =>
    simp only [List.flatMap_cons]
    rw [h a (by simp), ih (fun x hx => h x (by simp [hx]))]

/-- the contribution of the record at index `k`, against the definitional layer -/
theorem mnvContrib_spec {vs : List Rec} (hasc : AscBy (·.start) vs) (hss : ∀ v ∈ vs, v.start < v.stop)
    {p : Nat × Rec} (hp : vs[p.1]? = some p.2) :
    (mnvContrib vs p).map Rec.toSpec =
      ((vs.map Rec.toSpec).filter fun b => p.2.toSpec.stop == b.start && sameMergeCls p.2.toSpec b).map
        (mergeOf p.2.toSpec) := by
  obtain ⟨k, v0⟩ := p
  simp only at hp ⊢
  have hk : k < vs.length := (List.getElem?_eq_some_iff.mp hp).1
  have hvk : vs[k] = v0 := (List.getElem?_eq_some_iff.mp hp).2
  have hstop : v0.toSpec.stop = v0.stop := rfl
  simp only [mnvContrib]
  cases hc : mnvClass v0 with
  | none =>
    have hcls : recCls v0 = .other := mnvClass_none_iff.mp hc
    simp only [List.map_nil]
    symm
    rw [List.map_eq_nil_iff, List.filter_eq_nil_iff]
    intro b _
    simp [sameMergeCls, Rec.toSpec, hcls]
  | some type0 =>
    simp only [mnvLevel_single, List.map_map]
    -- the records up to index `k` start too early
    have hpre : ((vs.take (k + 1)).map Rec.toSpec).filter
        (fun b => v0.toSpec.stop == b.start && sameMergeCls v0.toSpec b) = [] := by
      rw [List.filter_eq_nil_iff]
      intro b hb
      obtain ⟨x, hx, rfl⟩ := List.mem_map.mp hb
      have h1 := (ascBy_split hasc k hk).1 x hx
      rw [hvk] at h1
      have h2 := hss v0 (List.mem_of_getElem? hp)
      have hb' : x.toSpec.start = x.start := rfl
      have : ¬ v0.stop = x.start := by
        have h1' : x.start ≤ v0.start := h1
        omega
      simp [hstop, hb', this]
    have hsplit : vs.map Rec.toSpec =
        (vs.take (k + 1)).map Rec.toSpec ++ (vs.drop (k + 1)).map Rec.toSpec := by
      rw [← List.map_append, List.take_append_drop]
    rw [hsplit, List.filter_append, hpre, List.nil_append]
    split
    · rename_i hge
      have : vs.drop (k + 1) = [] := List.drop_eq_nil_of_le hge
      simp [this]
    · have hzs : (((List.range vs.length).zip vs).drop (k + 1)).map (·.2) = vs.drop (k + 1) := by
        rw [List.map_drop]
        congr 1
        exact List.map_snd_zip (by simp)
      have h := mnvScan_spec hp hc (((List.range vs.length).zip vs).drop (k + 1))
        (fun q hq => zip_range_idx (List.mem_of_mem_drop hq))
        (by rw [hzs]; exact List.Pairwise.sublist (List.drop_sublist _ _) hasc)
      have hzs' : (((List.range vs.length).zip vs).drop (k + 1)).map (·.2.toSpec) =
          (vs.drop (k + 1)).map Rec.toSpec := by
        rw [← hzs, List.map_map]; rfl
      rw [hzs'] at h
      exact h

/-- **`find_mnvs_from_adjacent_variants` with `max_adjacent_as_mnv = 2` on records in ascending
order is `mergedPairs`** (same list, same order) -/
theorem findMnvs_mergedPairs {vs merged : List Rec} (hasc : AscBy (·.start) vs)
    (hss : ∀ v ∈ vs, v.start < v.stop) (h : findMnvs vs 2 = .ok merged) :
    merged.map Rec.toSpec = mergedPairs (vs.map Rec.toSpec) := by
  have hstepeq : findMnvs vs 2 = ((List.range vs.length).zip vs).foldlM (mnvStep vs) [] := by
    unfold findMnvs
    congr 1
  rw [hstepeq, findMnvs_fold] at h
  have : merged = ((List.range vs.length).zip vs).flatMap (mnvContrib vs) := by
    simpa using h.symm
  subst this
  rw [List.map_flatMap, flatMap_congr_mem (fun p hp => mnvContrib_spec hasc hss (zip_range_idx hp)),
    mergedPairs_eq, List.flatMap_map]
  have hz : ((List.range vs.length).zip vs).map (·.2) = vs := List.map_snd_zip (by simp)
  conv => rhs; rw [← hz]
  rw [List.flatMap_map, hz]

/-! ### the records the loop walks over are the record pool -/

theorem ascStarts_ascBy : ∀ (vs : List Rec), ascStarts vs = true → AscBy (·.start) vs := by
  intro vs
  induction vs with
  | nil => intro _; exact List.Pairwise.nil
  | cons a rest ih =>
    intro h
    cases rest with
    | nil => simp [AscBy]
    | cons b rest' =>
      simp only [ascStarts, Bool.and_eq_true, decide_eq_true_eq] at h
      have hrest := ih h.2
      refine List.pairwise_cons.mpr ⟨?_, hrest⟩
      intro y hy
      rcases List.mem_cons.mp hy with rfl | hy
      · exact h.1
      · exact Nat.le_trans h.1 ((List.pairwise_cons.mp hrest).1 y hy)

/-- `poolInputOk`, spelled out -/
theorem poolInputOk_iff {inp : TvgIn} {vs : List Rec} (h : poolInputOk inp vs = true) :
    inp.hasKnownOrf = inp.orf.isSome ∧ inp.maxAdj = 2 ∧ 3 ≤ inp.seq.length ∧
    (∀ v ∈ vs, inScope v = true ∧ v.start < v.stop ∧ v.stop ≤ inp.seq.length ∧
      (v.type == "INDEL") = (isInsertion v || isDeletion v)) ∧ AscBy (·.start) vs := by
  simp only [poolInputOk, Bool.and_eq_true, beq_iff_eq, decide_eq_true_eq, List.all_eq_true] at h
  obtain ⟨⟨⟨⟨h1, h2⟩, h3⟩, h4⟩, h5⟩ := h
  refine ⟨h1, h2, h3, ?_, ascStarts_ascBy vs h5⟩
  intro v hv
  obtain ⟨⟨⟨a, b⟩, c⟩, d⟩ := h4 v hv
  exact ⟨a, b, c, d⟩

theorem poolInputOk_inOk {inp : TvgIn} {vs : List Rec} (h : poolInputOk inp vs = true) :
    ∀ v ∈ vs, InOk inp.seq v := by
  intro v hv
  obtain ⟨hs, h1, h2, _⟩ := (poolInputOk_iff h).2.2.2.1 v hv
  refine ⟨h1, h2, ?_⟩
  intro hf
  simp [inScope, hf] at hs

/-- a record of the definitional layer without its merge class (`Rec.toVar` does not carry it) -/
def eraseCls (u : Var) : Var := { u with cls := .other }

theorem toVar_eq_erase (r : Rec) : r.toVar = eraseCls r.toSpec := rfl

/-- **the records `create_variant_graph` walks over are the record pool of the definition** -/
theorem variantsWithMnv_recordPool {inp : TvgIn} {vs l : List Rec} (hok : poolInputOk inp vs = true)
    (h : variantsWithMnv inp vs = .ok l) (x : Var) :
    (∃ r ∈ l, r.toSpec = x) ↔ x ∈ recordPool inp.toTx (vs.map Rec.toSpec) := by
  obtain ⟨hc, hadj, _, hvs, hasc⟩ := poolInputOk_iff hok
  unfold variantsWithMnv at h
  obtain ⟨start0, hs0, h⟩ := tvg_bind_ok.mp h
  have hsi : start0 + 3 = startIndex inp.toTx := by
    simp only [startIndex, TvgIn.toTx]
    split at hs0
    · rename_i hk
      split at hs0
      · rename_i s e ho
        simp only [pure, Except.pure, Except.ok.injEq] at hs0
        subst hs0
        simp [hk, ho]
      · simp [throw, throwThe, MonadExceptOf.throw] at hs0
    · rename_i hk
      simp only [pure, Except.pure, Except.ok.injEq] at hs0
      subst hs0
      simp [hk]
  rw [hsi] at h
  obtain ⟨filtered, hf, h⟩ := tvg_bind_ok.mp h
  obtain ⟨merged, hm, h⟩ := tvg_bind_ok.mp h
  rw [hadj] at hm
  obtain ⟨f1, f2, f3⟩ := filterAll_usable hc vs filtered (fun v hv => ⟨(hvs v hv).2.1, (hvs v hv).2.2.2⟩) hf
  have hmp := findMnvs_mergedPairs (f3 hasc) (fun r hr => (f2 r hr).1) hm
  simp only [recordPool, List.mem_append]
  rw [← f1, ← hmp]
  constructor
  · rintro ⟨r, hr, rfl⟩
    rcases List.mem_append.mp ((pySorted_mem_iff _ _ _ h r).mp hr) with h1 | h1
    · exact Or.inl (List.mem_map_of_mem h1)
    · exact Or.inr (List.mem_map_of_mem h1)
  · rintro (h1 | h1)
    · obtain ⟨r, hr, rfl⟩ := List.mem_map.mp h1
      exact ⟨r, (pySorted_mem_iff _ _ _ h r).mpr (List.mem_append_left _ hr), rfl⟩
    · obtain ⟨r, hr, rfl⟩ := List.mem_map.mp h1
      exact ⟨r, (pySorted_mem_iff _ _ _ h r).mpr (List.mem_append_right _ hr), rfl⟩

/-! ### the merge class does not matter for separation, the applied sequence, the ids -/

theorem separated_map_erase : ∀ (h : List Var), separated (h.map eraseCls) = separated h := by
  intro h
  induction h with
  | nil => rfl
  | cons a rest ih =>
    cases rest with
    | nil => rfl
    | cons b rest' =>
      simp only [List.map_cons, separated] at ih ⊢
      rw [ih]
      rfl

theorem applyHap_go_map_erase : ∀ (h : List Var) (pos : Nat) (rest : List Char),
    applyHap.go pos rest (h.map eraseCls) = applyHap.go pos rest h := by
  intro h
  induction h with
  | nil => intro pos rest; rfl
  | cons a t ih =>
    intro pos rest
    simp only [List.map_cons, applyHap.go]
    rw [ih]
    rfl

theorem applyHap_map_erase (seq : List Char) (h : List Var) :
    applyHap seq (h.map eraseCls) = applyHap seq h := applyHap_go_map_erase h 0 seq

theorem hapIds_map_erase (h : List Var) : Graph.hapIds (h.map eraseCls) = Graph.hapIds h := by
  simp only [Graph.hapIds, List.flatMap_map]
  rfl

/-- a list of class-erased pool records is the class-erased form of a list of pool records -/
theorem lift_erase {pool : List Var} : ∀ (hs : List Var),
    (∀ v ∈ hs, ∃ u ∈ pool, v = eraseCls u) → ∃ h' : List Var, h'.map eraseCls = hs ∧ ∀ u ∈ h', u ∈ pool := by
  intro hs
  induction hs with
  | nil => intro _; exact ⟨[], rfl, by simp⟩
  | cons v rest ih =>
    intro h
    obtain ⟨u, hu, rfl⟩ := h v (by simp)
    obtain ⟨h', h1, h2⟩ := ih (fun w hw => h w (by simp [hw]))
    refine ⟨u :: h', by simp [h1], ?_⟩
    intro x hx
    rcases List.mem_cons.mp hx with rfl | hx
    · exact hu
    · exact h2 x hx

end MoPepGen.Tvg
