import MoPepGen.Model.Gvf
/-! Helper lemmas for property C13 (GVF text and index). -/
namespace MoPepGen.Gvf

theorem nil_or_snoc {α : Type} : ∀ l : List α, l = [] ∨ ∃ t x, l = t ++ [x]
  | [] => Or.inl rfl
  | a :: l => by
    rcases nil_or_snoc l with rfl | ⟨t, x, rfl⟩
    · exact Or.inr ⟨[], a, rfl⟩
    · exact Or.inr ⟨a :: t, x, rfl⟩

/-! ## splitOn / joinWith -/

theorem splitOn_cons_sep (c : Char) (xs : Str) : splitOn c (c :: xs) = [] :: splitOn c xs := by
  rw [splitOn]; simp

theorem splitOn_cons_ne {c x : Char} (h : x ≠ c) {xs : Str} {hd : Str} {tl : List Str}
    (hs : splitOn c xs = hd :: tl) : splitOn c (x :: xs) = (x :: hd) :: tl := by
  rw [splitOn]; simp [h, hs]

theorem rstrip_cons_nil {c : Char} {cs : Str} (h : rstrip cs = []) :
    rstrip (c :: cs) = if isPySpace c then [] else [c] := by
  rw [rstrip, h]

theorem rstrip_cons_ne {c : Char} {cs : Str} (h : rstrip cs ≠ []) :
    rstrip (c :: cs) = c :: rstrip cs := by
  rw [rstrip]
  cases hr : rstrip cs with
  | nil => exact absurd hr h
  | cons _ _ => rfl

theorem rstripChar_cons_nil {c x : Char} {xs : Str} (h : rstripChar c xs = []) :
    rstripChar c (x :: xs) = if x = c then [] else [x] := by
  rw [rstripChar, h]

theorem rstripChar_cons_ne {c x : Char} {xs : Str} (h : rstripChar c xs ≠ []) :
    rstripChar c (x :: xs) = x :: rstripChar c xs := by
  rw [rstripChar]
  cases hr : rstripChar c xs with
  | nil => exact absurd hr h
  | cons _ _ => rfl

theorem splitOn_ne_nil (c : Char) (s : Str) : splitOn c s ≠ [] := by
  induction s with
  | nil => simp [splitOn]
  | cons x xs ih =>
    by_cases hx : x = c
    · subst hx; simp [splitOn_cons_sep]
    · cases hs : splitOn c xs with
      | nil => exact absurd hs ih
      | cons hd tl => simp [splitOn_cons_ne hx hs]

theorem splitOn_of_not_mem {c : Char} {s : Str} (h : c ∉ s) : splitOn c s = [s] := by
  induction s with
  | nil => rfl
  | cons x xs ih =>
    have hx : x ≠ c := fun e => h (by simp [e])
    have hxs : c ∉ xs := fun e => h (by simp [e])
    rw [splitOn_cons_ne hx (ih hxs)]

theorem splitOn_append_sep {c : Char} {a : Str} (b : Str) (h : c ∉ a) :
    splitOn c (a ++ c :: b) = a :: splitOn c b := by
  induction a with
  | nil => simp [splitOn_cons_sep]
  | cons x xs ih =>
    have hx : x ≠ c := fun e => h (by simp [e])
    have hxs : c ∉ xs := fun e => h (by simp [e])
    show splitOn c (x :: (xs ++ c :: b)) = _
    rw [splitOn_cons_ne hx (ih hxs)]

theorem splitOn_joinWith (c : Char) : ∀ (xs : List Str), xs ≠ [] → (∀ x ∈ xs, c ∉ x) →
    splitOn c (joinWith c xs) = xs
  | [], h, _ => absurd rfl h
  | [x], _, h => by simpa [joinWith] using splitOn_of_not_mem (h x (by simp))
  | x :: y :: r, _, h => by
    have hx : c ∉ x := h x (by simp)
    have ih := splitOn_joinWith c (y :: r) (by simp) (fun z hz => h z (by simp [hz]))
    simp only [joinWith]
    rw [splitOn_append_sep _ hx, ih]

theorem joinWith_concat (c : Char) : ∀ (xs : List Str) (y : Str), xs ≠ [] →
    joinWith c (xs ++ [y]) = joinWith c xs ++ c :: y
  | [], _, h => absurd rfl h
  | [x], y, _ => by simp [joinWith]
  | x :: z :: r, y, _ => by
    have ih := joinWith_concat c (z :: r) y (by simp)
    simp only [List.cons_append, joinWith] at ih ⊢
    rw [ih]; simp

theorem mem_joinWith {c d : Char} : ∀ {xs : List Str}, d ∈ joinWith c xs →
    d = c ∨ ∃ x ∈ xs, d ∈ x
  | [], h => by simp [joinWith] at h
  | [x], h => by right; exact ⟨x, by simp, by simpa [joinWith] using h⟩
  | x :: y :: r, h => by
    simp only [joinWith, List.mem_append, List.mem_cons] at h
    rcases h with h | h | h
    · right; exact ⟨x, by simp, h⟩
    · left; exact h
    · rcases mem_joinWith h with h | ⟨z, hz, hd⟩
      · left; exact h
      · right; exact ⟨z, by simp [hz], hd⟩

/-! ## rstrip -/

theorem rstrip_concat_nonspace {c : Char} (h : isPySpace c = false) :
    ∀ s : Str, rstrip (s ++ [c]) = s ++ [c]
  | [] => by simp [rstrip, h]
  | x :: xs => by
    have ih := rstrip_concat_nonspace h xs
    show rstrip (x :: (xs ++ [c])) = _
    rw [rstrip_cons_ne (by rw [ih]; simp), ih]; rfl

theorem rstrip_eq_self {s : Str} (h : noTrailSpace s = true) : rstrip s = s := by
  rcases nil_or_snoc s with rfl | ⟨t, c, rfl⟩
  · rfl
  · simp [noTrailSpace] at h
    exact rstrip_concat_nonspace h t

theorem rstrip_append_of_ne_nil {s : Str} (h : rstrip s ≠ []) :
    ∀ a : Str, rstrip (a ++ s) = a ++ rstrip s
  | [] => rfl
  | x :: xs => by
    have ih := rstrip_append_of_ne_nil h xs
    show rstrip (x :: (xs ++ s)) = _
    rw [rstrip_cons_ne (by rw [ih]; simp [h]), ih]; rfl

theorem rstrip_concat_space {c : Char} (h : isPySpace c = true) :
    ∀ s : Str, rstrip (s ++ [c]) = rstrip s
  | [] => by simp [rstrip, h]
  | x :: xs => by
    have ih := rstrip_concat_space h xs
    show rstrip (x :: (xs ++ [c])) = rstrip (x :: xs)
    by_cases hr : rstrip xs = []
    · rw [rstrip_cons_nil (by rw [ih]; exact hr), rstrip_cons_nil hr]
    · rw [rstrip_cons_ne (by rw [ih]; exact hr), rstrip_cons_ne hr, ih]

theorem noTrailSpace_rstrip : ∀ s : Str, noTrailSpace (rstrip s) = true
  | [] => rfl
  | x :: xs => by
    have ih := noTrailSpace_rstrip xs
    by_cases hr : rstrip xs = []
    · rw [rstrip_cons_nil hr]
      by_cases hx : isPySpace x = true <;> simp [noTrailSpace, hx]
    · rw [rstrip_cons_ne hr]
      cases hrs : rstrip xs with
      | nil => exact absurd hrs hr
      | cons y ys =>
        rw [hrs] at ih
        simpa [noTrailSpace, List.getLast?_cons_cons] using ih

theorem rstrip_idem (s : Str) : rstrip (rstrip s) = rstrip s :=
  rstrip_eq_self (noTrailSpace_rstrip s)

/-- a trailing newline (or any white space) is invisible to the record parsers -/
theorem rstrip_newline (s : Str) : rstrip (s ++ ['\n']) = rstrip s :=
  rstrip_concat_space (by decide) s

/-! ## rstripChar / stripChar -/

theorem rstripChar_concat_ne {c x : Char} (h : x ≠ c) :
    ∀ s : Str, rstripChar c (s ++ [x]) = s ++ [x]
  | [] => by simp [rstripChar, h]
  | y :: ys => by
    have ih := rstripChar_concat_ne h ys
    show rstripChar c (y :: (ys ++ [x])) = _
    rw [rstripChar_cons_ne (by rw [ih]; simp), ih]; rfl

theorem rstripChar_of_not_mem {c : Char} {s : Str} (h : c ∉ s) : rstripChar c s = s := by
  rcases nil_or_snoc s with rfl | ⟨t, x, rfl⟩
  · rfl
  · exact rstripChar_concat_ne (fun e => h (by simp [e])) t

theorem rstripChar_concat_eq (c : Char) :
    ∀ s : Str, rstripChar c (s ++ [c]) = rstripChar c s
  | [] => by simp [rstripChar]
  | y :: ys => by
    have ih := rstripChar_concat_eq c ys
    show rstripChar c (y :: (ys ++ [c])) = rstripChar c (y :: ys)
    by_cases hr : rstripChar c ys = []
    · rw [rstripChar_cons_nil (by rw [ih]; exact hr), rstripChar_cons_nil hr]
    · rw [rstripChar_cons_ne (by rw [ih]; exact hr), rstripChar_cons_ne hr, ih]

theorem stripChar_eq_self {c : Char} {s : Str} (h1 : s.head? ≠ some c) (h2 : s.getLast? ≠ some c) :
    stripChar c s = s := by
  unfold stripChar
  have : s.dropWhile (· = c) = s := by
    cases s with
    | nil => rfl
    | cons x xs =>
      have : x ≠ c := by simpa using h1
      simp [List.dropWhile, this]
  rw [this]
  rcases nil_or_snoc s with rfl | ⟨t, x, rfl⟩
  · rfl
  · exact rstripChar_concat_ne (by simpa using h2) t

/-! ## decimal integers -/

theorem digitChar_isDigit {d : Nat} (h : d < 10) : isDigit (digitChar d) = true := by
  have : d = 0 ∨ d = 1 ∨ d = 2 ∨ d = 3 ∨ d = 4 ∨ d = 5 ∨ d = 6 ∨ d = 7 ∨ d = 8 ∨ d = 9 := by omega
  rcases this with rfl | rfl | rfl | rfl | rfl | rfl | rfl | rfl | rfl | rfl <;> decide

theorem digitChar_val {d : Nat} (h : d < 10) : (digitChar d).toNat - 48 = d := by
  have : d = 0 ∨ d = 1 ∨ d = 2 ∨ d = 3 ∨ d = 4 ∨ d = 5 ∨ d = 6 ∨ d = 7 ∨ d = 8 ∨ d = 9 := by omega
  rcases this with rfl | rfl | rfl | rfl | rfl | rfl | rfl | rfl | rfl | rfl <;> decide

theorem natToStrAux_fuel : ∀ (m f : Nat), m ≤ f → natToStrAux f m = natToStrAux m m := by
  intro m
  induction m using Nat.strongRecOn with
  | _ m ih =>
    intro f hf
    cases f with
    | zero =>
      have : m = 0 := by omega
      subst this; rfl
    | succ f' =>
      by_cases h : m < 10
      · cases m with
        | zero => simp [natToStrAux]
        | succ m' => simp [natToStrAux, h]
      · cases m with
        | zero => omega
        | succ m' =>
          simp only [natToStrAux, h, if_false]
          rw [ih ((m' + 1) / 10) (by omega) f' (by omega),
            ih ((m' + 1) / 10) (by omega) m' (by omega)]

theorem natToStr_lt {n : Nat} (h : n < 10) : natToStr n = [digitChar n] := by
  unfold natToStr
  cases n with
  | zero => rfl
  | succ n' => simp [natToStrAux, h]

theorem natToStr_ge {n : Nat} (h : ¬ n < 10) :
    natToStr n = natToStr (n / 10) ++ [digitChar (n % 10)] := by
  unfold natToStr
  cases n with
  | zero => omega
  | succ n' =>
    simp only [natToStrAux, h, if_false]
    rw [natToStrAux_fuel ((n' + 1) / 10) n' (by omega)]

theorem parseDigits_snoc {c : Char} (hc : isDigit c = true) :
    ∀ (s : Str) (acc a : Nat), parseDigits acc s = some a →
      parseDigits acc (s ++ [c]) = some (a * 10 + (c.toNat - 48))
  | [], acc, a, h => by
    simp only [parseDigits, Option.some.injEq] at h
    simp [parseDigits, hc, h]
  | x :: xs, acc, a, h => by
    simp only [parseDigits] at h
    by_cases hx : isDigit x = true
    · simp only [hx, if_true] at h
      simp only [List.cons_append, parseDigits, hx, if_true]
      exact parseDigits_snoc hc xs _ a h
    · simp [hx] at h

theorem parseDigits_natToStr (n : Nat) : parseDigits 0 (natToStr n) = some n := by
  induction n using Nat.strongRecOn with
  | _ n ih =>
    by_cases h : n < 10
    · rw [natToStr_lt h]
      simp [parseDigits, digitChar_isDigit h, digitChar_val h]
    · rw [natToStr_ge h]
      have h10 : n % 10 < 10 := Nat.mod_lt _ (by omega)
      rw [parseDigits_snoc (digitChar_isDigit h10) _ _ _ (ih (n / 10) (by omega)),
        digitChar_val h10]
      congr 1; omega

theorem natToStr_ne_nil (n : Nat) : natToStr n ≠ [] := by
  by_cases h : n < 10
  · rw [natToStr_lt h]; simp
  · rw [natToStr_ge h]; simp

theorem natToStr_digits (n : Nat) : ∀ c ∈ natToStr n, isDigit c = true := by
  induction n using Nat.strongRecOn with
  | _ n ih =>
    intro c hc
    by_cases h : n < 10
    · rw [natToStr_lt h] at hc
      simp at hc; subst hc; exact digitChar_isDigit h
    · rw [natToStr_ge h] at hc
      simp only [List.mem_append, List.mem_singleton] at hc
      rcases hc with hc | rfl
      · exact ih (n / 10) (by omega) c hc
      · exact digitChar_isDigit (Nat.mod_lt _ (by omega))

theorem parseNat_natToStr (n : Nat) : parseNat (natToStr n) = some n := by
  have := parseDigits_natToStr n
  cases h : natToStr n with
  | nil => exact absurd h (natToStr_ne_nil n)
  | cons c cs => rw [h] at this; simpa [parseNat] using this

theorem parseInt_intToStr (z : Int) : parseInt (intToStr z) = .ok z := by
  cases z with
  | ofNat n =>
    have hp := parseNat_natToStr n
    have hd := natToStr_digits n
    show parseInt (natToStr n) = _
    cases h : natToStr n with
    | nil => exact absurd h (natToStr_ne_nil n)
    | cons c cs =>
      rw [h] at hp hd
      have hc : c ≠ '-' := by
        intro e; subst e
        have := hd '-' (by simp)
        exact absurd this (by decide)
      simp [parseInt, hc, hp]
  | negSucc n =>
    show parseInt ('-' :: natToStr (n + 1)) = _
    simp only [parseInt, if_true, parseNat_natToStr]
    rfl

theorem intToStr_ne_nil (z : Int) : intToStr z ≠ [] := by
  cases z with
  | ofNat n => exact natToStr_ne_nil n
  | negSucc n => simp [intToStr]

theorem intToStr_chars (z : Int) : ∀ c ∈ intToStr z, isDigit c = true ∨ c = '-' := by
  intro c hc
  cases z with
  | ofNat n => exact Or.inl (natToStr_digits n c hc)
  | negSucc n =>
    simp only [intToStr, List.mem_cons] at hc
    rcases hc with rfl | hc
    · exact Or.inr rfl
    · exact Or.inl (natToStr_digits _ c hc)

theorem not_mem_intToStr {c : Char} (h1 : isDigit c = false) (h2 : c ≠ '-') (z : Int) :
    c ∉ intToStr z := by
  intro hc
  rcases intToStr_chars z c hc with h | h
  · rw [h1] at h; cases h
  · exact h2 h

theorem isDigit_not_space {c : Char} (h : isDigit c = true) : isPySpace c = false := by
  simp only [isDigit, Bool.and_eq_true, decide_eq_true_eq] at h
  simp only [isPySpace, Bool.or_eq_false_iff, Bool.and_eq_false_iff, decide_eq_false_iff_not]
  omega

theorem noTrailSpace_intToStr (z : Int) : noTrailSpace (intToStr z) = true := by
  unfold noTrailSpace
  cases h : (intToStr z).getLast? with
  | none => rfl
  | some c =>
    have hm : c ∈ intToStr z := List.mem_of_getLast? h
    rcases intToStr_chars z c hm with hd | rfl
    · simp [isDigit_not_space hd]
    · decide

/-! ## attributes -/

theorem mapE_ok {α β : Type} {f : α → Except Err β} {g : α → β} :
    ∀ l : List α, (∀ x ∈ l, f x = .ok (g x)) → mapE f l = .ok (l.map g)
  | [], _ => rfl
  | x :: xs, h => by
    have ih := mapE_ok xs (fun y hy => h y (by simp [hy]))
    simp [mapE, h x (by simp), ih]

theorem flatten_snoc_eq_joinWith (c : Char) : ∀ (init : List Str) (last : Str),
    (init.map (· ++ [c])).flatten ++ last = joinWith c (init ++ [last])
  | [], last => by simp [joinWith]
  | [x], last => by simp [joinWith]
  | x :: y :: r, last => by
    have ih := flatten_snoc_eq_joinWith c (y :: r) last
    simp only [List.map_cons, List.flatten_cons, List.cons_append, joinWith,
      List.append_assoc] at ih ⊢
    rw [ih]; simp

theorem rstripChar_flatten {c : Char} {parts : List Str} (hne : parts ≠ [])
    (h : ∀ p ∈ parts, p ≠ [] ∧ c ∉ p) :
    rstripChar c (parts.map (· ++ [c])).flatten = joinWith c parts := by
  rcases nil_or_snoc parts with rfl | ⟨init, last, rfl⟩
  · exact absurd rfl hne
  · obtain ⟨hl, hc⟩ := h last (by simp)
    rcases nil_or_snoc last with rfl | ⟨l', x, rfl⟩
    · exact absurd rfl hl
    · have hx : x ≠ c := fun e => hc (by simp [e])
      rw [← flatten_snoc_eq_joinWith]
      simp only [List.map_append, List.map_cons, List.map_nil, List.flatten_append,
        List.flatten_cons, List.flatten_nil, List.append_nil]
      rw [← List.append_assoc, rstripChar_concat_eq, ← List.append_assoc,
        rstripChar_concat_ne hx]

theorem mem_of_contains_false {c : Char} {s : Str} (h : s.contains c = false) : c ∉ s := by
  intro hm
  have : s.contains c = true := by simpa using hm
  rw [h] at this; cases this

theorem textOK_iff {t : Str} (h : textOK t = true) :
    '\t' ∉ t ∧ ';' ∉ t ∧ '=' ∉ t ∧ t.head? ≠ some '"' ∧ t.getLast? ≠ some '"' := by
  simp only [textOK, Bool.and_eq_true, Bool.not_eq_true', bne_iff_ne, ne_eq] at h
  obtain ⟨⟨⟨⟨h1, h2⟩, h3⟩, h4⟩, h5⟩ := h
  exact ⟨mem_of_contains_false h1, mem_of_contains_false h2, mem_of_contains_false h3, h4, h5⟩

theorem keyOK_iff {k : Str} (h : keyOK k = true) :
    '\t' ∉ k ∧ ';' ∉ k ∧ '=' ∉ k ∧ upper k = k := by
  simp only [keyOK, Bool.and_eq_true, Bool.not_eq_true', beq_iff_eq] at h
  obtain ⟨⟨⟨h1, h2⟩, h3⟩, h4⟩ := h
  exact ⟨mem_of_contains_false h1, mem_of_contains_false h2, mem_of_contains_false h3, h4⟩

theorem attrOK_iff {C : Consts} {kv : Str × AttrVal} (h : attrOK C kv = true) :
    keyOK kv.1 = true ∧ attrText C kv.1 kv.2 = .ok (textOf C kv) ∧
      textOK (textOf C kv) = true := by
  unfold attrOK at h
  unfold textOf
  cases ht : attrText C kv.1 kv.2 with
  | ok t => rw [ht] at h; simp only [Bool.and_eq_true] at h; exact ⟨h.1, rfl, h.2⟩
  | error e => rw [ht] at h; simp at h

/-- the `KEY=value` cell of an attribute -/
def part (C : Consts) (kv : Str × AttrVal) : Str := kv.1 ++ '=' :: textOf C kv

theorem part_ne_nil (C : Consts) (kv : Str × AttrVal) : part C kv ≠ [] := by
  simp [part]

theorem not_mem_part {C : Consts} {kv : Str × AttrVal} (h : attrOK C kv = true) {c : Char}
    (hc : c = '\t' ∨ c = ';') : c ∉ part C kv := by
  obtain ⟨hk, _, ht⟩ := attrOK_iff h
  obtain ⟨k1, k2, _, _⟩ := keyOK_iff hk
  obtain ⟨t1, t2, _, _, _⟩ := textOK_iff ht
  simp only [part, List.mem_append, List.mem_cons]
  rcases hc with rfl | rfl
  · rintro (h | h | h)
    · exact k1 h
    · exact absurd h (by decide)
    · exact t1 h
  · rintro (h | h | h)
    · exact k2 h
    · exact absurd h (by decide)
    · exact t2 h

theorem info_eq {C : Consts} {attrs : List (Str × AttrVal)} (hne : attrs ≠ [])
    (h : ∀ kv ∈ attrs, attrOK C kv = true) :
    info C attrs = .ok (joinWith ';' (attrs.map (part C))) := by
  unfold info
  rw [mapE_ok (g := fun kv => part C kv ++ [';']) attrs]
  · have : attrs.map (fun kv => part C kv ++ [';']) = (attrs.map (part C)).map (· ++ [';']) := by
      simp [List.map_map, Function.comp_def]
    dsimp only
    rw [this, rstripChar_flatten (by simpa using hne)]
    intro p hp
    obtain ⟨kv, hkv, rfl⟩ := List.mem_map.mp hp
    exact ⟨part_ne_nil C kv, not_mem_part (h kv hkv) (Or.inr rfl)⟩
  · intro kv hkv
    obtain ⟨hk, ht, _⟩ := attrOK_iff (h kv hkv)
    obtain ⟨_, _, _, hu⟩ := keyOK_iff hk
    simp [ht, hu, part]

/-! ### reading the attributes back -/

theorem dictSet_new {β : Type} : ∀ (d : List (Str × β)) (k : Str) (v : β),
    k ∉ d.map (·.1) → dictSet d k v = d ++ [(k, v)]
  | [], _, _, _ => rfl
  | (k', v') :: r, k, v, h => by
    have hk : k' ≠ k := fun e => h (by simp [e])
    have hr : k ∉ r.map (·.1) := fun e => h (by simp [e])
    simp [dictSet, hk, dictSet_new r k v hr]

theorem parseAttrStep_eq {C : Consts} {kv : Str × AttrVal} (h : attrOK C kv = true)
    (acc : List (Str × AttrVal)) :
    parseAttrStep C acc (part C kv) = .ok (dictSet acc kv.1 (parsedVal C kv.1 kv.2)) := by
  obtain ⟨hk, ht, hto⟩ := attrOK_iff h
  obtain ⟨_, _, k3, _⟩ := keyOK_iff hk
  obtain ⟨_, _, t3, t4, t5⟩ := textOK_iff hto
  unfold parseAttrStep
  have hs : splitOn '=' (part C kv) = [kv.1, textOf C kv] := by
    unfold part
    rw [splitOn_append_sep _ k3, splitOn_of_not_mem t3]
  rw [hs]
  simp only [stripChar_eq_self t4 t5]
  by_cases hm : kv.1 ∈ C.attrsPosition
  · have hp : C.attrsPosition.contains kv.1 = true := by simpa using hm
    cases hv : kv.2 with
    | list xs => simp [attrText, hm, hv] at ht
    | str sv =>
      cases hz : parseInt sv with
      | error e => simp [attrText, hm, hv, hz] at ht
      | ok z =>
        have ht' : textOf C kv = intToStr (z + 1) := by
          simp [attrText, hm, hv, hz] at ht; exact ht.symm
        simp only [hp, if_true, ht', parseInt_intToStr, parsedVal, hz]
        simp
  · have hp : C.attrsPosition.contains kv.1 = false := by simpa using hm
    cases hv : kv.2 with
    | list xs =>
      have ht' : textOf C kv = joinWith ',' xs := by
        simp [attrText, hm, hv] at ht; exact ht.symm
      simp [hm, ht', parsedVal]
    | str sv =>
      have ht' : textOf C kv = sv := by
        simp [attrText, hm, hv] at ht; exact ht.symm
      simp [hm, ht', parsedVal]

theorem parseAttrsGo_eq {C : Consts} : ∀ (attrs acc : List (Str × AttrVal)),
    (∀ kv ∈ attrs, attrOK C kv = true) → ((acc ++ attrs).map (·.1)).Nodup →
    parseAttrsGo C acc (attrs.map (part C)) = .ok (acc ++ normAttrs C attrs)
  | [], acc, _, _ => by simp [parseAttrsGo, normAttrs]
  | kv :: rest, acc, h, hnd => by
    have hk : kv.1 ∉ acc.map (·.1) := by
      intro hm
      simp only [List.map_append, List.map_cons] at hnd
      have := (List.nodup_append.mp hnd).2.2 _ hm kv.1 (by simp)
      exact this rfl
    simp only [List.map_cons, parseAttrsGo, parseAttrStep_eq (h kv (by simp)), dictSet_new _ _ _ hk]
    rw [parseAttrsGo_eq rest _ (fun x hx => h x (by simp [hx])) (by simpa using hnd)]
    simp [normAttrs]

theorem parseAttrs_eq {C : Consts} {attrs : List (Str × AttrVal)} (hne : attrs ≠ [])
    (h : ∀ kv ∈ attrs, attrOK C kv = true) (hnd : (attrs.map (·.1)).Nodup) :
    parseAttrs C (joinWith ';' (attrs.map (part C))) = .ok (normAttrs C attrs) := by
  unfold parseAttrs
  rw [splitOn_joinWith ';' _ (by simpa using hne)]
  · simpa using parseAttrsGo_eq attrs [] h (by simpa using hnd)
  · intro p hp
    obtain ⟨kv, hkv, rfl⟩ := List.mem_map.mp hp
    exact not_mem_part (h kv hkv) (Or.inr rfl)

/-! ## the whole line -/

theorem rstrip_joinWith_last (c : Char) (init : List Str) {last : Str}
    (h1 : rstrip last = last) (h2 : last ≠ []) :
    rstrip (joinWith c (init ++ [last])) = joinWith c (init ++ [last]) := by
  by_cases hi : init = []
  · subst hi; simpa [joinWith] using h1
  · rw [joinWith_concat c init last hi]
    have : joinWith c init ++ c :: last = (joinWith c init ++ [c]) ++ last := by simp
    rw [this, rstrip_append_of_ne_nil (by rw [h1]; exact h2), h1]

theorem rstrip_eq_cons {t : Str} (h : noTrailSpace t = true) : rstrip ('=' :: t) = '=' :: t := by
  have ht := rstrip_eq_self h
  by_cases hn : t = []
  · subst hn; rw [rstrip_cons_nil rfl]; decide
  · rw [rstrip_cons_ne (by rw [ht]; exact hn), ht]

theorem getLast?_eq_some {α : Type} {l : List α} {a : α} (h : l.getLast? = some a) :
    ∃ init, l = init ++ [a] := by
  rcases nil_or_snoc l with rfl | ⟨t, x, rfl⟩
  · simp at h
  · simp at h; subst h; exact ⟨t, rfl⟩

theorem rstrip_info {C : Consts} {attrs : List (Str × AttrVal)} (hl : lastOK C attrs = true) :
    rstrip (joinWith ';' (attrs.map (part C))) = joinWith ';' (attrs.map (part C)) ∧
      joinWith ';' (attrs.map (part C)) ≠ [] := by
  unfold lastOK at hl
  cases hg : attrs.getLast? with
  | none => rw [hg] at hl; cases hl
  | some kv =>
    rw [hg] at hl
    obtain ⟨init, rfl⟩ := getLast?_eq_some hg
    have hp : rstrip (part C kv) = part C kv := by
      unfold part
      rw [rstrip_append_of_ne_nil (by rw [rstrip_eq_cons hl]; simp), rstrip_eq_cons hl]
    simp only [List.map_append, List.map_cons, List.map_nil]
    refine ⟨rstrip_joinWith_last ';' _ hp (part_ne_nil C kv), ?_⟩
    by_cases hi : init.map (part C) = []
    · rw [hi]; simpa [joinWith] using part_ne_nil C kv
    · rw [joinWith_concat _ _ _ hi]; simp

theorem dictGet_normAttrs (C : Consts) (k : Str) : ∀ attrs : List (Str × AttrVal),
    dictGet (normAttrs C attrs) k = (dictGet attrs k).map (parsedVal C k)
  | [] => rfl
  | (k', v') :: r => by
    have ih := dictGet_normAttrs C k r
    unfold normAttrs at ih ⊢
    by_cases hk : k' = k
    · subst hk; simp [dictGet]
    · simp [dictGet, hk, ih]

theorem attrEnd_normAttrs {C : Consts} {attrs : List (Str × AttrVal)} {e : Int}
    (h : attrEnd attrs = .ok e) : attrEnd (normAttrs C attrs) = .ok e := by
  unfold attrEnd at h ⊢
  rw [dictGet_normAttrs]
  cases hg : dictGet attrs kEND with
  | none => rw [hg] at h; cases h
  | some v =>
    rw [hg] at h
    cases v with
    | list xs => cases h
    | str sv =>
      simp only [Option.map_some] at h ⊢
      unfold parsedVal
      by_cases hp : C.attrsPosition.contains kEND = true
      · simp only [hp, if_true, h]
        simp [parseInt_intToStr]
      · simp only [hp]; simpa using h

theorem attrText_parsedVal {C : Consts} {k : Str} {v : AttrVal} {t : Str}
    (h : attrText C k v = .ok t) : attrText C k (parsedVal C k v) = .ok t := by
  by_cases hm : k ∈ C.attrsPosition
  · cases v with
    | list xs => simp [attrText, hm] at h
    | str sv =>
      cases hz : parseInt sv with
      | error e => simp [attrText, hm, hz] at h
      | ok z =>
        simp [attrText, hm, hz] at h
        simp [attrText, parsedVal, hm, hz, parseInt_intToStr, h]
  · cases v with
    | list xs => simp [attrText, hm] at h; simp [attrText, parsedVal, hm, h]
    | str sv => simp [attrText, hm] at h; simp [attrText, parsedVal, hm, h]

theorem norm_attr {C : Consts} {kv : Str × AttrVal} (h : attrOK C kv = true) :
    attrOK C (kv.1, parsedVal C kv.1 kv.2) = true ∧
      part C (kv.1, parsedVal C kv.1 kv.2) = part C kv := by
  obtain ⟨hk, ht, hto⟩ := attrOK_iff h
  have h2 := attrText_parsedVal ht
  constructor
  · simp only [attrOK, hk, h2, hto, Bool.and_self]
  · have e1 : textOf C (kv.1, parsedVal C kv.1 kv.2) = textOf C kv := by
      show (match attrText C kv.1 (parsedVal C kv.1 kv.2) with
        | .ok t => t
        | .error _ => []) = _
      rw [h2]
    simp only [part, e1]

theorem info_normAttrs {C : Consts} {attrs : List (Str × AttrVal)} (hne : attrs ≠ [])
    (h : ∀ kv ∈ attrs, attrOK C kv = true) : info C (normAttrs C attrs) = info C attrs := by
  rw [info_eq hne h, info_eq (by simpa [normAttrs] using hne)]
  · congr 2
    simp only [normAttrs, List.map_map]
    apply List.map_congr_left
    intro kv hkv
    exact (norm_attr (h kv hkv)).2
  · intro kv hkv
    simp only [normAttrs, List.mem_map] at hkv
    obtain ⟨kv', hkv', rfl⟩ := hkv
    exact (norm_attr (h kv' hkv')).1

/-! ## files, pointers -/

theorem isLine_iff {l : Str} (h : isLine l = true) : ∃ b, l = b ++ ['\n'] ∧ '\n' ∉ b := by
  simp only [isLine, Bool.and_eq_true, beq_iff_eq, Bool.not_eq_true'] at h
  obtain ⟨h1, h2⟩ := h
  obtain ⟨b, rfl⟩ := getLast?_eq_some h1
  exact ⟨b, rfl, by simpa using mem_of_contains_false h2⟩

theorem splitLinesKeep_nl (cs : Str) : splitLinesKeep ('\n' :: cs) = ['\n'] :: splitLinesKeep cs := by
  rw [splitLinesKeep]; simp

theorem splitLinesKeep_ne {c : Char} (h : c ≠ '\n') {cs hd : Str} {tl : List Str}
    (hs : splitLinesKeep cs = hd :: tl) : splitLinesKeep (c :: cs) = (c :: hd) :: tl := by
  rw [splitLinesKeep]; simp [h, hs]

theorem splitLinesKeep_line {b : Str} (rest : Str) (h : '\n' ∉ b) :
    splitLinesKeep (b ++ '\n' :: rest) = (b ++ ['\n']) :: splitLinesKeep rest := by
  induction b with
  | nil => exact splitLinesKeep_nl rest
  | cons x xs ih =>
    have hx : x ≠ '\n' := fun e => h (by simp [e])
    have hxs : '\n' ∉ xs := fun e => h (by simp [e])
    show splitLinesKeep (x :: (xs ++ '\n' :: rest)) = _
    rw [splitLinesKeep_ne hx (ih hxs)]; rfl

theorem splitLinesKeep_flatten : ∀ ls : List Str, (∀ l ∈ ls, isLine l = true) →
    splitLinesKeep ls.flatten = ls
  | [], _ => rfl
  | l :: ls, h => by
    obtain ⟨b, rfl, hb⟩ := isLine_iff (h l (by simp))
    have ih := splitLinesKeep_flatten ls (fun x hx => h x (by simp [hx]))
    simp only [List.flatten_cons, List.append_assoc, List.singleton_append]
    rw [splitLinesKeep_line _ hb, ih]

theorem iterPtrGo_header (keyOf : Str → Except Err Str) (body : List Str) :
    ∀ (hdr : List Str) (n : Nat) (cur : Option Ptr), (∀ l ∈ hdr, isComment l = true) →
      iterPtrGo keyOf (hdr ++ body) n cur = iterPtrGo keyOf body (n + hdr.flatten.length) cur
  | [], n, cur, _ => by simp
  | l :: hdr, n, cur, h => by
    have ih := iterPtrGo_header keyOf body hdr (n + l.length) cur (fun x hx => h x (by simp [hx]))
    simp only [List.cons_append, iterPtrGo, h l (by simp), if_true, ih, List.flatten_cons,
      List.length_append, Nat.add_assoc]

theorem slice_mid (pre mid post : Str) (k : Str) :
    slice (pre ++ mid ++ post) ⟨k, pre.length, (pre ++ mid).length⟩ = mid := by
  simp [slice, List.append_assoc]

theorem goodLine_iff {keyOf : Str → Except Err Str} {l : Str} (h : goodLine keyOf l = true) :
    isLine l = true ∧ isComment l = false ∧ rstrip l ≠ [] ∧ ∃ k, keyOf l = .ok k := by
  simp only [goodLine, Bool.and_eq_true, Bool.not_eq_true', bne_iff_ne, ne_eq] at h
  obtain ⟨⟨⟨h1, h2⟩, h3⟩, h4⟩ := h
  refine ⟨h1, h2, h3, ?_⟩
  cases hk : keyOf l with
  | ok k => exact ⟨k, rfl⟩
  | error e => rw [hk] at h4; cases h4

/-- what `GVFPointer.__iter__` hands to the parser for the bytes of a run of lines is, up to
the `rstrip()` every parser applies first, the lines of the run -/
theorem load_run : ∀ run : List Str, run ≠ [] →
    (∀ l ∈ run, isLine l = true ∧ rstrip l ≠ []) →
    (splitOn '\n' (rstrip run.flatten)).map rstrip = run.map rstrip
  | [], h, _ => absurd rfl h
  | [l], _, h => by
    obtain ⟨hl, hne⟩ := h l (by simp)
    obtain ⟨b, rfl, hb⟩ := isLine_iff hl
    have hr : rstrip (b ++ ['\n']) = rstrip b := rstrip_newline b
    simp only [List.flatten_cons, List.flatten_nil, List.append_nil, List.map_cons, List.map_nil]
    rw [hr]
    have hnb : '\n' ∉ rstrip b := by
      intro hm
      have : noTrailSpace (rstrip b) = true := noTrailSpace_rstrip b
      -- a member of `rstrip b` is a member of `b`
      have hsub : ∀ (s : Str) (c : Char), c ∈ rstrip s → c ∈ s := by
        intro s
        induction s with
        | nil => intro c hc; simp [rstrip] at hc
        | cons x xs ih =>
          intro c hc
          by_cases hx : rstrip xs = []
          · rw [rstrip_cons_nil hx] at hc
            by_cases hs : isPySpace x = true <;> simp [hs] at hc
            simp [hc]
          · rw [rstrip_cons_ne hx] at hc
            simp only [List.mem_cons] at hc ⊢
            rcases hc with h | h
            · exact Or.inl h
            · exact Or.inr (ih c h)
      exact hb (hsub b _ hm)
    rw [splitOn_of_not_mem hnb]
    simp [rstrip_idem]
  | l :: m :: rest, _, h => by
    obtain ⟨hl, _⟩ := h l (by simp)
    obtain ⟨b, rfl, hb⟩ := isLine_iff hl
    have ih := load_run (m :: rest) (by simp) (fun x hx => h x (by simp [hx]))
    have hne : rstrip (m :: rest).flatten ≠ [] := by
      intro e
      rw [e] at ih
      simp [splitOn] at ih
      obtain ⟨hm, _⟩ := ih
      exact (h m (by simp)).2 (by simpa [rstrip] using hm.symm)
    have : ((b ++ ['\n']) :: m :: rest).flatten = (b ++ ['\n']) ++ (m :: rest).flatten := by simp
    rw [this, rstrip_append_of_ne_nil hne, List.append_assoc]
    simp only [List.singleton_append]
    rw [splitOn_append_sep _ hb]
    simp only [List.map_cons, ih, rstrip_newline]

theorem keyIs_of_ok {keyOf : Str → Except Err Str} {l k k' : Str} (h : keyOf l = .ok k') :
    keyIs keyOf k l = decide (k' = k) := by
  simp [keyIs, h]

/-- the pointer loop, started inside a run: every later pointer slices exactly its run -/
theorem iterPtrGo_spec {β : Type} (keyOf : Str → Except Err Str) (f : Str → List β) (g : Str → β)
    (hf : ∀ run : List Str, run ≠ [] → (∀ l ∈ run, goodLine keyOf l = true) →
      f run.flatten = run.map g) :
    ∀ (ls : List Str) (pre : Str) (run : List Str) (key : Str),
      (∀ l ∈ ls, goodLine keyOf l = true) →
      (∀ l ∈ run, goodLine keyOf l = true ∧ keyOf l = .ok key) → run ≠ [] →
      ∃ ptrs, iterPtrGo keyOf ls (pre ++ run.flatten).length
          (some ⟨key, pre.length, (pre ++ run.flatten).length⟩) = .ok ptrs ∧
        ∀ k, (ptrs.filter (·.key = k)).flatMap
            (fun p => f (slice (pre ++ run.flatten ++ ls.flatten) p)) =
          ((if key = k then run else []) ++ ls.filter (keyIs keyOf k)).map g
  | [], pre, run, key, _, hrun, hne => by
    refine ⟨[⟨key, pre.length, (pre ++ run.flatten).length⟩], rfl, ?_⟩
    intro k
    by_cases hk : key = k
    · simp only [hk, decide_true, List.filter_cons_of_pos, List.filter_nil, List.flatMap_cons,
        List.flatMap_nil, List.append_nil, List.flatten_nil, if_true, slice_mid]
      have := slice_mid pre run.flatten [] k
      simp only [List.append_nil] at this
      rw [this, hf run hne (fun l hl => (hrun l hl).1)]
    · simp [hk]
  | l :: ls, pre, run, key, hls, hrun, hne => by
    obtain ⟨_, hc, _, k', hk'⟩ := goodLine_iff (hls l (by simp))
    have hls' : ∀ x ∈ ls, goodLine keyOf x = true := fun x hx => hls x (by simp [hx])
    by_cases hkk : key = k'
    · -- the run continues
      subst hkk
      have hrun' : ∀ x ∈ run ++ [l], goodLine keyOf x = true ∧ keyOf x = .ok key := by
        intro x hx
        simp only [List.mem_append, List.mem_singleton] at hx
        rcases hx with hx | rfl
        · exact hrun x hx
        · exact ⟨hls x (by simp), hk'⟩
      obtain ⟨ptrs, hp, hq⟩ := iterPtrGo_spec keyOf f g hf ls pre (run ++ [l]) key hls' hrun'
        (by simp)
      refine ⟨ptrs, ?_, ?_⟩
      · simp only [iterPtrGo, hc, Bool.false_eq_true, if_false, hk', if_true]
        have e : (pre ++ run.flatten).length + l.length = (pre ++ (run ++ [l]).flatten).length := by
          simp [Nat.add_assoc]
        rw [e]; exact hp
      · intro k
        have := hq k
        simp only [List.flatten_append, List.flatten_cons, List.flatten_nil, List.append_nil,
          List.append_assoc] at this ⊢
        rw [this]
        simp only [List.filter_cons, keyIs_of_ok hk']
        by_cases hk : key = k <;> simp [hk]
    · -- a new run starts: the old pointer is emitted
      have hrun' : ∀ x ∈ [l], goodLine keyOf x = true ∧ keyOf x = .ok k' := by
        intro x hx
        simp only [List.mem_singleton] at hx
        subst hx
        exact ⟨hls x (by simp), hk'⟩
      obtain ⟨ptrs, hp, hq⟩ := iterPtrGo_spec keyOf f g hf ls (pre ++ run.flatten) [l] k' hls'
        hrun' (by simp)
      refine ⟨⟨key, pre.length, (pre ++ run.flatten).length⟩ :: ptrs, ?_, ?_⟩
      · simp only [iterPtrGo, hc, Bool.false_eq_true, if_false, hk', hkk]
        have e : (pre ++ run.flatten).length + l.length =
            (pre ++ run.flatten ++ [l].flatten).length := by simp [Nat.add_assoc]
        rw [e, hp]
      · intro k
        have h2 := hq k
        simp only [List.flatten_cons, List.flatten_nil, List.append_nil, List.append_assoc]
          at h2 ⊢
        have hsl : slice (pre ++ (run.flatten ++ (l ++ ls.flatten)))
            ⟨key, pre.length, (pre ++ run.flatten).length⟩ = run.flatten := by
          have := slice_mid pre run.flatten (l ++ ls.flatten) key
          simpa [List.append_assoc] using this
        simp only [List.filter_cons, keyIs_of_ok hk']
        by_cases hk : key = k
        · have hk2 : ¬ k' = k := fun e => hkk (hk.trans e.symm)
          simp only [hk, decide_true, if_true, List.flatMap_cons, hk2, decide_false,
            Bool.false_eq_true, if_false] at h2 ⊢
          rw [h2, ← hk, hsl, hf run hne (fun x hx => (hrun x hx).1)]
          simp
        · simp only [hk, decide_false, Bool.false_eq_true, if_false, List.nil_append] at h2 ⊢
          rw [h2]
          by_cases hk2 : k' = k <;> simp [hk2]

theorem wf_iff {keyOf : Str → Except Err Str} {f : GvfFile} (h : f.wf keyOf = true) :
    (∀ l ∈ f.header, isLine l = true ∧ isComment l = true) ∧
      (∀ l ∈ f.body, goodLine keyOf l = true) := by
  simp only [GvfFile.wf, Bool.and_eq_true, List.all_eq_true] at h
  exact h

/-- per file: the generated pointers exist, and the lines they reach for a transcript are the
body lines with that transcript id, in file order (up to the parsers' own `rstrip()`) -/
theorem file_pointers {keyOf : Str → Except Err Str} (f : GvfFile) (hwf : f.wf keyOf = true) :
    ∃ ptrs, iteratePointer keyOf f.content = .ok ptrs ∧
      (∀ k, ((ptrs.filter (·.key = k)).flatMap (loadLines f.content)).map rstrip =
        (f.body.filter (keyIs keyOf k)).map rstrip) ∧
      (∀ k, (scanLines f.content).filter (keyIs keyOf k) = f.body.filter (keyIs keyOf k)) := by
  obtain ⟨hh, hb⟩ := wf_iff hwf
  have hlines : splitLinesKeep f.content = f.header ++ f.body := by
    apply splitLinesKeep_flatten
    intro l hl
    rcases List.mem_append.mp hl with h | h
    · exact (hh l h).1
    · exact (goodLine_iff (hb l h)).1
  have hscan : scanLines f.content = f.body := by
    unfold scanLines
    rw [hlines, List.filter_append]
    have h1 : f.header.filter (fun l => !isComment l) = [] := by
      rw [List.filter_eq_nil_iff]; intro l hl; simp [(hh l hl).2]
    have h2 : f.body.filter (fun l => !isComment l) = f.body := by
      rw [List.filter_eq_self]; intro l hl; simp [(goodLine_iff (hb l hl)).2.1]
    rw [h1, h2]; rfl
  have hf : ∀ run : List Str, run ≠ [] → (∀ l ∈ run, goodLine keyOf l = true) →
      (fun s => (splitOn '\n' (rstrip s)).map rstrip) run.flatten = run.map rstrip := by
    intro run hne hg
    exact load_run run hne (fun l hl => ⟨(goodLine_iff (hg l hl)).1, (goodLine_iff (hg l hl)).2.2.1⟩)
  unfold iteratePointer
  rw [hlines, iterPtrGo_header keyOf f.body f.header 0 none (fun l hl => (hh l hl).2)]
  cases hbody : f.body with
  | nil =>
    refine ⟨[], rfl, ?_, ?_⟩
    · intro k; simp
    · intro k; rw [hscan, hbody]
  | cons l ls =>
    rw [hbody] at hb
    obtain ⟨_, hc, _, k', hk'⟩ := goodLine_iff (hb l (by simp))
    obtain ⟨ptrs, hp, hq⟩ := iterPtrGo_spec keyOf
      (fun s => (splitOn '\n' (rstrip s)).map rstrip) rstrip hf ls f.header.flatten [l] k'
      (fun x hx => hb x (by simp [hx]))
      (fun x hx => by
        simp only [List.mem_singleton] at hx; subst hx; exact ⟨hb x (by simp), hk'⟩) (by simp)
    refine ⟨ptrs, ?_, ?_, ?_⟩
    · simp only [iterPtrGo, hc, Bool.false_eq_true, if_false, hk', Nat.zero_add]
      have e : f.header.flatten.length + l.length = (f.header.flatten ++ [l].flatten).length := by
        simp
      rw [e]; exact hp
    · intro k
      have hcontent : f.content = f.header.flatten ++ [l].flatten ++ ls.flatten := by
        simp [GvfFile.content, hbody]
      have := hq k
      rw [← hcontent] at this
      rw [List.map_flatMap]
      simp only [loadLines]
      rw [this]
      simp only [List.filter_cons, keyIs_of_ok hk']
      by_cases hk : k' = k <;> simp [hk]
    · intro k; rw [hscan, hbody]

theorem mapE_append {α β : Type} (f : α → Except Err β) : ∀ (a b : List α),
    mapE f (a ++ b) = match mapE f a with
      | .error e => .error e
      | .ok ya => match mapE f b with
        | .error e => .error e
        | .ok yb => .ok (ya ++ yb)
  | [], b => by
    simp only [List.nil_append, mapE]
    cases mapE f b <;> rfl
  | x :: a, b => by
    simp only [List.cons_append, mapE]
    cases hx : f x with
    | error e => rfl
    | ok y =>
      rw [mapE_append f a b]
      cases mapE f a with
      | error e => rfl
      | ok ya =>
        cases mapE f b with
        | error e => rfl
        | ok yb => rfl

theorem flatMapE_mapE {α β γ : Type} (f : β → Except Err γ) (h : α → List β) : ∀ ps : List α,
    flatMapE (fun p => mapE f (h p)) ps = mapE f (ps.flatMap h)
  | [] => rfl
  | p :: ps => by
    simp only [flatMapE, List.flatMap_cons, mapE_append, flatMapE_mapE f h ps]
    cases mapE f (h p) with
    | error e => rfl
    | ok ya => cases mapE f (List.flatMap h ps) <;> rfl

theorem mapE_rstrip {β : Type} {parse : Str → Except Err β}
    (hp : ∀ l, parse (rstrip l) = parse l) : ∀ ls : List Str,
    mapE parse (ls.map rstrip) = mapE parse ls
  | [] => rfl
  | l :: ls => by simp only [List.map_cons, mapE, hp l, mapE_rstrip hp ls]

/-! ## circRNA -/

theorem mapE_parseInt : ∀ l : List Int, mapE parseInt (l.map intToStr) = .ok l
  | [] => rfl
  | z :: l => by simp [mapE, parseInt_intToStr, mapE_parseInt l]

theorem not_mem_ints {c : Char} (h1 : isDigit c = false) (h2 : c ≠ '-') (h3 : c ≠ ',')
    (l : List Int) : c ∉ joinWith ',' (l.map intToStr) := by
  intro hm
  rcases mem_joinWith hm with e | ⟨x, hx, hc⟩
  · exact h3 e
  · obtain ⟨z, _, rfl⟩ := List.mem_map.mp hx
    exact not_mem_intToStr h1 h2 z hc

theorem ints_roundtrip {l : List Int} (h : l ≠ []) :
    mapE parseInt (splitOn ',' (joinWith ',' (l.map intToStr))) = .ok l := by
  rw [splitOn_joinWith ',' _ (by simpa using h), mapE_parseInt]
  intro x hx
  obtain ⟨z, _, rfl⟩ := List.mem_map.mp hx
  exact not_mem_intToStr (by decide) (by decide) z

theorem joinWith_ints_ne_nil {l : List Int} (h : l ≠ []) : joinWith ',' (l.map intToStr) ≠ [] := by
  cases l with
  | nil => exact absurd rfl h
  | cons z r =>
    cases r with
    | nil => simpa [joinWith] using intToStr_ne_nil z
    | cons y r' =>
      simp only [List.map_cons, joinWith]
      intro e
      have := congrArg List.length e
      simp at this

theorem circFragments_eq (s0 : Int) : ∀ fs : List (Int × Int), (∀ f ∈ fs, f.1 ≤ f.2) →
    circFragments s0 (fs.map fun f => f.1 - s0) (fs.map fun f => f.2 - f.1) = .ok fs
  | [], _ => rfl
  | f :: fs, h => by
    have h1 : ¬ (f.2 - f.1 < 0) := by have := h f (by simp); omega
    simp only [List.map_cons, circFragments, h1, if_false,
      circFragments_eq s0 fs (fun x hx => h x (by simp [hx]))]
    congr 2
    ext <;> simp <;> omega

theorem cellOK_iff {t : Str} (h : cellOK t = true) : '\t' ∉ t ∧ ';' ∉ t ∧ '=' ∉ t := by
  simp only [cellOK, Bool.and_eq_true, Bool.not_eq_true'] at h
  exact ⟨mem_of_contains_false h.1.1, mem_of_contains_false h.1.2, mem_of_contains_false h.2⟩

theorem circStep_ints {K v : Str} {l : List Int} (acc : List (Str × CircVal))
    (hK : K = kOFFSET ∨ K = kLENGTH) (hv : '=' ∉ v)
    (hl : mapE parseInt (splitOn ',' v) = .ok l) :
    circAttrStep acc (K ++ '=' :: v) = .ok (dictSet acc K (.ints l)) := by
  have hk : '=' ∉ K := by rcases hK with rfl | rfl <;> decide
  unfold circAttrStep
  rw [splitOn_append_sep _ hk, splitOn_of_not_mem hv]
  have : (K = kOFFSET || K = kLENGTH) = true := by rcases hK with rfl | rfl <;> decide
  simp only [this, if_true, hl]

theorem circStep_intron {v : Str} {l : List Int} (acc : List (Str × CircVal)) (hv : '=' ∉ v)
    (hl : (v = [] ∧ l = []) ∨ (v ≠ [] ∧ mapE parseInt (splitOn ',' v) = .ok l)) :
    circAttrStep acc (kINTRON ++ '=' :: v) = .ok (dictSet acc kINTRON (.ints l)) := by
  unfold circAttrStep
  rw [splitOn_append_sep _ (by decide), splitOn_of_not_mem hv]
  have e1 : (kINTRON = kOFFSET || kINTRON = kLENGTH) = false := by decide
  simp only [e1, Bool.false_eq_true, if_false, if_true]
  rcases hl with ⟨rfl, rfl⟩ | ⟨h1, h2⟩
  · simp
  · simp only [h1, if_false, h2]

theorem circStep_str {K v : Str} (acc : List (Str × CircVal)) (hK : '=' ∉ K) (hv : '=' ∉ v)
    (h1 : K ≠ kOFFSET) (h2 : K ≠ kLENGTH) (h3 : K ≠ kINTRON) :
    circAttrStep acc (K ++ '=' :: v) = .ok (dictSet acc K (.s v)) := by
  unfold circAttrStep
  rw [splitOn_append_sep _ hK, splitOn_of_not_mem hv]
  simp [h1, h2, h3]

end MoPepGen.Gvf
