import MoPepGen.Lemmas.SortInfos
/-! Helper lemmas for C18 `summary_eq_split`: what the two commands share under the same
options, and where they differ (label → source look-up, wildcard map). -/
namespace MoPepGen

/-! ### label → source: first-wins = last-wins when no label is shared between sources -/

theorem noSharedLabel_spec (gvfs : List Gvf) (h : noSharedLabel gvfs = true) (g1 g2 : Gvf)
    (h1 : g1 ∈ gvfs) (h2 : g2 ∈ gvfs) (l : Field × Field) (l1 : l ∈ g1.labels) (l2 : l ∈ g2.labels) :
    g1.source = g2.source := by
  unfold noSharedLabel at h
  have := List.all_eq_true.mp (List.all_eq_true.mp h g1 h1) g2 h2
  simp only [Bool.or_eq_true, beq_iff_eq, List.all_eq_true, Bool.not_eq_true'] at this
  rcases this with e | e
  · exact e
  · have := e l l1
    have hc : g2.labels.contains l = true := by simpa using l2
    rw [hc] at this; cases this

theorem sourceFirst_eq_sourceLast (gvfs : List Gvf) (h : noSharedLabel gvfs = true) :
    sourceFirst gvfs = sourceLast gvfs := by
  funext gene label
  unfold sourceLast sourceFirst
  cases h1 : gvfs.find? (fun g => g.labels.contains (gene, label)) with
  | none =>
    have hn := List.find?_eq_none.mp h1
    have : gvfs.reverse.find? (fun g => g.labels.contains (gene, label)) = none := by
      apply List.find?_eq_none.mpr
      intro g hg
      exact hn g (List.mem_reverse.mp hg)
    rw [this]
  | some g1 =>
    cases h2 : gvfs.reverse.find? (fun g => g.labels.contains (gene, label)) with
    | none =>
      have hn := List.find?_eq_none.mp h2
      have m1 := List.mem_of_find?_eq_some h1
      have := hn g1 (List.mem_reverse.mpr m1)
      have p1 := List.find?_some h1
      exact absurd p1 this
    | some g2 =>
      have m1 := List.mem_of_find?_eq_some h1
      have m2 := List.mem_reverse.mp (List.mem_of_find?_eq_some h2)
      have p1 : (gene, label) ∈ g1.labels := by simpa using List.find?_some h1
      have p2 : (gene, label) ∈ g2.labels := by simpa using List.find?_some h2
      simp only [noSharedLabel_spec gvfs h g1 g2 m1 m2 (gene, label) p1 p2]

/-! ### the two commands build the same order -/

theorem foldl_fst {α β γ} (step : α × β → γ → α × β) (F : α → γ → α)
    (h : ∀ acc x, (step acc x).1 = F acc.1 x) :
    ∀ (l : List γ) (acc : α × β), (l.foldl step acc).1 = l.foldl F acc.1 := by
  intro l
  induction l with
  | nil => intro acc; rfl
  | cons x xs ih => intro acc; simp only [List.foldl_cons]; rw [ih, h]

theorem appendOrder_has (g : GroupMap) (o : Order) (s : Src) (h : o.has (.one s) = true) :
    (appendOrder g o s).1 = o := by
  unfold appendOrder; simp [h]

/-- the order component of `append_order_internal_sources` does not depend on `self.sources` -/
theorem appendInternal_fst (g : GroupMap) (o : Order) (s s' : SrcSet) :
    (appendInternal g o s).1 = (appendInternal g o s').1 := by
  unfold appendInternal
  let F : Order → Src → Order := fun o source =>
    let x := g.app source
    if o.has (.one x) then o else (appendOrder g o x).1
  rw [foldl_fst _ F, foldl_fst _ F]
  · intro acc x
    simp only [F]
    split <;> rfl
  · intro acc x
    simp only [F]
    split <;> rfl

theorem splitterOrder_eq (g : GroupMap) (o0 : Order) (gvfs : List Gvf) :
    (splitterOrder g o0 gvfs).1 = summarizerOrder g o0 gvfs := by
  unfold splitterOrder summarizerOrder
  rw [appendInternal_fst g _ _ []]
  congr 2
  rw [foldl_fst _ (fun acc (f : Gvf) => (appendOrder g acc f.source).1)]
  intro acc f
  by_cases h : acc.1.has (.one f.source) = true
  · simp only [h, if_true]; exact (appendOrder_has g acc.1 f.source h).symm
  · simp only [h]; rfl

/-! ### without wildcard keys the wildcard map is the identity on sets -/

theorem nodupS_iff (l : List Src) : nodupS l = true ↔ l.Nodup := by
  induction l with
  | nil => simp [nodupS]
  | cons x xs ih => simp [nodupS, ih]

/-- every entry of the map sends a set to itself and is duplicate free -/
def wmIdent (m : List (SrcSet × SrcSet)) : Prop := ∀ e ∈ m, e.1 = e.2 ∧ e.2.Nodup

theorem wildcardMap_noWild (o : Order) (srcs : SrcSet) (h1 : o.noWildKeys = true)
    (h2 : o.keysAreSets = true) : ∃ wm, wildcardMap o srcs = some wm ∧ wmIdent wm := by
  unfold wildcardMap
  have hperm := isort_perm (fun (a b : OKey × Nat) => decide (a.2 ≤ b.2)) o
  generalize isort (fun (a b : OKey × Nat) => decide (a.2 ≤ b.2)) o = l at hperm
  have hl : ∀ kv ∈ l, (match kv.1 with | .one x => !isWild x | .many s => !s.any isWild) = true ∧
      (match kv.1 with | .one _ => true | .many s => nodupS s) = true := by
    intro kv hkv
    have hm := hperm.subset hkv
    unfold Order.noWildKeys at h1
    unfold Order.keysAreSets at h2
    exact ⟨List.all_eq_true.mp h1 kv hm, List.all_eq_true.mp h2 kv hm⟩
  clear hperm h1 h2
  have key : ∀ (l : List (OKey × Nat)) (m0 : List (SrcSet × SrcSet)),
      (∀ kv ∈ l, (match kv.1 with | .one x => !isWild x | .many s => !s.any isWild) = true ∧
        (match kv.1 with | .one _ => true | .many s => nodupS s) = true) → wmIdent m0 →
      ∃ wm, l.foldlM (fun (m : List (SrcSet × SrcSet)) kv =>
        let sources : SrcSet := match kv.1 with | .one x => [x] | .many s => s
        if !(sources.any isWild) then
          some (if m.any (fun e => sameSet e.1 sources) then m else m ++ [(sources, sources)])
        else if sources.contains "+" && sources.contains "*" then none
        else
          let indiv := srcs.filter (fun x => !sources.contains x)
          let start := if sources.contains "*" then 0 else 1
          let base := sources.filter (fun x => !isWild x)
          let exps := ((List.range indiv.length).filter (start ≤ ·)).flatMap fun i =>
            (combos i indiv).map fun extra => ofList (base ++ extra)
          some (exps.foldl (fun m e =>
            if m.any (fun x => sameSet x.1 e) then m else m ++ [(e, sources)]) m)) m0 = some wm ∧
        wmIdent wm := by
    intro l
    induction l with
    | nil => intro m0 _ hm; exact ⟨m0, rfl, hm⟩
    | cons kv rest ih =>
      intro m0 hl hm
      obtain ⟨hw, hs⟩ := hl kv List.mem_cons_self
      have hrest := fun kv' hkv' => hl kv' (List.mem_cons_of_mem _ hkv')
      rw [List.foldlM_cons]
      have hnw : (!(match kv.1 with | .one x => [x] | .many s => s).any isWild) = true := by
        cases hk : kv.1 with
        | one x => rw [hk] at hw; simpa using hw
        | many s => rw [hk] at hw; simpa using hw
      have hnd : (match kv.1 with | .one x => [x] | .many s => s).Nodup := by
        cases hk : kv.1 with
        | one x => simp
        | many s => rw [hk] at hs; exact (nodupS_iff s).mp hs
      simp only [hnw, if_true]
      simp only [bind, Option.bind]
      apply ih _ hrest
      generalize (match kv.1 with | .one x => [x] | .many s => s : SrcSet) = src at hnd
      by_cases hany : (m0.any fun e => sameSet e.1 src) = true
      · simp only [hany, if_true]; exact hm
      · simp only [hany]
        intro e he
        rcases List.mem_append.mp he with he | he
        · exact hm e he
        · simp only [List.mem_singleton] at he
          subst he
          exact ⟨rfl, hnd⟩
  exact key l [] hl (by intro e he; cases he)

theorem applyWildcard_ident (wm : List (SrcSet × SrcSet)) (hwm : wmIdent wm) (s : SrcSet) :
    sameSet (applyWildcard wm s) s = true := by
  unfold applyWildcard
  cases hf : wm.find? (fun kv => sameSet kv.1 s) with
  | none => exact sameSet_refl s
  | some kv =>
    have h1 := (hwm kv (List.mem_of_find?_eq_some hf)).1
    have h2 : sameSet kv.1 s = true := by simpa using List.find?_some hf
    simp only [← h1]; exact h2

theorem wildNodup_of_ident (wm : List (SrcSet × SrcSet)) (hwm : wmIdent wm) : wildNodup wm :=
  fun kv hkv => (hwm kv hkv).2

/-! ### `from_variant_peptide` with and without a wildcard map -/

/-- `env` with another wildcard map -/
def SrcEnv.withWild (env : SrcEnv) (w : List (SrcSet × SrcSet)) : SrcEnv :=
  { env with wildcard := w }

theorem addSource_wild (env : SrcEnv) (w : List (SrcSet × SrcSet)) (s : SrcSet) (x : Src) :
    addSource (env.withWild w) s x = addSource env s x := rfl

theorem addLabels_wild (env : SrcEnv) (w : List (SrcSet × SrcSet)) (gene : Option Field) :
    ∀ (vs : List Field) (s : SrcSet),
      addLabels (env.withWild w) gene s vs = addLabels env gene s vs := by
  intro vs
  induction vs with
  | nil => intro s; rfl
  | cons v vs ih =>
    intro s
    simp only [addLabels, addSource_wild, ih]
    rfl

theorem addGenes_wild (env : SrcEnv) (w : List (SrcSet × SrcSet)) :
    ∀ (l : List (Option Field × List Field)) (s : SrcSet),
      addGenes (env.withWild w) s l = addGenes env s l := by
  intro l
  induction l with
  | nil => intro s; rfl
  | cons x xs ih =>
    intro s
    obtain ⟨g, ls⟩ := x
    simp only [addGenes, addLabels_wild, ih]

/-- the info built with wildcard map `w` is the info built without one, with `w` applied -/
theorem entryInfo_wild (env : SrcEnv) (hnil : env.wildcard = []) (w : List (SrcSet × SrcSet))
    (e : Entry) (i j : Entry × SrcSet) (hi : entryInfo (env.withWild w) e = .ok i)
    (hj : entryInfo env e = .ok j) : i.1 = j.1 ∧ i.2 = applyWildcard w j.2 := by
  obtain ⟨d, vids, s1, s2, a1, a2, a3, a4, _, rfl⟩ := (entryInfo_ok_iff _ e i).mp hi
  obtain ⟨d', vids', s1', s2', b1, b2, b3, b4, _, rfl⟩ := (entryInfo_ok_iff _ e j).mp hj
  rw [a1] at b1; cases b1
  have a2' : identVarIds env.tx2gene d = .ok vids := a2
  rw [a2'] at b2; cases b2
  rw [addSource_wild] at a3
  rw [a3] at b3; cases b3
  rw [addGenes_wild, b4] at a4; cases a4
  refine ⟨rfl, ?_⟩
  show _ = applyWildcard w (applyWildcard env.wildcard s2)
  rw [hnil]; rfl

/-! ### every element of a source set built by `from_variant_peptide` is a plain key of the order -/

theorem mem_setInsert (x y : Src) (s : SrcSet) : y ∈ setInsert x s ↔ y = x ∨ y ∈ s := by
  unfold setInsert
  by_cases hc : s.contains x = true
  · simp only [hc, if_true]
    constructor
    · exact Or.inr
    · rintro (e | e)
      · subst e; simpa using hc
      · exact e
  · simp only [hc, List.mem_append, List.mem_singleton, Bool.false_eq_true, if_false]
    constructor
    · rintro (e | e); exact Or.inr e; exact Or.inl e
    · rintro (e | e); exact Or.inr e; exact Or.inl e

theorem addSource_keys (env : SrcEnv) (s : SrcSet) (x : Src) (s' : SrcSet)
    (h : ∀ y ∈ s, env.order.has (.one y) = true) (hr : addSource env s x = .ok s') :
    ∀ y ∈ s', env.order.has (.one y) = true := by
  unfold addSource at hr
  simp only [] at hr
  split at hr
  · rename_i hh
    cases hr
    intro y hy
    rcases (mem_setInsert _ _ _).mp hy with e | e
    · rw [e]; exact hh
    · exact h y e
  · cases hr

theorem addLabels_keys (env : SrcEnv) (gene : Option Field) : ∀ (vs : List Field) (s s' : SrcSet),
    (∀ y ∈ s, env.order.has (.one y) = true) → addLabels env gene s vs = .ok s' →
    ∀ y ∈ s', env.order.has (.one y) = true := by
  intro vs
  induction vs with
  | nil => intro s s' hs h; simp only [addLabels, Except.ok.injEq] at h; subst h; exact hs
  | cons v vs ih =>
    intro s s' hs h
    simp only [addLabels] at h
    split at h
    · cases h
    · rename_i s1 hr
      refine ih s1 s' ?_ h
      split at hr
      · exact addSource_keys env s _ s1 hs hr
      · split at hr
        · exact addSource_keys env s _ s1 hs hr
        · split at hr
          · cases hr
          · split at hr
            · cases hr
            · exact addSource_keys env s _ s1 hs hr

theorem addGenes_keys (env : SrcEnv) : ∀ (l : List (Option Field × List Field)) (s s' : SrcSet),
    (∀ y ∈ s, env.order.has (.one y) = true) → addGenes env s l = .ok s' →
    ∀ y ∈ s', env.order.has (.one y) = true := by
  intro l
  induction l with
  | nil => intro s s' hs h; simp only [addGenes, Except.ok.injEq] at h; subst h; exact hs
  | cons x xs ih =>
    intro s s' hs h
    obtain ⟨g, ls⟩ := x
    simp only [addGenes] at h
    split at h
    · cases h
    · rename_i s1 hr
      exact ih s1 s' (addLabels_keys env g ls s s1 hs hr) h

theorem entryInfo_keys (env : SrcEnv) (hnil : env.wildcard = []) (e : Entry) (j : Entry × SrcSet)
    (hj : entryInfo env e = .ok j) : ∀ y ∈ j.2, env.order.has (.one y) = true := by
  obtain ⟨d, vids, s1, s2, _, _, b3, b4, _, rfl⟩ := (entryInfo_ok_iff _ e j).mp hj
  simp only [hnil, applyWildcard, List.find?_nil]
  apply addGenes_keys env vids s1 s2 _ b4
  split at b3
  · exact addSource_keys env [] _ s1 (by simp) b3
  · cases b3; simp

/-! ### per peptide: the key `split` files it under is `chooseKey` of the set `summarize` counts it under -/

theorem sortInfos_keys (o : Order) (infos : List (Entry × SrcSet))
    (l : List (List Nat × (Entry × SrcSet))) (h : sortInfos o infos = .ok l) :
    l.map (·.1) = isort intsLe (infos.map fun i => (toInt o i.2).getD []) := by
  unfold sortInfos at h
  cases hw : withInts o infos with
  | error e => rw [hw] at h; cases h
  | ok w =>
    rw [hw] at h
    simp only [Except.ok.injEq] at h
    obtain ⟨_, b⟩ := (withInts_ok_iff o infos w).mp hw
    rw [← h, isort_map (fun x : List Nat × (Entry × SrcSet) => x.1) intsLe, b, List.map_map]
    rfl

theorem splitPep_key_eq (env : SrcEnv) (hnil : env.wildcard = []) (wm : List (SrcSet × SrcSet))
    (hwm : wmIdent wm) (hld : env.order.levelsDistinct = true) (mg : Int) (addl : List SrcSet)
    (p : PRec) (k : DbKey) (q : PRec) (s : SrcSet)
    (h1 : splitPep { env := env.withWild wm, maxGroups := mg, additional := addl } p = .ok (k, q))
    (h2 : sumSources env p = .ok s) :
    k = chooseKey { env := env.withWild wm, maxGroups := mg, additional := addl } s := by
  unfold splitPep at h1
  unfold sumSources at h2
  cases hS : headerInfos (env.withWild wm) p.header with
  | error e => rw [hS] at h1; cases h1
  | ok infosS =>
    cases hM : headerInfos env p.header with
    | error e => rw [hM] at h2; cases h2
    | ok infosM =>
      rw [hS] at h1; rw [hM] at h2
      simp only [] at h1 h2
      have ho : (env.withWild wm).order = env.order := rfl
      rw [ho] at h1
      cases sS : sortInfos env.order infosS with
      | error e => rw [sS] at h1; cases h1
      | ok lS =>
        cases sM : sortInfos env.order infosM with
        | error e => rw [sM] at h2; cases h2
        | ok lM =>
          rw [sS] at h1; rw [sM] at h2
          cases lS with
          | nil => cases h1
          | cons i0S restS =>
            cases lM with
            | nil => cases h2
            | cons i0M restM =>
              simp only [Except.ok.injEq, Prod.mk.injEq] at h1 h2
              obtain ⟨hk, _⟩ := h1
              subst h2
              -- infos as maps over the header
              obtain ⟨aS, bS⟩ := (headerInfos_ok_iff _ p.header infosS).mp hS
              obtain ⟨aM, bM⟩ := (headerInfos_ok_iff _ p.header infosM).mp hM
              have hrel : ∀ e ∈ p.header,
                  sameSet (infoOf (env.withWild wm) e).2 (infoOf env e).2 = true := by
                intro e he
                obtain ⟨i, hi⟩ := aS e he
                obtain ⟨j, hj⟩ := aM e he
                have := (entryInfo_wild env hnil wm e i j hi hj).2
                simp only [infoOf, hi, hj, this]
                exact applyWildcard_ident wm hwm j.2
              have hkeys : (infosS.map fun i => (toInt env.order i.2).getD []) =
                  infosM.map fun i => (toInt env.order i.2).getD [] := by
                rw [bS, bM, List.map_map, List.map_map]
                apply List.map_congr_left
                intro e he
                simp only [Function.comp]
                rw [toInt_congr env.order (hrel e he)]
              have hk1 := sortInfos_keys env.order infosS _ sS
              have hk2 := sortInfos_keys env.order infosM _ sM
              rw [hkeys, ← hk2] at hk1
              simp only [List.map_cons, List.cons.injEq] at hk1
              obtain ⟨_, _, _, _, fS, _⟩ := sortInfos_perm env.order infosS infosS (List.Perm.refl _) _ sS
              obtain ⟨_, _, _, _, fM, _⟩ := sortInfos_perm env.order infosM infosM (List.Perm.refl _) _ sM
              obtain ⟨mS, tS⟩ := fS i0S List.mem_cons_self
              obtain ⟨mM, tM⟩ := fM i0M List.mem_cons_self
              have hsame : sameSet i0S.2.2 i0M.2.2 = true :=
                toInt_inj env.order _ _ (injOn_of_levelsDistinct env.order hld _) i0S.1 tS
                  (by rw [tM, hk1.1])
              have nS := headerInfos_nodup (env.withWild wm) (wildNodup_of_ident wm hwm) p.header
                infosS hS _ mS
              have nM := headerInfos_nodup env (by rw [hnil]; intro kv hkv; cases hkv) p.header
                infosM hM _ mM
              rw [← hk]
              exact chooseKey_congr _ hsame nS nM

/-- what `summarize` counts a peptide under is a duplicate-free list of plain keys of the order -/
theorem sumSources_wf (env : SrcEnv) (hnil : env.wildcard = []) (p : PRec) (s : SrcSet)
    (h : sumSources env p = .ok s) : s.Nodup ∧ ∀ y ∈ s, env.order.has (.one y) = true := by
  unfold sumSources at h
  cases hM : headerInfos env p.header with
  | error e => rw [hM] at h; cases h
  | ok infos =>
    rw [hM] at h
    simp only [] at h
    cases sM : sortInfos env.order infos with
    | error e => rw [sM] at h; cases h
    | ok l =>
      rw [sM] at h
      cases l with
      | nil => cases h
      | cons i0 rest =>
        simp only [Except.ok.injEq] at h
        subst h
        obtain ⟨_, _, _, _, f, _⟩ := sortInfos_perm env.order infos infos (List.Perm.refl _) _ sM
        obtain ⟨m, _⟩ := f i0 List.mem_cons_self
        refine ⟨headerInfos_nodup env (by rw [hnil]; intro kv hkv; cases hkv) p.header infos hM _ m,
          ?_⟩
        obtain ⟨a, b⟩ := (headerInfos_ok_iff _ p.header infos).mp hM
        rw [b] at m
        obtain ⟨e, he, hie⟩ := List.mem_map.mp m
        obtain ⟨j, hj⟩ := a e he
        have := entryInfo_keys env hnil e j hj
        rw [← hie]
        simpa [infoOf, hj] using this

theorem splitAssign_keys (env : SrcEnv) (hnil : env.wildcard = []) (wm : List (SrcSet × SrcSet))
    (hwm : wmIdent wm) (hld : env.order.levelsDistinct = true) (mg : Int) (addl : List SrcSet)
    (rule : Re) (exc : Option Re) : ∀ (pool : List PRec) (as : List (DbKey × PRec))
    (ks : List (SrcSet × Nat)),
    splitAssign { env := env.withWild wm, maxGroups := mg, additional := addl } pool = .ok as →
    sumKeys env rule exc pool = .ok ks →
    as.map (·.1) =
        ks.map (fun x => chooseKey { env := env.withWild wm, maxGroups := mg, additional := addl } x.1) ∧
      ∀ x ∈ ks, x.1.Nodup ∧ ∀ y ∈ x.1, env.order.has (.one y) = true := by
  intro pool
  induction pool with
  | nil =>
    intro as ks h1 h2
    simp only [splitAssign, Except.ok.injEq] at h1
    simp only [sumKeys, Except.ok.injEq] at h2
    subst h1; subst h2; simp
  | cons p ps ih =>
    intro as ks h1 h2
    simp only [splitAssign] at h1
    simp only [sumKeys] at h2
    cases hp : splitPep { env := env.withWild wm, maxGroups := mg, additional := addl } p with
    | error e => rw [hp] at h1; cases h1
    | ok a =>
      cases hs : sumSources env p with
      | error e => rw [hs] at h2; cases h2
      | ok s =>
        rw [hp] at h1; rw [hs] at h2
        simp only [] at h1 h2
        cases hr1 : splitAssign { env := env.withWild wm, maxGroups := mg, additional := addl } ps with
        | error e => rw [hr1] at h1; cases h1
        | ok r1 =>
          cases hr2 : sumKeys env rule exc ps with
          | error e => rw [hr2] at h2; cases h2
          | ok r2 =>
            rw [hr1] at h1; rw [hr2] at h2
            simp only [Except.ok.injEq] at h1 h2
            subst h1; subst h2
            obtain ⟨i1, i2⟩ := ih r1 r2 hr1 hr2
            obtain ⟨k, q⟩ := a
            have := splitPep_key_eq env hnil wm hwm hld mg addl p k q s hp hs
            refine ⟨by simp [i1, this], ?_⟩
            intro x hx
            rcases List.mem_cons.mp hx with rfl | hx
            · exact sumSources_wf env hnil p s hs
            · exact i2 x hx

/-! ### the summary table counts, per source set, the peptides counted under it -/

theorem count_sumAdd (t : SumTable) (s : SrcSet) (m : Nat) (s' : SrcSet) :
    (sumAdd t s m).count s' = t.count s' + if sameSet s s' = true then 1 else 0 := by
  induction t with
  | nil =>
    simp only [sumAdd, SumTable.count, List.find?_cons, List.find?_nil]
    cases sameSet s s' <;> simp
  | cons e rest ih =>
    obtain ⟨k, n, ms⟩ := e
    unfold sumAdd
    by_cases hk : sameSet k s = true
    · simp only [hk, if_true]
      have : sameSet k s' = sameSet s s' := sameSet_congr_left hk s'
      simp only [SumTable.count, List.find?_cons, this]
      cases sameSet s s' <;> simp
    · have hkf : sameSet k s = false := by simpa using hk
      simp only [hkf, Bool.false_eq_true, if_false]
      by_cases hk' : sameSet k s' = true
      · have : sameSet s s' = false := by
          cases h : sameSet s s' with
          | false => rfl
          | true =>
            have := sameSet_trans hk' (sameSet_symm h)
            rw [this] at hkf; cases hkf
        simp only [SumTable.count, List.find?_cons, hk', this]
        simp
      · have hkf' : sameSet k s' = false := by simpa using hk'
        have e1 : SumTable.count ((k, n, ms) :: sumAdd rest s m) s' = (sumAdd rest s m).count s' := by
          simp only [SumTable.count, List.find?_cons, hkf']
        have e2 : SumTable.count ((k, n, ms) :: rest) s' = SumTable.count rest s' := by
          simp only [SumTable.count, List.find?_cons, hkf']
        rw [e1, e2, ih]

theorem count_foldl (ks : List (SrcSet × Nat)) (s' : SrcSet) : ∀ t0 : SumTable,
    (ks.foldl (fun t k => sumAdd t k.1 k.2) t0).count s' =
      t0.count s' + (ks.filter fun x => sameSet x.1 s').length := by
  induction ks with
  | nil => intro t0; simp
  | cons k ks ih =>
    intro t0
    simp only [List.foldl_cons]
    rw [ih, count_sumAdd, List.filter_cons]
    cases sameSet k.1 s' <;> simp <;> omega

/-! ### `chooseKey` is injective on the sets that fit `--max-source-groups` -/

theorem mem_plain (o : Order) (x : Src) : x ∈ o.plain ↔ ∃ kv ∈ o, kv.1 = .one x := by
  unfold Order.plain
  rw [List.mem_filterMap]
  constructor
  · rintro ⟨kv, hkv, h⟩
    refine ⟨kv, (isort_perm _ o).subset hkv, ?_⟩
    cases hk : kv.1 with
    | one y => rw [hk] at h; simp only [Option.some.injEq] at h; rw [h]
    | many y => rw [hk] at h; cases h
  · rintro ⟨kv, hkv, h⟩
    exact ⟨kv, (isort_perm _ o).symm.subset hkv, by rw [h]⟩

theorem has_one_iff (o : Order) (x : Src) : o.has (.one x) = true ↔ x ∈ o.plain := by
  rw [mem_plain]
  unfold Order.has Order.level?
  constructor
  · intro h
    cases hf : o.find? (fun kv => kv.1.same (.one x)) with
    | none => rw [hf] at h; cases h
    | some kv =>
      refine ⟨kv, List.mem_of_find?_eq_some hf, ?_⟩
      have := List.find?_some hf
      cases hk : kv.1 with
      | one y => rw [hk] at this; simp only [OKey.same, beq_iff_eq] at this; rw [this]
      | many y => rw [hk] at this; simp [OKey.same] at this
  · rintro ⟨kv, hkv, hk⟩
    cases hf : o.find? (fun kv => kv.1.same (.one x)) with
    | some kv' => rfl
    | none =>
      have := List.find?_eq_none.mp hf kv hkv
      rw [hk] at this
      simp [OKey.same] at this

theorem plain_notWild (o : Order) (h : o.noWildKeys = true) (x : Src) (hx : x ∈ o.plain) :
    isWild x = false := by
  obtain ⟨kv, hkv, hk⟩ := (mem_plain o x).mp hx
  unfold Order.noWildKeys at h
  have := List.all_eq_true.mp h kv hkv
  rw [hk] at this
  simpa using this

/-- for a set of plain non-wildcard keys, `str(sources)` lists exactly its members -/
theorem mem_setStr (o : Order) (hw : o.noWildKeys = true) (s : SrcSet)
    (hs : ∀ y ∈ s, o.has (.one y) = true) (x : Src) : x ∈ (setStr o s).1 ↔ x ∈ s := by
  have : (setStr o s).1 = o.plain.filter (fun x => s.contains x && x != "+" && x != "*") := rfl
  rw [this, List.mem_filter]
  constructor
  · rintro ⟨_, h⟩
    simp only [Bool.and_eq_true] at h
    simpa using h.1.1
  · intro hx
    have hp := (has_one_iff o x).mp (hs x hx)
    have hnw := plain_notWild o hw x hp
    refine ⟨hp, ?_⟩
    simp only [isWild, Bool.or_eq_false_iff, beq_eq_false_iff_ne] at hnw
    simp only [Bool.and_eq_true, bne_iff_ne, ne_eq]
    exact ⟨⟨by simpa using hx, hnw.1⟩, hnw.2⟩

theorem chooseKey_inj (c : SplitCfg) (hw : c.env.order.noWildKeys = true) (s s' : SrcSet)
    (hs : ∀ y ∈ s, c.env.order.has (.one y) = true)
    (hs' : ∀ y ∈ s', c.env.order.has (.one y) = true)
    (hfit : (s.length : Int) ≤ c.maxGroups) (h : chooseKey c s' = chooseKey c s) :
    sameSet s' s = true := by
  unfold chooseKey at h
  simp only [hfit, if_true] at h
  by_cases hfit' : (s'.length : Int) ≤ c.maxGroups
  · simp only [hfit', if_true, DbKey.sources.injEq] at h
    rw [sameSet_iff]
    intro x
    rw [← mem_setStr c.env.order hw s hs x, ← mem_setStr c.env.order hw s' hs' x, h.1]
  · simp only [hfit', if_false] at h
    split at h <;> cases h

/-- the database key of a set of plain non-wildcard keys that fits `--max-source-groups` is its
`str()`, without suffix -/
theorem chooseKey_fit (c : SplitCfg) (hw : c.env.order.noWildKeys = true) (s : SrcSet)
    (hs : ∀ y ∈ s, c.env.order.has (.one y) = true) (hfit : (s.length : Int) ≤ c.maxGroups) :
    chooseKey c s = .sources (setStr c.env.order s).1 "" := by
  unfold chooseKey
  simp only [hfit, if_true]
  have nw : ∀ w : Src, isWild w = true → s.contains w = false := by
    intro w hw'
    cases hc : s.contains w with
    | false => rfl
    | true =>
      have hm : w ∈ s := by simpa using hc
      have := plain_notWild c.env.order hw w ((has_one_iff _ _).mp (hs w hm))
      rw [this] at hw'; cases hw'
  have h1 : s.contains "*" = false := nw "*" (by decide)
  have h2 : s.contains "+" = false := nw "+" (by decide)
  have : (setStr c.env.order s).2 = "" := by
    unfold setStr
    simp only [h1, h2, Bool.false_eq_true, if_false]
  rw [← this]

/-! ### the rows `write_summary_table` enumerates -/

theorem combos_sublist {α} : ∀ (k : Nat) (l : List α), ∀ c ∈ combos k l, c.Sublist l := by
  intro k l
  induction l generalizing k with
  | nil =>
    intro c hc
    cases k with
    | zero => simp only [combos, List.mem_singleton] at hc; subst hc; exact List.Sublist.refl _
    | succ k => simp [combos] at hc
  | cons x xs ih =>
    intro c hc
    cases k with
    | zero => simp only [combos, List.mem_singleton] at hc; subst hc; exact List.nil_sublist _
    | succ k =>
      simp only [combos, List.mem_append, List.mem_map] at hc
      rcases hc with ⟨c', hc', rfl⟩ | hc
      · exact (ih k c' hc').cons_cons x
      · exact (ih (k + 1) c hc).cons x

theorem filter_sublist_eq : ∀ (l c : List Src), l.Nodup → c.Sublist l →
    l.filter (fun x => c.contains x) = c := by
  intro l c hn hs
  induction hs with
  | slnil => rfl
  | @cons c l x hs ih =>
    have hn' := List.nodup_cons.mp hn
    rw [List.filter_cons]
    have : c.contains x = false := by
      cases hc : c.contains x with
      | false => rfl
      | true => exact absurd (hs.subset (by simpa using hc)) hn'.1
    simp only [this, Bool.false_eq_true, if_false]
    exact ih hn'.2
  | @cons_cons c l x hs ih =>
    have hn' := List.nodup_cons.mp hn
    rw [List.filter_cons]
    simp only [List.contains_cons, BEq.rfl, Bool.true_or, if_true, List.cons.injEq, true_and]
    have : l.filter (fun y => y == x || c.contains y) = l.filter (fun y => c.contains y) := by
      apply List.filter_congr
      intro y hy
      have : (y == x) = false := by
        cases h : y == x with
        | false => rfl
        | true =>
          have e : y = x := by simpa using h
          subst e
          exact absurd hy hn'.1
      simp [this]
    rw [this]
    exact ih hn'.2

/-- for a combination drawn from the plain keys in level order, `str()` is the combination -/
theorem setStr_sublist (o : Order) (hw : o.noWildKeys = true) (hn : o.plain.Nodup) (c : List Src)
    (hs : c.Sublist o.plain) : (setStr o c).1 = c := by
  have e : (setStr o c).1 = o.plain.filter (fun x => c.contains x && x != "+" && x != "*") := rfl
  rw [e]
  rw [← filter_sublist_eq o.plain c hn hs]
  apply List.filter_congr
  intro x hx
  have hnw := plain_notWild o hw x hx
  simp only [isWild, Bool.or_eq_false_iff, beq_eq_false_iff_ne] at hnw
  have h1 : (x != "+") = true := by simpa using hnw.1
  have h2 : (x != "*") = true := by simpa using hnw.2
  rw [filter_sublist_eq o.plain c hn hs, h1, h2]
  simp

end MoPepGen
