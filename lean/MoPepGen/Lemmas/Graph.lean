/-
Lemmas for Layer G (`Model/Graph.lean`): path enumeration, the position automaton of the
transcript variant graph, node-wise translation, node joins.
-/
import MoPepGen.Model.Graph
namespace MoPepGen.Graph
open MoPepGen MoPepGen.Spec

/-! ### `pathsFrom` enumerates exactly the maximal paths -/

/-- `p` is a maximal path of `g` starting at `i` -/
inductive MaxPath (g : Graph) : Nat → List Nat → Prop
  | leaf {i : Nat} : i < g.size → succs g i = [] → MaxPath g i [i]
  | step {i o : Nat} {p : List Nat} :
      i < g.size → o ∈ succs g i → MaxPath g o p → MaxPath g i (i :: p)

theorem pathsFrom_sound (g : Graph) : ∀ (fuel i : Nat) (p : List Nat),
    p ∈ pathsFrom g fuel i → MaxPath g i p := by
  intro fuel
  induction fuel with
  | zero => intro i p h; simp [pathsFrom] at h
  | succ n ih =>
    intro i p h
    unfold pathsFrom at h
    split at h
    · rename_i hi
      split at h
      · rename_i he
        simp only [List.mem_singleton] at h
        subst h
        exact MaxPath.leaf hi (List.isEmpty_iff.mp he)
      · simp only [List.mem_flatMap, List.mem_map] at h
        obtain ⟨o, ho, q, hq, rfl⟩ := h
        exact MaxPath.step hi ho (ih o q hq)
    · simp at h

theorem pathsFrom_complete (g : Graph) : ∀ (fuel i : Nat) (p : List Nat),
    MaxPath g i p → p.length ≤ fuel → p ∈ pathsFrom g fuel i := by
  intro fuel
  induction fuel with
  | zero =>
    intro i p h hl
    cases h <;> simp at hl
  | succ n ih =>
    intro i p h hl
    unfold pathsFrom
    cases h with
    | leaf hi he =>
      simp [hi, he]
    | step hi ho hp =>
      rename_i o q
      have hne : (succs g i).isEmpty = false := by
        cases hs : succs g i with
        | nil => rw [hs] at ho; simp at ho
        | cons _ _ => rfl
      simp only [hi, if_true, hne, Bool.false_eq_true, if_false, List.mem_flatMap, List.mem_map]
      refine ⟨o, ho, q, ih o q hp ?_, rfl⟩
      simp only [List.length_cons] at hl
      omega

theorem MaxPath.mem_lt {g : Graph} {i : Nat} {p : List Nat} (h : MaxPath g i p) :
    ∀ x ∈ p, x < g.size := by
  induction h with
  | leaf hi _ => intro x hx; simp at hx; omega
  | step hi _ _ ih =>
    intro x hx
    rcases List.mem_cons.mp hx with rfl | hx
    · exact hi
    · exact ih x hx

/-- a path that visits no node twice is no longer than the graph -/
theorem MaxPath.length_le {g : Graph} {i : Nat} {p : List Nat} (h : MaxPath g i p)
    (hnd : p.Nodup) : p.length ≤ g.size := by
  have hsub : p ⊆ List.range g.size := fun x hx => List.mem_range.mpr (h.mem_lt x hx)
  simpa using hnd.length_le_of_subset hsub

/-- `paths` is exactly the set of maximal simple paths (in an acyclic graph: all of them) -/
theorem mem_paths_iff (g : Graph) (i : Nat) (p : List Nat) (hnd : p.Nodup) :
    p ∈ paths g i ↔ MaxPath g i p := by
  constructor
  · exact pathsFrom_sound g _ i p
  · intro h
    exact pathsFrom_complete g _ i p h (Nat.le_succ_of_le (h.length_le hnd))

/-! ### the position automaton of the transcript variant graph -/

/-- What `ThreeFrameTVG.apply_variant` builds for one reading frame, seen from the reference
positions: the alt sequence of a record `v` hangs between the reference node ENDING at
`v.start` and the reference node STARTING at `v.stop`.  A walk is at reference position `p`;
`r` says that the last step consumed a reference base (so the walk stands at the end of a
reference node and may leave it through a variant edge).  `Walk p r w h`: from there the walk
can reach the end emitting `w` and taking exactly the records `h`. -/
inductive Walk (seq : List Char) (pool : List Var) : Nat → Bool → List Char → List Var → Prop
  | done {p : Nat} {r : Bool} : seq.length ≤ p → Walk seq pool p r [] []
  | ref {p : Nat} {r : Bool} {c : Char} {w : List Char} {h : List Var} :
      seq[p]? = some c → Walk seq pool (p + 1) true w h → Walk seq pool p r (c :: w) h
  | var {v : Var} {w : List Char} {h : List Var} :
      v ∈ pool → v.start < v.stop → Walk seq pool v.stop false w h →
      Walk seq pool v.start true (v.alt ++ w) (v :: h)

/-- every record of `h` starts at or after `p` (after `p` when `strict`), and `h` is
ascending and strictly separated -/
def SepFrom (p : Nat) (strict : Bool) : List Var → Prop
  | [] => True
  | v :: vs => (if strict then p < v.start else p ≤ v.start) ∧ v.start < v.stop ∧
      SepFrom v.stop true vs

theorem applyHap_go_nil (pos : Nat) (rest : List Char) : applyHap.go pos rest [] = rest := rfl

theorem applyHap_go_cons (pos : Nat) (rest : List Char) (v : Var) (vs : List Var) :
    applyHap.go pos rest (v :: vs) =
      (rest.take (v.start - pos)) ++ v.alt ++ applyHap.go v.stop (rest.drop (v.stop - pos)) vs := rfl

/-- skipping one reference base -/
theorem applyHap_go_step (seq : List Char) (p : Nat) (c : Char) (hc : seq[p]? = some c) :
    ∀ (h : List Var), SepFrom p true h ∨ h = [] →
      applyHap.go p (seq.drop p) h = c :: applyHap.go (p + 1) (seq.drop (p + 1)) h := by
  intro h hs
  have hdrop : seq.drop p = c :: seq.drop (p + 1) := by
    have hp : p < seq.length := by
      rcases Nat.lt_or_ge p seq.length with h | h
      · exact h
      · simp [List.getElem?_eq_none h] at hc
    rw [List.drop_eq_getElem_cons hp]
    simp [List.getElem?_eq_getElem hp] at hc
    rw [hc]
  cases h with
  | nil => simp [applyHap_go_nil, hdrop]
  | cons v vs =>
    rcases hs with hs | hs
    · simp only [SepFrom, if_true] at hs
      obtain ⟨h1, h2, _⟩ := hs
      rw [applyHap_go_cons, applyHap_go_cons, hdrop]
      have e1 : v.start - p = (v.start - (p + 1)) + 1 := by omega
      have e2 : v.stop - p = (v.stop - (p + 1)) + 1 := by omega
      rw [e1, e2]
      simp [List.take_succ_cons, List.drop_succ_cons]
    · simp at hs

theorem drop_drop_sub (seq : List Char) (p q : Nat) (h : p ≤ q) :
    (seq.drop p).drop (q - p) = seq.drop q := by
  rw [List.drop_drop]; congr 1; omega

/-- soundness: a walk takes a separated combination and emits its `applyHap` sequence -/
theorem walk_sound (seq : List Char) (pool : List Var) :
    ∀ (p : Nat) (r : Bool) (w : List Char) (h : List Var), Walk seq pool p r w h →
      (∀ v ∈ h, v ∈ pool) ∧ SepFrom p (!r) h ∧ w = applyHap.go p (seq.drop p) h := by
  intro p r w h hw
  induction hw with
  | done hp =>
    refine ⟨by simp, trivial, ?_⟩
    simp [applyHap_go_nil, List.drop_eq_nil_of_le hp]
  | @ref p r c w h hc _ ih =>
    obtain ⟨h1, h2, h3⟩ := ih
    refine ⟨h1, ?_, ?_⟩
    · cases h with
      | nil => trivial
      | cons v vs =>
        simp only [SepFrom, Bool.not_true, Bool.false_eq_true, if_false] at h2 ⊢
        obtain ⟨a, b, c'⟩ := h2
        refine ⟨?_, b, c'⟩
        cases r <;> simp <;> omega
    · rw [h3]
      symm
      apply applyHap_go_step seq p c hc
      cases h with
      | nil => right; rfl
      | cons v vs =>
        left
        simp only [SepFrom, Bool.not_true, Bool.false_eq_true, if_false] at h2
        simp only [SepFrom, if_true]
        exact ⟨by omega, h2.2.1, h2.2.2⟩
  | @var v w h hv hlt _ ih =>
    obtain ⟨h1, h2, h3⟩ := ih
    refine ⟨?_, ?_, ?_⟩
    · intro x hx
      rcases List.mem_cons.mp hx with rfl | hx
      · exact hv
      · exact h1 x hx
    · simp only [SepFrom, Bool.not_true, Bool.false_eq_true, if_false]
      refine ⟨Nat.le_refl _, hlt, ?_⟩
      simpa using h2
    · rw [applyHap_go_cons, h3, drop_drop_sub seq v.start v.stop (Nat.le_of_lt hlt)]
      simp

/-- completeness: every separated combination of pool records is taken by some walk -/
theorem walk_complete (seq : List Char) (pool : List Var) :
    ∀ (n p : Nat) (r : Bool) (h : List Var), seq.length - p ≤ n →
      (∀ v ∈ h, v ∈ pool) → SepFrom p (!r) h → (∀ v ∈ h, v.stop ≤ seq.length) →
      Walk seq pool p r (applyHap.go p (seq.drop p) h) h := by
  intro n
  induction n with
  | zero =>
    intro p r h hn hpool hsep hlen
    have hp : seq.length ≤ p := by omega
    cases h with
    | nil =>
      simp only [applyHap_go_nil, List.drop_eq_nil_of_le hp]
      exact Walk.done hp
    | cons v vs =>
      exfalso
      simp only [SepFrom] at hsep
      have := hlen v (by simp)
      obtain ⟨a, b, _⟩ := hsep
      cases r <;> simp at a <;> omega
  | succ n ih =>
    intro p r h hn hpool hsep hlen
    rcases Nat.lt_or_ge p seq.length with hp | hp
    · -- is there a record starting exactly here that the walk may take?
      have hc : seq[p]? = some seq[p] := List.getElem?_eq_getElem hp
      by_cases htake : ∃ v vs, h = v :: vs ∧ v.start = p ∧ r = true
      · obtain ⟨v, vs, rfl, hvs, rfl⟩ := htake
        simp only [SepFrom, Bool.not_true, Bool.false_eq_true, if_false] at hsep
        obtain ⟨_, hlt, hrest⟩ := hsep
        subst hvs
        rw [applyHap_go_cons]
        simp only [Nat.sub_self, List.take_zero, List.nil_append]
        rw [drop_drop_sub seq v.start v.stop (Nat.le_of_lt hlt)]
        apply Walk.var (hpool v (by simp)) hlt
        apply ih v.stop false vs (by omega) (fun x hx => hpool x (by simp [hx]))
          (by simpa using hrest) (fun x hx => hlen x (by simp [hx]))
      · -- consume a reference base
        have hsep' : SepFrom p true h ∨ h = [] := by
          cases h with
          | nil => right; rfl
          | cons v vs =>
            left
            simp only [SepFrom] at hsep ⊢
            obtain ⟨a, b, c⟩ := hsep
            refine ⟨?_, b, c⟩
            simp only [if_true]
            cases r with
            | false => simpa using a
            | true =>
              simp at a
              rcases Nat.lt_or_ge p v.start with h' | h'
              · exact h'
              · exact absurd ⟨v, vs, rfl, by omega, rfl⟩ htake
        rw [applyHap_go_step seq p seq[p] hc h hsep']
        apply Walk.ref hc
        apply ih (p + 1) true h (by omega) hpool ?_ hlen
        cases h with
        | nil => trivial
        | cons v vs =>
          rcases hsep' with hs | hs
          · simp only [SepFrom, if_true] at hs
            simp only [SepFrom, Bool.not_true, Bool.false_eq_true, if_false]
            exact ⟨by omega, hs.2.1, hs.2.2⟩
          · simp at hs
    · cases h with
      | nil =>
        simp only [applyHap_go_nil, List.drop_eq_nil_of_le hp]
        exact Walk.done hp
      | cons v vs =>
        exfalso
        simp only [SepFrom] at hsep
        have := hlen v (by simp)
        obtain ⟨a, b, _⟩ := hsep
        cases r <;> simp at a <;> omega

/-- `separated` (the executable test of the definitional layer) in terms of `SepFrom` -/
theorem sepFrom_of_separated : ∀ (h : List Var) (p : Nat) (s : Bool),
    separated h = true → (∀ v ∈ h, v.start < v.stop) →
    (match h with | [] => True | v :: _ => if s then p < v.start else p ≤ v.start) →
    SepFrom p s h := by
  intro h
  induction h with
  | nil => intros; trivial
  | cons a rest ih =>
    intro p s hsep hpos hfirst
    refine ⟨hfirst, hpos a (by simp), ?_⟩
    cases rest with
    | nil => trivial
    | cons b rest' =>
      simp only [separated, Bool.and_eq_true, decide_eq_true_eq] at hsep
      apply ih a.stop true hsep.2 (fun v hv => hpos v (by simp [hv]))
      simpa using hsep.1

/-! ### node-wise translation of a codon-aligned path -/

theorem translate_append (a b : List Char) (h : a.length % 3 = 0) :
    translate (a ++ b) = translate a ++ translate b := by
  induction a using translate.induct with
  | case1 x y z rest ih =>
    have : rest.length % 3 = 0 := by simp only [List.length_cons] at h; omega
    simp [translate, ih this]
  | case2 l hl =>
    -- `l` has fewer than three elements and a length divisible by three: it is empty
    match l, hl with
    | [], _ => simp [translate]
    | [_], _ => simp at h
    | [_, _], _ => simp at h
    | x :: y :: z :: r, hl => exact absurd rfl (hl x y z r)

theorem translatePath_eq (g : Graph) (p : List Nat) (h : codonAligned g p = true) :
    translatePath g p = translate (pathSeq g p) := by
  induction p with
  | nil => simp [translatePath, pathSeq, translate]
  | cons i rest ih =>
    cases rest with
    | nil => simp [translatePath, pathSeq]
    | cons j rest' =>
      simp only [codonAligned, List.dropLast_cons_cons, List.all_cons, Bool.and_eq_true, beq_iff_eq] at h
      have hrest : codonAligned g (j :: rest') = true := by
        simpa [codonAligned] using h.2
      have := ih hrest
      simp only [translatePath, pathSeq, List.flatMap_cons] at this ⊢
      rw [translate_append _ _ h.1, this]

/-! ### node joins -/

/-- the cut positions of a list of pieces: 0, every inner boundary, the total length -/
def cuts : List (List Char) → List Nat
  | [] => [0]
  | p :: ps => 0 :: (cuts ps).map (· + p.length)

theorem slice_zero_flatten_take (pieces : List (List Char)) :
    ∀ b ∈ cuts pieces, ∃ k, (pieces.flatten).take b = (pieces.take k).flatten := by
  induction pieces with
  | nil => intro b hb; simp [cuts] at hb; subst hb; exact ⟨0, by simp⟩
  | cons p ps ih =>
    intro b hb
    simp only [cuts, List.mem_cons, List.mem_map] at hb
    rcases hb with rfl | ⟨c, hc, rfl⟩
    · exact ⟨0, by simp⟩
    · obtain ⟨k, hk⟩ := ih c hc
      refine ⟨k + 1, ?_⟩
      simp only [List.flatten_cons, List.take_succ_cons]
      rw [List.take_append, ← hk]
      simp [List.take_of_length_le (Nat.le_add_left p.length c)]

theorem drop_cut_flatten (pieces : List (List Char)) :
    ∀ a ∈ cuts pieces, ∃ i, (pieces.flatten).drop a = (pieces.drop i).flatten ∧
      ∀ b ∈ cuts pieces, a ≤ b → (b - a) ∈ cuts (pieces.drop i) := by
  induction pieces with
  | nil =>
    intro a ha; simp [cuts] at ha; subst ha
    exact ⟨0, by simp, by intro b hb _; simpa [cuts] using hb⟩
  | cons p ps ih =>
    intro a ha
    simp only [cuts, List.mem_cons, List.mem_map] at ha
    rcases ha with rfl | ⟨c, hc, rfl⟩
    · exact ⟨0, by simp, by intro b hb _; simpa using hb⟩
    · obtain ⟨i, hi, hcut⟩ := ih c hc
      refine ⟨i + 1, ?_, ?_⟩
      · simp only [List.flatten_cons, List.drop_succ_cons]
        rw [List.drop_append, ← hi]
        simp [List.drop_of_length_le (Nat.le_add_left p.length c)]
      · intro b hb hab
        simp only [cuts, List.mem_cons, List.mem_map] at hb
        rcases hb with rfl | ⟨d, hd, rfl⟩
        · -- b = 0 ≥ c + |p| forces everything to be 0
          have : c + p.length = 0 := by omega
          have hc0 : c = 0 := by omega
          subst hc0
          have := hcut 0 (by cases ps <;> simp [cuts]) (Nat.le_refl _)
          simpa [List.drop_succ_cons] using this
        · have := hcut d hd (by omega)
          simp only [List.drop_succ_cons]
          have e : d + p.length - (c + p.length) = d - c := by omega
          rw [e]; exact this

/-- a slice between two cut positions is a concatenation of consecutive whole pieces -/
theorem slice_is_join (pieces : List (List Char)) (a b : Nat)
    (ha : a ∈ cuts pieces) (hb : b ∈ cuts pieces) (hab : a ≤ b) :
    ∃ i k, slice pieces.flatten a b = ((pieces.drop i).take k).flatten := by
  obtain ⟨i, hi, hcut⟩ := drop_cut_flatten pieces a ha
  obtain ⟨k, hk⟩ := slice_zero_flatten_take (pieces.drop i) (b - a) (hcut b hb hab)
  exact ⟨i, k, by simp only [slice, hi, hk]⟩

end MoPepGen.Graph

namespace MoPepGen.Graph
open MoPepGen MoPepGen.Spec

theorem zero_mem_cuts (pieces : List (List Char)) : 0 ∈ cuts pieces := by
  cases pieces <;> simp [cuts]

theorem length_mem_cuts (pieces : List (List Char)) : pieces.flatten.length ∈ cuts pieces := by
  induction pieces with
  | nil => simp [cuts]
  | cons p ps ih =>
    simp only [cuts, List.flatten_cons, List.length_append, List.mem_cons, List.mem_map]
    right
    exact ⟨ps.flatten.length, ih, by omega⟩

/-- `SepFrom` back to the executable test -/
theorem separated_of_sepFrom : ∀ (h : List Var) (p : Nat) (s : Bool),
    SepFrom p s h → separated h = true := by
  intro h
  induction h with
  | nil => intros; rfl
  | cons a rest ih =>
    intro p s hs
    cases rest with
    | nil => rfl
    | cons b rest' =>
      obtain ⟨_, _, hr⟩ := hs
      have := ih a.stop true hr
      obtain ⟨hb, _, _⟩ := hr
      simp only [if_true] at hb
      simp only [separated, Bool.and_eq_true, decide_eq_true_eq]
      exact ⟨hb, this⟩

end MoPepGen.Graph
