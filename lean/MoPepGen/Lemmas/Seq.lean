import MoPepGen.Lemmas.Coord
/-! Helper lemmas about slices, reverse complement and exon concatenation. -/
namespace MoPepGen

theorem chromSlice_length {chrom : List Char} {e : Iv} (h : e.stop ≤ chrom.length) :
    (chromSlice chrom e).length = e.stop - e.start := by
  simp only [chromSlice, List.length_take, List.length_drop]; omega

theorem chromSlice_getElem? {chrom : List Char} {e : Iv} {i : Nat} (h : i < e.stop - e.start) :
    (chromSlice chrom e)[i]? = chrom[e.start + i]? := by
  simp only [chromSlice, List.getElem?_take, List.getElem?_drop, h, if_true]

theorem revComp_length (s : List Char) : (revComp s).length = s.length := by
  simp [revComp]

theorem revComp_append (a b : List Char) : revComp (a ++ b) = revComp b ++ revComp a := by
  simp [revComp]

theorem revComp_getElem? {s : List Char} {i : Nat} (h : i < s.length) :
    (revComp s)[i]? = (s[s.length - 1 - i]?).map complement := by
  unfold revComp
  rw [List.getElem?_reverse (by simpa using h)]
  simp [List.getElem?_map]

theorem revComp_chromSlice_getElem? {chrom : List Char} {e : Iv} {i : Nat}
    (hc : e.stop ≤ chrom.length) (h : i < e.stop - e.start) :
    (revComp (chromSlice chrom e))[i]? = (chrom[e.stop - 1 - i]?).map complement := by
  rw [revComp_getElem? (by rw [chromSlice_length hc]; exact h), chromSlice_length hc,
    chromSlice_getElem? (by omega)]
  congr 2; omega

theorem exonConcat_length {chrom : List Char} {es : List Iv} (h : OnChrom chrom.length es) :
    (exonConcat chrom es).length = exonsLen es := by
  induction es with
  | nil => rfl
  | cons e es ih =>
    simp only [exonConcat, exonsLen, List.length_append, Iv.len]
    rw [chromSlice_length (h e List.mem_cons_self),
      ih (fun x hx => h x (List.mem_cons_of_mem _ hx))]

theorem exonConcat_append (chrom : List Char) (a b : List Iv) :
    exonConcat chrom (a ++ b) = exonConcat chrom a ++ exonConcat chrom b := by
  induction a with
  | nil => rfl
  | cons e es ih => simp [exonConcat, ih]

/-- plus strand: the `k`-th base of the exon concatenation is the chromosome base at
`toGenomicPlus k` -/
theorem exonConcat_getElem? {chrom : List Char} {es : List Iv}
    (hc : OnChrom chrom.length es) {k p : Nat} (h : toGenomicPlus k es = .ok p) :
    (exonConcat chrom es)[k]? = chrom[p]? := by
  induction es generalizing k with
  | nil => simp [toGenomicPlus] at h
  | cons e es ih =>
    unfold toGenomicPlus at h
    have hce := hc e List.mem_cons_self
    simp only [exonConcat]
    by_cases hi : k < e.stop - e.start
    · rw [if_pos hi] at h
      simp only [Except.ok.injEq] at h; subst h
      rw [List.getElem?_append_left (by rw [chromSlice_length hce]; exact hi), chromSlice_getElem? hi]
      congr 1; omega
    · rw [if_neg hi] at h
      rw [List.getElem?_append_right (by rw [chromSlice_length hce]; omega), chromSlice_length hce]
      exact ih (fun x hx => hc x (List.mem_cons_of_mem _ hx)) h

/-- concatenation of reverse-complemented slices, for a list in descending order -/
def minusConcat (chrom : List Char) : List Iv → List Char
  | [] => []
  | e :: es => revComp (chromSlice chrom e) ++ minusConcat chrom es

theorem minusConcat_append (chrom : List Char) (a b : List Iv) :
    minusConcat chrom (a ++ b) = minusConcat chrom a ++ minusConcat chrom b := by
  induction a with
  | nil => rfl
  | cons e es ih => simp [minusConcat, ih]

theorem revComp_exonConcat (chrom : List Char) (es : List Iv) :
    revComp (exonConcat chrom es) = minusConcat chrom es.reverse := by
  induction es with
  | nil => rfl
  | cons e es ih =>
    simp only [exonConcat, revComp_append, List.reverse_cons, minusConcat_append, ih,
      minusConcat, List.append_nil]

theorem minusConcat_getElem? {chrom : List Char} {es : List Iv}
    (hc : OnChrom chrom.length es) {k p : Nat} (h : toGenomicMinus k es = .ok p) :
    (minusConcat chrom es)[k]? = (chrom[p]?).map complement := by
  induction es generalizing k with
  | nil => simp [toGenomicMinus] at h
  | cons e es ih =>
    unfold toGenomicMinus at h
    have hce := hc e List.mem_cons_self
    simp only [minusConcat]
    by_cases hi : k < e.stop - e.start
    · rw [if_pos hi] at h
      simp only [Except.ok.injEq] at h; subst h
      rw [List.getElem?_append_left (by rw [revComp_length, chromSlice_length hce]; exact hi),
        revComp_chromSlice_getElem? hce hi]
    · rw [if_neg hi] at h
      rw [List.getElem?_append_right (by rw [revComp_length, chromSlice_length hce]; omega),
        revComp_length, chromSlice_length hce]
      exact ih (fun x hx => hc x (List.mem_cons_of_mem _ hx)) h

end MoPepGen
