import MoPepGen.Lemmas.Rmats
/-!
Helper lemmas for C16, alignment step: what `align_to_transcript`, `get_interjacent_exons`,
`get_upstream_end_spanning`, `get_downstream_start_spanning` (models in `Model/Rmats.lean`)
return on an exon list decomposed around the exons of the event, and which record the
`convert_to_variant_records` cascade then builds.
-/
namespace MoPepGen.Rmats
open MoPepGen
set_option linter.unusedSimpArgs false

/-! ## linear searches -/

theorem idxWhere_none {f : Iv → Bool} {L : List Iv} (h : ∀ e ∈ L, f e = false) (k : Nat) :
    idxWhere f L k = -1 := by
  induction L generalizing k with
  | nil => rfl
  | cons e es ih =>
    unfold idxWhere
    rw [h e List.mem_cons_self]
    simp only [Bool.false_eq_true, if_false]
    exact ih (fun x hx => h x (List.mem_cons_of_mem _ hx)) (k + 1)

theorem idxWhere_hit {f : Iv → Bool} {pre post : List Iv} {X : Iv}
    (hp : ∀ e ∈ pre, f e = false) (hX : f X = true) (k : Nat) :
    idxWhere f (pre ++ X :: post) k = ((k + pre.length : Nat) : Int) := by
  induction pre generalizing k with
  | nil => simp only [List.nil_append, idxWhere, hX, if_true, List.length_nil, Nat.add_zero]
  | cons e es ih =>
    simp only [List.cons_append]
    unfold idxWhere
    rw [hp e List.mem_cons_self]
    simp only [Bool.false_eq_true, if_false]
    rw [ih (fun x hx => hp x (List.mem_cons_of_mem _ hx)) (k + 1)]
    simp only [List.length_cons]
    congr 1; omega

theorem idxWhereDown_none {f : Iv → Bool} {L : List Iv} (h : ∀ e ∈ L, f e = false) (n : Nat) :
    idxWhereDown f L n = -1 := by
  induction L generalizing n with
  | nil => rfl
  | cons e es ih =>
    unfold idxWhereDown
    rw [h e List.mem_cons_self]
    simp only [Bool.false_eq_true, if_false]
    exact ih (fun x hx => h x (List.mem_cons_of_mem _ hx)) (n - 1)

theorem idxWhereDown_hit {f : Iv → Bool} {A B : List Iv} {X : Iv}
    (hA : ∀ e ∈ A, f e = false) (hX : f X = true) (n : Nat) :
    idxWhereDown f (A ++ X :: B) n = ((n - A.length - 1 : Nat) : Int) := by
  induction A generalizing n with
  | nil => simp only [List.nil_append, idxWhereDown, hX, if_true, List.length_nil, Nat.sub_zero]
  | cons e es ih =>
    simp only [List.cons_append]
    unfold idxWhereDown
    rw [hA e List.mem_cons_self]
    simp only [Bool.false_eq_true, if_false]
    rw [ih (fun x hx => hA x (List.mem_cons_of_mem _ hx)) (n - 1)]
    simp only [List.length_cons]
    congr 1; omega

theorem exonWithStart_none {es : List Iv} {p : Nat} (h : ∀ e ∈ es, e.start ≠ p) :
    exonWithStart es p = -1 :=
  idxWhere_none (fun e he => by simp [h e he]) 0

theorem exonWithEnd_none {es : List Iv} {p : Nat} (h : ∀ e ∈ es, e.stop ≠ p) :
    exonWithEnd es p = -1 :=
  idxWhere_none (fun e he => by simp [h e he]) 0

theorem exonWithStart_hit {pre post : List Iv} {X : Iv} {p : Nat}
    (hp : ∀ e ∈ pre, e.start ≠ p) (hX : X.start = p) :
    exonWithStart (pre ++ X :: post) p = (pre.length : Int) := by
  unfold exonWithStart
  rw [idxWhere_hit (fun e he => by simp [hp e he]) (by simp [hX]) 0]
  simp

theorem exonWithEnd_hit {pre post : List Iv} {X : Iv} {p : Nat}
    (hp : ∀ e ∈ pre, e.stop ≠ p) (hX : X.stop = p) :
    exonWithEnd (pre ++ X :: post) p = (pre.length : Int) := by
  unfold exonWithEnd
  rw [idxWhere_hit (fun e he => by simp [hp e he]) (by simp [hX]) 0]
  simp

theorem contains_false {e : Iv} {p : Nat} (h : p < e.start ∨ e.stop ≤ p) :
    e.contains p = false := by
  rw [Iv.contains_false_iff]; omega

theorem contains_true {e : Iv} {p : Nat} (h1 : e.start ≤ p) (h2 : p < e.stop) :
    e.contains p = true := Iv.contains_iff.mpr ⟨h1, h2⟩

/-! ## the interjacent loops -/

theorem interjacentTest_true {ue ds : Nat} {e : Iv} (h1 : ue ≤ e.start) (h2 : e.start < e.stop)
    (h3 : e.stop ≤ ds) : interjacentTest ue ds e = true := by
  simp [interjacentTest, h1, h2, h3]

theorem interjacentTest_false {ue ds : Nat} {e : Iv}
    (h : e.start < ue ∨ e.stop ≤ e.start ∨ ds < e.stop) : interjacentTest ue ds e = false := by
  simp only [interjacentTest, Bool.and_eq_false_iff, decide_eq_false_iff_not]; omega

theorem interjacentBreak_true {ue ds : Nat} {e : Iv} (h : e.stop ≤ ue ∨ ds ≤ e.start) :
    interjacentBreak ue ds e = true := by
  simp only [interjacentBreak, Bool.or_eq_true, decide_eq_true_eq]; omega

theorem interjacentBreak_false {ue ds : Nat} {e : Iv} (h1 : ue < e.stop) (h2 : e.start < ds) :
    interjacentBreak ue ds e = false := by
  simp only [interjacentBreak, Bool.or_eq_false_iff, decide_eq_false_iff_not]; omega

theorem interFwd_stop {ue ds : Nat} {e : Iv} {es : List Iv} {i : Nat}
    (ht : interjacentTest ue ds e = false) (hb : interjacentBreak ue ds e = true) :
    interFwd ue ds (e :: es) i = [] := by
  simp [interFwd, ht, hb]

theorem interFwd_hit {ue ds : Nat} {e : Iv} {es : List Iv} {i : Nat}
    (ht : interjacentTest ue ds e = true) (hb : interjacentBreak ue ds e = false) :
    interFwd ue ds (e :: es) i = i :: interFwd ue ds es (i + 1) := by
  simp [interFwd, ht, hb]

theorem interFwd_skip {ue ds : Nat} {e : Iv} {es : List Iv} {i : Nat}
    (ht : interjacentTest ue ds e = false) (hb : interjacentBreak ue ds e = false) :
    interFwd ue ds (e :: es) i = interFwd ue ds es (i + 1) := by
  simp [interFwd, ht, hb]

/-- nothing is collected from exons that all start at or after the downstream start -/
theorem interFwd_above {ue ds : Nat} {L : List Iv}
    (h : ∀ e ∈ L, ds ≤ e.start ∧ e.start < e.stop) (i : Nat) : interFwd ue ds L i = [] := by
  cases L with
  | nil => rfl
  | cons e es =>
    have := h e List.mem_cons_self
    exact interFwd_stop (interjacentTest_false (by omega)) (interjacentBreak_true (by omega))

theorem interBwd_stop {ue ds : Nat} {e : Iv} {es : List Iv} {n : Nat}
    (ht : interjacentTest ue ds e = false) (hb : interjacentBreak ue ds e = true) :
    interBwd ue ds (e :: es) n = [] := by
  simp [interBwd, ht, hb]

theorem interBwd_hit {ue ds : Nat} {e : Iv} {es : List Iv} {n : Nat}
    (ht : interjacentTest ue ds e = true) (hb : interjacentBreak ue ds e = false) :
    interBwd ue ds (e :: es) n = (n - 1) :: interBwd ue ds es (n - 1) := by
  simp [interBwd, ht, hb]

theorem interBwd_skip {ue ds : Nat} {e : Iv} {es : List Iv} {n : Nat}
    (ht : interjacentTest ue ds e = false) (hb : interjacentBreak ue ds e = false) :
    interBwd ue ds (e :: es) n = interBwd ue ds es (n - 1) := by
  simp [interBwd, ht, hb]

/-- nothing is collected from exons that all end at or before the upstream end -/
theorem interBwd_below {ue ds : Nat} {L : List Iv}
    (h : ∀ e ∈ L, e.stop ≤ ue ∧ e.start < e.stop) (n : Nat) : interBwd ue ds L n = [] := by
  cases L with
  | nil => rfl
  | cons e es =>
    have := h e List.mem_cons_self
    exact interBwd_stop (interjacentTest_false (by omega)) (interjacentBreak_true (by omega))

/-! ## `get_interjacent_exons` and the spanning searches on a decomposed exon list -/

theorem getInterjacent_fwd {a : Aln} {pre rest : List Iv} {P : Iv}
    (hu : a.uei = (pre.length : Int)) (hd : a.dsi ≠ 0) (hr : rest ≠ []) :
    getInterjacent a (pre ++ P :: rest)
      = .ok (interFwd a.j.ue a.j.ds rest (pre.length + 1)) := by
  unfold getInterjacent
  have hl : (pre ++ P :: rest).length = pre.length + 1 + rest.length := by
    simp only [List.length_append, List.length_cons]; omega
  have hrl : 0 < rest.length := List.length_pos_iff.mpr hr
  rw [if_neg (by omega), if_pos (by omega), if_neg (by rw [hl, hu]; omega), hu]
  simp only [Int.toNat_natCast]
  have : (pre ++ P :: rest).drop (pre.length + 1) = rest := by
    have e : pre ++ P :: rest = (pre ++ [P]) ++ rest := by simp
    rw [e, List.drop_left' (by simp)]
  rw [this]

theorem getInterjacent_bwd {a : Aln} {A B : List Iv}
    (hu : a.uei = -1) (hd : a.dsi = (A.length : Int)) (hA : A ≠ []) :
    getInterjacent a (A ++ B)
      = .ok (interBwd a.j.ue a.j.ds A.reverse A.length).reverse := by
  unfold getInterjacent
  have hl : 0 < A.length := List.length_pos_iff.mpr hA
  rw [if_neg (by omega), if_neg (by omega), if_neg (by omega), if_neg (by omega), hd]
  simp only [Int.toNat_natCast, List.take_left]

theorem getUpstreamEndSpanning_bwd {a : Aln} {A B : List Iv}
    (h0 : a.j.ue ≠ 0) (hd : a.dsi = (A.length : Int)) :
    getUpstreamEndSpanning a (A ++ B)
      = idxWhereDown (fun e => e.contains (a.j.ue - 1)) A.reverse A.length := by
  unfold getUpstreamEndSpanning
  rw [if_neg h0, if_neg (by omega), if_neg (by omega), hd]
  simp only [Int.toNat_natCast, List.take_left]

theorem getDownstreamStartSpanning_fwd {a : Aln} {pre rest : List Iv} {P : Iv}
    (hu : a.uei = (pre.length : Int)) :
    getDownstreamStartSpanning a (pre ++ P :: rest)
      = idxWhere (fun e => e.contains a.j.ds) rest (pre.length + 1) := by
  unfold getDownstreamStartSpanning
  rw [if_neg (by omega), if_neg (by omega), hu]
  simp only [Int.toNat_natCast]
  have : (pre ++ P :: rest).drop (pre.length + 1) = rest := by
    have e : pre ++ P :: rest = (pre ++ [P]) ++ rest := by simp
    rw [e, List.drop_left' (by simp)]
  rw [this]

/-! ## sorted exon lists cut around two / three consecutive exons -/

/-- `pre ++ P :: Q :: post` is ascending, exons non-empty, separated by ≥ 1 base -/
structure Chain2 (pre post : List Iv) (P Q : Iv) : Prop where
  hp : ∀ e ∈ pre, e.start < e.stop ∧ e.stop < P.start
  hP : P.start < P.stop
  hPQ : P.stop < Q.start
  hQ : Q.start < Q.stop
  hq : ∀ e ∈ post, Q.stop < e.start ∧ e.start < e.stop

/-- `pre ++ P :: M :: Q :: post` is ascending, exons non-empty, separated by ≥ 1 base -/
structure Chain3 (pre post : List Iv) (P M Q : Iv) : Prop where
  hp : ∀ e ∈ pre, e.start < e.stop ∧ e.stop < P.start
  hP : P.start < P.stop
  hPM : P.stop < M.start
  hM : M.start < M.stop
  hMQ : M.stop < Q.start
  hQ : Q.start < Q.stop
  hq : ∀ e ∈ post, Q.stop < e.start ∧ e.start < e.stop

theorem chain2_of_wf {t : Transcript} (hw : t.WF) {pre post : List Iv} {P Q : Iv}
    (he : t.exons = pre ++ P :: Q :: post) : Chain2 pre post P Q := by
  obtain ⟨h1, h2, h3⟩ := wf_parts hw he
  have he2 : t.exons = (pre ++ [P]) ++ Q :: post := by simp [he]
  obtain ⟨_, h5, h6⟩ := wf_parts hw he2
  exact ⟨h1, h2, (h3 Q List.mem_cons_self).1, h5, h6⟩

theorem chain3_of_wf {t : Transcript} (hw : t.WF) {pre post : List Iv} {P M Q : Iv}
    (he : t.exons = pre ++ P :: M :: Q :: post) : Chain3 pre post P M Q := by
  obtain ⟨h1, h2, h3⟩ := wf_parts hw he
  have he2 : t.exons = (pre ++ [P]) ++ M :: Q :: post := by simp [he]
  obtain ⟨_, h5, h6⟩ := wf_parts hw he2
  have he3 : t.exons = (pre ++ [P, M]) ++ Q :: post := by simp [he]
  obtain ⟨_, h8, h9⟩ := wf_parts hw he3
  exact ⟨h1, h2, (h3 M List.mem_cons_self).1, h5, (h6 Q List.mem_cons_self).1, h8, h9⟩

theorem Chain3.left {pre post : List Iv} {P M Q : Iv} (h : Chain3 pre post P M Q) :
    Chain2 pre (Q :: post) P M := by
  refine ⟨h.hp, h.hP, h.hPM, h.hM, ?_⟩
  intro e he
  rcases List.mem_cons.mp he with rfl | he
  · exact ⟨h.hMQ, h.hQ⟩
  · have := h.hq e he; have := h.hQ; have := h.hMQ; omega

theorem Chain3.right {pre post : List Iv} {P M Q : Iv} (h : Chain3 pre post P M Q) :
    Chain2 (pre ++ [P]) post M Q := by
  refine ⟨?_, h.hM, h.hMQ, h.hQ, h.hq⟩
  intro e he
  rcases List.mem_append.mp he with he | he
  · have := h.hp e he; have := h.hP; have := h.hPM; omega
  · simp only [List.mem_singleton] at he; subst he; exact ⟨h.hP, h.hPM⟩

/-! ## the `convert_to_variant_records` cascade -/

theorem single_mem {x : Except Err ASRec} {rs : List ASRec} {r : ASRec}
    (h : (do let v ← x; pure [v]) = Except.ok rs) (hr : r ∈ rs) : x = .ok r := by
  cases x with
  | error e => cases h
  | ok v =>
    simp only [bind, Except.bind, pure, Except.pure, Except.ok.injEq] at h
    subst h
    simp only [List.mem_singleton] at hr
    rw [hr]

theorem convertAln_un {a : Aln} {g : Gene} {t : Transcript} {inter : List Nat}
    (h1 : a.un = true) (h2 : a.dn = false) (hi : getInterjacent a t.exons = .ok inter) :
    convertAln a g t = convUpstream a g t.exons inter := by
  unfold convertAln
  rw [hi]
  simp only [h1, h2, bind, Except.bind, pure, Except.pure, if_true, Bool.false_eq_true, if_false,
    Bool.not_true, Bool.not_false, Bool.and_false, Bool.and_true, Bool.false_and]
  cases convUpstream a g t.exons inter <;> simp

theorem convertAln_dn {a : Aln} {g : Gene} {t : Transcript} {inter : List Nat}
    (h1 : a.un = false) (h2 : a.dn = true) (hi : getInterjacent a t.exons = .ok inter) :
    convertAln a g t = convDownstream a g t.exons inter := by
  unfold convertAln
  rw [hi]
  simp only [h1, h2, bind, Except.bind, pure, Except.pure, if_true, Bool.false_eq_true, if_false,
    Bool.not_true, Bool.not_false, Bool.and_false, Bool.and_true, Bool.false_and]
  cases convDownstream a g t.exons inter <;> simp

theorem convertAln_known {a : Aln} {g : Gene} {t : Transcript} {inter : List Nat}
    (h1 : a.un = false) (h2 : a.dn = false) (hi : getInterjacent a t.exons = .ok inter) :
    convertAln a g t = convKnown a g t inter := by
  unfold convertAln
  rw [hi]
  simp only [h1, h2, bind, Except.bind, pure, Except.pure, if_true, Bool.false_eq_true, if_false,
    Bool.not_true, Bool.not_false, Bool.and_false, Bool.and_true, Bool.false_and, Bool.and_self]
  cases convKnown a g t inter <;> simp

/-- the junction joins two exons that are adjacent in the transcript: nothing to emit, whatever
the novelty flags -/
theorem convertAln_adjacent {a : Aln} {g : Gene} {t : Transcript}
    (hi : getInterjacent a t.exons = .ok []) (hu : a.uei ≠ -1) (hd : a.dsi ≠ -1) :
    convertAln a g t = .ok [] := by
  have e1 : convUpstream a g t.exons [] = .ok [] := by
    unfold convUpstream
    rw [if_neg (by simp [hu])]; rfl
  have e2 : convDownstream a g t.exons [] = .ok [] := by
    unfold convDownstream
    rw [if_neg (by simp [hd])]; rfl
  have e3 : convKnown a g t [] = .ok [] := by
    unfold convKnown
    simp only [hu, hd, ne_eq, not_true_eq_false, or_self, if_false]
    cases t.strand <;> simp <;> (try split) <;> rfl
  unfold convertAln
  rw [hi]
  simp only [bind, Except.bind, e1, e2, e3]
  cases a.un <;> cases a.dn <;> rfl

/-! ## `align_to_transcript` -/

/-- the alignment object `align_to_transcript` builds when it does not return `None` -/
def alnOf (j : Junction) (es : List Iv) (un dn : Bool) : Aln :=
  ⟨j, exonWithStart es j.us, exonWithEnd es j.ue, exonWithStart es j.ds, exonWithEnd es j.de, un, dn⟩

theorem alignConvert_un {j : Junction} {g : Gene} {t : Transcript}
    (h : exonWithStart t.exons j.ds ≠ -1) :
    alignConvert j g t true false = convertAln (alnOf j t.exons true false) g t := by
  unfold alignConvert align
  simp only [h, and_false, if_false, Bool.false_eq_true, false_and]
  rfl

theorem alignConvert_dn {j : Junction} {g : Gene} {t : Transcript}
    (h : exonWithEnd t.exons j.ue ≠ -1) :
    alignConvert j g t false true = convertAln (alnOf j t.exons false true) g t := by
  unfold alignConvert align
  simp only [h, and_false, if_false, Bool.false_eq_true, false_and]
  rfl

theorem alignConvert_known {j : Junction} {g : Gene} {t : Transcript} :
    alignConvert j g t false false = convertAln (alnOf j t.exons false false) g t := by
  unfold alignConvert align
  simp only [if_false, Bool.false_eq_true, false_and]
  rfl

/-! ## merging / splitting abutting exons -/

theorem seqOfExons_merge2 (chrom : List Char) (s : Strand) (pre post : List Iv)
    {a b c : Nat} (h1 : a ≤ b) (h2 : b ≤ c) :
    seqOfExons chrom s (pre ++ ⟨a, b⟩ :: ⟨b, c⟩ :: post)
      = seqOfExons chrom s (pre ++ ⟨a, c⟩ :: post) := by
  have : exonConcat chrom (pre ++ ⟨a, b⟩ :: ⟨b, c⟩ :: post)
      = exonConcat chrom (pre ++ ⟨a, c⟩ :: post) := by
    simp only [exonConcat_append, exonConcat]
    rw [← chromSlice_merge chrom (a := a) (b := b) (c := c) h1 h2]
    simp [List.append_assoc]
  cases s <;> simp only [seqOfExons, this]

theorem basesBefore_split2 (g : Gene) (pre post : List Iv) {a b c : Nat}
    (h0 : g.loc.start ≤ a) (h1 : a ≤ b) (h2 : b ≤ c) (h4 : c ≤ g.loc.stop) (q : Nat) :
    basesBefore g (pre ++ ⟨a, c⟩ :: post) q
      = basesBefore g (pre ++ ⟨a, b⟩ :: ⟨b, c⟩ :: post) q := by
  simp only [basesBefore_append, basesBefore, geneIv]
  cases g.strand <;> simp only <;> omega

/-! ## the six record constructors on a decomposed exon list -/

/-- `create_upstream_insertion`: the donor `[max(P.stop, us), ue)` is inserted between the
exon `P` before the aligned downstream exon `Q` and `Q` -/
theorem upstream_insertion_spec {chrom : List Char} {g : Gene} {a : Aln}
    {pre post : List Iv} {P Q : Iv} {r : ASRec}
    (hin : InGene g (pre ++ P :: Q :: post)) (hc : g.loc.stop ≤ chrom.length)
    (hch : Chain2 pre post P Q)
    (hdsi : a.dsi = (pre.length : Int) + 1) (hjd : a.j.ds = Q.start)
    (h1 : P.stop < a.j.ue) (h2 : a.j.ue ≤ Q.start) (h3 : a.j.us < a.j.ue)
    (h : createUpstreamInsertion a g (pre ++ P :: Q :: post) = .ok r) :
    applyAS g (pre ++ P :: Q :: post)
        (seqOfExons chrom g.strand (pre ++ P :: Q :: post)) (geneSeq chrom g) r
      = seqOfExons chrom g.strand (pre ++ P :: ⟨max P.stop a.j.us, a.j.ue⟩ :: Q :: post) := by
  have gU : (pre ++ P :: Q :: post)[pre.length]? = some P := by simp
  have hPin := hin P (by simp)
  have hQin := hin Q (by simp)
  have hi : a.dsi - 1 = ((pre.length : Nat) : Int) := by omega
  obtain ⟨hp, hP, hPQ, hQ, hq⟩ := hch
  unfold createUpstreamInsertion at h
  rw [if_neg (by omega)] at h
  simp only [hi, pyGet_nat _ _ _ gU, bind, Except.bind, pure, Except.pure, hjd] at h
  have hm1 : P.stop ≤ max P.stop a.j.us := by omega
  have hm2 : max P.stop a.j.us < a.j.ue := by omega
  generalize max P.stop a.j.us = m at h hm1 hm2 ⊢
  have hEin : InGene g [⟨m, a.j.ue⟩] := by
    intro x hx; simp only [List.mem_singleton] at hx; subst hx; simp only; omega
  have e1 : pre ++ P :: Q :: post = (pre ++ [P]) ++ Q :: post := by simp
  have e2 : pre ++ P :: ⟨m, a.j.ue⟩ :: Q :: post = (pre ++ [P]) ++ ⟨m, a.j.ue⟩ :: Q :: post := by
    simp
  rw [e1] at hin
  have hA1 : ∀ x ∈ pre ++ [P], x.stop ≤ P.stop := by
    intro x hx
    rcases List.mem_append.mp hx with h | h
    · have := hp x h; omega
    · simp only [List.mem_singleton] at h; subst h; omega
  have hB1 : ∀ x ∈ Q :: post, Q.start ≤ x.start := by
    intro x hx
    rcases List.mem_cons.mp hx with h | h
    · subst h; omega
    · have := hq x h; omega
  rw [e1, e2]
  cases hs : g.strand with
  | plus =>
    simp only [hs] at h
    rw [g2g_ok (by omega) (by omega), g2g_ok (by omega) (by omega),
      g2g_ok (by omega) (by omega)] at h
    simp only [hs, Except.ok.injEq] at h
    rw [← hs]
    exact apply_insertion (chrom := chrom) (P := P.stop) hin.left hin.right hEin hc hA1
      (by intro x hx; have := hB1 x hx; omega) (by rw [← h])
      (by rw [← h]; unfold cut; simp only [hs]; omega)
      (by rw [← h]; unfold geneIv; simp only [hs])
      (by rw [← h]; unfold geneIv; simp only [hs]; omega)
  | minus =>
    simp only [hs] at h
    rw [g2g_ok (by omega) (by omega), g2g_ok (by omega) (by omega),
      g2g_ok (by omega) (by omega)] at h
    simp only [hs, Except.ok.injEq] at h
    rw [← hs]
    exact apply_insertion (chrom := chrom) (P := Q.start) hin.left hin.right hEin hc
      (by intro x hx; have := hA1 x hx; omega) hB1 (by rw [← h])
      (by rw [← h]; unfold cut; simp only [hs]; omega)
      (by rw [← h]; unfold geneIv; simp only [hs]; omega)
      (by rw [← h]; unfold geneIv; simp only [hs]; omega)

theorem downstream_insertion_spec {chrom : List Char} {g : Gene} {a : Aln}
    {pre post : List Iv} {P Q : Iv} {r : ASRec}
    (hin : InGene g (pre ++ P :: Q :: post)) (hc : g.loc.stop ≤ chrom.length)
    (hch : Chain2 pre post P Q)
    (huei : a.uei = (pre.length : Int)) (hju : a.j.ue = P.stop)
    (h1 : P.stop ≤ a.j.ds) (h2 : a.j.ds < Q.start) (h3 : a.j.ds < a.j.de)
    (h : createDownstreamInsertion a g (pre ++ P :: Q :: post) = .ok r) :
    applyAS g (pre ++ P :: Q :: post)
        (seqOfExons chrom g.strand (pre ++ P :: Q :: post)) (geneSeq chrom g) r
      = seqOfExons chrom g.strand (pre ++ P :: ⟨a.j.ds, min Q.start a.j.de⟩ :: Q :: post) := by
  have gQ : (pre ++ P :: Q :: post)[pre.length + 1]? = some Q := by
    rw [List.getElem?_append_right (by omega)]; simp
  have hPin := hin P (by simp)
  have hQin := hin Q (by simp)
  have hi : a.uei + 1 = ((pre.length + 1 : Nat) : Int) := by omega
  obtain ⟨hp, hP, hPQ, hQ, hq⟩ := hch
  unfold createDownstreamInsertion at h
  rw [if_neg (by omega)] at h
  by_cases hx : a.usi = ((pre ++ P :: Q :: post).length : Int) - 1
  · rw [if_pos hx] at h; cases h
  rw [if_neg hx] at h
  simp only [hi, pyGet_nat _ _ _ gQ, bind, Except.bind, pure, Except.pure, hju] at h
  have hm0 : min (Q.start - 1) (a.j.de - 1) = min Q.start a.j.de - 1 := by omega
  rw [hm0] at h
  have hm1 : a.j.ds < min Q.start a.j.de := by omega
  have hm2 : min Q.start a.j.de ≤ Q.start := by omega
  generalize min Q.start a.j.de = m at h hm1 hm2 ⊢
  have hEin : InGene g [⟨a.j.ds, m⟩] := by
    intro x hx; simp only [List.mem_singleton] at hx; subst hx; simp only; omega
  have e1 : pre ++ P :: Q :: post = (pre ++ [P]) ++ Q :: post := by simp
  have e2 : pre ++ P :: ⟨a.j.ds, m⟩ :: Q :: post = (pre ++ [P]) ++ ⟨a.j.ds, m⟩ :: Q :: post := by
    simp
  rw [e1] at hin
  have hA1 : ∀ x ∈ pre ++ [P], x.stop ≤ P.stop := by
    intro x hx
    rcases List.mem_append.mp hx with h | h
    · have := hp x h; omega
    · simp only [List.mem_singleton] at h; subst h; omega
  have hB1 : ∀ x ∈ Q :: post, Q.start ≤ x.start := by
    intro x hx
    rcases List.mem_cons.mp hx with h | h
    · subst h; omega
    · have := hq x h; omega
  rw [e1, e2]
  cases hs : g.strand with
  | plus =>
    simp only [hs] at h
    rw [g2g_ok (by omega) (by omega), g2g_ok (by omega) (by omega),
      g2g_ok (by omega) (by omega)] at h
    simp only [hs, Except.ok.injEq] at h
    rw [← hs]
    exact apply_insertion (chrom := chrom) (P := P.stop) hin.left hin.right hEin hc hA1
      (by intro x hx; have := hB1 x hx; omega) (by rw [← h])
      (by rw [← h]; unfold cut; simp only [hs]; omega)
      (by rw [← h]; unfold geneIv; simp only [hs])
      (by rw [← h]; unfold geneIv; simp only [hs]; omega)
  | minus =>
    simp only [hs] at h
    rw [g2g_ok (by omega) (by omega), g2g_ok (by omega) (by omega),
      g2g_ok (by omega) (by omega)] at h
    simp only [hs, Except.ok.injEq] at h
    rw [← hs]
    exact apply_insertion (chrom := chrom) (P := Q.start) hin.left hin.right hEin hc
      (by intro x hx; have := hA1 x hx; omega) hB1 (by rw [← h])
      (by rw [← h]; unfold cut; simp only [hs]; omega)
      (by rw [← h]; unfold geneIv; simp only [hs]; omega)
      (by rw [← h]; unfold geneIv; simp only [hs]; omega)

/-- `create_upstream_deletion` with no interjacent exon and a spanning exon `P` that contains
the junction's upstream end strictly inside: the part `[ue, P.stop)` of `P` is deleted -/
theorem upstream_deletion_inside_spec {chrom : List Char} {g : Gene} {a : Aln}
    {pre rest : List Iv} {P : Iv} {r : ASRec}
    (hin : InGene g (pre ++ P :: rest)) (hc : g.loc.stop ≤ chrom.length)
    (hp : ∀ e ∈ pre, e.stop ≤ P.start) (hq : ∀ e ∈ rest, P.stop ≤ e.start)
    (h1 : P.start < a.j.ue) (h2 : a.j.ue < P.stop)
    (h : createUpstreamDeletion a g (pre ++ P :: rest) ((pre.length : Nat) : Int) [] = .ok r) :
    applyAS g (pre ++ P :: rest)
        (seqOfExons chrom g.strand (pre ++ P :: rest)) (geneSeq chrom g) r
      = seqOfExons chrom g.strand (pre ++ ⟨P.start, a.j.ue⟩ :: rest) := by
  have gP : (pre ++ P :: rest)[pre.length]? = some P := by simp
  have hPin := hin P (by simp)
  unfold createUpstreamDeletion at h
  simp only [ne_eq, not_true_eq_false, if_false, bind, Except.bind, pure, Except.pure,
    pyGet_nat _ _ _ gP] at h
  rw [if_neg (by omega)] at h
  have hr : r.kind = .deletion ∧ r.start = (geneIv g ⟨a.j.ue, P.stop⟩).start
      ∧ r.stop = (geneIv g ⟨a.j.ue, P.stop⟩).stop := by
    rw [g2g_ok (by omega) (by omega), g2g_ok (by omega) (by omega)] at h
    unfold mkLoc at h; unfold geneIv
    cases hs : g.strand <;> simp only [hs] at h ⊢
    · rw [if_neg (by omega)] at h
      simp only [Except.ok.injEq] at h; subst h; refine ⟨rfl, ?_, ?_⟩ <;> simp only <;> omega
    · rw [if_neg (by omega)] at h
      simp only [Except.ok.injEq] at h; subst h; refine ⟨rfl, ?_, ?_⟩ <;> simp only <;> omega
  have hpre : InGene g pre := hin.left
  have hrest : InGene g rest := fun x hx => hin x (by simp [hx])
  have hA : InGene g (pre ++ [⟨P.start, a.j.ue⟩]) := by
    apply hpre.append
    intro x hx; simp only [List.mem_singleton] at hx; subst hx; simp only; omega
  have hM : InGene g [⟨a.j.ue, P.stop⟩] := by
    intro x hx; simp only [List.mem_singleton] at hx; subst hx; simp only; omega
  have key := apply_deletion (chrom := chrom) (g := g) (A := pre ++ [⟨P.start, a.j.ue⟩])
    (M := [⟨a.j.ue, P.stop⟩]) (B := rest) (Ps := a.j.ue) (Pe := P.stop) (r := r)
    hA hM hrest hc
    (by
      intro x hx
      rcases List.mem_append.mp hx with h | h
      · have := hp x h; omega
      · simp only [List.mem_singleton] at h; subst h; simp only; omega)
    (by intro x hx; simp only [List.mem_singleton] at hx; subst hx; simp only; omega)
    (by intro x hx; simp only [List.mem_singleton] at hx; subst hx; simp only; omega)
    hq (by omega) hr.1 hr.2.1 hr.2.2
  have hP' : P = ⟨P.start, P.stop⟩ := by cases P; rfl
  have e3 : pre ++ [⟨P.start, a.j.ue⟩] ++ [⟨a.j.ue, P.stop⟩] ++ rest
      = pre ++ ⟨P.start, a.j.ue⟩ :: ⟨a.j.ue, P.stop⟩ :: rest := by simp
  have hbb : ∀ q, basesBefore g (pre ++ P :: rest) q
      = basesBefore g (pre ++ [⟨P.start, a.j.ue⟩] ++ [⟨a.j.ue, P.stop⟩] ++ rest) q := by
    intro q
    rw [e3]
    conv => lhs; rw [hP']
    exact basesBefore_split2 g pre rest (by omega) (by omega) (by omega) (by omega) q
  have hseq : seqOfExons chrom g.strand (pre ++ P :: rest) = seqOfExons chrom g.strand
      (pre ++ [⟨P.start, a.j.ue⟩] ++ [⟨a.j.ue, P.stop⟩] ++ rest) := by
    rw [e3]
    conv => lhs; rw [hP']
    exact (seqOfExons_merge2 chrom g.strand pre rest (by omega) (by omega)).symm
  rw [applyAS_congr hbb, hseq, key]
  simp

/-- `create_downstream_deletion` with no interjacent exon and a spanning exon `X` that contains
the junction's downstream start strictly inside: the part `[X.start, ds)` of `X` is deleted -/
theorem downstream_deletion_inside_spec {chrom : List Char} {g : Gene} {a : Aln}
    {pre rest : List Iv} {X : Iv} {r : ASRec}
    (hin : InGene g (pre ++ X :: rest)) (hc : g.loc.stop ≤ chrom.length)
    (hp : ∀ e ∈ pre, e.stop ≤ X.start) (hq : ∀ e ∈ rest, X.stop ≤ e.start)
    (h1 : X.start < a.j.ds) (h2 : a.j.ds < X.stop)
    (h : createDownstreamDeletion a g (pre ++ X :: rest) ((pre.length : Nat) : Int) [] = .ok r) :
    applyAS g (pre ++ X :: rest)
        (seqOfExons chrom g.strand (pre ++ X :: rest)) (geneSeq chrom g) r
      = seqOfExons chrom g.strand (pre ++ ⟨a.j.ds, X.stop⟩ :: rest) := by
  have gX : (pre ++ X :: rest)[pre.length]? = some X := by simp
  have hXin := hin X (by simp)
  unfold createDownstreamDeletion at h
  have hne : ¬ a.j.ds = X.start := by omega
  simp only [ne_eq, not_true_eq_false, if_false, bind, Except.bind, pure, Except.pure,
    pyGet_nat _ _ _ gX, hne] at h
  have hr : r.kind = .deletion ∧ r.start = (geneIv g ⟨X.start, a.j.ds⟩).start
      ∧ r.stop = (geneIv g ⟨X.start, a.j.ds⟩).stop := by
    rw [g2g_ok (by omega) (by omega), g2g_ok (by omega) (by omega)] at h
    unfold mkLoc at h; unfold geneIv
    cases hs : g.strand <;> simp only [hs] at h ⊢
    · rw [if_neg (by omega)] at h
      simp only [Except.ok.injEq] at h; subst h; refine ⟨rfl, ?_, ?_⟩ <;> simp only <;> omega
    · rw [if_neg (by omega)] at h
      simp only [Except.ok.injEq] at h; subst h; refine ⟨rfl, ?_, ?_⟩ <;> simp only <;> omega
  have hpre : InGene g pre := hin.left
  have hrest : InGene g rest := fun x hx => hin x (by simp [hx])
  have hM : InGene g [⟨X.start, a.j.ds⟩] := by
    intro x hx; simp only [List.mem_singleton] at hx; subst hx; simp only; omega
  have hB : InGene g (⟨a.j.ds, X.stop⟩ :: rest) := by
    intro x hx
    rcases List.mem_cons.mp hx with h | h
    · subst h; simp only; omega
    · exact hrest x h
  have key := apply_deletion (chrom := chrom) (g := g) (A := pre)
    (M := [⟨X.start, a.j.ds⟩]) (B := ⟨a.j.ds, X.stop⟩ :: rest) (Ps := X.start) (Pe := a.j.ds)
    (r := r) hpre hM hB hc hp
    (by intro x hx; simp only [List.mem_singleton] at hx; subst hx; simp only; omega)
    (by intro x hx; simp only [List.mem_singleton] at hx; subst hx; simp only; omega)
    (by
      intro x hx
      rcases List.mem_cons.mp hx with h | h
      · subst h; simp only; omega
      · have := hq x h; omega)
    (by omega) hr.1 hr.2.1 hr.2.2
  have hX' : X = ⟨X.start, X.stop⟩ := by cases X; rfl
  have e3 : pre ++ [⟨X.start, a.j.ds⟩] ++ ⟨a.j.ds, X.stop⟩ :: rest
      = pre ++ ⟨X.start, a.j.ds⟩ :: ⟨a.j.ds, X.stop⟩ :: rest := by simp
  have hbb : ∀ q, basesBefore g (pre ++ X :: rest) q
      = basesBefore g (pre ++ [⟨X.start, a.j.ds⟩] ++ ⟨a.j.ds, X.stop⟩ :: rest) q := by
    intro q
    rw [e3]
    conv => lhs; rw [hX']
    exact basesBefore_split2 g pre rest (by omega) (by omega) (by omega) (by omega) q
  have hseq : seqOfExons chrom g.strand (pre ++ X :: rest) = seqOfExons chrom g.strand
      (pre ++ [⟨X.start, a.j.ds⟩] ++ ⟨a.j.ds, X.stop⟩ :: rest) := by
    rw [e3]
    conv => lhs; rw [hX']
    exact (seqOfExons_merge2 chrom g.strand pre rest (by omega) (by omega)).symm
  rw [applyAS_congr hbb, hseq, key]

/-- `create_upstream_substitution` with the single interjacent exon `M` preceded by `P`: `M` is
replaced by the donor `[max(P.stop, us), ue)` -/
theorem upstream_substitution_spec {chrom : List Char} {g : Gene} {a : Aln}
    {pre rest : List Iv} {P M : Iv} {r : ASRec}
    (hin : InGene g (pre ++ P :: M :: rest)) (hc : g.loc.stop ≤ chrom.length)
    (hp : ∀ e ∈ pre, e.stop ≤ P.start) (hP : P.start < P.stop) (hPM : P.stop ≤ M.start)
    (hM : M.start < M.stop) (hq : ∀ e ∈ rest, M.stop ≤ e.start)
    (h1 : P.stop < a.j.ue) (h2 : a.j.ue ≤ M.start) (h3 : a.j.us < a.j.ue)
    (h : createUpstreamSubstitution a g (pre ++ P :: M :: rest) [pre.length + 1] = .ok r) :
    applyAS g (pre ++ P :: M :: rest)
        (seqOfExons chrom g.strand (pre ++ P :: M :: rest)) (geneSeq chrom g) r
      = seqOfExons chrom g.strand (pre ++ P :: ⟨max P.stop a.j.us, a.j.ue⟩ :: rest) := by
  have gP : (pre ++ P :: M :: rest)[pre.length]? = some P := by simp
  have gM : (pre ++ P :: M :: rest)[pre.length + 1]? = some M := by
    rw [List.getElem?_append_right (by omega)]; simp
  have hPin := hin P (by simp)
  have hMin := hin M (by simp)
  have hi : (((pre.length + 1 : Nat) : Int) - 1) = ((pre.length : Nat) : Int) := by omega
  unfold createUpstreamSubstitution at h
  simp only [firstIdx, lastIdx, List.head?_cons, List.getLast?_singleton, bind, Except.bind, pure,
    Except.pure, pyGet_nat _ _ _ gM, hi, pyGet_nat _ _ _ gP, Nat.zero_lt_succ, if_true] at h
  have hm1 : P.stop ≤ max P.stop a.j.us := by omega
  have hm2 : max P.stop a.j.us < a.j.ue := by omega
  generalize max P.stop a.j.us = m at h hm1 hm2 ⊢
  rw [g2g_ok (by omega) (by omega), g2g_ok (by omega) (by omega)] at h
  simp only at h
  rw [g2g_ok (by omega) (by omega), g2g_ok (by omega) (by omega)] at h
  have hr : r.kind = .substitution ∧ r.start = (geneIv g ⟨M.start, M.stop⟩).start
      ∧ r.stop = (geneIv g ⟨M.start, M.stop⟩).stop
      ∧ r.donorStart = (geneIv g ⟨m, a.j.ue⟩).start ∧ r.donorStop = (geneIv g ⟨m, a.j.ue⟩).stop := by
    unfold mkLoc at h; unfold geneIv
    cases hs : g.strand <;> simp only [hs] at h ⊢
    · rw [if_neg (by omega)] at h
      simp only [Except.ok.injEq] at h; subst h
      refine ⟨rfl, ?_, ?_, ?_, ?_⟩ <;> simp only <;> omega
    · rw [if_neg (by omega)] at h
      simp only [Except.ok.injEq] at h; subst h
      refine ⟨rfl, ?_, ?_, ?_, ?_⟩ <;> simp only <;> omega
  have hDin : InGene g [⟨m, a.j.ue⟩] := by
    intro x hx; simp only [List.mem_singleton] at hx; subst hx; simp only; omega
  have e1 : pre ++ P :: M :: rest = (pre ++ [P]) ++ [M] ++ rest := by simp
  have e2 : pre ++ P :: ⟨m, a.j.ue⟩ :: rest = (pre ++ [P]) ++ ⟨m, a.j.ue⟩ :: rest := by simp
  rw [e1, e2]
  rw [e1] at hin
  exact apply_substitution (chrom := chrom) (Ps := M.start) (Pe := M.stop) hin.left.left
    hin.left.right hin.right hDin hc
    (by
      intro x hx
      rcases List.mem_append.mp hx with h | h
      · have := hp x h; omega
      · simp only [List.mem_singleton] at h; subst h; omega)
    (by intro x hx; simp only [List.mem_singleton] at hx; subst hx; omega)
    (by intro x hx; simp only [List.mem_singleton] at hx; subst hx; omega)
    hq (by omega) hr.1 hr.2.1 hr.2.2.1 hr.2.2.2.1 hr.2.2.2.2

/-- `create_downstream_substitution` with the single interjacent exon `M` followed by `Q`: `M`
is replaced by the donor `[ds, min(Q.start, de))` -/
theorem downstream_substitution_spec {chrom : List Char} {g : Gene} {a : Aln}
    {pre post : List Iv} {M Q : Iv} {r : ASRec}
    (hin : InGene g (pre ++ M :: Q :: post)) (hc : g.loc.stop ≤ chrom.length)
    (hp : ∀ e ∈ pre, e.stop ≤ M.start) (hM : M.start < M.stop) (hMQ : M.stop ≤ Q.start)
    (hQ : Q.start < Q.stop) (hq : ∀ e ∈ post, Q.stop ≤ e.start)
    (h1 : M.stop ≤ a.j.ds) (h2 : a.j.ds < Q.start) (h3 : a.j.ds < a.j.de)
    (h : createDownstreamSubstitution a g (pre ++ M :: Q :: post) [pre.length] = .ok r) :
    applyAS g (pre ++ M :: Q :: post)
        (seqOfExons chrom g.strand (pre ++ M :: Q :: post)) (geneSeq chrom g) r
      = seqOfExons chrom g.strand (pre ++ ⟨a.j.ds, min Q.start a.j.de⟩ :: Q :: post) := by
  have gM : (pre ++ M :: Q :: post)[pre.length]? = some M := by simp
  have gQ : (pre ++ M :: Q :: post)[pre.length + 1]? = some Q := by
    rw [List.getElem?_append_right (by omega)]; simp
  have hMin := hin M (by simp)
  have hQin := hin Q (by simp)
  have hi : (((pre.length : Nat) : Int) + 1) = ((pre.length + 1 : Nat) : Int) := by omega
  have hl : pre.length + 1 < (pre ++ M :: Q :: post).length := by
    simp only [List.length_append, List.length_cons]; omega
  unfold createDownstreamSubstitution at h
  simp only [firstIdx, lastIdx, List.head?_cons, List.getLast?_singleton, bind, Except.bind, pure,
    Except.pure, pyGet_nat _ _ _ gM, hi, pyGet_nat _ _ _ gQ, hl, if_true] at h
  have hm1 : a.j.ds < min Q.start a.j.de := by omega
  have hm2 : min Q.start a.j.de ≤ Q.start := by omega
  generalize min Q.start a.j.de = m at h hm1 hm2 ⊢
  rw [g2g_ok (by omega) (by omega), g2g_ok (by omega) (by omega)] at h
  simp only at h
  rw [g2g_ok (by omega) (by omega), g2g_ok (by omega) (by omega)] at h
  have hr : r.kind = .substitution ∧ r.start = (geneIv g ⟨M.start, M.stop⟩).start
      ∧ r.stop = (geneIv g ⟨M.start, M.stop⟩).stop
      ∧ r.donorStart = (geneIv g ⟨a.j.ds, m⟩).start ∧ r.donorStop = (geneIv g ⟨a.j.ds, m⟩).stop := by
    unfold mkLoc at h; unfold geneIv
    cases hs : g.strand <;> simp only [hs] at h ⊢
    · rw [if_neg (by omega)] at h
      simp only [Except.ok.injEq] at h; subst h
      refine ⟨rfl, ?_, ?_, ?_, ?_⟩ <;> simp only <;> omega
    · rw [if_neg (by omega)] at h
      simp only [Except.ok.injEq] at h; subst h
      refine ⟨rfl, ?_, ?_, ?_, ?_⟩ <;> simp only <;> omega
  have hDin : InGene g [⟨a.j.ds, m⟩] := by
    intro x hx; simp only [List.mem_singleton] at hx; subst hx; simp only; omega
  have e1 : pre ++ M :: Q :: post = pre ++ [M] ++ Q :: post := by simp
  rw [e1]
  rw [e1] at hin
  exact apply_substitution (chrom := chrom) (Ps := M.start) (Pe := M.stop) hin.left.left
    hin.left.right hin.right hDin hc hp
    (by intro x hx; simp only [List.mem_singleton] at hx; subst hx; omega)
    (by intro x hx; simp only [List.mem_singleton] at hx; subst hx; omega)
    (by
      intro x hx
      rcases List.mem_cons.mp hx with h | h
      · subst h; omega
      · have := hq x h; omega)
    (by omega) hr.1 hr.2.1 hr.2.2.1 hr.2.2.2.1 hr.2.2.2.2

/-! ## which constructor the cascade reaches -/

theorem convUpstream_del {a : Aln} {g : Gene} {es : List Iv} {inter : List Nat} {k : Nat}
    (h1 : a.uei = -1 ∨ inter ≠ []) (hs : getUpstreamEndSpanning a es = (k : Int)) :
    convUpstream a g es inter = (do let v ← createUpstreamDeletion a g es (k : Int) inter; pure [v]) := by
  unfold convUpstream
  rw [if_pos h1]
  simp only [hs]
  rw [if_pos (by omega)]

theorem convUpstream_sub {a : Aln} {g : Gene} {es : List Iv} {inter : List Nat}
    (h1 : inter ≠ []) (hs : getUpstreamEndSpanning a es = -1) :
    convUpstream a g es inter = (do let v ← createUpstreamSubstitution a g es inter; pure [v]) := by
  unfold convUpstream
  rw [if_pos (Or.inr h1)]
  simp only [hs]
  rw [if_neg (by omega), if_pos h1]

theorem convUpstream_ins {a : Aln} {g : Gene} {es : List Iv}
    (hu : a.uei = -1) (hs : getUpstreamEndSpanning a es = -1) (hd : a.dsi > 0) :
    convUpstream a g es [] = (do let v ← createUpstreamInsertion a g es; pure [v]) := by
  unfold convUpstream
  rw [if_pos (Or.inl hu)]
  simp only [hs]
  rw [if_neg (by omega), if_neg (by simp), if_pos hd]

theorem convDownstream_del {a : Aln} {g : Gene} {es : List Iv} {inter : List Nat} {k : Nat}
    (h1 : a.dsi = -1 ∨ inter ≠ []) (hs : getDownstreamStartSpanning a es = (k : Int)) :
    convDownstream a g es inter
      = (do let v ← createDownstreamDeletion a g es (k : Int) inter; pure [v]) := by
  unfold convDownstream
  rw [if_pos h1]
  simp only [hs]
  rw [if_pos (by omega)]

theorem convDownstream_sub {a : Aln} {g : Gene} {es : List Iv} {inter : List Nat}
    (h1 : inter ≠ []) (hs : getDownstreamStartSpanning a es = -1) :
    convDownstream a g es inter
      = (do let v ← createDownstreamSubstitution a g es inter; pure [v]) := by
  unfold convDownstream
  rw [if_pos (Or.inr h1)]
  simp only [hs]
  rw [if_neg (by omega), if_pos h1]

theorem convDownstream_ins_mem {a : Aln} {g : Gene} {es : List Iv} {rs : List ASRec} {r : ASRec}
    (hd : a.dsi = -1) (hs : getDownstreamStartSpanning a es = -1)
    (h : convDownstream a g es [] = .ok rs) (hr : r ∈ rs) :
    createDownstreamInsertion a g es = .ok r := by
  unfold convDownstream at h
  rw [if_pos (Or.inl hd)] at h
  simp only [hs] at h
  rw [if_neg (by omega), if_neg (by simp)] at h
  by_cases hc : -1 < a.dei ∧ a.dei < (es.length : Int) - 1
  · rw [if_pos hc] at h; exact single_mem h hr
  · rw [if_neg hc] at h; cases h; cases hr

/-- known junction, plus strand: the only record is the downstream deletion -/
theorem convKnown_plus_del_mem {a : Aln} {g : Gene} {t : Transcript} {inter : List Nat} {k : Nat}
    {rs : List ASRec} {r : ASRec} (hst : t.strand = .plus)
    (h1 : a.dsi = -1 ∨ inter ≠ []) (hs : getDownstreamStartSpanning a t.exons = (k : Int))
    (h : convKnown a g t inter = .ok rs) (hr : r ∈ rs) :
    createDownstreamDeletion a g t.exons (k : Int) inter = .ok r := by
  unfold convKnown at h
  simp only [hst] at h
  by_cases hb : (decide (a.uei ≠ -1) && decide (t.spanStart < a.j.ue)) = true
  · rw [if_pos hb, if_pos h1] at h
    simp only [hs] at h
    rw [if_pos (by omega)] at h
    exact single_mem h hr
  · rw [if_neg hb] at h; cases h; cases hr

/-- known junction, minus strand: the only record is the upstream deletion -/
theorem convKnown_minus_del_mem {a : Aln} {g : Gene} {t : Transcript} {inter : List Nat} {k : Nat}
    {rs : List ASRec} {r : ASRec} (hst : t.strand = .minus)
    (h1 : a.uei = -1 ∨ inter ≠ []) (hs : getUpstreamEndSpanning a t.exons = (k : Int))
    (h : convKnown a g t inter = .ok rs) (hr : r ∈ rs) :
    createUpstreamDeletion a g t.exons (k : Int) inter = .ok r := by
  unfold convKnown at h
  simp only [hst] at h
  by_cases hb : (decide (a.dsi ≠ -1) && decide (t.spanStop > a.j.ds + 1)) = true
  · rw [if_pos hb] at h
    simp only [hs] at h
    rw [if_pos h1, if_pos (by omega)] at h
    exact single_mem h hr
  · rw [if_neg hb] at h; cases h; cases hr

/-! ## the junction cases of the four event types, from `align_to_transcript` to the sequence -/

/- case analysis over `e ∈ pre ++ P :: Q :: post`, each case closed by `omega` with the chain
facts in the context -/
set_option hygiene false in
macro "chain2_mem" hp:ident hq:ident : tactic =>
  `(tactic| (intro e he
             simp only [List.mem_append, List.mem_cons, List.mem_singleton] at he
             rcases he with he | rfl | rfl | he <;>
               first | omega | (have := $hp e he; omega) | (have := $hq e he; omega)))

set_option hygiene false in
macro "chain3_mem" hp:ident hq:ident : tactic =>
  `(tactic| (intro e he
             simp only [List.mem_append, List.mem_cons, List.mem_singleton] at he
             rcases he with he | rfl | rfl | rfl | he <;>
               first | omega | (have := $hp e he; omega) | (have := $hq e he; omega)))

/-- **adjacent.** The junction joins two exons that are consecutive in the transcript:
no record, whatever the novelty flags. -/
theorem alignConvert_adjacent {j : Junction} {g : Gene} {t : Transcript} {un dn : Bool}
    {pre post : List Iv} {P Q : Iv} (he : t.exons = pre ++ P :: Q :: post)
    (hch : Chain2 pre post P Q) (h1 : j.ue = P.stop) (h2 : j.ds = Q.start) :
    alignConvert j g t un dn = .ok [] := by
  obtain ⟨hp, hP, hPQ, hQ, hq⟩ := hch
  have huei : exonWithEnd t.exons j.ue = (pre.length : Int) := by
    rw [he]; exact exonWithEnd_hit (fun e h => by have := hp e h; omega) h1.symm
  have hdsi : exonWithStart t.exons j.ds = (pre.length : Int) + 1 := by
    have e2 : t.exons = (pre ++ [P]) ++ Q :: post := by simp [he]
    rw [e2, exonWithStart_hit (by
      intro e h
      rcases List.mem_append.mp h with h | h
      · have := hp e h; omega
      · simp only [List.mem_singleton] at h; subst h; omega) h2.symm]
    simp
  have hal : align j t.exons un dn = some (alnOf j t.exons un dn) := by
    unfold align
    simp only [huei, hdsi]
    rw [if_neg (fun h => by omega), if_neg (fun h => by omega)]
    unfold alnOf; simp only [huei, hdsi]
  unfold alignConvert
  rw [hal]
  apply convertAln_adjacent
  · have hu : (alnOf j t.exons un dn).uei = (pre.length : Int) := huei
    have hd : (alnOf j t.exons un dn).dsi ≠ 0 := by
      show exonWithStart t.exons j.ds ≠ 0
      omega
    rw [he] at hu hd ⊢
    rw [getInterjacent_fwd hu hd (by simp)]
    have : (alnOf j (pre ++ P :: Q :: post) un dn).j = j := rfl
    rw [this, interFwd_stop (interjacentTest_false (by omega)) (interjacentBreak_true (by omega))]
  · show exonWithEnd t.exons j.ue ≠ -1
    omega
  · show exonWithStart t.exons j.ds ≠ -1
    omega

/-- **upstream-novel junction ending in the intron before the aligned downstream exon.**
Transcript `… P Q …`, junction `(us, ue) → Q` with `P.stop < ue ≤ Q.start`: the only record is the
Insertion of `[max(P.stop, us), ue)` between `P` and `Q`. -/
theorem alignConvert_un_intron {chrom : List Char} {g : Gene} {t : Transcript} {j : Junction}
    {pre post : List Iv} {P Q : Iv} {rs : List ASRec} {r : ASRec}
    (he : t.exons = pre ++ P :: Q :: post) (hw : t.WF) (hg : t.Within g)
    (hc : g.loc.stop ≤ chrom.length)
    (hd : j.ds = Q.start) (h1 : P.stop < j.ue) (h2 : j.ue ≤ Q.start) (h3 : j.us < j.ue)
    (h : alignConvert j g t true false = .ok rs) (hr : r ∈ rs) :
    applyAS g t.exons (seqOfExons chrom t.strand t.exons) (geneSeq chrom g) r
      = seqOfExons chrom t.strand (pre ++ P :: ⟨max P.stop j.us, j.ue⟩ :: Q :: post) := by
  have hch := chain2_of_wf hw he
  have hin := inGene_of_within hw hg
  obtain ⟨hp, hP, hPQ, hQ, hq⟩ := id hch
  have e2 : pre ++ P :: Q :: post = (pre ++ [P]) ++ Q :: post := by simp
  have hdsi : exonWithStart t.exons j.ds = (pre.length : Int) + 1 := by
    rw [he, e2, exonWithStart_hit (by
      intro e h
      rcases List.mem_append.mp h with h | h
      · have := hp e h; omega
      · simp only [List.mem_singleton] at h; subst h; omega) hd.symm]
    simp
  have huei : exonWithEnd t.exons j.ue = -1 := by
    rw [he]; exact exonWithEnd_none (by chain2_mem hp hq)
  rw [alignConvert_un (by omega)] at h
  generalize ha : alnOf j t.exons true false = a at h
  have haj : a.j = j := by rw [← ha]; rfl
  have hau : a.uei = -1 := by rw [← ha]; exact huei
  have had : a.dsi = ((pre ++ [P]).length : Int) := by rw [← ha]; simp; exact hdsi
  have hun : a.un = true := by rw [← ha]; rfl
  have hdn : a.dn = false := by rw [← ha]; rfl
  have hinter : getInterjacent a t.exons = .ok [] := by
    rw [he, e2, getInterjacent_bwd hau had (by simp)]
    simp only [List.reverse_append, List.reverse_cons, List.reverse_nil, List.nil_append,
      List.singleton_append, haj]
    rw [interBwd_stop (interjacentTest_false (by omega)) (interjacentBreak_true (by omega))]
    rfl
  have hsp : getUpstreamEndSpanning a t.exons = -1 := by
    rw [he, e2, getUpstreamEndSpanning_bwd (by rw [haj]; omega) had]
    apply idxWhereDown_none
    intro e hm
    rw [haj]
    apply contains_false
    simp only [List.mem_reverse, List.mem_append, List.mem_singleton] at hm
    rcases hm with hm | rfl
    · have := hp e hm; omega
    · omega
  rw [convertAln_un hun hdn hinter, convUpstream_ins hau hsp (by rw [had]; simp)] at h
  have hrec := single_mem h hr
  rw [hg.1, he] at *
  rw [← haj]
  exact upstream_insertion_spec hin hc hch (by rw [had]; simp) (by rw [haj]; exact hd)
    (by rw [haj]; exact h1) (by rw [haj]; exact h2) (by rw [haj]; exact h3) hrec

/-- **upstream-novel junction ending inside the exon before the aligned downstream exon.**
Transcript `… P Q …`, junction `(us, ue) → Q` with `P.start < ue < P.stop`: the only record is the
Deletion of `[ue, P.stop)`. -/
theorem alignConvert_un_inside {chrom : List Char} {g : Gene} {t : Transcript} {j : Junction}
    {pre post : List Iv} {P Q : Iv} {rs : List ASRec} {r : ASRec}
    (he : t.exons = pre ++ P :: Q :: post) (hw : t.WF) (hg : t.Within g)
    (hc : g.loc.stop ≤ chrom.length)
    (hd : j.ds = Q.start) (h1 : P.start < j.ue) (h2 : j.ue < P.stop)
    (h : alignConvert j g t true false = .ok rs) (hr : r ∈ rs) :
    applyAS g t.exons (seqOfExons chrom t.strand t.exons) (geneSeq chrom g) r
      = seqOfExons chrom t.strand (pre ++ ⟨P.start, j.ue⟩ :: Q :: post) := by
  have hch := chain2_of_wf hw he
  have hin := inGene_of_within hw hg
  obtain ⟨hp, hP, hPQ, hQ, hq⟩ := id hch
  have e2 : pre ++ P :: Q :: post = (pre ++ [P]) ++ Q :: post := by simp
  have hdsi : exonWithStart t.exons j.ds = (pre.length : Int) + 1 := by
    rw [he, e2, exonWithStart_hit (by
      intro e h
      rcases List.mem_append.mp h with h | h
      · have := hp e h; omega
      · simp only [List.mem_singleton] at h; subst h; omega) hd.symm]
    simp
  have huei : exonWithEnd t.exons j.ue = -1 := by
    rw [he]; exact exonWithEnd_none (by chain2_mem hp hq)
  rw [alignConvert_un (by omega)] at h
  generalize ha : alnOf j t.exons true false = a at h
  have haj : a.j = j := by rw [← ha]; rfl
  have hau : a.uei = -1 := by rw [← ha]; exact huei
  have had : a.dsi = ((pre ++ [P]).length : Int) := by rw [← ha]; simp; exact hdsi
  have hun : a.un = true := by rw [← ha]; rfl
  have hdn : a.dn = false := by rw [← ha]; rfl
  have hinter : getInterjacent a t.exons = .ok [] := by
    rw [he, e2, getInterjacent_bwd hau had (by simp)]
    simp only [List.reverse_append, List.reverse_cons, List.reverse_nil, List.nil_append,
      List.singleton_append, haj]
    rw [interBwd_skip (interjacentTest_false (by omega)) (interjacentBreak_false (by omega) (by omega)),
      interBwd_below (by
        intro e hm
        have := hp e (List.mem_reverse.mp hm); omega)]
    rfl
  have hsp : getUpstreamEndSpanning a t.exons = ((pre.length : Nat) : Int) := by
    rw [he, e2, getUpstreamEndSpanning_bwd (by rw [haj]; omega) had]
    simp only [List.reverse_append, List.reverse_cons, List.reverse_nil, List.nil_append,
      List.singleton_append, haj]
    unfold idxWhereDown
    rw [contains_true (by omega) (by omega)]
    simp
  rw [convertAln_un hun hdn hinter, convUpstream_del (Or.inl hau) hsp] at h
  have hrec := single_mem h hr
  rw [hg.1, he] at *
  rw [← haj]
  exact upstream_deletion_inside_spec hin hc (fun e h => by have := hp e h; omega)
    (by
      intro e h
      rcases List.mem_cons.mp h with rfl | h
      · omega
      · have := hq e h; omega)
    (by rw [haj]; exact h1) (by rw [haj]; exact h2) hrec

/-- **upstream-novel junction with one interjacent exon.**  Transcript `… P M Q …`, junction
`(us, ue) → Q` with `P.stop < ue ≤ M.start`: the only record is the Substitution of `M` by
`[max(P.stop, us), ue)`. -/
theorem alignConvert_un_subst {chrom : List Char} {g : Gene} {t : Transcript} {j : Junction}
    {pre post : List Iv} {P M Q : Iv} {rs : List ASRec} {r : ASRec}
    (he : t.exons = pre ++ P :: M :: Q :: post) (hw : t.WF) (hg : t.Within g)
    (hc : g.loc.stop ≤ chrom.length)
    (hd : j.ds = Q.start) (h1 : P.stop < j.ue) (h2 : j.ue ≤ M.start) (h3 : j.us < j.ue)
    (h : alignConvert j g t true false = .ok rs) (hr : r ∈ rs) :
    applyAS g t.exons (seqOfExons chrom t.strand t.exons) (geneSeq chrom g) r
      = seqOfExons chrom t.strand (pre ++ P :: ⟨max P.stop j.us, j.ue⟩ :: Q :: post) := by
  have hch := chain3_of_wf hw he
  have hin := inGene_of_within hw hg
  obtain ⟨hp, hP, hPM, hM, hMQ, hQ, hq⟩ := id hch
  have e2 : pre ++ P :: M :: Q :: post = (pre ++ [P, M]) ++ Q :: post := by simp
  have hdsi : exonWithStart t.exons j.ds = (pre.length : Int) + 2 := by
    rw [he, e2, exonWithStart_hit (by
      intro e h
      simp only [List.mem_append, List.mem_cons, List.not_mem_nil, or_false] at h
      rcases h with h | rfl | rfl
      · have := hp e h; omega
      · omega
      · omega) hd.symm]
    simp
  have huei : exonWithEnd t.exons j.ue = -1 := by
    rw [he]; exact exonWithEnd_none (by chain3_mem hp hq)
  rw [alignConvert_un (by omega)] at h
  generalize ha : alnOf j t.exons true false = a at h
  have haj : a.j = j := by rw [← ha]; rfl
  have hau : a.uei = -1 := by rw [← ha]; exact huei
  have had : a.dsi = ((pre ++ [P, M]).length : Int) := by rw [← ha]; simp; exact hdsi
  have hun : a.un = true := by rw [← ha]; rfl
  have hdn : a.dn = false := by rw [← ha]; rfl
  have hinter : getInterjacent a t.exons = .ok [pre.length + 1] := by
    rw [he, e2, getInterjacent_bwd hau had (by simp)]
    simp only [List.reverse_append, List.reverse_cons, List.reverse_nil, List.nil_append,
      List.singleton_append, List.cons_append, haj]
    rw [interBwd_hit (interjacentTest_true (by omega) (by omega) (by omega))
        (interjacentBreak_false (by omega) (by omega)),
      interBwd_stop (interjacentTest_false (by omega)) (interjacentBreak_true (by omega))]
    simp
  have hsp : getUpstreamEndSpanning a t.exons = -1 := by
    rw [he, e2, getUpstreamEndSpanning_bwd (by rw [haj]; omega) had]
    apply idxWhereDown_none
    intro e hm
    rw [haj]
    apply contains_false
    simp only [List.mem_reverse, List.mem_append, List.mem_cons, List.not_mem_nil, or_false] at hm
    rcases hm with hm | rfl | rfl
    · have := hp e hm; omega
    · omega
    · omega
  rw [convertAln_un hun hdn hinter, convUpstream_sub (by simp) hsp] at h
  have hrec := single_mem h hr
  rw [hg.1, he] at *
  rw [← haj]
  exact upstream_substitution_spec hin hc (fun e h => by have := hp e h; omega) hP (by omega) hM
    (by
      intro e h
      rcases List.mem_cons.mp h with rfl | h
      · omega
      · have := hq e h; omega)
    (by rw [haj]; exact h1) (by rw [haj]; exact h2) (by rw [haj]; exact h3) hrec

/-- **downstream-novel junction starting in the intron after the aligned upstream exon.**
Transcript `… P Q …`, junction `P → (ds, de)` with `P.stop ≤ ds < Q.start`: the only record is
the Insertion of `[ds, min(Q.start, de))` between `P` and `Q`. -/
theorem alignConvert_dn_intron {chrom : List Char} {g : Gene} {t : Transcript} {j : Junction}
    {pre post : List Iv} {P Q : Iv} {rs : List ASRec} {r : ASRec}
    (he : t.exons = pre ++ P :: Q :: post) (hw : t.WF) (hg : t.Within g)
    (hc : g.loc.stop ≤ chrom.length)
    (hu : j.ue = P.stop) (h1 : P.stop ≤ j.ds) (h2 : j.ds < Q.start) (h3 : j.ds < j.de)
    (h : alignConvert j g t false true = .ok rs) (hr : r ∈ rs) :
    applyAS g t.exons (seqOfExons chrom t.strand t.exons) (geneSeq chrom g) r
      = seqOfExons chrom t.strand (pre ++ P :: ⟨j.ds, min Q.start j.de⟩ :: Q :: post) := by
  have hch := chain2_of_wf hw he
  have hin := inGene_of_within hw hg
  obtain ⟨hp, hP, hPQ, hQ, hq⟩ := id hch
  have huei : exonWithEnd t.exons j.ue = (pre.length : Int) := by
    rw [he]; exact exonWithEnd_hit (fun e h => by have := hp e h; omega) hu.symm
  have hdsi : exonWithStart t.exons j.ds = -1 := by
    rw [he]; exact exonWithStart_none (by chain2_mem hp hq)
  rw [alignConvert_dn (by omega)] at h
  generalize ha : alnOf j t.exons false true = a at h
  have haj : a.j = j := by rw [← ha]; rfl
  have hau : a.uei = (pre.length : Int) := by rw [← ha]; exact huei
  have had : a.dsi = -1 := by rw [← ha]; exact hdsi
  have hun : a.un = false := by rw [← ha]; rfl
  have hdn : a.dn = true := by rw [← ha]; rfl
  have hinter : getInterjacent a t.exons = .ok [] := by
    rw [he, getInterjacent_fwd hau (by omega) (by simp), haj,
      interFwd_stop (interjacentTest_false (by omega)) (interjacentBreak_true (by omega))]
  have hsp : getDownstreamStartSpanning a t.exons = -1 := by
    rw [he, getDownstreamStartSpanning_fwd hau]
    apply idxWhere_none
    intro e hm
    rw [haj]
    apply contains_false
    rcases List.mem_cons.mp hm with rfl | hm
    · omega
    · have := hq e hm; omega
  rw [convertAln_dn hun hdn hinter] at h
  have hrec := convDownstream_ins_mem had hsp h hr
  rw [hg.1, he] at *
  rw [← haj]
  exact downstream_insertion_spec hin hc hch hau (by rw [haj]; exact hu)
    (by rw [haj]; exact h1) (by rw [haj]; exact h2) (by rw [haj]; exact h3) hrec

/-- **downstream-novel junction starting inside the exon after the aligned upstream exon.**
Transcript `… P X …`, junction `P → (ds, de)` with `X.start < ds < X.stop`: the only record is
the Deletion of `[X.start, ds)`. -/
theorem alignConvert_dn_inside {chrom : List Char} {g : Gene} {t : Transcript} {j : Junction}
    {pre post : List Iv} {P X : Iv} {rs : List ASRec} {r : ASRec}
    (he : t.exons = pre ++ P :: X :: post) (hw : t.WF) (hg : t.Within g)
    (hc : g.loc.stop ≤ chrom.length)
    (hu : j.ue = P.stop) (h1 : X.start < j.ds) (h2 : j.ds < X.stop)
    (h : alignConvert j g t false true = .ok rs) (hr : r ∈ rs) :
    applyAS g t.exons (seqOfExons chrom t.strand t.exons) (geneSeq chrom g) r
      = seqOfExons chrom t.strand (pre ++ P :: ⟨j.ds, X.stop⟩ :: post) := by
  have hch := chain2_of_wf hw he
  have hin := inGene_of_within hw hg
  obtain ⟨hp, hP, hPQ, hQ, hq⟩ := id hch
  have huei : exonWithEnd t.exons j.ue = (pre.length : Int) := by
    rw [he]; exact exonWithEnd_hit (fun e h => by have := hp e h; omega) hu.symm
  have hdsi : exonWithStart t.exons j.ds = -1 := by
    rw [he]; exact exonWithStart_none (by chain2_mem hp hq)
  rw [alignConvert_dn (by omega)] at h
  generalize ha : alnOf j t.exons false true = a at h
  have haj : a.j = j := by rw [← ha]; rfl
  have hau : a.uei = (pre.length : Int) := by rw [← ha]; exact huei
  have had : a.dsi = -1 := by rw [← ha]; exact hdsi
  have hun : a.un = false := by rw [← ha]; rfl
  have hdn : a.dn = true := by rw [← ha]; rfl
  have hinter : getInterjacent a t.exons = .ok [] := by
    rw [he, getInterjacent_fwd hau (by omega) (by simp), haj,
      interFwd_skip (interjacentTest_false (by omega)) (interjacentBreak_false (by omega) (by omega)),
      interFwd_above (by intro e hm; have := hq e hm; omega)]
  have hsp : getDownstreamStartSpanning a t.exons = (((pre ++ [P]).length : Nat) : Int) := by
    rw [he, getDownstreamStartSpanning_fwd hau, haj]
    unfold idxWhere
    rw [contains_true (by omega) (by omega)]
    simp
  rw [convertAln_dn hun hdn hinter, convDownstream_del (Or.inl had) hsp] at h
  have hrec := single_mem h hr
  have e2 : pre ++ P :: X :: post = (pre ++ [P]) ++ X :: post := by simp
  have e3 : pre ++ P :: ⟨j.ds, X.stop⟩ :: post = (pre ++ [P]) ++ ⟨j.ds, X.stop⟩ :: post := by simp
  rw [hg.1, he] at *
  rw [e3, ← haj]
  rw [e2] at hrec hin ⊢
  exact downstream_deletion_inside_spec hin hc
    (by
      intro e h
      rcases List.mem_append.mp h with h | h
      · have := hp e h; omega
      · simp only [List.mem_singleton] at h; subst h; omega)
    (fun e h => by have := hq e h; omega)
    (by rw [haj]; exact h1) (by rw [haj]; exact h2) hrec

/-- **downstream-novel junction with one interjacent exon.**  Transcript `… P M Q …`, junction
`P → (ds, de)` with `M.stop ≤ ds < Q.start`: the only record is the Substitution of `M` by
`[ds, min(Q.start, de))`. -/
theorem alignConvert_dn_subst {chrom : List Char} {g : Gene} {t : Transcript} {j : Junction}
    {pre post : List Iv} {P M Q : Iv} {rs : List ASRec} {r : ASRec}
    (he : t.exons = pre ++ P :: M :: Q :: post) (hw : t.WF) (hg : t.Within g)
    (hc : g.loc.stop ≤ chrom.length)
    (hu : j.ue = P.stop) (h1 : M.stop ≤ j.ds) (h2 : j.ds < Q.start) (h3 : j.ds < j.de)
    (h : alignConvert j g t false true = .ok rs) (hr : r ∈ rs) :
    applyAS g t.exons (seqOfExons chrom t.strand t.exons) (geneSeq chrom g) r
      = seqOfExons chrom t.strand (pre ++ P :: ⟨j.ds, min Q.start j.de⟩ :: Q :: post) := by
  have hch := chain3_of_wf hw he
  have hin := inGene_of_within hw hg
  obtain ⟨hp, hP, hPM, hM, hMQ, hQ, hq⟩ := id hch
  have huei : exonWithEnd t.exons j.ue = (pre.length : Int) := by
    rw [he]; exact exonWithEnd_hit (fun e h => by have := hp e h; omega) hu.symm
  have hdsi : exonWithStart t.exons j.ds = -1 := by
    rw [he]; exact exonWithStart_none (by chain3_mem hp hq)
  rw [alignConvert_dn (by omega)] at h
  generalize ha : alnOf j t.exons false true = a at h
  have haj : a.j = j := by rw [← ha]; rfl
  have hau : a.uei = (pre.length : Int) := by rw [← ha]; exact huei
  have had : a.dsi = -1 := by rw [← ha]; exact hdsi
  have hun : a.un = false := by rw [← ha]; rfl
  have hdn : a.dn = true := by rw [← ha]; rfl
  have hinter : getInterjacent a t.exons = .ok [(pre ++ [P]).length] := by
    rw [he, getInterjacent_fwd hau (by omega) (by simp), haj,
      interFwd_hit (interjacentTest_true (by omega) (by omega) (by omega))
        (interjacentBreak_false (by omega) (by omega)),
      interFwd_stop (interjacentTest_false (by omega)) (interjacentBreak_true (by omega))]
    simp
  have hsp : getDownstreamStartSpanning a t.exons = -1 := by
    rw [he, getDownstreamStartSpanning_fwd hau]
    apply idxWhere_none
    intro e hm
    rw [haj]
    apply contains_false
    simp only [List.mem_cons] at hm
    rcases hm with rfl | rfl | hm
    · omega
    · omega
    · have := hq e hm; omega
  rw [convertAln_dn hun hdn hinter, convDownstream_sub (by simp) hsp] at h
  have hrec := single_mem h hr
  have e2 : pre ++ P :: M :: Q :: post = (pre ++ [P]) ++ M :: Q :: post := by simp
  have e3 : pre ++ P :: ⟨j.ds, min Q.start j.de⟩ :: Q :: post
      = (pre ++ [P]) ++ ⟨j.ds, min Q.start j.de⟩ :: Q :: post := by simp
  rw [hg.1, he] at *
  rw [e3, ← haj]
  rw [e2] at hrec hin ⊢
  exact downstream_substitution_spec hin hc
    (by
      intro e h
      rcases List.mem_append.mp h with h | h
      · have := hp e h; omega
      · simp only [List.mem_singleton] at h; subst h; omega)
    hM (by omega) hQ (fun e h => by have := hq e h; omega)
    (by rw [haj]; exact h1) (by rw [haj]; exact h2) (by rw [haj]; exact h3) hrec

/-! ## forward direction: the record each constructor returns (for the `_exact` theorems) -/

/-- the Deletion record of the genomic region `[a, b)` -/
def delRec (g : Gene) (x : Iv) : ASRec := ⟨.deletion, (geneIv g x).start, (geneIv g x).stop, 0, 0⟩

theorem downstream_deletion_skip_ok {g : Gene} {a : Aln} {pre post : List Iv} {U E D : Iv}
    (hin : InGene g (pre ++ U :: E :: D :: post)) (hE : E.start < E.stop)
    (hDs : D.start = a.j.ds) :
    createDownstreamDeletion a g (pre ++ U :: E :: D :: post) ((pre.length + 2 : Nat) : Int)
        [pre.length + 1] = .ok (delRec g E) := by
  have gE : (pre ++ U :: E :: D :: post)[pre.length + 1]? = some E := by
    rw [List.getElem?_append_right (by omega)]; simp
  have gD : (pre ++ U :: E :: D :: post)[pre.length + 2]? = some D := by
    rw [List.getElem?_append_right (by omega)]; simp
  have hEin := hin E (by simp)
  unfold createDownstreamDeletion
  simp only [ne_eq, List.cons_ne_self, not_false_eq_true, if_true, firstIdx, lastIdx,
    List.head?_cons, List.getLast?_singleton, bind, Except.bind, pure, Except.pure,
    pyGet_nat _ _ _ gE, pyGet_nat _ _ _ gD, hDs]
  rw [g2g_ok (by omega) (by omega)]
  simp only
  rw [g2g_ok (by omega) (by omega)]
  unfold mkLoc delRec geneIv
  cases hs : g.strand <;> simp only
  · rw [if_neg (by omega)]
    simp only [Except.ok.injEq, ASRec.mk.injEq, true_and, and_true]
    omega
  · rw [if_neg (by omega)]
    simp only [Except.ok.injEq, ASRec.mk.injEq, true_and, and_true]
    omega

theorem upstream_deletion_skip_ok {g : Gene} {a : Aln} {pre post : List Iv} {U E D : Iv}
    (hin : InGene g (pre ++ U :: E :: D :: post)) (hE : E.start < E.stop)
    (hUs : U.stop = a.j.ue) :
    createUpstreamDeletion a g (pre ++ U :: E :: D :: post) ((pre.length : Nat) : Int)
        [pre.length + 1] = .ok (delRec g E) := by
  have gE : (pre ++ U :: E :: D :: post)[pre.length + 1]? = some E := by
    rw [List.getElem?_append_right (by omega)]; simp
  have gU : (pre ++ U :: E :: D :: post)[pre.length]? = some U := by simp
  have hEin := hin E (by simp)
  unfold createUpstreamDeletion
  simp only [ne_eq, List.cons_ne_self, not_false_eq_true, if_true, firstIdx, lastIdx,
    List.head?_cons, List.getLast?_singleton, bind, Except.bind, pure, Except.pure,
    pyGet_nat _ _ _ gE, pyGet_nat _ _ _ gU, hUs]
  rw [g2g_ok (by omega) (by omega)]
  simp only
  rw [g2g_ok (by omega) (by omega)]
  unfold mkLoc delRec geneIv
  cases hs : g.strand <;> simp only
  · rw [if_neg (by omega)]
    simp only [Except.ok.injEq, ASRec.mk.injEq, true_and, and_true]
    omega
  · rw [if_neg (by omega)]
    simp only [Except.ok.injEq, ASRec.mk.injEq, true_and, and_true]
    omega

/-- the Insertion record of the genomic donor `D` at the genomic cut `P` -/
def insRec (g : Gene) (P : Nat) (D : Iv) : ASRec :=
  ⟨.insertion, cut g P - 1, cut g P, (geneIv g D).start, (geneIv g D).stop⟩

theorem upstream_insertion_ok {g : Gene} {a : Aln} {pre post : List Iv} {P Q : Iv}
    (hin : InGene g (pre ++ P :: Q :: post)) (hch : Chain2 pre post P Q)
    (hdsi : a.dsi = (pre.length : Int) + 1) (hjd : a.j.ds = Q.start)
    (h1 : P.stop < a.j.ue) (h2 : a.j.ue ≤ Q.start) (h3 : a.j.us < a.j.ue) :
    createUpstreamInsertion a g (pre ++ P :: Q :: post)
      = .ok (insRec g (match g.strand with | .plus => P.stop | .minus => Q.start)
          ⟨max P.stop a.j.us, a.j.ue⟩) := by
  have gU : (pre ++ P :: Q :: post)[pre.length]? = some P := by simp
  have hPin := hin P (by simp)
  have hQin := hin Q (by simp)
  have hi : a.dsi - 1 = ((pre.length : Nat) : Int) := by omega
  obtain ⟨hp, hP, hPQ, hQ, hq⟩ := hch
  unfold createUpstreamInsertion
  rw [if_neg (by omega)]
  simp only [hi, pyGet_nat _ _ _ gU, bind, Except.bind, pure, Except.pure, hjd]
  have hm1 : P.stop ≤ max P.stop a.j.us := by omega
  have hm2 : max P.stop a.j.us < a.j.ue := by omega
  generalize max P.stop a.j.us = m at hm1 hm2 ⊢
  unfold insRec cut geneIv
  cases hs : g.strand with
  | plus =>
    simp only
    rw [g2g_ok (by omega) (by omega), g2g_ok (by omega) (by omega),
      g2g_ok (by omega) (by omega)]
    simp only [hs, Except.ok.injEq, ASRec.mk.injEq, true_and]
    omega
  | minus =>
    simp only
    rw [g2g_ok (by omega) (by omega), g2g_ok (by omega) (by omega),
      g2g_ok (by omega) (by omega)]
    simp only [hs, Except.ok.injEq, ASRec.mk.injEq, true_and]
    omega

theorem spanStart_le {t : Transcript} {pre rest : List Iv} {U : Iv}
    (he : t.exons = pre ++ U :: rest) (hp : ∀ e ∈ pre, e.start < U.start) :
    t.spanStart ≤ U.start := by
  unfold Transcript.spanStart
  rw [he]
  cases pre with
  | nil => simp
  | cons x xs => simp only [List.cons_append, List.head?_cons]; have := hp x List.mem_cons_self; omega

theorem convKnown_plus_del {a : Aln} {g : Gene} {t : Transcript} {inter : List Nat} {k : Nat}
    (hst : t.strand = .plus) (hu : a.uei ≠ -1) (hss : t.spanStart < a.j.ue)
    (h1 : a.dsi = -1 ∨ inter ≠ []) (hs : getDownstreamStartSpanning a t.exons = (k : Int)) :
    convKnown a g t inter
      = (do let v ← createDownstreamDeletion a g t.exons (k : Int) inter; pure [v]) := by
  unfold convKnown
  simp only [hst, hu, hss, ne_eq, not_false_eq_true, decide_true, Bool.and_self, if_true, h1, hs]
  rw [if_pos (by omega)]

theorem convKnown_minus_del {a : Aln} {g : Gene} {t : Transcript} {inter : List Nat} {k : Nat}
    (hst : t.strand = .minus) (hd : a.dsi ≠ -1)
    (h1 : a.uei = -1 ∨ inter ≠ []) (hs : getUpstreamEndSpanning a t.exons = (k : Int)) :
    convKnown a g t inter
      = if t.spanStop > a.j.ds + 1
        then (do let v ← createUpstreamDeletion a g t.exons (k : Int) inter; pure [v])
        else .ok [] := by
  unfold convKnown
  simp only [hst, hd, ne_eq, not_false_eq_true, decide_true, Bool.true_and, decide_eq_true_eq, hs,
    h1, if_true]
  by_cases hc : t.spanStop > a.j.ds + 1
  · rw [if_pos hc, if_pos hc, if_pos (by omega)]
  · rw [if_neg hc, if_neg hc]; rfl

theorem convDownstream_ins_none {a : Aln} {g : Gene} {es : List Iv}
    (hd : a.dsi = -1) (hs : getDownstreamStartSpanning a es = -1) (he : a.dei = -1) :
    convDownstream a g es [] = .ok [] := by
  unfold convDownstream
  rw [if_pos (Or.inl hd)]
  simp only [hs]
  rw [if_neg (by omega), if_neg (by simp), if_neg (by omega)]
  rfl

/-- exact output for the known skip junction on a transcript that has the cassette exon -/
theorem alignConvert_known_skip_exact {g : Gene} {t : Transcript} {j : Junction}
    {pre post : List Iv} {U E D : Iv}
    (he : t.exons = pre ++ U :: E :: D :: post) (hw : t.WF) (hg : t.Within g)
    (hu : j.ue = U.stop) (hd : j.ds = D.start) :
    alignConvert j g t false false
      = .ok (if t.strand = .plus ∨ t.spanStop > j.ds + 1 then [delRec g E] else []) := by
  have hch := chain3_of_wf hw he
  have hin := inGene_of_within hw hg
  obtain ⟨hp, hP, hPM, hM, hMQ, hQ, hq⟩ := id hch
  have e2 : pre ++ U :: E :: D :: post = (pre ++ [U, E]) ++ D :: post := by simp
  have huei : exonWithEnd t.exons j.ue = (pre.length : Int) := by
    rw [he]; exact exonWithEnd_hit (fun e h => by have := hp e h; omega) hu.symm
  have hdsi : exonWithStart t.exons j.ds = (pre.length : Int) + 2 := by
    rw [he, e2, exonWithStart_hit (by
      intro e h
      simp only [List.mem_append, List.mem_cons, List.not_mem_nil, or_false] at h
      rcases h with h | rfl | rfl
      · have := hp e h; omega
      · omega
      · omega) hd.symm]
    simp
  rw [alignConvert_known]
  generalize ha : alnOf j t.exons false false = a
  have haj : a.j = j := by rw [← ha]; rfl
  have hau : a.uei = (pre.length : Int) := by rw [← ha]; exact huei
  have had : a.dsi = ((pre ++ [U, E]).length : Int) := by rw [← ha]; simp; exact hdsi
  have hun : a.un = false := by rw [← ha]; rfl
  have hdn : a.dn = false := by rw [← ha]; rfl
  have hinter : getInterjacent a t.exons = .ok [pre.length + 1] := by
    rw [he, getInterjacent_fwd hau (by rw [had]; simp; omega) (by simp), haj,
      interFwd_hit (interjacentTest_true (by omega) (by omega) (by omega))
        (interjacentBreak_false (by omega) (by omega)),
      interFwd_stop (interjacentTest_false (by omega)) (interjacentBreak_true (by omega))]
  rw [convertAln_known hun hdn hinter]
  cases hst : t.strand with
  | plus =>
    have hsp : getDownstreamStartSpanning a t.exons = ((pre.length + 2 : Nat) : Int) := by
      rw [he, getDownstreamStartSpanning_fwd hau, haj]
      unfold idxWhere
      rw [contains_false (by omega)]
      simp only [Bool.false_eq_true, if_false]
      unfold idxWhere
      rw [contains_true (by omega) (by omega)]
      simp only [if_true]
    have hss : t.spanStart < a.j.ue := by
      have := spanStart_le he (fun e h => by have := hp e h; omega)
      rw [haj]; omega
    rw [convKnown_plus_del hst (by omega) hss (Or.inr (by simp)) hsp]
    rw [he] at hin ⊢
    rw [downstream_deletion_skip_ok hin hM (by rw [haj]; exact hd.symm)]
    simp [bind, Except.bind, pure, Except.pure]
  | minus =>
    have hsp : getUpstreamEndSpanning a t.exons = ((pre.length : Nat) : Int) := by
      rw [he, e2, getUpstreamEndSpanning_bwd (by rw [haj]; omega) had]
      simp only [List.reverse_append, List.reverse_cons, List.reverse_nil, List.nil_append,
        List.cons_append, haj]
      unfold idxWhereDown
      rw [contains_false (by omega)]
      simp only [Bool.false_eq_true, if_false]
      unfold idxWhereDown
      rw [contains_true (by omega) (by omega)]
      simp
    rw [convKnown_minus_del hst (by rw [had]; simp; omega) (Or.inr (by simp)) hsp, haj]
    by_cases hc : t.spanStop > j.ds + 1
    · rw [if_pos hc, if_pos (Or.inr hc)]
      rw [he] at hin ⊢
      rw [upstream_deletion_skip_ok hin hM (by rw [haj]; exact hu.symm)]
      simp [bind, Except.bind, pure, Except.pure]
    · rw [if_neg hc, if_neg (by simp [hc])]

/-- exact output for an upstream-novel junction ending in the intron before the aligned
downstream exon -/
theorem alignConvert_un_intron_exact {g : Gene} {t : Transcript} {j : Junction}
    {pre post : List Iv} {P Q : Iv}
    (he : t.exons = pre ++ P :: Q :: post) (hw : t.WF) (hg : t.Within g)
    (hd : j.ds = Q.start) (h1 : P.stop < j.ue) (h2 : j.ue ≤ Q.start) (h3 : j.us < j.ue) :
    alignConvert j g t true false
      = .ok [insRec g (match g.strand with | .plus => P.stop | .minus => Q.start)
          ⟨max P.stop j.us, j.ue⟩] := by
  have hch := chain2_of_wf hw he
  have hin := inGene_of_within hw hg
  obtain ⟨hp, hP, hPQ, hQ, hq⟩ := id hch
  have e2 : pre ++ P :: Q :: post = (pre ++ [P]) ++ Q :: post := by simp
  have hdsi : exonWithStart t.exons j.ds = (pre.length : Int) + 1 := by
    rw [he, e2, exonWithStart_hit (by
      intro e h
      rcases List.mem_append.mp h with h | h
      · have := hp e h; omega
      · simp only [List.mem_singleton] at h; subst h; omega) hd.symm]
    simp
  have huei : exonWithEnd t.exons j.ue = -1 := by
    rw [he]; exact exonWithEnd_none (by chain2_mem hp hq)
  rw [alignConvert_un (by omega)]
  generalize ha : alnOf j t.exons true false = a
  have haj : a.j = j := by rw [← ha]; rfl
  have hau : a.uei = -1 := by rw [← ha]; exact huei
  have had : a.dsi = ((pre ++ [P]).length : Int) := by rw [← ha]; simp; exact hdsi
  have hun : a.un = true := by rw [← ha]; rfl
  have hdn : a.dn = false := by rw [← ha]; rfl
  have hinter : getInterjacent a t.exons = .ok [] := by
    rw [he, e2, getInterjacent_bwd hau had (by simp)]
    simp only [List.reverse_append, List.reverse_cons, List.reverse_nil, List.nil_append,
      List.singleton_append, haj]
    rw [interBwd_stop (interjacentTest_false (by omega)) (interjacentBreak_true (by omega))]
    rfl
  have hsp : getUpstreamEndSpanning a t.exons = -1 := by
    rw [he, e2, getUpstreamEndSpanning_bwd (by rw [haj]; omega) had]
    apply idxWhereDown_none
    intro e hm
    rw [haj]
    apply contains_false
    simp only [List.mem_reverse, List.mem_append, List.mem_singleton] at hm
    rcases hm with hm | rfl
    · have := hp e hm; omega
    · omega
  rw [convertAln_un hun hdn hinter, convUpstream_ins hau hsp (by rw [had]; simp)]
  rw [he] at hin ⊢
  rw [upstream_insertion_ok hin hch (by rw [had]; simp) (by rw [haj]; exact hd)
    (by rw [haj]; exact h1) (by rw [haj]; exact h2) (by rw [haj]; exact h3), haj]
  rfl

/-- a downstream-novel junction starting in the intron after the aligned upstream exon emits
nothing when no exon of the transcript ends at the junction's `downstream_end` -/
theorem alignConvert_dn_intron_silent {g : Gene} {t : Transcript} {j : Junction}
    {pre post : List Iv} {P Q : Iv}
    (he : t.exons = pre ++ P :: Q :: post) (hw : t.WF)
    (hu : j.ue = P.stop) (h1 : P.stop ≤ j.ds) (h2 : j.ds < Q.start)
    (h3 : ∀ e ∈ t.exons, e.stop ≠ j.de) :
    alignConvert j g t false true = .ok [] := by
  have hch := chain2_of_wf hw he
  obtain ⟨hp, hP, hPQ, hQ, hq⟩ := id hch
  have huei : exonWithEnd t.exons j.ue = (pre.length : Int) := by
    rw [he]; exact exonWithEnd_hit (fun e h => by have := hp e h; omega) hu.symm
  have hdsi : exonWithStart t.exons j.ds = -1 := by
    rw [he]; exact exonWithStart_none (by chain2_mem hp hq)
  have hdei : exonWithEnd t.exons j.de = -1 := exonWithEnd_none h3
  rw [alignConvert_dn (by omega)]
  generalize ha : alnOf j t.exons false true = a
  have haj : a.j = j := by rw [← ha]; rfl
  have hau : a.uei = (pre.length : Int) := by rw [← ha]; exact huei
  have had : a.dsi = -1 := by rw [← ha]; exact hdsi
  have hae : a.dei = -1 := by rw [← ha]; exact hdei
  have hun : a.un = false := by rw [← ha]; rfl
  have hdn : a.dn = true := by rw [← ha]; rfl
  have hinter : getInterjacent a t.exons = .ok [] := by
    rw [he, getInterjacent_fwd hau (by omega) (by simp), haj,
      interFwd_stop (interjacentTest_false (by omega)) (interjacentBreak_true (by omega))]
  have hsp : getDownstreamStartSpanning a t.exons = -1 := by
    rw [he, getDownstreamStartSpanning_fwd hau]
    apply idxWhere_none
    intro e hm
    rw [haj]
    apply contains_false
    rcases List.mem_cons.mp hm with rfl | hm
    · omega
    · have := hq e hm; omega
  rw [convertAln_dn hun hdn hinter, convDownstream_ins_none had hsp hae]

end MoPepGen.Rmats
