import MoPepGen.Model.Fusion
import MoPepGen.Model.FusionSpec
import MoPepGen.Lemmas.Coord
import MoPepGen.Lemmas.Seq
import MoPepGen.Props.C11
/-! Helper lemmas for property C15 (fusion parsers). -/
namespace MoPepGen.Fusion
open MoPepGen MoPepGen.FusionSpec

/-! ## generic list lemmas -/

/-- two lists sorted by an asymmetric relation with the same members are equal -/
theorem eq_of_pairwise_of_mem_iff {α : Type} {R : α → α → Prop} (hR : ∀ a b, R a b → ¬ R b a) :
    ∀ {l₁ l₂ : List α}, l₁.Pairwise R → l₂.Pairwise R → (∀ q, q ∈ l₁ ↔ q ∈ l₂) → l₁ = l₂
  | [], [], _, _, _ => rfl
  | [], b :: _, _, _, h => absurd ((h b).mpr List.mem_cons_self) (by simp)
  | a :: _, [], _, _, h => absurd ((h a).mp List.mem_cons_self) (by simp)
  | a :: l₁, b :: l₂, h₁, h₂, h => by
    rw [List.pairwise_cons] at h₁ h₂
    have hab : a = b := by
      by_cases hab : a = b
      · exact hab
      · have h1 : a ∈ l₂ := by
          have := (h a).mp List.mem_cons_self
          rcases List.mem_cons.mp this with e | m
          · exact absurd e hab
          · exact m
        have h2 : b ∈ l₁ := by
          have := (h b).mpr List.mem_cons_self
          rcases List.mem_cons.mp this with e | m
          · exact absurd e.symm hab
          · exact m
        exact absurd (h₁.1 b h2) (hR _ _ (h₂.1 a h1))
    subst hab
    have hirr : ∀ x, ¬ R x x := fun x hx => hR x x hx hx
    congr 1
    apply eq_of_pairwise_of_mem_iff hR h₁.2 h₂.2
    intro q
    constructor
    · intro hq
      rcases List.mem_cons.mp ((h q).mp (List.mem_cons_of_mem _ hq)) with e | m
      · subst e; exact absurd (h₁.1 q hq) (hirr q)
      · exact m
    · intro hq
      rcases List.mem_cons.mp ((h q).mpr (List.mem_cons_of_mem _ hq)) with e | m
      · subst e; exact absurd (h₂.1 q hq) (hirr q)
      · exact m

/-- members of a prefix of a sorted list, by its last element -/
theorem mem_take_succ_iff {α : Type} {R : α → α → Prop} (hR : ∀ a b, R a b → ¬ R b a) :
    ∀ {l : List α} {k : Nat} {p : α}, l.Pairwise R → l[k]? = some p →
      ∀ q, q ∈ l.take (k + 1) ↔ q ∈ l ∧ (q = p ∨ R q p)
  | [], k, p, _, h, _ => by simp at h
  | a :: l, 0, p, hl, h, q => by
    simp only [List.getElem?_cons_zero, Option.some.injEq] at h; subst h
    rw [List.pairwise_cons] at hl
    simp only [List.take_succ_cons, List.take_zero, List.mem_cons, List.not_mem_nil, or_false]
    constructor
    · intro e; exact ⟨Or.inl e, Or.inl e⟩
    · rintro ⟨e | m, e2 | r⟩
      · exact e
      · exact e
      · exact e2
      · exact absurd r (hR _ _ (hl.1 q m))
  | a :: l, k + 1, p, hl, h, q => by
    simp only [List.getElem?_cons_succ] at h
    rw [List.pairwise_cons] at hl
    have ih := mem_take_succ_iff hR hl.2 h q
    have hp : p ∈ l := List.mem_of_getElem? h
    simp only [List.take_succ_cons, List.mem_cons]
    constructor
    · rintro (e | m)
      · subst e; exact ⟨Or.inl rfl, Or.inr (hl.1 p hp)⟩
      · have := ih.mp m; exact ⟨Or.inr this.1, this.2⟩
    · rintro ⟨e | m, c⟩
      · exact Or.inl e
      · exact Or.inr (ih.mpr ⟨m, c⟩)

/-- members of a suffix of a sorted list, by its first element -/
theorem mem_drop_iff {α : Type} {R : α → α → Prop} (hR : ∀ a b, R a b → ¬ R b a) :
    ∀ {l : List α} {k : Nat} {p : α}, l.Pairwise R → l[k]? = some p →
      ∀ q, q ∈ l.drop k ↔ q ∈ l ∧ (q = p ∨ R p q)
  | [], k, p, _, h, _ => by simp at h
  | a :: l, 0, p, hl, h, q => by
    simp only [List.getElem?_cons_zero, Option.some.injEq] at h; subst h
    rw [List.pairwise_cons] at hl
    simp only [List.drop_zero, List.mem_cons]
    constructor
    · rintro (e | m)
      · exact ⟨Or.inl e, Or.inl e⟩
      · exact ⟨Or.inr m, Or.inr (hl.1 q m)⟩
    · rintro ⟨h, _⟩; exact h
  | a :: l, k + 1, p, hl, h, q => by
    simp only [List.getElem?_cons_succ] at h
    rw [List.pairwise_cons] at hl
    have ih := mem_drop_iff hR hl.2 h q
    have hp : p ∈ l := List.mem_of_getElem? h
    simp only [List.drop_succ_cons, List.mem_cons]
    constructor
    · intro m; have := ih.mp m; exact ⟨Or.inr this.1, this.2⟩
    · rintro ⟨e | m, c⟩
      · subst e
        rcases c with e | r
        · subst e; exact absurd (hl.1 q hp) (fun x => hR _ _ x x)
        · exact absurd r (hR _ _ (hl.1 p hp))
      · exact ih.mpr ⟨m, c⟩

/-- polymorphic Python slice `l[a:b]` -/
def slice {α : Type} (l : List α) (a b : Nat) : List α := (l.drop a).take (b - a)

theorem pySlice_eq_slice (l : List Char) (a b : Nat) : pySlice l a b = slice l a b := rfl

theorem slice_map {α β : Type} (f : α → β) (l : List α) (a b : Nat) :
    slice (l.map f) a b = (slice l a b).map f := by
  simp [slice, List.map_take, List.map_drop]

theorem slice_pairwise {α : Type} {R : α → α → Prop} {l : List α} (h : l.Pairwise R) (a b : Nat) :
    (slice l a b).Pairwise R :=
  (h.sublist (List.drop_sublist a l)).sublist (List.take_sublist _ _)

/-- members of a slice of a sorted list, by its first and last element -/
theorem mem_slice_iff {α : Type} {R : α → α → Prop} (hR : ∀ a b, R a b → ¬ R b a)
    {l : List α} {a b : Nat} {x y : α} (hl : l.Pairwise R) (hab : a < b)
    (hx : l[a]? = some x) (hy : l[b - 1]? = some y) (q : α) :
    q ∈ slice l a b ↔ q ∈ l ∧ (q = x ∨ R x q) ∧ (q = y ∨ R q y) := by
  unfold slice
  have hd : (l.drop a).Pairwise R := hl.sublist (List.drop_sublist a l)
  have hy' : (l.drop a)[b - a - 1]? = some y := by
    rw [List.getElem?_drop]; rw [← hy]; congr 1; omega
  have hba : b - a = (b - a - 1) + 1 := by omega
  rw [hba, mem_take_succ_iff hR hd hy' q, mem_drop_iff hR hl hx q]
  constructor
  · rintro ⟨⟨h1, h2⟩, h3⟩; exact ⟨h1, h2, h3⟩
  · rintro ⟨h1, h2, h3⟩; exact ⟨⟨h1, h2⟩, h3⟩

/-! ## genomic positions of a transcript / gene in 5'→3' order -/

/-- `a` is upstream (5') of `b` for a feature on strand `s` -/
def before (s : Strand) (a b : Nat) : Prop :=
  match s with
  | .plus => a < b
  | .minus => b < a

theorem before_asymm (s : Strand) : ∀ a b, before s a b → ¬ before s b a := by
  intro a b; cases s <;> simp only [before] <;> omega

def ascRange (e : Iv) : List Nat := List.range' e.start (e.stop - e.start)

/-- all exonic positions, ascending -/
def ascPositions (es : List Iv) : List Nat := es.flatMap ascRange

/-- positions in the order of the strand -/
def orient (s : Strand) (l : List Nat) : List Nat :=
  match s with
  | .plus => l
  | .minus => l.reverse

/-- exonic positions of a transcript in transcript order -/
def txPositions (t : Transcript) : List Nat := orient t.strand (ascPositions t.exons)
/-- positions of a gene in gene order -/
def genePositions (g : Gene) : List Nat := orient g.strand (ascRange g.loc)

theorem mem_ascRange {e : Iv} {q : Nat} : q ∈ ascRange e ↔ e.start ≤ q ∧ q < e.stop := by
  simp only [ascRange, List.mem_range'_1]; omega

theorem mem_ascPositions {es : List Iv} {q : Nat} :
    q ∈ ascPositions es ↔ ∃ e ∈ es, e.start ≤ q ∧ q < e.stop := by
  simp only [ascPositions, List.mem_flatMap, mem_ascRange]

theorem mem_orient {s : Strand} {l : List Nat} {q : Nat} : q ∈ orient s l ↔ q ∈ l := by
  cases s <;> simp [orient]

theorem mem_txPositions {t : Transcript} {q : Nat} : q ∈ txPositions t ↔ isExonic t q = true := by
  rw [txPositions, mem_orient, mem_ascPositions, isExonic_iff]

theorem ascRange_pairwise (e : Iv) : (ascRange e).Pairwise (· < ·) := List.pairwise_lt_range' 1

theorem ascPositions_pairwise {es : List Iv} (hw : AscWF es) :
    (ascPositions es).Pairwise (· < ·) := by
  induction es with
  | nil => simp [ascPositions]
  | cons e es ih =>
    simp only [ascPositions, List.flatMap_cons]
    rw [List.pairwise_append]
    refine ⟨ascRange_pairwise e, ih hw.tail, ?_⟩
    intro a ha b hb
    rw [mem_ascRange] at ha
    obtain ⟨e', he', hb'⟩ := mem_ascPositions.mp hb
    have := hw.rel e' he'
    omega

theorem orient_pairwise {s : Strand} {l : List Nat} (h : l.Pairwise (· < ·)) :
    (orient s l).Pairwise (before s) := by
  cases s
  · exact h
  · simp only [orient]; rw [List.pairwise_reverse]; exact h

theorem txPositions_pairwise {t : Transcript} (hw : t.WF) :
    (txPositions t).Pairwise (before t.strand) :=
  orient_pairwise (ascPositions_pairwise ⟨hw.2.1, hw.2.2⟩)

theorem genePositions_pairwise (g : Gene) : (genePositions g).Pairwise (before g.strand) :=
  orient_pairwise (ascRange_pairwise _)

theorem mem_genePositions {g : Gene} {q : Nat} :
    q ∈ genePositions g ↔ g.loc.start ≤ q ∧ q < g.loc.stop := by
  rw [genePositions, mem_orient, mem_ascRange]

/-! ## sequences as bases read at positions -/

def baseAt (chrom : List Char) (q : Nat) : Char := chrom.getD q 'N'

theorem chromSlice_eq_map {chrom : List Char} {e : Iv} (h : e.stop ≤ chrom.length) :
    chromSlice chrom e = (ascRange e).map (baseAt chrom) := by
  apply List.ext_getElem?
  intro i
  by_cases hi : i < e.stop - e.start
  · rw [chromSlice_getElem? hi, List.getElem?_map, ascRange, List.getElem?_range' hi]
    have : e.start + i < chrom.length := by omega
    simp [baseAt, List.getD_eq_getElem?_getD, List.getElem?_eq_getElem this]
  · have h1 : (chromSlice chrom e).length ≤ i := by rw [chromSlice_length h]; omega
    have h2 : ((ascRange e).map (baseAt chrom)).length ≤ i := by simp [ascRange]; omega
    rw [List.getElem?_eq_none h1, List.getElem?_eq_none h2]

theorem exonConcat_eq_map {chrom : List Char} {es : List Iv} (hc : OnChrom chrom.length es) :
    exonConcat chrom es = (ascPositions es).map (baseAt chrom) := by
  induction es with
  | nil => rfl
  | cons e es ih =>
    simp only [exonConcat, ascPositions, List.flatMap_cons, List.map_append]
    rw [chromSlice_eq_map (hc e List.mem_cons_self)]
    congr 1
    exact ih (fun x hx => hc x (List.mem_cons_of_mem _ hx))

theorem readBases_eq (chrom : List Char) (s : Strand) (ps : List Nat) :
    readBases chrom s ps = ps.map (fun q => strandBase s (baseAt chrom q)) := rfl

theorem revComp_map_baseAt (chrom : List Char) (ps : List Nat) :
    revComp (ps.map (baseAt chrom)) = ps.reverse.map (fun q => complement (baseAt chrom q)) := by
  simp [revComp, List.map_reverse]

/-- the transcript sequence is the strand-corrected chromosome read at `txPositions` -/
theorem txSeq_eq_readBases {chrom : List Char} {t : Transcript} (hne : t.exons ≠ [])
    (hc : OnChrom chrom.length t.exons) :
    txSeq chrom t = .ok (readBases chrom t.strand (txPositions t)) := by
  unfold txSeq
  rw [if_neg hne, readBases_eq, txPositions]
  cases t.strand
  · simp only [orient, strandBase]; rw [exonConcat_eq_map hc]
  · simp only [orient, strandBase]; rw [exonConcat_eq_map hc, revComp_map_baseAt]

/-- the gene sequence is the strand-corrected chromosome read at `genePositions` -/
theorem geneSeq_eq_readBases {chrom : List Char} {g : Gene} (hc : g.loc.stop ≤ chrom.length) :
    geneSeq chrom g = readBases chrom g.strand (genePositions g) := by
  unfold geneSeq
  rw [readBases_eq, genePositions]
  cases g.strand
  · simp only [orient, strandBase]; rw [chromSlice_eq_map hc]
  · simp only [orient, strandBase]; rw [chromSlice_eq_map hc, revComp_map_baseAt]

/-! ## index ↔ position -/

theorem toGenomicPlus_getElem? {es : List Iv} {k p : Nat} (h : toGenomicPlus k es = .ok p) :
    (ascPositions es)[k]? = some p := by
  induction es generalizing k with
  | nil => simp [toGenomicPlus] at h
  | cons e es ih =>
    unfold toGenomicPlus at h
    simp only [ascPositions, List.flatMap_cons]
    by_cases hi : k < e.stop - e.start
    · rw [if_pos hi] at h
      simp only [Except.ok.injEq] at h; subst h
      rw [List.getElem?_append_left (by simp [ascRange]; exact hi), ascRange,
        List.getElem?_range' hi]
      congr 1; omega
    · rw [if_neg hi] at h
      rw [List.getElem?_append_right (by simp [ascRange]; omega)]
      have := ih h
      simpa [ascRange, ascPositions] using this

theorem toGenomicMinus_getElem? {ds : List Iv} {k p : Nat} (h : toGenomicMinus k ds = .ok p) :
    (ds.flatMap (fun e => (ascRange e).reverse))[k]? = some p := by
  induction ds generalizing k with
  | nil => simp [toGenomicMinus] at h
  | cons e es ih =>
    unfold toGenomicMinus at h
    simp only [List.flatMap_cons]
    by_cases hi : k < e.stop - e.start
    · rw [if_pos hi] at h
      simp only [Except.ok.injEq] at h; subst h
      rw [List.getElem?_append_left (by simp [ascRange]; exact hi),
        List.getElem?_reverse (by simp [ascRange]; exact hi)]
      simp only [ascRange, List.length_range']
      rw [List.getElem?_range' (by omega)]
      congr 1; omega
    · rw [if_neg hi] at h
      rw [List.getElem?_append_right (by simp [ascRange]; omega)]
      have := ih h
      simpa [ascRange] using this

theorem ascPositions_reverse (es : List Iv) :
    (ascPositions es).reverse = es.reverse.flatMap (fun e => (ascRange e).reverse) := by
  simp only [ascPositions, List.reverse_flatMap]; rfl

/-- `coordinate_transcript_to_genomic k = p` means `p` is the `k`-th entry of `txPositions` -/
theorem txToGenomic_getElem? {t : Transcript} {k p : Nat} (h : txToGenomic t k = .ok p) :
    (txPositions t)[k]? = some p := by
  unfold txToGenomic at h
  by_cases hk : t.len < k
  · rw [if_pos hk] at h; cases h
  · rw [if_neg hk] at h
    unfold txPositions
    cases hs : t.strand
    · rw [hs] at h; exact toGenomicPlus_getElem? h
    · rw [hs] at h; simp only [orient]
      rw [ascPositions_reverse]; exact toGenomicMinus_getElem? h

/-- `get_transcript_index p = k` means `p` is the `k`-th entry of `txPositions` -/
theorem txIndex_getElem? {t : Transcript} (hw : t.WF) {k p : Nat} (h : txIndex t p = .ok k) :
    (txPositions t)[k]? = some p :=
  txToGenomic_getElem? (Props.C11.txToGenomic_txIndex t hw p k h).2.1

/-- `coordinate_gene_to_genomic i = p` (inside the gene) means `p` is the `i`-th entry of
`genePositions` -/
theorem genePositions_getElem? {g : Gene} {i : Nat} (hi : i < g.len) :
    ∃ p : Nat, geneToGenomic g i = (p : Int) ∧ (genePositions g)[i]? = some p := by
  unfold Gene.len Iv.len at hi
  unfold geneToGenomic genePositions
  cases g.strand
  · refine ⟨g.loc.start + i, by simp, ?_⟩
    simp only [orient, ascRange]; rw [List.getElem?_range' hi]; simp
  · refine ⟨g.loc.stop - 1 - i, by simp only; omega, ?_⟩
    simp only [orient, ascRange]
    rw [List.getElem?_reverse (by simpa using hi)]
    simp only [List.length_range']
    rw [List.getElem?_range' (by omega)]
    congr 1; omega

/-! ## the nearest exon boundary of an intronic position -/

/-- `u` is the last exonic position below the non-exonic position `p` -/
def IsBelow (t : Transcript) (p u : Nat) : Prop :=
  isExonic t u = true ∧ u < p ∧ ∀ r, u < r → r ≤ p → isExonic t r = false
/-- `u` is the first exonic position above the non-exonic position `p` -/
def IsAbove (t : Transcript) (p u : Nat) : Prop :=
  isExonic t u = true ∧ p < u ∧ ∀ r, p ≤ r → r < u → isExonic t r = false

def NotIn (es : List Iv) (p : Nat) : Prop := ∀ e ∈ es, ¬ (e.start ≤ p ∧ p < e.stop)

theorem notIn_of_isExonic_false {t : Transcript} {p : Nat} (h : isExonic t p = false) :
    NotIn t.exons p := by
  intro e he hb
  have := isExonic_iff.mpr ⟨e, he, hb⟩
  rw [h] at this; cases this

theorem isExonic_false_of {t : Transcript} {r : Nat}
    (h : ∀ e ∈ t.exons, ¬ (e.start ≤ r ∧ r < e.stop)) : isExonic t r = false := by
  cases hx : isExonic t r
  · rfl
  · obtain ⟨e, he, hb⟩ := isExonic_iff.mp hx
    exact absurd hb (h e he)

theorem isBelow_of {t : Transcript} {p u : Nat} (hne : NonEmptyIvs t.exons)
    (hp : NotIn t.exons p) {e : Iv} (he : e ∈ t.exons) (hu : u = e.stop - 1) (hle : e.stop ≤ p)
    (hmax : ∀ e' ∈ t.exons, e'.stop ≤ p → e'.stop ≤ u + 1) : IsBelow t p u := by
  have hn := hne e he
  refine ⟨isExonic_iff.mpr ⟨e, he, by omega, by omega⟩, by omega, ?_⟩
  intro r h1 h2
  apply isExonic_false_of
  intro e' he' hb
  by_cases hs : e'.stop ≤ p
  · have := hmax e' he' hs; omega
  · have := hp e' he'; omega

theorem isAbove_of {t : Transcript} {p u : Nat} (hne : NonEmptyIvs t.exons)
    (hp : NotIn t.exons p) {e : Iv} (he : e ∈ t.exons) (hu : u = e.start) (hle : p ≤ e.start)
    (hmin : ∀ e' ∈ t.exons, p ≤ e'.start → u ≤ e'.start) : IsAbove t p u := by
  have hn := hne e he
  have hpe := hp e he
  refine ⟨isExonic_iff.mpr ⟨e, he, by omega, by omega⟩, by omega, ?_⟩
  intro r h1 h2
  apply isExonic_false_of
  intro e' he' hb
  by_cases hs : p ≤ e'.start
  · have := hmin e' he' hs; omega
  · have := hp e' he'; omega

theorem upstreamEndPlus_spec {es : List Iv} (hw : AscWF es) {p : Nat} :
    ∀ (ind : Option Nat) (u : Nat), upstreamEndPlus p es ind = some u →
      (ind = some u ∨ ∃ e ∈ es, u = e.stop - 1 ∧ e.stop ≤ p) ∧
        ∀ e' ∈ es, e'.stop ≤ p → e'.stop ≤ u + 1 := by
  induction es with
  | nil => intro ind u h; simp only [upstreamEndPlus] at h; exact ⟨Or.inl h, by simp⟩
  | cons e es ih =>
    intro ind u h
    unfold upstreamEndPlus at h
    by_cases hgt : e.stop > p
    · rw [if_pos hgt] at h
      refine ⟨Or.inl h, ?_⟩
      intro e' he' hs
      rcases List.mem_cons.mp he' with rfl | hm
      · omega
      · have := hw.rel e' hm; have := hw.1 e' he'; omega
    · rw [if_neg hgt] at h
      obtain ⟨h1, h2⟩ := ih hw.tail _ _ h
      have hn := hw.head
      constructor
      · rcases h1 with h1 | ⟨e2, he2, hu, hle⟩
        · simp only [Option.some.injEq] at h1
          exact Or.inr ⟨e, List.mem_cons_self, h1.symm, by omega⟩
        · exact Or.inr ⟨e2, List.mem_cons_of_mem _ he2, hu, hle⟩
      · intro e' he' hs
        rcases List.mem_cons.mp he' with rfl | hm
        · rcases h1 with h1 | ⟨e2, he2, hu, hle⟩
          · simp only [Option.some.injEq] at h1; omega
          · have := hw.rel e2 he2; have := hw.1 e2 (List.mem_cons_of_mem _ he2); omega
        · exact h2 e' hm hs

theorem upstreamEndPlus_some {es : List Iv} {p : Nat} (x : Nat) :
    ∃ u, upstreamEndPlus p es (some x) = some u := by
  induction es generalizing x with
  | nil => exact ⟨x, rfl⟩
  | cons e es ih =>
    unfold upstreamEndPlus
    by_cases hgt : e.stop > p
    · rw [if_pos hgt]; exact ⟨x, rfl⟩
    · rw [if_neg hgt]; exact ih _

theorem upstreamEndMinus_spec {ds : List Iv} (hw : DescWF ds) {p : Nat} :
    ∀ (ind : Option Nat) (u : Nat), upstreamEndMinus p ds ind = some u →
      (ind = some u ∨ ∃ e ∈ ds, u = e.start ∧ p ≤ e.start) ∧
        ∀ e' ∈ ds, p ≤ e'.start → u ≤ e'.start := by
  induction ds with
  | nil => intro ind u h; simp only [upstreamEndMinus] at h; exact ⟨Or.inl h, by simp⟩
  | cons e es ih =>
    intro ind u h
    unfold upstreamEndMinus at h
    by_cases hlt : e.start < p
    · rw [if_pos hlt] at h
      refine ⟨Or.inl h, ?_⟩
      intro e' he' hs
      rcases List.mem_cons.mp he' with rfl | hm
      · omega
      · have := hw.rel e' hm; have := hw.1 e' he'; omega
    · rw [if_neg hlt] at h
      obtain ⟨h1, h2⟩ := ih hw.tail _ _ h
      have hn := hw.head
      constructor
      · rcases h1 with h1 | ⟨e2, he2, hu, hle⟩
        · simp only [Option.some.injEq] at h1
          exact Or.inr ⟨e, List.mem_cons_self, h1.symm, by omega⟩
        · exact Or.inr ⟨e2, List.mem_cons_of_mem _ he2, hu, hle⟩
      · intro e' he' hs
        rcases List.mem_cons.mp he' with rfl | hm
        · rcases h1 with h1 | ⟨e2, he2, hu, hle⟩
          · simp only [Option.some.injEq] at h1; omega
          · have := hw.rel e2 he2; have := hw.1 e2 (List.mem_cons_of_mem _ he2); omega
        · exact h2 e' hm hs

theorem upstreamEndMinus_some {ds : List Iv} {p : Nat} (x : Nat) :
    ∃ u, upstreamEndMinus p ds (some x) = some u := by
  induction ds generalizing x with
  | nil => exact ⟨x, rfl⟩
  | cons e es ih =>
    unfold upstreamEndMinus
    by_cases hlt : e.start < p
    · rw [if_pos hlt]; exact ⟨x, rfl⟩
    · rw [if_neg hlt]; exact ih _

theorem findAbove_spec {es : List Iv} (hw : AscWF es) {p : Nat} {e : Iv}
    (h : es.find? (fun e => decide (e.start ≥ p)) = some e) :
    e ∈ es ∧ p ≤ e.start ∧ ∀ e' ∈ es, p ≤ e'.start → e.start ≤ e'.start := by
  induction es with
  | nil => simp at h
  | cons a es ih =>
    by_cases ha : a.start ≥ p
    · rw [List.find?_cons_of_pos (by simpa using ha)] at h
      simp only [Option.some.injEq] at h; subst h
      refine ⟨List.mem_cons_self, ha, ?_⟩
      intro e' he' _
      rcases List.mem_cons.mp he' with rfl | hm
      · omega
      · have := hw.rel e' hm; have := hw.head; omega
    · rw [List.find?_cons_of_neg (by simpa using ha)] at h
      obtain ⟨h1, h2, h3⟩ := ih hw.tail h
      refine ⟨List.mem_cons_of_mem _ h1, h2, ?_⟩
      intro e' he' hs
      rcases List.mem_cons.mp he' with rfl | hm
      · omega
      · exact h3 e' hm hs

theorem findBelow_spec {ds : List Iv} (hw : DescWF ds) {p : Nat} {e : Iv}
    (h : ds.find? (fun e => decide (e.stop - 1 ≤ p)) = some e) :
    e ∈ ds ∧ e.stop - 1 ≤ p ∧ ∀ e' ∈ ds, e'.stop - 1 ≤ p → e'.stop ≤ e.stop := by
  induction ds with
  | nil => simp at h
  | cons a es ih =>
    by_cases ha : a.stop - 1 ≤ p
    · rw [List.find?_cons_of_pos (by simpa using ha)] at h
      simp only [Option.some.injEq] at h; subst h
      refine ⟨List.mem_cons_self, ha, ?_⟩
      intro e' he' _
      rcases List.mem_cons.mp he' with rfl | hm
      · omega
      · have := hw.rel e' hm; have := hw.head; omega
    · rw [List.find?_cons_of_neg (by simpa using ha)] at h
      obtain ⟨h1, h2, h3⟩ := ih hw.tail h
      refine ⟨List.mem_cons_of_mem _ h1, h2, ?_⟩
      intro e' he' hs
      rcases List.mem_cons.mp he' with rfl | hm
      · omega
      · exact h3 e' hm hs

theorem spanStart_eq {t : Transcript} {first : Iv} {rest : List Iv} (h : t.exons = first :: rest) :
    t.spanStart = first.start := by simp [Transcript.spanStart, h]

theorem spanStop_eq {t : Transcript} {last : Iv} {rest : List Iv} (h : t.exons = rest ++ [last]) :
    t.spanStop = last.stop := by simp [Transcript.spanStop, h]

theorem exons_snoc {t : Transcript} (hw : t.WF) : ∃ rest last, t.exons = rest ++ [last] := by
  rcases List.eq_nil_or_concat t.exons with h | ⟨l, a, h⟩
  · exact absurd h hw.1
  · exact ⟨l, a, by simpa using h⟩

theorem exons_cons {t : Transcript} (hw : t.WF) : ∃ first rest, t.exons = first :: rest := by
  cases h : t.exons with
  | nil => exact absurd h hw.1
  | cons a l => exact ⟨a, l, rfl⟩

/-- plus strand: `get_upstream_exon_end` of an intronic position = last exonic position below -/
theorem upstreamExonEnd_plus {t : Transcript} (hw : t.WF) (hs : t.strand = .plus) {p : Nat}
    (hx : isExonic t p = false) (hlo : t.spanStart ≤ p) :
    ∃ u, upstreamExonEnd t p = .ok u ∧ IsBelow t p u := by
  have hasc : AscWF t.exons := ⟨hw.2.1, hw.2.2⟩
  have hp := notIn_of_isExonic_false hx
  obtain ⟨first, rest, hes⟩ := exons_cons hw
  rw [spanStart_eq hes] at hlo
  have hfirst := hp first (by rw [hes]; exact List.mem_cons_self)
  have hsome : ∃ u, upstreamEndPlus p t.exons none = some u := by
    rw [hes]; unfold upstreamEndPlus
    rw [if_neg (by omega)]; exact upstreamEndPlus_some _
  obtain ⟨u, hu⟩ := hsome
  refine ⟨u, by simp [upstreamExonEnd, hs, hu], ?_⟩
  obtain ⟨h1, h2⟩ := upstreamEndPlus_spec hasc none u hu
  rcases h1 with h1 | ⟨e, he, hue, hle⟩
  · cases h1
  · exact isBelow_of hw.2.1 hp he hue hle h2

/-- minus strand: `get_upstream_exon_end` of an intronic position = first exonic position above -/
theorem upstreamExonEnd_minus {t : Transcript} (hw : t.WF) (hs : t.strand = .minus) {p : Nat}
    (hx : isExonic t p = false) (hhi : p < t.spanStop) :
    ∃ u, upstreamExonEnd t p = .ok u ∧ IsAbove t p u := by
  have hasc : AscWF t.exons := ⟨hw.2.1, hw.2.2⟩
  have hp := notIn_of_isExonic_false hx
  obtain ⟨rest, last, hes⟩ := exons_snoc hw
  rw [spanStop_eq hes] at hhi
  have hlast := hp last (by rw [hes]; simp)
  have hsome : ∃ u, upstreamEndMinus p t.exons.reverse none = some u := by
    rw [hes]; simp only [List.reverse_append, List.reverse_cons, List.reverse_nil, List.nil_append,
      List.cons_append]
    unfold upstreamEndMinus
    rw [if_neg (by omega)]; exact upstreamEndMinus_some _
  obtain ⟨u, hu⟩ := hsome
  refine ⟨u, by simp [upstreamExonEnd, hs, hu], ?_⟩
  obtain ⟨h1, h2⟩ := upstreamEndMinus_spec hasc.reverse none u hu
  rcases h1 with h1 | ⟨e, he, hue, hle⟩
  · cases h1
  · exact isAbove_of hw.2.1 hp (List.mem_reverse.mp he) hue hle
      (fun e' he' => h2 e' (List.mem_reverse.mpr he'))

/-- plus strand: `get_downstream_exon_start` of an intronic position = first exonic position above -/
theorem downstreamExonStart_plus {t : Transcript} (hw : t.WF) (hs : t.strand = .plus) {p : Nat}
    (hx : isExonic t p = false) (hhi : p < t.spanStop) :
    ∃ u, downstreamExonStart t p = .ok u ∧ IsAbove t p u := by
  have hasc : AscWF t.exons := ⟨hw.2.1, hw.2.2⟩
  have hp := notIn_of_isExonic_false hx
  obtain ⟨rest, last, hes⟩ := exons_snoc hw
  rw [spanStop_eq hes] at hhi
  have hlm : last ∈ t.exons := by rw [hes]; simp
  have hlast := hp last hlm
  have hsome : ∃ e, t.exons.find? (fun e => decide (e.start ≥ p)) = some e := by
    cases hf : t.exons.find? (fun e => decide (e.start ≥ p)) with
    | some e => exact ⟨e, rfl⟩
    | none =>
      have := List.find?_eq_none.mp hf last hlm
      simp only [decide_eq_true_eq] at this; omega
  obtain ⟨e, he⟩ := hsome
  refine ⟨e.start, by simp [downstreamExonStart, hs, he], ?_⟩
  obtain ⟨h1, h2, h3⟩ := findAbove_spec hasc he
  exact isAbove_of hw.2.1 hp h1 rfl h2 h3

/-- minus strand: `get_downstream_exon_start` of an intronic position = last exonic position below -/
theorem downstreamExonStart_minus {t : Transcript} (hw : t.WF) (hs : t.strand = .minus) {p : Nat}
    (hx : isExonic t p = false) (hlo : t.spanStart ≤ p) :
    ∃ u, downstreamExonStart t p = .ok u ∧ IsBelow t p u := by
  have hasc : AscWF t.exons := ⟨hw.2.1, hw.2.2⟩
  have hp := notIn_of_isExonic_false hx
  obtain ⟨first, rest, hes⟩ := exons_cons hw
  rw [spanStart_eq hes] at hlo
  have hfm : first ∈ t.exons := by rw [hes]; exact List.mem_cons_self
  have hfirst := hp first hfm
  have hsome : ∃ e, t.exons.reverse.find? (fun e => decide (e.stop - 1 ≤ p)) = some e := by
    cases hf : t.exons.reverse.find? (fun e => decide (e.stop - 1 ≤ p)) with
    | some e => exact ⟨e, rfl⟩
    | none =>
      have := List.find?_eq_none.mp hf first (List.mem_reverse.mpr hfm)
      simp only [decide_eq_true_eq] at this; omega
  obtain ⟨e, he⟩ := hsome
  refine ⟨e.stop - 1, by unfold downstreamExonStart; rw [hs]; simp only; rw [he]; rfl, ?_⟩
  obtain ⟨h1, h2, h3⟩ := findBelow_spec hasc.reverse he
  have hem := List.mem_reverse.mp h1
  have hpe := hp e hem
  have hn := hw.2.1 e hem
  refine isBelow_of hw.2.1 hp hem rfl (by omega) ?_
  intro e' he' hs'
  have := h3 e' (List.mem_reverse.mpr he') (by omega)
  omega

/-! ## the specification's position lists -/

theorem allIntronic_iff {t : Transcript} {lo hi : Nat} (h : lo ≤ hi) :
    allIntronic t lo hi = true ↔ ∀ r, lo ≤ r → r ≤ hi → isExonic t r = false := by
  simp only [allIntronic, List.all_eq_true, List.mem_range'_1, Bool.not_eq_true']
  constructor
  · intro H r h1 h2; exact H r ⟨h1, by omega⟩
  · intro H r hr; exact H r hr.1 (by omega)

theorem retained_iff {t : Transcript} {p q : Nat} :
    retained t p q = true ↔
      isExonic t q = true ∨ ∀ r, min p q ≤ r → r ≤ max p q → isExonic t r = false := by
  simp only [retained, Bool.or_eq_true]
  rw [allIntronic_iff (by omega)]

theorem retained_of_exonic {t : Transcript} {p q : Nat} (hp : isExonic t p = true) :
    retained t p q = true ↔ isExonic t q = true := by
  rw [retained_iff]
  constructor
  · rintro (h | h)
    · exact h
    · have := h p (by omega) (by omega); rw [hp] at this; cases this
  · intro h; exact Or.inl h

theorem retained_below {t : Transcript} {p u q : Nat} (hb : IsBelow t p u) (hq : q ≤ p) :
    retained t p q = true ↔ (isExonic t q = true ∨ u < q) := by
  rw [retained_iff]
  obtain ⟨hu, hup, hall⟩ := hb
  constructor
  · rintro (h | h)
    · exact Or.inl h
    · by_cases hlt : u < q
      · exact Or.inr hlt
      · have := h u (by omega) (by omega); rw [hu] at this; cases this
  · rintro (h | h)
    · exact Or.inl h
    · exact Or.inr (fun r h1 h2 => hall r (by omega) (by omega))

theorem retained_above {t : Transcript} {p u q : Nat} (ha : IsAbove t p u) (hq : p ≤ q) :
    retained t p q = true ↔ (isExonic t q = true ∨ q < u) := by
  rw [retained_iff]
  obtain ⟨hu, hup, hall⟩ := ha
  constructor
  · rintro (h | h)
    · exact Or.inl h
    · by_cases hlt : q < u
      · exact Or.inr hlt
      · have := h u (by omega) (by omega); rw [hu] at this; cases this
  · rintro (h | h)
    · exact Or.inl h
    · exact Or.inr (fun r h1 h2 => hall r (by omega) (by omega))

theorem donorPositions_pairwise (n : Nat) (t : Transcript) (p : Nat) :
    (donorPositions n t p).Pairwise (before t.strand) := by
  unfold donorPositions
  cases t.strand
  · exact (List.pairwise_lt_range' 1).filter _
  · rw [List.pairwise_reverse]
    exact (List.pairwise_lt_range' 1).filter _

theorem acceptorPositions_pairwise (n : Nat) (t : Transcript) (p : Nat) :
    (acceptorPositions n t p).Pairwise (before t.strand) := by
  unfold acceptorPositions
  cases t.strand
  · exact (List.pairwise_lt_range' 1).filter _
  · rw [List.pairwise_reverse]
    exact (List.pairwise_lt_range' 1).filter _

theorem mem_donorPositions {n : Nat} {t : Transcript} {p q : Nat} (hp : p < n) :
    q ∈ donorPositions n t p ↔
      retained t p q = true ∧ (q = p ∨ before t.strand q p) ∧ q < n := by
  unfold donorPositions
  cases t.strand
  · simp only [before, List.mem_filter, List.mem_range'_1]
    constructor
    · rintro ⟨hr, hret⟩; exact ⟨hret, by omega, by omega⟩
    · rintro ⟨hret, h1, h2⟩; exact ⟨by omega, hret⟩
  · simp only [before, List.mem_reverse, List.mem_filter, List.mem_range'_1]
    constructor
    · rintro ⟨hr, hret⟩; exact ⟨hret, by omega, by omega⟩
    · rintro ⟨hret, h1, h2⟩; exact ⟨by omega, hret⟩

theorem mem_acceptorPositions {n : Nat} {t : Transcript} {p q : Nat} (hp : p < n) :
    q ∈ acceptorPositions n t p ↔
      retained t p q = true ∧ (q = p ∨ before t.strand p q) ∧ q < n := by
  unfold acceptorPositions
  cases t.strand
  · simp only [before, List.mem_filter, List.mem_range'_1]
    constructor
    · rintro ⟨hr, hret⟩; exact ⟨hret, by omega, by omega⟩
    · rintro ⟨hret, h1, h2⟩; exact ⟨by omega, hret⟩
  · simp only [before, List.mem_reverse, List.mem_filter, List.mem_range'_1]
    constructor
    · rintro ⟨hr, hret⟩; exact ⟨hret, by omega, by omega⟩
    · rintro ⟨hret, h1, h2⟩; exact ⟨by omega, hret⟩

/-! ## model positions = specification positions -/

theorem exonic_lt {t : Transcript} {n q : Nat} (hc : OnChrom n t.exons)
    (hx : isExonic t q = true) : q < n := by
  obtain ⟨e, he, hb⟩ := isExonic_iff.mp hx
  have := hc e he; omega

theorem donor_positions_exonic {t : Transcript} (hw : t.WF) {n : Nat} (hc : OnChrom n t.exons)
    {p k : Nat} (hk : txIndex t p = .ok k) (hpn : p < n) :
    (txPositions t).take (k + 1) = donorPositions n t p := by
  have hx := (Props.C11.txToGenomic_txIndex t hw p k hk).2.2
  apply eq_of_pairwise_of_mem_iff (before_asymm t.strand)
    ((txPositions_pairwise hw).sublist (List.take_sublist _ _)) (donorPositions_pairwise n t p)
  intro q
  rw [mem_take_succ_iff (before_asymm t.strand) (txPositions_pairwise hw) (txIndex_getElem? hw hk),
    mem_donorPositions hpn, retained_of_exonic hx, mem_txPositions]
  constructor
  · rintro ⟨h1, h2⟩; exact ⟨h1, h2, exonic_lt hc h1⟩
  · rintro ⟨h1, h2, _⟩; exact ⟨h1, h2⟩

theorem acceptor_positions_exonic {t : Transcript} (hw : t.WF) {n : Nat} (hc : OnChrom n t.exons)
    {p k : Nat} (hk : txIndex t p = .ok k) (hpn : p < n) :
    (txPositions t).drop k = acceptorPositions n t p := by
  have hx := (Props.C11.txToGenomic_txIndex t hw p k hk).2.2
  apply eq_of_pairwise_of_mem_iff (before_asymm t.strand)
    ((txPositions_pairwise hw).sublist (List.drop_sublist _ _)) (acceptorPositions_pairwise n t p)
  intro q
  rw [mem_drop_iff (before_asymm t.strand) (txPositions_pairwise hw) (txIndex_getElem? hw hk),
    mem_acceptorPositions hpn, retained_of_exonic hx, mem_txPositions]
  constructor
  · rintro ⟨h1, h2⟩; exact ⟨h1, h2, exonic_lt hc h1⟩
  · rintro ⟨h1, h2, _⟩; exact ⟨h1, h2⟩

/-- the upstream (5') neighbour boundary of an intronic position -/
def IsUp (t : Transcript) (p u : Nat) : Prop :=
  match t.strand with
  | .plus => IsBelow t p u
  | .minus => IsAbove t p u
/-- the downstream (3') neighbour boundary of an intronic position -/
def IsDown (t : Transcript) (p u : Nat) : Prop :=
  match t.strand with
  | .plus => IsAbove t p u
  | .minus => IsBelow t p u

theorem donor_positions_intronic {t : Transcript} (hw : t.WF) {n : Nat} (hc : OnChrom n t.exons)
    {p u k : Nat} (hpn : p < n) (hu : IsUp t p u) (hk : txIndex t u = .ok k)
    {G : List Nat} (hG : G.Pairwise (before t.strand))
    (hGm : ∀ q, q ∈ G ↔ before t.strand u q ∧ (q = p ∨ before t.strand q p)) :
    (txPositions t).take (k + 1) ++ G = donorPositions n t p := by
  have hxu := (Props.C11.txToGenomic_txIndex t hw u k hk).2.2
  have hun := exonic_lt hc hxu
  have hmt := mem_take_succ_iff (before_asymm t.strand) (txPositions_pairwise hw)
    (txIndex_getElem? hw hk)
  apply eq_of_pairwise_of_mem_iff (before_asymm t.strand) _ (donorPositions_pairwise n t p)
  · intro q
    rw [List.mem_append, hmt, hGm, mem_donorPositions hpn, mem_txPositions]
    unfold IsUp at hu
    cases hs : t.strand
    · rw [hs] at hu; simp only [before]
      have hb := hu
      obtain ⟨_, hup, _⟩ := hu
      constructor
      · rintro (⟨h1, h2⟩ | ⟨h1, h2⟩)
        · exact ⟨(retained_below hb (by omega)).mpr (Or.inl h1), by omega, exonic_lt hc h1⟩
        · exact ⟨(retained_below hb (by omega)).mpr (Or.inr h1), by omega, by omega⟩
      · rintro ⟨h1, h2, _⟩
        rcases (retained_below hb (by omega)).mp h1 with hx | hlt
        · by_cases hq : u < q
          · exact Or.inr ⟨hq, h2⟩
          · exact Or.inl ⟨hx, by omega⟩
        · exact Or.inr ⟨hlt, h2⟩
    · rw [hs] at hu; simp only [before]
      have hb := hu
      obtain ⟨_, hup, _⟩ := hu
      constructor
      · rintro (⟨h1, h2⟩ | ⟨h1, h2⟩)
        · exact ⟨(retained_above hb (by omega)).mpr (Or.inl h1), by omega, exonic_lt hc h1⟩
        · exact ⟨(retained_above hb (by omega)).mpr (Or.inr h1), by omega, by omega⟩
      · rintro ⟨h1, h2, _⟩
        rcases (retained_above hb (by omega)).mp h1 with hx | hlt
        · by_cases hq : q < u
          · exact Or.inr ⟨hq, h2⟩
          · exact Or.inl ⟨hx, by omega⟩
        · exact Or.inr ⟨hlt, h2⟩
  · rw [List.pairwise_append]
    refine ⟨(txPositions_pairwise hw).sublist (List.take_sublist _ _), hG, ?_⟩
    intro a ha b hb
    have ha' := (hmt a).mp ha
    have hb' := (hGm b).mp hb
    revert ha' hb'
    cases t.strand <;> simp only [before] <;> omega

theorem acceptor_positions_intronic {t : Transcript} (hw : t.WF) {n : Nat} (hc : OnChrom n t.exons)
    {p u k : Nat} (hpn : p < n) (hu : IsDown t p u) (hk : txIndex t u = .ok k)
    {G : List Nat} (hG : G.Pairwise (before t.strand))
    (hGm : ∀ q, q ∈ G ↔ (q = p ∨ before t.strand p q) ∧ before t.strand q u) :
    G ++ (txPositions t).drop k = acceptorPositions n t p := by
  have hxu := (Props.C11.txToGenomic_txIndex t hw u k hk).2.2
  have hun := exonic_lt hc hxu
  have hmt := mem_drop_iff (before_asymm t.strand) (txPositions_pairwise hw)
    (txIndex_getElem? hw hk)
  apply eq_of_pairwise_of_mem_iff (before_asymm t.strand) _ (acceptorPositions_pairwise n t p)
  · intro q
    rw [List.mem_append, hmt, hGm, mem_acceptorPositions hpn, mem_txPositions]
    unfold IsDown at hu
    cases hs : t.strand
    · rw [hs] at hu; simp only [before]
      have hb := hu
      obtain ⟨_, hup, _⟩ := hu
      constructor
      · rintro (⟨h1, h2⟩ | ⟨h1, h2⟩)
        · exact ⟨(retained_above hb (by omega)).mpr (Or.inr h2), by omega, by omega⟩
        · exact ⟨(retained_above hb (by omega)).mpr (Or.inl h1), by omega, exonic_lt hc h1⟩
      · rintro ⟨h1, h2, _⟩
        rcases (retained_above hb (by omega)).mp h1 with hx | hlt
        · by_cases hq : q < u
          · exact Or.inl ⟨h2, hq⟩
          · exact Or.inr ⟨hx, by omega⟩
        · exact Or.inl ⟨h2, hlt⟩
    · rw [hs] at hu; simp only [before]
      have hb := hu
      obtain ⟨_, hup, _⟩ := hu
      constructor
      · rintro (⟨h1, h2⟩ | ⟨h1, h2⟩)
        · exact ⟨(retained_below hb (by omega)).mpr (Or.inr h2), by omega, by omega⟩
        · exact ⟨(retained_below hb (by omega)).mpr (Or.inl h1), by omega, exonic_lt hc h1⟩
      · rintro ⟨h1, h2, _⟩
        rcases (retained_below hb (by omega)).mp h1 with hx | hlt
        · by_cases hq : u < q
          · exact Or.inl ⟨h2, hq⟩
          · exact Or.inr ⟨hx, by omega⟩
        · exact Or.inl ⟨h2, hlt⟩
  · rw [List.pairwise_append]
    refine ⟨hG, (txPositions_pairwise hw).sublist (List.drop_sublist _ _), ?_⟩
    intro a ha b hb
    have ha' := (hGm a).mp ha
    have hb' := (hmt b).mp hb
    revert ha' hb'
    cases t.strand <;> simp only [before] <;> omega

/-! ## slices of the gene sequence between two positions -/

theorem genePositions_get {g : Gene} {k : Nat} (hk : k < g.loc.stop - g.loc.start) :
    (genePositions g)[k]? = some (match g.strand with
      | .plus => g.loc.start + k
      | .minus => g.loc.stop - 1 - k) := by
  unfold genePositions
  cases g.strand
  · simp only [orient, ascRange]; rw [List.getElem?_range' hk]; simp
  · simp only [orient, ascRange]
    rw [List.getElem?_reverse (by simpa using hk)]
    simp only [List.length_range']
    rw [List.getElem?_range' (by omega)]
    congr 1; omega

theorem g2g_ok {g : Gene} {p i : Nat} (h : genomicToGene g p = .ok i) :
    g.loc.start ≤ p ∧ p < g.loc.stop ∧
      i = (match g.strand with | .plus => p - g.loc.start | .minus => g.loc.stop - 1 - p) := by
  unfold genomicToGene at h
  by_cases hr : g.loc.start ≤ p ∧ p < g.loc.stop
  · rw [if_pos hr] at h
    refine ⟨hr.1, hr.2, ?_⟩
    cases hs : g.strand <;> rw [hs] at h <;> simp only [Except.ok.injEq] at h <;> exact h.symm
  · rw [if_neg hr] at h; cases h

theorem g2g_geneToGenomic {g : Gene} {p i : Nat} (h : genomicToGene g p = .ok i) :
    geneToGenomic g i = (p : Int) := by
  obtain ⟨h1, h2, h3⟩ := g2g_ok h
  unfold geneToGenomic
  cases hs : g.strand <;> rw [hs] at h3 <;> simp only at h3 ⊢ <;> omega

/-- donor side: `gene_seq[i_u + 1 : i_p + 1]` covers the positions after `u` up to and including `p` -/
theorem mem_gene_slice_donor {g : Gene} {u p iu i : Nat} (hu : genomicToGene g u = .ok iu)
    (hp : genomicToGene g p = .ok i) (hlt : before g.strand u p) (q : Nat) :
    q ∈ slice (genePositions g) (iu + 1) (i + 1) ↔
      before g.strand u q ∧ (q = p ∨ before g.strand q p) := by
  obtain ⟨u1, u2, u3⟩ := g2g_ok hu
  obtain ⟨p1, p2, p3⟩ := g2g_ok hp
  have hlen : i < g.loc.stop - g.loc.start := by
    cases hs : g.strand <;> rw [hs] at p3 <;> simp only at p3 <;> omega
  have hiu : iu + 1 ≤ i := by
    cases hs : g.strand <;> rw [hs] at p3 u3 hlt <;> simp only [before] at p3 u3 hlt <;> omega
  have hx := genePositions_get (g := g) (k := iu + 1) (by omega)
  have hy := genePositions_get (g := g) (k := i) hlen
  rw [mem_slice_iff (before_asymm g.strand) (genePositions_pairwise g) (by omega) hx
    (by simpa using hy), mem_genePositions]
  cases hs : g.strand <;> rw [hs] at p3 u3 hlt <;> simp only [before] at p3 u3 hlt ⊢ <;> omega

/-- acceptor side: `gene_seq[i_p : i_u]` covers the positions from `p` up to but excluding `u` -/
theorem mem_gene_slice_acceptor {g : Gene} {u p iu i : Nat} (hu : genomicToGene g u = .ok iu)
    (hp : genomicToGene g p = .ok i) (hlt : before g.strand p u) (q : Nat) :
    q ∈ slice (genePositions g) i iu ↔
      (q = p ∨ before g.strand p q) ∧ before g.strand q u := by
  obtain ⟨u1, u2, u3⟩ := g2g_ok hu
  obtain ⟨p1, p2, p3⟩ := g2g_ok hp
  have hlen : iu < g.loc.stop - g.loc.start := by
    cases hs : g.strand <;> rw [hs] at u3 <;> simp only at u3 <;> omega
  have hiu : i + 1 ≤ iu := by
    cases hs : g.strand <;> rw [hs] at p3 u3 hlt <;> simp only [before] at p3 u3 hlt <;> omega
  have hx := genePositions_get (g := g) (k := i) (by omega)
  have hy := genePositions_get (g := g) (k := iu - 1) (by omega)
  rw [mem_slice_iff (before_asymm g.strand) (genePositions_pairwise g) (by omega) hx hy,
    mem_genePositions]
  cases hs : g.strand <;> rw [hs] at p3 u3 hlt <;> simp only [before] at p3 u3 hlt ⊢ <;> omega

/-! ## the two halves of the reading -/

/-- well-formedness of a (chromosome, gene, transcript) triple -/
def TxOK (chrom : List Char) (g : Gene) (t : Transcript) : Prop :=
  t.WF ∧ t.Within g ∧ g.loc.stop ≤ chrom.length

instance (chrom : List Char) (g : Gene) (t : Transcript) : Decidable (TxOK chrom g t) := by
  unfold TxOK; infer_instance

theorem TxOK.wf {chrom : List Char} {g : Gene} {t : Transcript} (h : TxOK chrom g t) : t.WF := h.1
theorem TxOK.within {chrom : List Char} {g : Gene} {t : Transcript} (h : TxOK chrom g t) :
    t.Within g := h.2.1
theorem TxOK.onChrom {chrom : List Char} {g : Gene} {t : Transcript} (h : TxOK chrom g t) :
    g.loc.stop ≤ chrom.length := h.2.2

theorem TxOK.exons_onChrom {chrom : List Char} {g : Gene} {t : Transcript} (h : TxOK chrom g t) :
    OnChrom chrom.length t.exons := by
  intro e he; have := h.within.2 e he; have := h.onChrom; omega

theorem TxOK.exonic_in_gene {chrom : List Char} {g : Gene} {t : Transcript} (h : TxOK chrom g t)
    {q : Nat} (hx : isExonic t q = true) : g.loc.start ≤ q ∧ q < g.loc.stop := by
  obtain ⟨e, he, hb⟩ := isExonic_iff.mp hx
  have := h.within.2 e he; omega

theorem g2g_of_range {g : Gene} {q : Nat} (h : g.loc.start ≤ q ∧ q < g.loc.stop) :
    ∃ i, genomicToGene g q = .ok i := by
  obtain ⟨i, hi, _⟩ := Props.C11.gene_genomic_inverse g q h
  exact ⟨i, hi⟩

theorem geneToTx_of {g : Gene} {t : Transcript} {i p : Nat} (h : geneToGenomic g i = (p : Int)) :
    geneToTx g t i = txIndex t p := by
  unfold geneToTx
  simp only [h]
  rw [if_neg (by omega)]; simp

theorem natOf_cast (p : Nat) : natOf (p : Int) = .ok p := by
  unfold natOf; rw [if_neg (by omega)]; simp

theorem readBases_append (chrom : List Char) (s : Strand) (a b : List Nat) :
    readBases chrom s (a ++ b) = readBases chrom s a ++ readBases chrom s b := by
  simp [readBases]

theorem readBases_take (chrom : List Char) (s : Strand) (a : List Nat) (k : Nat) :
    (readBases chrom s a).take k = readBases chrom s (a.take k) := by
  simp [readBases, List.map_take]

theorem readBases_drop (chrom : List Char) (s : Strand) (a : List Nat) (k : Nat) :
    (readBases chrom s a).drop k = readBases chrom s (a.drop k) := by
  simp [readBases, List.map_drop]

theorem readBases_slice (chrom : List Char) (s : Strand) (l : List Nat) (a b : Nat) :
    pySlice (readBases chrom s l) a b = readBases chrom s (slice l a b) := by
  rw [pySlice_eq_slice]; unfold readBases; rw [slice_map]

/-- the insertion string of the reading -/
def insSeq (chrom : List Char) (g : Gene) : Option (Nat × Nat) → List Char
  | none => []
  | some (a, b) => pySlice (geneSeq chrom g) a b

/-- donor half: shift + `to_transcript_variant` + prefix + left insertion = the donor part of
the specification -/
theorem donor_part {chrom : List Char} {g : Gene} {t : Transcript} (hok : TxOK chrom g t)
    {lb i : Nat} (hspan : t.spanStart ≤ lb ∧ lb < t.spanStop) (hi : genomicToGene g lb = .ok i) :
    ∃ s li k dseq, shiftLeft g t (i + 1) = .ok (s, li) ∧ fusionTxStart g t s = .ok k ∧
      txSeq chrom t = .ok dseq ∧
      dseq.take k ++ insSeq chrom g li =
        readBases chrom t.strand (donorPositions chrom.length t lb) := by
  have hw := hok.wf
  have hc := hok.exons_onChrom
  have hst := hok.within.1
  obtain ⟨g1, g2, _⟩ := g2g_ok hi
  have hpn : lb < chrom.length := by have := hok.onChrom; omega
  have hseq := txSeq_eq_readBases (chrom := chrom) hw.1 hc
  have hgg := g2g_geneToGenomic hi
  unfold shiftLeft
  rw [if_neg (by omega)]
  simp only [Nat.add_sub_cancel, hgg, natOf_cast]
  cases hx : isExonic t lb
  · -- intronic breakpoint
    simp only [Bool.false_eq_true, if_false]
    have hup : ∃ u, upstreamExonEnd t lb = .ok u ∧ IsUp t lb u := by
      unfold IsUp
      cases hs : t.strand
      · exact upstreamExonEnd_plus hw hs hx hspan.1
      · exact upstreamExonEnd_minus hw hs hx hspan.2
    obtain ⟨u, hue, hu⟩ := hup
    have hxu : isExonic t u = true := by
      unfold IsUp at hu; cases hs : t.strand <;> rw [hs] at hu <;> exact hu.1
    obtain ⟨iu, hiu⟩ := g2g_of_range (hok.exonic_in_gene hxu)
    obtain ⟨k, hk⟩ := Props.C11.txIndex_exonic t hw u hxu
    refine ⟨iu + 1, some (iu + 1, i + 1), k + 1, _, by simp [hue, hiu], ?_, hseq, ?_⟩
    · unfold fusionTxStart
      rw [if_neg (by omega)]
      simp only [Nat.add_sub_cancel, geneToTx_of (g2g_geneToGenomic hiu), hk]
    · have hlt : before g.strand u lb := by
        unfold IsUp at hu; rw [← hst]
        cases hs : t.strand <;> rw [hs] at hu <;> simp only [before]
        · exact hu.2.1
        · exact hu.2.1
      simp only [insSeq]
      rw [geneSeq_eq_readBases hok.onChrom, ← hst, readBases_slice, readBases_take,
        ← readBases_append]
      congr 1
      apply donor_positions_intronic hw hc hpn hu hk
      · rw [hst]; exact slice_pairwise (genePositions_pairwise g) _ _
      · intro q; rw [hst]; exact mem_gene_slice_donor hiu hi hlt q
  · -- exonic breakpoint
    simp only [if_true]
    obtain ⟨k, hk⟩ := Props.C11.txIndex_exonic t hw lb hx
    refine ⟨i + 1, none, k + 1, _, rfl, ?_, hseq, ?_⟩
    · unfold fusionTxStart
      rw [if_neg (by omega)]
      simp only [Nat.add_sub_cancel, geneToTx_of hgg, hk]
    · simp only [insSeq, List.append_nil]
      rw [readBases_take, donor_positions_exonic hw hc hk hpn]

/-- acceptor half: shift + right insertion + suffix = the acceptor part of the specification -/
theorem acceptor_part {chrom : List Char} {g : Gene} {t : Transcript} (hok : TxOK chrom g t)
    {rb j : Nat} (hspan : t.spanStart ≤ rb ∧ rb < t.spanStop) (hj : genomicToGene g rb = .ok j) :
    ∃ ap ri bk aseq, shiftRight g t j = .ok (ap, ri) ∧ geneToTx g t ap = .ok bk ∧
      txSeq chrom t = .ok aseq ∧
      insSeq chrom g ri ++ aseq.drop bk =
        readBases chrom t.strand (acceptorPositions chrom.length t rb) := by
  have hw := hok.wf
  have hc := hok.exons_onChrom
  have hst := hok.within.1
  obtain ⟨g1, g2, _⟩ := g2g_ok hj
  have hpn : rb < chrom.length := by have := hok.onChrom; omega
  have hseq := txSeq_eq_readBases (chrom := chrom) hw.1 hc
  have hgg := g2g_geneToGenomic hj
  unfold shiftRight
  simp only [hgg, natOf_cast]
  cases hx : isExonic t rb
  · simp only [Bool.false_eq_true, if_false]
    have hdn : ∃ u, downstreamExonStart t rb = .ok u ∧ IsDown t rb u := by
      unfold IsDown
      cases hs : t.strand
      · exact downstreamExonStart_plus hw hs hx hspan.2
      · exact downstreamExonStart_minus hw hs hx hspan.1
    obtain ⟨u, hue, hu⟩ := hdn
    have hxu : isExonic t u = true := by
      unfold IsDown at hu; cases hs : t.strand <;> rw [hs] at hu <;> exact hu.1
    obtain ⟨iu, hiu⟩ := g2g_of_range (hok.exonic_in_gene hxu)
    obtain ⟨k, hk⟩ := Props.C11.txIndex_exonic t hw u hxu
    refine ⟨iu, some (j, iu), k, _, by simp [hue, hiu], ?_, hseq, ?_⟩
    · rw [geneToTx_of (g2g_geneToGenomic hiu), hk]
    · have hlt : before g.strand rb u := by
        unfold IsDown at hu; rw [← hst]
        cases hs : t.strand <;> rw [hs] at hu <;> simp only [before]
        · exact hu.2.1
        · exact hu.2.1
      simp only [insSeq]
      rw [geneSeq_eq_readBases hok.onChrom, ← hst, readBases_slice, readBases_drop,
        ← readBases_append]
      congr 1
      apply acceptor_positions_intronic hw hc hpn hu hk
      · rw [hst]; exact slice_pairwise (genePositions_pairwise g) _ _
      · intro q; rw [hst]; exact mem_gene_slice_acceptor hiu hj hlt q
  · simp only [if_true]
    obtain ⟨k, hk⟩ := Props.C11.txIndex_exonic t hw rb hx
    refine ⟨j, none, k, _, rfl, ?_, hseq, ?_⟩
    · rw [geneToTx_of hgg, hk]
    · simp only [insSeq, List.nil_append]
      rw [readBases_drop, acceptor_positions_exonic hw hc hk hpn]

/-- **the reading of a record whose `start` / `ACCEPTER_POSITION` are the gene coordinates of
the base after `lb` / of `rb` is the fusion transcript of the specification** -/
theorem reading_denotes {chromD : List Char} {gD : Gene} {tD : Transcript} {chromA : List Char}
    {gA : Gene} {tA : Transcript} (hD : TxOK chromD gD tD) (hA : TxOK chromA gA tA)
    {lb rb i j : Nat} (hl : tD.spanStart ≤ lb ∧ lb < tD.spanStop)
    (hr : tA.spanStart ≤ rb ∧ rb < tA.spanStop)
    (hi : genomicToGene gD lb = .ok i) (hj : genomicToGene gA rb = .ok j) :
    gvfFusionSeq chromD gD tD chromA gA tA (i + 1) j =
      .ok (fusedSeq chromD tD lb chromA tA rb) := by
  obtain ⟨s, li, k, dseq, h1, h2, h3, h4⟩ := donor_part hD hl hi
  obtain ⟨ap, ri, bk, aseq, a1, a2, a3, a4⟩ := acceptor_part hA hr hj
  unfold gvfFusionSeq shiftBreakpoint fusedSeq
  simp only [h1, a1, h2, h3, a3, a2]
  rw [← h4, ← a4]
  cases li with
  | none => cases ri with
    | none => simp [insSeq]
    | some x => obtain ⟨a, b⟩ := x; simp [insSeq]
  | some y =>
    obtain ⟨c, d⟩ := y
    cases ri with
    | none => simp [insSeq]
    | some x => obtain ⟨a, b⟩ := x; simp [insSeq]

/-! ## the command loop -/

/-- what happens to one row of the tool's file -/
inductive RowClass where
  | ok | insufficient | invalidGene | antisense | invalidPos | abort
deriving DecidableEq, Repr

/-- classification of a row by the pre-checks and the converter result -/
def rowClass {Row : Type} (pre : Row → Pre) (conv : Row → Except FusErr (List FusionRec))
    (skipFailed : Bool) (r : Row) : RowClass :=
  match pre r with
  | .insufficient => .insufficient
  | .invalidGene => .invalidGene
  | .antisense => .antisense
  | .go =>
    match conv r with
    | .ok _ => .ok
    | .error .geneNotFound => .invalidGene
    | .error _ => if skipFailed then .invalidPos else .abort

/-- the records a row contributes -/
def rowRecs {Row : Type} (pre : Row → Pre) (conv : Row → Except FusErr (List FusionRec))
    (r : Row) : List FusionRec :=
  match pre r with
  | .go => (match conv r with | .ok rs => rs | .error _ => [])
  | _ => []

/-- when no row aborts, the loop returns the concatenation of the rows' records in row order and
a tally that counts every row exactly once in the bucket of its class -/
theorem cliLoop_ok {Row : Type} (pre : Row → Pre) (conv : Row → Except FusErr (List FusionRec))
    (skip : Bool) (rows : List Row) (t : Tally) (acc : List FusionRec)
    (hno : ∀ r ∈ rows, rowClass pre conv skip r ≠ .abort) :
    ∃ t', cliLoop pre conv skip rows t acc = .ok (t', acc ++ rows.flatMap (rowRecs pre conv)) ∧
      t'.total = t.total + rows.length ∧
      t'.succeed = t.succeed + rows.countP (fun r => rowClass pre conv skip r = .ok) ∧
      t'.invalidGene = t.invalidGene + rows.countP (fun r => rowClass pre conv skip r = .invalidGene) ∧
      t'.invalidPos = t.invalidPos + rows.countP (fun r => rowClass pre conv skip r = .invalidPos) ∧
      t'.insufficient =
        t.insufficient + rows.countP (fun r => rowClass pre conv skip r = .insufficient) ∧
      t'.antisense = t.antisense + rows.countP (fun r => rowClass pre conv skip r = .antisense) ∧
      t'.skipped = t.skipped + rows.countP (fun r => rowClass pre conv skip r ≠ .ok) := by
  induction rows generalizing t acc with
  | nil => exact ⟨t, by simp [cliLoop]⟩
  | cons r rs ih =>
    have hno' : ∀ x ∈ rs, rowClass pre conv skip x ≠ .abort :=
      fun x hx => hno x (List.mem_cons_of_mem _ hx)
    have hr := hno r List.mem_cons_self
    simp only [List.flatMap_cons, List.countP_cons, List.length_cons]
    unfold cliLoop
    cases hp : pre r with
    | insufficient =>
      have hc : rowClass pre conv skip r = .insufficient := by simp [rowClass, hp]
      obtain ⟨t', h1, h2⟩ := ih
        { t with total := t.total + 1, insufficient := t.insufficient + 1,
                 skipped := t.skipped + 1 } acc hno'
      refine ⟨t', ?_, ?_⟩
      · simp only [h1]; simp [rowRecs, hp]
      · simp only [hc] at *; simp at h2 ⊢; omega
    | invalidGene =>
      have hc : rowClass pre conv skip r = .invalidGene := by simp [rowClass, hp]
      obtain ⟨t', h1, h2⟩ := ih
        { t with total := t.total + 1, invalidGene := t.invalidGene + 1,
                 skipped := t.skipped + 1 } acc hno'
      refine ⟨t', ?_, ?_⟩
      · simp only [h1]; simp [rowRecs, hp]
      · simp only [hc] at *; simp at h2 ⊢; omega
    | antisense =>
      have hc : rowClass pre conv skip r = .antisense := by simp [rowClass, hp]
      obtain ⟨t', h1, h2⟩ := ih
        { t with total := t.total + 1, antisense := t.antisense + 1,
                 skipped := t.skipped + 1 } acc hno'
      refine ⟨t', ?_, ?_⟩
      · simp only [h1]; simp [rowRecs, hp]
      · simp only [hc] at *; simp at h2 ⊢; omega
    | go =>
      cases hcv : conv r with
      | ok recs =>
        have hc : rowClass pre conv skip r = .ok := by simp [rowClass, hp, hcv]
        obtain ⟨t', h1, h2⟩ := ih
          { t with total := t.total + 1, succeed := t.succeed + 1 } (acc ++ recs) hno'
        refine ⟨t', ?_, ?_⟩
        · simp only [h1]; simp [rowRecs, hp, hcv]
        · simp only [hc] at *; simp at h2 ⊢; omega
      | error e =>
        cases e with
        | geneNotFound =>
          have hc : rowClass pre conv skip r = .invalidGene := by simp [rowClass, hp, hcv]
          obtain ⟨t', h1, h2⟩ := ih
            { t with total := t.total + 1, invalidGene := t.invalidGene + 1,
                     skipped := t.skipped + 1 } acc hno'
          refine ⟨t', ?_, ?_⟩
          · simp only [h1]; simp [rowRecs, hp, hcv]
          · simp only [hc] at *; simp at h2 ⊢; omega
        | value | index | key =>
          cases skip with
          | false => simp [rowClass, hp, hcv] at hr
          | true =>
            have hc : rowClass pre conv true r = .invalidPos := by simp [rowClass, hp, hcv]
            obtain ⟨t', h1, h2⟩ := ih
              { t with total := t.total + 1, invalidPos := t.invalidPos + 1,
                       skipped := t.skipped + 1 } acc hno'
            refine ⟨t', ?_, ?_⟩
            · simp only [h1]; simp [rowRecs, hp, hcv]
            · simp only [hc] at *; simp at h2 ⊢; omega

/-- a row that aborts makes the whole command raise -/
theorem cliLoop_abort {Row : Type} (pre : Row → Pre) (conv : Row → Except FusErr (List FusionRec))
    (skip : Bool) (rows : List Row) (t : Tally) (acc : List FusionRec)
    (h : ∃ r ∈ rows, rowClass pre conv skip r = .abort) :
    ∃ e, cliLoop pre conv skip rows t acc = .error e := by
  induction rows generalizing t acc with
  | nil => obtain ⟨r, hr, _⟩ := h; cases hr
  | cons r rs ih =>
    by_cases hr : rowClass pre conv skip r = .abort
    · unfold cliLoop
      unfold rowClass at hr
      cases hp : pre r <;> rw [hp] at hr <;> simp only at hr <;> try (cases hr)
      cases hcv : conv r with
      | ok recs => rw [hcv] at hr; cases hr
      | error e =>
        rw [hcv] at hr
        cases e <;> simp only at hr <;> try (cases hr)
        all_goals (cases skip <;> simp at hr ⊢)
    · have h' : ∃ x ∈ rs, rowClass pre conv skip x = .abort := by
        obtain ⟨x, hx, hxa⟩ := h
        rcases List.mem_cons.mp hx with rfl | hm
        · exact absurd hxa hr
        · exact ⟨x, hm, hxa⟩
      unfold cliLoop
      cases hp : pre r <;> simp only <;> try (exact ih _ _ h')
      cases hcv : conv r with
      | ok recs => exact ih _ _ h'
      | error e =>
        cases e <;> simp only <;> try (exact ih _ _ h')
        all_goals
          cases skip
          · simp [rowClass, hp, hcv] at hr
          · simp only [if_true]; exact ih _ _ h'

theorem mem_sortByRank {anno : Anno} {recs : List FusionRec} {r : FusionRec} :
    r ∈ sortByRank anno recs ↔ r ∈ recs ∧ ∃ g ∈ anno.genes, r.gene = g.id := by
  simp only [sortByRank, List.mem_flatMap, List.mem_filter, beq_iff_eq]
  constructor
  · rintro ⟨g, hg, hr, he⟩; exact ⟨hr, g, hg, he⟩
  · rintro ⟨hr, g, hg, he⟩; exact ⟨g, hg, hr, he⟩

theorem find_mem {anno : Anno} {id : String} {g : GeneEntry} (h : anno.find id = some g) :
    g ∈ anno.genes ∧ g.id = id := by
  unfold Anno.find at h
  exact ⟨List.mem_of_find?_eq_some h, by simpa using List.find?_some h⟩

end MoPepGen.Fusion
