/-
The `active_frames` argument of `create_variant_graph` (`Model/Tvg.lean`, `cvgLoop`): a frame a
path can be in carries every later record.

Ghost state: `since m` = the start of the record at which frame `m` became active (0 for the
frames active from the start).  Loop invariant `LiveInv`: an active frame `m` carries every
record of the graph that starts behind `since m`; a `variant_end` edge out of such a record's
variant node in frame `m` leads into an active frame that was activated at or before that record.
With the records in ascending order of start (`pySorted_asc`) the invariant survives every
iteration, and at the end it gives `attached g f h` for every frame `f` active from the start
and every strictly separated list `h` of records of the graph.
-/
import MoPepGen.Lemmas.TvgLoop
import MoPepGen.Lemmas.TvgDelta
import MoPepGen.Lemmas.TvgSorted
import MoPepGen.Lemmas.TvgLang
namespace MoPepGen.Tvg
open MoPepGen MoPepGen.Spec

/-- `active_frames[m]` -/
abbrev isActive (A : List Bool) (m : Nat) : Prop := A.getD m false = true

theorem isActive_lt {A : List Bool} {m : Nat} (h : isActive A m) : m < A.length := by
  rcases Nat.lt_or_ge m A.length with hlt | hge
  · exact hlt
  · simp [isActive, List.getD_eq_getElem?_getD, List.getElem?_eq_none hge] at h

/-- the loop invariant about frames and records (see the header) -/
structure LiveInv (g : TState) (A : List Bool) (since : Nat → Nat) (l : List Rec) : Prop where
  len : A.length = 3
  carry : ∀ m, isActive A m → ∀ k m0 r, IsVar g k m0 r → since m < r.start →
    carries g m r.toVar = true
  bridge : ∀ e ∈ g.edges, ∀ m r, IsVar g e.src m r → isActive A m → since m < r.start →
    isActive A (nodeFrame g e.dst) ∧ since (nodeFrame g e.dst) ≤ r.start
  sinceLe : ∀ m, isActive A m → ∀ w ∈ l, since m ≤ w.start
  varLe : ∀ k m r, IsVar g k m r → ∀ w ∈ l, r.start ≤ w.start

/-- the activation loop of `create_variant_graph`: no frame is deactivated, and the frame a
bridge from an active frame leads to is active afterwards -/
theorem activate_spec {A : List Bool} (hA : A.length = 3) {shift : Nat} (hs : shift = 1 ∨ shift = 2) :
    (activate A shift).length = 3 ∧ (∀ m, m < 3 → isActive A m → isActive (activate A shift) m) ∧
      (∀ m, m < 3 → isActive A m → isActive (activate A shift) ((m + shift) % 3)) := by
  match A, hA with
  | [a, b, c], _ =>
    rcases hs with rfl | rfl <;> cases a <;> cases b <;> cases c <;> decide

/-- activating frames at record `v` (the head of the remaining list) keeps the invariant; the
newly active frames are active "since `v.start`" -/
theorem live_activate {g : TState} {A A' : List Bool} {since : Nat → Nat} {v : Rec} {rest : List Rec}
    (hL : LiveInv g A since (v :: rest)) (hasc : AscBy (·.start) (v :: rest))
    (hlen : A'.length = 3) (hmono : ∀ m, m < 3 → isActive A m → isActive A' m) :
    LiveInv g A' (fun m => if A.getD m false then since m else v.start) (v :: rest) := by
  have hvle : ∀ k m r, IsVar g k m r → r.start ≤ v.start := fun k m r hk => hL.varLe k m r hk v (by simp)
  refine ⟨hlen, ?_, ?_, ?_, hL.varLe⟩
  · intro m hm k m0 r hk hs
    by_cases ha : A.getD m false = true
    · simp only [ha, if_true] at hs
      exact hL.carry m ha k m0 r hk hs
    · simp only [ha, if_false, Bool.false_eq_true] at hs
      have := hvle k m0 r hk; omega
  · intro e he m r hk hm hs
    by_cases ha : A.getD m false = true
    · simp only [ha, if_true] at hs
      obtain ⟨h1, h2⟩ := hL.bridge e he m r hk ha hs
      have h3 : nodeFrame g e.dst < 3 := by have := isActive_lt h1; rw [hL.len] at this; exact this
      refine ⟨hmono _ h3 h1, ?_⟩
      simp only [isActive] at h1
      simp only [h1, if_true]
      exact h2
    · simp only [ha, if_false, Bool.false_eq_true] at hs
      have := hvle _ m r hk; omega
  · intro m hm w hw
    by_cases ha : A.getD m false = true
    · simp only [ha, if_true]
      exact hL.sinceLe m ha w hw
    · simp only [ha, if_false, Bool.false_eq_true]
      rcases List.mem_cons.mp hw with rfl | hw
      · exact Nat.le_refl _
      · exact (List.pairwise_cons.mp hasc).1 w hw

/-- the invariant while record `v` is being applied frame by frame (`is` = the frames still to
be visited); `g0` = the graph before the first application -/
structure MidInv (g0 g : TState) (A : List Bool) (since : Nat → Nat) (v : Rec) (is : List Nat) : Prop where
  carryOld : ∀ m, isActive A m → ∀ k m0 r, IsVar g0 k m0 r → since m < r.start →
    carries g m r.toVar = true
  carryNew : ∀ m, m < 3 → isActive A m → m ∉ is → carries g m v.toVar = true
  vars : ∀ k m r, IsVar g k m r → IsVar g0 k m r ∨ r = v
  mono : ∀ k m r, IsVar g0 k m r → IsVar g k m r
  bridge : ∀ e ∈ g.edges, ∀ m r, IsVar g e.src m r → isActive A m → since m < r.start →
    isActive A (nodeFrame g e.dst) ∧ since (nodeFrame g e.dst) ≤ r.start

theorem midInv_start {g : TState} {A : List Bool} {since : Nat → Nat} {v : Rec} {rest : List Rec}
    (hL : LiveInv g A since (v :: rest)) : MidInv g g A since v [0, 1, 2] := by
  refine ⟨hL.carry, ?_, fun k m r h => Or.inl h, fun k m r h => h, hL.bridge⟩
  intro m hm _ hn
  exfalso; apply hn
  have : m = 0 ∨ m = 1 ∨ m = 2 := by omega
  rcases this with rfl | rfl | rfl <;> simp

theorem midInv_finish {g0 g : TState} {A : List Bool} {since : Nat → Nat} {v : Rec} {rest : List Rec}
    (hL : LiveInv g0 A since (v :: rest)) (hasc : AscBy (·.start) (v :: rest))
    (hM : MidInv g0 g A since v []) : LiveInv g A since rest := by
  refine ⟨hL.len, ?_, hM.bridge, fun m hm w hw => hL.sinceLe m hm w (by simp [hw]), ?_⟩
  · intro m hm k m0 r hk hs
    rcases hM.vars k m0 r hk with h | rfl
    · exact hM.carryOld m hm k m0 r h hs
    · exact hM.carryNew m (by have := isActive_lt hm; rw [hL.len] at this; exact this) hm (by simp)
  · intro k m r hk w hw
    rcases hM.vars k m r hk with h | rfl
    · exact hL.varLe k m r h w (by simp [hw])
    · exact (List.pairwise_cons.mp hasc).1 w hw

/-- frame `i` is not active: nothing is applied -/
theorem midInv_skip {g0 g : TState} {A : List Bool} {since : Nat → Nat} {v : Rec} {i : Nat} {is : List Nat}
    (hM : MidInv g0 g A since v (i :: is)) (hi : ¬ isActive A i) : MidInv g0 g A since v is := by
  refine ⟨hM.carryOld, ?_, hM.vars, hM.mono, hM.bridge⟩
  intro m hm3 hm hn
  apply hM.carryNew m hm3 hm
  intro hmem
  rcases List.mem_cons.mp hmem with rfl | hmem
  · exact hi hm
  · exact hn hmem

/-- one `apply_variant(cursors[i], cursors[j], v)` -/
theorem midInv_step {t : List Char} {g0 g g1 : TState} {A : List Bool} {since : Nat → Nat} {v : Rec}
    {i j : Nat} {is : List Nat} (hM : MidInv g0 g A since v (i :: is))
    (hI : Inv t g) (hI1 : Inv t g1) (hD : ApplyDelta g g1 i j v)
    (hb : isActive A i → since i < v.start → isActive A j ∧ since j ≤ v.start) :
    MidInv g0 g1 A since v is := by
  have hmono : ∀ m w, carries g m w = true → carries g1 m w = true := by
    intro m w h
    obtain ⟨k, r, hk, hr⟩ := carries_iff.mp h
    exact carries_iff.mpr ⟨k, r, hD.isVar.mpr (Or.inl hk), hr⟩
  refine ⟨?_, ?_, ?_, fun k m r h => hD.isVar.mpr (Or.inl (hM.mono k m r h)), ?_⟩
  · intro m hm k m0 r hk hs
    exact hmono _ _ (hM.carryOld m hm k m0 r hk hs)
  · intro m hm3 hm hn
    by_cases hmi : m = i
    · subst hmi
      exact carries_iff.mpr ⟨_, v, hD.isVar.mpr (Or.inr ⟨rfl, rfl, rfl⟩), rfl⟩
    · exact hmono _ _ (hM.carryNew m hm3 hm (by simp [hmi, hn]))
  · intro k m r hk
    rcases hD.isVar.mp hk with h | ⟨_, _, h⟩
    · exact hM.vars k m r h
    · exact Or.inr h
  · intro e he m r hk hm hs
    have hty := (hI1.var_outEdge hk he rfl).1
    rcases hD.out e he hty m r hk with ⟨h1, h2⟩ | ⟨h1, h2⟩
    · obtain ⟨h3, h4⟩ := hM.bridge e h2 m r h1 hm hs
      rw [hD.frame _ (hI.edgesIn e h2).2]
      exact ⟨h3, h4⟩
    · rcases hD.isVar.mp hk with h | ⟨_, rfl, rfl⟩
      · have := h.lt; omega
      · rw [h2]
        exact hb hm hs

/-! ### the two application branches -/

/-- every cursor is a reference node of its frame that starts at or before `x` -/
def CurLe (g : TState) (cs : List (Option Nat)) (x : Nat) : Prop :=
  ∀ m, m < 3 → ∃ c a b, cs[m]? = some (some c) ∧ IsRef g c m a b ∧ a ≤ x

theorem CurLe.mono {g : TState} {cs : List (Option Nat)} {x y : Nat} (h : CurLe g cs x) (hxy : x ≤ y) :
    CurLe g cs y := by
  intro m hm
  obtain ⟨c, a, b, h1, h2, h3⟩ := h m hm
  exact ⟨c, a, b, h1, h2, Nat.le_trans h3 hxy⟩

/-- the in-frame branch: every active frame gets the variant node of `v`, whose `variant_end`
edge stays in the frame -/
theorem applyInFrame_live {t : List Char} (h3 : 3 ≤ t.length) {v : Rec} (hv : RecOk t v)
    (A : List Bool) (since : Nat → Nat) (g0 : TState)
    (hsv : ∀ m, isActive A m → since m ≤ v.start) :
    ∀ (is : List Nat) (g : TState) (cs : List (Option Nat)) (g' : TState) (cs' : List (Option Nat)),
      Reach t g → CurOk g cs → is.Nodup → (∀ m ∈ is, m < 3) → (∀ m ∈ is, SrcOk g cs v m) →
      MidInv g0 g A since v is → CurLe g cs v.start →
      applyInFrame v A is g cs = .ok (g', cs') →
      Reach t g' ∧ CurOk g' cs' ∧ MidInv g0 g' A since v [] ∧ CurLe g' cs' v.start := by
  obtain ⟨hv3, hvs, hvL, _⟩ := hv
  intro is
  induction is with
  | nil =>
    intro g cs g' cs' hR hC _ _ _ hM hle h
    simp only [applyInFrame, Except.ok.injEq, Prod.mk.injEq] at h
    obtain ⟨rfl, rfl⟩ := h
    exact ⟨hR, hC, hM, hle⟩
  | cons i is ih =>
    intro g cs g' cs' hR hC hnd hlt hsrc hM hle h
    have hnd' := (List.nodup_cons.mp hnd)
    simp only [applyInFrame] at h
    split at h
    · rename_i hact
      obtain ⟨ci, hci, h⟩ := tvg_bind_ok.mp h
      obtain ⟨⟨g1, r0, r1⟩, hap, h⟩ := tvg_bind_ok.mp h
      simp only at h
      obtain ⟨c, a, b, hc, hr, ha, hb⟩ := hsrc i (by simp)
      have : ci = c := by
        have := cursorAt_ok hci; rw [hc] at this; simpa using this.symm
      subst this
      have hi3 : i < 3 := hlt i (by simp)
      obtain ⟨hI, hL⟩ := reach_inv h3 hR
      obtain ⟨hI1, _, hstep, ⟨x, y, hr0, hx0⟩, _⟩ :=
        applyVariant_spec hI hL ⟨hvs, hvL⟩ hr (by omega) ha hb hr ha hap
      have hD := applyVariant_delta hI hL ⟨hvs, hvL⟩ hr (by omega) ha hb hr ha hap
      have hR1 : Reach t g1 :=
        Reach.apply hR ⟨⟨hvs, hvL⟩, ⟨i, a, b, hr, by omega, ha, hb⟩, ⟨i, a, b, hr, ha⟩⟩ hap
      have hilen : i < cs.length := by rw [hC.1]; exact hi3
      have hM1 : MidInv g0 g1 A since v is :=
        midInv_step hM hI hI1 hD (fun hi _ => ⟨hi, hsv i hi⟩)
      have hle1 : CurLe g1 (cs.set i (some r0)) v.start := by
        intro m hm3
        by_cases hmi : m = i
        · subst hmi
          exact ⟨r0, x, y, by simp [hilen], hr0, hx0⟩
        · obtain ⟨c', a', b', hc', hr', ha'⟩ := hle m hm3
          obtain ⟨y', hk⟩ := hstep.keepStart hr'
          exact ⟨c', a', y', by rw [List.getElem?_set_ne (fun h => hmi h.symm)]; exact hc', hk, ha'⟩
      refine ih g1 (cs.set i (some r0)) g' cs' hR1 ?_ hnd'.2 (fun m hm => hlt m (by simp [hm])) ?_ hM1 hle1 h
      · refine ⟨by simp [hC.1], ?_⟩
        intro m c' hm
        by_cases hmi : m = i
        · subst hmi
          simp only [List.getElem?_set, hilen, if_true, Option.some.injEq] at hm
          subst hm
          exact ⟨x, y, hr0⟩
        · rw [List.getElem?_set_ne (fun h => hmi h.symm)] at hm
          obtain ⟨a', b', hr'⟩ := hC.2 m c' hm
          obtain ⟨y', hk⟩ := hstep.keepStart hr'
          exact ⟨a', y', hk⟩
      · intro m hm
        have hmi : m ≠ i := fun h => hnd'.1 (h ▸ hm)
        obtain ⟨c', a', b', hc', hr', ha', hb'⟩ := hsrc m (by simp [hm])
        refine ⟨c', a', b', ?_, hstep.keepOther hr' hmi hmi, ha', hb'⟩
        rw [List.getElem?_set_ne (fun h => hmi h.symm)]
        exact hc'
    · rename_i hact
      exact ih g cs g' cs' hR hC hnd'.2 (fun m hm => hlt m (by simp [hm]))
        (fun m hm => hsrc m (by simp [hm])) (midInv_skip hM hact) hle h

/-- the frameshifting branch: every active frame `i` gets the variant node of `v`, whose
`variant_end` edge leads into frame `(i + shift) % 3` -/
theorem applyShift_live {t : List Char} (h3 : 3 ≤ t.length) {v : Rec} (hv : RecOk t v)
    (shift : Nat) (hshift : shift % 3 ≠ 0) (A : List Bool) (since : Nat → Nat) (g0 : TState)
    (hbr : ∀ i, i < 3 → isActive A i → since i < v.start →
      isActive A ((i + shift) % 3) ∧ since ((i + shift) % 3) ≤ v.start) :
    ∀ (is : List Nat) (g : TState) (cs : List (Option Nat)) (g' : TState) (cs' : List (Option Nat)),
      Reach t g → CurOk g cs → is.Nodup → (∀ m ∈ is, m < 3) →
      (∀ m, m < 3 → (m ∈ is → SrcOk g cs v m) ∧ (m ∉ is → TgtOk g cs v m)) →
      MidInv g0 g A since v is → CurLe g cs v.start →
      applyShift v shift A is g cs = .ok (g', cs') →
      Reach t g' ∧ CurOk g' cs' ∧ MidInv g0 g' A since v [] ∧ CurLe g' cs' v.start := by
  obtain ⟨hv3, hvs, hvL, _⟩ := hv
  intro is
  induction is with
  | nil =>
    intro g cs g' cs' hR hC _ _ _ hM hle h
    simp only [applyShift, Except.ok.injEq, Prod.mk.injEq] at h
    obtain ⟨rfl, rfl⟩ := h
    exact ⟨hR, hC, hM, hle⟩
  | cons i is ih =>
    intro g cs g' cs' hR hC hnd hlt hcur hM hle h
    have hnd' := (List.nodup_cons.mp hnd)
    have hi3 : i < 3 := hlt i (by simp)
    simp only [applyShift] at h
    split at h
    · rename_i hact
      obtain ⟨ci, hci, h⟩ := tvg_bind_ok.mp h
      obtain ⟨cj, hcj, h⟩ := tvg_bind_ok.mp h
      obtain ⟨⟨g1, r0, r1⟩, hap, h⟩ := tvg_bind_ok.mp h
      simp only at h
      have hj3 : (i + shift) % 3 < 3 := Nat.mod_lt _ (by omega)
      have hji : (i + shift) % 3 ≠ i := by omega
      have hbri := hbr i hi3
      generalize hj : (i + shift) % 3 = j at *
      obtain ⟨c, a, b, hc, hr, ha, hb⟩ := (hcur i hi3).1 (by simp)
      have : ci = c := by
        have := cursorAt_ok hci; rw [hc] at this; simpa using this.symm
      subst this
      have htj : TgtOk g cs v j := by
        by_cases hjm : j ∈ i :: is
        · exact ((hcur j hj3).1 hjm).tgt
        · exact (hcur j hj3).2 hjm
      obtain ⟨c2, a2, b2, hc2, hr2, ha2⟩ := htj
      have : cj = c2 := by
        have := cursorAt_ok hcj; rw [hc2] at this; simpa using this.symm
      subst this
      have hne : ci ≠ cj := by
        intro he; subst he
        exact hji (hr2.inj hr).1
      obtain ⟨hI, hL⟩ := reach_inv h3 hR
      obtain ⟨hI1, _, hstep, ⟨x, y, hr0, hx⟩, ⟨x1, y1, hr1, hx1, hy1⟩⟩ :=
        applyVariant_spec hI hL ⟨hvs, hvL⟩ hr (by omega) ha hb hr2 ha2 hap
      have hD := applyVariant_delta hI hL ⟨hvs, hvL⟩ hr (by omega) ha hb hr2 ha2 hap
      have hR1 : Reach t g1 :=
        Reach.apply hR ⟨⟨hvs, hvL⟩, ⟨i, a, b, hr, by omega, ha, hb⟩, ⟨j, a2, b2, hr2, ha2⟩⟩ hap
      have hilen : i < cs.length := by rw [hC.1]; exact hi3
      have hjlen : j < cs.length := by rw [hC.1]; exact hj3
      have hget := fun m => getElem?_set_set cs i j (some r0) (some r1) m hilen hjlen
      have hM1 : MidInv g0 g1 A since v is := midInv_step hM hI hI1 hD hbri
      have hle1 : CurLe g1 ((cs.set i (some r0)).set j (some r1)) v.start := by
        intro m hm3
        rw [hget]
        by_cases hmj : m = j
        · subst hmj
          exact ⟨r1, x1, y1, by simp, hr1, hx1⟩
        · by_cases hmi : m = i
          · subst hmi
            exact ⟨r0, x, y, by simp [hmj], hr0, hx⟩
          · obtain ⟨c', a', b', hc', hr', ha'⟩ := hle m hm3
            obtain ⟨y', hk⟩ := hstep.keepStart hr'
            exact ⟨c', a', y', by simp [hmj, hmi, hc'], hk, ha'⟩
      refine ih g1 ((cs.set i (some r0)).set j (some r1)) g' cs' hR1 ?_ hnd'.2
        (fun m hm => hlt m (by simp [hm])) ?_ hM1 hle1 h
      · refine ⟨by simp [hC.1], ?_⟩
        intro m c' hm
        rw [hget] at hm
        split at hm
        · rename_i hmj; subst hmj
          simp only [Option.some.injEq] at hm; subst hm
          exact ⟨x1, y1, hr1⟩
        · split at hm
          · rename_i _ hmi; subst hmi
            simp only [Option.some.injEq] at hm; subst hm
            exact ⟨x, y, hr0⟩
          · obtain ⟨a', b', hr'⟩ := hC.2 m c' hm
            obtain ⟨y', hk⟩ := hstep.keepStart hr'
            exact ⟨a', y', hk⟩
      · intro m hm3
        by_cases hmj : m = j
        · subst hmj
          have hgetj : ((cs.set i (some r0)).set m (some r1))[m]? = some (some r1) := by
            rw [hget]; simp
          constructor
          · intro hmem
            obtain ⟨c3, a3, b3, hc3, hr3, _, hb3⟩ := (hcur m hm3).1 (by simp [hmem])
            have : c3 = cj := by rw [hc2] at hc3; simpa using hc3.symm
            subst this
            obtain ⟨_, _, rfl⟩ := hr3.inj hr2
            exact ⟨r1, x1, y1, hgetj, hr1, hx1, hy1 hne hb3⟩
          · intro _
            exact ⟨r1, x1, y1, hgetj, hr1, hx1⟩
        · by_cases hmi : m = i
          · subst hmi
            have hgeti : ((cs.set m (some r0)).set j (some r1))[m]? = some (some r0) := by
              rw [hget]; simp [hmj]
            constructor
            · intro hmem; exact absurd hmem hnd'.1
            · intro _; exact ⟨r0, x, y, hgeti, hr0, hx⟩
          · have hgetm : ((cs.set i (some r0)).set j (some r1))[m]? = cs[m]? := by
              rw [hget]; simp [hmj, hmi]
            constructor
            · intro hmem
              obtain ⟨c', a', b', hc', hr', ha', hb'⟩ := (hcur m hm3).1 (by simp [hmem])
              exact ⟨c', a', b', by rw [hgetm]; exact hc', hstep.keepOther hr' hmi hmj, ha', hb'⟩
            · intro hmem
              have : m ∉ i :: is := by simp [hmi, hmem]
              obtain ⟨c', a', b', hc', hr', ha'⟩ := (hcur m hm3).2 this
              exact ⟨c', a', b', by rw [hgetm]; exact hc', hstep.keepOther hr' hmi hmj, ha'⟩
    · rename_i hact
      refine ih g cs g' cs' hR hC hnd'.2 (fun m hm => hlt m (by simp [hm])) ?_ (midInv_skip hM hact) hle h
      intro m hm3
      constructor
      · intro hmem; exact (hcur m hm3).1 (by simp [hmem])
      · intro hmem
        by_cases hmi : m = i
        · subst hmi; exact ((hcur m hm3).1 (by simp)).tgt
        · exact (hcur m hm3).2 (by simp [hmi, hmem])

/-! ### the loop -/

theorem LiveInv.tail {g : TState} {A : List Bool} {since : Nat → Nat} {v : Rec} {rest : List Rec}
    (h : LiveInv g A since (v :: rest)) : LiveInv g A since rest :=
  ⟨h.len, h.carry, h.bridge, fun m hm w hw => h.sinceLe m hm w (by simp [hw]),
    fun k m r hk w hw => h.varLe k m r hk w (by simp [hw])⟩

theorem LiveInv.nil {g : TState} {A : List Bool} {since : Nat → Nat} {l : List Rec}
    (h : LiveInv g A since l) : LiveInv g A since [] :=
  ⟨h.len, h.carry, h.bridge, fun _ _ w hw => by simp at hw, fun _ _ _ _ w hw => by simp at hw⟩

/-- `any(c.start > variant.start for c in cursors)` is `True`: some cursor starts behind the record -/
theorem anyCursorBehind_true {g : TState} {v : Rec} :
    ∀ (cs : List (Option Nat)), anyCursorBehind g v cs = .ok true →
      ∃ (m c f a b : Nat), cs[m]? = some (some c) ∧ IsRef g c f a b ∧ v.start < a := by
  intro cs
  induction cs with
  | nil => intro h; simp [anyCursorBehind] at h
  | cons o rest ih =>
    intro h
    cases o with
    | none => simp [anyCursorBehind] at h
    | some c =>
      simp only [anyCursorBehind] at h
      obtain ⟨⟨a, b⟩, hloc, h⟩ := tvg_bind_ok.mp h
      obtain ⟨f, hr, _⟩ := nodeLoc_ok hloc
      simp only at h
      split at h
      · rename_i hgt
        exact ⟨0, c, f, a, b, by simp, hr, hgt⟩
      · obtain ⟨m, c', f', a', b', h1, h2, h3⟩ := ih h
        exact ⟨m + 1, c', f', a', b', by simpa using h1, h2, h3⟩

/-- the expiry loop never runs a cursor off the end while a record is still to be applied: every
cursor stays a reference node of its frame that starts at or before the record -/
theorem expireCursors_le {t : List Char} {g : TState} (hI : Inv t g) {v : Rec}
    (hv : v.start < v.stop ∧ v.stop ≤ t.length) :
    ∀ (cs cs' : List (Option Nat)) (off : Nat) (ex : Bool),
      (∀ m, m < cs.length → ∃ c a b, cs[m]? = some (some c) ∧ IsRef g c (off + m) a b ∧ a ≤ v.start) →
      expireCursors g v cs = .ok (cs', ex) →
      cs'.length = cs.length ∧
      (∀ m, m < cs.length → ∃ c a b, cs'[m]? = some (some c) ∧ IsRef g c (off + m) a b ∧ a ≤ v.start) := by
  intro cs
  induction cs with
  | nil =>
    intro cs' off ex _ h
    simp only [expireCursors, Except.ok.injEq, Prod.mk.injEq] at h
    obtain ⟨rfl, rfl⟩ := h
    exact ⟨rfl, fun m hm => by simp at hm⟩
  | cons o rest ih =>
    intro cs' off ex hfr h
    obtain ⟨c0, a0, b0, hc0, hr0, ha0⟩ := hfr 0 (by simp)
    simp only [List.getElem?_cons_zero, Option.some.injEq, Nat.add_zero] at hc0 hr0
    subst hc0
    simp only [expireCursors] at h
    have hab := (hI.ref_ok hr0).2.2.1
    simp only [nodeLoc_ref hr0 hab, bind, Except.bind] at h
    cases hrest : expireCursors g v rest with
    | error m => simp [hrest] at h
    | ok res =>
      obtain ⟨rest', any⟩ := res
      simp only [hrest] at h
      have hfr' : ∀ m, m < rest.length →
          ∃ c a b, rest[m]? = some (some c) ∧ IsRef g c (off + 1 + m) a b ∧ a ≤ v.start := by
        intro m hm
        obtain ⟨c, a, b, h1, h2, h3⟩ := hfr (m + 1) (by simpa using hm)
        exact ⟨c, a, b, by simpa using h1, by simpa [Nat.add_assoc, Nat.add_comm 1 m] using h2, h3⟩
      obtain ⟨hlen, hfr2⟩ := ih rest' (off + 1) any hfr' hrest
      have htail : ∀ (x : Option Nat) m, m < rest.length →
          ∃ c a b, (x :: rest')[m + 1]? = some (some c) ∧ IsRef g c (off + (m + 1)) a b ∧ a ≤ v.start := by
        intro x m hm
        obtain ⟨c, a, b, h1, h2, h3⟩ := hfr2 m hm
        exact ⟨c, a, b, by simpa using h1, by simpa [Nat.add_assoc, Nat.add_comm 1 m] using h2, h3⟩
      split at h
      · rename_i hle
        rcases getReferenceNext_total hI hr0 with ⟨hbL, _⟩ | ⟨j, c', hj, hnx⟩
        · omega
        · simp only [hnx, pure, Except.pure, Except.ok.injEq, Prod.mk.injEq] at h
          obtain ⟨rfl, rfl⟩ := h
          refine ⟨by simp [hlen], ?_⟩
          intro m hm
          cases m with
          | zero => exact ⟨j, b0, c', by simp, by simpa using hj, hle⟩
          | succ m => exact htail _ m (by simpa using hm)
      · simp only [pure, Except.pure, Except.ok.injEq, Prod.mk.injEq] at h
        obtain ⟨rfl, rfl⟩ := h
        refine ⟨by simp [hlen], ?_⟩
        intro m hm
        cases m with
        | zero => exact ⟨c0, a0, b0, by simp, by simpa using hr0, ha0⟩
        | succ m => exact htail _ m (by simpa using hm)

theorem CurLe.curOk {g : TState} {cs : List (Option Nat)} {x : Nat} (h : CurLe g cs x)
    (hlen : cs.length = 3) : CurOk g cs := by
  refine ⟨hlen, ?_⟩
  intro m c hm
  have hm3 : m < 3 := by
    rcases Nat.lt_or_ge m cs.length with h1 | h1
    · omega
    · simp [List.getElem?_eq_none h1] at hm
  obtain ⟨c', a, b, h1, h2, _⟩ := h m hm3
  rw [hm] at h1
  simp only [Option.some.injEq] at h1
  subst h1
  exact ⟨a, b, h2⟩

/-- what the loop guarantees about the final graph `g'`, started in state `st` with the records
`l` still to come -/
structure LoopRes (st : LoopSt) (since : Nat → Nat) (l : List Rec) (g' : TState) : Prop where
  live : ∃ A' since', LiveInv g' A' since' [] ∧
    ∀ m, m < 3 → isActive st.active m → isActive A' m ∧ since' m = since m
  /-- no record is skipped: every record still to come has a variant node in the end -/
  applied : ∀ r ∈ l, r.toVar ∈ varPool g'
  keep : ∀ k m r, IsVar st.g k m r → IsVar g' k m r
  /-- … and nothing else gets one -/
  only : ∀ k m r, IsVar g' k m r → IsVar st.g k m r ∨ r ∈ l

/-- **the cursor loop keeps `LiveInv` and applies every record**: with the records in ascending
order of start no cursor ever starts behind a record (`anyCursorBehind` is never true) and no
cursor runs off the end before the last record -/
theorem cvgLoop_live {t : List Char} (h3 : 3 ≤ t.length) :
    ∀ (fuel : Nat) (l : List Rec) (st : LoopSt) (g' : TState) (since : Nat → Nat),
      (∀ v ∈ l, RecOk t v) → AscBy (·.start) l → Reach t st.g → st.cursors.length = 3 →
      (∀ w ∈ l, CurLe st.g st.cursors w.start) →
      LiveInv st.g st.active since l → (∃ m, m < 3 ∧ isActive st.active m) →
      cvgLoop fuel l st = .ok g' → LoopRes st since l g' := by
  intro fuel
  induction fuel with
  | zero => intro l st g' since _ _ _ _ _ _ _ h; simp [cvgLoop] at h
  | succ n ih =>
    intro l st g' since hl hasc hR hclen hCle hLv hsome h
    cases l with
    | nil =>
      simp only [cvgLoop, Except.ok.injEq] at h
      subst h
      exact ⟨⟨_, _, hLv, fun m _ hm => ⟨hm, rfl⟩⟩, fun r hr => by simp at hr, fun _ _ _ h => h,
        fun _ _ _ h => Or.inl h⟩
    | cons v rest =>
      have hv := hl v (by simp)
      have hrest : ∀ w ∈ rest, RecOk t w := fun w hw => hl w (by simp [hw])
      have hascr : AscBy (·.start) rest := (List.pairwise_cons.mp hasc).2
      have hvw : ∀ w ∈ rest, v.start ≤ w.start := (List.pairwise_cons.mp hasc).1
      have hle : CurLe st.g st.cursors v.start := hCle v (by simp)
      have hC : CurOk st.g st.cursors := hle.curOk hclen
      simp only [cvgLoop] at h
      split at h
      · -- `if not any(cursors): break` — impossible: cursor 0 is a node
        rename_i hall
        obtain ⟨c, _, _, hc, _⟩ := hle 0 (by omega)
        have := List.all_eq_true.mp hall (some c) (List.mem_of_getElem? hc)
        simp at this
      · obtain ⟨behind, hb, h⟩ := tvg_bind_ok.mp h
        cases behind with
        | true =>
          -- a cursor behind the record — impossible: every cursor starts at or before it
          obtain ⟨m, c, f, a, b, h1, h2, h3⟩ := anyCursorBehind_true _ hb
          have hm3 : m < 3 := by
            rcases Nat.lt_or_ge m st.cursors.length with h | h
            · omega
            · simp [List.getElem?_eq_none h] at h1
          obtain ⟨c', a', b', k1, k2, k3⟩ := hle m hm3
          rw [h1] at k1
          simp only [Option.some.injEq] at k1
          subst k1
          obtain ⟨_, rfl, _⟩ := h2.inj k2
          omega
        | false =>
          simp only [Bool.false_eq_true, if_false] at h
          obtain ⟨⟨cs', ex⟩, he, h⟩ := tvg_bind_ok.mp h
          simp only at h
          obtain ⟨hI, _⟩ := reach_inv h3 hR
          -- the frames active for this record
          have hsh : isFrameshifting v = true → framesShifted v = 1 ∨ framesShifted v = 2 := by
            intro hfs
            have h1 := framesShifted_lt v
            have := hv.2.2.2
            simp only [isFrameshifting, Bool.or_eq_true, beq_iff_eq, bne_iff_ne] at hfs
            rcases hfs with hfs | hfs
            · exact absurd hfs this
            · omega
          have hA' : ∃ A', A' = (if isFrameshifting v = true then activate st.active (framesShifted v)
                else st.active) ∧ A'.length = 3 ∧
              (∀ m, m < 3 → isActive st.active m → isActive A' m) ∧
              (isFrameshifting v = true → ∀ m, m < 3 → isActive st.active m →
                isActive A' ((m + framesShifted v) % 3)) := by
            refine ⟨_, rfl, ?_⟩
            by_cases hfs : isFrameshifting v = true
            · obtain ⟨a1, a2, a3⟩ := activate_spec hLv.len (hsh hfs)
              simp only [hfs, if_true]
              exact ⟨a1, a2, fun _ => a3⟩
            · have hfs' : isFrameshifting v = false := by simpa using hfs
              simp only [hfs', Bool.false_eq_true, if_false]
              exact ⟨hLv.len, fun _ _ h => h, fun h => absurd h (by simp)⟩
          obtain ⟨A', hA'eq, hA'len, hA'mono, hA'br⟩ := hA'
          rw [← hA'eq] at h
          have hLv' := live_activate hLv hasc hA'len hA'mono
          have hsome' : ∃ m, m < 3 ∧ isActive A' m := by
            obtain ⟨m, hm3, hm⟩ := hsome
            exact ⟨m, hm3, hA'mono m hm3 hm⟩
          have hsame : ∀ m, m < 3 → isActive st.active m →
              (fun m => if st.active.getD m false then since m else v.start) m = since m := by
            intro m _ hm
            show (if st.active.getD m false = true then since m else v.start) = since m
            rw [if_pos hm]
          -- the result of the recursive call on a state with the frames `A'`
          have hwrap : ∀ (st1 : LoopSt) (l1 : List Rec), st1.active = A' →
              LoopRes st1 (fun m => if st.active.getD m false then since m else v.start) l1 g' →
              ∃ A'' since'', LiveInv g' A'' since'' [] ∧
                ∀ m, m < 3 → isActive st.active m → isActive A'' m ∧ since'' m = since m := by
            intro st1 l1 hact hres
            obtain ⟨A'', since'', hfin, hkeep⟩ := hres.live
            refine ⟨A'', since'', hfin, ?_⟩
            intro m hm3 hm
            obtain ⟨k1, k2⟩ := hkeep m hm3 (hact ▸ hA'mono m hm3 hm)
            exact ⟨k1, k2.trans (hsame m hm3 hm)⟩
          cases ex with
          | true =>
            simp only [if_true] at h
            obtain ⟨hlen, hfr⟩ := expireCursors_le hI ⟨hv.2.1, hv.2.2.1⟩ st.cursors cs' 0 true
              (fun m hm => by simpa using hle m (by omega)) he
            have hle' : CurLe st.g cs' v.start := fun m hm => by
              simpa using hfr m (by omega)
            have hres := ih (v :: rest) ⟨st.g, cs', A'⟩ g' _ hl hasc hR (by rw [hlen]; exact hclen)
              (fun w hw => by
                rcases List.mem_cons.mp hw with rfl | hw
                · exact hle'
                · exact hle'.mono (hvw w hw)) hLv' hsome' h
            exact ⟨hwrap _ _ rfl hres, hres.applied, hres.keep, hres.only⟩
          | false =>
            simp only [Bool.false_eq_true, if_false] at h
            obtain ⟨hcs, hsrc⟩ := srcOk_of_checks hI hC hb he
            subst hcs
            have hsv : ∀ m, isActive A' m →
                (fun m => if st.active.getD m false then since m else v.start) m ≤ v.start :=
              fun m hm => hLv'.sinceLe m hm v (by simp)
            have hfinish : ∀ g1 cs1, Reach t g1 → CurOk g1 cs1 →
                MidInv st.g g1 A' (fun m => if st.active.getD m false then since m else v.start) v [] →
                CurLe g1 cs1 v.start →
                cvgLoop n rest { g := g1, cursors := cs1, active := A' } = .ok g' →
                LoopRes st since (v :: rest) g' := by
              intro g1 cs1 hR1 hC1 hM1 hle1 h
              have hres := ih rest ⟨g1, cs1, A'⟩ g' _ hrest hascr hR1 hC1.1
                (fun w hw => hle1.mono (hvw w hw)) (midInv_finish hLv' hasc hM1) hsome' h
              refine ⟨hwrap _ _ rfl hres, ?_, fun k m r hk => hres.keep k m r (hM1.mono k m r hk), ?_⟩
              · intro r hr
                rcases List.mem_cons.mp hr with rfl | hr
                · obtain ⟨m, hm3, hm⟩ := hsome'
                  obtain ⟨k, r', hk, hr'⟩ := carries_iff.mp (hM1.carryNew m hm3 hm (by simp))
                  rw [← hr']
                  exact mem_varPool (hres.keep k m r' hk)
                · exact hres.applied r hr
              · intro k m r hk
                rcases hres.only k m r hk with h1 | h1
                · rcases hM1.vars k m r h1 with h2 | rfl
                  · exact Or.inl h2
                  · exact Or.inr (by simp)
                · exact Or.inr (by simp [h1])
            split at h
            · -- frameshifting record: bridges between the frames
              rename_i hfs
              obtain ⟨⟨g1, cs1⟩, hap, h⟩ := tvg_bind_ok.mp h
              simp only at h
              have hshift : framesShifted v % 3 ≠ 0 := by
                rcases hsh hfs with h | h <;> omega
              have hbr : ∀ i, i < 3 → isActive A' i →
                  (fun m => if st.active.getD m false then since m else v.start) i < v.start →
                  isActive A' ((i + framesShifted v) % 3) ∧
                    (fun m => if st.active.getD m false then since m else v.start)
                      ((i + framesShifted v) % 3) ≤ v.start := by
                intro i hi3 _ hs
                have hold : isActive st.active i := by
                  by_cases ha : st.active.getD i false = true
                  · exact ha
                  · simp only [ha, if_false, Bool.false_eq_true] at hs
                    omega
                have hj := hA'br hfs i hi3 hold
                exact ⟨hj, hsv _ hj⟩
              obtain ⟨hR1, hC1, hM1, hle1⟩ := applyShift_live h3 hv _ hshift A' _ st.g hbr [0, 1, 2] st.g _
                g1 cs1 hR hC (by decide) (by decide)
                (fun m hm => ⟨fun _ => hsrc m hm, fun hn => by
                  exfalso; apply hn
                  have : m = 0 ∨ m = 1 ∨ m = 2 := by omega
                  rcases this with rfl | rfl | rfl <;> simp⟩) (midInv_start hLv') hle hap
              exact hfinish g1 cs1 hR1 hC1 hM1 hle1 h
            · obtain ⟨⟨g1, cs1⟩, hap, h⟩ := tvg_bind_ok.mp h
              simp only at h
              obtain ⟨hR1, hC1, hM1, hle1⟩ := applyInFrame_live h3 hv A' _ st.g hsv [0, 1, 2] st.g _ g1 cs1
                hR hC (by decide) (by decide)
                (fun m hm => hsrc m (by
                  simp only [List.mem_cons, List.not_mem_nil, or_false] at hm; omega))
                (midInv_start hLv') hle hap
              exact hfinish g1 cs1 hR1 hC1 hM1 hle1 h

/-! ### `create_variant_graph` -/

theorem initThreeFrames_noVar (t : List Char) {k m : Nat} {r : Rec} :
    ¬ IsVar (initThreeFrames t) k m r := by
  rintro ⟨sq, h⟩
  simp only [initThreeFrames] at h
  match k, h with
  | 0, h => simp at h
  | 1, h => simp at h
  | 2, h => simp at h
  | 3, h => simp at h
  | 4, h => simp at h
  | 5, h => simp at h
  | 6, h => simp at h
  | k + 7, h => simp at h

theorem initialActive_len {inp : TvgIn} {A0 : List Bool} (h : initialActive inp = .ok A0) :
    A0.length = 3 := by
  unfold initialActive at h
  split at h
  · split at h
    · simp only [pure, Except.pure, Except.ok.injEq] at h
      subst h; simp
    · simp [throw, throwThe, MonadExceptOf.throw] at h
  · simp only [pure, Except.pure, Except.ok.injEq] at h
    subst h; rfl

/-- the records `create_variant_graph` walks over come in ascending order of start -/
theorem variantsWithMnv_asc {inp : TvgIn} {vs l : List Rec} (h : variantsWithMnv inp vs = .ok l) :
    AscBy (·.start) l := by
  unfold variantsWithMnv at h
  obtain ⟨_, _, h⟩ := tvg_bind_ok.mp h
  obtain ⟨_, _, h⟩ := tvg_bind_ok.mp h
  obtain ⟨_, _, h⟩ := tvg_bind_ok.mp h
  exact pySorted_asc recLt_agrees h

/-- **the graph `create_variant_graph` returns satisfies `LiveInv`** with every frame that was
active from the start still active "since position 0" -/
theorem curLe_init (t : List Char) (x : Nat) (hx : 3 ≤ x) :
    CurLe (initThreeFrames t) [some 4, some 5, some 6] x := by
  intro m hm
  match m, hm with
  | 0, _ => exact ⟨4, 0, t.length, rfl, ⟨_, rfl⟩, by omega⟩
  | 1, _ => exact ⟨5, 1, t.length, rfl, ⟨_, rfl⟩, by omega⟩
  | 2, _ => exact ⟨6, 2, t.length, rfl, ⟨_, rfl⟩, by omega⟩

theorem initialActive_some {inp : TvgIn} {A0 : List Bool} (h : initialActive inp = .ok A0) :
    ∃ m, m < 3 ∧ isActive A0 m := by
  unfold initialActive at h
  split at h
  · split at h
    · rename_i s e _
      simp only [pure, Except.pure, Except.ok.injEq] at h
      subst h
      refine ⟨s % 3, Nat.mod_lt _ (by omega), ?_⟩
      have : s % 3 = 0 ∨ s % 3 = 1 ∨ s % 3 = 2 := by omega
      rcases this with h | h | h <;> simp [isActive, h]
    · simp [throw, throwThe, MonadExceptOf.throw] at h
  · simp only [pure, Except.pure, Except.ok.injEq] at h
    subst h
    exact ⟨0, by omega, rfl⟩

/-- **the graph `create_variant_graph` returns satisfies `LiveInv`** with every frame that was
active from the start still active "since position 0", and its variant nodes carry exactly the
records the loop walked over (`variantsWithMnv`: filter, merged MNVs, `sorted`) -/
theorem createVariantGraph_live {inp : TvgIn} {vs : List Rec} {g : TState}
    (h3 : 3 ≤ inp.seq.length) (hvs : ∀ v ∈ vs, InOk inp.seq v)
    (h : createVariantGraph inp vs = .ok g) :
    ∃ A0 A' since' l, initialActive inp = .ok A0 ∧ variantsWithMnv inp vs = .ok l ∧
      LiveInv g A' since' [] ∧ (∀ m, m < 3 → isActive A0 m → isActive A' m ∧ since' m = 0) ∧
      (∀ x, x ∈ varPool g ↔ ∃ r ∈ l, r.toVar = x) := by
  simp only [createVariantGraph, createVariantGraphOn] at h
  split at h
  · cases h
  obtain ⟨l, hl, h⟩ := tvg_bind_ok.mp h
  rw [initial_cursors] at h
  simp only [bind, Except.bind] at h
  cases hact : initialActive inp with
  | error m => simp [hact] at h
  | ok act =>
    simp only [hact] at h
    have hinit : LiveInv (initThreeFrames inp.seq) act (fun _ => 0) l :=
      ⟨initialActive_len hact, fun _ _ _ _ _ hk => (initThreeFrames_noVar _ hk).elim,
        fun _ _ _ _ hk => (initThreeFrames_noVar _ hk).elim, fun _ _ _ _ => Nat.zero_le _,
        fun _ _ _ hk => (initThreeFrames_noVar _ hk).elim⟩
    have hlok := variantsWithMnv_ok hvs hl
    have hres := cvgLoop_live h3 _ l
      { g := initThreeFrames inp.seq, cursors := [some 4, some 5, some 6], active := act } g
      (fun _ => 0) hlok (variantsWithMnv_asc hl) Reach.init rfl
      (fun w hw => curLe_init _ _ (hlok w hw).1) hinit (initialActive_some hact) h
    obtain ⟨A', since', hfin, hkeep⟩ := hres.live
    refine ⟨act, A', since', l, rfl, hl, hfin, hkeep, ?_⟩
    intro x
    constructor
    · intro hx
      obtain ⟨k, m, r, hk, hr⟩ := mem_varPool_iff.mp hx
      rcases hres.only k m r hk with h1 | h1
      · exact (initThreeFrames_noVar _ h1).elim
      · exact ⟨r, h1, hr⟩
    · rintro ⟨r, hr, rfl⟩
      exact hres.applied r hr

/-- under `LiveInv` every strictly separated list of records of the graph that starts behind
`since m` is attached from the active frame `m` on -/
theorem attached_of_live {t : List Char} {g : TState} (hI : Inv t g) (hL : VarLinked t g)
    {A : List Bool} {since : Nat → Nat} (hLv : LiveInv g A since []) :
    ∀ (h : List Var) (m : Nat), isActive A m → (∀ v ∈ h, v ∈ varPool g) → separated h = true →
      (∀ v ∈ h.head?, since m < v.start) → attached g m h = true := by
  intro h
  induction h with
  | nil => intros; rfl
  | cons v rest ih =>
    intro m hm hpool hsep hfirst
    obtain ⟨k0, f0, r0, hk0, hr0⟩ := mem_varPool_iff.mp (hpool v (by simp))
    have hs0 : since m < r0.start := by
      have := hfirst v (by simp)
      have e : r0.start = v.start := by rw [← hr0]; rfl
      omega
    have hcar : carries g m v = true := hr0 ▸ hLv.carry m hm k0 f0 r0 hk0 hs0
    refine attached_cons.mpr ⟨hcar, ?_⟩
    cases rest with
    | nil => exact Or.inl rfl
    | cons w rest' =>
      right
      have hsep' : v.stop < w.start ∧ separated (w :: rest') = true := by
        simpa [separated] using hsep
      obtain ⟨k, r, hk, hr⟩ := carries_iff.mp hcar
      obtain ⟨k1, f1, r1, hk1, hr1⟩ := mem_varPool_iff.mp (hpool w (by simp))
      have hw := (hI.var_ok hk1).2.2
      have e0 : r.start = v.start := by rw [← hr]; rfl
      have e1 : r.stop = v.stop := by rw [← hr]; rfl
      have e2 : r1.start = w.start := by rw [← hr1]; rfl
      have hss := (hI.var_ok hk).2.2.1
      obtain ⟨e, he, hsrc, _⟩ := (hL k m r hk (by simp)).2 (by omega)
      subst hsrc
      obtain ⟨_, g', d, hd⟩ := hI.var_outEdge hk he rfl
      obtain ⟨b1, b2⟩ := hLv.bridge e he m r hk hm (by have := hfirst v (by simp); omega)
      rw [nodeFrame_isRef hd] at b1 b2
      refine ⟨g', mem_bridgeFrames.mpr ⟨e, he, ⟨r, hk, hr⟩, nodeFrame_isRef hd⟩, ?_⟩
      apply ih g' b1 (fun x hx => hpool x (by simp [hx])) hsep'.2
      intro x hx
      simp only [List.head?_cons, Option.mem_def, Option.some.injEq] at hx
      subst hx
      omega

/-- **every frame that is active from the start carries every compatible combination**: in the
graph `create_variant_graph` returns, every strictly separated list of records that have a variant
node is attached from such a frame on -/
theorem createVariantGraph_attached {inp : TvgIn} {vs : List Rec} {g : TState}
    (h3 : 3 ≤ inp.seq.length) (hvs : ∀ v ∈ vs, InOk inp.seq v)
    (h : createVariantGraph inp vs = .ok g) {A0 : List Bool} (hA0 : initialActive inp = .ok A0)
    {f : Nat} (hf : isActive A0 f) {hs : List Var} (hpool : ∀ v ∈ hs, v ∈ varPool g)
    (hsep : separated hs = true) : attached g f hs = true := by
  obtain ⟨A0', A', since', _, hA0', _, hLv, hkeep, _⟩ := createVariantGraph_live h3 hvs h
  rw [hA0] at hA0'
  cases hA0'
  obtain ⟨hI, hL⟩ := reach_inv h3 (createVariantGraph_reach_of_inOk h3 hvs h)
  have hf3 : f < 3 := by have := isActive_lt hf; rw [initialActive_len hA0] at this; exact this
  obtain ⟨k1, k2⟩ := hkeep f hf3 hf
  apply attached_of_live hI hL hLv hs f k1 hpool hsep
  intro v hv
  rw [k2]
  have hmem : v ∈ hs := by
    cases hs with
    | nil => simp at hv
    | cons w rest =>
      simp only [List.head?_cons, Option.mem_def, Option.some.injEq] at hv
      subst hv; simp
  obtain ⟨k, m, r, hk, hr⟩ := mem_varPool_iff.mp (hpool v hmem)
  have := (hI.var_ok hk).2.1
  have e : r.start = v.start := by rw [← hr]; rfl
  omega

end MoPepGen.Tvg
