/-
What one `apply_variant` call (`Model/Tvg.lean`) does to the VARIANT nodes and their out-edges:
exactly one new variant node (record `v`, frame of the source node), the out-edges of the older
variant nodes stay what they were, every out-edge of the new one leads into the frame of the
TARGET node.  (Needed for the completeness half of the language theorem: which frames carry which
records, and which frame a path is in behind a record.)
-/
import MoPepGen.Model.TvgLang
import MoPepGen.Lemmas.Tvg
namespace MoPepGen.Tvg
open MoPepGen MoPepGen.Spec

theorem nodeFrame_isRef {s : TState} {i f a b : Nat} (h : IsRef s i f a b) : nodeFrame s i = f := by
  obtain ⟨sq, h⟩ := h
  simp [nodeFrame, h]

/-- between two states inside one `apply_variant` call, after the new variant node `K` was
created: the variant nodes are the same, old nodes keep their frame, and a `variant_end` edge out
of a variant node is an old edge or leaves `K` towards a node of frame `g` -/
structure VStep (s s' : TState) (K g : Nat) : Prop where
  len : s.nodes.length ≤ s'.nodes.length
  frame : ∀ j, j < s.nodes.length → nodeFrame s' j = nodeFrame s j
  isVar : ∀ {k m : Nat} {r : Rec}, IsVar s' k m r ↔ IsVar s k m r
  out : ∀ e' ∈ s'.edges, e'.ty = .variantEnd → (∃ m r, IsVar s e'.src m r) →
    e' ∈ s.edges ∨ (e'.src = K ∧ e'.dst < s'.nodes.length ∧ nodeFrame s' e'.dst = g)

theorem VStep.refl (s : TState) (K g : Nat) : VStep s s K g :=
  ⟨Nat.le_refl _, fun _ _ => rfl, Iff.rfl, fun _ he _ _ => Or.inl he⟩

theorem VStep.trans {s s1 s2 : TState} {K g : Nat} (h1 : VStep s s1 K g) (h2 : VStep s1 s2 K g) :
    VStep s s2 K g := by
  refine ⟨Nat.le_trans h1.len h2.len, ?_, h2.isVar.trans h1.isVar, ?_⟩
  · intro j hj
    rw [h2.frame j (Nat.lt_of_lt_of_le hj h1.len), h1.frame j hj]
  · intro e' he' hty hsrc
    obtain ⟨m, r, hv⟩ := hsrc
    rcases h2.out e' he' hty ⟨m, r, h1.isVar.mpr hv⟩ with h | h
    · rcases h1.out e' h hty ⟨m, r, hv⟩ with h | ⟨ha, hb, hc⟩
      · exact Or.inl h
      · exact Or.inr ⟨ha, Nat.lt_of_lt_of_le hb h2.len, by rw [h2.frame _ hb, hc]⟩
    · exact Or.inr h

theorem VStep.addEdge_other (s : TState) (i o : Nat) {ty : EType} (hty : ty ≠ .variantEnd) (K g : Nat) :
    VStep s (addEdge s i o ty) K g := by
  refine ⟨Nat.le_refl _, fun _ _ => rfl, Iff.rfl, ?_⟩
  intro e' he' hty' _
  simp only [addEdge, List.mem_append, List.mem_singleton] at he'
  rcases he' with h | rfl
  · exact Or.inl h
  · exact absurd hty' hty

theorem VStep.addEdge_end (s : TState) (K o g : Nat) (ho : o < s.nodes.length)
    (hg : nodeFrame s o = g) : VStep s (addEdge s K o .variantEnd) K g := by
  refine ⟨Nat.le_refl _, fun _ _ => rfl, Iff.rfl, ?_⟩
  intro e' he' _ _
  simp only [addEdge, List.mem_append, List.mem_singleton] at he'
  rcases he' with h | rfl
  · exact Or.inl h
  · exact Or.inr ⟨rfl, ho, hg⟩

/-- `splice` of a reference node: no variant node, no edge out of a variant node changes; the
right half is a new node of the same frame -/
theorem splice_vstep {s s1 : TState} {n l r : Nat} {i : Int} {ty : EType}
    (h : splice s n i ty = .ok (s1, l, r)) (K g : Nat) :
    VStep s s1 K g ∧ r = s.nodes.length ∧ r < s1.nodes.length ∧ nodeFrame s1 r = nodeFrame s n := by
  unfold splice at h
  split at h
  · cases h
  · rename_i nd hnd
    split at h
    · cases h
    · cases h
    · rename_i a b hk
      simp only [Except.ok.injEq, Prod.mk.injEq] at h
      obtain ⟨rfl, rfl, rfl⟩ := h
      have hlt : n < s.nodes.length := (List.getElem?_eq_some_iff.mp hnd).1
      refine ⟨⟨?_, ?_, ?_, ?_⟩, rfl, ?_, ?_⟩
      · rw [spliceAt_nodes_length]; omega
      · intro j hj
        simp only [nodeFrame, spliceAt_node a b _ ty hnd]
        by_cases hjn : j = n
        · subst hjn; simp [hnd]
        · have : j ≠ s.nodes.length := by omega
          simp [hjn, this]
      · intro k m r
        exact spliceAt_isVar _ ty hnd hk
      · intro e' he' _ hsrc
        obtain ⟨m, r, hv⟩ := hsrc
        rcases spliceAt_mem_edges.mp he' with ⟨e, he, rfl⟩ | rfl
        · by_cases hs : e.src = n
          · simp only [hs, beq_self_eq_true, if_true] at hv
            exact absurd hv.lt (Nat.lt_irrefl _)
          · have : (e.src == n) = false := by simpa using hs
            simp only [this, Bool.false_eq_true, if_false]
            exact Or.inl he
        · obtain ⟨sq, hv⟩ := hv
          simp only at hv
          rw [hnd] at hv
          cases hv
          simp at hk
      · rw [spliceAt_nodes_length]; omega
      · simp only [nodeFrame, spliceAt_node a b _ ty hnd]
        have : s.nodes.length ≠ n := by omega
        simp [this, hnd]

/-- "# variant start" adds no `variant_end` edge -/
theorem avStart_vstep {s s' : TState} {source target k : Nat} {v : Rec} {a : Nat} {inF : Bool}
    {ret0 target' : Nat} (h : avStart s source target k v a inF = .ok (s', ret0, target'))
    (K g : Nat) : VStep s s' K g := by
  unfold avStart at h
  split at h
  · obtain ⟨o, _, h⟩ := tvg_bind_ok.mp h
    cases o with
    | none => simp at h
    | some prev =>
      simp only [pure, Except.pure, Except.ok.injEq, Prod.mk.injEq] at h
      obtain ⟨rfl, _, _⟩ := h
      exact VStep.addEdge_other _ _ _ (by simp) _ _
  · obtain ⟨idx, _, h⟩ := tvg_bind_ok.mp h
    obtain ⟨⟨s1, head, tail⟩, hsp, h⟩ := tvg_bind_ok.mp h
    simp only [pure, Except.pure, Except.ok.injEq, Prod.mk.injEq] at h
    obtain ⟨rfl, _, _⟩ := h
    exact (splice_vstep hsp K g).1.trans (VStep.addEdge_other _ _ _ (by simp) _ _)

/-- "# variant end": the only new `variant_end` edge leaves the variant node `k` and enters a
node of the target's frame `g` -/
theorem avEnd_vstep {t : List Char} {s : TState} (hI : Inv t s) {k : Nat} {v : Rec}
    (hss : v.start < v.stop)
    {target g c d : Nat} (ht : IsRef s target g c d) (hc : c ≤ v.start)
    {ret0 : Nat} {inFrame atStart : Bool} {s' : TState} {r0 r1 : Nat}
    (h : avEnd s target k v d ret0 inFrame atStart = .ok (s', r0, r1)) : VStep s s' k g := by
  unfold avEnd at h
  split at h
  · obtain ⟨idx, _, h⟩ := tvg_bind_ok.mp h
    obtain ⟨⟨s1, head, tail⟩, hsp, h⟩ := tvg_bind_ok.mp h
    obtain ⟨hvs, _, htl, hfr⟩ := splice_vstep hsp k g
    have hs' : s' = addEdge s1 k tail .variantEnd := by
      cases inFrame <;> cases atStart <;>
        simp only [pure, Except.pure, if_true, if_false, Bool.false_eq_true, Except.ok.injEq,
          Prod.mk.injEq] at h <;> exact h.1.symm
    subst hs'
    exact hvs.trans (VStep.addEdge_end _ _ _ _ htl (by rw [hfr, nodeFrame_isRef ht]))
  · obtain ⟨cur, hw, h⟩ := tvg_bind_ok.mp h
    obtain ⟨x', y', hcur, _, _, _⟩ := walkToEnd_ref hI v.stop _ _ _ _ _ _ ht (by omega) hw
    obtain ⟨⟨cs, cEnd⟩, _, h⟩ := tvg_bind_ok.mp h
    obtain ⟨s2, hs2, h⟩ := tvg_bind_ok.mp h
    simp only [pure, Except.pure, Except.ok.injEq, Prod.mk.injEq] at h
    obtain ⟨rfl, _, _⟩ := h
    split at hs2
    · obtain ⟨idx, _, hs2⟩ := tvg_bind_ok.mp hs2
      split at hs2
      · simp only [pure, Except.pure, Except.ok.injEq] at hs2
        subst hs2
        exact VStep.addEdge_end _ _ _ _ hcur.lt (nodeFrame_isRef hcur)
      · obtain ⟨⟨s3, l, right⟩, hsp, hs2⟩ := tvg_bind_ok.mp hs2
        simp only [pure, Except.pure, Except.ok.injEq] at hs2
        subst hs2
        obtain ⟨hvs, _, htl, hfr⟩ := splice_vstep hsp k g
        exact hvs.trans (VStep.addEdge_end _ _ _ _ htl (by rw [hfr, nodeFrame_isRef hcur]))
    · simp only [pure, Except.pure, Except.ok.injEq] at hs2
      subst hs2
      exact VStep.refl _ _ _

/-- what one `apply_variant(source, target, v)` call does to the variant nodes: one new variant
node (index `|nodes|`, frame `f` of the source, record `v`); a `variant_end` edge out of a
variant node is an old edge out of an old variant node, or leaves the new node towards a node of
the target's frame `g`; old nodes keep their frame -/
structure ApplyDelta (s s' : TState) (f g : Nat) (v : Rec) : Prop where
  frame : ∀ j, j < s.nodes.length → nodeFrame s' j = nodeFrame s j
  isVar : ∀ {k m : Nat} {r : Rec}, IsVar s' k m r ↔ IsVar s k m r ∨ (k = s.nodes.length ∧ m = f ∧ r = v)
  out : ∀ e' ∈ s'.edges, e'.ty = .variantEnd → ∀ m r, IsVar s' e'.src m r →
    (IsVar s e'.src m r ∧ e' ∈ s.edges) ∨ (e'.src = s.nodes.length ∧ nodeFrame s' e'.dst = g)

theorem applyVariant_delta {t : List Char} {s : TState} (hI : Inv t s) (hL : VarLinked t s)
    {source target : Nat} {v : Rec} (hw : v.start < v.stop ∧ v.stop ≤ t.length)
    {f a b : Nat} (hs : IsRef s source f a b) (hf : f < v.start) (ha : a ≤ v.start) (hb : v.start < b)
    {g c d : Nat} (ht : IsRef s target g c d) (hc : c ≤ v.start)
    {s' : TState} {r0 r1 : Nat} (h : applyVariant s source target v = .ok (s', r0, r1)) :
    ApplyDelta s s' f g v := by
  obtain ⟨hw1, hw2⟩ := hw
  have hab := (hI.ref_ok hs).2.2.1
  have hcd := (hI.ref_ok ht).2.2.1
  have hrf : (s.nodes[source]?.map (·.rf)).getD 3 = f := by
    obtain ⟨sq, hsq⟩ := hs
    simp [hsq]
  simp only [applyVariant, nodeLoc_ref hs hab, nodeLoc_ref ht hcd, bind, Except.bind, hrf] at h
  split at h
  · simp [throw, throwThe, MonadExceptOf.throw] at h
  · split at h
    · simp [throw, throwThe, MonadExceptOf.throw] at h
    · have hI1 : Inv t (addNode s ⟨f, .var v, v.alt⟩).1 :=
        inv_addVar hI (by simp only [NodeOk]; exact ⟨(hI.ref_ok hs).1, trivial, hf, hw1, hw2⟩)
      have hL1 := @varLinkedExcept_addVar t s f v v.alt hL
      have hv1 : IsVar (addNode s ⟨f, .var v, v.alt⟩).1 s.nodes.length f v :=
        addVar_isVar.mpr (Or.inr ⟨rfl, rfl, rfl⟩)
      have hs1 : IsRef (addNode s ⟨f, .var v, v.alt⟩).1 source f a b := addVar_isRef.mpr hs
      have ht1 : IsRef (addNode s ⟨f, .var v, v.alt⟩).1 target g c d := addVar_isRef.mpr ht
      simp only [addNode_snd] at h
      cases hst : avStart (addNode s ⟨f, .var v, v.alt⟩).1 source target s.nodes.length v a
          (source == target) with
      | error m => simp [hst] at h
      | ok res =>
        obtain ⟨s2, ret0, target'⟩ := res
        simp only [hst] at h
        obtain ⟨hI2, _, _, hv2, ⟨c', ht2, hc2⟩, _, _, _⟩ :=
          avStart_inv hI1 hL1 hv1 hs1 ha hb hf ht1 hc hst
        have hvs : VStep (addNode s ⟨f, .var v, v.alt⟩).1 s' s.nodes.length g :=
          (avStart_vstep hst _ g).trans (avEnd_vstep hI2 hw1 ht2 hc2 h)
        refine ⟨?_, ?_, ?_⟩
        · intro j hj
          rw [hvs.frame j (by rw [addNode_length]; omega)]
          simp only [nodeFrame, addNode_node]
          have : j ≠ s.nodes.length := by omega
          simp [this]
        · intro k m r
          rw [hvs.isVar, addVar_isVar]
          constructor
          · rintro (h | ⟨h1, h2, h3⟩)
            · exact Or.inl h
            · exact Or.inr ⟨h1, h2.symm, h3.symm⟩
          · rintro (h | ⟨h1, h2, h3⟩)
            · exact Or.inl h
            · exact Or.inr ⟨h1, h2.symm, h3.symm⟩
        · intro e' he' hty m r hv
          have hv0 := hvs.isVar.mp hv
          rcases hvs.out e' he' hty ⟨m, r, hv0⟩ with h | ⟨h1, _, h3⟩
          · rw [addNode_edges] at h
            left
            refine ⟨?_, h⟩
            rcases addVar_isVar.mp hv0 with h' | ⟨h', _, _⟩
            · exact h'
            · have := (hI.edgesIn e' h).1; omega
          · exact Or.inr ⟨h1, h3⟩

end MoPepGen.Tvg
