/-
Lemmas for Layer G, checkpoint CP4 (`Model/Graph.lean`: `boundaries`, `stopSegments`,
`requiredCuts`): the node boundaries of a path are cut positions of its list of node labels;
what a stop-delimited segment is; which positions `requiredCuts` contains; slices of slices.
Used by `Props.C01.cp4_covers_products`.
-/
import MoPepGen.Lemmas.Graph
import MoPepGen.Lemmas.Regex
namespace MoPepGen.Graph
open MoPepGen MoPepGen.Spec

/-! ### `boundaries g false p ⊆ cuts (p.map (nodeSeq g))` -/

/-- the running-position loop of `boundaries`: every reported position is the start
position plus a cut of the remaining node labels -/
theorem gc_boundaries_go_mem (g : Graph) : ∀ (js : List Nat) (pos c : Nat),
    c ∈ boundaries.go g false pos js → ∃ d ∈ cuts (js.map (nodeSeq g)), c = d + pos := by
  intro js
  induction js with
  | nil => intro pos c h; simp [boundaries.go] at h
  | cons j js ih =>
    intro pos c h
    simp only [boundaries.go, Bool.not_false, Bool.true_or, if_true, List.singleton_append,
      List.mem_cons] at h
    rcases h with rfl | h
    · exact ⟨0, zero_mem_cuts _, by omega⟩
    · obtain ⟨d, hd, rfl⟩ := ih _ _ h
      refine ⟨d + (nodeSeq g j).length, ?_, by omega⟩
      simp only [List.map_cons, cuts, List.mem_cons, List.mem_map]
      exact Or.inr ⟨d, hd, rfl⟩

/-- every node boundary of a path is a cut position of its list of node labels -/
theorem gc_boundaries_subset_cuts (g : Graph) (p : List Nat) (c : Nat)
    (h : c ∈ boundaries g false p) : c ∈ cuts (p.map (nodeSeq g)) := by
  cases p with
  | nil => simp [boundaries] at h
  | cons i rest =>
    simp only [boundaries] at h
    obtain ⟨d, hd, rfl⟩ := gc_boundaries_go_mem g rest _ _ h
    simp only [List.map_cons, cuts, List.mem_cons, List.mem_map]
    exact Or.inr ⟨d, hd, rfl⟩

theorem gc_flatten_map_nodeSeq (g : Graph) (p : List Nat) :
    (p.map (nodeSeq g)).flatten = pathSeq g p := by
  simp [pathSeq, List.flatMap_def]

/-! ### slices -/

theorem gc_slice_mid (pre mid post : List Char) :
    slice (pre ++ mid ++ post) pre.length (pre.length + mid.length) = mid := by
  simp [slice, List.append_assoc]

/-- a slice of a slice is a slice of the whole -/
theorem gc_slice_slice (w : List Char) (off n a b : Nat) (hb : b ≤ n) :
    slice (slice w off (off + n)) a b = slice w (off + a) (off + b) := by
  simp only [slice, List.drop_take, List.take_take, List.drop_drop]
  congr 1
  omega

/-- a slice whose end is not behind its start is empty -/
theorem gc_slice_empty (w : List Char) (a b : Nat) (h : b ≤ a) : slice w a b = [] := by
  simp [slice, Nat.sub_eq_zero_of_le h]

/-! ### stop-delimited segments -/

/-- the loop of `stopSegments`, with the consumed prefix made explicit: every reported
segment is the slice of the whole string at its offset, and contains no stop symbol -/
theorem gc_stopSegments_go_spec : ∀ (rest pre cur : List Char) (o : Nat) (seg : List Char),
    (∀ c ∈ cur, c ≠ '*') → (o, seg) ∈ stopSegments.go pre.length cur rest →
    seg = slice (pre ++ cur.reverse ++ rest) o (o + seg.length) ∧
    o + seg.length ≤ (pre ++ cur.reverse ++ rest).length ∧ ∀ c ∈ seg, c ≠ '*' := by
  intro rest
  induction rest with
  | nil =>
    intro pre cur o seg hcur h
    simp only [stopSegments.go, List.mem_singleton, Prod.mk.injEq] at h
    obtain ⟨rfl, rfl⟩ := h
    refine ⟨?_, ?_, ?_⟩
    · have := gc_slice_mid pre cur.reverse []
      simpa using this.symm
    · simp
    · intro c hc; exact hcur c (List.mem_reverse.mp hc)
  | cons x xs ih =>
    intro pre cur o seg hcur h
    simp only [stopSegments.go] at h
    split at h
    · rename_i hx
      rcases List.mem_cons.mp h with h | h
      · simp only [Prod.mk.injEq] at h
        obtain ⟨rfl, rfl⟩ := h
        refine ⟨?_, ?_, ?_⟩
        · have := gc_slice_mid pre cur.reverse (x :: xs)
          simpa using this.symm
        · simp
        · intro c hc; exact hcur c (List.mem_reverse.mp hc)
      · have hlen : pre.length + cur.length + 1 = (pre ++ cur.reverse ++ [x]).length := by
          simp; omega
        rw [hlen] at h
        have := ih (pre ++ cur.reverse ++ [x]) [] o seg (by simp) h
        simpa [List.append_assoc] using this
    · rename_i hx
      have hx' : x ≠ '*' := by simpa using hx
      have := ih pre (x :: cur) o seg
        (by intro c hc; rcases List.mem_cons.mp hc with rfl | hc
            · exact hx'
            · exact hcur c hc) h
      simpa [List.append_assoc] using this

/-- facts about a stop-delimited segment `(off, seg)` of `w`: it is the slice of `w` at `off`,
it lies inside `w`, it contains no stop symbol -/
theorem gc_stopSegments_spec (w : List Char) (off : Nat) (seg : List Char)
    (h : (off, seg) ∈ stopSegments w) :
    seg = slice w off (off + seg.length) ∧ off + seg.length ≤ w.length ∧ ∀ c ∈ seg, c ≠ '*' := by
  have := gc_stopSegments_go_spec w [] [] off seg (by simp) (by simpa [stopSegments] using h)
  simpa using this

/-! ### cleavage sites lie inside the string -/

theorem gc_site_le (rule : Re) (exc : Option Re) (s : List Char) (i : Nat)
    (h : i ∈ cleaveSites rule exc s) : 1 ≤ i ∧ i ≤ s.length := by
  simp only [cleaveSites, Re.ends, Re.finditer, finditerFrom_eq, List.mem_filter, List.mem_map,
    List.mem_range'_1] at h
  obtain ⟨⟨a, ⟨⟨_, ha⟩, _⟩, rfl⟩, _⟩ := h
  omega

/-! ### what `requiredCuts` contains -/

/-- both ends of a stop-delimited segment and its (shifted) cleavage sites are required
cuts whenever they are inner positions of `w` -/
theorem gc_mem_requiredCuts (rule : Re) (exc : Option Re) (w : List Char) (off : Nat)
    (seg : List Char) (h : (off, seg) ∈ stopSegments w) (x : Nat)
    (hx : x = off ∨ x = off + seg.length ∨ ∃ s ∈ cleaveSites rule exc seg, x = off + s)
    (h0 : 0 < x) (h1 : x < w.length) : x ∈ requiredCuts rule exc w := by
  simp only [requiredCuts, List.mem_filter, List.mem_flatMap, Bool.and_eq_true, decide_eq_true_eq]
  refine ⟨⟨(off, seg), h, ?_⟩, h0, h1⟩
  simp only [List.mem_append, List.mem_map, List.mem_cons, List.not_mem_nil, or_false]
  rcases hx with rfl | rfl | ⟨s, hs, rfl⟩
  · exact Or.inr (Or.inl rfl)
  · exact Or.inr (Or.inr rfl)
  · exact Or.inl ⟨s, hs, by omega⟩

/-- under CP4 (every required cut of the path's protein is a node boundary) the shifted
digest bounds `off + (0 | site | |seg|)` of every stop-delimited segment are cut positions of
the path's node labels -/
theorem gc_bound_mem_cuts (g : Graph) (p : List Nat) (rule : Re) (exc : Option Re)
    (hcp : ∀ c ∈ requiredCuts rule exc (pathSeq g p), c ∈ boundaries g false p)
    (off : Nat) (seg : List Char) (hseg : (off, seg) ∈ stopSegments (pathSeq g p))
    (a : Nat) (ha : a ∈ bounds (cleaveSites rule exc seg) seg.length) :
    a ≤ seg.length ∧ off + a ∈ cuts (p.map (nodeSeq g)) := by
  obtain ⟨_, hle, _⟩ := gc_stopSegments_spec _ off seg hseg
  have hx : off + a = off ∨ off + a = off + seg.length ∨
      ∃ s ∈ cleaveSites rule exc seg, off + a = off + s := by
    simp only [bounds, List.mem_cons, List.mem_append, List.not_mem_nil, or_false] at ha
    rcases ha with rfl | ha | rfl
    · exact Or.inl rfl
    · exact Or.inr (Or.inr ⟨a, ha, rfl⟩)
    · exact Or.inr (Or.inl rfl)
  have hale : a ≤ seg.length := by
    simp only [bounds, List.mem_cons, List.mem_append, List.not_mem_nil, or_false] at ha
    rcases ha with rfl | ha | rfl
    · omega
    · exact (gc_site_le rule exc seg a ha).2
    · omega
  refine ⟨hale, ?_⟩
  rcases Nat.eq_zero_or_pos (off + a) with h0 | h0
  · rw [h0]; exact zero_mem_cuts _
  · rcases Nat.lt_or_ge (off + a) (pathSeq g p).length with h1 | h1
    · exact gc_boundaries_subset_cuts g p _
        (hcp _ (gc_mem_requiredCuts rule exc _ off seg hseg _ hx h0 h1))
    · have : off + a = ((p.map (nodeSeq g)).flatten).length := by
        rw [gc_flatten_map_nodeSeq]; omega
      rw [this]; exact length_mem_cuts _

end MoPepGen.Graph
