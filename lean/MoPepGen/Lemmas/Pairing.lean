import MoPepGen.Lemmas.Regex
import MoPepGen.Model.Pairing
/-! Helper lemmas for the site/range pairing (`range_pairing*` in Props/C10). -/
namespace MoPepGen

/-! ### disjoint classes, clashing sequences -/

theorem Cls.disjoint_sound {c d : Cls} (h : c.disjoint d = true) (x : Char)
    (hc : c.test x = true) (hd : d.test x = true) : False := by
  cases c <;> cases d <;>
    simp only [Cls.disjoint, Cls.test, List.all_eq_true, Bool.false_eq_true, Bool.not_eq_eq_eq_not, Bool.not_true,
      List.contains_eq_mem, decide_eq_true_eq, decide_eq_false_iff_not] at h hc hd
  all_goals first
    | exact absurd hd (h x hc)
    | exact absurd (h x hc) hd
    | exact absurd (h x hd) hc
    | exact absurd hc (by simpa using h x hd)
    | exact absurd hd (by simpa using h x hc)

theorem clash_sound {xs ys : List Cls} {t : List Char} (h : clash xs ys = true)
    (hx : clsSeq xs t = true) (hy : clsSeq ys t = true) : False := by
  induction xs generalizing ys t with
  | nil => simp [clash] at h
  | cons x xs ih =>
    cases ys with
    | nil => simp [clash] at h
    | cons y ys =>
      cases t with
      | nil => simp [clsSeq] at hx
      | cons c t =>
        simp only [clsSeq, Bool.and_eq_true] at hx hy
        simp only [clash, Bool.or_eq_true] at h
        rcases h with h | h
        · exact Cls.disjoint_sound h c hx.1 hy.1
        · exact ih h hx.2 hy.2

theorem clsSeq_drop {xs : List Cls} {t : List Char} (e : Nat) (h : clsSeq xs t = true) :
    clsSeq (xs.drop e) (t.drop e) = true := by
  induction e generalizing xs t with
  | zero => simpa using h
  | succ e ih =>
    cases xs with
    | nil => simp [clsSeq]
    | cons x xs =>
      cases t with
      | nil => simp [clsSeq] at h
      | cons c t =>
        simp only [clsSeq, Bool.and_eq_true] at h
        simpa using ih h.2

/-! ### alternatives of a `pairOK` rule keep the order of their windows -/

theorem Alt.matchAt_iff (a : Alt) (s : List Char) (i : Nat) :
    a.matchAt s i = true ↔ a.lb.length ≤ i ∧ clsSeq a.flat (s.drop (i - a.lb.length)) = true := by
  simp [Alt.matchAt]

/-- the flattened alternative matches from `j` iff the alternative matches with its consumed
residue at `j + |lb|` -/
theorem Alt.flat_match_iff (a : Alt) (s : List Char) (j : Nat) :
    clsSeq a.flat (s.drop j) = a.matchAt s (j + a.lb.length) := by
  simp [Alt.matchAt]

theorem Alt.noConflict {a b : Alt} (hok : a.compatOK b = true)
    (hlt : b.lb.length < a.lb.length) {s : List Char} {i i' : Nat}
    (ha : a.matchAt s i = true) (hb : b.matchAt s i' = true) :
    ¬ (i - a.lb.length ≤ i' - b.lb.length ∧ i' ≤ i) := by
  rw [Alt.matchAt_iff] at ha hb
  rintro ⟨h1, h2⟩
  simp only [Alt.compatOK, hlt, if_true, List.all_eq_true, List.mem_range] at hok
  have hc := hok ((i' - b.lb.length) - (i - a.lb.length)) (by omega)
  have hd := clsSeq_drop ((i' - b.lb.length) - (i - a.lb.length)) ha.2
  rw [List.drop_drop] at hd
  have e : i - a.lb.length + ((i' - b.lb.length) - (i - a.lb.length)) = i' - b.lb.length := by
    omega
  have e' : ((i' - b.lb.length) - (i - a.lb.length)) + (i - a.lb.length) = i' - b.lb.length := by
    omega
  first
    | (rw [e] at hd; exact clash_sound hc hd hb.2)
    | (rw [e'] at hd; exact clash_sound hc hd hb.2)

theorem Re.pairOK_mem {r : Re} (h : r.pairOK = true) {a b : Alt} (ha : a ∈ r) (hb : b ∈ r) :
    a.compatOK b = true := by
  simp only [Re.pairOK, List.all_eq_true] at h
  exact h a ha b hb

/-- In a `pairOK` rule two matches are ordered by their consumed residues exactly as by the
starts of their windows. -/
theorem Re.order_iso {r : Re} (h : r.pairOK = true) {a b : Alt} (ha : a ∈ r) (hb : b ∈ r)
    {s : List Char} {i i' : Nat} (ma : a.matchAt s i = true) (mb : b.matchAt s i' = true) :
    i < i' ↔ i - a.lb.length < i' - b.lb.length := by
  have la := ((Alt.matchAt_iff a s i).mp ma).1
  have lb := ((Alt.matchAt_iff b s i').mp mb).1
  rcases Nat.lt_trichotomy a.lb.length b.lb.length with hlt | heq | hgt
  · have := Alt.noConflict (Re.pairOK_mem h hb ha) hlt mb ma
    omega
  · omega
  · have := Alt.noConflict (Re.pairOK_mem h ha hb) hgt ma mb
    omega

theorem Re.same_core_same_start {r : Re} (h : r.pairOK = true) {a b : Alt} (ha : a ∈ r)
    (hb : b ∈ r) {s : List Char} {i : Nat} (ma : a.matchAt s i = true)
    (mb : b.matchAt s i = true) : a.lb.length = b.lb.length := by
  have la := ((Alt.matchAt_iff a s i).mp ma).1
  have lb := ((Alt.matchAt_iff b s i).mp mb).1
  have h1 := Re.order_iso h ha hb ma mb
  have h2 := Re.order_iso h hb ha mb ma
  omega

theorem Re.same_start_same_core {r : Re} (h : r.pairOK = true) {a b : Alt} (ha : a ∈ r)
    (hb : b ∈ r) {s : List Char} {i i' : Nat} (ma : a.matchAt s i = true)
    (mb : b.matchAt s i' = true) (hs : i - a.lb.length = i' - b.lb.length) : i = i' := by
  have h1 := Re.order_iso h ha hb ma mb
  have h2 := Re.order_iso h hb ha mb ma
  omega

/-- Key: where `a` matches with its consumed residue at `i`, "matches at `i`" and
"the flattened alternative matches from the start of `a`'s window" are the same
predicate on the alternatives of the rule. -/
theorem Re.core_pred_eq_start_pred {r : Re} (h : r.pairOK = true) {a : Alt} (ha : a ∈ r)
    {s : List Char} {i : Nat} (ma : a.matchAt s i = true) (x : Alt) (hx : x ∈ r) :
    x.matchAt s i = clsSeq x.flat (s.drop (i - a.lb.length)) := by
  have la := ((Alt.matchAt_iff a s i).mp ma).1
  rw [Bool.eq_iff_iff]
  constructor
  · intro mx
    have e := Re.same_core_same_start h hx ha mx ma
    have := ((Alt.matchAt_iff x s i).mp mx).2
    rw [e] at this
    exact this
  · intro mx
    rw [Alt.flat_match_iff] at mx
    have := Re.same_start_same_core h hx ha mx ma (by omega)
    rw [this] at mx
    exact mx

theorem find?_congr' {α : Type} {l : List α} {p q : α → Bool} (h : ∀ a ∈ l, p a = q a) :
    l.find? p = l.find? q := by
  induction l with
  | nil => rfl
  | cons x xs ih =>
    simp only [List.find?_cons]
    rw [h x (by simp), ih (fun a ha => h a (by simp [ha]))]

/-! ### strictly ascending lists with the same members are equal -/

theorem sorted_ext {α : Type} (key : α → Nat) :
    ∀ (l₁ l₂ : List α), l₁.Pairwise (fun x y => key x < key y) →
      l₂.Pairwise (fun x y => key x < key y) → (∀ x, x ∈ l₁ ↔ x ∈ l₂) → l₁ = l₂
  | [], [], _, _, _ => rfl
  | [], b :: l₂, _, _, h => by have := (h b).mpr (by simp); cases this
  | a :: l₁, [], _, _, h => by have := (h a).mp (by simp); cases this
  | a :: l₁, b :: l₂, h₁, h₂, h => by
    rw [List.pairwise_cons] at h₁ h₂
    have hab : a = b := by
      have h1 := (h a).mp (by simp)
      have h2 := (h b).mpr (by simp)
      rcases List.mem_cons.mp h1 with e | h1
      · exact e
      · rcases List.mem_cons.mp h2 with e | h2
        · exact e.symm
        · have := h₁.1 b h2
          have := h₂.1 a h1
          omega
    subst hab
    congr 1
    apply sorted_ext key l₁ l₂ h₁.2 h₂.2
    intro x
    constructor
    · intro hx
      rcases List.mem_cons.mp ((h x).mp (List.mem_cons_of_mem _ hx)) with e | hx'
      · subst e
        have := h₁.1 x hx
        omega
      · exact hx'
    · intro hx
      rcases List.mem_cons.mp ((h x).mpr (List.mem_cons_of_mem _ hx)) with e | hx'
      · subst e
        have := h₂.1 x hx
        omega
      · exact hx'

/-! ### the overlapped matches of the flattened rule are the windows of the sites -/

theorem Re2.matchAt_flat (r : Re) (s : List Char) (j : Nat) :
    Re2.matchAt (r.map Alt.flat) s j =
      (r.find? (fun a => clsSeq a.flat (s.drop j))).map Alt.width := by
  simp only [Re2.matchAt, List.find?_map, Option.map_map]
  congr 1
  funext a
  simp [Alt.flat_length]

theorem Re.matchRange_succ (r : Re) (s : List Char) (i : Nat) :
    r.matchRange s (i + 1) =
      match r.find? (·.matchAt s i) with
      | some a => (i - a.lb.length, i + 1 + a.la.length)
      | none => (0, 0) := by
  simp only [Re.matchRange, Nat.add_sub_cancel]
  cases r.find? (·.matchAt s i) <;> rfl

/-- `regex.finditer(EXPASY_RULES2[rule], seq, overlapped=True)` lists exactly the windows of
the matches of `re.finditer(EXPASY_RULES[rule], seq)`, in the same order. -/
theorem Re.overlapped_eq_windows {r : Re} (h : r.pairOK = true) (s : List Char) :
    Re2.finditerOverlapped (r.map Alt.flat) s =
      ((List.range s.length).filter (r.matchAt s)).map fun i => r.matchRange s (i + 1) := by
  apply sorted_ext (fun x : Nat × Nat => x.1)
  · -- left: one entry per start, starts ascending
    simp only [Re2.finditerOverlapped]
    refine List.Pairwise.filterMap _ ?_ List.pairwise_lt_range
    intro j j' hj b hb b' hb'
    simp only [Option.map_eq_some_iff] at hb hb'
    obtain ⟨_, _, rfl⟩ := hb
    obtain ⟨_, _, rfl⟩ := hb'
    exact hj
  · -- right: window starts ascend with the sites
    rw [List.pairwise_map]
    have hp : ((List.range s.length).filter (r.matchAt s)).Pairwise (· < ·) :=
      List.Pairwise.filter _ List.pairwise_lt_range
    refine List.Pairwise.imp_of_mem ?_ hp
    intro i i' hi hi' hlt
    simp only [List.mem_filter] at hi hi'
    simp only [Re.matchRange_succ]
    obtain ⟨a, ha, ma⟩ := List.any_eq_true.mp hi.2
    obtain ⟨a', ha', ma'⟩ := List.any_eq_true.mp hi'.2
    cases hf : r.find? (·.matchAt s i) with
    | none => exact absurd ma (by simpa using List.find?_eq_none.mp hf a ha)
    | some x =>
      cases hf' : r.find? (·.matchAt s i') with
      | none => exact absurd ma' (by simpa using List.find?_eq_none.mp hf' a' ha')
      | some x' =>
        have mx := List.find?_some hf
        have mx' := List.find?_some hf'
        exact (Re.order_iso h (List.mem_of_find?_eq_some hf) (List.mem_of_find?_eq_some hf')
          mx mx').mp hlt
  · -- same members
    rintro ⟨j, e⟩
    simp only [Re2.finditerOverlapped, List.mem_filterMap, List.mem_range, Re2.matchAt_flat,
      Option.map_map, Option.map_eq_some_iff, List.mem_map, List.mem_filter, Function.comp]
    constructor
    · rintro ⟨j', hj', a, hf, hx⟩
      simp only [Prod.mk.injEq] at hx
      obtain ⟨rfl, rfl⟩ := hx
      have ha := List.mem_of_find?_eq_some hf
      have mf := List.find?_some hf
      rw [Alt.flat_match_iff] at mf
      have hlt := Alt.matchAt_lt mf
      refine ⟨j' + a.lb.length, ⟨hlt, List.any_eq_true.mpr ⟨a, ha, mf⟩⟩, ?_⟩
      rw [Re.matchRange_succ,
        find?_congr' (Re.core_pred_eq_start_pred h ha mf), Nat.add_sub_cancel, hf]
      simp only [Alt.width, Prod.mk.injEq]
      omega
    · rintro ⟨i, ⟨hi, mi⟩, hx⟩
      obtain ⟨a, ha, ma⟩ := List.any_eq_true.mp mi
      rw [Re.matchRange_succ] at hx
      cases hf : r.find? (·.matchAt s i) with
      | none => exact absurd ma (by simpa using List.find?_eq_none.mp hf a ha)
      | some x =>
        rw [hf] at hx
        simp only [Prod.mk.injEq] at hx
        obtain ⟨rfl, rfl⟩ := hx
        have hxm := List.mem_of_find?_eq_some hf
        have mx := List.find?_some hf
        have lx := ((Alt.matchAt_iff x s i).mp mx).1
        refine ⟨i - x.lb.length, by omega, x, ?_, ?_⟩
        · rw [← find?_congr' (Re.core_pred_eq_start_pred h hxm mx)]
          exact hf
        · simp only [Alt.width, Prod.mk.injEq]
          exact ⟨trivial, by omega⟩

/-! ### small list facts used by `range_pairing` -/

theorem zip_map_same {α β γ : Type} (f : α → β) (g : α → γ) (l : List α) :
    (l.map f).zip (l.map g) = l.map fun x => (f x, g x) := by
  induction l with
  | nil => rfl
  | cons x xs ih => simp [ih]

theorem lookup_mem {β : Type} {k : String} {v : β} :
    ∀ {l : List (String × β)}, l.lookup k = some v → (k, v) ∈ l
  | [], h => by cases h
  | (k', v') :: l, h => by
    simp only [List.lookup] at h
    split at h
    · rename_i heq
      simp only [beq_iff_eq] at heq
      cases h; subst heq; exact List.mem_cons_self
    · exact List.mem_cons_of_mem _ (lookup_mem h)

theorem lookup_map_snd {β γ : Type} (f : β → γ) (k : String) :
    ∀ (l : List (String × β)),
      (l.map fun e => (e.1, f e.2)).lookup k = (l.lookup k).map f
  | [] => rfl
  | (k', v') :: l => by
    simp only [List.map_cons, List.lookup]
    split
    · rfl
    · exact lookup_map_snd f k l

end MoPepGen
