/-
The cursor loop of `create_variant_graph` (`Model/Tvg.lean`, `cvgLoop`) only issues
`apply_variant` calls whose preconditions hold: every graph it builds is `Reach`able, so the
partition invariant of `Lemmas/Tvg.lean` holds on it.

Loop invariant: cursor `m` — while it is not `None` — is a reference node of frame `m`.  The
bounds `a ≤ start < b` of the source cursor come from the loop's own runtime checks
(`any(c.seq.locations[0].ref.start > variant.location.start …)` false, no cursor expired).
Within the frameshifting branch the three calls `i → (i + shift) % 3` share the cursors: a
cursor that has been a SOURCE ends at `start` (it may still serve as a target), a cursor that
has only been a TARGET still reaches beyond `start` (it may serve as a source later).
-/
import MoPepGen.Lemmas.Tvg
namespace MoPepGen.Tvg
open MoPepGen MoPepGen.Spec

/-- a record `create_variant_graph` may walk over: behind the first three bases (its filter
keeps `start ≥ start_index ≥ 3`), a non-empty stretch inside the transcript, not a fusion -/
def RecOk (t : List Char) (v : Rec) : Prop :=
  3 ≤ v.start ∧ v.start < v.stop ∧ v.stop ≤ t.length ∧ v.type ≠ "Fusion"

/-- cursor `m`, while not `None`, is a reference node of frame `m` -/
def CurOk (g : TState) (cs : List (Option Nat)) : Prop :=
  cs.length = 3 ∧ ∀ m c, cs[m]? = some (some c) → ∃ a b, IsRef g c m a b

/-- cursor `m` may serve as a source for `v`: reference node of frame `m` with `a ≤ start < b` -/
def SrcOk (g : TState) (cs : List (Option Nat)) (v : Rec) (m : Nat) : Prop :=
  ∃ c a b, cs[m]? = some (some c) ∧ IsRef g c m a b ∧ a ≤ v.start ∧ v.start < b

/-- cursor `m` may serve as a target for `v`: reference node of frame `m` with `a ≤ start` -/
def TgtOk (g : TState) (cs : List (Option Nat)) (v : Rec) (m : Nat) : Prop :=
  ∃ c a b, cs[m]? = some (some c) ∧ IsRef g c m a b ∧ a ≤ v.start

theorem SrcOk.tgt {g : TState} {cs : List (Option Nat)} {v : Rec} {m : Nat} (h : SrcOk g cs v m) :
    TgtOk g cs v m := by
  obtain ⟨c, a, b, h1, h2, h3, _⟩ := h
  exact ⟨c, a, b, h1, h2, h3⟩

theorem cursorAt_ok {cs : List (Option Nat)} {i c : Nat} (h : cursorAt cs i = .ok c) :
    cs[i]? = some (some c) := by
  unfold cursorAt at h
  split at h
  · rename_i c' hc
    cases h
    rw [List.getD_eq_getElem?_getD] at hc
    cases hi : cs[i]? with
    | none => simp [hi] at hc
    | some o => simp [hi] at hc; rw [hc]
  · cases h

theorem cursorAt_of {cs : List (Option Nat)} {i c : Nat} (h : cs[i]? = some (some c)) :
    cursorAt cs i = .ok c := by
  simp [cursorAt, List.getD_eq_getElem?_getD, h]

/-! ### the checks of the loop -/

/-- `any(c.start > variant.start for c in cursors)` is `False`: every cursor is a node, a
reference node, starting at or before `variant.start` -/
theorem anyCursorBehind_false {g : TState} {v : Rec} :
    ∀ (cs : List (Option Nat)), anyCursorBehind g v cs = .ok false →
      ∀ m, m < cs.length → ∃ c f a b, cs[m]? = some (some c) ∧ IsRef g c f a b ∧ a ≤ v.start := by
  intro cs
  induction cs with
  | nil => intro _ m hm; simp at hm
  | cons o rest ih =>
    intro h m hm
    cases o with
    | none => simp [anyCursorBehind] at h
    | some c =>
      simp only [anyCursorBehind] at h
      obtain ⟨⟨a, b⟩, hloc, h⟩ := tvg_bind_ok.mp h
      obtain ⟨f, hr, _⟩ := nodeLoc_ok hloc
      simp only at h
      split at h
      · simp [pure, Except.pure] at h
      · rename_i hle
        cases m with
        | zero => exact ⟨c, f, a, b, by simp, hr, by omega⟩
        | succ m =>
          obtain ⟨c', f', a', b', h1, h2, h3⟩ := ih h m (by simpa using hm)
          exact ⟨c', f', a', b', by simpa using h1, h2, h3⟩

/-- the expiry loop keeps every cursor in its frame; when no cursor expired nothing changed and
every cursor reaches beyond `variant.start` -/
theorem expireCursors_spec {t : List Char} {g : TState} (hI : Inv t g) {v : Rec} :
    ∀ (cs cs' : List (Option Nat)) (off : Nat) (ex : Bool),
      (∀ m c, cs[m]? = some (some c) → ∃ a b, IsRef g c (off + m) a b) →
      expireCursors g v cs = .ok (cs', ex) →
      cs'.length = cs.length ∧
      (∀ m c, cs'[m]? = some (some c) → ∃ a b, IsRef g c (off + m) a b) ∧
      (ex = false → cs' = cs ∧ ∀ (m c a b f : Nat), cs[m]? = some (some c) → IsRef g c f a b → v.start < b) := by
  intro cs
  induction cs with
  | nil =>
    intro cs' off ex _ h
    simp only [expireCursors, Except.ok.injEq, Prod.mk.injEq] at h
    obtain ⟨rfl, rfl⟩ := h
    exact ⟨rfl, by simp, fun _ => ⟨rfl, by simp⟩⟩
  | cons o rest ih =>
    intro cs' off ex hfr h
    cases o with
    | none => simp [expireCursors] at h
    | some c =>
      simp only [expireCursors] at h
      obtain ⟨⟨a, b⟩, hloc, h⟩ := tvg_bind_ok.mp h
      obtain ⟨f, hr, _⟩ := nodeLoc_ok hloc
      simp only at h
      obtain ⟨⟨rest', any⟩, hrest, h⟩ := tvg_bind_ok.mp h
      simp only at h
      have hfr' : ∀ m c, rest[m]? = some (some c) → ∃ a b, IsRef g c (off + 1 + m) a b := by
        intro m c' hm
        have := hfr (m + 1) c' (by simpa using hm)
        simpa [Nat.add_assoc, Nat.add_comm 1 m] using this
      obtain ⟨hlen, hfr2, hex⟩ := ih rest' (off + 1) any hfr' hrest
      obtain ⟨a0, b0, hc0⟩ := hfr 0 c (by simp)
      simp only [Nat.add_zero] at hc0
      split at h
      · -- this cursor expired
        rename_i hle
        obtain ⟨nx, hnx, h⟩ := tvg_bind_ok.mp h
        simp only [pure, Except.pure, Except.ok.injEq, Prod.mk.injEq] at h
        obtain ⟨rfl, rfl⟩ := h
        refine ⟨by simp [hlen], ?_, fun h => by simp at h⟩
        intro m c' hm
        cases m with
        | zero =>
          simp only [List.getElem?_cons_zero, Option.some.injEq] at hm
          subst hm
          obtain ⟨z, hz⟩ := getReferenceNext_ref hI hc0 hnx
          exact ⟨_, z, by simpa using hz⟩
        | succ m =>
          have := hfr2 m c' (by simpa using hm)
          simpa [Nat.add_assoc, Nat.add_comm 1 m] using this
      · rename_i hgt
        simp only [pure, Except.pure, Except.ok.injEq, Prod.mk.injEq] at h
        obtain ⟨rfl, rfl⟩ := h
        refine ⟨by simp [hlen], ?_, ?_⟩
        · intro m c' hm
          cases m with
          | zero =>
            simp only [List.getElem?_cons_zero, Option.some.injEq] at hm
            subst hm
            exact ⟨a0, b0, by simpa using hc0⟩
          | succ m =>
            have := hfr2 m c' (by simpa using hm)
            simpa [Nat.add_assoc, Nat.add_comm 1 m] using this
        · intro hany
          obtain ⟨h1, h2⟩ := hex hany
          refine ⟨by rw [h1], ?_⟩
          intro m c' a' b' f' hm hr'
          cases m with
          | zero =>
            simp only [List.getElem?_cons_zero, Option.some.injEq] at hm
            subst hm
            obtain ⟨_, _, rfl⟩ := hr.inj hr'
            omega
          | succ m => exact h2 m c' a' b' f' (by simpa using hm) hr'

/-! ### the two application branches -/

theorem getElem?_set_set {α : Type} (l : List α) (i j : Nat) (x y : α) (m : Nat)
    (hi : i < l.length) (hj : j < l.length) :
    ((l.set i x).set j y)[m]? = if m = j then some y else if m = i then some x else l[m]? := by
  by_cases h1 : m = j
  · subst h1
    simp [hj]
  · simp only [h1, if_false]
    rw [List.getElem?_set_ne (fun h => h1 h.symm)]
    by_cases h2 : m = i
    · subst h2; simp [hi]
    · simp only [h2, if_false]
      rw [List.getElem?_set_ne (fun h => h2 h.symm)]

/-- the in-frame branch: every call's preconditions hold -/
theorem applyInFrame_reach {t : List Char} (h3 : 3 ≤ t.length) {v : Rec} (hv : RecOk t v)
    (active : List Bool) :
    ∀ (is : List Nat) (g : TState) (cs : List (Option Nat)) (g' : TState) (cs' : List (Option Nat)),
      Reach t g → CurOk g cs → is.Nodup → (∀ m ∈ is, m < 3) → (∀ m ∈ is, SrcOk g cs v m) →
      applyInFrame v active is g cs = .ok (g', cs') → Reach t g' ∧ CurOk g' cs' := by
  obtain ⟨hv3, hvs, hvL, _⟩ := hv
  intro is
  induction is with
  | nil =>
    intro g cs g' cs' hR hC _ _ _ h
    simp only [applyInFrame, Except.ok.injEq, Prod.mk.injEq] at h
    obtain ⟨rfl, rfl⟩ := h
    exact ⟨hR, hC⟩
  | cons i is ih =>
    intro g cs g' cs' hR hC hnd hlt hsrc h
    have hnd' := (List.nodup_cons.mp hnd)
    simp only [applyInFrame] at h
    split at h
    · obtain ⟨ci, hci, h⟩ := tvg_bind_ok.mp h
      obtain ⟨⟨g1, r0, r1⟩, hap, h⟩ := tvg_bind_ok.mp h
      simp only at h
      obtain ⟨c, a, b, hc, hr, ha, hb⟩ := hsrc i (by simp)
      have : ci = c := by
        have := cursorAt_ok hci; rw [hc] at this; simpa using this.symm
      subst this
      have hi3 : i < 3 := hlt i (by simp)
      obtain ⟨hI, hL⟩ := reach_inv h3 hR
      obtain ⟨_, _, hstep, ⟨x, y, hr0, _⟩, _⟩ :=
        applyVariant_spec hI hL ⟨hvs, hvL⟩ hr (by omega) ha hb hr ha hap
      have hR1 : Reach t g1 :=
        Reach.apply hR ⟨⟨hvs, hvL⟩, ⟨i, a, b, hr, by omega, ha, hb⟩, ⟨i, a, b, hr, ha⟩⟩ hap
      have hilen : i < cs.length := by rw [hC.1]; exact hi3
      refine ih g1 (cs.set i (some r0)) g' cs' hR1 ?_ hnd'.2 (fun m hm => hlt m (by simp [hm])) ?_ h
      · refine ⟨by simp [hC.1], ?_⟩
        intro m c' hm
        by_cases hmi : m = i
        · subst hmi
          simp only [List.getElem?_set, hilen, if_true, Option.some.injEq] at hm
          subst hm
          exact ⟨x, y, hr0⟩
        · rw [List.getElem?_set_ne (fun h => hmi h.symm)] at hm
          obtain ⟨a', b', hr'⟩ := hC.2 m c' hm
          obtain ⟨y', hk⟩ := hstep.keepStart hr'
          exact ⟨a', y', hk⟩
      · intro m hm
        have hmi : m ≠ i := fun h => hnd'.1 (h ▸ hm)
        obtain ⟨c', a', b', hc', hr', ha', hb'⟩ := hsrc m (by simp [hm])
        refine ⟨c', a', b', ?_, hstep.keepOther hr' hmi hmi, ha', hb'⟩
        rw [List.getElem?_set_ne (fun h => hmi h.symm)]
        exact hc'
    · exact ih g cs g' cs' hR hC hnd'.2 (fun m hm => hlt m (by simp [hm]))
        (fun m hm => hsrc m (by simp [hm])) h

/-- the frameshifting branch: every call's preconditions hold.  Cursors still to be used as a
source (`m ∈ is`) reach beyond `start`; the others start at or before it. -/
theorem applyShift_reach {t : List Char} (h3 : 3 ≤ t.length) {v : Rec} (hv : RecOk t v)
    (shift : Nat) (hshift : shift % 3 ≠ 0) (active : List Bool) :
    ∀ (is : List Nat) (g : TState) (cs : List (Option Nat)) (g' : TState) (cs' : List (Option Nat)),
      Reach t g → CurOk g cs → is.Nodup → (∀ m ∈ is, m < 3) →
      (∀ m, m < 3 → (m ∈ is → SrcOk g cs v m) ∧ (m ∉ is → TgtOk g cs v m)) →
      applyShift v shift active is g cs = .ok (g', cs') → Reach t g' ∧ CurOk g' cs' := by
  obtain ⟨hv3, hvs, hvL, _⟩ := hv
  intro is
  induction is with
  | nil =>
    intro g cs g' cs' hR hC _ _ _ h
    simp only [applyShift, Except.ok.injEq, Prod.mk.injEq] at h
    obtain ⟨rfl, rfl⟩ := h
    exact ⟨hR, hC⟩
  | cons i is ih =>
    intro g cs g' cs' hR hC hnd hlt hcur h
    have hnd' := (List.nodup_cons.mp hnd)
    have hi3 : i < 3 := hlt i (by simp)
    simp only [applyShift] at h
    split at h
    · obtain ⟨ci, hci, h⟩ := tvg_bind_ok.mp h
      obtain ⟨cj, hcj, h⟩ := tvg_bind_ok.mp h
      obtain ⟨⟨g1, r0, r1⟩, hap, h⟩ := tvg_bind_ok.mp h
      simp only at h
      have hj3 : (i + shift) % 3 < 3 := Nat.mod_lt _ (by omega)
      have hji : (i + shift) % 3 ≠ i := by omega
      generalize hj : (i + shift) % 3 = j at *
      obtain ⟨c, a, b, hc, hr, ha, hb⟩ := (hcur i hi3).1 (by simp)
      have : ci = c := by
        have := cursorAt_ok hci; rw [hc] at this; simpa using this.symm
      subst this
      have htj : TgtOk g cs v j := by
        by_cases hjm : j ∈ i :: is
        · exact ((hcur j hj3).1 hjm).tgt
        · exact (hcur j hj3).2 hjm
      obtain ⟨c2, a2, b2, hc2, hr2, ha2⟩ := htj
      have : cj = c2 := by
        have := cursorAt_ok hcj; rw [hc2] at this; simpa using this.symm
      subst this
      have hne : ci ≠ cj := by
        intro he; subst he
        exact hji (hr2.inj hr).1
      obtain ⟨hI, hL⟩ := reach_inv h3 hR
      obtain ⟨_, _, hstep, ⟨x, y, hr0, hx⟩, ⟨x1, y1, hr1, hx1, hy1⟩⟩ :=
        applyVariant_spec hI hL ⟨hvs, hvL⟩ hr (by omega) ha hb hr2 ha2 hap
      have hR1 : Reach t g1 :=
        Reach.apply hR ⟨⟨hvs, hvL⟩, ⟨i, a, b, hr, by omega, ha, hb⟩, ⟨j, a2, b2, hr2, ha2⟩⟩ hap
      have hilen : i < cs.length := by rw [hC.1]; exact hi3
      have hjlen : j < cs.length := by rw [hC.1]; exact hj3
      have hget := fun m => getElem?_set_set cs i j (some r0) (some r1) m hilen hjlen
      refine ih g1 ((cs.set i (some r0)).set j (some r1)) g' cs' hR1 ?_ hnd'.2
        (fun m hm => hlt m (by simp [hm])) ?_ h
      · refine ⟨by simp [hC.1], ?_⟩
        intro m c' hm
        rw [hget] at hm
        split at hm
        · rename_i hmj; subst hmj
          simp only [Option.some.injEq] at hm; subst hm
          exact ⟨x1, y1, hr1⟩
        · split at hm
          · rename_i _ hmi; subst hmi
            simp only [Option.some.injEq] at hm; subst hm
            exact ⟨x, y, hr0⟩
          · obtain ⟨a', b', hr'⟩ := hC.2 m c' hm
            obtain ⟨y', hk⟩ := hstep.keepStart hr'
            exact ⟨a', y', hk⟩
      · intro m hm3
        by_cases hmj : m = j
        · subst hmj
          have hgetj : ((cs.set i (some r0)).set m (some r1))[m]? = some (some r1) := by
            rw [hget]; simp
          constructor
          · intro hmem
            -- `j` is still to be a source: it reached beyond `start` before, and still does
            obtain ⟨c3, a3, b3, hc3, hr3, _, hb3⟩ := (hcur m hm3).1 (by simp [hmem])
            have : c3 = cj := by rw [hc2] at hc3; simpa using hc3.symm
            subst this
            obtain ⟨_, _, rfl⟩ := hr3.inj hr2
            exact ⟨r1, x1, y1, hgetj, hr1, hx1, hy1 hne hb3⟩
          · intro _
            exact ⟨r1, x1, y1, hgetj, hr1, hx1⟩
        · by_cases hmi : m = i
          · subst hmi
            have hgeti : ((cs.set m (some r0)).set j (some r1))[m]? = some (some r0) := by
              rw [hget]; simp [hmj]
            constructor
            · intro hmem; exact absurd hmem hnd'.1
            · intro _; exact ⟨r0, x, y, hgeti, hr0, hx⟩
          · have hgetm : ((cs.set i (some r0)).set j (some r1))[m]? = cs[m]? := by
              rw [hget]; simp [hmj, hmi]
            constructor
            · intro hmem
              obtain ⟨c', a', b', hc', hr', ha', hb'⟩ := (hcur m hm3).1 (by simp [hmem])
              exact ⟨c', a', b', by rw [hgetm]; exact hc', hstep.keepOther hr' hmi hmj, ha', hb'⟩
            · intro hmem
              have : m ∉ i :: is := by simp [hmi, hmem]
              obtain ⟨c', a', b', hc', hr', ha'⟩ := (hcur m hm3).2 this
              exact ⟨c', a', b', by rw [hgetm]; exact hc', hstep.keepOther hr' hmi hmj, ha'⟩
    · refine ih g cs g' cs' hR hC hnd'.2 (fun m hm => hlt m (by simp [hm])) ?_ h
      intro m hm3
      constructor
      · intro hmem; exact (hcur m hm3).1 (by simp [hmem])
      · intro hmem
        by_cases hmi : m = i
        · subst hmi; exact ((hcur m hm3).1 (by simp)).tgt
        · exact (hcur m hm3).2 (by simp [hmi, hmem])

/-! ### the loop -/

theorem framesShifted_lt (v : Rec) : framesShifted v < 3 := by
  simp only [framesShifted]
  omega

/-- when the loop reaches an application, every cursor may serve as a source -/
theorem srcOk_of_checks {t : List Char} {g : TState} (hI : Inv t g) {v : Rec} {cs cs' : List (Option Nat)}
    (hC : CurOk g cs) (hb : anyCursorBehind g v cs = .ok false)
    (he : expireCursors g v cs = .ok (cs', false)) :
    cs' = cs ∧ ∀ m, m < 3 → SrcOk g cs v m := by
  obtain ⟨_, _, hex⟩ := expireCursors_spec hI cs cs' 0 false
    (fun m c hm => by simpa using hC.2 m c hm) he
  obtain ⟨h1, h2⟩ := hex rfl
  refine ⟨h1, ?_⟩
  intro m hm
  obtain ⟨c, f, a, b, hc, hr, ha⟩ := anyCursorBehind_false cs hb m (by rw [hC.1]; exact hm)
  obtain ⟨a', b', hr'⟩ := hC.2 m c hc
  obtain ⟨e1, e2, e3⟩ := hr'.inj hr
  subst e1 e2 e3
  exact ⟨c, _, _, hc, hr', ha, h2 m c _ _ m hc hr'⟩

/-- **the cursor loop of `create_variant_graph` stays inside `Reach`** -/
theorem cvgLoop_reach {t : List Char} (h3 : 3 ≤ t.length) :
    ∀ (fuel : Nat) (l : List Rec) (st : LoopSt) (g' : TState),
      (∀ v ∈ l, RecOk t v) → Reach t st.g → CurOk st.g st.cursors →
      cvgLoop fuel l st = .ok g' → Reach t g' := by
  intro fuel
  induction fuel with
  | zero => intro l st g' _ _ _ h; simp [cvgLoop] at h
  | succ n ih =>
    intro l st g' hl hR hC h
    cases l with
    | nil =>
      simp only [cvgLoop, Except.ok.injEq] at h
      subst h; exact hR
    | cons v rest =>
      have hv := hl v (by simp)
      have hrest : ∀ w ∈ rest, RecOk t w := fun w hw => hl w (by simp [hw])
      simp only [cvgLoop] at h
      split at h
      · simp only [Except.ok.injEq] at h
        subst h; exact hR
      · obtain ⟨behind, hb, h⟩ := tvg_bind_ok.mp h
        cases behind with
        | true =>
          simp only [if_true] at h
          exact ih rest st g' hrest hR hC h
        | false =>
          simp only [Bool.false_eq_true, if_false] at h
          obtain ⟨⟨cs', ex⟩, he, h⟩ := tvg_bind_ok.mp h
          simp only at h
          obtain ⟨hI, _⟩ := reach_inv h3 hR
          cases ex with
          | true =>
            simp only [if_true] at h
            obtain ⟨hlen, hfr, _⟩ := expireCursors_spec hI st.cursors cs' 0 true
              (fun m c hm => by simpa using hC.2 m c hm) he
            refine ih (v :: rest) ⟨st.g, cs', _⟩ g' hl hR ⟨by rw [hlen]; exact hC.1, ?_⟩ h
            intro m c hm
            simpa using hfr m c hm
          | false =>
            simp only [Bool.false_eq_true, if_false] at h
            obtain ⟨hcs, hsrc⟩ := srcOk_of_checks hI hC hb he
            subst hcs
            split at h
            · -- frameshifting record: bridges between the frames
              rename_i hfs
              obtain ⟨⟨g1, cs1⟩, hap, h⟩ := tvg_bind_ok.mp h
              simp only at h
              have hshift : framesShifted v % 3 ≠ 0 := by
                have h1 := framesShifted_lt v
                have h2 : framesShifted v ≠ 0 := by
                  have := hv.2.2.2
                  simp only [isFrameshifting, Bool.or_eq_true, beq_iff_eq, bne_iff_ne] at hfs
                  rcases hfs with hfs | hfs
                  · exact absurd hfs this
                  · exact hfs
                omega
              obtain ⟨hR1, hC1⟩ := applyShift_reach h3 hv _ hshift _ [0, 1, 2] st.g _ g1 cs1 hR hC
                (by decide) (by decide)
                (fun m hm => ⟨fun _ => hsrc m hm, fun hn => by
                  exfalso; apply hn
                  have : m = 0 ∨ m = 1 ∨ m = 2 := by omega
                  rcases this with rfl | rfl | rfl <;> simp⟩) hap
              exact ih rest _ g' hrest hR1 hC1 h
            · obtain ⟨⟨g1, cs1⟩, hap, h⟩ := tvg_bind_ok.mp h
              simp only at h
              obtain ⟨hR1, hC1⟩ := applyInFrame_reach h3 hv _ [0, 1, 2] st.g _ g1 cs1 hR hC
                (by decide) (by decide)
                (fun m hm => hsrc m (by
                  simp only [List.mem_cons, List.not_mem_nil, or_false] at hm; omega)) hap
              exact ih rest _ g' hrest hR1 hC1 h

/-- the initial cursors: the three reference nodes `seq`, `seq[1:]`, `seq[2:]` -/
theorem initial_cursors (t : List Char) :
    readingFrames.mapM (getReferenceNext (initThreeFrames t)) = .ok [some 4, some 5, some 6] := rfl

theorem curOk_init (t : List Char) : CurOk (initThreeFrames t) [some 4, some 5, some 6] := by
  refine ⟨rfl, ?_⟩
  intro m c hm
  match m, hm with
  | 0, hm => simp at hm; subst hm; exact ⟨0, t.length, _, rfl⟩
  | 1, hm => simp at hm; subst hm; exact ⟨1, t.length, _, rfl⟩
  | 2, hm => simp at hm; subst hm; exact ⟨2, t.length, _, rfl⟩
  | k + 3, hm => simp at hm

/-- **`create_variant_graph` builds a `Reach`able graph**, provided the records it walks over
(after its filter, the MNV merge and `sorted`) are `RecOk` -/
theorem createVariantGraph_reach {inp : TvgIn} {vs : List Rec} {g : TState}
    (h3 : 3 ≤ inp.seq.length)
    (hrec : ∀ l, variantsWithMnv inp vs = .ok l → ∀ v ∈ l, RecOk inp.seq v)
    (h : createVariantGraph inp vs = .ok g) : Reach inp.seq g := by
  simp only [createVariantGraph, createVariantGraphOn] at h
  split at h
  · cases h
  obtain ⟨l, hl, h⟩ := tvg_bind_ok.mp h
  rw [initial_cursors] at h
  simp only [bind, Except.bind] at h
  cases hact : initialActive inp with
  | error m => simp [hact] at h
  | ok act =>
    simp only [hact] at h
    exact cvgLoop_reach h3 _ l _ g (hrec l hl) Reach.init (curOk_init inp.seq) h

/-! ### the records the loop walks over are `RecOk` -/

/-- well-formedness of an input record: a non-empty stretch inside the transcript, not a fusion -/
def InOk (t : List Char) (v : Rec) : Prop :=
  v.start < v.stop ∧ v.stop ≤ t.length ∧ v.type ≠ "Fusion"

theorem toEndInclusion_ok {t : List Char} {v v' : Rec} (hv : InOk t v)
    (h : toEndInclusion t v = .ok v') : InOk t v' ∧ v'.start = v.start + 1 := by
  unfold toEndInclusion at h
  split at h
  · cases h
  · split at h
    · cases h
    · rename_i c hc
      cases h
      have hlt : v.stop < t.length := by
        rcases Nat.lt_or_ge v.stop t.length with h | h
        · exact h
        · simp [List.getElem?_eq_none h] at hc
      obtain ⟨h1, _, h3⟩ := hv
      exact ⟨⟨by simp; omega, by simp; omega, h3⟩, rfl⟩

theorem filterOne_ok {inp : TvgIn} {si : Nat} (hsi : 3 ≤ si) {v v' : Rec} (hv : InOk inp.seq v)
    (h : filterOne inp si v = .ok (some v')) : RecOk inp.seq v' := by
  unfold filterOne at h
  obtain ⟨w, hw, h⟩ := tvg_bind_ok.mp h
  have hwok : InOk inp.seq w := by
    split at hw
    · exact (toEndInclusion_ok hv hw).1
    · simp only [pure, Except.pure, Except.ok.injEq] at hw; subst hw; exact hv
  split at h
  · simp [pure, Except.pure] at h
  · rename_i hge
    split at h
    · simp [pure, Except.pure] at h
    · simp only [pure, Except.pure, Except.ok.injEq, Option.some.injEq] at h
      subst h
      exact ⟨by omega, hwok.1, hwok.2.1, hwok.2.2⟩

theorem filterAll_ok {inp : TvgIn} {si : Nat} (hsi : 3 ≤ si) :
    ∀ (vs l : List Rec), (∀ v ∈ vs, InOk inp.seq v) → filterAll inp si vs = .ok l →
      ∀ v ∈ l, RecOk inp.seq v := by
  intro vs
  induction vs with
  | nil => intro l _ h; simp only [filterAll, Except.ok.injEq] at h; subst h; simp
  | cons v vs ih =>
    intro l hvs h
    simp only [filterAll] at h
    obtain ⟨r, hr, h⟩ := tvg_bind_ok.mp h
    obtain ⟨rest, hrest, h⟩ := tvg_bind_ok.mp h
    simp only [pure, Except.pure, Except.ok.injEq] at h
    have hrestok := ih rest (fun w hw => hvs w (by simp [hw])) hrest
    subst h
    cases r with
    | none => exact hrestok
    | some x =>
      intro w hw
      rcases List.mem_cons.mp hw with rfl | hw
      · exact filterOne_ok hsi (hvs v (by simp)) hr
      · exact hrestok w hw

/-- a combination `[i, j₁, j₂, …]` of `find_mnvs_from_adjacent_variants`: every member after the
first starts where the first record ends -/
def CombOk (vs : List Rec) (v0 : Rec) (comb : List Nat) : Prop :=
  comb.head?.bind (vs[·]?) = some v0 ∧ ∀ j ∈ comb.tail, ∃ vj, vs[j]? = some vj ∧ vj.start = v0.stop

theorem mnvScan_ok {vs : List Rec} {v0 : Rec} {type0 : String} {comb : List Nat}
    (hc : CombOk vs v0 comb) (hne : comb ≠ []) :
    ∀ (rest : List (Nat × Rec)), (∀ p ∈ rest, vs[p.1]? = some p.2) →
      ∀ c ∈ mnvScan v0 type0 comb rest, CombOk vs v0 c := by
  intro rest
  induction rest with
  | nil => intro _ c hcm; simp [mnvScan] at hcm
  | cons p rest ih =>
    intro hrest c hcm
    obtain ⟨j, vj⟩ := p
    have ih' := ih (fun q hq => hrest q (by simp [hq]))
    simp only [mnvScan] at hcm
    split at hcm
    · exact ih' c hcm
    · split at hcm
      · exact ih' c hcm
      · split at hcm
        · simp at hcm
        · split at hcm
          · rename_i hnlt hngt _
            rcases List.mem_cons.mp hcm with rfl | hcm
            · obtain ⟨h1, h2⟩ := hc
              cases comb with
              | nil => exact absurd rfl hne
              | cons i js =>
                refine ⟨by simpa using h1, ?_⟩
                intro j' hj'
                simp only [List.cons_append, List.tail_cons, List.mem_append, List.mem_singleton] at hj'
                rcases hj' with hj' | rfl
                · exact h2 j' (by simpa using hj')
                · exact ⟨vj, hrest (j', vj) (by simp), by omega⟩
            · exact ih' c hcm
          · exact ih' c hcm

theorem mnvLevel_ok {vs : List Rec} {v0 : Rec} {type0 : String} {prev : List (List Nat)}
    (hp : ∀ c ∈ prev, CombOk vs v0 c ∧ c ≠ []) :
    ∀ c ∈ mnvLevel vs v0 type0 prev, CombOk vs v0 c ∧ c ≠ [] := by
  intro c hc
  simp only [mnvLevel, List.mem_flatMap] at hc
  obtain ⟨comb, hcomb, hc⟩ := hc
  obtain ⟨hok, hne⟩ := hp comb hcomb
  split at hc
  · simp at hc
  · refine ⟨mnvScan_ok hok hne _ ?_ c hc, ?_⟩
    · intro p hp
      have := List.mem_of_mem_drop hp
      obtain ⟨i, hi⟩ := List.getElem?_of_mem this
      rw [List.getElem?_zip_eq_some] at hi
      obtain ⟨h1, h2⟩ := hi
      rw [List.getElem?_range] at h1
      · simp only [Option.some.injEq] at h1
        rw [← h1]; exact h2
      · rcases Nat.lt_or_ge i vs.length with h | h
        · exact h
        · simp [List.getElem?_eq_none h] at h2
    · -- every output of the scan extends `comb`
      clear hok
      generalize ((List.range vs.length).zip vs).drop (comb.getLast?.getD 0 + 1) = rest at hc
      induction rest with
      | nil => simp [mnvScan] at hc
      | cons p rest ih =>
        obtain ⟨j, vj⟩ := p
        simp only [mnvScan] at hc
        split at hc
        · exact ih hc
        · split at hc
          · exact ih hc
          · split at hc
            · simp at hc
            · split at hc
              · rcases List.mem_cons.mp hc with rfl | hc
                · simp
                · exact ih hc
              · exact ih hc

theorem mnvLevels_ok {vs : List Rec} {v0 : Rec} {type0 : String} :
    ∀ (n k : Nat) (prev out : List (List Nat)), (∀ c ∈ prev, CombOk vs v0 c ∧ c ≠ []) →
      mnvLevels vs v0 type0 n k prev = .ok out → ∀ c ∈ out, CombOk vs v0 c ∧ c ≠ [] := by
  intro n
  induction n with
  | zero => intro k prev out _ h; simp only [mnvLevels, Except.ok.injEq] at h; subst h; simp
  | succ n ih =>
    intro k prev out hp h
    simp only [mnvLevels] at h
    split at h
    · cases h
    · obtain ⟨more, hmore, h⟩ := tvg_bind_ok.mp h
      simp only [pure, Except.pure, Except.ok.injEq] at h
      subst h
      have hcur := mnvLevel_ok (type0 := type0) hp
      intro c hc
      rcases List.mem_append.mp hc with hc | hc
      · exact hcur c hc
      · exact ih (k + 1) _ more hcur hmore c hc

theorem mkMnv_ok {t : List Char} {vs : List Rec} (hvs : ∀ v ∈ vs, RecOk t v) {v0 : Rec} {comb : List Nat}
    (hc : CombOk vs v0 comb) (hne : comb ≠ []) : RecOk t (mkMnv vs comb) := by
  cases comb with
  | nil => exact absurd rfl hne
  | cons i js =>
    obtain ⟨h1, h2⟩ := hc
    have hi : vs[i]? = some v0 := by simpa using h1
    have hv0 := hvs v0 (List.mem_of_getElem? hi)
    -- every record of the combination
    have hrs : ∀ r ∈ (i :: js).filterMap (fun i => vs[i]?), r = v0 ∨ (r.start = v0.stop ∧ RecOk t r) := by
      intro r hr
      simp only [List.mem_filterMap] at hr
      obtain ⟨j, hj, hjr⟩ := hr
      rcases List.mem_cons.mp hj with rfl | hj
      · left; rw [hi] at hjr; simpa using hjr.symm
      · right
        obtain ⟨vj, hvj, hst⟩ := h2 j (by simpa using hj)
        rw [hvj] at hjr; cases hjr
        exact ⟨hst, hvs _ (List.mem_of_getElem? hvj)⟩
    simp only [mkMnv]
    have hfm : (i :: js).filterMap (fun i => vs[i]?) = v0 :: js.filterMap (fun i => vs[i]?) := by
      simp [hi]
    rw [hfm] at hrs ⊢
    simp only
    have hlast : ((v0 :: js.filterMap (fun i => vs[i]?)).getLast?.getD v0) ∈
        v0 :: js.filterMap (fun i => vs[i]?) := by
      cases hl : (v0 :: js.filterMap (fun i => vs[i]?)).getLast? with
      | none => simp
      | some x => simpa using List.mem_of_getLast? hl
    obtain ⟨a1, a2, a3, _⟩ := hv0
    refine ⟨a1, ?_, ?_, by simp⟩ <;> dsimp only
    · rcases hrs _ hlast with h | ⟨h, hr⟩
      · rw [h]; exact a2
      · have := hr.2.1; omega
    · rcases hrs _ hlast with h | ⟨_, hr⟩
      · rw [h]; exact a3
      · exact hr.2.2.1

theorem findMnvs_ok {t : List Char} {vs : List Rec} (hvs : ∀ v ∈ vs, RecOk t v) (maxAdj : Nat)
    {out : List Rec} (h : findMnvs vs maxAdj = .ok out) : ∀ v ∈ out, RecOk t v := by
  unfold findMnvs at h
  -- generalise the fold: every pair of the zipped list is an element of `vs` at its index
  have hz : ∀ p ∈ (List.range vs.length).zip vs, vs[p.1]? = some p.2 := by
    intro p hp
    obtain ⟨i, hi⟩ := List.getElem?_of_mem hp
    rw [List.getElem?_zip_eq_some] at hi
    obtain ⟨h1, h2⟩ := hi
    rw [List.getElem?_range] at h1
    · simp only [Option.some.injEq] at h1
      rw [← h1]; exact h2
    · rcases Nat.lt_or_ge i vs.length with h | h
      · exact h
      · simp [List.getElem?_eq_none h] at h2
  generalize (List.range vs.length).zip vs = zs at h hz
  have : ∀ (zs : List (Nat × Rec)) (acc out : List Rec), (∀ p ∈ zs, vs[p.1]? = some p.2) →
      (∀ v ∈ acc, RecOk t v) →
      zs.foldlM (init := acc) (fun acc (p : Nat × Rec) =>
        match mnvClass p.2 with
        | none => pure acc
        | some type0 => do
          let combs ← mnvLevels vs p.2 type0 (maxAdj - 1) 1 [[p.1]]
          pure (acc ++ combs.map (mkMnv vs))) = (.ok out : R (List Rec)) →
      ∀ v ∈ out, RecOk t v := by
    intro zs
    induction zs with
    | nil =>
      intro acc out _ hacc h
      simp only [List.foldlM_nil, pure, Except.pure, Except.ok.injEq] at h
      subst h; exact hacc
    | cons p zs ih =>
      intro acc out hz hacc h
      simp only [List.foldlM_cons] at h
      obtain ⟨acc', hacc', h⟩ := tvg_bind_ok.mp h
      refine ih acc' out (fun q hq => hz q (by simp [hq])) ?_ h
      split at hacc'
      · simp only [pure, Except.pure, Except.ok.injEq] at hacc'
        subst hacc'; exact hacc
      · rename_i type0 _
        obtain ⟨combs, hcombs, hacc'⟩ := tvg_bind_ok.mp hacc'
        simp only [pure, Except.pure, Except.ok.injEq] at hacc'
        subst hacc'
        have hinit : ∀ c ∈ [[p.1]], CombOk vs p.2 c ∧ c ≠ [] := by
          intro c hc
          simp only [List.mem_singleton] at hc; subst hc
          exact ⟨⟨by simpa using hz p (by simp), by simp⟩, by simp⟩
        have hall := mnvLevels_ok _ _ _ _ hinit hcombs
        intro v hv
        rcases List.mem_append.mp hv with hv | hv
        · exact hacc v hv
        · obtain ⟨c, hc, rfl⟩ := List.mem_map.mp hv
          exact mkMnv_ok hvs (hall c hc).1 (hall c hc).2
  exact this zs [] out hz (by simp) h

theorem binInsertAll_mem {α : Type} [Inhabited α] (lt : α → α → Bool) :
    ∀ (rest sorted : List α) (x : α), x ∈ binInsertAll lt sorted rest → x ∈ sorted ∨ x ∈ rest := by
  intro rest
  induction rest with
  | nil => intro sorted x h; left; simpa [binInsertAll] using h
  | cons p rest ih =>
    intro sorted x h
    simp only [binInsertAll] at h
    rcases ih _ x h with h | h
    · simp only [List.mem_append, List.mem_cons] at h
      rcases h with h | rfl | h
      · exact Or.inl (List.mem_of_mem_take h)
      · right; simp
      · exact Or.inl (List.mem_of_mem_drop h)
    · right; simp [h]

theorem pySorted_mem {α : Type} [Inhabited α] (lt : α → α → Bool) (xs out : List α)
    (h : pySorted lt xs = .ok out) : ∀ x ∈ out, x ∈ xs := by
  unfold pySorted at h
  split at h
  · cases h; simp
  · cases h; simp
  · rename_i x y rest
    split at h
    · cases h
    · simp only [Except.ok.injEq] at h
      subst h
      intro z hz
      rcases binInsertAll_mem lt _ _ z hz with hz | hz
      · split at hz
        · exact List.mem_of_mem_take (List.mem_reverse.mp hz)
        · exact List.mem_of_mem_take hz
      · exact List.mem_of_mem_drop hz

/-- the records `create_variant_graph` walks over are `RecOk` whenever the input records are
non-empty stretches inside the transcript and none is a fusion -/
theorem variantsWithMnv_ok {inp : TvgIn} {vs l : List Rec} (hvs : ∀ v ∈ vs, InOk inp.seq v)
    (h : variantsWithMnv inp vs = .ok l) : ∀ v ∈ l, RecOk inp.seq v := by
  unfold variantsWithMnv at h
  obtain ⟨start0, _, h⟩ := tvg_bind_ok.mp h
  obtain ⟨filtered, hf, h⟩ := tvg_bind_ok.mp h
  obtain ⟨merged, hm, h⟩ := tvg_bind_ok.mp h
  have hfok := filterAll_ok (by omega : 3 ≤ start0 + 3) vs filtered hvs hf
  have hmok := findMnvs_ok hfok _ hm
  intro v hv
  rcases List.mem_append.mp (pySorted_mem _ _ _ h v hv) with hv | hv
  · exact hfok v hv
  · exact hmok v hv

/-- **`create_variant_graph` builds a `Reach`able graph** (no hypothesis on the loop) -/
theorem createVariantGraph_reach_of_inOk {inp : TvgIn} {vs : List Rec} {g : TState}
    (h3 : 3 ≤ inp.seq.length) (hvs : ∀ v ∈ vs, InOk inp.seq v)
    (h : createVariantGraph inp vs = .ok g) : Reach inp.seq g :=
  createVariantGraph_reach h3 (fun _ hl => variantsWithMnv_ok hvs hl) h

end MoPepGen.Tvg
