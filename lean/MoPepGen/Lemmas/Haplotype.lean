/-
Lemmas about the haplotypes of the definitional layer (`Spec/CallVariant.lean`): a strictly
separated list of records with `start ≤ stop` is strictly ascending in `start`,
hence duplicate-free, and is the unique start-sorted arrangement of its elements — so the
insertion sort `sortByStart` of any permutation of it returns it, and it is the sort of a
sub-list of any pool that contains its records.  Plus the unfolding lemmas
that relate the protein language of Layer G (`protLang`) to its DNA language (`tvgLang`).
-/
import MoPepGen.Model.Graph
namespace MoPepGen.Hap
open MoPepGen MoPepGen.Spec MoPepGen.Graph

/-! ### a separated list is strictly ascending -/

/-- in a separated list of well-formed records (`start ≤ stop`) every later record starts
behind the END of the first one -/
theorem separated_head_lt : ∀ (rest : List Var) (a : Var),
    separated (a :: rest) = true → (∀ v ∈ a :: rest, v.start ≤ v.stop) →
    ∀ x ∈ rest, a.stop < x.start := by
  intro rest
  induction rest with
  | nil => intro a _ _ x hx; simp at hx
  | cons b r ih =>
    intro a hsep hpos x hx
    simp only [separated, Bool.and_eq_true, decide_eq_true_eq] at hsep
    rcases List.mem_cons.mp hx with rfl | hx
    · exact hsep.1
    · have h1 := ih b hsep.2 (fun v hv => hpos v (List.mem_cons_of_mem _ hv)) x hx
      have h2 := hpos b (by simp)
      omega

theorem separated_tail : ∀ (a : Var) (rest : List Var),
    separated (a :: rest) = true → separated rest = true := by
  intro a rest h
  cases rest with
  | nil => rfl
  | cons b r =>
    simp only [separated, Bool.and_eq_true] at h
    exact h.2

/-- a separated list of well-formed records (`start ≤ stop`) has strictly increasing starts -/
theorem strictStarts_of_separated : ∀ (h : List Var),
    separated h = true → (∀ v ∈ h, v.start ≤ v.stop) →
    h.Pairwise (fun a b => a.start < b.start) := by
  intro h
  induction h with
  | nil => intros; exact List.Pairwise.nil
  | cons a rest ih =>
    intro hsep hpos
    refine List.pairwise_cons.mpr ⟨?_, ?_⟩
    · intro x hx
      have h1 := separated_head_lt rest a hsep hpos x hx
      have h2 := hpos a (by simp)
      omega
    · exact ih (separated_tail a rest hsep) (fun v hv => hpos v (List.mem_cons_of_mem _ hv))

/-- … hence it is duplicate-free -/
theorem nodup_of_strictStarts {h : List Var}
    (hs : h.Pairwise (fun a b => a.start < b.start)) : h.Nodup := by
  apply List.Pairwise.imp _ hs
  intro a b hab he
  subst he
  omega

/-- … and two of its records with the same start are the same record -/
theorem eq_of_start_eq {h : List Var} (hs : h.Pairwise (fun a b => a.start < b.start)) :
    ∀ a ∈ h, ∀ b ∈ h, a.start = b.start → a = b := by
  induction h with
  | nil => intro a ha; simp at ha
  | cons x rest ih =>
    intro a ha b hb hab
    obtain ⟨hx, hrest⟩ := List.pairwise_cons.mp hs
    rcases List.mem_cons.mp ha with ea | ha <;> rcases List.mem_cons.mp hb with eb | hb
    · rw [ea, eb]
    · have := hx b hb; rw [ea] at hab; omega
    · have := hx a ha; rw [eb] at hab; omega
    · exact ih hrest a ha b hb hab

/-! ### `sortByStart` is an insertion sort -/

theorem insertByStart_perm (v : Var) : ∀ (l : List Var), (insertByStart v l).Perm (v :: l) := by
  intro l
  induction l with
  | nil => exact List.Perm.refl _
  | cons w ws ih =>
    simp only [insertByStart]
    split
    · exact List.Perm.refl _
    · exact (List.Perm.cons w ih).trans (List.Perm.swap v w ws)

theorem sortByStart_cons (a : Var) (l : List Var) :
    sortByStart (a :: l) = insertByStart a (sortByStart l) := rfl

/-- the sort is a permutation of its input -/
theorem sortByStart_perm : ∀ (l : List Var), (sortByStart l).Perm l := by
  intro l
  induction l with
  | nil => exact List.Perm.refl _
  | cons a l ih =>
    rw [sortByStart_cons]
    exact (insertByStart_perm a _).trans (List.Perm.cons a ih)

theorem insertByStart_sorted (v : Var) : ∀ (l : List Var),
    l.Pairwise (fun a b => a.start ≤ b.start) →
    (insertByStart v l).Pairwise (fun a b => a.start ≤ b.start) := by
  intro l
  induction l with
  | nil => intro _; simp [insertByStart]
  | cons w ws ih =>
    intro hs
    obtain ⟨hw, hws⟩ := List.pairwise_cons.mp hs
    simp only [insertByStart]
    split
    · rename_i hle
      refine List.pairwise_cons.mpr ⟨?_, hs⟩
      intro x hx
      rcases List.mem_cons.mp hx with rfl | hx
      · exact hle
      · exact Nat.le_trans hle (hw x hx)
    · rename_i hnle
      refine List.pairwise_cons.mpr ⟨?_, ih hws⟩
      intro x hx
      have hx' := (insertByStart_perm v ws).subset hx
      rcases List.mem_cons.mp hx' with rfl | hx'
      · omega
      · exact hw x hx'

/-- the sort is ascending in `start` -/
theorem sortByStart_sorted : ∀ (l : List Var),
    (sortByStart l).Pairwise (fun a b => a.start ≤ b.start) := by
  intro l
  induction l with
  | nil => exact List.Pairwise.nil
  | cons a l ih =>
    rw [sortByStart_cons]
    exact insertByStart_sorted a _ ih

/-- sorting any permutation of a strictly ascending list returns that list -/
theorem sortByStart_eq_of_perm {s h : List Var} (hp : s.Perm h)
    (hs : h.Pairwise (fun a b => a.start < b.start)) : sortByStart s = h := by
  have hperm : (sortByStart s).Perm h := (sortByStart_perm s).trans hp
  refine List.Perm.eq_of_pairwise (le := fun a b => a.start ≤ b.start) ?_
    (sortByStart_sorted s) (List.Pairwise.imp (fun hab => Nat.le_of_lt hab) hs) hperm
  intro a b ha hb h1 h2
  exact eq_of_start_eq hs a (hperm.subset ha) b hb (Nat.le_antisymm h1 h2)

/-- sorting a strictly ascending list is the identity -/
theorem sortByStart_id {h : List Var} (hs : h.Pairwise (fun a b => a.start < b.start)) :
    sortByStart h = h :=
  sortByStart_eq_of_perm (List.Perm.refl h) hs

/-! ### the sub-list of the pool that carries a given combination -/

/-- the records of a duplicate-free pool that occur in the duplicate-free list `h ⊆ pool`, in
pool order, are a permutation of `h` -/
theorem filter_mem_perm {pool h : List Var} (hpool : pool.Nodup) (hh : h.Nodup)
    (hsub : ∀ v ∈ h, v ∈ pool) : (pool.filter fun v => decide (v ∈ h)).Perm h := by
  rw [List.perm_ext_iff_of_nodup (List.Nodup.sublist List.filter_sublist hpool) hh]
  intro a
  simp only [List.mem_filter, decide_eq_true_eq]
  exact ⟨fun ⟨_, h2⟩ => h2, fun h2 => ⟨hsub a h2, h2⟩⟩

/-- the same without asking the pool to be duplicate-free: a duplicate-free list whose elements
all occur in `pool` is a permutation of some sub-list of `pool` (take the first occurrence of
each) -/
theorem exists_sublist_perm : ∀ (pool h : List Var), h.Nodup → (∀ v ∈ h, v ∈ pool) →
    ∃ s : List Var, s.Sublist pool ∧ s.Perm h := by
  intro pool
  induction pool with
  | nil =>
    intro h _ hsub
    cases h with
    | nil => exact ⟨[], List.Sublist.slnil, List.Perm.refl _⟩
    | cons a _ => exact absurd (hsub a (by simp)) (by simp)
  | cons x p ih =>
    intro h hnd hsub
    by_cases hx : x ∈ h
    · have hsub' : ∀ v ∈ h.erase x, v ∈ p := by
        intro v hv
        obtain ⟨hne, hv'⟩ := (List.Nodup.mem_erase_iff hnd).mp hv
        rcases List.mem_cons.mp (hsub v hv') with h1 | h1
        · exact absurd h1 hne
        · exact h1
      obtain ⟨s, hs, hp⟩ := ih (h.erase x) (hnd.erase x) hsub'
      exact ⟨x :: s, hs.cons_cons x, (List.Perm.cons x hp).trans (List.perm_cons_erase hx).symm⟩
    · have hsub' : ∀ v ∈ h, v ∈ p := by
        intro v hv
        rcases List.mem_cons.mp (hsub v hv) with h1 | h1
        · exact absurd (h1 ▸ hv) hx
        · exact h1
      obtain ⟨s, hs, hp⟩ := ih h hnd hsub'
      exact ⟨s, hs.cons x, hp⟩

/-- every separated combination of records of the pool is the start-sorted form of a sub-list
of the pool -/
theorem exists_sublist_sort_eq {pool h : List Var}
    (hsep : separated h = true) (hpos : ∀ v ∈ h, v.start ≤ v.stop)
    (hsub : ∀ v ∈ h, v ∈ pool) : ∃ s, s.Sublist pool ∧ h = sortByStart s := by
  have hs := strictStarts_of_separated h hsep hpos
  obtain ⟨s, hsl, hp⟩ := exists_sublist_perm pool h (nodup_of_strictStarts hs) hsub
  exact ⟨s, hsl, (sortByStart_eq_of_perm hp hs).symm⟩

/-- for a duplicate-free pool that sub-list is `pool.filter (· ∈ h)` -/
theorem filter_sort_eq {pool h : List Var} (hpool : pool.Nodup)
    (hsep : separated h = true) (hpos : ∀ v ∈ h, v.start ≤ v.stop)
    (hsub : ∀ v ∈ h, v ∈ pool) : sortByStart (pool.filter fun v => decide (v ∈ h)) = h := by
  have hs := strictStarts_of_separated h hsep hpos
  exact sortByStart_eq_of_perm (filter_mem_perm hpool (nodup_of_strictStarts hs) hsub) hs

/-! ### every pool record lies behind the start codon -/

theorem usable_start_ge (t : TxIn) (v u : Var) (h : usable t v = some u) :
    startIndex t ≤ u.start := by
  simp only [usable] at h
  repeat' split at h
  all_goals first | (cases h; done) | (simp only [Option.some.injEq] at h; subst h; omega)

/-- `usable` keeps only records starting at or behind `startIndex t` (≥ 3), and a merged pair
starts where its first record starts -/
theorem pool_start_ge (t : TxIn) (vs : List Var) :
    ∀ v ∈ recordPool t vs, startIndex t ≤ v.start := by
  intro v hv
  have hus : ∀ u ∈ vs.filterMap (usable t), startIndex t ≤ u.start := by
    intro u hu
    obtain ⟨w, _, hw⟩ := List.mem_filterMap.mp hu
    exact usable_start_ge t w u hw
  simp only [recordPool, List.mem_append] at hv
  rcases hv with hv | hv
  · exact hus v hv
  · simp only [mergedPairs, List.mem_flatMap, List.mem_map, List.mem_filter] at hv
    obtain ⟨a, ha, b, _, rfl⟩ := hv
    exact hus a ha

theorem pool_start_pos (t : TxIn) (vs : List Var) : ∀ v ∈ recordPool t vs, 0 < v.start := by
  intro v hv
  have := pool_start_ge t vs v hv
  simp only [startIndex] at this
  omega

/-! ### Layer G: the protein language is the translation of the DNA language -/

/-- translation of one reading frame given as the already-cut sequence `s = seq.drop f`: the
codon at offset `3 i` of `s` sits at transcript position `f + 3 i`, where an annotated Sec
codon reads `U` -/
def frameTranslation (s : List Char) (sec : List Nat) (f : Nat) : List Char :=
  let aa := translate s
  (List.range aa.length).zip aa |>.map fun (i, c) =>
    if c == '*' && sec.contains (f + 3 * i) then 'U' else c

theorem fullTranslation_eq_frame (seq : List Char) (sec : List Nat) (f : Nat) :
    fullTranslation seq sec f = frameTranslation (seq.drop f) sec f := rfl

/-- annotated Sec codons at or behind `f`, relative to `f` -/
def secFrom (sec : List Nat) (f : Nat) : List Nat :=
  sec.filterMap fun x => if f ≤ x then some (x - f) else none

theorem secFrom_contains (sec : List Nat) (f k : Nat) :
    (secFrom sec f).contains k = sec.contains (f + k) := by
  rw [Bool.eq_iff_iff]
  simp only [secFrom, List.contains_iff_mem, List.mem_filterMap]
  constructor
  · rintro ⟨x, hx, he⟩
    split at he
    · simp only [Option.some.injEq] at he
      have : f + k = x := by omega
      rw [this]; exact hx
    · simp at he
  · intro h
    refine ⟨f + k, h, ?_⟩
    simp

/-- the translation of frame `f` only looks at the sequence behind `f`: it is the frame-0
translation of the cut sequence with the Sec positions taken relative to `f` -/
theorem fullTranslation_drop (seq : List Char) (sec : List Nat) (f : Nat) :
    fullTranslation seq sec f = fullTranslation (seq.drop f) (secFrom sec f) 0 := by
  simp only [fullTranslation, List.drop_zero, secFrom_contains, Nat.zero_add]

end MoPepGen.Hap
