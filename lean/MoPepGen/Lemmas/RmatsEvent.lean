import MoPepGen.Lemmas.RmatsAlign
/-!
Helper lemmas for C16, event level: which junction of an SE / A5SS / A3SS / MXE event a record
of the per-transcript loop body comes from, and the transcript a record of the whole
`convert_to_variant_records` call belongs to.
-/
namespace MoPepGen.Rmats
open MoPepGen
set_option linter.unusedSimpArgs false

/-- a record of the SE loop body comes from one of the three junctions, with its read support -/
theorem seTx_mem {v : SE} {g : Gene} {mi ms : Nat} {t : Transcript} {rs : List ASRec} {r : ASRec}
    (h : seTx v g mi ms t = .ok rs) (hr : r ∈ rs) :
    (v.sjc ≥ ms ∧ ∃ rs', alignConvert v.skipJ g t false false = .ok rs' ∧ r ∈ rs')
    ∨ (v.ijc ≥ mi ∧ ∃ rs', alignConvert v.upJ g t false true = .ok rs' ∧ r ∈ rs')
    ∨ (v.ijc ≥ mi ∧ ∃ rs', alignConvert v.downJ g t true false = .ok rs' ∧ r ∈ rs') := by
  unfold seTx at h
  by_cases c1 : v.sjc ≥ ms <;> by_cases c2 : v.ijc ≥ mi <;>
    simp only [c1, c2, if_true, if_false, bind, Except.bind, pure, Except.pure] at h
  · cases hx : alignConvert v.skipJ g t false false with
    | error e => rw [hx] at h; cases h
    | ok a =>
      cases hy : alignConvert v.upJ g t false true with
      | error e => rw [hx, hy] at h; cases h
      | ok b =>
        cases hz : alignConvert v.downJ g t true false with
        | error e => rw [hx, hy, hz] at h; cases h
        | ok c =>
          rw [hx, hy, hz] at h
          simp only [Except.ok.injEq] at h
          subst h
          simp only [List.mem_append] at hr
          rcases hr with hr | hr | hr
          · exact Or.inl ⟨c1, a, rfl, hr⟩
          · exact Or.inr (Or.inl ⟨c2, b, rfl, hr⟩)
          · exact Or.inr (Or.inr ⟨c2, c, rfl, hr⟩)
  · cases hx : alignConvert v.skipJ g t false false with
    | error e => rw [hx] at h; cases h
    | ok a =>
      rw [hx] at h
      simp only [Except.ok.injEq] at h
      subst h
      simp only [List.append_nil] at hr
      exact Or.inl ⟨c1, a, rfl, hr⟩
  · cases hy : alignConvert v.upJ g t false true with
    | error e => rw [hy] at h; cases h
    | ok b =>
      cases hz : alignConvert v.downJ g t true false with
      | error e => rw [hy, hz] at h; cases h
      | ok c =>
        rw [hy, hz] at h
        simp only [Except.ok.injEq] at h
        subst h
        simp only [List.nil_append, List.mem_append] at hr
        rcases hr with hr | hr
        · exact Or.inr (Or.inl ⟨c2, b, rfl, hr⟩)
        · exact Or.inr (Or.inr ⟨c2, c, rfl, hr⟩)
  · simp only [Except.ok.injEq] at h
    subst h
    cases hr

/-- a record of the A5SS / A3SS loop body comes from the long or the short junction -/
theorem axTx_mem {v : AxSS} {jl jsh : Junction} {un dn : Bool} {g : Gene} {mi ms : Nat}
    {t : Transcript} {rs : List ASRec} {r : ASRec}
    (h : axTx v jl jsh un dn g mi ms t = .ok rs) (hr : r ∈ rs) :
    (v.ijc ≥ mi ∧ ∃ rs', alignConvert jl g t un dn = .ok rs' ∧ r ∈ rs')
    ∨ (v.sjc ≥ ms ∧ ∃ rs', alignConvert jsh g t un dn = .ok rs' ∧ r ∈ rs') := by
  unfold axTx at h
  by_cases c1 : v.ijc ≥ mi <;> by_cases c2 : v.sjc ≥ ms <;>
    simp only [c1, c2, if_true, if_false, bind, Except.bind, pure, Except.pure] at h
  · cases hx : alignConvert jl g t un dn with
    | error e => rw [hx] at h; cases h
    | ok a =>
      cases hy : alignConvert jsh g t un dn with
      | error e => rw [hx, hy] at h; cases h
      | ok b =>
        rw [hx, hy] at h
        simp only [Except.ok.injEq] at h
        subst h
        rcases List.mem_append.mp hr with hr | hr
        · exact Or.inl ⟨c1, a, rfl, hr⟩
        · exact Or.inr ⟨c2, b, rfl, hr⟩
  · cases hx : alignConvert jl g t un dn with
    | error e => rw [hx] at h; cases h
    | ok a =>
      rw [hx] at h
      simp only [Except.ok.injEq] at h
      subst h
      simp only [List.append_nil] at hr
      exact Or.inl ⟨c1, a, rfl, hr⟩
  · cases hy : alignConvert jsh g t un dn with
    | error e => rw [hy] at h; cases h
    | ok b =>
      rw [hy] at h
      simp only [Except.ok.injEq] at h
      subst h
      simp only [List.nil_append] at hr
      exact Or.inr ⟨c2, b, rfl, hr⟩
  · simp only [Except.ok.injEq] at h
    subst h
    cases hr

/-- a record of the MXE loop body comes from one of the two junctions the code looks at -/
theorem mxeTx_mem {v : MXE} {g : Gene} {mi ms : Nat} {t : Transcript} {rs : List ASRec}
    {r : ASRec} (h : mxeTx v g mi ms t = .ok rs) (hr : r ∈ rs) :
    (v.ijc ≥ mi ∧ ∃ rs', alignConvert v.firstDownJ g t true false = .ok rs' ∧ r ∈ rs')
    ∨ (v.sjc > ms ∧ ∃ rs', alignConvert v.secondUpJ g t false true = .ok rs' ∧ r ∈ rs') := by
  unfold mxeTx at h
  by_cases c1 : v.ijc ≥ mi <;> by_cases c2 : v.sjc > ms <;>
    simp only [c1, c2, if_true, if_false, bind, Except.bind, pure, Except.pure] at h
  · cases hx : alignConvert v.firstDownJ g t true false with
    | error e => rw [hx] at h; cases h
    | ok a =>
      cases hy : alignConvert v.secondUpJ g t false true with
      | error e => rw [hx, hy] at h; cases h
      | ok b =>
        rw [hx, hy] at h
        simp only [Except.ok.injEq] at h
        subst h
        rcases List.mem_append.mp hr with hr | hr
        · exact Or.inl ⟨c1, a, rfl, hr⟩
        · exact Or.inr ⟨c2, b, rfl, hr⟩
  · cases hx : alignConvert v.firstDownJ g t true false with
    | error e => rw [hx] at h; cases h
    | ok a =>
      rw [hx] at h
      simp only [Except.ok.injEq] at h
      subst h
      simp only [List.append_nil] at hr
      exact Or.inl ⟨c1, a, rfl, hr⟩
  · cases hy : alignConvert v.secondUpJ g t false true with
    | error e => rw [hy] at h; cases h
    | ok b =>
      rw [hy] at h
      simp only [Except.ok.injEq] at h
      subst h
      simp only [List.nil_append] at hr
      exact Or.inr ⟨c2, b, rfl, hr⟩
  · simp only [Except.ok.injEq] at h
    subst h
    cases hr

/-- a record of the loop over the gene's transcripts comes from the loop body of its transcript -/
theorem overTxs_mem {f : Transcript → Except Err (List ASRec)} {txs : List Transcript} {k : Nat}
    {out : List (Nat × ASRec)} (h : overTxs f txs k = .ok out) {i : Nat} {r : ASRec}
    (hm : (i, r) ∈ out) :
    k ≤ i ∧ ∃ t rs, txs[i - k]? = some t ∧ f t = .ok rs ∧ r ∈ rs := by
  induction txs generalizing k out with
  | nil => unfold overTxs at h; cases h; cases hm
  | cons t ts ih =>
    unfold overTxs at h
    cases hf : f t with
    | error e => rw [hf] at h; cases h
    | ok a =>
      cases ho : overTxs f ts (k + 1) with
      | error e => rw [hf, ho] at h; cases h
      | ok b =>
        rw [hf, ho] at h
        simp only [bind, Except.bind, pure, Except.pure, Except.ok.injEq] at h
        subst h
        rcases List.mem_append.mp hm with hm | hm
        · obtain ⟨x, hx, hxe⟩ := List.mem_map.mp hm
          cases hxe
          exact ⟨Nat.le_refl _, t, a, by simp, hf, hx⟩
        · obtain ⟨h1, t', rs, h2, h3, h4⟩ := ih ho hm
          refine ⟨by omega, t', rs, ?_, h3, h4⟩
          have : i - k = (i - (k + 1)) + 1 := by omega
          rw [this, List.getElem?_cons_succ]; exact h2

theorem dedupFirst_sub {l acc : List (Nat × ASRec)} {x : Nat × ASRec}
    (h : x ∈ dedupFirst l acc) : x ∈ l ∨ x ∈ acc := by
  induction l generalizing acc with
  | nil => unfold dedupFirst at h; exact Or.inr (List.mem_reverse.mp h)
  | cons y ys ih =>
    unfold dedupFirst at h
    split at h
    · rcases ih h with h | h
      · exact Or.inl (List.mem_cons_of_mem _ h)
      · exact Or.inr h
    · rcases ih h with h | h
      · exact Or.inl (List.mem_cons_of_mem _ h)
      · rcases List.mem_cons.mp h with h | h
        · exact Or.inl (h ▸ List.mem_cons_self)
        · exact Or.inr h

theorem seConvert_mem {v : SE} {g : Gene} {txs : List Transcript} {mi ms : Nat}
    {out : List (Nat × ASRec)} (h : seConvert v g txs mi ms = .ok out) {i : Nat} {r : ASRec}
    (hm : (i, r) ∈ out) :
    ∃ t rs, txs[i]? = some t ∧ seTx v g mi ms t = .ok rs ∧ r ∈ rs := by
  unfold seConvert at h
  cases hk : allKnown txs [v.skipJ, v.upJ, v.downJ] with
  | error x => rw [hk] at h; cases h
  | ok k =>
    rw [hk] at h
    cases k with
    | true => cases h; cases hm
    | false =>
      simp only [bind, Except.bind, Bool.false_eq_true, if_false] at h
      cases hgg : g2gAll g [v.ue - 1, v.es, v.ee - 1, v.ds] with
      | error x => rw [hgg] at h; cases h
      | ok u =>
        rw [hgg] at h
        obtain ⟨_, t, rs, h1, h2, h3⟩ := overTxs_mem h hm
        exact ⟨t, rs, by simpa using h1, h2, h3⟩

theorem a5Convert_mem_plus {v : AxSS} {g : Gene} {txs : List Transcript} {mi ms : Nat}
    {out : List (Nat × ASRec)} (hs : g.strand = .plus) (h : a5Convert v g txs mi ms = .ok out)
    {i : Nat} {r : ASRec} (hm : (i, r) ∈ out) :
    ∃ t rs, txs[i]? = some t ∧
      axTx v ⟨v.ls, v.le, v.fs, v.fe⟩ ⟨v.ss, v.se, v.fs, v.fe⟩ true false g mi ms t = .ok rs
      ∧ r ∈ rs := by
  unfold a5Convert at h
  simp only [hs, AxSS.a5Junctions] at h
  cases hk : allKnown txs [⟨v.ls, v.le, v.fs, v.fe⟩, ⟨v.ss, v.se, v.fs, v.fe⟩] with
  | error x => rw [hk] at h; cases h
  | ok k =>
    rw [hk] at h
    cases k with
    | true => cases h; cases hm
    | false =>
      simp only [bind, Except.bind, Bool.false_eq_true, if_false] at h
      cases hgg : g2gAll g [v.le - 1, v.se - 1, v.fs] with
      | error x => rw [hgg] at h; cases h
      | ok u =>
        rw [hgg] at h
        obtain ⟨_, t, rs, h1, h2, h3⟩ := overTxs_mem h hm
        exact ⟨t, rs, by simpa using h1, h2, h3⟩

theorem a5Convert_mem_minus {v : AxSS} {g : Gene} {txs : List Transcript} {mi ms : Nat}
    {out : List (Nat × ASRec)} (hs : g.strand = .minus) (h : a5Convert v g txs mi ms = .ok out)
    {i : Nat} {r : ASRec} (hm : (i, r) ∈ out) :
    ∃ t rs, txs[i]? = some t ∧
      axTx v ⟨v.fs, v.fe, v.ls, v.le⟩ ⟨v.fs, v.fe, v.ss, v.se⟩ false true g mi ms t = .ok rs
      ∧ r ∈ rs := by
  unfold a5Convert at h
  simp only [hs, AxSS.a5Junctions] at h
  cases hk : allKnown txs [⟨v.fs, v.fe, v.ls, v.le⟩, ⟨v.fs, v.fe, v.ss, v.se⟩] with
  | error x => rw [hk] at h; cases h
  | ok k =>
    rw [hk] at h
    cases k with
    | true => cases h; cases hm
    | false =>
      simp only [bind, Except.bind, Bool.false_eq_true, if_false] at h
      cases hgg : g2gAll g [v.ls, v.ss, v.fe - 1] with
      | error x => rw [hgg] at h; cases h
      | ok u =>
        rw [hgg] at h
        obtain ⟨_, t, rs, h1, h2, h3⟩ := overTxs_mem h hm
        exact ⟨t, rs, by simpa using h1, h2, h3⟩

theorem a3Convert_mem_plus {v : AxSS} {g : Gene} {txs : List Transcript} {mi ms : Nat}
    {out : List (Nat × ASRec)} (hs : g.strand = .plus) (h : a3Convert v g txs mi ms = .ok out)
    {i : Nat} {r : ASRec} (hm : (i, r) ∈ out) :
    ∃ t rs, txs[i]? = some t ∧
      axTx v ⟨v.fs, v.fe, v.ls, v.le⟩ ⟨v.fs, v.fe, v.ss, v.se⟩ false true g mi ms t = .ok rs
      ∧ r ∈ rs := by
  unfold a3Convert at h
  simp only [hs, AxSS.a3Junctions] at h
  cases hk : allKnown txs [⟨v.fs, v.fe, v.ls, v.le⟩, ⟨v.fs, v.fe, v.ss, v.se⟩] with
  | error x => rw [hk] at h; cases h
  | ok k =>
    rw [hk] at h
    cases k with
    | true => cases h; cases hm
    | false =>
      simp only [bind, Except.bind, Bool.false_eq_true, if_false] at h
      cases hgg : g2gAll g [v.fe - 1, v.ls, v.ss] with
      | error x => rw [hgg] at h; cases h
      | ok u =>
        rw [hgg] at h
        obtain ⟨_, t, rs, h1, h2, h3⟩ := overTxs_mem h hm
        exact ⟨t, rs, by simpa using h1, h2, h3⟩

theorem a3Convert_mem_minus {v : AxSS} {g : Gene} {txs : List Transcript} {mi ms : Nat}
    {out : List (Nat × ASRec)} (hs : g.strand = .minus) (h : a3Convert v g txs mi ms = .ok out)
    {i : Nat} {r : ASRec} (hm : (i, r) ∈ out) :
    ∃ t rs, txs[i]? = some t ∧
      axTx v ⟨v.ls, v.le, v.fs, v.fe⟩ ⟨v.ss, v.se, v.fs, v.fe⟩ true false g mi ms t = .ok rs
      ∧ r ∈ rs := by
  unfold a3Convert at h
  simp only [hs, AxSS.a3Junctions] at h
  cases hk : allKnown txs [⟨v.ls, v.le, v.fs, v.fe⟩, ⟨v.ss, v.se, v.fs, v.fe⟩] with
  | error x => rw [hk] at h; cases h
  | ok k =>
    rw [hk] at h
    cases k with
    | true => cases h; cases hm
    | false =>
      simp only [bind, Except.bind, Bool.false_eq_true, if_false] at h
      cases hgg : g2gAll g [v.fs, v.le - 1, v.se - 1] with
      | error x => rw [hgg] at h; cases h
      | ok u =>
        rw [hgg] at h
        obtain ⟨_, t, rs, h1, h2, h3⟩ := overTxs_mem h hm
        exact ⟨t, rs, by simpa using h1, h2, h3⟩

theorem mxeConvert_mem {v : MXE} {g : Gene} {txs : List Transcript} {mi ms : Nat}
    {out : List (Nat × ASRec)} (h : mxeConvert v g txs mi ms = .ok out) {i : Nat} {r : ASRec}
    (hm : (i, r) ∈ out) :
    ∃ t rs, txs[i]? = some t ∧ mxeTx v g mi ms t = .ok rs ∧ r ∈ rs := by
  unfold mxeConvert at h
  cases hk : allKnown txs [v.firstDownJ, v.secondUpJ] with
  | error x => rw [hk] at h; cases h
  | ok k =>
    rw [hk] at h
    cases k with
    | true => cases h; cases hm
    | false =>
      simp only [bind, Except.bind, Bool.false_eq_true, if_false] at h
      cases hgg : g2gAll g [v.ue - 1, v.f1s, v.f1e - 1, v.f2s, v.f2e - 1, v.ds] with
      | error x => rw [hgg] at h; cases h
      | ok u =>
        rw [hgg] at h
        cases ho : overTxs (mxeTx v g mi ms) txs 0 with
        | error x => rw [ho] at h; cases h
        | ok l =>
          rw [ho] at h
          simp only [pure, Except.pure, Except.ok.injEq] at h
          subst h
          rcases dedupFirst_sub hm with hm | hm
          · obtain ⟨_, t, rs, h1, h2, h3⟩ := overTxs_mem ho hm
            exact ⟨t, rs, by simpa using h1, h2, h3⟩
          · cases hm

/-! ## A5SS / A3SS loop body: the alternative site lies on the exon upstream (`un`) or
downstream (`dn`) of the flanking exon -/

/-- alternative site on the upstream exon, transcript has the long form -/
theorem axTx_up_long {chrom : List Char} {g : Gene} {t : Transcript} {v : AxSS}
    {jl jsh : Junction} {mi ms : Nat} {pre post : List Iv} {L F : Iv} {rs : List ASRec} {r : ASRec}
    (he : t.exons = pre ++ L :: F :: post) (hw : t.WF) (hg : t.Within g)
    (hc : g.loc.stop ≤ chrom.length)
    (hl1 : jl.ue = L.stop) (hl2 : jl.ds = F.start) (hs2 : jsh.ds = F.start)
    (h1 : L.start < jsh.ue) (h2 : jsh.ue < L.stop)
    (h : axTx v jl jsh true false g mi ms t = .ok rs) (hr : r ∈ rs) :
    applyAS g t.exons (seqOfExons chrom t.strand t.exons) (geneSeq chrom g) r
      = seqOfExons chrom t.strand (pre ++ ⟨L.start, jsh.ue⟩ :: F :: post) := by
  rcases axTx_mem h hr with ⟨_, rs', h', hr'⟩ | ⟨_, rs', h', hr'⟩
  · rw [alignConvert_adjacent he (chain2_of_wf hw he) hl1 hl2] at h'
    cases h'; cases hr'
  · exact alignConvert_un_inside he hw hg hc hs2 h1 h2 h' hr'

/-- alternative site on the upstream exon, transcript has the short form -/
theorem axTx_up_short {chrom : List Char} {g : Gene} {t : Transcript} {v : AxSS}
    {jl jsh : Junction} {mi ms : Nat} {pre post : List Iv} {S F : Iv} {rs : List ASRec} {r : ASRec}
    (he : t.exons = pre ++ S :: F :: post) (hw : t.WF) (hg : t.Within g)
    (hc : g.loc.stop ≤ chrom.length)
    (hs1 : jsh.ue = S.stop) (hs2 : jsh.ds = F.start) (hl2 : jl.ds = F.start)
    (h1 : S.stop < jl.ue) (h2 : jl.ue ≤ F.start) (h3 : jl.us ≤ S.stop)
    (h : axTx v jl jsh true false g mi ms t = .ok rs) (hr : r ∈ rs) :
    applyAS g t.exons (seqOfExons chrom t.strand t.exons) (geneSeq chrom g) r
      = seqOfExons chrom t.strand (pre ++ ⟨S.start, jl.ue⟩ :: F :: post) := by
  have hch := chain2_of_wf hw he
  rcases axTx_mem h hr with ⟨_, rs', h', hr'⟩ | ⟨_, rs', h', hr'⟩
  · rw [alignConvert_un_intron he hw hg hc hl2 h1 h2 (by omega) h' hr']
    have hm : max S.stop jl.us = S.stop := by omega
    have hS : S = ⟨S.start, S.stop⟩ := by cases S; rfl
    rw [hm]
    conv => lhs; rw [hS]
    exact seqOfExons_merge2 chrom t.strand pre (F :: post) (by have := hch.hP; omega) (by omega)
  · rw [alignConvert_adjacent he hch hs1 hs2] at h'
    cases h'; cases hr'

/-- alternative site on the downstream exon, transcript has the long form -/
theorem axTx_down_long {chrom : List Char} {g : Gene} {t : Transcript} {v : AxSS}
    {jl jsh : Junction} {mi ms : Nat} {pre post : List Iv} {F L : Iv} {rs : List ASRec} {r : ASRec}
    (he : t.exons = pre ++ F :: L :: post) (hw : t.WF) (hg : t.Within g)
    (hc : g.loc.stop ≤ chrom.length)
    (hl1 : jl.ue = F.stop) (hl2 : jl.ds = L.start) (hs1 : jsh.ue = F.stop)
    (h1 : L.start < jsh.ds) (h2 : jsh.ds < L.stop)
    (h : axTx v jl jsh false true g mi ms t = .ok rs) (hr : r ∈ rs) :
    applyAS g t.exons (seqOfExons chrom t.strand t.exons) (geneSeq chrom g) r
      = seqOfExons chrom t.strand (pre ++ F :: ⟨jsh.ds, L.stop⟩ :: post) := by
  rcases axTx_mem h hr with ⟨_, rs', h', hr'⟩ | ⟨_, rs', h', hr'⟩
  · rw [alignConvert_adjacent he (chain2_of_wf hw he) hl1 hl2] at h'
    cases h'; cases hr'
  · exact alignConvert_dn_inside he hw hg hc hs1 h1 h2 h' hr'

/-- alternative site on the downstream exon, transcript has the short form -/
theorem axTx_down_short {chrom : List Char} {g : Gene} {t : Transcript} {v : AxSS}
    {jl jsh : Junction} {mi ms : Nat} {pre post : List Iv} {F S : Iv} {rs : List ASRec} {r : ASRec}
    (he : t.exons = pre ++ F :: S :: post) (hw : t.WF) (hg : t.Within g)
    (hc : g.loc.stop ≤ chrom.length)
    (hs1 : jsh.ue = F.stop) (hs2 : jsh.ds = S.start) (hl1 : jl.ue = F.stop)
    (h1 : F.stop ≤ jl.ds) (h2 : jl.ds < S.start) (h3 : S.start ≤ jl.de)
    (h : axTx v jl jsh false true g mi ms t = .ok rs) (hr : r ∈ rs) :
    applyAS g t.exons (seqOfExons chrom t.strand t.exons) (geneSeq chrom g) r
      = seqOfExons chrom t.strand (pre ++ F :: ⟨jl.ds, S.stop⟩ :: post) := by
  have hch := chain2_of_wf hw he
  rcases axTx_mem h hr with ⟨_, rs', h', hr'⟩ | ⟨_, rs', h', hr'⟩
  · rw [alignConvert_dn_intron he hw hg hc hl1 h1 h2 (by omega) h' hr']
    have hm : min S.start jl.de = S.start := by omega
    have hS : S = ⟨S.start, S.stop⟩ := by cases S; rfl
    rw [hm]
    conv => lhs; rw [hS]
    have e1 : pre ++ F :: ⟨jl.ds, S.start⟩ :: ⟨S.start, S.stop⟩ :: post
        = (pre ++ [F]) ++ ⟨jl.ds, S.start⟩ :: ⟨S.start, S.stop⟩ :: post := by simp
    have e2 : pre ++ F :: ⟨jl.ds, S.stop⟩ :: post = (pre ++ [F]) ++ ⟨jl.ds, S.stop⟩ :: post := by
      simp
    rw [e1, e2]
    exact seqOfExons_merge2 chrom t.strand (pre ++ [F]) post (by omega) (by have := hch.hQ; omega)
  · rw [alignConvert_adjacent he hch hs1 hs2] at h'
    cases h'; cases hr'

end MoPepGen.Rmats
