import MoPepGen.Spec.CallVariant
/-! Helper lemmas about the definitional layer (`Spec/CallVariant.lean`). -/
namespace MoPepGen.Spec

theorem mem_sublists {α : Type} (l xs : List α) : l ∈ sublists xs ↔ l.Sublist xs := by
  induction xs generalizing l with
  | nil => simp [sublists]
  | cons x xs ih =>
    simp only [sublists, List.mem_append, List.mem_map]
    constructor
    · rintro (h | ⟨l', hl', rfl⟩)
      · exact ((ih l).mp h).cons x
      · exact ((ih l').mp hl').cons_cons x
    · intro h
      cases h with
      | cons _ h => exact Or.inl ((ih l).mpr h)
      | cons_cons _ h => exact Or.inr ⟨_, (ih _).mpr h, rfl⟩

theorem sublists_mono {α : Type} {xs ys : List α} (h : xs.Sublist ys) (l : List α)
    (hl : l ∈ sublists xs) : l ∈ sublists ys :=
  (mem_sublists l ys).mpr (((mem_sublists l xs).mp hl).trans h)

theorem flatMap_sublist {α β : Type} {l l' : List α} {f g : α → List β} (h : l.Sublist l')
    (hfg : ∀ a, (f a).Sublist (g a)) : (l.flatMap f).Sublist (l'.flatMap g) := by
  induction h with
  | slnil => simp
  | cons a _ ih =>
    simp only [List.flatMap_cons]
    exact ih.trans (List.sublist_append_right _ _)
  | cons_cons a _ ih =>
    simp only [List.flatMap_cons]
    exact (hfg a).append ih

theorem mergedPairs_sublist {us us' : List Var} (h : us.Sublist us') :
    (mergedPairs us).Sublist (mergedPairs us') := by
  unfold mergedPairs
  exact flatMap_sublist h fun a => (h.filter _).map _

theorem recordPool_sublist (t : TxIn) {vs vs' : List Var} (h : vs.Sublist vs') :
    (recordPool t vs).Sublist (recordPool t vs') := by
  unfold recordPool
  have hu := h.filterMap (usable t)
  exact hu.append (mergedPairs_sublist hu)

/-- every compatible combination of fewer records is one of more records -/
theorem haplotypes_mono (t : TxIn) {vs vs' : List Var} (h : vs.Sublist vs') (hp : List Var)
    (hm : hp ∈ haplotypes t vs) : hp ∈ haplotypes t vs' := by
  unfold haplotypes at hm ⊢
  simp only [List.mem_filter, List.mem_map] at hm ⊢
  obtain ⟨⟨s, hs, rfl⟩, hok⟩ := hm
  exact ⟨⟨s, sublists_mono (recordPool_sublist t h) s hs, rfl⟩, hok⟩

end MoPepGen.Spec
