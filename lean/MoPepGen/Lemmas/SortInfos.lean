import MoPepGen.Lemmas.SrcOrder
/-! Helper lemmas for C18: the sort of the peptide infos is independent of the input order;
source sets built by `from_variant_peptide` are duplicate free; `chooseKey` is a function of
the set. -/
namespace MoPepGen

/-! ### insertion sort: sorted, commutes with the key map, unique on keys -/

theorem insertBy_sorted {α} (le : α → α → Bool)
    (htot : ∀ a b, le a b = false → le b a = true)
    (htrans : ∀ a b c, le a b = true → le b c = true → le a c = true) (x : α) :
    ∀ l : List α, l.Pairwise (fun a b => le a b = true) →
      (insertBy le x l).Pairwise (fun a b => le a b = true) := by
  intro l
  induction l with
  | nil => intro _; simp [insertBy]
  | cons y ys ih =>
    intro h
    have hy := List.pairwise_cons.mp h
    unfold insertBy
    by_cases hle : le x y = true
    · simp only [hle, if_true]
      refine List.pairwise_cons.mpr ⟨?_, h⟩
      intro z hz
      rcases List.mem_cons.mp hz with rfl | hz
      · exact hle
      · exact htrans _ _ _ hle (hy.1 z hz)
    · simp only [hle]
      refine List.pairwise_cons.mpr ⟨?_, ih hy.2⟩
      intro z hz
      have : z ∈ x :: ys := (insertBy_perm le x ys).subset hz
      rcases List.mem_cons.mp this with rfl | hz
      · exact htot _ _ (by simpa using hle)
      · exact hy.1 z hz

theorem isort_sorted {α} (le : α → α → Bool)
    (htot : ∀ a b, le a b = false → le b a = true)
    (htrans : ∀ a b c, le a b = true → le b c = true → le a c = true) :
    ∀ l : List α, (isort le l).Pairwise (fun a b => le a b = true) := by
  intro l
  induction l with
  | nil => simp [isort]
  | cons x xs ih => exact insertBy_sorted le htot htrans x _ ih

theorem insertBy_map {α β} (f : α → β) (le : β → β → Bool) (x : α) :
    ∀ l : List α, (insertBy (fun a b => le (f a) (f b)) x l).map f = insertBy le (f x) (l.map f) := by
  intro l
  induction l with
  | nil => rfl
  | cons y ys ih =>
    unfold insertBy
    by_cases h : le (f x) (f y) = true
    · simp [h]
    · have hf : le (f x) (f y) = false := by simpa using h
      simp only [hf, Bool.false_eq_true, if_false, List.map_cons, ih]

theorem isort_map {α β} (f : α → β) (le : β → β → Bool) :
    ∀ l : List α, (isort (fun a b => le (f a) (f b)) l).map f = isort le (l.map f) := by
  intro l
  induction l with
  | nil => rfl
  | cons x xs ih =>
    show (insertBy _ x (isort _ xs)).map f = insertBy le (f x) (isort le (xs.map f))
    rw [insertBy_map, ih]

/-- sorting by a total, transitive, antisymmetric order: the sorted key sequence does not depend
on the order of the input -/
theorem isort_keys_perm {α β} (f : α → β) (le : β → β → Bool)
    (htot : ∀ a b, le a b = false → le b a = true)
    (htrans : ∀ a b c, le a b = true → le b c = true → le a c = true)
    (hanti : ∀ a b, le a b = true → le b a = true → a = b)
    (l l' : List α) (h : l.Perm l') :
    (isort (fun a b => le (f a) (f b)) l).map f = (isort (fun a b => le (f a) (f b)) l').map f := by
  rw [isort_map, isort_map]
  apply List.Perm.eq_of_pairwise (le := fun a b => le a b = true)
  · intro a b _ _ h1 h2; exact hanti a b h1 h2
  · exact isort_sorted le htot htrans _
  · exact isort_sorted le htot htrans _
  · exact ((isort_perm le _).trans (h.map f)).trans (isort_perm le _).symm

theorem intsLe_antisymm (a b : List Nat) (h1 : intsLe a b = true) (h2 : intsLe b a = true) :
    a = b := by
  unfold intsLe at h1 h2
  by_cases e : a = b
  · exact e
  · rcases intsGt_total a b e with h | h
    · rw [h] at h1; cases h1
    · rw [h] at h2; cases h2

/-! ### `withInts`, `headerInfos` as maps -/

/-- an info with its `to_int` image -/
def intsOf (o : Order) (i : Entry × SrcSet) : List Nat × (Entry × SrcSet) :=
  ((toInt o i.2).getD [], i)

theorem withInts_ok_iff (o : Order) : ∀ (infos : List (Entry × SrcSet))
    (l : List (List Nat × (Entry × SrcSet))),
    withInts o infos = .ok l ↔ (∀ i ∈ infos, ∃ n, toInt o i.2 = some n) ∧ l = infos.map (intsOf o) := by
  intro infos
  induction infos with
  | nil => intro l; simp [withInts, eq_comm]
  | cons i is ih =>
    intro l
    simp only [withInts]
    cases h1 : toInt o i.2 with
    | none =>
      simp only [reduceCtorEq, false_iff, not_and]
      intro h; obtain ⟨n, hn⟩ := h i List.mem_cons_self; rw [h1] at hn; cases hn
    | some n =>
      cases h2 : withInts o is with
      | error e =>
        simp only [reduceCtorEq, false_iff, not_and]
        intro h _
        have := (ih (is.map (intsOf o))).mpr ⟨fun j hj => h j (List.mem_cons_of_mem _ hj), rfl⟩
        rw [h2] at this; cases this
      | ok r =>
        obtain ⟨a, b⟩ := (ih r).mp h2
        simp only [Except.ok.injEq, List.map_cons]
        constructor
        · intro e; subst e
          refine ⟨?_, by rw [b]; simp [intsOf, h1]⟩
          intro j hj
          rcases List.mem_cons.mp hj with rfl | hj
          · exact ⟨n, h1⟩
          · exact a j hj
        · rintro ⟨_, e⟩; rw [e, b]; simp [intsOf, h1]

/-- the info `from_variant_peptide` builds for one entry (`([], [])` when it raises) -/
def infoOf (env : SrcEnv) (e : Entry) : Entry × SrcSet :=
  match entryInfo env e with
  | .ok i => i
  | .error _ => ([], [])

theorem headerInfos_ok_iff (env : SrcEnv) : ∀ (h : Header) (infos : List (Entry × SrcSet)),
    headerInfos env h = .ok infos ↔
      (∀ e ∈ h, ∃ i, entryInfo env e = .ok i) ∧ infos = h.map (infoOf env) := by
  intro h
  induction h with
  | nil => intro infos; simp [headerInfos, eq_comm]
  | cons e es ih =>
    intro infos
    simp only [headerInfos]
    cases h1 : entryInfo env e with
    | error x =>
      simp only [reduceCtorEq, false_iff, not_and]
      intro h; obtain ⟨i, hi⟩ := h e List.mem_cons_self; rw [h1] at hi; cases hi
    | ok i =>
      cases h2 : headerInfos env es with
      | error x =>
        simp only [reduceCtorEq, false_iff, not_and]
        intro h _
        have := (ih (es.map (infoOf env))).mpr ⟨fun j hj => h j (List.mem_cons_of_mem _ hj), rfl⟩
        rw [h2] at this; cases this
      | ok r =>
        obtain ⟨a, b⟩ := (ih r).mp h2
        simp only [Except.ok.injEq, List.map_cons]
        constructor
        · intro e'; subst e'
          refine ⟨?_, by rw [b]; simp [infoOf, h1]⟩
          intro j hj
          rcases List.mem_cons.mp hj with rfl | hj
          · exact ⟨i, h1⟩
          · exact a j hj
        · rintro ⟨_, e'⟩; rw [e', b]; simp [infoOf, h1]

/-! ### source sets built by `from_variant_peptide` are duplicate free -/

theorem setInsert_nodup (x : Src) (s : SrcSet) (h : s.Nodup) : (setInsert x s).Nodup := by
  unfold setInsert
  by_cases hc : s.contains x = true
  · simp only [hc, if_true]; exact h
  · simp only [hc]
    refine List.nodup_append.mpr ⟨h, by simp, ?_⟩
    intro a ha b hb
    simp only [List.mem_singleton] at hb
    subst hb
    intro e; subst e
    exact hc (by simpa using ha)

theorem addSource_nodup (env : SrcEnv) (s : SrcSet) (x : Src) (s' : SrcSet) (h : s.Nodup)
    (hr : addSource env s x = .ok s') : s'.Nodup := by
  unfold addSource at hr
  simp only [] at hr
  split at hr
  · cases hr; exact setInsert_nodup _ _ h
  · cases hr

theorem addLabels_nodup (env : SrcEnv) (gene : Option Field) : ∀ (vs : List Field) (s s' : SrcSet),
    s.Nodup → addLabels env gene s vs = .ok s' → s'.Nodup := by
  intro vs
  induction vs with
  | nil => intro s s' hs h; simp only [addLabels, Except.ok.injEq] at h; subst h; exact hs
  | cons v vs ih =>
    intro s s' hs h
    simp only [addLabels] at h
    split at h
    · cases h
    · rename_i s1 hr
      refine ih s1 s' ?_ h
      split at hr
      · exact addSource_nodup env s _ s1 hs hr
      · split at hr
        · exact addSource_nodup env s _ s1 hs hr
        · split at hr
          · cases hr
          · split at hr
            · cases hr
            · exact addSource_nodup env s _ s1 hs hr

theorem addGenes_nodup (env : SrcEnv) : ∀ (l : List (Option Field × List Field)) (s s' : SrcSet),
    s.Nodup → addGenes env s l = .ok s' → s'.Nodup := by
  intro l
  induction l with
  | nil => intro s s' hs h; simp only [addGenes, Except.ok.injEq] at h; subst h; exact hs
  | cons x xs ih =>
    intro s s' hs h
    obtain ⟨g, ls⟩ := x
    simp only [addGenes] at h
    split at h
    · cases h
    · rename_i s1 hr
      exact ih s1 s' (addLabels_nodup env g ls s s1 hs hr) h

/-- the values of the wildcard map are duplicate-free lists -/
def wildNodup (w : List (SrcSet × SrcSet)) : Prop := ∀ kv ∈ w, kv.2.Nodup

theorem applyWildcard_nodup (w : List (SrcSet × SrcSet)) (s : SrcSet) (hw : wildNodup w)
    (hs : s.Nodup) : (applyWildcard w s).Nodup := by
  unfold applyWildcard
  cases hf : w.find? (fun kv => sameSet kv.1 s) with
  | none => exact hs
  | some kv => exact hw kv (List.mem_of_find?_eq_some hf)

/-- the steps of one iteration of `from_variant_peptide` -/
theorem entryInfo_ok_iff (env : SrcEnv) (e : Entry) (i : Entry × SrcSet) :
    entryInfo env e = .ok i ↔ ∃ d vids s1 s2, parseEntry e = .ok d ∧
      identVarIds env.tx2gene d = .ok vids ∧
      (if d.orf.isSome then addSource env [] Generated.sourceNovelOrf else .ok []) = .ok s1 ∧
      addGenes env s1 vids = .ok s2 ∧
      (applyWildcard env.wildcard s2).all
        (fun x => x == "+" || x == "*" || env.order.has (.one x)) = true ∧
      i = (d.str, applyWildcard env.wildcard s2) := by
  unfold entryInfo
  cases h1 : parseEntry e with
  | error x => simp
  | ok d =>
    simp only []
    cases h2 : identVarIds env.tx2gene d with
    | error x =>
      simp only []
      constructor
      · intro e'; cases e'
      · rintro ⟨d', vids', s1', s2', e0, e0', _⟩
        cases e0; rw [h2] at e0'; cases e0'
    | ok vids =>
      simp only []
      cases h3 : (if d.orf.isSome then addSource env [] Generated.sourceNovelOrf else .ok []) with
      | error x =>
        simp only []
        constructor
        · intro e'; cases e'
        · rintro ⟨d', vids', s1', s2', e0, e0', e1, _⟩
          cases e0; rw [h3] at e1; cases e1
      | ok s1 =>
        simp only []
        cases h4 : addGenes env s1 vids with
        | error x =>
          simp only []
          constructor
          · intro e'; cases e'
          · rintro ⟨d', vids', s1', s2', e0, e0', e1, e2, _⟩
            cases e0; rw [h2] at e0'; cases e0'; rw [h3] at e1; cases e1; rw [h4] at e2; cases e2
        | ok s2 =>
          simp only []
          by_cases h5 : (applyWildcard env.wildcard s2).all
              (fun x => x == "+" || x == "*" || env.order.has (.one x)) = true
          · simp only [h5, if_true, Except.ok.injEq]
            constructor
            · intro e'; exact ⟨d, vids, s1, s2, rfl, h2, h3, h4, h5, e'.symm⟩
            · rintro ⟨d', vids', s1', s2', e0, e0', e1, e2, _, e3⟩
              cases e0; rw [h2] at e0'; cases e0'; rw [h3] at e1; cases e1; rw [h4] at e2; cases e2
              exact e3.symm
          · simp only [h5]
            constructor
            · intro e'; cases e'
            · rintro ⟨d', vids', s1', s2', e0, e0', e1, e2, e3, _⟩
              cases e0; rw [h2] at e0'; cases e0'; rw [h3] at e1; cases e1; rw [h4] at e2; cases e2
              exact absurd e3 h5

theorem entryInfo_nodup (env : SrcEnv) (hw : wildNodup env.wildcard) (e : Entry)
    (i : Entry × SrcSet) (h : entryInfo env e = .ok i) : i.2.Nodup := by
  obtain ⟨d, vids, s1, s2, _, _, h3, h4, _, rfl⟩ := (entryInfo_ok_iff env e i).mp h
  have n1 : s1.Nodup := by
    split at h3
    · exact addSource_nodup env [] _ s1 List.nodup_nil h3
    · cases h3; exact List.nodup_nil
  exact applyWildcard_nodup _ _ hw (addGenes_nodup env vids s1 s2 n1 h4)

theorem headerInfos_nodup (env : SrcEnv) (hw : wildNodup env.wildcard) (h : Header)
    (infos : List (Entry × SrcSet)) (hh : headerInfos env h = .ok infos) :
    ∀ i ∈ infos, i.2.Nodup := by
  obtain ⟨a, b⟩ := (headerInfos_ok_iff env h infos).mp hh
  intro i hi
  rw [b] at hi
  obtain ⟨e, he, rfl⟩ := List.mem_map.mp hi
  obtain ⟨j, hj⟩ := a e he
  have := entryInfo_nodup env hw e j hj
  simpa [infoOf, hj] using this

/-! ### `chooseKey` is a function of the set -/

theorem contains_congr {s s' : SrcSet} (h : sameSet s s' = true) : s.contains = s'.contains := by
  funext x
  have := (sameSet_iff s s').mp h x
  cases h1 : s.contains x with
  | true =>
    have : x ∈ s' := this.mp (by simpa using h1)
    exact (by simpa using this : s'.contains x = true).symm
  | false =>
    cases h2 : s'.contains x with
    | false => rfl
    | true =>
      have : x ∈ s := this.mpr (by simpa using h2)
      rw [(by simpa using this : s.contains x = true)] at h1; cases h1

theorem setStr_congr (o : Order) {s s' : SrcSet} (h : sameSet s s' = true) :
    setStr o s = setStr o s' := by
  unfold setStr
  have hc : ∀ x, s.contains x = s'.contains x := fun x => congrFun (contains_congr h) x
  simp only [hc]

theorem subsetB_congr_right (a : SrcSet) {s s' : SrcSet} (h : sameSet s s' = true) :
    subsetB a s = subsetB a s' := by
  unfold subsetB
  rw [contains_congr h]

theorem chooseKey_congr (c : SplitCfg) {s s' : SrcSet} (h : sameSet s s' = true) (hs : s.Nodup)
    (hs' : s'.Nodup) : chooseKey c s = chooseKey c s' := by
  unfold chooseKey
  rw [sameSet_length h hs hs', setStr_congr c.env.order h]
  have : (fun a => subsetB a s) = fun a => subsetB a s' := by
    funext a; exact subsetB_congr_right a h
  rw [this]

/-! ### the sort of `split` does not depend on the order of the header entries -/

theorem intsOf_spec (o : Order) (infos : List (Entry × SrcSet))
    (h : ∀ i ∈ infos, ∃ n, toInt o i.2 = some n) :
    ∀ x ∈ infos.map (intsOf o), x.2 ∈ infos ∧ toInt o x.2.2 = some x.1 := by
  intro x hx
  obtain ⟨i, hi, rfl⟩ := List.mem_map.mp hx
  obtain ⟨n, hn⟩ := h i hi
  exact ⟨hi, by simp [intsOf, hn]⟩

/-- `sortInfos` on a permuted input: the sorted sequence of `to_int` images is the same, the
sorted infos are a permutation, every sorted element carries its own `to_int` image -/
theorem sortInfos_perm (o : Order) (infos infos' : List (Entry × SrcSet)) (hp : infos'.Perm infos)
    (l : List (List Nat × (Entry × SrcSet))) (h : sortInfos o infos = .ok l) :
    ∃ l', sortInfos o infos' = .ok l' ∧ l'.map (·.1) = l.map (·.1) ∧ l'.Perm l ∧
      (∀ x ∈ l, x.2 ∈ infos ∧ toInt o x.2.2 = some x.1) ∧
      (∀ x ∈ l', x.2 ∈ infos ∧ toInt o x.2.2 = some x.1) := by
  unfold sortInfos at h ⊢
  cases hw : withInts o infos with
  | error e => rw [hw] at h; cases h
  | ok w =>
    rw [hw] at h
    simp only [Except.ok.injEq] at h
    obtain ⟨a, b⟩ := (withInts_ok_iff o infos w).mp hw
    have a' : ∀ i ∈ infos', ∃ n, toInt o i.2 = some n := fun i hi => a i (hp.subset hi)
    have hw' := (withInts_ok_iff o infos' _).mpr ⟨a', rfl⟩
    rw [hw']
    have hpw : (infos'.map (intsOf o)).Perm w := by rw [b]; exact hp.map _
    refine ⟨_, rfl, ?_, ?_, ?_, ?_⟩
    · rw [← h]
      exact isort_keys_perm (fun x : List Nat × (Entry × SrcSet) => x.1) intsLe intsLe_total
        intsLe_trans intsLe_antisymm _ _ hpw
    · rw [← h]
      exact ((isort_perm _ _).trans hpw).trans (isort_perm _ _).symm
    · intro x hx
      rw [← h] at hx
      have := (isort_perm _ _).subset hx
      rw [b] at this
      exact intsOf_spec o infos a x this
    · intro x hx
      have := (isort_perm _ _).subset hx
      obtain ⟨m, e⟩ := intsOf_spec o infos' a' x this
      exact ⟨hp.subset m, e⟩

/-- **the key `split` chooses, and the multiset of header entries it writes, do not depend on the
order of the entries in the input header** (level map injective on the source sets of the
header's entries; wildcard-map values are sets). -/
theorem splitPep_perm (c : SplitCfg) (p p' : PRec) (hseq : p'.seq = p.seq)
    (hperm : p'.header.Perm p.header) (infos : List (Entry × SrcSet))
    (hi : headerInfos c.env p.header = .ok infos)
    (hinj : c.env.order.injOn (keysOf (infos.map (·.2))) = true)
    (hw : wildNodup c.env.wildcard) (k : DbKey) (q : PRec) (h : splitPep c p = .ok (k, q)) :
    ∃ q', splitPep c p' = .ok (k, q') ∧ q'.seq = q.seq ∧ q'.header.Perm q.header := by
  obtain ⟨a, b⟩ := (headerInfos_ok_iff c.env p.header infos).mp hi
  have a' : ∀ e ∈ p'.header, ∃ i, entryInfo c.env e = .ok i := fun e he => a e (hperm.subset he)
  have hi' := (headerInfos_ok_iff c.env p'.header _).mpr ⟨a', rfl⟩
  have hpi : (p'.header.map (infoOf c.env)).Perm infos := by rw [b]; exact hperm.map _
  have hnd := headerInfos_nodup c.env hw p.header infos hi
  unfold splitPep at h ⊢
  rw [hi] at h
  rw [hi']
  simp only [] at h ⊢
  cases hs : sortInfos c.env.order infos with
  | error e => rw [hs] at h; cases h
  | ok l =>
    rw [hs] at h
    obtain ⟨l', hs', hkeys, hpl, hl, hl'⟩ := sortInfos_perm c.env.order infos _ hpi l hs
    rw [hs']
    cases l with
    | nil => cases h
    | cons i0 rest =>
      cases l' with
      | nil => simp at hkeys
      | cons i0' rest' =>
        simp only [Except.ok.injEq, Prod.mk.injEq] at h ⊢
        obtain ⟨hk, hq⟩ := h
        simp only [List.map_cons, List.cons.injEq] at hkeys
        obtain ⟨m0, t0⟩ := hl i0 List.mem_cons_self
        obtain ⟨m0', t0'⟩ := hl' i0' List.mem_cons_self
        have hsame : sameSet i0'.2.2 i0.2.2 = true := by
          apply toInt_inj c.env.order _ _ _ i0.1 (by rw [t0', hkeys.1]) t0
          apply injOn_mono _ _ _ _ hinj
          apply keysOf_mono
          intro s hs
          simp only [List.mem_cons, List.not_mem_nil, or_false] at hs
          rcases hs with rfl | rfl
          · exact List.mem_map.mpr ⟨i0'.2, m0', rfl⟩
          · exact List.mem_map.mpr ⟨i0.2, m0, rfl⟩
        refine ⟨⟨p'.seq, (i0' :: rest').map (·.2.1)⟩, ⟨?_, rfl⟩, ?_, ?_⟩
        · rw [← hk]
          exact chooseKey_congr c hsame (hnd _ m0') (hnd _ m0)
        · rw [← hq]; exact hseq
        · rw [← hq]; exact hpl.map (fun x : List Nat × (Entry × SrcSet) => x.2.1)

end MoPepGen
