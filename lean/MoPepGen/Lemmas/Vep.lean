import MoPepGen.Model.Vep
import MoPepGen.Lemmas.Seq
/-! Helper lemmas for C14: reverse complement is an involution, slices of a spliced
chromosome, the gene sequence after a genomic event. -/
namespace MoPepGen

theorem complement_complement (c : Char) : complement (complement c) = c := by
  by_cases h1 : c = 'A'; · subst h1; rfl
  by_cases h2 : c = 'T'; · subst h2; rfl
  by_cases h3 : c = 'C'; · subst h3; rfl
  by_cases h4 : c = 'G'; · subst h4; rfl
  by_cases h5 : c = 'a'; · subst h5; rfl
  by_cases h6 : c = 't'; · subst h6; rfl
  by_cases h7 : c = 'c'; · subst h7; rfl
  by_cases h8 : c = 'g'; · subst h8; rfl
  have : complement c = c := by unfold complement; split <;> simp_all
  rw [this, this]

theorem revComp_revComp (s : List Char) : revComp (revComp s) = s := by
  unfold revComp
  rw [List.map_reverse, List.reverse_reverse, List.map_map]
  have : (complement ∘ complement) = id := by funext c; simp [complement_complement]
  rw [this, List.map_id]

/-- `l[:a] ++ r ++ l[b:]` -/
def splice (l : List Char) (a b : Nat) (r : List Char) : List Char := l.take a ++ r ++ l.drop b

theorem revComp_take (s : List Char) (n : Nat) :
    revComp (s.take n) = (revComp s).drop (s.length - n) := by
  unfold revComp
  rw [List.map_take, List.reverse_take, List.length_map]

theorem revComp_drop (s : List Char) (n : Nat) :
    revComp (s.drop n) = (revComp s).take (s.length - n) := by
  unfold revComp
  rw [List.map_drop, List.reverse_drop, List.length_map]

theorem chromSlice_applyEvent {chrom : List Char} {gs ge : Nat} {ev : GEvent}
    (hc : ge ≤ chrom.length) (h1 : gs ≤ ev.s) (h2 : ev.s ≤ ev.e) (h3 : ev.e ≤ ge) :
    chromSlice (applyEvent chrom ev) ⟨gs, ge + ev.repl.length - (ev.e - ev.s)⟩
      = splice (chromSlice chrom ⟨gs, ge⟩) (ev.s - gs) (ev.e - gs) ev.repl := by
  apply List.ext_getElem?
  intro i
  simp only [chromSlice, applyEvent, splice, List.getElem?_take, List.getElem?_drop,
    List.getElem?_append, List.length_take, List.length_drop, List.length_append]
  repeat' split
  all_goals first | rfl | omega | (congr 1; omega) | skip

/-- gene-level coordinates `(a, b, repl)` of a genomic event inside the gene -/
def geneEvent (g : Gene) (ev : GEvent) : Nat × Nat × List Char :=
  match g.strand with
  | .plus => (ev.s - g.loc.start, ev.e - g.loc.start, ev.repl)
  | .minus => (g.loc.stop - ev.e, g.loc.stop - ev.s, revComp ev.repl)

theorem revComp_splice (l : List Char) (a b : Nat) (r : List Char) :
    revComp (splice l a b r) = splice (revComp l) (l.length - b) (l.length - a) (revComp r) := by
  unfold splice
  rw [revComp_append, revComp_append, revComp_take, revComp_drop, List.append_assoc]

theorem geneSeq_applyEvent (chrom : List Char) (g : Gene) (ev : GEvent)
    (hc : g.loc.stop ≤ chrom.length) (h1 : g.loc.start ≤ ev.s) (h2 : ev.s ≤ ev.e)
    (h3 : ev.e ≤ g.loc.stop) :
    geneSeq (applyEvent chrom ev) (geneAfter g ev)
      = splice (geneSeq chrom g) (geneEvent g ev).1 (geneEvent g ev).2.1 (geneEvent g ev).2.2 := by
  unfold geneSeq geneAfter geneEvent
  cases hs : g.strand
  · simp only
    exact chromSlice_applyEvent hc h1 h2 h3
  · simp only
    rw [chromSlice_applyEvent hc h1 h2 h3, revComp_splice, chromSlice_length hc]
    congr 1 <;> omega

theorem mkRec_ok {a b : Nat} {ref alt : List Char} {r : GvfRec} (h : mkRec a b ref alt = .ok r) :
    r.start = a ∧ r.stop = b ∧ r.ref = ref ∧ r.alt = alt ∧ b - a = ref.length := by
  unfold mkRec at h
  split at h
  · cases h
  · cases h; simp_all

theorem take_succ_of_getElem? {l : List Char} {i : Nat} {c : Char} (h : l[i]? = some c) :
    l.take (i + 1) = l.take i ++ [c] := by
  rw [List.take_add_one, h]; rfl

theorem drop_of_getElem? {l : List Char} {i : Nat} {c : Char} (h : l[i]? = some c) :
    l.drop i = c :: l.drop (i + 1) := by
  have hi : i < l.length := by
    rcases Nat.lt_or_ge i l.length with hi | hi
    · exact hi
    · rw [List.getElem?_eq_none hi] at h; cases h
  rw [List.drop_eq_getElem_cons hi]
  rw [List.getElem?_eq_getElem hi] at h; cases h; rfl

theorem pySlice_single {l : List Char} {i : Nat} {c : Char} (h : l[i]? = some c) :
    pySlice l i (i + 1) = [c] := by
  unfold pySlice
  rw [drop_of_getElem? h]; simp

/-- the gene-level event an anchored record must realise -/
def anchorSpec (seq : List Char) (a b : Nat) : Option (List Char) → List Char
  | none => splice seq a b []
  | some al => if b - a = 2 then splice seq (a + 1) (a + 1) al else splice seq a b al

theorem vepAnchor_spec {seq : List Char} {a b txS : Nat} {al : Option (List Char)} {r : GvfRec}
    (hts : txS ≤ a) (hab : a < b)
    (h : vepAnchor seq a b txS al = .ok r) : applyGvf seq r = anchorSpec seq a b al := by
  unfold vepAnchor at h
  unfold applyGvf anchorSpec splice
  cases al with
  | none =>
    simp only at h ⊢
    split at h
    · obtain ⟨h1, h2, -, h4, -⟩ := mkRec_ok h
      rw [h1, h2, h4]
      unfold pySlice
      simp only [List.append_nil, List.append_assoc]
      congr 1
      have : b + 1 - b = 1 := by omega
      rw [this]
      have : seq.drop (b + 1) = (seq.drop b).drop 1 := by rw [List.drop_drop]
      rw [this, List.take_append_drop]
    · split at h
      · cases h
      · rename_i c hc
        obtain ⟨h1, h2, -, h4, -⟩ := mkRec_ok h
        rw [h1, h2, h4]
        have ha : a = (a - 1) + 1 := by omega
        rw [List.append_nil]
        conv => rhs; rw [ha, take_succ_of_getElem? hc]
  | some al =>
    simp only at h ⊢
    split at h
    · rename_i hba
      rw [if_neg (by omega)]
      split at h
      · split at h
        · cases h
        · rename_i ref href
          split at h
          · rename_i hlast
            split at h
            · split at h <;> cases h
            · rename_i ha0
              split at h
              · cases h
              · rename_i r2 hr2
                obtain ⟨h1, h2, -, h4, -⟩ := mkRec_ok h
                rw [h1, h2, h4]
                have hb : b = a + 1 := by omega
                have hne : al ≠ [] := by intro h0; subst h0; simp at hlast
                have hal : al = al.dropLast ++ [ref] := by
                  obtain ⟨ys, hys⟩ := List.getLast?_eq_some_iff.mp hlast.symm
                  rw [hys]; simp
                have ha : a = (a - 1) + 1 := by omega
                conv => rhs; rw [hal, hb, ha, take_succ_of_getElem? hr2]
                conv => lhs; rw [drop_of_getElem? href]
                simp [← ha]
          · split at h
            · obtain ⟨h1, h2, -, h4, -⟩ := mkRec_ok h
              rw [h1, h2, h4]
            · cases h
      · split at h
        · cases h
        · obtain ⟨h1, h2, -, h4, -⟩ := mkRec_ok h
          rw [h1, h2, h4]
    · split at h
      · rename_i hba2
        rw [if_pos hba2]
        split at h
        · cases h
        · rename_i ref href
          obtain ⟨h1, h2, -, h4, -⟩ := mkRec_ok h
          rw [h1, h2, h4]
          have hb : b - 1 = a + 1 := by omega
          rw [hb, take_succ_of_getElem? href]
          simp
      · rename_i hba2
        rw [if_neg hba2]
        obtain ⟨h1, h2, -, h4, -⟩ := mkRec_ok h
        rw [h1, h2, h4]

theorem vepAnchor_ref {seq : List Char} {a b txS : Nat} {al : Option (List Char)} {r : GvfRec}
    (hab : a < b) (h : vepAnchor seq a b txS al = .ok r) :
    r.ref = pySlice seq r.start r.stop ∧ r.stop - r.start = r.ref.length := by
  unfold vepAnchor at h
  cases al with
  | none =>
    simp only at h
    split at h
    · obtain ⟨h1, h2, h3, -, h5⟩ := mkRec_ok h
      rw [h1, h2, h3]; exact ⟨rfl, h5⟩
    · split at h
      · cases h
      · obtain ⟨h1, h2, h3, -, h5⟩ := mkRec_ok h
        rw [h1, h2, h3]; exact ⟨rfl, h5⟩
  | some al =>
    simp only at h
    split at h
    · split at h
      · split at h
        · cases h
        · rename_i ref href
          split at h
          · split at h
            · split at h <;> cases h
            · split at h
              · cases h
              · rename_i r2 hr2
                obtain ⟨h1, h2, h3, -, h5⟩ := mkRec_ok h
                rw [h1, h2, h3]
                refine ⟨?_, h5⟩
                have ha : a = (a - 1) + 1 := by omega
                conv => rhs; rw [ha, Nat.add_sub_cancel, pySlice_single hr2]
          · split at h
            · obtain ⟨h1, h2, h3, -, h5⟩ := mkRec_ok h
              rw [h1, h2, h3]
              refine ⟨?_, h5⟩
              have hb : b = a + 1 := by omega
              rw [hb, pySlice_single href]
            · cases h
      · split at h
        · cases h
        · rename_i ref href
          obtain ⟨h1, h2, h3, -, h5⟩ := mkRec_ok h
          rw [h1, h2, h3]
          refine ⟨?_, h5⟩
          have hb : b = a + 1 := by omega
          rw [hb, pySlice_single href]
    · split at h
      · split at h
        · cases h
        · rename_i ref href
          obtain ⟨h1, h2, h3, -, h5⟩ := mkRec_ok h
          rw [h1, h2, h3]
          refine ⟨?_, h5⟩
          have hb : b - 1 = a + 1 := by omega
          rw [hb, pySlice_single href]
      · obtain ⟨h1, h2, h3, -, h5⟩ := mkRec_ok h
        rw [h1, h2, h3]; exact ⟨rfl, h5⟩

/-- what `vepLocate` returns: both ends of the row and of the transcript lie in the gene and
the four numbers are the gene coordinates of the 5'-most / 3'-most base (+1) -/
theorem vepLocate_ok {g : Gene} {t : Transcript} {row : VepRow} {a b ts te : Nat}
    (h : vepLocate g t row = .ok (a, b, ts, te)) :
    1 ≤ row.s ∧ 1 ≤ row.e ∧
    (g.loc.start ≤ row.s - 1 ∧ row.s - 1 < g.loc.stop) ∧
    (g.loc.start ≤ row.e - 1 ∧ row.e - 1 < g.loc.stop) ∧
    (g.loc.start ≤ t.spanStart ∧ t.spanStart < g.loc.stop) ∧
    (g.loc.start ≤ t.spanStop - 1 ∧ t.spanStop - 1 < g.loc.stop) ∧
    (match g.strand with
      | .plus => a = row.s - 1 - g.loc.start ∧ b = row.e - 1 - g.loc.start + 1 ∧
          ts = t.spanStart - g.loc.start ∧ te = t.spanStop - 1 - g.loc.start + 1
      | .minus => a = g.loc.stop - 1 - (row.e - 1) ∧ b = g.loc.stop - 1 - (row.s - 1) + 1 ∧
          ts = g.loc.stop - 1 - (t.spanStop - 1) ∧ te = g.loc.stop - 1 - t.spanStart + 1) := by
  unfold vepLocate at h
  split at h
  · cases h
  · rename_i h0
    have g2g : ∀ p q, genomicToGene g p = .ok q →
        (g.loc.start ≤ p ∧ p < g.loc.stop) ∧
        (match g.strand with | .plus => q = p - g.loc.start | .minus => q = g.loc.stop - 1 - p) := by
      intro p q hq
      unfold genomicToGene at hq
      split at hq
      · rename_i hr
        refine ⟨hr, ?_⟩
        cases hs : g.strand <;> rw [hs] at hq <;> simp only at hq ⊢ <;> cases hq <;> rfl
      · cases hq
    split at h
    · rename_i a0 b0 ha0 hb0
      obtain ⟨ra, qa⟩ := g2g _ _ ha0
      obtain ⟨rb, qb⟩ := g2g _ _ hb0
      cases hs : g.strand
      · rw [hs] at h qa qb; simp only at h qa qb
        split at h
        · rename_i ts0 te0 hts hte
          obtain ⟨rs, qs⟩ := g2g _ _ hts
          obtain ⟨re, qe⟩ := g2g _ _ hte
          rw [hs] at qs qe; simp only at qs qe
          simp only [Except.ok.injEq, Prod.mk.injEq] at h
          obtain ⟨h1, h2, h3, h4⟩ := h
          refine ⟨by omega, by omega, ra, rb, rs, re, ?_⟩
          simp only
          omega
        · cases h
      · rw [hs] at h qa qb; simp only at h qa qb
        split at h
        · rename_i ts0 te0 hts hte
          obtain ⟨rs, qs⟩ := g2g _ _ hts
          obtain ⟨re, qe⟩ := g2g _ _ hte
          rw [hs] at qs qe; simp only at qs qe
          simp only [Except.ok.injEq, Prod.mk.injEq] at h
          obtain ⟨h1, h2, h3, h4⟩ := h
          refine ⟨by omega, by omega, ra, rb, re, rs, ?_⟩
          simp only
          omega
        · cases h
    · cases h

end MoPepGen
