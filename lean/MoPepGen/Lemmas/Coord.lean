import MoPepGen.Model.Coord
/-! Helper lemmas about the coordinate loops (over arbitrary exon lists). -/
namespace MoPepGen

/-- ascending well-formed list: non-empty intervals, separated -/
def AscWF (es : List Iv) : Prop := NonEmptyIvs es ∧ Separated es
/-- descending well-formed list (what `reversed(exon)` iterates) -/
def DescWF (es : List Iv) : Prop := NonEmptyIvs es ∧ es.Pairwise (fun a b => b.stop < a.start)

theorem AscWF.tail {e : Iv} {es : List Iv} (h : AscWF (e :: es)) : AscWF es :=
  ⟨fun x hx => h.1 x (List.mem_cons_of_mem _ hx), (List.pairwise_cons.mp h.2).2⟩
theorem DescWF.tail {e : Iv} {es : List Iv} (h : DescWF (e :: es)) : DescWF es :=
  ⟨fun x hx => h.1 x (List.mem_cons_of_mem _ hx), (List.pairwise_cons.mp h.2).2⟩
theorem AscWF.head {e : Iv} {es : List Iv} (h : AscWF (e :: es)) : e.start < e.stop :=
  h.1 e (List.mem_cons_self)
theorem DescWF.head {e : Iv} {es : List Iv} (h : DescWF (e :: es)) : e.start < e.stop :=
  h.1 e (List.mem_cons_self)
theorem AscWF.rel {e : Iv} {es : List Iv} (h : AscWF (e :: es)) :
    ∀ x ∈ es, e.stop < x.start := (List.pairwise_cons.mp h.2).1
theorem DescWF.rel {e : Iv} {es : List Iv} (h : DescWF (e :: es)) :
    ∀ x ∈ es, x.stop < e.start := (List.pairwise_cons.mp h.2).1

theorem AscWF.reverse {es : List Iv} (h : AscWF es) : DescWF es.reverse := by
  refine ⟨fun x hx => h.1 x (List.mem_reverse.mp hx), ?_⟩
  rw [List.pairwise_reverse]; exact h.2

theorem Iv.contains_iff {e : Iv} {p : Nat} : e.contains p = true ↔ e.start ≤ p ∧ p < e.stop := by
  simp [Iv.contains]

theorem Iv.contains_false_iff {e : Iv} {p : Nat} :
    e.contains p = false ↔ ¬ (e.start ≤ p ∧ p < e.stop) := by
  rw [← Iv.contains_iff]; simp

theorem exonsLen_append (a b : List Iv) : exonsLen (a ++ b) = exonsLen a + exonsLen b := by
  induction a with
  | nil => simp [exonsLen]
  | cons e es ih => simp [exonsLen, ih]; omega

theorem exonsLen_reverse (a : List Iv) : exonsLen a.reverse = exonsLen a := by
  induction a with
  | nil => rfl
  | cons e es ih => simp [exonsLen_append, exonsLen, ih]; omega

/-! ### plus strand -/

theorem toGenomicPlus_ok {es : List Iv} {i : Nat} (h : i < exonsLen es) :
    ∃ p, toGenomicPlus i es = .ok p ∧ ∃ e ∈ es, e.start ≤ p ∧ p < e.stop := by
  induction es generalizing i with
  | nil => simp [exonsLen] at h
  | cons e es ih =>
    simp only [exonsLen, Iv.len] at h
    unfold toGenomicPlus
    by_cases hi : i < e.stop - e.start
    · simp only [hi, if_true]
      exact ⟨i + e.start, rfl, e, List.mem_cons_self, by omega, by omega⟩
    · simp only [hi, if_false]
      obtain ⟨p, hp, e', he', hb⟩ := ih (i := i - (e.stop - e.start)) (by omega)
      exact ⟨p, hp, e', List.mem_cons_of_mem _ he', hb⟩

theorem toGenomicPlus_oor {es : List Iv} {i : Nat} (h : exonsLen es ≤ i) :
    toGenomicPlus i es = .error .outOfRange := by
  induction es generalizing i with
  | nil => rfl
  | cons e es ih =>
    simp only [exonsLen, Iv.len] at h
    unfold toGenomicPlus
    have hi : ¬ i < e.stop - e.start := by omega
    simp only [hi, if_false]
    exact ih (by omega)

theorem txIndexPlus_toGenomicPlus {es : List Iv} (hw : AscWF es) {i p : Nat} (acc : Nat)
    (h : toGenomicPlus i es = .ok p) : txIndexPlus p es acc = .ok (acc + i) := by
  induction es generalizing i acc with
  | nil => simp [toGenomicPlus] at h
  | cons e es ih =>
    unfold toGenomicPlus at h
    unfold txIndexPlus
    have hne := hw.head
    by_cases hi : i < e.stop - e.start
    · simp only [hi, if_true, Except.ok.injEq] at h
      subst h
      have h1 : ¬ e.stop < i + e.start := by omega
      have h2 : ¬ e.stop = i + e.start := by omega
      have h3 : e.start ≤ i + e.start := by omega
      simp only [h1, h2, h3, if_true, if_false]
      congr 2; omega
    · simp only [hi, if_false] at h
      have hlen : i - (e.stop - e.start) < exonsLen es := by
        by_cases hl : i - (e.stop - e.start) < exonsLen es
        · exact hl
        · rw [toGenomicPlus_oor (by omega)] at h; cases h
      obtain ⟨p', hp', e', he', hb⟩ := toGenomicPlus_ok hlen
      rw [hp'] at h; cases h
      have := hw.rel e' he'
      have h1 : e.stop < p := by omega
      simp only [h1, if_true]
      rw [ih hw.tail _ hp']
      congr 1; omega

theorem toGenomicPlus_txIndexPlus {es : List Iv} (hw : AscWF es) {p k acc : Nat}
    (hr : ∃ e ∈ es, p < e.stop) (h : txIndexPlus p es acc = .ok k) :
    acc ≤ k ∧ toGenomicPlus (k - acc) es = .ok p ∧ ∃ e ∈ es, e.start ≤ p ∧ p < e.stop := by
  induction es generalizing acc with
  | nil => obtain ⟨e, he, _⟩ := hr; cases he
  | cons e es ih =>
    unfold txIndexPlus at h
    have hne := hw.head
    by_cases h1 : e.stop < p
    · simp only [h1, if_true] at h
      have hr' : ∃ e' ∈ es, p < e'.stop := by
        obtain ⟨x, hx, hp⟩ := hr
        rcases List.mem_cons.mp hx with rfl | hx'
        · omega
        · exact ⟨x, hx', hp⟩
      obtain ⟨hk, hg, x, hx, hb⟩ := ih hw.tail hr' h
      refine ⟨by omega, ?_, x, List.mem_cons_of_mem _ hx, hb⟩
      unfold toGenomicPlus
      have : ¬ k - acc < e.stop - e.start := by omega
      simp only [this, if_false]
      have e1 : k - acc - (e.stop - e.start) = k - (acc + (e.stop - e.start)) := by omega
      rw [e1]; exact hg
    · simp only [h1, if_false] at h
      by_cases h2 : e.stop = p
      · simp [h2] at h
      · simp only [h2, if_false] at h
        by_cases h3 : e.start ≤ p
        · simp only [h3, if_true, Except.ok.injEq] at h
          subst h
          refine ⟨by omega, ?_, e, List.mem_cons_self, h3, by omega⟩
          unfold toGenomicPlus
          have : acc + (p - e.start) - acc < e.stop - e.start := by omega
          simp only [this, if_true]
          congr 1; omega
        · simp [h3] at h

theorem txIndexPlus_intron {es : List Iv} (hw : AscWF es) {p acc : Nat}
    (hr : ∃ e ∈ es, p < e.stop) (hn : ∀ e ∈ es, ¬ (e.start ≤ p ∧ p < e.stop)) :
    txIndexPlus p es acc = .error .intron := by
  induction es generalizing acc with
  | nil => obtain ⟨e, he, _⟩ := hr; cases he
  | cons e es ih =>
    unfold txIndexPlus
    by_cases h1 : e.stop < p
    · simp only [h1, if_true]
      apply ih hw.tail
      · obtain ⟨x, hx, hp⟩ := hr
        rcases List.mem_cons.mp hx with rfl | hx'
        · omega
        · exact ⟨x, hx', hp⟩
      · exact fun x hx => hn x (List.mem_cons_of_mem _ hx)
    · simp only [h1, if_false]
      by_cases h2 : e.stop = p
      · simp [h2]
      · have := hn e List.mem_cons_self
        have h3 : ¬ e.start ≤ p := by omega
        simp [h2, h3]

/-! ### minus strand (lists in descending order) -/

theorem toGenomicMinus_ok {es : List Iv} {i : Nat} (h : i < exonsLen es) :
    ∃ p, toGenomicMinus i es = .ok p ∧ ∃ e ∈ es, e.start ≤ p ∧ p < e.stop := by
  induction es generalizing i with
  | nil => simp [exonsLen] at h
  | cons e es ih =>
    simp only [exonsLen, Iv.len] at h
    unfold toGenomicMinus
    by_cases hi : i < e.stop - e.start
    · simp only [hi, if_true]
      exact ⟨e.stop - 1 - i, rfl, e, List.mem_cons_self, by omega, by omega⟩
    · simp only [hi, if_false]
      obtain ⟨p, hp, e', he', hb⟩ := ih (i := i - (e.stop - e.start)) (by omega)
      exact ⟨p, hp, e', List.mem_cons_of_mem _ he', hb⟩

theorem toGenomicMinus_oor {es : List Iv} {i : Nat} (h : exonsLen es ≤ i) :
    toGenomicMinus i es = .error .outOfRange := by
  induction es generalizing i with
  | nil => rfl
  | cons e es ih =>
    simp only [exonsLen, Iv.len] at h
    unfold toGenomicMinus
    have hi : ¬ i < e.stop - e.start := by omega
    simp only [hi, if_false]
    exact ih (by omega)

theorem txIndexMinus_toGenomicMinus {es : List Iv} (hw : DescWF es) {i p : Nat} (acc : Nat)
    (h : toGenomicMinus i es = .ok p) : txIndexMinus p es acc = .ok (acc + i) := by
  induction es generalizing i acc with
  | nil => simp [toGenomicMinus] at h
  | cons e es ih =>
    unfold toGenomicMinus at h
    unfold txIndexMinus
    have hne := hw.head
    by_cases hi : i < e.stop - e.start
    · simp only [hi, if_true, Except.ok.injEq] at h
      subst h
      by_cases h1 : e.start ≥ e.stop - 1 - i
      · have h2 : e.start = e.stop - 1 - i := by omega
        rw [if_pos h1, if_pos h2]
        congr 1; omega
      · have h3 : e.stop > e.stop - 1 - i := by omega
        simp only [h1, h3, if_true, if_false]
        congr 1; omega
    · simp only [hi, if_false] at h
      have hlen : i - (e.stop - e.start) < exonsLen es := by
        by_cases hl : i - (e.stop - e.start) < exonsLen es
        · exact hl
        · rw [toGenomicMinus_oor (by omega)] at h; cases h
      obtain ⟨p', hp', e', he', hb⟩ := toGenomicMinus_ok hlen
      rw [hp'] at h; cases h
      have := hw.rel e' he'
      have h1 : e.start ≥ p := by omega
      have h2 : ¬ e.start = p := by omega
      simp only [h1, h2, if_true, if_false]
      rw [ih hw.tail _ hp']
      congr 1; omega

theorem toGenomicMinus_txIndexMinus {es : List Iv} (hw : DescWF es) {p k acc : Nat}
    (hr : ∃ e ∈ es, e.start ≤ p) (h : txIndexMinus p es acc = .ok k) :
    acc ≤ k ∧ toGenomicMinus (k - acc) es = .ok p ∧ ∃ e ∈ es, e.start ≤ p ∧ p < e.stop := by
  induction es generalizing acc with
  | nil => obtain ⟨e, he, _⟩ := hr; cases he
  | cons e es ih =>
    unfold txIndexMinus at h
    have hne := hw.head
    by_cases h1 : e.start ≥ p
    · rw [if_pos h1] at h
      by_cases h2 : e.start = p
      · rw [if_pos h2] at h
        simp only [Except.ok.injEq] at h
        subst h
        refine ⟨by omega, ?_, e, List.mem_cons_self, by omega, by omega⟩
        unfold toGenomicMinus
        have : acc + (e.stop - e.start) - 1 - acc < e.stop - e.start := by omega
        simp only [this, if_true]
        congr 1; omega
      · rw [if_neg h2] at h
        have hr' : ∃ e' ∈ es, e'.start ≤ p := by
          obtain ⟨x, hx, hp⟩ := hr
          rcases List.mem_cons.mp hx with rfl | hx'
          · omega
          · exact ⟨x, hx', hp⟩
        obtain ⟨hk, hg, x, hx, hb⟩ := ih hw.tail hr' h
        refine ⟨by omega, ?_, x, List.mem_cons_of_mem _ hx, hb⟩
        unfold toGenomicMinus
        have : ¬ k - acc < e.stop - e.start := by omega
        simp only [this, if_false]
        have e1 : k - acc - (e.stop - e.start) = k - (acc + (e.stop - e.start)) := by omega
        rw [e1]; exact hg
    · simp only [h1, if_false] at h
      by_cases h3 : e.stop > p
      · simp only [h3, if_true, Except.ok.injEq] at h
        subst h
        refine ⟨by omega, ?_, e, List.mem_cons_self, by omega, h3⟩
        unfold toGenomicMinus
        have : acc + (e.stop - p) - 1 - acc < e.stop - e.start := by omega
        simp only [this, if_true]
        congr 1; omega
      · simp [h3] at h

theorem txIndexMinus_intron {es : List Iv} (hw : DescWF es) {p acc : Nat}
    (hr : ∃ e ∈ es, e.start ≤ p) (hn : ∀ e ∈ es, ¬ (e.start ≤ p ∧ p < e.stop)) :
    txIndexMinus p es acc = .error .intron := by
  induction es generalizing acc with
  | nil => obtain ⟨e, he, _⟩ := hr; cases he
  | cons e es ih =>
    unfold txIndexMinus
    have hne := hw.head
    have hn0 := hn e List.mem_cons_self
    by_cases h1 : e.start ≥ p
    · have h2 : ¬ e.start = p := by omega
      simp only [h1, h2, if_true, if_false]
      apply ih hw.tail
      · obtain ⟨x, hx, hp⟩ := hr
        rcases List.mem_cons.mp hx with rfl | hx'
        · omega
        · exact ⟨x, hx', hp⟩
      · exact fun x hx => hn x (List.mem_cons_of_mem _ hx)
    · have h3 : ¬ e.stop > p := by omega
      simp [h1, h3]

/-! ### span of a well-formed list -/

theorem AscWF.head_le {e : Iv} {es : List Iv} (hw : AscWF (e :: es)) :
    ∀ x ∈ e :: es, e.start ≤ x.start := by
  intro x hx
  rcases List.mem_cons.mp hx with rfl | hx'
  · exact Nat.le_refl _
  · have := hw.rel x hx'; have := hw.head; omega

theorem DescWF.head_ge {e : Iv} {es : List Iv} (hw : DescWF (e :: es)) :
    ∀ x ∈ e :: es, x.stop ≤ e.stop := by
  intro x hx
  rcases List.mem_cons.mp hx with rfl | hx'
  · exact Nat.le_refl _
  · have := hw.rel x hx'; have := hw.head; omega

/-! ### exonic positions are mapped -/

theorem txIndexPlus_exonic {es : List Iv} (hw : AscWF es) {p : Nat} (acc : Nat)
    (hx : ∃ e ∈ es, e.start ≤ p ∧ p < e.stop) : ∃ k, txIndexPlus p es acc = .ok k := by
  induction es generalizing acc with
  | nil => obtain ⟨e, he, _⟩ := hx; cases he
  | cons e es ih =>
    unfold txIndexPlus
    have hx' : ¬ (e.start ≤ p ∧ p < e.stop) → ∃ e' ∈ es, e'.start ≤ p ∧ p < e'.stop := by
      intro hne
      obtain ⟨x, hm, hb⟩ := hx
      rcases List.mem_cons.mp hm with rfl | hm'
      · exact absurd hb hne
      · exact ⟨x, hm', hb⟩
    by_cases h1 : e.stop < p
    · rw [if_pos h1]
      exact ih hw.tail _ (hx' (by omega))
    · rw [if_neg h1]
      by_cases h2 : e.stop = p
      · obtain ⟨x, hm, hb⟩ := hx' (by omega)
        have := hw.rel x hm; omega
      · rw [if_neg h2]
        by_cases h3 : e.start ≤ p
        · rw [if_pos h3]; exact ⟨_, rfl⟩
        · obtain ⟨x, hm, hb⟩ := hx' (by omega)
          have := hw.rel x hm; have := hw.head; omega

theorem txIndexMinus_exonic {es : List Iv} (hw : DescWF es) {p : Nat} (acc : Nat)
    (hx : ∃ e ∈ es, e.start ≤ p ∧ p < e.stop) : ∃ k, txIndexMinus p es acc = .ok k := by
  induction es generalizing acc with
  | nil => obtain ⟨e, he, _⟩ := hx; cases he
  | cons e es ih =>
    unfold txIndexMinus
    have hx' : ¬ (e.start ≤ p ∧ p < e.stop) → ∃ e' ∈ es, e'.start ≤ p ∧ p < e'.stop := by
      intro hne
      obtain ⟨x, hm, hb⟩ := hx
      rcases List.mem_cons.mp hm with rfl | hm'
      · exact absurd hb hne
      · exact ⟨x, hm', hb⟩
    have := hw.head
    by_cases h1 : e.start ≥ p
    · rw [if_pos h1]
      by_cases h2 : e.start = p
      · rw [if_pos h2]; exact ⟨_, rfl⟩
      · rw [if_neg h2]
        exact ih hw.tail _ (hx' (by omega))
    · rw [if_neg h1]
      by_cases h3 : e.stop > p
      · rw [if_pos h3]; exact ⟨_, rfl⟩
      · obtain ⟨x, hm, hb⟩ := hx' (by omega)
        have := hw.rel x hm; omega

theorem isExonic_iff {t : Transcript} {p : Nat} :
    isExonic t p = true ↔ ∃ e ∈ t.exons, e.start ≤ p ∧ p < e.stop := by
  simp [isExonic, List.any_eq_true, Iv.contains_iff]

/-- first / last exon of a well-formed transcript bound every exon -/
theorem Transcript.WF.span {t : Transcript} (hw : t.WF) :
    ∃ first last, t.exons.head? = some first ∧ t.exons.getLast? = some last ∧
      first ∈ t.exons ∧ last ∈ t.exons ∧
      (∀ x ∈ t.exons, first.start ≤ x.start) ∧ (∀ x ∈ t.exons, x.stop ≤ last.stop) := by
  obtain ⟨hne, h1, h2⟩ := hw
  have hasc : AscWF t.exons := ⟨h1, h2⟩
  have hdesc := hasc.reverse
  cases hes : t.exons with
  | nil => exact absurd hes hne
  | cons e es =>
    rw [hes] at hasc hdesc
    cases hrev : (e :: es).reverse with
    | nil => simp at hrev
    | cons l ls =>
      rw [hrev] at hdesc
      refine ⟨e, l, rfl, ?_, List.mem_cons_self, ?_, hasc.head_le, ?_⟩
      · rw [List.getLast?_eq_head?_reverse, hrev]; rfl
      · have : l ∈ (e :: es).reverse := by rw [hrev]; exact List.mem_cons_self
        exact List.mem_reverse.mp this
      · intro x hx
        apply hdesc.head_ge
        rw [← hrev]; exact List.mem_reverse.mpr hx

/-! ### CDS start loops coincide with the transcript index of the first coding base -/

theorem cdsStartPlus_eq {es : List Iv} (hw : AscWF es) {c : Nat} (acc : Nat)
    (hx : ∃ e ∈ es, e.start ≤ c ∧ c < e.stop) :
    txIndexPlus c es acc = .ok (cdsStartPlus c es acc) := by
  induction es generalizing acc with
  | nil => obtain ⟨e, he, _⟩ := hx; cases he
  | cons e es ih =>
    unfold txIndexPlus cdsStartPlus
    have hne := hw.head
    by_cases hc : e.start ≤ c ∧ c < e.stop
    · rw [Iv.contains_iff.mpr hc]
      rw [if_neg (by omega), if_neg (by omega), if_pos hc.1]; rfl
    · have hcf : e.contains c = false := Iv.contains_false_iff.mpr hc
      rw [hcf]
      obtain ⟨x, hm, hb⟩ := hx
      rcases List.mem_cons.mp hm with rfl | hm'
      · exact absurd hb hc
      · have := hw.rel x hm'
        rw [if_pos (by omega)]
        simp only [Bool.false_eq_true, if_false, Iv.len]
        exact ih hw.tail _ ⟨x, hm', hb⟩

theorem cdsStartMinus_eq {es : List Iv} (hw : DescWF es) {c : Nat} (acc : Nat) (hc0 : 0 < c)
    (hx : ∃ e ∈ es, e.start ≤ c - 1 ∧ c - 1 < e.stop) :
    txIndexMinus (c - 1) es acc = .ok (cdsStartMinus c es acc) := by
  induction es generalizing acc with
  | nil => obtain ⟨e, he, _⟩ := hx; cases he
  | cons e es ih =>
    unfold txIndexMinus cdsStartMinus
    have hne := hw.head
    by_cases hc : e.start ≤ c - 1 ∧ c - 1 < e.stop
    · -- the first coding base lies in this exon
      have hcond : ¬ (c ≠ e.stop ∧ e.contains c = false) := by
        intro ⟨h1, h2⟩
        have := Iv.contains_false_iff.mp h2
        omega
      rw [if_neg hcond]
      by_cases h1 : e.start ≥ c - 1
      · rw [if_pos h1, if_pos (by omega)]; congr 1; omega
      · rw [if_neg h1, if_pos (by omega)]; congr 1; omega
    · obtain ⟨x, hm, hb⟩ := hx
      rcases List.mem_cons.mp hm with rfl | hm'
      · exact absurd hb hc
      · have := hw.rel x hm'
        have hcond : c ≠ e.stop ∧ e.contains c = false := by
          refine ⟨by omega, Iv.contains_false_iff.mpr (by omega)⟩
        rw [if_pos hcond, if_pos (by omega), if_neg (by omega)]
        simp only [Iv.len]
        exact ih hw.tail _ ⟨x, hm', hb⟩

/-! ### within one exon the transcript index is affine -/

theorem txIndexPlus_offset {es : List Iv} (hw : AscWF es) {p q k acc : Nat}
    (hx : ∃ e ∈ es, e.start ≤ p ∧ p ≤ q ∧ q < e.stop)
    (h : txIndexPlus p es acc = .ok k) : txIndexPlus q es acc = .ok (k + (q - p)) := by
  induction es generalizing acc with
  | nil => obtain ⟨e, he, _⟩ := hx; cases he
  | cons e es ih =>
    unfold txIndexPlus at h ⊢
    have hne := hw.head
    obtain ⟨x, hm, hb⟩ := hx
    by_cases h1 : e.stop < p
    · rw [if_pos h1] at h
      rcases List.mem_cons.mp hm with rfl | hm'
      · omega
      · have := hw.rel x hm'
        rw [if_pos (by omega)]
        exact ih hw.tail ⟨x, hm', hb⟩ h
    · rw [if_neg h1] at h
      by_cases h2 : e.stop = p
      · rw [if_pos h2] at h; cases h
      · rw [if_neg h2] at h
        by_cases h3 : e.start ≤ p
        · rw [if_pos h3] at h
          simp only [Except.ok.injEq] at h; subst h
          rcases List.mem_cons.mp hm with rfl | hm'
          · rw [if_neg (by omega), if_neg (by omega), if_pos (by omega)]; congr 1; omega
          · have := hw.rel x hm'; omega
        · rw [if_neg h3] at h; cases h

theorem txIndexMinus_offset {es : List Iv} (hw : DescWF es) {p q k acc : Nat}
    (hx : ∃ e ∈ es, e.start ≤ q ∧ q ≤ p ∧ p < e.stop)
    (h : txIndexMinus p es acc = .ok k) : txIndexMinus q es acc = .ok (k + (p - q)) := by
  induction es generalizing acc with
  | nil => obtain ⟨e, he, _⟩ := hx; cases he
  | cons e es ih =>
    unfold txIndexMinus at h ⊢
    have hne := hw.head
    obtain ⟨x, hm, hb⟩ := hx
    rcases List.mem_cons.mp hm with rfl | hm'
    · -- both positions in the head exon
      by_cases h1 : x.start ≥ p
      · have hp : x.start = p := by omega
        rw [if_pos h1, if_pos hp] at h
        simp only [Except.ok.injEq] at h; subst h
        have hq : q = p := by omega
        subst hq
        rw [if_pos h1, if_pos hp]; congr 1; omega
      · rw [if_neg h1, if_pos (by omega)] at h
        simp only [Except.ok.injEq] at h; subst h
        by_cases h2 : x.start ≥ q
        · rw [if_pos h2, if_pos (by omega)]; congr 1; omega
        · rw [if_neg h2, if_pos (by omega)]; congr 1; omega
    · have := hw.rel x hm'
      rw [if_pos (by omega), if_neg (by omega)] at h
      rw [if_pos (by omega), if_neg (by omega)]
      exact ih hw.tail ⟨x, hm', hb⟩ h

/-- for an exonic position the range check passes and `get_transcript_index` is its loop -/
theorem txIndex_eq_loop {t : Transcript} (hw : t.WF) {p : Nat} (hx : isExonic t p = true) :
    txIndex t p = (match t.strand with
      | .plus => txIndexPlus p t.exons 0
      | .minus => txIndexMinus p t.exons.reverse 0) := by
  obtain ⟨first, last, hf, hl, hfm, hlm, hlo, hhi⟩ := hw.span
  obtain ⟨e, he, hb⟩ := isExonic_iff.mp hx
  have h1 := hlo e he; have h2 := hhi e he
  unfold txIndex
  rw [hf, hl]; simp only
  rw [if_neg (by omega)]
  cases t.strand <;> rfl

end MoPepGen
