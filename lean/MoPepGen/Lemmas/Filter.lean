import MoPepGen.Model.Filter
/-! Helper lemmas for C19 (filterFasta). -/
namespace MoPepGen

/-- "this entry is kept" as a Bool -/
def keptB (c : FCfg) (d : Bool) (l : Entry) : Bool :=
  match keepEntry c d l with
  | .ok true => true
  | _ => false

theorem keptB_iff {c : FCfg} {d : Bool} {l : Entry} :
    keptB c d l = true ↔ keepEntry c d l = .ok true := by
  unfold keptB
  split
  · simp [*]
  · rename_i h
    constructor
    · intro h'; cases h'
    · intro h'; exact absurd h' (h)

theorem allExpressed_ok_iff (tab : List (Field × Int)) (cutoff : Option Int) :
    ∀ (txs : List Field) (b : Bool), allExpressed tab cutoff txs = .ok b →
      (b = true ↔ ∀ t ∈ txs, ∃ x k, lookupLast tab t = some x ∧ cutoff = some k ∧ k ≤ x) := by
  intro txs
  induction txs with
  | nil => intro b h; simp [allExpressed] at h; simp [← h]
  | cons t rest ih =>
    intro b h
    simp only [allExpressed] at h
    cases hl : lookupLast tab t with
    | none => simp [hl] at h
    | some x =>
      simp only [hl] at h
      cases hc : cutoff with
      | none => simp [hc] at h
      | some k =>
        simp only [hc] at h
        by_cases hk : k ≤ x
        · simp only [hk, if_true] at h
          have := ih b (by simpa [hc] using h)
          rw [this]
          constructor
          · intro h' t' ht'
            rcases List.mem_cons.mp ht' with rfl | ht'
            · exact ⟨x, k, hl, rfl, hk⟩
            · simpa [hc] using h' t' ht'
          · intro h' t' ht'
            simpa [hc] using h' t' (List.mem_cons_of_mem _ ht')
        · simp only [hk, if_false] at h
          have hb : b = false := by cases h; rfl
          subst hb
          constructor
          · intro h'; cases h'
          · intro h'
            obtain ⟨x', k', hx', hk', hle⟩ := h' t (List.mem_cons_self)
            rw [hl] at hx'; cases hx'
            cases hk'
            exact absurd hle hk

theorem keepLabels_spec (c : FCfg) (d : Bool) :
    ∀ (ls r : List Entry), keepLabels c d ls = .ok r →
      r = ls.filter (keptB c d) ∧ ∀ l ∈ ls, ∃ b, keepEntry c d l = .ok b := by
  intro ls
  induction ls with
  | nil => intro r h; simp [keepLabels] at h; subst h; simp
  | cons l ls ih =>
    intro r h
    simp only [keepLabels] at h
    cases hk : keepEntry c d l with
    | error e => simp [hk] at h
    | ok b =>
      simp only [hk] at h
      cases hr : keepLabels c d ls with
      | error e => simp [hr] at h
      | ok r' =>
        simp only [hr] at h
        obtain ⟨h1, h2⟩ := ih r' hr
        have hr' : r = if b then l :: r' else r' := by cases h; rfl
        constructor
        · cases b with
          | true =>
            have : keptB c d l = true := keptB_iff.mpr hk
            simp [hr', this, h1]
          | false =>
            have : keptB c d l = false := by
              cases hkb : keptB c d l with
              | false => rfl
              | true => rw [keptB_iff.mp hkb] at hk; cases hk
            simp [hr', this, h1]
        · intro l' hl'
          rcases List.mem_cons.mp hl' with rfl | hl'
          · exact ⟨b, hk⟩
          · exact h2 l' hl'

theorem keepLabels_all (c : FCfg) (d : Bool) :
    ∀ ls : List Entry, (∀ l ∈ ls, keepEntry c d l = .ok true) → keepLabels c d ls = .ok ls := by
  intro ls
  induction ls with
  | nil => intro _; rfl
  | cons l ls ih =>
    intro h
    simp only [keepLabels, h l (List.mem_cons_self), ih (fun x hx => h x (List.mem_cons_of_mem _ hx))]
    rfl

theorem normHeader_mem :
    ∀ (h : Header) (labels : List Entry), normHeader h = .ok labels →
      ∀ l ∈ labels, ∃ e ∈ h, normLabel e = .ok l := by
  intro h
  induction h with
  | nil => intro labels hh; simp [normHeader] at hh; subst hh; simp
  | cons e es ih =>
    intro labels hh
    simp only [normHeader] at hh
    cases hn : normLabel e with
    | error x => simp [hn] at hh
    | ok l0 =>
      simp only [hn] at hh
      cases hr : normHeader es with
      | error x => simp [hr] at hh
      | ok ls =>
        simp only [hr] at hh
        cases hh
        intro l hl
        rcases List.mem_cons.mp hl with rfl | hl
        · exact ⟨e, List.mem_cons_self, hn⟩
        · obtain ⟨e', he', hn'⟩ := ih ls hr l hl
          exact ⟨e', List.mem_cons_of_mem _ he', hn'⟩

theorem normHeader_fix :
    ∀ ls : List Entry, (∀ l ∈ ls, normLabel l = .ok l) → normHeader ls = .ok ls := by
  intro ls
  induction ls with
  | nil => intro _; rfl
  | cons l ls ih =>
    intro h
    simp only [normHeader, h l (List.mem_cons_self), ih (fun x hx => h x (List.mem_cons_of_mem _ hx))]

/-- what `filterPep` returns, in one statement -/
theorem filterPep_spec (c : FCfg) (p : PRec) (r : Option PRec) (h : filterPep c p = .ok r) :
    (miscOk c p.seq = false ∧ r = none) ∨
    (miscOk c p.seq = true ∧ ∃ labels, normHeader p.header = .ok labels ∧
      (∀ l ∈ labels, ∃ b, keepEntry c (isDenied c p.seq) l = .ok b) ∧
      ((labels.filter (keptB c (isDenied c p.seq)) = [] ∧ r = none) ∨
       (labels.filter (keptB c (isDenied c p.seq)) ≠ [] ∧
         r = some ⟨p.seq, labels.filter (keptB c (isDenied c p.seq))⟩))) := by
  unfold filterPep at h
  cases hm : miscOk c p.seq with
  | false => simp [hm] at h; left; exact ⟨rfl, h.symm⟩
  | true =>
    right
    simp only [hm, Bool.not_true, Bool.false_eq_true, if_false] at h
    refine ⟨rfl, ?_⟩
    cases hn : normHeader p.header with
    | error e => simp [hn] at h
    | ok labels =>
      simp only [hn] at h
      cases hk : keepLabels c (isDenied c p.seq) labels with
      | error e => simp [hk] at h
      | ok kept =>
        obtain ⟨h1, h2⟩ := keepLabels_spec c _ labels kept hk
        refine ⟨labels, rfl, h2, ?_⟩
        simp only [hk] at h
        cases kept with
        | nil =>
          left
          simp at h
          exact ⟨h1.symm, h.symm⟩
        | cons k ks =>
          right
          simp at h
          rw [← h1]
          exact ⟨by simp, h.symm⟩

theorem filterPool_spec (c : FCfg) :
    ∀ (ps out : List PRec), filterPool c ps = .ok out →
      (∀ p ∈ ps, ∃ r, filterPep c p = .ok r) ∧
      out = ps.filterMap (fun p => match filterPep c p with | .ok r => r | .error _ => none) := by
  intro ps
  induction ps with
  | nil => intro out h; simp [filterPool] at h; subst h; simp
  | cons p ps ih =>
    intro out h
    simp only [filterPool] at h
    cases hp : filterPep c p with
    | error e => simp [hp] at h
    | ok r =>
      simp only [hp] at h
      cases hr : filterPool c ps with
      | error e => simp [hr] at h
      | ok rs =>
        simp only [hr] at h
        obtain ⟨h1, h2⟩ := ih rs hr
        constructor
        · intro p' hp'
          rcases List.mem_cons.mp hp' with rfl | hp'
          · exact ⟨r, hp⟩
          · exact h1 p' hp'
        · cases h
          cases r with
          | none => simp [hp, ← h2]
          | some q => simp [hp, ← h2]

theorem filterPool_fix (c : FCfg) :
    ∀ qs : List PRec, (∀ q ∈ qs, filterPep c q = .ok (some q)) → filterPool c qs = .ok qs := by
  intro qs
  induction qs with
  | nil => intro _; rfl
  | cons q qs ih =>
    intro h
    simp only [filterPool, h q (List.mem_cons_self), ih (fun x hx => h x (List.mem_cons_of_mem _ hx))]

theorem filter_sublist_of_imp {α} (p q : α → Bool) (l : List α)
    (h : ∀ x ∈ l, p x = true → q x = true) : (l.filter p).Sublist (l.filter q) := by
  induction l with
  | nil => simp
  | cons a l ih =>
    have ih' := ih (fun x hx => h x (List.mem_cons_of_mem _ hx))
    simp only [List.filter_cons]
    by_cases hp : p a = true
    · have hq := h a (List.mem_cons_self) hp
      simp [hp, hq, ih']
    · simp only [hp]
      by_cases hq : q a = true
      · simp only [hq, if_true]; exact List.Sublist.cons _ ih'
      · simp only [hq]; exact ih'

end MoPepGen
