import MoPepGen.Model.DigestPos
import MoPepGen.Lemmas.Regex
/-!
Helper lemmas for the positional form of `cleave_spec`: the boundary list
`0 :: (sites ++ [n])` seen through the counting function `rank` (number of sites
below a position), for an arbitrary site predicate `P`.
-/
namespace MoPepGen
namespace Rank

variable (P : Nat → Bool)

/-- number of sites strictly below `v` -/
def rank (v : Nat) : Nat := ((List.range v).filter P).length

/-- number of sites strictly between `a` and `b` -/
def between (a b : Nat) : Nat :=
  ((List.range b).filter fun i => decide (a < i) && P i).length

/-- `[0] + sites + [n]` -/
def bs (n : Nat) : List Nat := 0 :: ((List.range (n + 1)).filter P ++ [n])

theorem rank_succ (v : Nat) : rank P (v + 1) = rank P v + (if P v then 1 else 0) := by
  simp only [rank, List.range_succ, List.filter_append, List.length_append]
  cases h : P v <;> simp [h]

theorem rank_succ_site {v : Nat} (h : P v = true) : rank P (v + 1) = rank P v + 1 := by
  rw [rank_succ, if_pos h]

theorem rank_succ_nonsite {v : Nat} (h : P v = false) : rank P (v + 1) = rank P v := by
  rw [rank_succ, if_neg (by simp [h])]; rfl

theorem rank_mono {a b : Nat} (h : a ≤ b) : rank P a ≤ rank P b := by
  induction b with
  | zero => have : a = 0 := by omega
            subst this; exact Nat.le_refl _
  | succ b ih =>
    rcases Nat.lt_or_ge a (b + 1) with h' | h'
    · have := ih (by omega)
      rw [rank_succ]; omega
    · have : a = b + 1 := by omega
      subst this; exact Nat.le_refl _

theorem rank_lt {v m : Nat} (hv : P v = true) (hm : v < m) : rank P v < rank P m := by
  have h1 := rank_succ_site P hv
  have h2 := rank_mono P (show v + 1 ≤ m by omega)
  omega

theorem between_succ (a b : Nat) :
    between P a (b + 1) = between P a b + (if a < b ∧ P b = true then 1 else 0) := by
  simp only [between, List.range_succ, List.filter_append, List.length_append]
  by_cases h1 : a < b <;> cases h2 : P b <;> simp [h1, h2]

theorem between_zero {a b : Nat} (h : b ≤ a + 1) : between P a b = 0 := by
  induction b with
  | zero => simp [between]
  | succ b ih =>
    rw [between_succ, ih (by omega)]
    have : ¬ a < b := by omega
    simp [this]

theorem between_add_rank {a b : Nat} (h : a < b) :
    between P a b + rank P (a + 1) = rank P b := by
  induction b with
  | zero => omega
  | succ b ih =>
    rcases Nat.lt_or_ge a b with h' | h'
    · have := ih h'
      rw [between_succ, rank_succ P b]
      simp only [h', true_and]
      omega
    · have e : a = b := by omega
      subst e
      rw [between_zero P (Nat.le_refl _)]
      omega

/-- with no site at `0`, the sites between `0` and `b` are the sites below `b` -/
theorem between_zero_left (h0 : P 0 = false) (b : Nat) : between P 0 b = rank P b := by
  induction b with
  | zero => simp [between, rank]
  | succ b ih =>
    rw [between_succ, rank_succ, ih]
    rcases Nat.eq_zero_or_pos b with hb | hb
    · subst hb; simp [h0]
    · simp [hb]

/-! ### the site list through `rank` -/

theorem sites_split (m v : Nat) (h : v ≤ m) :
    (List.range m).filter P =
      (List.range v).filter P ++ (List.range' v (m - v)).filter P := by
  have : List.range m = List.range v ++ List.range' v (m - v) := by
    have e := @List.range'_append_1 0 v (m - v)
    rw [Nat.zero_add] at e
    rw [List.range_eq_range', List.range_eq_range', e]
    congr 1; omega
  rw [this, List.filter_append]

/-- the site `v` sits at index `rank v` of the site list -/
theorem sites_getElem?_rank {m v : Nat} (hv : P v = true) (hm : v < m) :
    ((List.range m).filter P)[rank P v]? = some v := by
  rw [sites_split P m v (by omega)]
  have e : m - v = (m - v - 1) + 1 := by omega
  rw [e, List.range'_succ, List.filter_cons, hv]
  simp only [if_true]
  rw [List.getElem?_append_right (by simp [rank])]
  simp [rank]

theorem sites_nodup (m : Nat) : ((List.range m).filter P).Nodup :=
  List.Pairwise.filter _ List.nodup_range

/-- an entry of the site list is a site, below the bound, and its index is its rank -/
theorem sites_getElem?_inv {m k v : Nat} (h : ((List.range m).filter P)[k]? = some v) :
    P v = true ∧ v < m ∧ rank P v = k := by
  have hmem := List.mem_of_getElem? h
  simp only [List.mem_filter, List.mem_range] at hmem
  refine ⟨hmem.2, hmem.1, ?_⟩
  have h2 := sites_getElem?_rank P hmem.2 hmem.1
  have hk : k < ((List.range m).filter P).length := by
    rcases Nat.lt_or_ge k ((List.range m).filter P).length with h' | h'
    · exact h'
    · rw [List.getElem?_eq_none h'] at h; cases h
  exact ((List.getElem?_inj hk (sites_nodup P m)).mp (h.trans h2.symm)).symm

theorem sites_length (m : Nat) : ((List.range m).filter P).length = rank P m := rfl

/-! ### entries of the boundary list -/

theorem bs_length (n : Nat) : (bs P n).length = rank P (n + 1) + 2 := by
  simp [bs, rank]

theorem bs_getD_zero (n : Nat) : (bs P n).getD 0 0 = 0 := rfl

theorem bs_getD_last (n : Nat) : (bs P n).getD (rank P (n + 1) + 1) 0 = n := by
  simp only [bs, List.getD_eq_getElem?_getD, List.getElem?_cons_succ]
  rw [List.getElem?_append_right (by simp [rank])]
  simp [rank]

theorem bs_getD_site {n v : Nat} (hv : P v = true) (hn : v ≤ n) :
    (bs P n).getD (rank P v + 1) 0 = v := by
  simp only [bs, List.getD_eq_getElem?_getD, List.getElem?_cons_succ]
  have hl : rank P v < ((List.range (n + 1)).filter P).length :=
    rank_lt P hv (by omega)
  rw [List.getElem?_append_left hl, sites_getElem?_rank P hv (by omega)]
  rfl

/-- every index of the boundary list is the N-terminus, a site (at index `rank + 1`), or
the appended C-terminus -/
theorem bs_view {n st : Nat} (h : st < rank P (n + 1) + 2) :
    (st = 0 ∧ (bs P n).getD st 0 = 0) ∨
    (st = rank P (n + 1) + 1 ∧ (bs P n).getD st 0 = n) ∨
    (∃ v, (bs P n).getD st 0 = v ∧ P v = true ∧ v ≤ n ∧ st = rank P v + 1) := by
  rcases Nat.eq_zero_or_pos st with h0 | h0
  · left; subst h0; exact ⟨rfl, rfl⟩
  · rcases Nat.lt_or_ge st (rank P (n + 1) + 1) with h1 | h1
    · right; right
      obtain ⟨k, rfl⟩ : ∃ k, st = k + 1 := ⟨st - 1, by omega⟩
      have hk : k < ((List.range (n + 1)).filter P).length := by
        rw [sites_length]; omega
      have hget : ((List.range (n + 1)).filter P)[k]? =
          some ((List.range (n + 1)).filter P)[k] := List.getElem?_eq_getElem hk
      obtain ⟨hp, hlt, hr⟩ := sites_getElem?_inv P hget
      refine ⟨((List.range (n + 1)).filter P)[k], ?_, hp, by omega, by omega⟩
      simp only [bs, List.getD_eq_getElem?_getD, List.getElem?_cons_succ]
      rw [List.getElem?_append_left hk, hget]
      rfl
    · right; left
      have : st = rank P (n + 1) + 1 := by omega
      subst this
      exact ⟨rfl, bs_getD_last P n⟩

/-! ### index pairs ↔ position pairs -/

/-- `a` is a boundary position -/
def Bnd (n a : Nat) : Prop := a = 0 ∨ P a = true ∨ a = n

/-- From an index pair of the boundary list to positions. -/
theorem idx_to_pos (n : Nat) (h0 : P 0 = false) (hn : ∀ i, P i = true → i ≤ n)
    {st en : Nat} (h1 : st < en) (h2 : en < (bs P n).length) :
    Bnd P n ((bs P n).getD st 0) ∧ Bnd P n ((bs P n).getD en 0) ∧
    ((bs P n).getD st 0 < (bs P n).getD en 0 ∨
      ((bs P n).getD st 0 = n ∧ (bs P n).getD en 0 = n ∧ (n = 0 ∨ P n = true))) ∧
    between P ((bs P n).getD st 0) ((bs P n).getD en 0) ≤ en - st - 1 ∧
    (st = 0 ↔ (bs P n).getD st 0 = 0) := by
  rw [bs_length] at h2
  have hs := rank_succ P n
  rcases bs_view P (n := n) (st := st) (by omega) with ⟨hst, ha⟩ | ⟨hst, ha⟩ | ⟨a, ha, hpa, han, hst⟩
  · -- st = 0
    rcases bs_view P (n := n) (st := en) h2 with ⟨hen, hb⟩ | ⟨hen, hb⟩ | ⟨b, hb, hpb, hbn, hen⟩
    · omega
    · rw [ha, hb]
      refine ⟨Or.inl rfl, Or.inr (Or.inr rfl), ?_, ?_, by simp [hst]⟩
      · rcases Nat.eq_zero_or_pos n with hz | hz
        · right; exact ⟨hz.symm, rfl, Or.inl hz⟩
        · left; exact hz
      · rw [between_zero_left P h0]
        have := rank_mono P (show n ≤ n + 1 by omega)
        omega
    · rw [ha, hb]
      have hbpos : 0 < b := by
        rcases Nat.eq_zero_or_pos b with hz | hz
        · subst hz; rw [h0] at hpb; cases hpb
        · exact hz
      refine ⟨Or.inl rfl, Or.inr (Or.inl hpb), Or.inl hbpos, ?_, by simp [hst]⟩
      rw [between_zero_left P h0]; omega
  · -- st is the last index: no room for en
    omega
  · -- st is a site
    have hapos : 0 < a := by
      rcases Nat.eq_zero_or_pos a with hz | hz
      · subst hz; rw [h0] at hpa; cases hpa
      · exact hz
    have hsa := rank_succ_site P hpa
    rcases bs_view P (n := n) (st := en) h2 with ⟨hen, hb⟩ | ⟨hen, hb⟩ | ⟨b, hb, hpb, hbn, hen⟩
    · omega
    · rw [ha, hb]
      refine ⟨Or.inr (Or.inl hpa), Or.inr (Or.inr rfl), ?_, ?_, by omega⟩
      · rcases Nat.lt_or_ge a n with hlt | hge
        · left; exact hlt
        · have : a = n := by omega
          subst this
          right; exact ⟨rfl, rfl, Or.inr hpa⟩
      · rcases Nat.lt_or_ge a n with hlt | hge
        · have := between_add_rank P hlt
          have := rank_mono P (show n ≤ n + 1 by omega)
          omega
        · rw [between_zero P (by omega)]; omega
    · rw [ha, hb]
      have hab : a < b := by
        rcases Nat.lt_or_ge a b with hlt | hge
        · exact hlt
        · have := rank_mono P hge; omega
      refine ⟨Or.inr (Or.inl hpa), Or.inr (Or.inl hpb), Or.inl hab, ?_, by omega⟩
      have := between_add_rank P hab
      omega

/-- From a pair of boundary positions to an index pair of the boundary list. -/
theorem pos_to_idx (n : Nat) (h0 : P 0 = false) (hn : ∀ i, P i = true → i ≤ n)
    {a b : Nat} (ha : Bnd P n a) (hb : Bnd P n b)
    (hab : a < b ∨ (a = n ∧ b = n ∧ (n = 0 ∨ P n = true))) :
    ∃ st en, st < en ∧ en < (bs P n).length ∧ (bs P n).getD st 0 = a ∧
      (bs P n).getD en 0 = b ∧ en - st - 1 ≤ between P a b ∧ (st = 0 ↔ a = 0) := by
  rw [bs_length]
  have hs := rank_succ P n
  -- index of the right end
  have hbn : b ≤ n := by
    rcases hb with h | h | h
    · omega
    · exact hn b h
    · omega
  rcases hab with hab | ⟨han, hbn', hdeg⟩
  · -- a < b
    have hbpos : 0 < b := by omega
    -- the left end is 0 or a site (it cannot be n)
    rcases ha with ha | ha | ha
    · subst ha
      by_cases hpb : P b = true
      · refine ⟨0, rank P b + 1, by omega, ?_, rfl, bs_getD_site P hpb hbn, ?_, by simp⟩
        · have := rank_lt P hpb (show b < n + 1 by omega); omega
        · rw [between_zero_left P h0]; omega
      · have hb' : b = n := by
          rcases hb with h | h | h
          · omega
          · exact absurd h hpb
          · exact h
        subst hb'
        have hpb' : P b = false := by simpa using hpb
        refine ⟨0, rank P (b + 1) + 1, by omega, by omega, rfl, bs_getD_last P b, ?_, by simp⟩
        rw [between_zero_left P h0]
        have := rank_succ_nonsite P hpb'
        omega
    · have hapos : 0 < a := by
        rcases Nat.eq_zero_or_pos a with hz | hz
        · subst hz; rw [h0] at ha; cases ha
        · exact hz
      have hsa := rank_succ_site P ha
      have hbt := between_add_rank P hab
      by_cases hpb : P b = true
      · refine ⟨rank P a + 1, rank P b + 1, ?_, ?_, bs_getD_site P ha (by omega),
          bs_getD_site P hpb hbn, by omega, by omega⟩
        · have := rank_lt P ha hab; omega
        · have := rank_lt P hpb (show b < n + 1 by omega); omega
      · have hb' : b = n := by
          rcases hb with h | h | h
          · omega
          · exact absurd h hpb
          · exact h
        subst hb'
        have hpb' : P b = false := by simpa using hpb
        have hs' := rank_succ_nonsite P hpb'
        have := rank_lt P ha hab
        refine ⟨rank P a + 1, rank P (b + 1) + 1, by omega, by omega,
          bs_getD_site P ha (by omega), bs_getD_last P b, by omega, by omega⟩
    · omega
  · -- the duplicated end
    rw [han, hbn']
    rcases hdeg with hz | hpn
    · have hr : rank P (n + 1) = 0 := by rw [hz, rank_succ]; simp [h0, rank]
      refine ⟨0, 1, by omega, by omega, (bs_getD_zero P n).trans hz.symm, ?_, by omega, by simp [hz]⟩
      have := bs_getD_last P n
      rw [hr] at this
      exact this
    · have hapos : 0 < n := by
        rcases Nat.eq_zero_or_pos n with hz | hz
        · rw [hz, h0] at hpn; cases hpn
        · exact hz
      have hs' := rank_succ_site P hpn
      refine ⟨rank P n + 1, rank P (n + 1) + 1, by omega, by omega,
        bs_getD_site P hpn (Nat.le_refl _), bs_getD_last P n, by omega, by omega⟩

end Rank
/-! ### bounds of a site, of a kept peptide -/

theorem isSite_bounds {rule : Re} {exc : Option Re} {s : Pep} {i : Nat}
    (h : isSite rule exc s i = true) : 0 < i ∧ i ≤ s.length := by
  simp only [isSite, Bool.and_eq_true, decide_eq_true_eq] at h
  have := Re.matchAt_lt h.1.2
  omega

theorem keep_length {c : CleaveCfg} {p : Pep} (h : c.keep p = some true) :
    c.minLen ≤ p.length ∧ p.length ≤ c.maxLen := by
  unfold CleaveCfg.keep at h
  split at h
  · cases h
  · split at h
    · cases h
    · simp only [Option.some.injEq, Bool.and_eq_true, decide_eq_true_eq] at h
      exact ⟨h.1.2, h.2⟩

end MoPepGen
