import MoPepGen.Model.IndexDir
/-! Helper lemmas for C12 (index directory). -/
namespace MoPepGen.IndexDir
variable {α : Type}

/-! ### files -/

@[simp] theorem fget_fdel (fs : Files α) (n m : FName) :
    fget (fdel fs n) m = if n = m then none else fget fs m := by
  induction fs with
  | nil => simp [fdel, fget]
  | cons x xs ih =>
    obtain ⟨k, b⟩ := x
    by_cases hk : k = n
    · subst hk
      simp only [fdel, if_true, ih, fget]
      split <;> simp_all
    · simp only [fdel, if_neg hk, fget, ih]
      by_cases hkm : k = m
      · subst hkm; simp [Ne.symm hk]
      · simp [hkm]

@[simp] theorem fget_fset (fs : Files α) (n m : FName) (b : Blob α) :
    fget (fset fs n b) m = if n = m then some b else fget fs m := by
  simp only [fset, fget, fget_fdel]
  split <;> simp_all

/-! ### parameters and versions -/

theorem norm_idem (p : Params) : norm (norm p) = norm p := by
  unfold norm
  by_cases h : p.exc = some "auto"
  · simp only [h, if_true]
    by_cases ht : p.enzyme = "trypsin" <;> simp [ht]
  · simp [h]

theorem fillVersion_idem (cur v : Version) :
    fillVersion cur (fillVersion cur v) = fillVersion cur v := by
  simp only [fillVersion]
  congr 1 <;> (split <;> simp_all)

/-! ### lookup -/

theorem getPool_some {pools : List Entry} {p : Params} {en : Entry}
    (h : getPool pools p = some en) : en ∈ pools ∧ en.key = norm p := by
  unfold getPool at h
  exact ⟨List.mem_of_find?_eq_some h, by simpa using List.find?_some h⟩

theorem getPool_none {pools : List Entry} {p : Params} :
    getPool pools p = none ↔ ∀ en ∈ pools, en.key ≠ norm p := by
  unfold getPool
  simp [List.find?_eq_none]

theorem getPool_append_of_some {l₁ l₂ : List Entry} {p : Params} {en : Entry}
    (h : getPool l₁ p = some en) : getPool (l₁ ++ l₂) p = some en := by
  unfold getPool at *
  simp [List.find?_append, h]

theorem le_maxIndex {pools : List Entry} {en : Entry} (h : en ∈ pools) :
    en.index ≤ maxIndex pools := by
  induction pools with
  | nil => cases h
  | cons x xs ih =>
    simp only [maxIndex]
    rcases List.mem_cons.1 h with rfl | h
    · exact Nat.le_max_left _ _
    · exact Nat.le_trans (ih h) (Nat.le_max_right _ _)

/-- the index `register_canonical_pool` hands out -/
def freshIndex (pools : List Entry) : Nat :=
  if pools.isEmpty then 1 else maxIndex pools + 1

theorem freshIndex_pos (pools : List Entry) : 1 ≤ freshIndex pools := by
  unfold freshIndex; split <;> omega

theorem lt_freshIndex {pools : List Entry} {en : Entry} (h : en ∈ pools) :
    en.index < freshIndex pools := by
  unfold freshIndex
  have := le_maxIndex h
  split
  · rename_i he; simp_all
  · omega

theorem register_spec {m : Meta} {p : Params} :
    register m p =
      if (getPool m.pools p).isSome then none
      else some ({ m with pools := m.pools ++
                    [{ filename := .pool (freshIndex m.pools), index := freshIndex m.pools,
                       key := norm p }] },
                 { filename := .pool (freshIndex m.pools), index := freshIndex m.pools,
                   key := norm p }) := by
  simp only [register, freshIndex]

/-- the two ways `save_canonical_peptides` can succeed -/
theorem saveCanonical_spec {m m' : Meta} {fs fs' : Files α} {x : α} {p : Params} {ov : Bool}
    (h : saveCanonical m fs x p ov = some (m', fs')) :
    (∃ en, getPool m.pools p = some en ∧ ov = true ∧ m' = m ∧
        fs' = fset fs en.filename (.pool x)) ∨
    (getPool m.pools p = none ∧
      m' = { m with pools := m.pools ++
              [{ filename := .pool (freshIndex m.pools), index := freshIndex m.pools,
                 key := norm p }] } ∧
      fs' = fset fs (.pool (freshIndex m.pools)) (.pool x)) := by
  unfold saveCanonical at h
  rw [register_spec] at h
  cases hg : getPool m.pools p with
  | some en =>
    simp only [hg, Option.isSome_some, if_true] at h
    cases ov with
    | false => simp at h
    | true =>
      simp only [Bool.not_true, Bool.false_eq_true, if_false, Option.some.injEq,
        Prod.mk.injEq] at h
      exact Or.inl ⟨en, rfl, rfl, h.1.symm, h.2.symm⟩
  | none =>
    simp only [hg, Option.isSome_none, Bool.false_eq_true, if_false, Option.some.injEq,
      Prod.mk.injEq] at h
    exact Or.inr ⟨rfl, h.1.symm, h.2.symm⟩


/-! ### the invariant -/

/-- reference set read through `annotation.gtf` / `proteome.pkl` -/
def annoRef (fs : Files α) : Option Nat := (fget fs .anno).bind Blob.ref
def protRef (fs : Files α) : Option Nat := (fget fs .proteome).bind Blob.ref

/-- Well-formedness of the pool entries of `metadata.json` against the files:
pairwise distinct keys, pairwise distinct indices, file name determined by the index,
keys in normal form, and every listed file that exists holds a pool that was computed, from
the annotation and proteome now in the directory, by an invocation whose arguments have
that key. -/
structure WF (e : Env α) (pools : List Entry) (fs : Files α) : Prop where
  keys : (pools.map (·.key)).Nodup
  idx : (pools.map (·.index)).Nodup
  shape : ∀ en ∈ pools, en.filename = .pool en.index ∧ norm en.key = en.key ∧ 1 ≤ en.index
  holds : ∀ en ∈ pools, ∀ b, fget fs en.filename = some b →
    ∃ a pr p, annoRef fs = some a ∧ protRef fs = some pr ∧ norm p = en.key ∧
      b = .pool (e.poolRaw a pr p)

def Inv (e : Env α) (s : State α) : Prop := ∀ m, s.md = some m → WF e m.pools s.files

theorem eq_of_index_eq {pools : List Entry} (h : (pools.map (·.index)).Nodup)
    {a b : Entry} (ha : a ∈ pools) (hb : b ∈ pools) (hab : a.index = b.index) : a = b := by
  induction pools with
  | nil => cases ha
  | cons x xs ih =>
    simp only [List.map_cons, List.nodup_cons, List.mem_map, not_exists, not_and] at h
    rcases List.mem_cons.1 ha with ha' | ha' <;> rcases List.mem_cons.1 hb with hb' | hb'
    · rw [ha', hb']
    · subst ha'; exact absurd hab.symm (h.1 b hb')
    · subst hb'; exact absurd hab (h.1 a ha')
    · exact ih h.2 ha' hb'

theorem WF.nil (e : Env α) (fs : Files α) : WF e [] fs :=
  ⟨by simp, by simp, by simp, by simp⟩

/-- normalising the stored keys on `load_metadata` changes nothing -/
theorem map_norm_eq {e : Env α} {pools : List Entry} {fs : Files α} (h : WF e pools fs) :
    pools.map (fun en => { en with key := norm en.key }) = pools := by
  conv => rhs; rw [← List.map_id pools]
  apply List.map_congr_left
  intro en hen
  have := (h.shape en hen).2.1
  cases en; simp_all

theorem openDir_pools {e : Env α} {s : State α} {m : Meta} (hi : Inv e s) (hm : s.md = some m) :
    (openDir e s).pools = m.pools := by
  simp only [openDir, hm]
  exact map_norm_eq (hi m hm)

theorem openDir_pools_none {e : Env α} {s : State α} (hm : s.md = none) :
    (openDir e s).pools = [] := by
  simp [openDir, hm]

/-- pools of the in-memory metadata are well formed whenever the directory is -/
theorem WF_openDir {e : Env α} {s : State α} (hi : Inv e s) :
    WF e (openDir e s).pools s.files := by
  cases hm : s.md with
  | none => rw [openDir_pools_none hm]; exact WF.nil e _
  | some m => rw [openDir_pools hi hm]; exact hi m hm

/-- files may disappear, but only pool files -/
def Shrinks (fs fs' : Files α) : Prop :=
  ∀ n, fget fs' n = fget fs n ∨ (fget fs' n = none ∧ ∃ i, n = .pool i)

theorem Shrinks.refl (fs : Files α) : Shrinks fs fs := fun _ => Or.inl rfl

theorem Shrinks.trans {a b c : Files α} (h₁ : Shrinks a b) (h₂ : Shrinks b c) : Shrinks a c := by
  intro n
  rcases h₂ n with h | h
  · rcases h₁ n with h' | h'
    · exact Or.inl (h.trans h')
    · exact Or.inr ⟨h.trans h'.1, h'.2⟩
  · exact Or.inr h

theorem WF.shrinks {e : Env α} {pools : List Entry} {fs fs' : Files α}
    (h : WF e pools fs) (hs : Shrinks fs fs') : WF e pools fs' := by
  have ha : annoRef fs' = annoRef fs := by
    rcases hs .anno with h' | ⟨_, i, hi⟩
    · simp [annoRef, h']
    · cases hi
  have hp : protRef fs' = protRef fs := by
    rcases hs .proteome with h' | ⟨_, i, hi⟩
    · simp [protRef, h']
    · cases hi
  refine ⟨h.keys, h.idx, h.shape, ?_⟩
  intro en hen b hb
  rcases hs en.filename with h' | ⟨h', _⟩
  · rw [h'] at hb
    rw [ha, hp]
    exact h.holds en hen b hb
  · rw [h'] at hb; cases hb

/-- `wipe_canonical_peptides`, whether or not it runs to completion, only removes pool files -/
theorem wipe_shrinks {pools : List Entry} (hsh : ∀ en ∈ pools, ∃ i, en.filename = .pool i) :
    ∀ (fs : Files α), match wipe pools fs with
      | .ok fs' => Shrinks fs fs' ∧ ∀ en ∈ pools, fget fs' en.filename = none
      | .error fs' => Shrinks fs fs' := by
  induction pools with
  | nil => intro fs; simp [wipe, Shrinks.refl]
  | cons x xs ih =>
    intro fs
    simp only [wipe]
    obtain ⟨i, hi⟩ := hsh x (List.mem_cons_self)
    cases hx : fget fs x.filename with
    | none => simp [Shrinks.refl]
    | some b =>
      simp only
      have hstep : Shrinks fs (fdel fs x.filename) := by
        intro n
        by_cases hn : x.filename = n
        · exact Or.inr ⟨by simp [hn], i, by rw [← hn, hi]⟩
        · exact Or.inl (by simp [hn])
      have := ih (fun en hen => hsh en (List.mem_cons_of_mem _ hen)) (fdel fs x.filename)
      cases hw : wipe xs (fdel fs x.filename) with
      | error fs' =>
        rw [hw] at this
        exact hstep.trans this
      | ok fs' =>
        rw [hw] at this
        refine ⟨hstep.trans this.1, ?_⟩
        intro en hen
        rcases List.mem_cons.1 hen with rfl | hen
        · rcases this.1 en.filename with h' | h'
          · rw [h']; simp
          · exact h'.1
        · exact this.2 en hen

/-- `save_canonical_peptides` keeps the entries well formed -/
theorem saveCanonical_WF {e : Env α} {m m' : Meta} {fs fs' : Files α} {p : Params} {ov : Bool}
    {ra rp : Nat} (hw : WF e m.pools fs) (ha : annoRef fs = some ra) (hp : protRef fs = some rp)
    (h : saveCanonical m fs (e.poolRaw ra rp p) p ov = some (m', fs')) :
    WF e m'.pools fs' := by
  rcases saveCanonical_spec h with ⟨en, hg, _, rfl, rfl⟩ | ⟨hg, rfl, rfl⟩
  · -- overwrite in place
    obtain ⟨hen, hk⟩ := getPool_some hg
    have hfn := (hw.shape en hen).1
    have ha' : annoRef (fset fs en.filename (.pool (e.poolRaw ra rp p))) = some ra := by
      simp [annoRef, hfn]; exact ha
    have hp' : protRef (fset fs en.filename (.pool (e.poolRaw ra rp p))) = some rp := by
      simp [protRef, hfn]; exact hp
    refine ⟨hw.keys, hw.idx, hw.shape, ?_⟩
    intro en' hen' b hb
    rw [fget_fset] at hb
    by_cases hf : en.filename = en'.filename
    · rw [if_pos hf] at hb
      have hidx : en.index = en'.index := by
        have h1 := (hw.shape en' hen').1
        rw [hfn, h1] at hf
        exact FName.pool.inj hf
      have : en = en' := eq_of_index_eq hw.idx hen hen' hidx
      subst this
      exact ⟨ra, rp, p, ha', hp', hk.symm, by simpa using hb.symm⟩
    · rw [if_neg hf] at hb
      obtain ⟨a, pr, q, h1, h2, h3, h4⟩ := hw.holds en' hen' b hb
      rw [ha] at h1; rw [hp] at h2
      exact ⟨a, pr, q, by rw [ha', h1], by rw [hp', h2], h3, h4⟩
  · -- new entry
    have hnone := getPool_none.1 hg
    have ha' : annoRef (fset fs (.pool (freshIndex m.pools)) (.pool (e.poolRaw ra rp p))) = some ra := by
      simp [annoRef]; exact ha
    have hp' : protRef (fset fs (.pool (freshIndex m.pools)) (.pool (e.poolRaw ra rp p))) = some rp := by
      simp [protRef]; exact hp
    refine ⟨?_, ?_, ?_, ?_⟩
    · simp only [List.map_append, List.map_cons, List.map_nil]
      rw [List.nodup_append]
      refine ⟨hw.keys, by simp, ?_⟩
      intro a ha b hb
      simp only [List.mem_singleton] at hb
      subst hb
      obtain ⟨en, hen, rfl⟩ := List.mem_map.1 ha
      exact hnone en hen
    · simp only [List.map_append, List.map_cons, List.map_nil]
      rw [List.nodup_append]
      refine ⟨hw.idx, by simp, ?_⟩
      intro a ha b hb
      simp only [List.mem_singleton] at hb
      subst hb
      obtain ⟨en, hen, rfl⟩ := List.mem_map.1 ha
      exact Nat.ne_of_lt (lt_freshIndex hen)
    · intro en hen
      rcases List.mem_append.1 hen with hen | hen
      · exact hw.shape en hen
      · simp only [List.mem_singleton] at hen
        subst hen
        exact ⟨rfl, norm_idem p, freshIndex_pos _⟩
    · intro en hen b hb
      rw [fget_fset] at hb
      rcases List.mem_append.1 hen with hen | hen
      · have hfn := (hw.shape en hen).1
        have hne : ¬ (FName.pool (freshIndex m.pools) = en.filename) := by
          rw [hfn]; intro hh
          have := FName.pool.inj hh
          have := lt_freshIndex hen
          omega
        rw [if_neg hne] at hb
        obtain ⟨a, pr, q, h1, h2, h3, h4⟩ := hw.holds en hen b hb
        rw [ha] at h1; rw [hp] at h2
        exact ⟨a, pr, q, by rw [ha', h1], by rw [hp', h2], h3, h4⟩
      · simp only [List.mem_singleton] at hen
        subst hen
        simp only [if_true, Option.some.injEq] at hb
        exact ⟨ra, rp, p, ha', hp', rfl, hb.symm⟩

end MoPepGen.IndexDir
