import MoPepGen.Model.Split
/-! Helper lemmas for C18 `encode_decode`: the invariant of the `id_mapper` fold of
`encode_fasta` and the round trip through the dictionary. -/
namespace MoPepGen

/-- the header `encode_fasta` looks up in `id_mapper`: the decoy mark stripped -/
def DecoyCfg.strip (c : DecoyCfg) (h : List Char) : List Char :=
  if c.isDecoy h then c.real h else h

/-- the encoded title of a record whose stripped header has identifier `i` -/
def DecoyCfg.mark (c : DecoyCfg) (h : List Char) (i : List Char) : List Char :=
  if c.isDecoy h then c.wrap i else i

/-! ### look-ups in association lists -/

theorem lookupHdr_none_iff (m : List (List Char × List Char)) (h : List Char) :
    lookupHdr m h = none ↔ h ∉ m.map (·.1) := by
  unfold lookupHdr
  cases hf : m.find? (fun kv => kv.1 == h) with
  | none =>
    simp only [true_iff]
    intro hm
    obtain ⟨kv, hkv, rfl⟩ := List.mem_map.mp hm
    have := List.find?_eq_none.mp hf kv hkv
    simp at this
  | some kv =>
    simp only [reduceCtorEq, false_iff]
    have h1 := List.mem_of_find?_eq_some hf
    have h2 : kv.1 = h := by simpa using List.find?_some hf
    exact fun hn => hn (List.mem_map.mpr ⟨kv, h1, h2⟩)

theorem lookupHdr_some_mem (m : List (List Char × List Char)) (h i : List Char)
    (e : lookupHdr m h = some i) : (h, i) ∈ m := by
  unfold lookupHdr at e
  cases hf : m.find? (fun kv => kv.1 == h) with
  | none => rw [hf] at e; cases e
  | some kv =>
    rw [hf] at e
    have h1 := List.mem_of_find?_eq_some hf
    have h2 : kv.1 = h := by simpa using List.find?_some hf
    have h3 : kv.2 = i := Option.some.inj e
    rw [← h2, ← h3]; exact h1

theorem lookupHdr_append_left (m m' : List (List Char × List Char)) (h : List Char)
    (hm : h ∈ m.map (·.1)) : lookupHdr (m ++ m') h = lookupHdr m h := by
  unfold lookupHdr
  rw [List.find?_append]
  cases hf : m.find? (fun kv => kv.1 == h) with
  | some kv => rfl
  | none =>
    exfalso
    have : lookupHdr m h = none := by unfold lookupHdr; rw [hf]
    exact (lookupHdr_none_iff m h).mp this hm

theorem lookupHdr_append_new (m : List (List Char × List Char)) (h i : List Char)
    (hm : lookupHdr m h = none) : lookupHdr (m ++ [(h, i)]) h = some i := by
  unfold lookupHdr at hm ⊢
  rw [List.find?_append]
  cases hf : m.find? (fun kv => kv.1 == h) with
  | some kv => rw [hf] at hm; cases hm
  | none => simp

/-- with pairwise distinct identifiers, the dictionary (the mapper with the columns swapped)
sends the identifier of a header back to that header -/
theorem lookup_swap : ∀ (m : List (List Char × List Char)) (h i : List Char),
    (m.map (·.2)).Nodup → (h, i) ∈ m → lookupHdr (m.map fun kv => (kv.2, kv.1)) i = some h := by
  intro m
  induction m with
  | nil => intro h i _ hm; cases hm
  | cons kv rest ih =>
    intro h i hn hm
    simp only [List.map_cons, List.nodup_cons] at hn
    rcases List.mem_cons.mp hm with e | hm
    · subst e
      simp [lookupHdr]
    · have hne : kv.2 ≠ i := by
        intro e
        apply hn.1
        rw [e]
        exact List.mem_map.mpr ⟨(h, i), hm, rfl⟩
      have := ih h i hn.2 hm
      unfold lookupHdr at this ⊢
      simp only [List.map_cons, List.find?_cons]
      have hb : (kv.2 == i) = false := by simpa using hne
      simp only [hb]
      exact this

/-! ### the invariant of the fold -/

/-- state of `encode_fasta` after the records `recs`:
* the keys of `id_mapper` are pairwise distinct and are exactly the stripped headers seen,
* its values are `uuid 0 … uuid (next-1)` in insertion order,
* the dictionary file lists exactly the mapper (identifier, header),
* every written record carries the identifier of its stripped header (decoy mark re-attached)
  and its own sequence — so equal headers share an identifier. -/
structure EncInv (c : DecoyCfg) (uuid : Nat → List Char) (recs : List (List Char × Pep))
    (st : EncState) : Prop where
  keys_nodup : (st.mapper.map (·.1)).Nodup
  keys : ∀ h, h ∈ st.mapper.map (·.1) ↔ h ∈ recs.map (fun r => c.strip r.1)
  ids : st.mapper.map (·.2) = (List.range st.next).map uuid
  dict : st.dict = st.mapper.map (fun kv => (kv.2, kv.1))
  next_le : st.next ≤ recs.length
  out : st.out = recs.map fun r =>
    (c.mark r.1 ((lookupHdr st.mapper (c.strip r.1)).getD []), r.2)

theorem encInv_init (c : DecoyCfg) (uuid : Nat → List Char) : EncInv c uuid [] {} :=
  ⟨by simp, by simp, by simp, by simp, by simp, by simp⟩

theorem encodeStep_found (c : DecoyCfg) (uuid : Nat → List Char) (st : EncState)
    (r : List Char × Pep) (i : List Char) (h : lookupHdr st.mapper (c.strip r.1) = some i) :
    encodeStep c uuid st r = { st with out := st.out ++ [(c.mark r.1 i, r.2)] } := by
  unfold encodeStep
  unfold DecoyCfg.strip at h
  simp only [h, DecoyCfg.mark]

theorem encodeStep_new (c : DecoyCfg) (uuid : Nat → List Char) (st : EncState)
    (r : List Char × Pep) (h : lookupHdr st.mapper (c.strip r.1) = none) :
    encodeStep c uuid st r =
      { mapper := st.mapper ++ [(c.strip r.1, uuid st.next)],
        dict := st.dict ++ [(uuid st.next, c.strip r.1)],
        next := st.next + 1,
        out := st.out ++ [(c.mark r.1 (uuid st.next), r.2)] } := by
  unfold encodeStep
  unfold DecoyCfg.strip at h ⊢
  simp only [h, DecoyCfg.mark]

theorem encInv_step (c : DecoyCfg) (uuid : Nat → List Char) (recs : List (List Char × Pep))
    (st : EncState) (r : List Char × Pep) (inv : EncInv c uuid recs st) :
    EncInv c uuid (recs ++ [r]) (encodeStep c uuid st r) := by
  cases hl : lookupHdr st.mapper (c.strip r.1) with
  | some i =>
    rw [encodeStep_found c uuid st r i hl]
    have hk : c.strip r.1 ∈ st.mapper.map (·.1) :=
      List.mem_map.mpr ⟨_, lookupHdr_some_mem _ _ _ hl, rfl⟩
    refine ⟨inv.keys_nodup, ?_, inv.ids, inv.dict, ?_, ?_⟩
    · intro h
      simp only [List.map_append, List.map_cons, List.map_nil, List.mem_append, List.mem_singleton]
      rw [inv.keys h]
      constructor
      · exact Or.inl
      · rintro (e | e)
        · exact e
        · rw [e]; exact (inv.keys _).mp hk
    · have := inv.next_le; simp only [List.length_append, List.length_cons, List.length_nil]; omega
    · simp only [List.map_append, List.map_cons, List.map_nil, hl, Option.getD_some]
      rw [inv.out]
  | none =>
    rw [encodeStep_new c uuid st r hl]
    have hk : c.strip r.1 ∉ st.mapper.map (·.1) := (lookupHdr_none_iff _ _).mp hl
    refine ⟨?_, ?_, ?_, ?_, ?_, ?_⟩
    · simp only [List.map_append, List.map_cons, List.map_nil]
      refine List.nodup_append.mpr ⟨inv.keys_nodup, by simp, ?_⟩
      intro a ha b hb
      simp only [List.mem_singleton] at hb
      subst hb
      intro e; subst e; exact hk ha
    · intro h
      simp only [List.map_append, List.map_cons, List.map_nil, List.mem_append, List.mem_singleton]
      rw [inv.keys h]
    · simp only [List.map_append, List.map_cons, List.map_nil, inv.ids, List.range_succ]
    · simp only [List.map_append, List.map_cons, List.map_nil, inv.dict]
    · have := inv.next_le; simp only [List.length_append, List.length_cons, List.length_nil]; omega
    · simp only [List.map_append, List.map_cons, List.map_nil]
      rw [lookupHdr_append_new _ _ _ hl, inv.out]
      simp only [Option.getD_some, List.append_cancel_right_eq]
      apply List.map_congr_left
      intro r0 hr0
      have : c.strip r0.1 ∈ st.mapper.map (·.1) :=
        (inv.keys _).mpr (List.mem_map.mpr ⟨r0, hr0, rfl⟩)
      rw [lookupHdr_append_left _ _ _ this]

theorem encInv_foldl (c : DecoyCfg) (uuid : Nat → List Char) :
    ∀ (recs recs0 : List (List Char × Pep)) (st : EncState), EncInv c uuid recs0 st →
      EncInv c uuid (recs0 ++ recs) (recs.foldl (encodeStep c uuid) st) := by
  intro recs
  induction recs with
  | nil => intro recs0 st inv; simpa using inv
  | cons r rs ih =>
    intro recs0 st inv
    have := ih (recs0 ++ [r]) _ (encInv_step c uuid recs0 st r inv)
    simpa [List.append_assoc] using this

/-- the invariant holds after any list of records -/
theorem encode_inv (c : DecoyCfg) (uuid : Nat → List Char) (recs : List (List Char × Pep)) :
    EncInv c uuid recs (encode c uuid recs) := by
  have := encInv_foldl c uuid recs [] {} (encInv_init c uuid)
  simpa [encode] using this

/-! ### round trip -/

/-- decoding one written record, from the invariant.  `Hw`, `Hr`: the decoy mark is recognised
on a marked identifier / re-attached to a stripped header (true for a non-empty decoy string
and for the empty prefix); `Hu`: the identifiers in use carry no decoy mark (only needed when
some record is not a decoy). -/
theorem decode_of_inv (c : DecoyCfg) (uuid : Nat → List Char) (recs : List (List Char × Pep))
    (st : EncState) (inv : EncInv c uuid recs st)
    (hinj : ((List.range recs.length).map uuid).Nodup)
    (Hw : ∀ i : List Char, c.isDecoy (c.wrap i) = true ∧ c.real (c.wrap i) = i)
    (Hr : ∀ h : List Char, c.isDecoy h = true → c.wrap (c.real h) = h)
    (Hu : ∀ r ∈ recs, c.isDecoy r.1 = false → ∀ k, k < recs.length → c.isDecoy (uuid k) = false)
    (r : List Char × Pep) (hr : r ∈ recs) :
    decode c st.dict (c.mark r.1 ((lookupHdr st.mapper (c.strip r.1)).getD [])) = some r.1 := by
  have hk : c.strip r.1 ∈ st.mapper.map (·.1) := (inv.keys _).mpr (List.mem_map.mpr ⟨r, hr, rfl⟩)
  cases hl : lookupHdr st.mapper (c.strip r.1) with
  | none => exact absurd hk ((lookupHdr_none_iff _ _).mp hl)
  | some i =>
    have hmem := lookupHdr_some_mem _ _ _ hl
    have hidn : (st.mapper.map (·.2)).Nodup := by
      rw [inv.ids]
      have hsub : (List.range st.next).Sublist (List.range recs.length) :=
        List.range_sublist.mpr inv.next_le
      exact (hsub.map uuid).nodup hinj
    have hd : lookupHdr st.dict i = some (c.strip r.1) := by
      rw [inv.dict]; exact lookup_swap _ _ _ hidn hmem
    simp only [Option.getD_some]
    unfold DecoyCfg.mark decode
    cases hdec : c.isDecoy r.1 with
    | true =>
      simp only [if_true, (Hw i).1, (Hw i).2, hd, Option.map_some]
      unfold DecoyCfg.strip
      simp only [hdec, if_true, Hr r.1 hdec]
    | false =>
      have hi : i ∈ (List.range st.next).map uuid := by
        rw [← inv.ids]; exact List.mem_map.mpr ⟨_, hmem, rfl⟩
      obtain ⟨k, hk', rfl⟩ := List.mem_map.mp hi
      have hk'' : k < recs.length := by
        have := List.mem_range.mp hk'; have := inv.next_le; omega
      have hu := Hu r hr hdec k hk''
      simp only [Bool.false_eq_true, if_false, hu, hd]
      unfold DecoyCfg.strip
      simp [hdec]

theorem decoy_marks_nonempty (c : DecoyCfg) (hne : c.str ≠ []) :
    (∀ i : List Char, c.isDecoy (c.wrap i) = true ∧ c.real (c.wrap i) = i) ∧
    (∀ h : List Char, c.isDecoy h = true → c.wrap (c.real h) = h) := by
  have hlen : c.str.length ≠ 0 := by
    intro h; exact hne (List.length_eq_zero_iff.mp h)
  have isPrefixOf_append : ∀ (p t : List Char), p.isPrefixOf (p ++ t) = true := by
    intro p t
    induction p with
    | nil => simp
    | cons a as ih => simp [ih]
  constructor
  · intro i
    unfold DecoyCfg.isDecoy DecoyCfg.real DecoyCfg.wrap
    cases hp : c.prefixPos with
    | true => simp [isPrefixOf_append]
    | false =>
      have h0 : (c.str.length == 0) = false := by simpa using hlen
      simp only [Bool.false_eq_true, if_false, h0, List.reverse_append, isPrefixOf_append,
        List.length_append, Nat.add_sub_cancel, List.take_left', true_and]
  · intro h hd
    unfold DecoyCfg.isDecoy at hd
    unfold DecoyCfg.real DecoyCfg.wrap
    cases hp : c.prefixPos with
    | true =>
      simp only [hp, if_true] at hd ⊢
      obtain ⟨t, rfl⟩ := List.isPrefixOf_iff_prefix.mp hd
      simp
    | false =>
      have h0 : (c.str.length == 0) = false := by simpa using hlen
      simp only [hp, Bool.false_eq_true, if_false, h0] at hd ⊢
      obtain ⟨t, ht⟩ := List.isPrefixOf_iff_prefix.mp hd
      have : h = t.reverse ++ c.str := by
        have := congrArg List.reverse ht
        simpa using this.symm
      subst this
      simp

theorem decoy_marks_empty_prefix (c : DecoyCfg) (he : c.str = []) (hp : c.prefixPos = true) :
    (∀ i : List Char, c.isDecoy (c.wrap i) = true ∧ c.real (c.wrap i) = i) ∧
    (∀ h : List Char, c.isDecoy h = true → c.wrap (c.real h) = h) ∧
    (∀ h : List Char, c.isDecoy h = true) := by
  unfold DecoyCfg.isDecoy DecoyCfg.real DecoyCfg.wrap
  simp [he, hp]

end MoPepGen
