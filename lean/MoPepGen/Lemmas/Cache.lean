import MoPepGen.Model.Cache
/-! Invariant of the pointer-dictionary cache. -/
namespace MoPepGen
variable {K V : Type}

/-- cache invariant: the deque has no duplicates, holds exactly the keys of the dict, is not
longer than the bound, and every cached value is what `load` returns for its key -/
structure CacheInv (size : Nat) (load : K → Option V) (c : CacheState K V) : Prop where
  nodup : c.keys.Nodup
  keys_iff : ∀ k, k ∈ c.keys ↔ (c.map k).isSome = true
  bound : c.keys.length ≤ size
  vals : ∀ k v, c.map k = some v → load k = some v

theorem CacheInv.empty (size : Nat) (load : K → Option V) :
    CacheInv size load (CacheState.empty : CacheState K V) :=
  ⟨List.nodup_nil, by simp [CacheState.empty], by simp [CacheState.empty],
   by simp [CacheState.empty]⟩

variable [DecidableEq K]

theorem exists_concat_of_ne_nil {α : Type} {l : List α} (h : l ≠ []) :
    ∃ init x, l = init ++ [x] :=
  ⟨l.dropLast, l.getLast h, (List.dropLast_concat_getLast h).symm⟩

/-- insertion of a fresh key `k` into a full or non-full cache keeps the invariant -/
theorem CacheInv.insert {size : Nat} {load : K → Option V} {c : CacheState K V}
    (hs : 1 ≤ size) (hi : CacheInv size load c) {k : K} {v : V}
    (hmiss : c.map k = none) (hl : load k = some v) :
    (c.get size load k).2 = .ok v ∧ CacheInv size load (c.get size load k).1 := by
  have hk : k ∉ c.keys := by
    intro h; have := (hi.keys_iff k).mp h; rw [hmiss] at this; cases this
  unfold CacheState.get
  rw [hmiss]; simp only
  by_cases hfull : (k :: c.keys).length > size
  · rw [if_pos hfull]
    have hne : c.keys ≠ [] := by
      intro h; rw [h] at hfull; simp at hfull; omega
    obtain ⟨init, kp, hkeys⟩ := exists_concat_of_ne_nil hne
    have hlast : (k :: c.keys).getLast? = some kp := by
      rw [hkeys, ← List.cons_append, List.getLast?_concat]
    have hdrop : (k :: c.keys).dropLast = k :: init := by
      rw [hkeys, ← List.cons_append, List.dropLast_concat]
    have hkpmem : kp ∈ c.keys := by rw [hkeys]; simp
    have hkpsome := (hi.keys_iff kp).mp hkpmem
    have hnd := hi.nodup
    rw [hkeys] at hnd
    have hkpinit : kp ∉ init := by
      intro h
      have := List.nodup_append.mp hnd
      exact this.2.2 kp h kp (by simp) rfl
    have hndinit : init.Nodup := (List.nodup_append.mp hnd).1
    have hkinit : k ∉ init := fun h => hk (by rw [hkeys]; simp [h])
    have hkkp : kp ≠ k := fun h => hk (h ▸ hkpmem)
    rw [hlast]; simp only
    cases hmkp : c.map kp with
    | none => rw [hmkp] at hkpsome; cases hkpsome
    | some vp =>
      simp only [hl, hdrop]
      refine ⟨trivial, ⟨?_, ?_, ?_, ?_⟩⟩
      · exact List.nodup_cons.mpr ⟨hkinit, hndinit⟩
      · intro x
        simp only [mapSet, List.mem_cons]
        by_cases hxk : x = k
        · simp [hxk]
        · by_cases hxkp : x = kp
          · subst hxkp; simp [hxk, hkpinit]
          · simp only [hxk, hxkp, if_false, false_or]
            rw [← hi.keys_iff x, hkeys]; simp [hxkp]
      · have := hi.bound; rw [hkeys] at this; simp at this ⊢; omega
      · intro x w
        simp only [mapSet]
        by_cases hxk : x = k
        · simp only [hxk, if_true, Option.some.injEq]; intro h; rw [← h]; exact hl
        · by_cases hxkp : x = kp
          · simp [hxkp, hkkp]
          · simp only [hxk, hxkp, if_false]; exact hi.vals x w
  · rw [if_neg hfull]
    simp only [hl]
    refine ⟨trivial, ⟨?_, ?_, ?_, ?_⟩⟩
    · exact List.nodup_cons.mpr ⟨hk, hi.nodup⟩
    · intro x
      simp only [mapSet, List.mem_cons]
      by_cases hxk : x = k
      · simp [hxk]
      · simp only [hxk, if_false, false_or]; exact hi.keys_iff x
    · simp at hfull ⊢; omega
    · intro x w
      simp only [mapSet]
      by_cases hxk : x = k
      · simp only [hxk, if_true, Option.some.injEq]; intro h; rw [← h]; exact hl
      · simp only [hxk, if_false]; exact hi.vals x w

/-- one access with a loadable key: returns `load k` and keeps the invariant -/
theorem CacheInv.get_ok {size : Nat} {load : K → Option V} {c : CacheState K V}
    (hs : 1 ≤ size) (hi : CacheInv size load c) {k : K} {v : V} (hl : load k = some v) :
    (c.get size load k).2 = .ok v ∧ CacheInv size load (c.get size load k).1 := by
  cases hm : c.map k with
  | some w =>
    have := hi.vals k w hm
    rw [hl] at this; cases this
    unfold CacheState.get; rw [hm]; exact ⟨rfl, hi⟩
  | none => exact hi.insert hs hm hl

/-- under the invariant, the repaired access order behaves like the original one on
loadable keys -/
theorem CacheInv.getFixed_eq_get {size : Nat} {load : K → Option V} {c : CacheState K V}
    (hs : 1 ≤ size) (hi : CacheInv size load c) {k : K} {v : V} (hl : load k = some v) :
    c.getFixed size load k = c.get size load k := by
  unfold CacheState.getFixed CacheState.get
  cases hm : c.map k with
  | some w => rfl
  | none =>
    simp only [hl]
    by_cases hfull : (k :: c.keys).length > size
    · rw [if_pos hfull, if_pos hfull]
      have hne : c.keys ≠ [] := by
        intro h; rw [h] at hfull; simp at hfull; omega
      obtain ⟨init, kp, hkeys⟩ := exists_concat_of_ne_nil hne
      have hlast : (k :: c.keys).getLast? = some kp := by
        rw [hkeys, ← List.cons_append, List.getLast?_concat]
      have hkpmem : kp ∈ c.keys := by rw [hkeys]; simp
      have hkpsome := (hi.keys_iff kp).mp hkpmem
      rw [hlast]; simp only
      cases hmkp : c.map kp with
      | none => rw [hmkp] at hkpsome; cases hkpsome
      | some vp => rfl
    · rw [if_neg hfull, if_neg hfull]

/-- the result every access should produce -/
def cacheExpected (load : K → Option V) (k : K) : CacheRes V :=
  match load k with
  | some v => .ok v
  | none => .loadError

theorem CacheInv.getFixed_spec {size : Nat} {load : K → Option V} {c : CacheState K V}
    (hs : 1 ≤ size) (hi : CacheInv size load c) (k : K) :
    (c.getFixed size load k).2 = cacheExpected load k ∧
      CacheInv size load (c.getFixed size load k).1 := by
  cases hl : load k with
  | some v =>
    rw [hi.getFixed_eq_get hs hl]
    have := hi.get_ok hs hl
    simpa [cacheExpected, hl] using this
  | none =>
    unfold CacheState.getFixed
    cases hm : c.map k with
    | some w => have := hi.vals k w hm; rw [hl] at this; cases this
    | none => simp only [hl, cacheExpected]; exact ⟨trivial, hi⟩

end MoPepGen
