/-
`sorted(variants)` in `create_variant_graph` (`Model/Tvg.lean`: `pySorted`, CPython's `list.sort`
for fewer than 64 elements = one `count_run` + `binarysort`) returns the records in ascending
order of their start: for any comparison `lt` that agrees with a key (`lt a b → key a ≤ key b`,
`¬ lt a b → key b ≤ key a`), the result is ascending in the key.  `VariantRecord.__lt__` agrees
with `location.start`.
-/
import MoPepGen.Model.Tvg
import MoPepGen.Lemmas.Tvg
namespace MoPepGen.Tvg
open MoPepGen MoPepGen.Spec

/-- ascending in the key (weakly) -/
def AscBy {α : Type} (K : α → Nat) (l : List α) : Prop := l.Pairwise fun a b => K a ≤ K b

/-- the comparison agrees with the key -/
def LtAgrees {α : Type} (lt : α → α → Bool) (K : α → Nat) : Prop :=
  ∀ a b, (lt a b = true → K a ≤ K b) ∧ (lt a b = false → K b ≤ K a)

theorem ascBy_split {α : Type} {K : α → Nat} {a : List α} (h : AscBy K a) (p : Nat) (hp : p < a.length) :
    (∀ x ∈ a.take (p + 1), K x ≤ K a[p]) ∧ (∀ x ∈ a.drop p, K a[p] ≤ K x) := by
  have e : a = a.take p ++ a[p] :: a.drop (p + 1) := by
    rw [← List.drop_eq_getElem_cons hp, List.take_append_drop]
  have h' : AscBy K (a.take p ++ a[p] :: a.drop (p + 1)) := by rw [← e]; exact h
  simp only [AscBy, List.pairwise_append, List.pairwise_cons] at h'
  obtain ⟨_, ⟨h2, _⟩, h3⟩ := h'
  constructor
  · intro x hx
    rw [List.take_succ_eq_append_getElem hp] at hx
    rcases List.mem_append.mp hx with hx | hx
    · exact h3 x hx a[p] (List.mem_cons.mpr (Or.inl rfl))
    · simp only [List.mem_singleton] at hx; subst hx; exact Nat.le_refl _
  · intro x hx
    rw [List.drop_eq_getElem_cons hp] at hx
    rcases List.mem_cons.mp hx with rfl | hx
    · exact Nat.le_refl _
    · exact h2 x hx

/-- the binary search of `binarysort` on an ascending list: everything before the returned
position is `≤ pivot`, everything from it on is `≥ pivot` -/
theorem bisect_spec {α : Type} [Inhabited α] {lt : α → α → Bool} {K : α → Nat} (hlt : LtAgrees lt K)
    (pivot : α) {a : List α} (ha : AscBy K a) :
    ∀ (fuel l r : Nat), l ≤ r → r ≤ a.length → r - l ≤ fuel →
      (∀ x ∈ a.take l, K x ≤ K pivot) → (∀ x ∈ a.drop r, K pivot ≤ K x) →
      (∀ x ∈ a.take (bisect lt pivot a fuel l r), K x ≤ K pivot) ∧
        (∀ x ∈ a.drop (bisect lt pivot a fuel l r), K pivot ≤ K x) := by
  intro fuel
  induction fuel with
  | zero =>
    intro l r hlr _ hf h1 h2
    have : l = r := by omega
    subst this
    exact ⟨h1, h2⟩
  | succ n ih =>
    intro l r hlr hr hf h1 h2
    simp only [bisect]
    split
    · rename_i hl
      have hp : l + (r - l) / 2 < a.length := by omega
      have hget : a.getD (l + (r - l) / 2) default = a[l + (r - l) / 2] := by
        simp [List.getD_eq_getElem?_getD, List.getElem?_eq_getElem hp]
      obtain ⟨s1, s2⟩ := ascBy_split ha _ hp
      rw [hget]
      split
      · rename_i hc
        have hk := (hlt pivot a[l + (r - l) / 2]).1 hc
        apply ih l (l + (r - l) / 2) (by omega) (by omega) (by omega) h1
        intro x hx
        exact Nat.le_trans hk (s2 x hx)
      · rename_i hc
        have hk := (hlt pivot a[l + (r - l) / 2]).2 (by simpa using hc)
        apply ih (l + (r - l) / 2 + 1) r (by omega) hr (by omega) _ h2
        intro x hx
        exact Nat.le_trans (s1 x hx) hk
    · rename_i hl
      have : l = r := by omega
      subst this
      exact ⟨h1, h2⟩

theorem binInsertAll_asc {α : Type} [Inhabited α] {lt : α → α → Bool} {K : α → Nat}
    (hlt : LtAgrees lt K) :
    ∀ (rest sorted : List α), AscBy K sorted → AscBy K (binInsertAll lt sorted rest) := by
  intro rest
  induction rest with
  | nil => intro sorted h; exact h
  | cons pivot rest ih =>
    intro sorted h
    simp only [binInsertAll]
    apply ih
    obtain ⟨b1, b2⟩ := bisect_spec hlt pivot h (sorted.length + 1) 0 sorted.length (by omega)
      (Nat.le_refl _) (by omega) (by simp) (by simp)
    generalize bisect lt pivot sorted (sorted.length + 1) 0 sorted.length = p at b1 b2
    have e : sorted = sorted.take p ++ sorted.drop p := (List.take_append_drop p sorted).symm
    have h' : AscBy K (sorted.take p ++ sorted.drop p) := by rw [← e]; exact h
    simp only [AscBy, List.pairwise_append, List.pairwise_cons] at h' ⊢
    obtain ⟨h1, h2, h3⟩ := h'
    refine ⟨h1, ⟨b2, h2⟩, ?_⟩
    intro x hx y hy
    rcases List.mem_cons.mp hy with rfl | hy
    · exact b1 x hx
    · exact h3 x hx y hy

/-- the leading run that `count_run` finds is a chain of the relation the test implies -/
theorem run_pairwise {α : Type} {p : α → α → Bool} {R : α → α → Prop}
    (hp : ∀ a b, p a b = true → R a b) (htr : ∀ a b c, R a b → R b c → R a c) :
    ∀ (l : List α) (x : α), ((x :: l).take (1 + runMore p x l)).Pairwise R := by
  intro l
  induction l with
  | nil => intro x; simp [runMore]
  | cons z l ih =>
    intro x
    simp only [runMore]
    split
    · rename_i hxz
      have e : 1 + (runMore p z l + 1) = (1 + runMore p z l) + 1 := by omega
      rw [e, List.take_succ_cons]
      have hz := ih z
      refine List.pairwise_cons.mpr ⟨?_, hz⟩
      intro y hy
      have e2 : 1 + runMore p z l = runMore p z l + 1 := by omega
      rw [e2, List.take_succ_cons] at hy hz
      rcases List.mem_cons.mp hy with rfl | hy
      · exact hp _ _ hxz
      · exact htr _ _ _ (hp _ _ hxz) ((List.pairwise_cons.mp hz).1 y hy)
    · simp

/-- **`sorted` returns an ascending list** (in any key the comparison agrees with) -/
theorem pySorted_asc {α : Type} [Inhabited α] {lt : α → α → Bool} {K : α → Nat}
    (hlt : LtAgrees lt K) {xs out : List α} (h : pySorted lt xs = .ok out) : AscBy K out := by
  unfold pySorted at h
  split at h
  · cases h; exact List.Pairwise.nil
  · cases h; simp [AscBy]
  · rename_i x y rest
    split at h
    · cases h
    · simp only [Except.ok.injEq] at h
      subst h
      apply binInsertAll_asc hlt
      cases hd : lt y x
      · simp only [Bool.false_eq_true, if_false]
        exact run_pairwise (R := fun a b => K a ≤ K b)
          (fun a b hab => (hlt b a).2 (by simpa using hab))
          (fun a b c h1 h2 => Nat.le_trans h1 h2) (y :: rest) x
      · -- strictly descending run, reversed
        simp only [if_true]
        simp only [AscBy, List.pairwise_reverse]
        exact run_pairwise (R := fun a b => K b ≤ K a) (fun a b hab => ((hlt b a).1 hab))
          (fun a b c h1 h2 => Nat.le_trans h2 h1) (y :: rest) x

/-- `VariantRecord.__lt__` agrees with `location.start` -/
theorem recLt_agrees : LtAgrees recLt (·.start) := by
  intro a b
  simp only [recLt, recEq, recGt, locGt, locEq, Bool.not_eq_true', Bool.or_eq_false_iff,
    Bool.and_eq_false_iff, Bool.not_eq_false', Bool.or_eq_true, Bool.and_eq_true,
    decide_eq_true_eq, decide_eq_false_iff_not, beq_iff_eq, beq_eq_false_iff_ne]
  constructor
  · rintro ⟨_, h, _⟩
    omega
  · rintro (⟨⟨⟨⟨h, _⟩, _⟩, _⟩, _⟩ | (h | h) | ⟨⟨h, _⟩, _⟩) <;> omega

end MoPepGen.Tvg
