import MoPepGen.Lemmas.Spec
/-! Monotonicity lemmas of the definitional layer in the cleavage settings. -/
namespace MoPepGen.Spec

/-- `c'` is at least as permissive as `c` in the miscleavage limit, same rule -/
structure MiscLe (c c' : CleaveCfg) : Prop where
  rule : c'.rule = c.rule
  exc : c'.exc = c.exc
  misc : c.misc ≤ c'.misc

theorem mem_rawProducts (c : CleaveCfg) (prot : Pep) (nf dropOpen : Bool) (p : Pep) :
    p ∈ rawProducts c prot nf dropOpen ↔
      ∃ st k, st < (bounds (cleaveSites c.rule c.exc prot) prot.length).length - 1 ∧
        k < min (c.misc + 1) ((bounds (cleaveSites c.rule c.exc prot) prot.length).length - (st + 1)) ∧
        ¬ (dropOpen = true ∧
            (bounds (cleaveSites c.rule c.exc prot) prot.length).getD (st + 1 + k) 0 = prot.length ∧
            prot.length ∉ cleaveSites c.rule c.exc prot) ∧
        (p = slice prot ((bounds (cleaveSites c.rule c.exc prot) prot.length).getD st 0)
              ((bounds (cleaveSites c.rule c.exc prot) prot.length).getD (st + 1 + k) 0) ∨
         (st = 0 ∧ nf = false ∧
          (slice prot ((bounds (cleaveSites c.rule c.exc prot) prot.length).getD st 0)
              ((bounds (cleaveSites c.rule c.exc prot) prot.length).getD (st + 1 + k) 0)).head? = some 'M' ∧
          p = (slice prot ((bounds (cleaveSites c.rule c.exc prot) prot.length).getD st 0)
              ((bounds (cleaveSites c.rule c.exc prot) prot.length).getD (st + 1 + k) 0)).drop 1)) := by
  simp only [rawProducts, List.mem_flatMap, List.mem_range]
  constructor
  · rintro ⟨st, hst, k, hk, hp⟩
    refine ⟨st, k, hst, hk, ?_⟩
    split at hp
    · cases hp
    · rename_i hc
      refine ⟨?_, ?_⟩
      · intro ⟨h1, h2, h3⟩
        apply hc
        rw [h1, h2]
        simp [h3]
      · simp only [List.mem_append, List.mem_singleton] at hp
        rcases hp with hp | hp
        · right
          split at hp
          · rename_i hm
            simp only [Bool.and_eq_true, beq_iff_eq, Bool.not_eq_true'] at hm
            simp only [List.mem_singleton] at hp
            exact ⟨hm.1.1, hm.1.2, hm.2, hp⟩
          · cases hp
        · left; exact hp
  · rintro ⟨st, k, hst, hk, hd, hp⟩
    refine ⟨st, hst, k, hk, ?_⟩
    have hc : ¬ ((dropOpen && (bounds (cleaveSites c.rule c.exc prot) prot.length).getD (st + 1 + k) 0
        == prot.length && !(cleaveSites c.rule c.exc prot).contains prot.length) = true) := by
      intro h
      simp only [Bool.and_eq_true, beq_iff_eq, Bool.not_eq_true', List.contains_eq_mem,
        decide_eq_false_iff_not] at h
      exact hd ⟨h.1.1, h.1.2, h.2⟩
    rw [if_neg hc]
    simp only [List.mem_append, List.mem_singleton]
    rcases hp with hp | ⟨h0, hnf, hM, hp⟩
    · right; exact hp
    · left
      subst h0 hnf
      simp only [hM, hp, beq_self_eq_true, Bool.not_false, Bool.and_self, if_true,
        List.mem_singleton]

/-- more allowed miscleavages only add raw products -/
theorem rawProducts_mono_misc {c c' : CleaveCfg} (h : MiscLe c c') (prot : Pep) (nf d : Bool)
    (p : Pep) (hp : p ∈ rawProducts c prot nf d) : p ∈ rawProducts c' prot nf d := by
  rw [mem_rawProducts] at hp ⊢
  obtain ⟨st, k, h1, h2, h3, h4⟩ := hp
  rw [h.rule, h.exc]
  refine ⟨st, k, h1, ?_, h3, h4⟩
  have := h.misc
  omega

/-- the digest of the definition is C10's proved digest (before the validity filter) -/
theorem rawProducts_eq_candidates (c : CleaveCfg) (prot : Pep) (nf : Bool) :
    rawProducts c prot nf false =
      cleaveCandidates prot (bounds (cleaveSites c.rule c.exc prot) prot.length) c.misc nf := by
  simp [rawProducts, cleaveCandidates]

end MoPepGen.Spec
