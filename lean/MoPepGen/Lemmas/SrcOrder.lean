import MoPepGen.Lemmas.Split
/-! Helper lemmas for C18 `source_order_total`: source sets as lists up to `sameSet`,
`to_int` is well defined and injective on sets, the sort is independent of the input order. -/
namespace MoPepGen

/-! ### `sameSet` is an equivalence -/

theorem subsetB_iff (a b : SrcSet) : subsetB a b = true ↔ ∀ x ∈ a, x ∈ b := by
  simp [subsetB, List.all_eq_true]

theorem sameSet_iff (a b : SrcSet) : sameSet a b = true ↔ ∀ x, x ∈ a ↔ x ∈ b := by
  simp only [sameSet, Bool.and_eq_true, subsetB_iff]
  constructor
  · rintro ⟨h1, h2⟩ x; exact ⟨h1 x, h2 x⟩
  · intro h; exact ⟨fun x => (h x).mp, fun x => (h x).mpr⟩

theorem sameSet_refl (a : SrcSet) : sameSet a a = true := (sameSet_iff a a).mpr fun _ => Iff.rfl

theorem sameSet_symm {a b : SrcSet} (h : sameSet a b = true) : sameSet b a = true :=
  (sameSet_iff b a).mpr fun x => ((sameSet_iff a b).mp h x).symm

theorem sameSet_trans {a b c : SrcSet} (h1 : sameSet a b = true) (h2 : sameSet b c = true) :
    sameSet a c = true :=
  (sameSet_iff a c).mpr fun x => ((sameSet_iff a b).mp h1 x).trans ((sameSet_iff b c).mp h2 x)

theorem sameSet_comm (a b : SrcSet) : sameSet a b = sameSet b a := by
  cases h : sameSet a b with
  | true => exact (sameSet_symm h).symm
  | false =>
    cases h' : sameSet b a with
    | false => rfl
    | true => rw [sameSet_symm h'] at h; cases h

/-- `sameSet · c` only depends on the set -/
theorem sameSet_congr_left {a b : SrcSet} (h : sameSet a b = true) (c : SrcSet) :
    sameSet a c = sameSet b c := by
  cases h1 : sameSet b c with
  | true => exact sameSet_trans h h1
  | false =>
    cases h2 : sameSet a c with
    | false => rfl
    | true => rw [sameSet_trans (sameSet_symm h) h2] at h1; cases h1

theorem sameSet_congr_right {a b : SrcSet} (h : sameSet a b = true) (c : SrcSet) :
    sameSet c a = sameSet c b := by
  rw [sameSet_comm c a, sameSet_comm c b]; exact sameSet_congr_left h c

/-- a permutation (and any re-ordering / repetition) is the same set -/
theorem sameSet_of_perm {a b : SrcSet} (h : a.Perm b) : sameSet a b = true :=
  (sameSet_iff a b).mpr fun _ => h.mem_iff

theorem sameSet_length {a b : SrcSet} (h : sameSet a b = true) (ha : a.Nodup) (hb : b.Nodup) :
    a.length = b.length := by
  have hp : a.Perm b := (List.perm_ext_iff_of_nodup ha hb).mpr ((sameSet_iff a b).mp h)
  exact hp.length_eq

theorem OKey.same_many_congr {a b : SrcSet} (h : sameSet a b = true) (k : OKey) :
    k.same (.many a) = k.same (.many b) := by
  cases k with
  | one x => rfl
  | many s => exact sameSet_congr_right h s

/-! ### `sortDedup` -/

theorem mem_insertSorted (x y : Nat) (l : List Nat) : y ∈ insertSorted x l ↔ y = x ∨ y ∈ l := by
  induction l with
  | nil => simp [insertSorted]
  | cons z zs ih =>
    unfold insertSorted
    by_cases h1 : x < z
    · simp [h1]
    · by_cases h2 : x = z
      · subst h2; simp
      · have : (x == z) = false := by simpa using h2
        simp only [h1, if_false, this, Bool.false_eq_true, List.mem_cons, ih]
        constructor
        · rintro (e | e | e)
          · exact Or.inr (Or.inl e)
          · exact Or.inl e
          · exact Or.inr (Or.inr e)
        · rintro (e | e | e)
          · exact Or.inr (Or.inl e)
          · exact Or.inl e
          · exact Or.inr (Or.inr e)

theorem mem_sortDedup (y : Nat) (l : List Nat) : y ∈ sortDedup l ↔ y ∈ l := by
  induction l with
  | nil => simp [sortDedup]
  | cons x xs ih =>
    show y ∈ insertSorted x (sortDedup xs) ↔ _
    rw [mem_insertSorted, ih]; simp

theorem insertSorted_sorted (x : Nat) (l : List Nat) (h : l.Pairwise (· < ·)) :
    (insertSorted x l).Pairwise (· < ·) := by
  induction l with
  | nil => simp [insertSorted]
  | cons z zs ih =>
    unfold insertSorted
    have hz := List.pairwise_cons.mp h
    by_cases h1 : x < z
    · simp only [h1, if_true]
      refine List.pairwise_cons.mpr ⟨?_, h⟩
      intro a ha
      rcases List.mem_cons.mp ha with rfl | ha
      · exact h1
      · exact Nat.lt_trans h1 (hz.1 a ha)
    · by_cases h2 : x = z
      · subst h2; simpa using h
      · have : (x == z) = false := by simpa using h2
        simp only [h1, if_false, this, Bool.false_eq_true]
        refine List.pairwise_cons.mpr ⟨?_, ih hz.2⟩
        intro a ha
        rcases (mem_insertSorted x a zs).mp ha with rfl | ha
        · omega
        · exact hz.1 a ha

theorem sortDedup_sorted (l : List Nat) : (sortDedup l).Pairwise (· < ·) := by
  induction l with
  | nil => simp [sortDedup]
  | cons x xs ih => exact insertSorted_sorted x _ ih

/-- a strictly increasing list is determined by its members -/
theorem sorted_nat_ext : ∀ (l1 l2 : List Nat), l1.Pairwise (· < ·) → l2.Pairwise (· < ·) →
    (∀ x, x ∈ l1 ↔ x ∈ l2) → l1 = l2 := by
  intro l1
  induction l1 with
  | nil =>
    intro l2 _ _ h
    cases l2 with
    | nil => rfl
    | cons b bs => exact absurd ((h b).mpr List.mem_cons_self) (by simp)
  | cons a as ih =>
    intro l2 h1 h2 h
    cases l2 with
    | nil => exact absurd ((h a).mp List.mem_cons_self) (by simp)
    | cons b bs =>
      have p1 := List.pairwise_cons.mp h1
      have p2 := List.pairwise_cons.mp h2
      have hab : a = b := by
        rcases List.mem_cons.mp ((h a).mp List.mem_cons_self) with e | e
        · exact e
        · rcases List.mem_cons.mp ((h b).mpr List.mem_cons_self) with e' | e'
          · exact e'.symm
          · have := p1.1 b e'; have := p2.1 a e; omega
      subst hab
      congr 1
      apply ih bs p1.2 p2.2
      intro x
      constructor
      · intro hx
        rcases List.mem_cons.mp ((h x).mp (List.mem_cons_of_mem _ hx)) with e | e
        · have := p1.1 x hx; omega
        · exact e
      · intro hx
        rcases List.mem_cons.mp ((h x).mpr (List.mem_cons_of_mem _ hx)) with e | e
        · have := p2.1 x hx; omega
        · exact e

theorem sortDedup_ext (l1 l2 : List Nat) (h : ∀ x, x ∈ l1 ↔ x ∈ l2) :
    sortDedup l1 = sortDedup l2 :=
  sorted_nat_ext _ _ (sortDedup_sorted l1) (sortDedup_sorted l2) fun x => by
    rw [mem_sortDedup, mem_sortDedup]; exact h x

/-! ### `mapM` in `Option` -/

theorem mapM_eq_some_iff {α β} (f : α → Option β) : ∀ (s : List α) (ls : List β),
    s.mapM f = some ls ↔ s.map f = ls.map some := by
  intro s
  induction s with
  | nil => intro ls; cases ls <;> simp
  | cons x xs ih =>
    intro ls
    rw [List.mapM_cons]
    cases hx : f x with
    | none => cases ls <;> simp [hx]
    | some y =>
      cases hxs : xs.mapM f with
      | none =>
        cases ls with
        | nil => simp
        | cons l ls' =>
          have hn : ¬ (xs.map f = ls'.map some) := fun h => by
            have := (ih ls').mpr h; rw [hxs] at this; cases this
          simp only [bind, Option.bind, reduceCtorEq, List.map_cons, List.cons.injEq, false_iff]
          rintro ⟨_, h⟩; exact hn h
      | some ys =>
        have := (ih ys).mp hxs
        cases ls with
        | nil => simp
        | cons l ls' =>
          simp only [hx, List.map_cons, List.cons.injEq, Option.some.injEq]
          simp only [bind, Option.bind, pure, Option.some.injEq, List.cons.injEq]
          constructor
          · rintro ⟨rfl, rfl⟩; exact ⟨rfl, this⟩
          · rintro ⟨rfl, h⟩
            refine ⟨rfl, ?_⟩
            have := (ih ls').mpr h
            rw [hxs] at this; exact Option.some.inj this

theorem mapM_eq_none_iff {α β} (f : α → Option β) : ∀ (s : List α),
    s.mapM f = none ↔ ∃ x ∈ s, f x = none := by
  intro s
  induction s with
  | nil => simp
  | cons x xs ih =>
    rw [List.mapM_cons]
    cases hx : f x with
    | none => simp [hx]
    | some y =>
      cases hxs : xs.mapM f with
      | none =>
        obtain ⟨z, hz, hf⟩ := ih.mp hxs
        simp only [bind, Option.bind, List.mem_cons, true_iff]
        exact ⟨z, Or.inr hz, hf⟩
      | some ys =>
        have : ¬ ∃ z ∈ xs, f z = none := fun h => by rw [ih.mpr h] at hxs; cases hxs
        simp only [bind, Option.bind, pure, List.mem_cons, reduceCtorEq, false_iff]
        rintro ⟨z, rfl | hz, hf⟩
        · rw [hx] at hf; cases hf
        · exact this ⟨z, hz, hf⟩

theorem mapM_some_mem {α β} (f : α → Option β) (s : List α) (ls : List β) (h : s.mapM f = some ls)
    (y : β) : y ∈ ls ↔ ∃ x ∈ s, f x = some y := by
  have e := (mapM_eq_some_iff f s ls).mp h
  constructor
  · intro hy
    have : some y ∈ s.map f := by rw [e]; exact List.mem_map.mpr ⟨y, hy, rfl⟩
    obtain ⟨x, hx, hf⟩ := List.mem_map.mp this
    exact ⟨x, hx, hf⟩
  · rintro ⟨x, hx, hf⟩
    have : some y ∈ ls.map some := by rw [← e]; exact List.mem_map.mpr ⟨x, hx, hf⟩
    obtain ⟨y', hy', e'⟩ := List.mem_map.mp this
    cases e'; exact hy'

theorem mapM_some_all {α β} (f : α → Option β) (s : List α) (ls : List β) (h : s.mapM f = some ls)
    (x : α) (hx : x ∈ s) : ∃ y, f x = some y := by
  cases hf : f x with
  | some y => exact ⟨y, rfl⟩
  | none =>
    have := (mapM_eq_none_iff f s).mpr ⟨x, hx, hf⟩
    rw [this] at h; cases h

/-! ### `to_int` is a function of the set, and injective on sets when the levels are -/

theorem level?_many_congr (o : Order) {a b : SrcSet} (h : sameSet a b = true) :
    o.level? (.many a) = o.level? (.many b) := by
  unfold Order.level?
  have : (fun kv : OKey × Nat => kv.1.same (.many a)) = fun kv => kv.1.same (.many b) := by
    funext kv; exact OKey.same_many_congr h kv.1
  rw [this]

/-- **`to_int` does not depend on the order or multiplicity of the underlying collection** -/
theorem toInt_congr (o : Order) {a b : SrcSet} (h : sameSet a b = true) : toInt o a = toInt o b := by
  unfold toInt
  rw [level?_many_congr o h]
  cases o.level? (.many b) with
  | some n => rfl
  | none =>
    have hm := (sameSet_iff a b).mp h
    show Option.map sortDedup _ = Option.map sortDedup _
    cases ha : a.mapM fun x => o.level? (.one x) with
    | none =>
      obtain ⟨x, hx, hf⟩ := (mapM_eq_none_iff _ a).mp ha
      rw [(mapM_eq_none_iff _ b).mpr ⟨x, (hm x).mp hx, hf⟩]
    | some la =>
      cases hb : b.mapM fun x => o.level? (.one x) with
      | none =>
        obtain ⟨x, hx, hf⟩ := (mapM_eq_none_iff _ b).mp hb
        rw [(mapM_eq_none_iff _ a).mpr ⟨x, (hm x).mpr hx, hf⟩] at ha; cases ha
      | some lb =>
        simp only [Option.map_some, Option.some.injEq]
        apply sortDedup_ext
        intro n
        rw [mapM_some_mem _ a la ha, mapM_some_mem _ b lb hb]
        constructor
        · rintro ⟨x, hx, hf⟩; exact ⟨x, (hm x).mp hx, hf⟩
        · rintro ⟨x, hx, hf⟩; exact ⟨x, (hm x).mpr hx, hf⟩

theorem injOn_spec (o : Order) (ks : List OKey) (h : o.injOn ks = true) (k1 k2 : OKey)
    (h1 : k1 ∈ ks) (h2 : k2 ∈ ks) (n : Nat) (e1 : o.level? k1 = some n) (e2 : o.level? k2 = some n) :
    k1.same k2 = true := by
  unfold Order.injOn at h
  have := List.all_eq_true.mp (List.all_eq_true.mp h k1 h1) k2 h2
  simpa [e1, e2] using this

theorem mem_keysOf_many (sets : List SrcSet) (s : SrcSet) (h : s ∈ sets) : OKey.many s ∈ keysOf sets := by
  unfold keysOf
  exact List.mem_append_left _ (List.mem_map.mpr ⟨s, h, rfl⟩)

theorem mem_keysOf_one (sets : List SrcSet) (s : SrcSet) (h : s ∈ sets) (x : Src) (hx : x ∈ s) :
    OKey.one x ∈ keysOf sets := by
  unfold keysOf
  exact List.mem_append_right _ (List.mem_flatMap.mpr ⟨s, h, List.mem_map.mpr ⟨x, hx, rfl⟩⟩)

/-- the part of `toInt` that reads the levels of the elements -/
theorem toInt_elems (o : Order) (s : SrcSet) (l : List Nat) (hn : o.level? (.many s) = none)
    (h : toInt o s = some l) :
    ∃ ls, (s.mapM fun x => o.level? (.one x)) = some ls ∧ l = sortDedup ls := by
  unfold toInt at h
  rw [hn] at h
  cases hm : s.mapM fun x => o.level? (.one x) with
  | none => rw [hm] at h; cases h
  | some ls => rw [hm] at h; exact ⟨ls, rfl, (Option.some.inj h).symm⟩

/-- **`to_int` is injective on source sets** when the level map is injective on the keys the two
sets look up. -/
theorem toInt_inj (o : Order) (a b : SrcSet) (hinj : o.injOn (keysOf [a, b]) = true) (l : List Nat)
    (ha : toInt o a = some l) (hb : toInt o b = some l) : sameSet a b = true := by
  have inj := injOn_spec o _ hinj
  have ma : OKey.many a ∈ keysOf [a, b] := mem_keysOf_many _ a (by simp)
  have mb : OKey.many b ∈ keysOf [a, b] := mem_keysOf_many _ b (by simp)
  have oa : ∀ x ∈ a, OKey.one x ∈ keysOf [a, b] := fun x hx => mem_keysOf_one _ a (by simp) x hx
  have ob : ∀ x ∈ b, OKey.one x ∈ keysOf [a, b] := fun x hx => mem_keysOf_one _ b (by simp) x hx
  cases hma : o.level? (.many a) with
  | some n =>
    have ea : l = [n] := by unfold toInt at ha; rw [hma] at ha; exact (Option.some.inj ha).symm
    cases hmb : o.level? (.many b) with
    | some m =>
      have eb : l = [m] := by unfold toInt at hb; rw [hmb] at hb; exact (Option.some.inj hb).symm
      have : n = m := by rw [ea] at eb; simpa using eb
      subst this
      exact inj _ _ ma mb n hma hmb
    | none =>
      obtain ⟨lb, hlb, e⟩ := toInt_elems o b l hmb hb
      have : n ∈ lb := by
        rw [← mem_sortDedup, ← e, ea]; simp
      obtain ⟨x, hx, hf⟩ := (mapM_some_mem _ b lb hlb n).mp this
      have := inj _ _ ma (ob x hx) n hma hf
      simp [OKey.same] at this
  | none =>
    obtain ⟨la, hla, e⟩ := toInt_elems o a l hma ha
    cases hmb : o.level? (.many b) with
    | some m =>
      have eb : l = [m] := by unfold toInt at hb; rw [hmb] at hb; exact (Option.some.inj hb).symm
      have : m ∈ la := by
        rw [← mem_sortDedup, ← e, eb]; simp
      obtain ⟨x, hx, hf⟩ := (mapM_some_mem _ a la hla m).mp this
      have := inj _ _ mb (oa x hx) m hmb hf
      simp [OKey.same] at this
    | none =>
      obtain ⟨lb, hlb, e'⟩ := toInt_elems o b l hmb hb
      have key : ∀ (s t : SrcSet) (ls lt : List Nat),
          (s.mapM fun x => o.level? (.one x)) = some ls →
          (t.mapM fun x => o.level? (.one x)) = some lt → sortDedup ls = sortDedup lt →
          (∀ x ∈ s, OKey.one x ∈ keysOf [a, b]) → (∀ x ∈ t, OKey.one x ∈ keysOf [a, b]) →
          ∀ x ∈ s, x ∈ t := by
        intro s t ls lt hs ht hst os ot x hx
        obtain ⟨n, hn⟩ := mapM_some_all _ s ls hs x hx
        have h1 : n ∈ ls := (mapM_some_mem _ s ls hs n).mpr ⟨x, hx, hn⟩
        have h2 : n ∈ lt := by rw [← mem_sortDedup, ← hst, mem_sortDedup]; exact h1
        obtain ⟨y, hy, hf⟩ := (mapM_some_mem _ t lt ht n).mp h2
        have := inj _ _ (os x hx) (ot y hy) n hn hf
        simp only [OKey.same, beq_iff_eq] at this
        rw [this]; exact hy
      have hst : sortDedup la = sortDedup lb := by rw [← e, ← e']
      rw [sameSet_iff]
      intro x
      exact ⟨key a b la lb hla hlb hst oa ob x, key b a lb la hlb hla hst.symm ob oa x⟩

theorem injOn_mono (o : Order) (ks ks' : List OKey) (hsub : ∀ k ∈ ks', k ∈ ks)
    (h : o.injOn ks = true) : o.injOn ks' = true := by
  unfold Order.injOn at h ⊢
  rw [List.all_eq_true] at h ⊢
  intro k1 h1
  have := h k1 (hsub k1 h1)
  rw [List.all_eq_true] at this ⊢
  intro k2 h2
  exact this k2 (hsub k2 h2)

theorem keysOf_mono (sets sets' : List SrcSet) (hsub : ∀ s ∈ sets', s ∈ sets) :
    ∀ k ∈ keysOf sets', k ∈ keysOf sets := by
  intro k hk
  unfold keysOf at hk ⊢
  rcases List.mem_append.mp hk with h | h
  · obtain ⟨s, hs, rfl⟩ := List.mem_map.mp h
    exact List.mem_append_left _ (List.mem_map.mpr ⟨s, hsub s hs, rfl⟩)
  · obtain ⟨s, hs, hx⟩ := List.mem_flatMap.mp h
    exact List.mem_append_right _ (List.mem_flatMap.mpr ⟨s, hsub s hs, hx⟩)

/-! ### `__gt__` on source sets -/

theorem srcGt_true_iff (o : Order) (a b : SrcSet) :
    srcGt o a b = some true ↔
      sameSet a b = false ∧ ∃ x y, toInt o a = some x ∧ toInt o b = some y ∧ intsGt x y = true := by
  unfold srcGt
  cases hs : sameSet a b with
  | true => simp
  | false =>
    cases ha : toInt o a with
    | none => simp
    | some x =>
      cases hb : toInt o b with
      | none => simp
      | some y => simp

theorem srcGt_congr_left (o : Order) {a a' : SrcSet} (h : sameSet a a' = true) (b : SrcSet) :
    srcGt o a b = srcGt o a' b := by
  unfold srcGt
  rw [sameSet_congr_left h b, toInt_congr o h]

theorem srcGt_congr_right (o : Order) {b b' : SrcSet} (h : sameSet b b' = true) (a : SrcSet) :
    srcGt o a b = srcGt o a b' := by
  unfold srcGt
  rw [sameSet_congr_right h a, toInt_congr o h]

theorem srcGt_same (o : Order) (a b : SrcSet) (h : sameSet a b = true) : srcGt o a b = some false := by
  simp [srcGt, h]

theorem srcGt_asymm (o : Order) (a b : SrcSet) (h : srcGt o a b = some true) :
    srcGt o b a = some false := by
  obtain ⟨hs, x, y, hx, hy, hg⟩ := (srcGt_true_iff o a b).mp h
  unfold srcGt
  rw [sameSet_comm b a, hs, hx, hy]
  simp [intsGt_asymm x y hg]

theorem srcGt_trans (o : Order) (a b c : SrcSet) (h1 : srcGt o a b = some true)
    (h2 : srcGt o b c = some true) : srcGt o a c = some true := by
  obtain ⟨_, x, y, hx, hy, hg⟩ := (srcGt_true_iff o a b).mp h1
  obtain ⟨_, y', z, hy', hz, hg'⟩ := (srcGt_true_iff o b c).mp h2
  rw [hy] at hy'; cases hy'
  refine (srcGt_true_iff o a c).mpr ⟨?_, x, z, hx, hz, intsGt_trans x y z hg hg'⟩
  cases hs : sameSet a c with
  | false => rfl
  | true =>
    have := toInt_congr o hs
    rw [hx, hz] at this; cases this
    rw [intsGt_asymm x y hg] at hg'; cases hg'

theorem srcGt_total (o : Order) (a b : SrcSet) (hinj : o.injOn (keysOf [a, b]) = true)
    (x y : List Nat) (hx : toInt o a = some x) (hy : toInt o b = some y)
    (hne : sameSet a b = false) : srcGt o a b = some true ∨ srcGt o b a = some true := by
  have hxy : x ≠ y := by
    intro e; subst e
    rw [toInt_inj o a b hinj x hx hy] at hne; cases hne
  rcases intsGt_total x y hxy with h | h
  · exact Or.inl ((srcGt_true_iff o a b).mpr ⟨hne, x, y, hx, hy, h⟩)
  · exact Or.inr ((srcGt_true_iff o b a).mpr ⟨by rw [sameSet_comm]; exact hne, y, x, hy, hx, h⟩)

/-! ### distinct levels give injectivity on every key list; the CLIs keep levels distinct -/

theorem nodupB_iff (l : List Nat) : nodupB l = true ↔ l.Nodup := by
  induction l with
  | nil => simp [nodupB]
  | cons x xs ih => simp [nodupB, ih]

theorem nodup_map_inj {α} (f : α → Nat) : ∀ (l : List α), (l.map f).Nodup →
    ∀ a ∈ l, ∀ b ∈ l, f a = f b → a = b := by
  intro l
  induction l with
  | nil => intro _ a ha; cases ha
  | cons x xs ih =>
    intro h a ha b hb e
    simp only [List.map_cons, List.nodup_cons, List.mem_map, not_exists, not_and] at h
    rcases List.mem_cons.mp ha with ea | ha
    · rcases List.mem_cons.mp hb with eb | hb
      · rw [ea, eb]
      · rw [ea] at e; exact absurd e.symm (h.1 b hb)
    · rcases List.mem_cons.mp hb with eb | hb
      · rw [eb] at e; exact absurd e (h.1 a ha)
      · exact ih h.2 a ha b hb e

theorem OKey.same_symm {k1 k2 : OKey} (h : k1.same k2 = true) : k2.same k1 = true := by
  cases k1 with
  | one a =>
    cases k2 with
    | one b =>
      simp only [OKey.same, beq_iff_eq] at h ⊢
      exact h.symm
    | many b => simp [OKey.same] at h
  | many a =>
    cases k2 with
    | one b => simp [OKey.same] at h
    | many b => exact sameSet_symm h

theorem OKey.same_trans {k1 k2 k3 : OKey} (h1 : k1.same k2 = true) (h2 : k2.same k3 = true) :
    k1.same k3 = true := by
  cases k1 with
  | one a =>
    cases k2 with
    | one b =>
      cases k3 with
      | one c =>
        simp only [OKey.same, beq_iff_eq] at h1 h2 ⊢
        rw [h1, h2]
      | many c => simp [OKey.same] at h2
    | many b => simp [OKey.same] at h1
  | many a =>
    cases k2 with
    | one b => simp [OKey.same] at h1
    | many b =>
      cases k3 with
      | one c => simp [OKey.same] at h2
      | many c => exact sameSet_trans h1 h2

theorem level?_some (o : Order) (k : OKey) (n : Nat) (h : o.level? k = some n) :
    ∃ kv ∈ o, kv.1.same k = true ∧ kv.2 = n := by
  unfold Order.level? at h
  cases hf : o.find? (fun kv => kv.1.same k) with
  | none => rw [hf] at h; cases h
  | some kv =>
    rw [hf] at h
    exact ⟨kv, List.mem_of_find?_eq_some hf, by simpa using List.find?_some hf,
      Option.some.inj h⟩

/-- distinct level values ⇒ the level map is injective on every key list -/
theorem injOn_of_levelsDistinct (o : Order) (h : o.levelsDistinct = true) (ks : List OKey) :
    o.injOn ks = true := by
  unfold Order.levelsDistinct at h
  have hn := (nodupB_iff _).mp h
  unfold Order.injOn
  rw [List.all_eq_true]
  intro k1 _
  rw [List.all_eq_true]
  intro k2 _
  cases e1 : o.level? k1 with
  | none => rfl
  | some n =>
    cases e2 : o.level? k2 with
    | none => rfl
    | some m =>
      by_cases hnm : n = m
      · subst hnm
        obtain ⟨kv, hkv, hs, hl⟩ := level?_some o k1 n e1
        obtain ⟨kv', hkv', hs', hl'⟩ := level?_some o k2 n e2
        have := nodup_map_inj (fun kv : OKey × Nat => kv.2) o hn kv hkv kv' hkv' (by rw [hl, hl'])
        subst this
        simp [OKey.same_trans (OKey.same_symm hs) hs']
      · simp [hnm]

theorem lt_next (o : Order) : ∀ kv ∈ o, kv.2 < o.next := by
  have key : ∀ (l : Order) (m : Nat), (∀ kv ∈ l, kv.2 ≤ l.foldl (fun m kv => max m kv.2) m) ∧
      m ≤ l.foldl (fun m kv => max m kv.2) m := by
    intro l
    induction l with
    | nil => intro m; simp
    | cons x xs ih =>
      intro m
      obtain ⟨i1, i2⟩ := ih (max m x.2)
      simp only [List.foldl_cons]
      refine ⟨?_, by omega⟩
      intro kv hkv
      rcases List.mem_cons.mp hkv with rfl | hkv
      · omega
      · exact i1 kv hkv
  intro kv hkv
  cases o with
  | nil => cases hkv
  | cons x xs =>
    show kv.2 < List.foldl (fun m kv => max m kv.2) 0 (x :: xs) + 1
    have := (key (x :: xs) 0).1 kv hkv
    omega

theorem levelsDistinct_append_next (o : Order) (k : OKey) (h : o.levelsDistinct = true) :
    Order.levelsDistinct (o ++ [(k, o.next)]) = true := by
  unfold Order.levelsDistinct at h ⊢
  rw [nodupB_iff] at h ⊢
  simp only [List.map_append, List.map_cons, List.map_nil]
  refine List.nodup_append.mpr ⟨h, by simp, ?_⟩
  intro a ha b hb
  simp only [List.mem_singleton] at hb
  subst hb
  obtain ⟨kv, hkv, rfl⟩ := List.mem_map.mp ha
  have := lt_next o kv hkv
  omega

theorem appendOrder_levelsDistinct (g : GroupMap) (o : Order) (s : Src)
    (h : o.levelsDistinct = true) : (appendOrder g o s).1.levelsDistinct = true := by
  unfold appendOrder
  by_cases h1 : o.has (.one s) = true
  · simp only [h1, if_true]; exact h
  · simp only [h1]
    by_cases h2 : o.has (.one (g.app s)) = true
    · simp only [h2, if_true]; exact h
    · simp only [h2]; exact levelsDistinct_append_next o _ h

theorem appendInternal_levelsDistinct (g : GroupMap) (o : Order) (srcs : SrcSet)
    (h : o.levelsDistinct = true) : (appendInternal g o srcs).1.levelsDistinct = true := by
  unfold appendInternal
  generalize Generated.sourcesInternal = l
  have : ∀ (l : List Src) (acc : Order × SrcSet), acc.1.levelsDistinct = true →
      (l.foldl (fun (acc : Order × SrcSet) source =>
        let s := g.app source
        if acc.1.has (.one s) then acc
        else
          let (o', add) := appendOrder g acc.1 s
          (o', match add with | some x => setInsert x acc.2 | none => acc.2)) acc).1.levelsDistinct
        = true := by
    intro l
    induction l with
    | nil => intro acc h; exact h
    | cons x xs ih =>
      intro acc h
      simp only [List.foldl_cons]
      apply ih
      split
      · exact h
      · exact appendOrder_levelsDistinct g acc.1 _ h
  exact this l (o, srcs) h

/-- every order `splitFasta` builds from an `--order-source` with distinct levels has distinct
levels -/
theorem splitterOrder_levelsDistinct (g : GroupMap) (o0 : Order) (gvfs : List Gvf)
    (h : o0.levelsDistinct = true) : (splitterOrder g o0 gvfs).1.levelsDistinct = true := by
  unfold splitterOrder
  apply appendInternal_levelsDistinct
  generalize initSources o0 = s0
  have : ∀ (l : List Gvf) (acc : Order × SrcSet), acc.1.levelsDistinct = true →
      (l.foldl (fun (acc : Order × SrcSet) f =>
        if acc.1.has (.one f.source) then acc
        else
          let (o', add) := appendOrder g acc.1 f.source
          (o', match add with | some x => setInsert x acc.2 | none => acc.2)) acc).1.levelsDistinct
        = true := by
    intro l
    induction l with
    | nil => intro acc h; exact h
    | cons x xs ih =>
      intro acc h
      simp only [List.foldl_cons]
      apply ih
      split
      · exact h
      · exact appendOrder_levelsDistinct g acc.1 _ h
  exact this gvfs (o0, s0) h

theorem summarizerOrder_levelsDistinct (g : GroupMap) (o0 : Order) (gvfs : List Gvf)
    (h : o0.levelsDistinct = true) : (summarizerOrder g o0 gvfs).levelsDistinct = true := by
  unfold summarizerOrder
  apply appendInternal_levelsDistinct
  have : ∀ (l : List Gvf) (acc : Order), acc.levelsDistinct = true →
      (l.foldl (fun acc f => (appendOrder g acc f.source).1) acc).levelsDistinct = true := by
    intro l
    induction l with
    | nil => intro acc h; exact h
    | cons x xs ih =>
      intro acc h
      simp only [List.foldl_cons]
      exact ih _ (appendOrder_levelsDistinct g acc _ h)
  exact this gvfs o0 h

end MoPepGen
