/-
The final loop of `ThreeFrameTVG.translate` (`Model/Translate.lean`, `splitTerminals`): a node that
holds the annotated CDS end on a codon that is not a stop codon is cut there and a fake stop node
is hung on its left part.  `splitTerminal_expand`: one such step is an `Expand` of the Layer G
graph (`Lemmas/GraphExpand.lean`); the invariant `TermInv` of the search says which nodes are on
`terminal_nodes`; together they give the language of the returned graph
(`translateGraph_language_fake_stop`).
-/
import MoPepGen.Lemmas.Translate
import MoPepGen.Lemmas.GraphExpand
namespace MoPepGen.Translate
open MoPepGen MoPepGen.Spec MoPepGen.Graph

/-! ### one split, entry by entry -/

/-- the left part `split_node(k)` leaves in place, with the fake stop `f` hung beside `r` -/
def leftOf (n : PNode) (k r f : Nat) : PNode :=
  { n with seq := n.seq.take k, out := [r, f], vars := splitVarsLeft n.vars k,
           truncated := false, secs := n.secs.filter (· < k) }

/-- the new node `split_node(k)` returns -/
def rightOf (n : PNode) (k : Nat) : PNode :=
  { seq := n.seq.drop k, out := n.out, rf := n.rf, vars := splitVarsRight n.vars k,
    truncated := n.truncated, secs := (n.secs.filter (fun s => !(s < k))).map (· - k),
    level := n.level }

/-- the left part right after `split_node(k)`: only the new node `r` as successor -/
def left0 (n : PNode) (k r : Nat) : PNode :=
  { n with seq := n.seq.take k, out := [r], vars := splitVarsLeft n.vars k,
           truncated := false, secs := n.secs.filter (· < k) }

theorem splitNode_eq (ns : Array PNode) (t k : Nat) (n : PNode) (hn : ns[t]? = some n) :
    splitNode ns t k = ((ns.setIfInBounds t (left0 n k ns.size)).push (rightOf n k), ns.size) := by
  unfold splitNode
  simp only [hn, left0, rightOf]

theorem splitTerminal_eq (ns : Array PNode) (t k : Nat) (n : PNode) (c : Char)
    (hn : ns[t]? = some n) (hk : n.seq[k]? = some c) (hc : c ≠ '*') :
    splitTerminal ns t k =
      (((ns.setIfInBounds t (leftOf n k ns.size (ns.size + 1))).push (rightOf n k)).push
        { seq := ['*'], rf := n.rf }) := by
  have htlt : t < ns.size := by
    rcases Nat.lt_or_ge t ns.size with h | h
    · exact h
    · rw [Array.getElem?_eq_none h] at hn; cases hn
  have hklt : k < n.seq.length := by
    rcases Nat.lt_or_ge k n.seq.length with h | h
    · exact h
    · rw [List.getElem?_eq_none h] at hk; cases hk
  have hdrop : n.seq.drop k = c :: n.seq.drop (k + 1) := by
    rw [List.drop_eq_getElem_cons hklt]
    rw [List.getElem?_eq_getElem hklt] at hk
    cases hk; rfl
  unfold splitTerminal
  rw [splitNode_eq ns t k n hn]
  simp only
  have hr : ((ns.setIfInBounds t (left0 n k ns.size)).push (rightOf n k))[ns.size]? = some (rightOf n k) := by
    rw [Array.getElem?_push]; simp
  have ht : ((ns.setIfInBounds t (left0 n k ns.size)).push (rightOf n k))[t]? = some (left0 n k ns.size) := by
    rw [Array.getElem?_push, Array.size_setIfInBounds, Array.getElem?_setIfInBounds]
    have : ¬ t = ns.size := by omega
    simp [this, htlt]
  have hrseq : (rightOf n k).seq = c :: n.seq.drop (k + 1) := hdrop
  have hne : (some c == some '*') = false := by simp [hc]
  simp only [hr, ht, Option.map_some, Option.getD_some, hrseq, List.head?_cons, hne, Bool.and_false,
    Bool.false_eq_true, if_false]
  have hsz : ((ns.setIfInBounds t (left0 n k ns.size)).push (rightOf n k)).size = ns.size + 1 := by simp
  rw [hsz]
  apply Array.ext_getElem?
  intro i
  unfold addEdge
  rw [Array.getElem?_modify]
  simp only [Array.getElem?_push, Array.size_push, Array.size_setIfInBounds, Array.getElem?_setIfInBounds]
  by_cases hit : t = i
  · subst hit
    have h1 : ¬ t = ns.size + 1 := by omega
    have h2 : ¬ t = ns.size := by omega
    simp [h1, h2, htlt, left0, leftOf]
  · have hit' : ¬ i = t := fun h => hit h.symm
    simp only [hit, if_false]
    by_cases h1 : i = ns.size + 1
    · simp [h1, left0]
    · by_cases h2 : i = ns.size
      · simp [h2]
      · simp [h1, h2, hit]


/-- the array after one step of the final loop -/
def splitArr (ns : Array PNode) (t k : Nat) (n : PNode) : Array PNode :=
  ((ns.setIfInBounds t (leftOf n k ns.size (ns.size + 1))).push (rightOf n k)).push
    { seq := ['*'], rf := n.rf }

theorem splitArr_size (ns : Array PNode) (t k : Nat) (n : PNode) :
    (splitArr ns t k n).size = ns.size + 2 := by simp [splitArr]

theorem splitArr_old (ns : Array PNode) (t k : Nat) (n : PNode) (i : Nat) (hi : i < ns.size)
    (hit : i ≠ t) : (splitArr ns t k n)[i]? = ns[i]? := by
  simp only [splitArr, Array.getElem?_push, Array.size_push, Array.size_setIfInBounds,
    Array.getElem?_setIfInBounds]
  have h1 : ¬ i = ns.size + 1 := by omega
  have h2 : ¬ i = ns.size := by omega
  have h3 : ¬ t = i := fun h => hit h.symm
  simp [h1, h2, h3]

theorem splitArr_t (ns : Array PNode) (t k : Nat) (n : PNode) (ht : t < ns.size) :
    (splitArr ns t k n)[t]? = some (leftOf n k ns.size (ns.size + 1)) := by
  simp only [splitArr, Array.getElem?_push, Array.size_push, Array.size_setIfInBounds,
    Array.getElem?_setIfInBounds]
  have h1 : ¬ t = ns.size + 1 := by omega
  have h2 : ¬ t = ns.size := by omega
  simp [h1, h2, ht]

theorem splitArr_r (ns : Array PNode) (t k : Nat) (n : PNode) :
    (splitArr ns t k n)[ns.size]? = some (rightOf n k) := by
  simp only [splitArr, Array.getElem?_push, Array.size_push, Array.size_setIfInBounds]
  have h1 : ¬ ns.size = ns.size + 1 := by omega
  simp [h1]

theorem splitArr_f (ns : Array PNode) (t k : Nat) (n : PNode) :
    (splitArr ns t k n)[ns.size + 1]? = some { seq := ['*'], rf := n.rf } := by
  simp only [splitArr, Array.getElem?_push, Array.size_push, Array.size_setIfInBounds]
  simp

/-- successors of a node array's graph stay inside it -/
def Closed (ns : Array PNode) : Prop := ∀ i o, o ∈ succs (nodesGraph ns) i → o < ns.size

/-- one step of the final loop is an expansion of the Layer G graph at `t` -/
theorem splitArr_expand (ns : Array PNode) (t k : Nat) (n : PNode) (h2 : 2 ≤ ns.size)
    (hn : ns[t]? = some n) (hcl : Closed ns) :
    Expand (nodesGraph ns) (nodesGraph (splitArr ns t k n)) t (n.seq.take k) (n.seq.drop k) ['*'] := by
  have htlt : t < ns.size := by
    rcases Nat.lt_or_ge t ns.size with h | h
    · exact h
    · rw [Array.getElem?_eq_none h] at hn; cases hn
  have h2' : 2 ≤ (splitArr ns t k n).size := by rw [splitArr_size]; omega
  have hsG : (nodesGraph ns).size = ns.size := nodesGraph_size ns
  refine ⟨?_, ?_, ?_, ?_, ?_, ?_, ?_, ?_, ?_, ?_, ?_, ?_⟩
  · rw [nodesGraph_size, nodesGraph_size, splitArr_size]
  · rw [hsG]; exact htlt
  · intro i o ho; rw [hsG]; exact hcl i o ho
  · intro i hi hit
    rw [hsG] at hi
    rw [succs_nodesGraph _ h2', succs_nodesGraph _ h2]
    simp only [outOf, splitArr_old ns t k n i hi hit]
  · intro i hi hit
    rw [hsG] at hi
    rw [nodeSeq_nodesGraph, nodeSeq_nodesGraph, splitArr_old ns t k n i hi hit]
  · rw [succs_nodesGraph _ h2', hsG]
    simp only [outOf, splitArr_t ns t k n htlt, Option.map_some, Option.getD_some, leftOf]
    have e1 : (ns.size != stopIx) = true := by
      simp only [stopIx, bne_iff_ne, ne_eq]; omega
    have e2 : (ns.size + 1 != stopIx) = true := by
      simp only [stopIx, bne_iff_ne, ne_eq]; omega
    simp [List.filter, e1, e2]
  · rw [nodeSeq_nodesGraph, splitArr_t ns t k n htlt]; rfl
  · rw [hsG, succs_nodesGraph _ h2', succs_nodesGraph _ h2]
    simp only [outOf, splitArr_r, hn, Option.map_some, Option.getD_some, rightOf]
  · rw [hsG, nodeSeq_nodesGraph, splitArr_r]; rfl
  · rw [hsG, succs_nodesGraph _ h2']
    simp [outOf, splitArr_f]
  · rw [hsG, nodeSeq_nodesGraph, splitArr_f]; rfl
  · rw [nodeSeq_nodesGraph, hn]; simp

theorem splitArr_closed (ns : Array PNode) (t k : Nat) (n : PNode) (h2 : 2 ≤ ns.size)
    (hn : ns[t]? = some n) (hcl : Closed ns) : Closed (splitArr ns t k n) := by
  intro i o ho
  have := (splitArr_expand ns t k n h2 hn hcl).closed' i o ho
  rwa [nodesGraph_size] at this


/-! ### the whole final loop -/

/-- every listed node exists and does NOT read `*` at the listed position (so the fake stop
branch of the loop is taken), no node is listed twice -/
def TermsOk (ns : Array PNode) (T : List (Nat × Nat)) : Prop :=
  (T.map (·.1)).Nodup ∧ ∀ tk ∈ T, ∃ n c, ns[tk.1]? = some n ∧ n.seq[tk.2]? = some c ∧ c ≠ '*'

def seqAt (ns : Array PNode) (i : Nat) : List Char := (ns[i]?.map (·.seq)).getD []

theorem foldl_expands : ∀ (T : List (Nat × Nat)) (ns : Array PNode), 2 ≤ ns.size → Closed ns →
    TermsOk ns T →
    Expands ['*'] (nodesGraph ns) (T.map fun tk => (tk.1, (seqAt ns tk.1).take tk.2))
      (nodesGraph (T.foldl (fun ns tk => splitTerminal ns tk.1 tk.2) ns)) := by
  intro T
  induction T with
  | nil => intro ns _ _ _; exact Expands.nil
  | cons tk rest ih =>
    intro ns h2 hcl hok
    obtain ⟨t, k⟩ := tk
    obtain ⟨hnd, hall⟩ := hok
    obtain ⟨n, c, hn, hk, hc⟩ := hall (t, k) (by simp)
    have htlt : t < ns.size := by
      rcases Nat.lt_or_ge t ns.size with h | h
      · exact h
      · rw [Array.getElem?_eq_none h] at hn; cases hn
    simp only [List.foldl_cons, List.map_cons]
    rw [splitTerminal_eq ns t k n c hn hk hc]
    have hexp := splitArr_expand ns t k n h2 hn hcl
    have hseq : seqAt ns t = n.seq := by simp [seqAt, hn]
    rw [hseq]
    simp only [List.map_cons, List.nodup_cons, List.mem_map, not_exists, not_and] at hnd
    -- the rest of the list speaks about untouched nodes
    have hrest_old : ∀ tk' ∈ rest, tk'.1 < ns.size ∧ tk'.1 ≠ t := by
      intro tk' htk'
      obtain ⟨n', c', hn', _, _⟩ := hall tk' (List.mem_cons_of_mem _ htk')
      refine ⟨?_, fun he => hnd.1 tk' htk' he⟩
      rcases Nat.lt_or_ge tk'.1 ns.size with h | h
      · exact h
      · rw [Array.getElem?_eq_none h] at hn'; cases hn'
    have hok' : TermsOk (splitArr ns t k n) rest := by
      refine ⟨hnd.2, ?_⟩
      intro tk' htk'
      obtain ⟨n', c', hn', hk', hc'⟩ := hall tk' (List.mem_cons_of_mem _ htk')
      obtain ⟨h1, h2'⟩ := hrest_old tk' htk'
      exact ⟨n', c', by rw [splitArr_old ns t k n _ h1 h2']; exact hn', hk', hc'⟩
    have hmap : (rest.map fun tk => (tk.1, (seqAt ns tk.1).take tk.2)) =
        rest.map fun tk => (tk.1, (seqAt (splitArr ns t k n) tk.1).take tk.2) := by
      apply List.map_congr_left
      intro tk' htk'
      obtain ⟨h1, h2'⟩ := hrest_old tk' htk'
      simp only [seqAt, splitArr_old ns t k n _ h1 h2']
    rw [hmap]
    exact Expands.cons hexp
      (ih (splitArr ns t k n) (by rw [splitArr_size]; omega) (splitArr_closed ns t k n h2 hn hcl) hok')

/-- the language of the graph after the final loop, from an old node -/
theorem foldl_language (T : List (Nat × Nat)) (ns : Array PNode) (h2 : 2 ≤ ns.size)
    (hcl : Closed ns) (hok : TermsOk ns T) (j : Nat) (hj : j < ns.size) (w : List Char) :
    Acc (nodesGraph (T.foldl (fun ns tk => splitTerminal ns tk.1 tk.2) ns)) j w ↔
      Acc (nodesGraph ns) j w ∨
      ∃ tk ∈ T, ∃ u, Reach (nodesGraph ns) tk.1 j u ∧ w = u ++ (seqAt ns tk.1).take tk.2 ++ ['*'] := by
  have hE := foldl_expands T ns h2 hcl hok
  have hT : ∀ ta ∈ (T.map fun tk => (tk.1, (seqAt ns tk.1).take tk.2)), ta.1 < (nodesGraph ns).size := by
    intro ta hta
    obtain ⟨tk, htk, rfl⟩ := List.mem_map.mp hta
    obtain ⟨n, c, hn, _, _⟩ := hok.2 tk htk
    rw [nodesGraph_size]
    rcases Nat.lt_or_ge tk.1 ns.size with h | h
    · exact h
    · rw [Array.getElem?_eq_none h] at hn; cases hn
  rw [hE.language hT j (by rw [nodesGraph_size]; exact hj) w]
  constructor
  · rintro (h | ⟨ta, hta, u, hu, rfl⟩)
    · exact Or.inl h
    · obtain ⟨tk, htk, rfl⟩ := List.mem_map.mp hta
      exact Or.inr ⟨tk, htk, u, hu, rfl⟩
  · rintro (h | ⟨tk, htk, u, hu, rfl⟩)
    · exact Or.inl h
    · exact Or.inr ⟨_, List.mem_map.mpr ⟨tk, htk, rfl⟩, u, hu, rfl⟩


/-! ### `terminal_nodes` during the search -/

/-- what `terminalSite … = some k` says: the annotated CDS end `e` (non-zero) is found by
`get_query_index` at a codon boundary `3 k > 0` of a level-0 node, at least one codon before the
node's end; the node's protein does not read `*` there and no variant (in protein coordinates)
covers the DNA index `3 k` -/
theorem terminalSite_some {oe : Option Nat} {dn : DNode} {pn : PNode} {k : Nat}
    (h : terminalSite oe dn pn = .ok (some k)) :
    ∃ e q c, oe = some e ∧ e ≠ 0 ∧ dn.level = 0 ∧ queryIndex dn.locs e = some q ∧ 0 < q ∧
      q + 3 ≤ dn.seq.length ∧ q = 3 * k ∧ pn.seq[k]? = some c ∧ c ≠ '*' ∧
      (pn.vars.any fun v => v.start ≤ q && q < v.stop) = false := by
  unfold terminalSite at h
  split at h
  · cases h
  · cases h
  · rename_i e hne0
    split at h
    · cases h
    · rename_i hlvl
      split at h
      · cases h
      · rename_i q hq
        split at h
        · rename_i hcond
          simp only at h
          split at h
          · cases h
          · rename_i c hc
            simp only [Except.ok.injEq] at h
            split at h
            · rename_i hgood
              cases h
              simp only [Bool.and_eq_true, decide_eq_true_eq, beq_iff_eq] at hcond
              simp only [Bool.and_eq_true, bne_iff_ne, ne_eq, Bool.not_eq_true'] at hgood
              refine ⟨e, q, c, rfl, ?_, by simpa using hlvl, hq, hcond.1.1, hcond.1.2, by omega, hc,
                hgood.1, hgood.2⟩
              intro h0; exact hne0 h0
            · cases h
        · cases h

/-- which nodes are on `terminal_nodes` -/
structure TermInv (g : TGraphIn) (st : St) : Prop where
  nodup : (st.terminal.map (·.1)).Nodup
  sound : ∀ tk ∈ st.terminal, ∃ o dn pn, tk.1 = pix o ∧ presentAt st.nodes (pix o) = true ∧
    g.nodes[o]? = some dn ∧ mkNode g dn = .ok pn ∧
    terminalSite (orfEndOf g dn) dn pn = .ok (some tk.2)
  complete : ∀ o dn pn k, presentAt st.nodes (pix o) = true → g.nodes[o]? = some dn →
    mkNode g dn = .ok pn → terminalSite (orfEndOf g dn) dn pn = .ok (some k) →
    (pix o, k) ∈ st.terminal

/-- what one iteration of the edge loop does to `terminal_nodes` -/
theorem visitEdge_term {g : TGraphIn} {nOut p o : Nat} {st st' : St}
    (h : visitEdge g nOut p st o = .ok st') :
    (presentAt st.nodes (pix o) = true ∧ st'.terminal = st.terminal) ∨
    (presentAt st.nodes (pix o) = false ∧ ∃ n pn site, g.nodes[o]? = some n ∧ mkNode g n = .ok pn ∧
      terminalSite (orfEndOf g n) n pn = .ok site ∧
      st'.terminal = (match site with
        | some k => st.terminal ++ [(pix o, k)]
        | none => st.terminal)) := by
  unfold visitEdge at h
  split at h
  · cases h
  · rename_i n hn
    split at h
    · rename_i hv
      cases h
      exact Or.inl ⟨hv, rfl⟩
    · rename_i hv
      have hv' : presentAt st.nodes (pix o) = false := by simpa [isVisited, presentAt] using hv
      split at h
      · cases h
      · rename_i pn hpn
        split at h
        · cases h
        · rename_i site hsite
          cases h
          exact Or.inr ⟨hv', n, pn, site, hn, hpn, hsite, rfl⟩

theorem visitEdge_termInv {g : TGraphIn} {nOut d p o : Nat} {st st' : St}
    (hI : Inv g st [(d, p)]) (hT : TermInv g st) (h : visitEdge g nOut p st o = .ok st') :
    TermInv g st' := by
  have hdp : (d, p) ∈ [(d, p)] ++ st.queue := by simp
  obtain ⟨hplt, _⟩ := hI.item_lt hdp
  obtain ⟨n, hn, _, e2, _, _, _⟩ := visitEdge_effect hI.size hplt hI.absentOut h
  have hmono : ∀ i, presentAt st.nodes i = true → presentAt st'.nodes i = true := by
    intro i hi; rw [e2, hi]; rfl
  rcases visitEdge_term h with ⟨hv, ht⟩ | ⟨hv, n', pn, site, hn', hpn, hsite, ht⟩
  · -- nothing new
    refine ⟨by rw [ht]; exact hT.nodup, ?_, ?_⟩
    · intro tk htk
      rw [ht] at htk
      obtain ⟨o', dn, pn, h1, h2, h3⟩ := hT.sound tk htk
      exact ⟨o', dn, pn, h1, hmono _ h2, h3⟩
    · intro o' dn pn k hp
      rw [ht]
      have : presentAt st.nodes (pix o') = true := by
        rw [e2] at hp
        cases hpo : presentAt st.nodes (pix o')
        · rw [hpo] at hp
          have : o' = o := pix_inj (by simpa using hp)
          subst this; rw [hv] at hpo; cases hpo
        · rfl
      exact hT.complete o' dn pn k this
  · rw [hn] at hn'; cases hn'
    have hnew : presentAt st'.nodes (pix o) = true := by rw [e2]; simp
    cases site with
    | none =>
      simp only at ht
      refine ⟨by rw [ht]; exact hT.nodup, ?_, ?_⟩
      · intro tk htk
        rw [ht] at htk
        obtain ⟨o', dn, pn', h1, h2, h3⟩ := hT.sound tk htk
        exact ⟨o', dn, pn', h1, hmono _ h2, h3⟩
      · intro o' dn pn' k hp hdn hmk hts
        rw [ht]
        cases hpo : presentAt st.nodes (pix o')
        · rw [e2, hpo] at hp
          have : o' = o := pix_inj (by simpa using hp)
          subst this
          rw [hn] at hdn; cases hdn
          rw [hpn] at hmk; cases hmk
          rw [hsite] at hts; cases hts
        · exact hT.complete o' dn pn' k hpo hdn hmk hts
    | some k =>
      simp only at ht
      refine ⟨?_, ?_, ?_⟩
      · rw [ht, List.map_append, List.nodup_append]
        refine ⟨hT.nodup, by simp, ?_⟩
        intro a ha b hb
        simp only [List.map_cons, List.map_nil, List.mem_singleton] at hb
        subst hb
        obtain ⟨tk, htk, rfl⟩ := List.mem_map.mp ha
        obtain ⟨o', _, _, h1, h2, _⟩ := hT.sound tk htk
        intro hc
        rw [h1] at hc
        have : o' = o := pix_inj hc
        subst this
        rw [hv] at h2; cases h2
      · intro tk htk
        rw [ht] at htk
        rcases List.mem_append.mp htk with htk | htk
        · obtain ⟨o', dn, pn', h1, h2, h3⟩ := hT.sound tk htk
          exact ⟨o', dn, pn', h1, hmono _ h2, h3⟩
        · simp only [List.mem_singleton] at htk
          subst htk
          exact ⟨o, n, pn, rfl, hnew, hn, hpn, hsite⟩
      · intro o' dn pn' k' hp hdn hmk hts
        rw [ht]
        cases hpo : presentAt st.nodes (pix o')
        · rw [e2, hpo] at hp
          have : o' = o := pix_inj (by simpa using hp)
          subst this
          rw [hn] at hdn; cases hdn
          rw [hpn] at hmk; cases hmk
          rw [hsite] at hts; cases hts
          simp
        · exact List.mem_append_left _ (hT.complete o' dn pn' k' hpo hdn hmk hts)

theorem visitEdges_termInv {g : TGraphIn} {nOut d p : Nat} {dn : DNode} (hd : g.nodes[d]? = some dn) :
    ∀ (es : List (Nat × EType)) (st st' : St), (∀ e ∈ es, e ∈ dn.out) → Inv g st [(d, p)] →
      TermInv g st → visitEdges g nOut p st es = .ok st' → TermInv g st' := by
  intro es
  induction es with
  | nil => intro st st' _ _ hT h; simp only [visitEdges] at h; cases h; exact hT
  | cons e es ih =>
    intro st st' hsub hI hT h
    simp only [visitEdges] at h
    split at h
    · cases h
    · rename_i st1 h1
      obtain ⟨hI1, _, _⟩ := visitEdge_inv (ty := e.2) hI hd (hsub e (by simp)) h1
      exact ih st1 st' (fun x hx => hsub x (by simp [hx])) hI1 (visitEdge_termInv hI hT h1) h

theorem processItem_termInv {g : TGraphIn} {d p : Nat} {st st' : St}
    (hI : Inv g st [(d, p)]) (hT : TermInv g st) (h : processItem g st d p = .ok st') :
    TermInv g st' := by
  unfold processItem at h
  split at h
  · cases h
  · rename_i dn hd
    split at h
    · cases h
      have hp : ∀ i, presentAt (if g.clip = true then setTruncated (addEdge st.nodes p stopIx) p
          else addEdge st.nodes p stopIx) i = presentAt st.nodes i := by
        intro i; split <;> simp [presentAt_setTruncated, presentAt_addEdge]
      refine ⟨hT.nodup, ?_, ?_⟩
      · intro tk htk
        obtain ⟨o', dn', pn', h1, h2, h3⟩ := hT.sound tk htk
        exact ⟨o', dn', pn', h1, by rw [hp]; exact h2, h3⟩
      · intro o' dn' pn' k hpres
        rw [hp] at hpres
        exact hT.complete o' dn' pn' k hpres
    · exact visitEdges_termInv hd dn.out st st' (fun _ he => he) hI hT h

theorem bfs_termInv {g : TGraphIn} : ∀ (fuel : Nat) (st st' : St), Inv g st [] → TermInv g st →
    bfs g fuel st = .ok st' → TermInv g st' := by
  intro fuel
  induction fuel with
  | zero =>
    intro st st' _ hT h
    simp only [bfs] at h
    split at h
    · cases h; exact hT
    · cases h
  | succ n ih =>
    intro st st' hI hT h
    unfold bfs at h
    split at h
    · cases h; exact hT
    · rename_i d p q hq
      split at h
      · cases h
      · rename_i st1 h1
        have hI1 : Inv g { st with queue := q } [(d, p)] := by
          have hqq : ∀ x, x ∈ [(d, p)] ++ q ↔ x ∈ [] ++ st.queue := by
            intro x; rw [hq]; simp
          exact ⟨hI.size, hI.node, hI.sound, hI.rootSound,
            fun o dn hp ho hn => hI.complete o dn hp ho (fun hc => hn ((hqq _).mpr hc)),
            fun d' hd' dn h1 hn => hI.rootComplete d' hd' dn h1 (fun hc => hn ((hqq _).mpr hc)),
            fun dp hdp => hI.queue dp ((hqq _).mp hdp), hI.absentOut, hI.rootPresent, hI.closed⟩
        have hT1 : TermInv g { st with queue := q } := ⟨hT.nodup, hT.sound, hT.complete⟩
        exact ih st1 st' (processItem_inv hI1 h1) (processItem_termInv hI1 hT1 h1) h

theorem translateCore_termInv {g : TGraphIn} {st : St} (h : translateCore g = .ok st) : TermInv g st := by
  unfold translateCore at h
  split at h
  · cases h
  · refine bfs_termInv _ _ _ (initSt_inv g) ⟨by simp [initSt], ?_, ?_⟩ h
    · intro tk htk; simp [initSt] at htk
    · intro o dn pn k hp; rw [initSt_present_pix] at hp; cases hp


/-! ### assembling: the language of the returned graph with fake stops -/

theorem Final.closedG {g : TGraphIn} {st : St} (hF : Final g st) : Closed st.nodes := by
  intro i o ho
  rw [succs_nodesGraph _ hF.size2] at ho
  exact hF.closed i o (List.mem_filter.mp ho).1

theorem Final.seqAt_eq {g : TGraphIn} {st : St} (hF : Final g st) (hc : g.isCirc = false) {o : Nat}
    (hp : presentAt st.nodes (pix o) = true) : seqAt st.nodes (pix o) = protOf g o := by
  rw [← hF.nodeSeq_eq hc hp, nodeSeq_nodesGraph]; rfl

theorem Final.mapSeq_eq {g : TGraphIn} {st : St} (hF : Final g st) (hc : g.isCirc = false) :
    ∀ (p : List Nat), (∀ o ∈ p, presentAt st.nodes (pix o) = true) →
      pathSeq (nodesGraph st.nodes) (p.map pix) = p.flatMap (protOf g) := by
  intro p
  induction p with
  | nil => intro _; rfl
  | cons a as ih =>
    intro h
    have := ih (fun o ho => h o (by simp [ho]))
    simp only [pathSeq, List.map_cons, List.flatMap_cons] at this ⊢
    rw [this, hF.nodeSeq_eq hc (h a (by simp))]

theorem Final.walk_of_tvg {g : TGraphIn} {st : St} (hF : Final g st) {ot o : Nat} {p : List Nat}
    (hw : NWalk g.toGraph ot o p) :
    presentAt st.nodes (pix o) = true →
      NWalk (nodesGraph st.nodes) (pix ot) (pix o) (p.map pix) ∧ presentAt st.nodes (pix ot) = true ∧
      ∀ o' ∈ p, presentAt st.nodes (pix o') = true := by
  induction hw with
  | here _ =>
    intro hp
    exact ⟨NWalk.here (by rw [nodesGraph_size]; exact presentAt_lt hp), hp, by simp⟩
  | @step i o' p hi ho' _ ih =>
    intro hp
    obtain ⟨dn, pn, ho, _, _⟩ := hF.node i hp
    obtain ⟨h1, h2, h3⟩ := ih (hF.succ_present hp ho')
    refine ⟨NWalk.step (by rw [nodesGraph_size]; exact presentAt_lt hp)
      ((hF.succs_iff hp ho _).mpr ⟨o', ho', rfl⟩) h1, h2, ?_⟩
    intro x hx
    rcases List.mem_cons.mp hx with rfl | hx
    · exact hp
    · exact h3 x hx

theorem Final.tvg_of_walk {g : TGraphIn} {st : St} (hF : Final g st) {t i : Nat} {q : List Nat}
    (hw : NWalk (nodesGraph st.nodes) t i q) :
    ∀ o ot, i = pix o → t = pix ot → presentAt st.nodes (pix o) = true →
      ∃ p, NWalk g.toGraph ot o p ∧ q = p.map pix := by
  induction hw with
  | here _ =>
    intro o ot hio hto hp
    have : o = ot := pix_inj (hio.symm.trans hto)
    subst this
    obtain ⟨dn, pn, ho, _, _⟩ := hF.node o hp
    have hlt : o < g.toGraph.size := by
      rw [toGraph_size]
      rcases Nat.lt_or_ge o g.nodes.size with h | h
      · exact h
      · rw [Array.getElem?_eq_none h] at ho; cases ho
    exact ⟨[], NWalk.here hlt, rfl⟩
  | @step i j q hi hj _ ih =>
    intro o ot hio hto hp
    subst hio
    obtain ⟨dn, pn, ho, _, _⟩ := hF.node o hp
    have hlt : o < g.toGraph.size := by
      rw [toGraph_size]
      rcases Nat.lt_or_ge o g.nodes.size with h | h
      · exact h
      · rw [Array.getElem?_eq_none h] at ho; cases ho
    obtain ⟨o', ho', rfl⟩ := (hF.succs_iff hp ho j).mp hj
    obtain ⟨p, hpw, rfl⟩ := ih o' ot rfl hto (hF.succ_present hp ho')
    exact ⟨o :: p, NWalk.step hlt ho' hpw, rfl⟩

/-- `ot` is a node the final loop cuts at `k`: its translation holds the annotated CDS end at
codon `k`, not a stop codon, not covered by a variant (`terminalSite`) -/
def IsTerminal (g : TGraphIn) (ot k : Nat) : Prop :=
  ∃ dn pn, g.nodes[ot]? = some dn ∧ mkNode g dn = .ok pn ∧
    terminalSite (orfEndOf g dn) dn pn = .ok (some k)

theorem termsOk_of_final {g : TGraphIn} {st : St} (hF : Final g st) (hT : TermInv g st) :
    TermsOk st.nodes st.terminal := by
  refine ⟨hT.nodup, ?_⟩
  intro tk htk
  obtain ⟨o, dn, pn, h1, h2, h3, h4, h5⟩ := hT.sound tk htk
  obtain ⟨dn', pn', h3', h4', hcore⟩ := hF.node o h2
  rw [h3] at h3'; cases h3'
  rw [h4] at h4'; cases h4'
  obtain ⟨_, _, c, _, _, _, _, _, _, _, hk, hc, _⟩ := terminalSite_some h5
  unfold coreAt at hcore
  rw [h1]
  cases hn : st.nodes[pix o]? with
  | none => rw [hn] at hcore; cases hcore
  | some n =>
    rw [hn] at hcore
    simp only [Option.map_some, Option.some.injEq, PNode.core, Prod.mk.injEq] at hcore
    exact ⟨n, c, rfl, by rw [hcore.1]; exact hk, hc⟩

/-- the language of the graph `translate` returns for a linear transcript with a known ORF: from
the image of a frame's start node `o`, the maximal paths spell (i) the node-wise translations of
the maximal paths of the input graph and (ii), for every node `ot` the final loop cuts and every
walk from `o` that reaches it, the translations up to `ot`, the first `k` residues of `ot` and
the fake stop `*` -/
theorem translateGraph_language_fake_stop {g : TGraphIn} {pg : PGraph}
    (h : translateGraph g = .ok pg) (hc : g.isCirc = false) (hko : g.hasKnownOrf = true)
    {d o : Nat} (hd : d ∈ g.frames) (ho : o ∈ succs g.toGraph d) (w : List Char) :
    (∃ q, MaxPath pg.toGraph (pix o) q ∧ pathSeq pg.toGraph q = w) ↔
      (∃ p, MaxPath g.toGraph o p ∧ w = p.flatMap (protOf g)) ∨
      (∃ ot k p, IsTerminal g ot k ∧ NWalk g.toGraph ot o p ∧
        w = p.flatMap (protOf g) ++ (protOf g ot).take k ++ ['*']) := by
  unfold translateGraph at h
  split at h
  · cases h
  · rename_i st hst
    split at h
    · cases h
    · cases h
      have hF := translateCore_final hst
      have hT := translateCore_termInv hst
      have hp := hF.start_present hd ho
      simp only [PGraph.toGraph, splitTerminals, hko, if_true]
      rw [← acc_iff, foldl_language st.terminal st.nodes hF.size2 hF.closedG (termsOk_of_final hF hT)
        (pix o) (presentAt_lt hp) w, acc_iff]
      constructor
      · rintro (⟨q, hq, rfl⟩ | ⟨tk, htk, u, hu, rfl⟩)
        · obtain ⟨p, hm, rfl⟩ := hF.tvg_of_path hq o rfl hp
          exact Or.inl ⟨p, hm, hF.pathSeq_eq hc hm hp⟩
        · obtain ⟨ot, dn, pn, h1, h2, h3, h4, h5⟩ := hT.sound tk htk
          obtain ⟨q, hq, rfl⟩ := (reach_iff_walk _ _ _ _).mp hu
          rw [h1] at hq
          obtain ⟨p, hpw, rfl⟩ := hF.tvg_of_walk hq o ot rfl rfl hp
          obtain ⟨_, _, hall⟩ := hF.walk_of_tvg hpw hp
          refine Or.inr ⟨ot, tk.2, p, ⟨dn, pn, h3, h4, h5⟩, hpw, ?_⟩
          rw [hF.mapSeq_eq hc p hall, h1, hF.seqAt_eq hc h2]
      · rintro (⟨p, hm, rfl⟩ | ⟨ot, k, p, ⟨dn, pn, h3, h4, h5⟩, hpw, rfl⟩)
        · exact Or.inl ⟨p.map pix, hF.path_of_tvg hm hp, hF.pathSeq_eq hc hm hp⟩
        · obtain ⟨hwalk, hpot, hall⟩ := hF.walk_of_tvg hpw hp
          refine Or.inr ⟨(pix ot, k), hT.complete ot dn pn k hpot h3 h4 h5, _,
            (reach_iff_walk _ _ _ _).mpr ⟨_, hwalk, rfl⟩, ?_⟩
          rw [hF.mapSeq_eq hc p hall, hF.seqAt_eq hc hpot]

end MoPepGen.Translate
