/-
Lemmas for `Model/Translate.lean` (the function-level model of `ThreeFrameTVG.translate`):
the invariant of the `while queue` search (one `PVGNode` per reached TVG node, named `pix o`;
out-edges of a finished node = the images of the out-edges of its TVG node, or the stop node),
the correspondence of maximal paths, node-wise translation and the selenocysteine rule.
-/
import MoPepGen.Model.Translate
import MoPepGen.Lemmas.Graph
namespace MoPepGen.Translate
open MoPepGen MoPepGen.Spec MoPepGen.Graph

/-! ### observations of a node array -/

def outOf (ns : Array PNode) (i : Nat) : List Nat := (ns[i]?.map (·.out)).getD []
def presentAt (ns : Array PNode) (i : Nat) : Bool := (ns[i]?.map (·.present)).getD false

/-- the fields of a node that the search never changes once the node exists -/
def PNode.core (n : PNode) : List Char × Bool × Nat × List PVar × List Nat × Nat :=
  (n.seq, n.isNull, n.rf, n.vars, n.secs, n.level)

def coreAt (ns : Array PNode) (i : Nat) : Option (List Char × Bool × Nat × List PVar × List Nat × Nat) :=
  ns[i]?.map PNode.core

theorem size_addEdge (ns : Array PNode) (p q : Nat) : (addEdge ns p q).size = ns.size := by
  simp [addEdge]

theorem size_setTruncated (ns : Array PNode) (p : Nat) : (setTruncated ns p).size = ns.size := by
  simp [setTruncated]

theorem mem_outOf_addEdge (ns : Array PNode) (p q i x : Nat) :
    x ∈ outOf (addEdge ns p q) i ↔ x ∈ outOf ns i ∨ (i = p ∧ p < ns.size ∧ x = q) := by
  unfold outOf addEdge
  rw [Array.getElem?_modify]
  by_cases hip : p = i
  · subst hip
    simp only [if_true]
    cases hn : ns[p]? with
    | none =>
      have : ¬ p < ns.size := by
        intro h; rw [Array.getElem?_eq_getElem h] at hn; cases hn
      simp [this]
    | some n =>
      have hlt : p < ns.size := by
        rcases Nat.lt_or_ge p ns.size with h | h
        · exact h
        · rw [Array.getElem?_eq_none h] at hn; cases hn
      simp only [Option.map_some, Option.getD_some, hlt, true_and]
      by_cases hc : n.out.contains q = true
      · simp only [hc, if_true]
        constructor
        · intro h; exact Or.inl h
        · rintro (h | rfl)
          · exact h
          · simpa using hc
      · simp only [hc, Bool.false_eq_true, if_false, List.mem_append, List.mem_singleton]
  · have : ¬ i = p := fun h => hip h.symm
    simp [hip, this]

theorem outOf_setTruncated (ns : Array PNode) (p i : Nat) :
    outOf (setTruncated ns p) i = outOf ns i := by
  unfold outOf setTruncated
  rw [Array.getElem?_modify]
  by_cases hip : p = i
  · subst hip; cases ns[p]? <;> simp
  · simp [hip]

theorem presentAt_addEdge (ns : Array PNode) (p q i : Nat) :
    presentAt (addEdge ns p q) i = presentAt ns i := by
  unfold presentAt addEdge
  rw [Array.getElem?_modify]
  by_cases hip : p = i
  · subst hip
    cases ns[p]? with
    | none => simp
    | some n => by_cases hc : q ∈ n.out <;> simp [hc]
  · simp [hip]

theorem presentAt_setTruncated (ns : Array PNode) (p i : Nat) :
    presentAt (setTruncated ns p) i = presentAt ns i := by
  unfold presentAt setTruncated
  rw [Array.getElem?_modify]
  by_cases hip : p = i
  · subst hip; cases ns[p]? <;> simp
  · simp [hip]

theorem coreAt_addEdge (ns : Array PNode) (p q i : Nat) :
    coreAt (addEdge ns p q) i = coreAt ns i := by
  unfold coreAt addEdge
  rw [Array.getElem?_modify]
  by_cases hip : p = i
  · subst hip
    cases ns[p]? with
    | none => simp
    | some n => by_cases hc : q ∈ n.out <;> simp [hc, PNode.core]
  · simp [hip]

theorem coreAt_setTruncated (ns : Array PNode) (p i : Nat) :
    coreAt (setTruncated ns p) i = coreAt ns i := by
  unfold coreAt setTruncated
  rw [Array.getElem?_modify]
  by_cases hip : p = i
  · subst hip; cases ns[p]? <;> simp [PNode.core]
  · simp [hip]

theorem outOf_set (ns : Array PNode) (j : Nat) (pn : PNode) (i : Nat) (hj : j < ns.size) :
    outOf (ns.setIfInBounds j pn) i = if j = i then pn.out else outOf ns i := by
  unfold outOf
  rw [Array.getElem?_setIfInBounds]
  by_cases h : j = i
  · subst h; simp [hj]
  · simp [h]

theorem presentAt_set (ns : Array PNode) (j : Nat) (pn : PNode) (i : Nat) (hj : j < ns.size) :
    presentAt (ns.setIfInBounds j pn) i = if j = i then pn.present else presentAt ns i := by
  unfold presentAt
  rw [Array.getElem?_setIfInBounds]
  by_cases h : j = i
  · subst h; simp [hj]
  · simp [h]

theorem coreAt_set (ns : Array PNode) (j : Nat) (pn : PNode) (i : Nat) (hj : j < ns.size) :
    coreAt (ns.setIfInBounds j pn) i = if j = i then some pn.core else coreAt ns i := by
  unfold coreAt
  rw [Array.getElem?_setIfInBounds]
  by_cases h : j = i
  · subst h; simp [hj]
  · simp [h]

theorem mkNode_out {g : TGraphIn} {n : DNode} {pn : PNode} (h : mkNode g n = .ok pn) :
    pn.out = [] ∧ pn.present = true := by
  unfold mkNode at h
  split at h
  · cases h
  · split at h
    · cases h
    · cases h; exact ⟨rfl, rfl⟩

/-! ### the invariant of the search -/

/-- `p` is the `PVGNode` handed down with the queue item `d`: the root for a frame root,
`visited[d]` otherwise -/
def ItemOk (g : TGraphIn) (ns : Array PNode) (dp : Nat × Nat) : Prop :=
  (dp.2 = rootIx ∧ dp.1 ∈ g.frames) ∨ (dp.2 = pix dp.1 ∧ presentAt ns (pix dp.1) = true)

/-- the out-edge `q` of the PVG node that stands for the TVG node `dn`: the stop node for a node
without out-edges, else the image of one of its successors, which exists -/
def EdgeOk (ns : Array PNode) (dn : DNode) (q : Nat) : Prop :=
  (q = stopIx ∧ dn.out = []) ∨ ∃ e ∈ dn.out, q = pix e.1 ∧ presentAt ns (pix e.1) = true

/-- all out-edges of `dn` have their image among `outs` -/
def OutsComplete (outs : List Nat) (dn : DNode) : Prop :=
  (dn.out = [] → stopIx ∈ outs) ∧ ∀ e ∈ dn.out, pix e.1 ∈ outs

/-- the loop invariant; `extra` = the item being processed (already taken from the queue) -/
structure Inv (g : TGraphIn) (st : St) (extra : List (Nat × Nat)) : Prop where
  size : st.nodes.size = g.nodes.size + 2
  node : ∀ o, presentAt st.nodes (pix o) = true →
    ∃ dn pn, g.nodes[o]? = some dn ∧ mkNode g dn = .ok pn ∧ coreAt st.nodes (pix o) = some pn.core
  sound : ∀ o dn, g.nodes[o]? = some dn → ∀ q ∈ outOf st.nodes (pix o), EdgeOk st.nodes dn q
  rootSound : ∀ q ∈ outOf st.nodes rootIx,
    ∃ d ∈ g.frames, ∃ dn, g.nodes[d]? = some dn ∧ EdgeOk st.nodes dn q
  complete : ∀ o dn, presentAt st.nodes (pix o) = true → g.nodes[o]? = some dn →
    (o, pix o) ∉ extra ++ st.queue → OutsComplete (outOf st.nodes (pix o)) dn
  rootComplete : ∀ d ∈ g.frames, ∀ dn, g.nodes[d]? = some dn →
    (d, rootIx) ∉ extra ++ st.queue → OutsComplete (outOf st.nodes rootIx) dn
  queue : ∀ dp ∈ extra ++ st.queue, ItemOk g st.nodes dp
  absentOut : ∀ i, presentAt st.nodes i = false → outOf st.nodes i = []
  rootPresent : presentAt st.nodes rootIx = true
  closed : ∀ i q, q ∈ outOf st.nodes i → q < st.nodes.size

theorem EdgeOk.mono {ns ns' : Array PNode} {dn : DNode} {q : Nat}
    (hp : ∀ i, presentAt ns i = true → presentAt ns' i = true) (h : EdgeOk ns dn q) :
    EdgeOk ns' dn q := by
  rcases h with h | ⟨e, he, rfl, hpr⟩
  · exact Or.inl h
  · exact Or.inr ⟨e, he, rfl, hp _ hpr⟩

theorem OutsComplete.mono {a b : List Nat} {dn : DNode} (hab : ∀ x ∈ a, x ∈ b)
    (h : OutsComplete a dn) : OutsComplete b dn :=
  ⟨fun h0 => hab _ (h.1 h0), fun e he => hab _ (h.2 e he)⟩

theorem ItemOk.mono {g : TGraphIn} {ns ns' : Array PNode} {dp : Nat × Nat}
    (hp : ∀ i, presentAt ns i = true → presentAt ns' i = true) (h : ItemOk g ns dp) :
    ItemOk g ns' dp := by
  rcases h with h | ⟨h1, h2⟩
  · exact Or.inl h
  · exact Or.inr ⟨h1, hp _ h2⟩

theorem pix_ne_root (o : Nat) : pix o ≠ rootIx := by simp [pix, rootIx]
theorem pix_ne_stop (o : Nat) : pix o ≠ stopIx := by simp [pix, stopIx]
theorem pix_inj {a b : Nat} (h : pix a = pix b) : a = b := by simp [pix] at h; exact h


theorem presentAt_lt {ns : Array PNode} {i : Nat} (h : presentAt ns i = true) : i < ns.size := by
  rcases Nat.lt_or_ge i ns.size with h' | h'
  · exact h'
  · simp [presentAt, Array.getElem?_eq_none h'] at h

/-- what one iteration of the edge loop does to the observations -/
theorem visitEdge_effect {g : TGraphIn} {nOut p o : Nat} {st st' : St}
    (hsz : st.nodes.size = g.nodes.size + 2) (hp : p < st.nodes.size)
    (habs : ∀ i, presentAt st.nodes i = false → outOf st.nodes i = [])
    (h : visitEdge g nOut p st o = .ok st') :
    ∃ n, g.nodes[o]? = some n ∧ st'.nodes.size = st.nodes.size ∧
      (∀ i, presentAt st'.nodes i = (presentAt st.nodes i || i == pix o)) ∧
      (∀ i x, x ∈ outOf st'.nodes i ↔ x ∈ outOf st.nodes i ∨ (i = p ∧ x = pix o)) ∧
      (∀ i, presentAt st.nodes i = true → coreAt st'.nodes i = coreAt st.nodes i) ∧
      ((presentAt st.nodes (pix o) = true ∧ st'.queue = st.queue) ∨
       (presentAt st.nodes (pix o) = false ∧ st'.queue = st.queue ++ [(o, pix o)] ∧
         ∃ pn, mkNode g n = .ok pn ∧ coreAt st'.nodes (pix o) = some pn.core)) := by
  unfold visitEdge at h
  split at h
  · cases h
  · rename_i n hn
    have hon : o < g.nodes.size := by
      rcases Nat.lt_or_ge o g.nodes.size with h' | h'
      · exact h'
      · rw [Array.getElem?_eq_none h'] at hn; cases hn
    refine ⟨n, hn, ?_⟩
    split at h
    · rename_i hv
      have hv' : presentAt st.nodes (pix o) = true := hv
      cases h
      refine ⟨size_addEdge _ _ _, ?_, ?_, ?_, Or.inl ⟨hv', rfl⟩⟩
      · intro i
        simp only [presentAt_addEdge]
        by_cases hi : i = pix o
        · subst hi; simp [hv']
        · simp [hi]
      · intro i x
        simp only [mem_outOf_addEdge]
        constructor
        · rintro (h | ⟨h1, _, h3⟩)
          · exact Or.inl h
          · exact Or.inr ⟨h1, h3⟩
        · rintro (h | ⟨h1, h3⟩)
          · exact Or.inl h
          · exact Or.inr ⟨h1, hp, h3⟩
      · intro i _
        simp only [coreAt_addEdge]
    · rename_i hv
      have hv' : presentAt st.nodes (pix o) = false := by
        simpa [isVisited, presentAt] using hv
      split at h
      · cases h
      · rename_i pn hpn
        split at h
        · cases h
        · rename_i site _
          cases h
          obtain ⟨hout, hpres⟩ := mkNode_out hpn
          -- the array before the new node is stored
          generalize hns1 : (if (pn.seq.isEmpty && n.out.isEmpty && g.clip && nOut == 1) = true
            then setTruncated st.nodes p else st.nodes) = ns1
          have hsz1 : ns1.size = st.nodes.size := by
            subst hns1; split <;> simp [size_setTruncated]
          have hpr1 : ∀ i, presentAt ns1 i = presentAt st.nodes i := by
            intro i; subst hns1; split <;> simp [presentAt_setTruncated]
          have hout1 : ∀ i, outOf ns1 i = outOf st.nodes i := by
            intro i; subst hns1; split <;> simp [outOf_setTruncated]
          have hco1 : ∀ i, coreAt ns1 i = coreAt st.nodes i := by
            intro i; subst hns1; split <;> simp [coreAt_setTruncated]
          have hj : pix o < ns1.size := by rw [hsz1, hsz]; simp [pix]; omega
          simp only
          refine ⟨?_, ?_, ?_, ?_, Or.inr ⟨hv', trivial, pn, hpn, ?_⟩⟩
          · rw [size_addEdge, Array.size_setIfInBounds, hsz1]
          · intro i
            rw [presentAt_addEdge, presentAt_set _ _ _ _ hj, hpr1]
            by_cases hi : pix o = i
            · subst hi; simp [hpres]
            · have : ¬ i = pix o := fun h => hi h.symm
              simp [hi, this]
          · intro i x
            rw [mem_outOf_addEdge, outOf_set _ _ _ _ hj, hout1, Array.size_setIfInBounds, hsz1]
            by_cases hi : pix o = i
            · subst hi
              simp only [if_true, hout, habs _ hv']
              constructor
              · rintro (h | ⟨h1, _, h3⟩)
                · cases h
                · exact Or.inr ⟨h1, h3⟩
              · rintro (h | ⟨h1, h3⟩)
                · cases h
                · exact Or.inr ⟨h1, hp, h3⟩
            · simp only [hi, if_false]
              constructor
              · rintro (h | ⟨h1, _, h3⟩)
                · exact Or.inl h
                · exact Or.inr ⟨h1, h3⟩
              · rintro (h | ⟨h1, h3⟩)
                · exact Or.inl h
                · exact Or.inr ⟨h1, hp, h3⟩
          · intro i hi
            rw [coreAt_addEdge, coreAt_set _ _ _ _ hj, hco1]
            have : pix o ≠ i := by
              intro h; subst h; rw [hv'] at hi; cases hi
            simp [this]
          · rw [coreAt_addEdge, coreAt_set _ _ _ _ hj]
            simp


theorem Inv.item_lt {g : TGraphIn} {st : St} {extra : List (Nat × Nat)} (hI : Inv g st extra)
    {dp : Nat × Nat} (h : dp ∈ extra ++ st.queue) :
    dp.2 < st.nodes.size ∧ presentAt st.nodes dp.2 = true := by
  rcases hI.queue dp h with ⟨h1, _⟩ | ⟨h1, h2⟩
  · rw [h1]; exact ⟨presentAt_lt hI.rootPresent, hI.rootPresent⟩
  · rw [h1]; exact ⟨presentAt_lt h2, h2⟩

/-- one iteration of the edge loop keeps the invariant and adds the image of the edge -/
theorem visitEdge_inv {g : TGraphIn} {nOut d p o : Nat} {ty : EType} {st st' : St} {dn : DNode}
    (hI : Inv g st [(d, p)]) (hd : g.nodes[d]? = some dn) (ho : (o, ty) ∈ dn.out)
    (h : visitEdge g nOut p st o = .ok st') :
    Inv g st' [(d, p)] ∧ pix o ∈ outOf st'.nodes p ∧
      (∀ i x, x ∈ outOf st.nodes i → x ∈ outOf st'.nodes i) := by
  have hdp : (d, p) ∈ [(d, p)] ++ st.queue := by simp
  obtain ⟨hplt, hppres⟩ := hI.item_lt hdp
  have hitem := hI.queue _ hdp
  obtain ⟨n, hn, e1, e2, e3, e4, e5⟩ := visitEdge_effect hI.size hplt hI.absentOut h
  have hmono : ∀ i, presentAt st.nodes i = true → presentAt st'.nodes i = true := by
    intro i hi; rw [e2, hi]; rfl
  have hnew : presentAt st'.nodes (pix o) = true := by rw [e2]; simp
  have hqsub : ∀ x, x ∈ st.queue → x ∈ st'.queue := by
    intro x hx
    rcases e5 with ⟨_, hq⟩ | ⟨_, hq, _⟩ <;> rw [hq]
    · exact hx
    · exact List.mem_append_left _ hx
  have hedge : EdgeOk st'.nodes dn (pix o) := Or.inr ⟨(o, ty), ho, rfl, hnew⟩
  refine ⟨⟨?_, ?_, ?_, ?_, ?_, ?_, ?_, ?_, ?_, ?_⟩, (e3 p (pix o)).mpr (Or.inr ⟨rfl, rfl⟩),
    fun i x hx => (e3 i x).mpr (Or.inl hx)⟩
  · rw [e1]; exact hI.size
  · intro o' ho'
    by_cases hprev : presentAt st.nodes (pix o') = true
    · obtain ⟨dn', pn', h1, h2, h3⟩ := hI.node o' hprev
      exact ⟨dn', pn', h1, h2, by rw [e4 _ hprev]; exact h3⟩
    · have hprev' : presentAt st.nodes (pix o') = false := by simpa using hprev
      rw [e2, hprev'] at ho'
      have : o' = o := pix_inj (by simpa using ho')
      subst this
      rcases e5 with ⟨hc, _⟩ | ⟨_, _, pn, hpn, hcore⟩
      · rw [hc] at hprev'; cases hprev'
      · exact ⟨n, pn, hn, hpn, hcore⟩
  · intro o' dn' ho' q hq
    rcases (e3 _ _).mp hq with hq | ⟨hpo, rfl⟩
    · exact (hI.sound o' dn' ho' q hq).mono hmono
    · rcases hitem with ⟨h1, _⟩ | ⟨h1, _⟩
      · exact absurd (hpo.trans h1) (pix_ne_root o')
      · have : o' = d := pix_inj (hpo.trans h1)
        subst this
        rw [hd] at ho'; cases ho'
        exact hedge
  · intro q hq
    rcases (e3 _ _).mp hq with hq | ⟨hpo, rfl⟩
    · obtain ⟨d', hd', dn', h1, h2⟩ := hI.rootSound q hq
      exact ⟨d', hd', dn', h1, h2.mono hmono⟩
    · rcases hitem with ⟨_, h2⟩ | ⟨h1, _⟩
      · exact ⟨d, h2, dn, hd, hedge⟩
      · exact absurd (h1.symm.trans hpo.symm) (pix_ne_root d)
  · intro o' dn' hpres ho' hnq
    by_cases hprev : presentAt st.nodes (pix o') = true
    · have : (o', pix o') ∉ [(d, p)] ++ st.queue := by
        intro hc
        apply hnq
        rcases List.mem_append.mp hc with hc | hc
        · exact List.mem_append_left _ hc
        · exact List.mem_append_right _ (hqsub _ hc)
      exact (hI.complete o' dn' hprev ho' this).mono fun x hx => (e3 _ _).mpr (Or.inl hx)
    · have hprev' : presentAt st.nodes (pix o') = false := by simpa using hprev
      rw [e2, hprev'] at hpres
      have : o' = o := pix_inj (by simpa using hpres)
      subst this
      rcases e5 with ⟨hc, _⟩ | ⟨_, hq, _⟩
      · rw [hc] at hprev'; cases hprev'
      · exact absurd (List.mem_append_right _ (by rw [hq]; simp)) hnq
  · intro d' hd' dn' h1 hnq
    have : (d', rootIx) ∉ [(d, p)] ++ st.queue := by
      intro hc
      apply hnq
      rcases List.mem_append.mp hc with hc | hc
      · exact List.mem_append_left _ hc
      · exact List.mem_append_right _ (hqsub _ hc)
    exact (hI.rootComplete d' hd' dn' h1 this).mono fun x hx => (e3 _ _).mpr (Or.inl hx)
  · intro dp hdp'
    rcases List.mem_append.mp hdp' with hc | hc
    · exact (hI.queue dp (List.mem_append_left _ hc)).mono hmono
    · rcases e5 with ⟨_, hq⟩ | ⟨_, hq, _⟩
      · rw [hq] at hc
        exact (hI.queue dp (List.mem_append_right _ hc)).mono hmono
      · rw [hq] at hc
        rcases List.mem_append.mp hc with hc | hc
        · exact (hI.queue dp (List.mem_append_right _ hc)).mono hmono
        · simp only [List.mem_singleton] at hc
          subst hc
          exact Or.inr ⟨rfl, hnew⟩
  · intro i hi
    rw [e2] at hi
    have hi1 : presentAt st.nodes i = false := by
      cases hpi : presentAt st.nodes i
      · rfl
      · rw [hpi] at hi; cases hi
    have hip : i ≠ p := by
      intro hc; subst hc; rw [hppres] at hi1; cases hi1
    apply List.eq_nil_iff_forall_not_mem.mpr
    intro x hx
    rcases (e3 _ _).mp hx with hx | ⟨hc, _⟩
    · rw [hI.absentOut i hi1] at hx; cases hx
    · exact hip hc
  · exact hmono _ hI.rootPresent
  · intro i q hq
    rw [e1]
    rcases (e3 _ _).mp hq with hq | ⟨_, rfl⟩
    · exact hI.closed i q hq
    · rw [hI.size]
      have : o < g.nodes.size := by
        rcases Nat.lt_or_ge o g.nodes.size with h' | h'
        · exact h'
        · rw [Array.getElem?_eq_none h'] at hn; cases hn
      simp only [pix]; omega


theorem visitEdges_inv {g : TGraphIn} {nOut d p : Nat} {dn : DNode} (hd : g.nodes[d]? = some dn) :
    ∀ (es : List (Nat × EType)) (st st' : St), (∀ e ∈ es, e ∈ dn.out) → Inv g st [(d, p)] →
      visitEdges g nOut p st es = .ok st' →
      Inv g st' [(d, p)] ∧ (∀ e ∈ es, pix e.1 ∈ outOf st'.nodes p) ∧
        (∀ i x, x ∈ outOf st.nodes i → x ∈ outOf st'.nodes i) := by
  intro es
  induction es with
  | nil =>
    intro st st' _ hI h
    simp only [visitEdges] at h
    cases h
    exact ⟨hI, by simp, fun _ _ hx => hx⟩
  | cons e es ih =>
    intro st st' hsub hI h
    simp only [visitEdges] at h
    split at h
    · cases h
    · rename_i st1 h1
      obtain ⟨hI1, hin1, hm1⟩ := visitEdge_inv (ty := e.2) hI hd (hsub e (by simp)) h1
      obtain ⟨hI2, hin2, hm2⟩ := ih st1 st' (fun x hx => hsub x (by simp [hx])) hI1 h
      refine ⟨hI2, ?_, fun i x hx => hm2 i x (hm1 i x hx)⟩
      intro x hx
      rcases List.mem_cons.mp hx with rfl | hx
      · exact hm2 _ _ hin1
      · exact hin2 x hx

/-- one `queue.pop()` with its body keeps the invariant -/
theorem processItem_inv {g : TGraphIn} {d p : Nat} {st st' : St}
    (hI : Inv g st [(d, p)]) (h : processItem g st d p = .ok st') : Inv g st' [] := by
  have hdp : (d, p) ∈ [(d, p)] ++ st.queue := by simp
  obtain ⟨hplt, hppres⟩ := hI.item_lt hdp
  have hitem := hI.queue _ hdp
  unfold processItem at h
  split at h
  · cases h
  · rename_i dn hd
    split at h
    · -- a node without out-edges: the stop node
      rename_i hleaf
      have hleaf' : dn.out = [] := List.isEmpty_iff.mp hleaf
      cases h
      generalize hns : (if g.clip = true then setTruncated (addEdge st.nodes p stopIx) p
        else addEdge st.nodes p stopIx) = ns'
      have e1 : ns'.size = st.nodes.size := by
        subst hns; split <;> simp [size_setTruncated, size_addEdge]
      have e2 : ∀ i, presentAt ns' i = presentAt st.nodes i := by
        intro i; subst hns; split <;> simp [presentAt_setTruncated, presentAt_addEdge]
      have e3 : ∀ i x, x ∈ outOf ns' i ↔ x ∈ outOf st.nodes i ∨ (i = p ∧ x = stopIx) := by
        intro i x
        subst hns
        split <;> simp only [outOf_setTruncated, mem_outOf_addEdge]
        all_goals
          constructor
          · rintro (h | ⟨h1, _, h3⟩)
            · exact Or.inl h
            · exact Or.inr ⟨h1, h3⟩
          · rintro (h | ⟨h1, h3⟩)
            · exact Or.inl h
            · exact Or.inr ⟨h1, hplt, h3⟩
      have e4 : ∀ i, coreAt ns' i = coreAt st.nodes i := by
        intro i; subst hns; split <;> simp [coreAt_setTruncated, coreAt_addEdge]
      have hmono : ∀ i, presentAt st.nodes i = true → presentAt ns' i = true := by
        intro i hi; rw [e2]; exact hi
      have hedge : EdgeOk ns' dn stopIx := Or.inl ⟨rfl, hleaf'⟩
      refine ⟨?_, ?_, ?_, ?_, ?_, ?_, ?_, ?_, ?_, ?_⟩
      · rw [e1]; exact hI.size
      · intro o ho
        rw [e2] at ho
        obtain ⟨dn', pn', h1, h2, h3⟩ := hI.node o ho
        exact ⟨dn', pn', h1, h2, by rw [e4]; exact h3⟩
      · intro o dn' ho q hq
        rcases (e3 _ _).mp hq with hq | ⟨hpo, rfl⟩
        · exact (hI.sound o dn' ho q hq).mono hmono
        · rcases hitem with ⟨h1, _⟩ | ⟨h1, _⟩
          · exact absurd (hpo.trans h1) (pix_ne_root o)
          · have : o = d := pix_inj (hpo.trans h1)
            subst this
            rw [hd] at ho; cases ho
            exact hedge
      · intro q hq
        rcases (e3 _ _).mp hq with hq | ⟨hpo, rfl⟩
        · obtain ⟨d', hd', dn', h1, h2⟩ := hI.rootSound q hq
          exact ⟨d', hd', dn', h1, h2.mono hmono⟩
        · rcases hitem with ⟨_, h2⟩ | ⟨h1, _⟩
          · exact ⟨d, h2, dn, hd, hedge⟩
          · exact absurd (h1.symm.trans hpo.symm) (pix_ne_root d)
      · intro o dn' hpres ho hnq
        rw [e2] at hpres
        by_cases hc : (o, pix o) = (d, p)
        · cases hc
          rw [hd] at ho; cases ho
          refine ⟨fun _ => (e3 _ _).mpr (Or.inr ⟨rfl, rfl⟩), ?_⟩
          intro e he; rw [hleaf'] at he; cases he
        · have : (o, pix o) ∉ [(d, p)] ++ st.queue := by
            intro hc'
            rcases List.mem_append.mp hc' with hc' | hc'
            · exact hc (by simpa using hc')
            · exact hnq (by simpa using hc')
          exact (hI.complete o dn' hpres ho this).mono fun x hx => (e3 _ _).mpr (Or.inl hx)
      · intro d' hd' dn' h1 hnq
        by_cases hc : (d', rootIx) = (d, p)
        · cases hc
          rw [hd] at h1; cases h1
          refine ⟨fun _ => (e3 _ _).mpr (Or.inr ⟨rfl, rfl⟩), ?_⟩
          intro e he; rw [hleaf'] at he; cases he
        · have : (d', rootIx) ∉ [(d, p)] ++ st.queue := by
            intro hc'
            rcases List.mem_append.mp hc' with hc' | hc'
            · exact hc (by simpa using hc')
            · exact hnq (by simpa using hc')
          exact (hI.rootComplete d' hd' dn' h1 this).mono fun x hx => (e3 _ _).mpr (Or.inl hx)
      · intro dp hdp'
        exact (hI.queue dp (List.mem_append_right _ (by simpa using hdp'))).mono hmono
      · intro i hi
        rw [e2] at hi
        have hip : i ≠ p := by
          intro hc; subst hc; rw [hppres] at hi; cases hi
        apply List.eq_nil_iff_forall_not_mem.mpr
        intro x hx
        rcases (e3 _ _).mp hx with hx | ⟨hc, _⟩
        · rw [hI.absentOut i hi] at hx; cases hx
        · exact hip hc
      · exact hmono _ hI.rootPresent
      · intro i q hq
        rw [e1]
        rcases (e3 _ _).mp hq with hq | ⟨_, rfl⟩
        · exact hI.closed i q hq
        · rw [hI.size]; simp only [stopIx]; omega
    · -- the edge loop
      rename_i hne
      have hne' : dn.out ≠ [] := fun hc => hne (List.isEmpty_iff.mpr hc)
      obtain ⟨hI', hin, _⟩ := visitEdges_inv hd dn.out st st' (fun _ he => he) hI h
      have hitem' := hI'.queue _ (by simp : (d, p) ∈ [(d, p)] ++ st'.queue)
      refine ⟨hI'.size, hI'.node, hI'.sound, hI'.rootSound, ?_, ?_, ?_, hI'.absentOut, hI'.rootPresent, hI'.closed⟩
      · intro o dn' hpres ho hnq
        by_cases hc : (o, pix o) = (d, p)
        · cases hc
          rw [hd] at ho; cases ho
          exact ⟨fun h0 => absurd h0 hne', hin⟩
        · have : (o, pix o) ∉ [(d, p)] ++ st'.queue := by
            intro hc'
            rcases List.mem_append.mp hc' with hc' | hc'
            · exact hc (by simpa using hc')
            · exact hnq (by simpa using hc')
          exact hI'.complete o dn' hpres ho this
      · intro d' hd' dn' h1 hnq
        by_cases hc : (d', rootIx) = (d, p)
        · cases hc
          rw [hd] at h1; cases h1
          exact ⟨fun h0 => absurd h0 hne', hin⟩
        · have : (d', rootIx) ∉ [(d, p)] ++ st'.queue := by
            intro hc'
            rcases List.mem_append.mp hc' with hc' | hc'
            · exact hc (by simpa using hc')
            · exact hnq (by simpa using hc')
          exact hI'.rootComplete d' hd' dn' h1 this
      · intro dp hdp'
        exact hI'.queue dp (List.mem_append_right _ (by simpa using hdp'))

/-- the search ends with an empty queue and keeps the invariant -/
theorem bfs_inv {g : TGraphIn} : ∀ (fuel : Nat) (st st' : St), Inv g st [] →
    bfs g fuel st = .ok st' → Inv g st' [] ∧ st'.queue = [] := by
  intro fuel
  induction fuel with
  | zero =>
    intro st st' hI h
    simp only [bfs] at h
    split at h
    · rename_i he
      cases h
      exact ⟨hI, List.isEmpty_iff.mp he⟩
    · cases h
  | succ n ih =>
    intro st st' hI h
    unfold bfs at h
    split at h
    · rename_i hq
      cases h
      exact ⟨hI, hq⟩
    · rename_i d p q hq
      split at h
      · cases h
      · rename_i st1 h1
        have hI1 : Inv g { st with queue := q } [(d, p)] := by
          have hqq : ∀ x, x ∈ [(d, p)] ++ q ↔ x ∈ [] ++ st.queue := by
            intro x; rw [hq]; simp
          exact ⟨hI.size, hI.node, hI.sound, hI.rootSound,
            fun o dn hp ho hn => hI.complete o dn hp ho (fun hc => hn ((hqq _).mpr hc)),
            fun d' hd' dn h1 hn => hI.rootComplete d' hd' dn h1 (fun hc => hn ((hqq _).mpr hc)),
            fun dp hdp => hI.queue dp ((hqq _).mp hdp), hI.absentOut, hI.rootPresent, hI.closed⟩
        exact ih st1 st' (processItem_inv hI1 h1) h


/-! ### the initial state -/

theorem initSt_get (g : TGraphIn) (i : Nat) :
    (initSt g).nodes[i]? = if i = 0 then some { seq := [], isNull := true, rf := 3 }
      else if i = 1 then some { seq := ['*'], rf := 3 }
      else if i < g.nodes.size + 2 then some absent else none := by
  simp only [initSt, Array.getElem?_append, Array.getElem?_replicate]
  match i with
  | 0 => simp
  | 1 => simp
  | k + 2 =>
    have h1 : ¬ (k + 2 < 2) := by omega
    have h2 : ¬ (k + 2 = 0) := by omega
    have h3 : ¬ (k + 2 = 1) := by omega
    have h4 : k + 2 - 2 = k := by omega
    simp only [List.size_toArray, List.length_cons, List.length_nil, h1, h2, h3, if_false, h4]
    by_cases hk : k < g.nodes.size
    · have : k + 2 < g.nodes.size + 2 := by omega
      simp [hk, this]
    · have : ¬ k + 2 < g.nodes.size + 2 := by omega
      simp [hk, this]

theorem initSt_outOf (g : TGraphIn) (i : Nat) : outOf (initSt g).nodes i = [] := by
  unfold outOf
  rw [initSt_get]
  split
  · rfl
  · split
    · rfl
    · split <;> rfl

theorem initSt_present_pix (g : TGraphIn) (o : Nat) : presentAt (initSt g).nodes (pix o) = false := by
  unfold presentAt
  rw [initSt_get]
  have h1 : ¬ pix o = 0 := by simp [pix]
  have h2 : ¬ pix o = 1 := by simp [pix]
  simp only [h1, h2, if_false]
  split <;> rfl

theorem initSt_inv (g : TGraphIn) : Inv g (initSt g) [] := by
  refine ⟨?_, ?_, ?_, ?_, ?_, ?_, ?_, ?_, ?_, ?_⟩
  · simp [initSt]; omega
  · intro o ho; rw [initSt_present_pix] at ho; cases ho
  · intro o dn _ q hq; rw [initSt_outOf] at hq; cases hq
  · intro q hq; rw [initSt_outOf] at hq; cases hq
  · intro o dn hp; rw [initSt_present_pix] at hp; cases hp
  · intro d hd dn _ hnq
    exfalso; apply hnq
    simp only [initSt, List.nil_append, List.mem_map, List.mem_reverse]
    exact ⟨d, hd, rfl⟩
  · intro dp hdp
    simp only [initSt, List.nil_append, List.mem_map, List.mem_reverse] at hdp
    obtain ⟨d, hd, rfl⟩ := hdp
    exact Or.inl ⟨rfl, hd⟩
  · intro i _; exact initSt_outOf g i
  · simp [presentAt, rootIx, initSt_get]
  · intro i q hq; rw [initSt_outOf] at hq; cases hq

/-- what holds when the search of `translate` is over: every reached TVG node has its
translation, whose out-edges are exactly the images of its out-edges (the stop node for a leaf) -/
structure Final (g : TGraphIn) (st : St) : Prop where
  size : st.nodes.size = g.nodes.size + 2
  node : ∀ o, presentAt st.nodes (pix o) = true →
    ∃ dn pn, g.nodes[o]? = some dn ∧ mkNode g dn = .ok pn ∧ coreAt st.nodes (pix o) = some pn.core
  outs : ∀ o dn, presentAt st.nodes (pix o) = true → g.nodes[o]? = some dn → ∀ q,
    q ∈ outOf st.nodes (pix o) ↔
      (q = stopIx ∧ dn.out = []) ∨ ∃ e ∈ dn.out, q = pix e.1
  reach : ∀ o dn, presentAt st.nodes (pix o) = true → g.nodes[o]? = some dn →
    ∀ e ∈ dn.out, presentAt st.nodes (pix e.1) = true
  rootOuts : ∀ q, q ∈ outOf st.nodes rootIx ↔
    ∃ d ∈ g.frames, ∃ dn, g.nodes[d]? = some dn ∧ ((q = stopIx ∧ dn.out = []) ∨ ∃ e ∈ dn.out, q = pix e.1)
  rootReach : ∀ d ∈ g.frames, ∀ dn, g.nodes[d]? = some dn →
    ∀ e ∈ dn.out, presentAt st.nodes (pix e.1) = true
  closed : ∀ i q, q ∈ outOf st.nodes i → q < st.nodes.size

theorem translateCore_final {g : TGraphIn} {st : St} (h : translateCore g = .ok st) : Final g st := by
  unfold translateCore at h
  split at h
  · cases h
  · obtain ⟨hI, hq⟩ := bfs_inv _ _ _ (initSt_inv g) h
    have hnq : ∀ x : Nat × Nat, x ∉ [] ++ st.queue := by intro x; rw [hq]; simp
    have edge_present : ∀ (dn : DNode) (q : Nat), EdgeOk st.nodes dn q → ∀ e ∈ dn.out, q = pix e.1 →
        presentAt st.nodes (pix e.1) = true := by
      intro dn q hq' e _ hqe
      rcases hq' with ⟨h1, _⟩ | ⟨e', _, h1, h2⟩
      · exact absurd (hqe.symm.trans h1) (pix_ne_stop _)
      · have : e.1 = e'.1 := pix_inj (hqe.symm.trans h1)
        rw [this]; exact h2
    have edge_shape : ∀ (dn : DNode) (q : Nat), EdgeOk st.nodes dn q →
        (q = stopIx ∧ dn.out = []) ∨ ∃ e ∈ dn.out, q = pix e.1 := by
      intro dn q hq'
      rcases hq' with h1 | ⟨e, he, h1, _⟩
      · exact Or.inl h1
      · exact Or.inr ⟨e, he, h1⟩
    refine ⟨hI.size, hI.node, ?_, ?_, ?_, ?_, hI.closed⟩
    · intro o dn hp ho q
      have hc := hI.complete o dn hp ho (hnq _)
      constructor
      · intro hq'; exact edge_shape dn q (hI.sound o dn ho q hq')
      · rintro (⟨rfl, h0⟩ | ⟨e, he, rfl⟩)
        · exact hc.1 h0
        · exact hc.2 e he
    · intro o dn hp ho e he
      have hc := hI.complete o dn hp ho (hnq _)
      exact edge_present dn _ (hI.sound o dn ho _ (hc.2 e he)) e he rfl
    · intro q
      constructor
      · intro hq'
        obtain ⟨d, hd, dn, h1, h2⟩ := hI.rootSound q hq'
        exact ⟨d, hd, dn, h1, edge_shape dn q h2⟩
      · rintro ⟨d, hd, dn, h1, h2⟩
        have hc := hI.rootComplete d hd dn h1 (hnq _)
        rcases h2 with ⟨rfl, h0⟩ | ⟨e, he, rfl⟩
        · exact hc.1 h0
        · exact hc.2 e he
    · intro d hd dn h1 e he
      have hc := hI.rootComplete d hd dn h1 (hnq _)
      obtain ⟨d', _, dn', h1', h2'⟩ := hI.rootSound _ (hc.2 e he)
      rcases h2' with ⟨h3, _⟩ | ⟨e', _, h3, h4⟩
      · exact absurd h3 (pix_ne_stop _)
      · have : e.1 = e'.1 := pix_inj h3
        rw [this]; exact h4


/-! ### the two graphs as Layer G graphs -/

theorem toGraph_get (g : TGraphIn) (o : Nat) :
    g.toGraph[o]? = g.nodes[o]?.map fun n =>
      { seq := n.seq, vars := n.vars.flatMap (·.ids), out := n.out.map (·.1), rf := n.rf } := by
  simp [TGraphIn.toGraph]

theorem toGraph_size (g : TGraphIn) : g.toGraph.size = g.nodes.size := by
  simp [TGraphIn.toGraph]

theorem isStopNode_toGraph (g : TGraphIn) (o : Nat) : isStopNode g.toGraph o = false := by
  unfold isStopNode
  rw [toGraph_get]
  cases g.nodes[o]? <;> rfl

theorem succs_toGraph (g : TGraphIn) (o : Nat) :
    succs g.toGraph o = ((g.nodes[o]?.map fun n => n.out.map (·.1)).getD []) := by
  unfold succs
  rw [toGraph_get]
  cases g.nodes[o]? with
  | none => rfl
  | some n =>
    simp only [Option.map_some, Option.getD_some]
    apply List.filter_eq_self.mpr
    intro a _
    simp [isStopNode_toGraph]

theorem nodeSeq_toGraph (g : TGraphIn) (o : Nat) :
    nodeSeq g.toGraph o = ((g.nodes[o]?.map (·.seq)).getD []) := by
  unfold nodeSeq
  rw [toGraph_get]
  cases g.nodes[o]? <;> rfl

theorem nodesGraph_get (ns : Array PNode) (i : Nat) :
    (nodesGraph ns)[i]? = ns[i]?.map fun n =>
      { seq := n.seq, vars := n.vars.flatMap (·.ids), out := n.out, rf := n.rf,
        isStop := i == stopIx } := by
  simp [nodesGraph]

theorem nodesGraph_size (ns : Array PNode) : (nodesGraph ns).size = ns.size := by
  simp [nodesGraph]

theorem isStopNode_nodesGraph (ns : Array PNode) (h2 : 2 ≤ ns.size) (i : Nat) :
    isStopNode (nodesGraph ns) i = (i == stopIx) := by
  unfold isStopNode
  rw [nodesGraph_get]
  cases hi : ns[i]? with
  | some n => rfl
  | none =>
    have : ns.size ≤ i := by
      rcases Nat.lt_or_ge i ns.size with h | h
      · rw [Array.getElem?_eq_getElem h] at hi; cases hi
      · exact h
    have : i ≠ stopIx := by simp [stopIx]; omega
    simp [this]

theorem succs_nodesGraph (ns : Array PNode) (h2 : 2 ≤ ns.size) (i : Nat) :
    succs (nodesGraph ns) i = (outOf ns i).filter (· != stopIx) := by
  unfold succs outOf
  rw [nodesGraph_get]
  cases ns[i]? with
  | none => rfl
  | some n =>
    simp only [Option.map_some, Option.getD_some]
    apply List.filter_congr
    intro a _
    rw [isStopNode_nodesGraph ns h2]
    rfl

theorem nodeSeq_nodesGraph (ns : Array PNode) (i : Nat) :
    nodeSeq (nodesGraph ns) i = ((ns[i]?.map (·.seq)).getD []) := by
  unfold nodeSeq
  rw [nodesGraph_get]
  cases ns[i]? <;> rfl


/-! ### (a) structure: maximal paths of the input graph ↔ maximal paths of the searched graph -/

theorem Final.size2 {g : TGraphIn} {st : St} (hF : Final g st) : 2 ≤ st.nodes.size := by
  rw [hF.size]; omega

theorem Final.succs_iff {g : TGraphIn} {st : St} (hF : Final g st) {o : Nat} {dn : DNode}
    (hp : presentAt st.nodes (pix o) = true) (ho : g.nodes[o]? = some dn) (q : Nat) :
    q ∈ succs (nodesGraph st.nodes) (pix o) ↔ ∃ o' ∈ succs g.toGraph o, q = pix o' := by
  rw [succs_nodesGraph _ hF.size2, succs_toGraph, ho]
  simp only [List.mem_filter, bne_iff_ne, ne_eq, Option.map_some, Option.getD_some, List.mem_map]
  rw [hF.outs o dn hp ho q]
  constructor
  · rintro ⟨⟨h1, _⟩ | ⟨e, he, rfl⟩, hne⟩
    · exact absurd h1 hne
    · exact ⟨e.1, ⟨e, he, rfl⟩, rfl⟩
  · rintro ⟨o', ⟨e, he, rfl⟩, rfl⟩
    exact ⟨Or.inr ⟨e, he, rfl⟩, pix_ne_stop _⟩

theorem Final.succ_present {g : TGraphIn} {st : St} (hF : Final g st) {o o' : Nat}
    (hp : presentAt st.nodes (pix o) = true) (ho' : o' ∈ succs g.toGraph o) :
    presentAt st.nodes (pix o') = true := by
  obtain ⟨dn, pn, ho, _, _⟩ := hF.node o hp
  rw [succs_toGraph, ho] at ho'
  simp only [Option.map_some, Option.getD_some, List.mem_map] at ho'
  obtain ⟨e, he, rfl⟩ := ho'
  exact hF.reach o dn hp ho e he

/-- a maximal path of the input graph is, node by node, a maximal path of the searched graph -/
theorem Final.path_of_tvg {g : TGraphIn} {st : St} (hF : Final g st) {o : Nat} {p : List Nat}
    (hm : MaxPath g.toGraph o p) :
    presentAt st.nodes (pix o) = true → MaxPath (nodesGraph st.nodes) (pix o) (p.map pix) := by
  induction hm with
  | @leaf i hi hs =>
    intro hp
    obtain ⟨dn, pn, ho, _, _⟩ := hF.node i hp
    refine MaxPath.leaf (by rw [nodesGraph_size]; exact presentAt_lt hp) ?_
    apply List.eq_nil_iff_forall_not_mem.mpr
    intro q hq
    obtain ⟨o', ho', _⟩ := (hF.succs_iff hp ho q).mp hq
    rw [hs] at ho'; cases ho'
  | @step i o' p hi ho' _ ih =>
    intro hp
    obtain ⟨dn, pn, ho, _, _⟩ := hF.node i hp
    have hp' := hF.succ_present hp ho'
    exact MaxPath.step (by rw [nodesGraph_size]; exact presentAt_lt hp)
      ((hF.succs_iff hp ho _).mpr ⟨o', ho', rfl⟩) (ih hp')

/-- … and every maximal path of the searched graph from the image of a reached node is the
image of a maximal path of the input graph -/
theorem Final.tvg_of_path {g : TGraphIn} {st : St} (hF : Final g st) {i : Nat} {q : List Nat}
    (hm : MaxPath (nodesGraph st.nodes) i q) :
    ∀ o, i = pix o → presentAt st.nodes (pix o) = true →
      ∃ p, MaxPath g.toGraph o p ∧ q = p.map pix := by
  induction hm with
  | @leaf i hi hs =>
    intro o hio hp
    subst hio
    obtain ⟨dn, pn, ho, _, _⟩ := hF.node o hp
    have hlt : o < g.toGraph.size := by
      rw [toGraph_size]
      rcases Nat.lt_or_ge o g.nodes.size with h | h
      · exact h
      · rw [Array.getElem?_eq_none h] at ho; cases ho
    refine ⟨[o], MaxPath.leaf hlt ?_, rfl⟩
    apply List.eq_nil_iff_forall_not_mem.mpr
    intro o' ho'
    have := (hF.succs_iff hp ho (pix o')).mpr ⟨o', ho', rfl⟩
    rw [hs] at this; cases this
  | @step i j q hi hj _ ih =>
    intro o hio hp
    subst hio
    obtain ⟨dn, pn, ho, _, _⟩ := hF.node o hp
    have hlt : o < g.toGraph.size := by
      rw [toGraph_size]
      rcases Nat.lt_or_ge o g.nodes.size with h | h
      · exact h
      · rw [Array.getElem?_eq_none h] at ho; cases ho
    obtain ⟨o', ho', rfl⟩ := (hF.succs_iff hp ho j).mp hj
    obtain ⟨p, hpth, rfl⟩ := ih o' rfl (hF.succ_present hp ho')
    exact ⟨o :: p, MaxPath.step hlt ho' hpth, rfl⟩


/-! ### (b) the sequence of a translated node -/

/-- truncating to whole codons first (`self.seq[:len - len % 3]`) does not change the translation -/
theorem translate_take_whole (s : List Char) :
    translate (s.take (s.length - s.length % 3)) = translate s := by
  induction s using translate.induct with
  | case1 a b c rest ih =>
    have h : (a :: b :: c :: rest).length - (a :: b :: c :: rest).length % 3
        = (rest.length - rest.length % 3) + 3 := by
      simp only [List.length_cons]
      have := Nat.mod_le rest.length 3
      omega
    rw [h]
    simp only [List.take_succ_cons, translate, ih]
  | case2 l hl =>
    match l, hl with
    | [], _ => simp [translate]
    | [_], _ => simp [translate]
    | [_, _], _ => simp [translate]
    | x :: y :: z :: r, hl => exact absurd rfl (hl x y z r)

theorem nodeAA_eq (n : DNode) : nodeAA n = translate n.seq := by
  unfold nodeAA
  split
  · exact translate_take_whole _
  · rfl

/-- the protein sequence read with `U` at the listed positions (`i` = position of the head) -/
def secRead (ks : List Nat) : Nat → List Char → List Char
  | _, [] => []
  | i, c :: cs => (if ks.contains i then 'U' else c) :: secRead ks (i + 1) cs

theorem secRead_length (ks : List Nat) : ∀ (i : Nat) (w : List Char), (secRead ks i w).length = w.length := by
  intro i w
  induction w generalizing i with
  | nil => rfl
  | cons c cs ih => simp [secRead, ih]

theorem secRead_append (ks : List Nat) : ∀ (i : Nat) (a b : List Char),
    secRead ks i (a ++ b) = secRead ks i a ++ secRead ks (i + a.length) b := by
  intro i a
  induction a generalizing i with
  | nil => intro b; simp [secRead]
  | cons c cs ih =>
    intro b
    simp only [List.cons_append, secRead, ih, List.length_cons]
    have : i + 1 + cs.length = i + (cs.length + 1) := by omega
    rw [this]

/-- no listed position inside the stretch: nothing changes -/
theorem secRead_none (ks : List Nat) : ∀ (i : Nat) (w : List Char),
    (∀ k ∈ ks, k < i ∨ i + w.length ≤ k) → secRead ks i w = w := by
  intro i w
  induction w generalizing i with
  | nil => intros; rfl
  | cons c cs ih =>
    intro h
    have hi : ks.contains i = false := by
      cases hc : ks.contains i
      · rfl
      · have := h i (by simpa using hc)
        simp only [List.length_cons] at this
        omega
    simp only [secRead, hi, Bool.false_eq_true, if_false]
    rw [ih (i + 1)]
    intro k hk
    have := h k hk
    simp only [List.length_cons] at this
    omega

theorem secRead_nil (i : Nat) (w : List Char) : secRead [] i w = w :=
  secRead_none [] i w (by simp)

/-- positions in front of the stretch do not matter -/
theorem secRead_cons_lt (k : Nat) (ks : List Nat) : ∀ (i : Nat) (w : List Char), k < i →
    secRead (k :: ks) i w = secRead ks i w := by
  intro i w
  induction w generalizing i with
  | nil => intros; rfl
  | cons c cs ih =>
    intro h
    have : ((k :: ks).contains i) = ks.contains i := by
      have hne : i ≠ k := by omega
      simp [hne]
    simp only [secRead, this]
    rw [ih (i + 1) (by omega)]

/-- strictly ascending positions, all behind `lo` -/
def AscFrom : Nat → List Nat → Prop
  | _, [] => True
  | lo, k :: ks => lo ≤ k ∧ AscFrom (k + 1) ks

theorem AscFrom.all_ge {lo : Nat} {ks : List Nat} (h : AscFrom lo ks) : ∀ k ∈ ks, lo ≤ k := by
  induction ks generalizing lo with
  | nil => intro k hk; cases hk
  | cons a as ih =>
    intro k hk
    rcases List.mem_cons.mp hk with rfl | hk
    · exact h.1
    · have := ih h.2 k hk
      have h1 := h.1
      omega

theorem drop_eq_slice_cons (w : List Char) (a k : Nat) (hak : a ≤ k) (hk : k < w.length) :
    w.drop a = slice w a k ++ w[k] :: w.drop (k + 1) := by
  unfold slice
  have h1 : w.drop a = (w.drop a).take (k - a) ++ (w.drop a).drop (k - a) :=
    (List.take_append_drop _ _).symm
  rw [List.drop_drop] at h1
  have h2 : a + (k - a) = k := by omega
  rw [h2] at h1
  rw [h1.symm.symm]
  conv => lhs; rw [h1]
  rw [List.drop_eq_getElem_cons hk]

/-- the rebuilding loop of `fix_selenocysteines`, for strictly ascending positions inside the
sequence: the rest of the sequence behind the previous position, read with `U` at the positions -/
theorem rebuildSec_some (w : List Char) : ∀ (ks : List Nat) (p : Nat), AscFrom (p + 1) ks →
    (∀ k ∈ ks, k < w.length) →
    rebuildSec w (some p) ks = secRead ks (p + 1) (w.drop (p + 1)) := by
  intro ks
  induction ks with
  | nil => intro p _ _; simp [rebuildSec, secRead_nil]
  | cons k ks ih =>
    intro p hasc hlt
    have hk : k < w.length := hlt k (by simp)
    have hpk : p + 1 ≤ k := hasc.1
    simp only [rebuildSec]
    rw [ih k hasc.2 (fun x hx => hlt x (by simp [hx]))]
    rw [drop_eq_slice_cons w (p + 1) k hpk hk, secRead_append]
    have hlen : (slice w (p + 1) k).length = k - (p + 1) := by
      simp only [slice, List.length_take, List.length_drop]; omega
    have hfirst : secRead (k :: ks) (p + 1) (slice w (p + 1) k) = slice w (p + 1) k := by
      apply secRead_none
      intro x hx
      rw [hlen]
      rcases List.mem_cons.mp hx with rfl | hx
      · right; omega
      · have := hasc.2.all_ge x hx; right; omega
    rw [hfirst, hlen]
    have hidx : p + 1 + (k - (p + 1)) = k := by omega
    rw [hidx]
    simp only [secRead, List.contains_cons, beq_self_eq_true, Bool.true_or, if_true]
    rw [secRead_cons_lt k ks (k + 1) _ (by omega)]

theorem rebuildSec_none (w : List Char) (ks : List Nat) (hasc : AscFrom 0 ks)
    (hlt : ∀ k ∈ ks, k < w.length) : rebuildSec w none ks = secRead ks 0 w := by
  cases ks with
  | nil => simp [rebuildSec, secRead_nil]
  | cons k ks =>
    have hk : k < w.length := hlt k (by simp)
    simp only [rebuildSec]
    rw [rebuildSec_some w ks k hasc.2 (fun x hx => hlt x (by simp [hx]))]
    have hw : w = w.take k ++ w[k] :: w.drop (k + 1) := by
      conv => lhs; rw [← List.take_append_drop k w, List.drop_eq_getElem_cons hk]
    conv => rhs; rw [hw, secRead_append]
    have hlen : (w.take k).length = k := by simp [List.length_take]; omega
    have hfirst : secRead (k :: ks) 0 (w.take k) = w.take k := by
      apply secRead_none
      intro x hx
      rw [hlen]
      rcases List.mem_cons.mp hx with rfl | hx
      · right; omega
      · have := hasc.2.all_ge x hx; right; omega
    rw [hfirst, hlen]
    simp only [Nat.zero_add, secRead, List.contains_cons, beq_self_eq_true, Bool.true_or, if_true]
    rw [secRead_cons_lt k ks (k + 1) _ (by omega)]


/-- the positions `fix_selenocysteines` collects for the node made from `n` -/
def secHits (g : TGraphIn) (n : DNode) : List Nat := secLoop (n.locs.map aaLoc) g.sect

/-- the protein sequence of the `PVGNode` made from the TVG node `n` of a linear transcript:
the translation of its DNA, rebuilt around the selenocysteine positions; an empty sequence of
a node without successor reads `*` unless trailing nodes are clipped -/
def nodeProt (g : TGraphIn) (n : DNode) : List Char :=
  let aa := rebuildSec (translate n.seq) none (secHits g n)
  if aa.isEmpty && n.out.isEmpty && !g.clip then ['*'] else aa

theorem mkNode_seq {g : TGraphIn} {n : DNode} {pn : PNode} (hc : g.isCirc = false)
    (h : mkNode g n = .ok pn) :
    pn.seq = nodeProt g n ∧ pn.secs = secHits g n ∧
      ∀ k ∈ secHits g n, k < (translate n.seq).length := by
  unfold mkNode at h
  split at h
  · cases h
  · simp only [hc, Bool.false_eq_true, if_false, nodeAA_eq] at h
    unfold fixSelenocysteines at h
    simp only at h
    split at h
    · cases h
    · rename_i aa secs heq
      split at heq
      · cases heq
      · rename_i hany
        cases heq
        cases h
        refine ⟨rfl, rfl, ?_⟩
        intro k hk
        rcases Nat.lt_or_ge k (translate n.seq).length with h' | h'
        · exact h'
        · exfalso; apply hany
          simp only [List.any_eq_true, decide_eq_true_eq]
          exact ⟨k, hk, h'⟩

def protOf (g : TGraphIn) (o : Nat) : List Char :=
  match g.nodes[o]? with
  | some n => nodeProt g n
  | none => []

theorem Final.nodeSeq_eq {g : TGraphIn} {st : St} (hF : Final g st) (hc : g.isCirc = false) {o : Nat}
    (hp : presentAt st.nodes (pix o) = true) :
    nodeSeq (nodesGraph st.nodes) (pix o) = protOf g o := by
  obtain ⟨dn, pn, ho, hmk, hcore⟩ := hF.node o hp
  rw [nodeSeq_nodesGraph, protOf, ho]
  simp only
  rw [← (mkNode_seq hc hmk).1]
  unfold coreAt at hcore
  cases hn : st.nodes[pix o]? with
  | none => rw [hn] at hcore; cases hcore
  | some n =>
    rw [hn] at hcore
    simp only [Option.map_some, Option.some.injEq, PNode.core, Prod.mk.injEq] at hcore
    simp [hcore.1]

/-- node by node, the sequence of the image path is the sequence `mkNode` gives each node -/
theorem Final.pathSeq_eq {g : TGraphIn} {st : St} (hF : Final g st) (hc : g.isCirc = false)
    {o : Nat} {p : List Nat} (hm : MaxPath g.toGraph o p) :
    presentAt st.nodes (pix o) = true →
      pathSeq (nodesGraph st.nodes) (p.map pix) = p.flatMap (protOf g) := by
  induction hm with
  | @leaf i _ _ =>
    intro hp
    simp [pathSeq, hF.nodeSeq_eq hc hp]
  | @step i o' p _ ho' _ ih =>
    intro hp
    have := ih (hF.succ_present hp ho')
    simp only [pathSeq, List.map_cons, List.flatMap_cons] at this ⊢
    rw [this, hF.nodeSeq_eq hc hp]


/-! ### (b) the sequence of a path: translation of the path's DNA, read with `U` at the hits -/

theorem secRead_ext (ks ks' : List Nat) : ∀ (w : List Char) (i i' : Nat),
    (∀ j, j < w.length → ks.contains (i + j) = ks'.contains (i' + j)) →
    secRead ks i w = secRead ks' i' w := by
  intro w
  induction w with
  | nil => intros; rfl
  | cons c cs ih =>
    intro i i' h
    have h0 := h 0 (by simp)
    simp only [Nat.add_zero] at h0
    simp only [secRead, h0]
    rw [ih (i + 1) (i' + 1)]
    intro j hj
    have := h (j + 1) (by simp only [List.length_cons]; omega)
    have e1 : i + 1 + j = i + (j + 1) := by omega
    have e2 : i' + 1 + j = i' + (j + 1) := by omega
    rw [e1, e2]; exact this

/-- hits of a first piece (all inside it) and the shifted hits of a second piece -/
theorem secRead_two (A B : List Nat) (a b : List Char) (hA : ∀ k ∈ A, k < a.length) :
    secRead (A ++ B.map (· + a.length)) 0 (a ++ b) = secRead A 0 a ++ secRead B 0 b := by
  rw [secRead_append]
  congr 1
  · apply secRead_ext
    intro j hj
    simp only [Nat.zero_add]
    rw [Bool.eq_iff_iff]
    simp only [List.contains_iff_mem, List.mem_append, List.mem_map]
    constructor
    · rintro (h | ⟨x, _, hx⟩)
      · exact h
      · omega
    · intro h; exact Or.inl h
  · apply secRead_ext
    intro j _
    simp only [Nat.zero_add]
    rw [Bool.eq_iff_iff]
    simp only [List.contains_iff_mem, List.mem_append, List.mem_map]
    constructor
    · rintro (h | ⟨x, hx, hxe⟩)
      · have := hA _ h; omega
      · have : x = j := by omega
        rw [← this]; exact hx
    · intro h; exact Or.inr ⟨j, h, by omega⟩

/-- the DNA of node `o` -/
def dnaOf (g : TGraphIn) (o : Nat) : List Char := (g.nodes[o]?.map (·.seq)).getD []

/-- the selenocysteine positions of a path, in the coordinates of the path's protein -/
def pathHits (g : TGraphIn) : List Nat → List Nat
  | [] => []
  | o :: rest =>
    ((g.nodes[o]?.map (secHits g)).getD []) ++
      (pathHits g rest).map (· + (translate (dnaOf g o)).length)

/-- the positions collected for node `o` are strictly ascending and inside its translation (the
second part holds whenever `mkNode` succeeds, `mkNode_seq`) -/
def HitsOk (g : TGraphIn) (o : Nat) : Prop :=
  ∀ n, g.nodes[o]? = some n → AscFrom 0 (secHits g n) ∧ ∀ k ∈ secHits g n, k < (translate n.seq).length

/-- the `*` that stands for an EMPTY last node (`new_pnode.seq.seq = Seq('*')`) -/
def endStar (g : TGraphIn) (p : List Nat) : List Char :=
  match p.getLast? with
  | some o => if (translate (dnaOf g o)).isEmpty && !g.clip then ['*'] else []
  | none => []

theorem nodeProt_of_hitsOk {g : TGraphIn} {o : Nat} {n : DNode} (ho : g.nodes[o]? = some n)
    (hok : HitsOk g o) :
    nodeProt g n = let aa := secRead (secHits g n) 0 (translate n.seq)
      if aa.isEmpty && n.out.isEmpty && !g.clip then ['*'] else aa := by
  obtain ⟨h1, h2⟩ := hok n ho
  simp only [nodeProt, rebuildSec_none _ _ h1 h2]

theorem translatePath_toGraph (g : TGraphIn) (p : List Nat) :
    translatePath g.toGraph p = p.flatMap fun o => translate (dnaOf g o) := by
  simp only [translatePath, nodeSeq_toGraph, dnaOf]

theorem path_prot {g : TGraphIn} {o : Nat} {p : List Nat} (hm : MaxPath g.toGraph o p) :
    (∀ o' ∈ p, HitsOk g o') →
    p.flatMap (protOf g) = secRead (pathHits g p) 0 (translatePath g.toGraph p) ++ endStar g p := by
  induction hm with
  | @leaf i hi hs =>
    intro hok
    rw [toGraph_size] at hi
    have hn : g.nodes[i]? = some g.nodes[i] := Array.getElem?_eq_getElem hi
    generalize g.nodes[i] = n at hn
    have hout : n.out = [] := by
      rw [succs_toGraph, hn] at hs
      simpa using hs
    have hdna : dnaOf g i = n.seq := by simp [dnaOf, hn]
    simp only [List.flatMap_cons, List.flatMap_nil, List.append_nil, protOf, hn,
      nodeProt_of_hitsOk hn (hok i (by simp)), translatePath_toGraph, pathHits, List.map_nil,
      Option.map_some, Option.getD_some, endStar, List.getLast?_singleton, hdna, hout,
      List.isEmpty_nil, Bool.and_true]
    have hlen := secRead_length (secHits g n) 0 (translate n.seq)
    cases htr : translate n.seq with
    | nil => simp [secRead]
    | cons c cs =>
      rw [htr] at hlen
      cases hsr : secRead (secHits g n) 0 (c :: cs) with
      | nil => rw [hsr] at hlen; simp at hlen
      | cons _ _ => simp
  | @step i o' p hi ho' hp ih =>
    intro hok
    rw [toGraph_size] at hi
    have hn : g.nodes[i]? = some g.nodes[i] := Array.getElem?_eq_getElem hi
    generalize g.nodes[i] = n at hn
    have hout : n.out.isEmpty = false := by
      rw [succs_toGraph, hn] at ho'
      simp only [Option.map_some, Option.getD_some, List.mem_map] at ho'
      obtain ⟨e, he, _⟩ := ho'
      cases hno : n.out with
      | nil => rw [hno] at he; cases he
      | cons _ _ => rfl
    have hdna : dnaOf g i = n.seq := by simp [dnaOf, hn]
    have hih := ih (fun x hx => hok x (by simp [hx]))
    simp only [translatePath_toGraph] at hih
    have hne : p ≠ [] := by cases hp <;> simp
    have hstar : endStar g (i :: p) = endStar g p := by
      cases p with
      | nil => exact absurd rfl hne
      | cons a as => simp [endStar, List.getLast?_cons_cons]
    rw [List.flatMap_cons, hih, hstar]
    simp only [protOf, hn, nodeProt_of_hitsOk hn (hok i (by simp)), hout, Bool.and_false,
      Bool.false_and, Bool.false_eq_true, if_false]
    simp only [translatePath_toGraph, List.flatMap_cons, pathHits, hn, Option.map_some,
      Option.getD_some, hdna]
    rw [secRead_two _ _ _ _ ((hok i (by simp)) n hn).2, List.append_assoc]


/-! ### when no fake stop is needed -/

/-- no node holds the annotated CDS end on a codon that is not a stop codon (the case the
final loop of `translate` exists for): `terminal_nodes` stays empty -/
def noTerminal (g : TGraphIn) : Bool :=
  g.nodes.all fun n =>
    match mkNode g n with
    | .ok pn => (match terminalSite (orfEndOf g n) n pn with | .ok (some _) => false | _ => true)
    | .error _ => true

theorem visitEdge_terminal {g : TGraphIn} (hnt : noTerminal g = true) {nOut p o : Nat} {st st' : St}
    (h : visitEdge g nOut p st o = .ok st') : st'.terminal = st.terminal := by
  unfold visitEdge at h
  split at h
  · cases h
  · rename_i n hn
    split at h
    · cases h; rfl
    · split at h
      · cases h
      · rename_i pn hpn
        split at h
        · cases h
        · rename_i site hsite
          cases h
          cases site with
          | none => rfl
          | some k =>
            exfalso
            have hmem : n ∈ g.nodes := Array.mem_of_getElem? hn
            have := (Array.all_eq_true_iff_forall_mem.mp hnt) n hmem
            simp only [hpn, hsite] at this
            cases this

theorem visitEdges_terminal {g : TGraphIn} (hnt : noTerminal g = true) {nOut p : Nat} :
    ∀ (es : List (Nat × EType)) (st st' : St), visitEdges g nOut p st es = .ok st' →
      st'.terminal = st.terminal := by
  intro es
  induction es with
  | nil => intro st st' h; simp only [visitEdges] at h; cases h; rfl
  | cons e es ih =>
    intro st st' h
    simp only [visitEdges] at h
    split at h
    · cases h
    · rename_i st1 h1
      rw [ih st1 st' h, visitEdge_terminal hnt h1]

theorem bfs_terminal {g : TGraphIn} (hnt : noTerminal g = true) : ∀ (fuel : Nat) (st st' : St),
    bfs g fuel st = .ok st' → st'.terminal = st.terminal := by
  intro fuel
  induction fuel with
  | zero =>
    intro st st' h
    simp only [bfs] at h
    split at h
    · cases h; rfl
    · cases h
  | succ n ih =>
    intro st st' h
    unfold bfs at h
    split at h
    · cases h; rfl
    · rename_i d p q hq
      split at h
      · cases h
      · rename_i st1 h1
        rw [ih st1 st' h]
        show st1.terminal = ({ st with queue := q } : St).terminal
        unfold processItem at h1
        split at h1
        · cases h1
        · split at h1
          · cases h1; rfl
          · exact visitEdges_terminal hnt _ _ _ h1

theorem translateCore_terminal {g : TGraphIn} (hnt : noTerminal g = true) {st : St}
    (h : translateCore g = .ok st) : st.terminal = [] := by
  unfold translateCore at h
  split at h
  · cases h
  · exact bfs_terminal hnt _ _ _ h

/-- without terminal nodes (or without a known ORF) `translate` returns the searched graph -/
theorem translateGraph_nodes {g : TGraphIn} {pg : PGraph} (h : translateGraph g = .ok pg)
    (hnt : noTerminal g = true ∨ g.hasKnownOrf = false) :
    ∃ st, translateCore g = .ok st ∧ pg.nodes = st.nodes := by
  unfold translateGraph at h
  split at h
  · cases h
  · rename_i st hst
    split at h
    · cases h
    · cases h
      refine ⟨st, hst, ?_⟩
      simp only [splitTerminals]
      rcases hnt with hnt | hnt
      · rw [translateCore_terminal hnt hst]; simp
      · simp [hnt]

/-! ### codon alignment from a node-local condition -/

/-- every node that has a successor is a whole number of codons (what `fit_into_codons`
establishes; checkpoint CP2 evaluates `codonAligned` on every path) -/
def innerCodons (g : TGraphIn) : Bool :=
  g.nodes.all fun n => n.out.isEmpty || n.seq.length % 3 == 0

theorem codonAligned_of_innerCodons {g : TGraphIn} (hc : innerCodons g = true) {o : Nat} {p : List Nat}
    (hm : MaxPath g.toGraph o p) : codonAligned g.toGraph p = true := by
  induction hm with
  | leaf _ _ => simp [codonAligned]
  | @step i o' p hi ho' hp ih =>
    have hne : p ≠ [] := by cases hp <;> simp
    cases p with
    | nil => exact absurd rfl hne
    | cons a as =>
      simp only [codonAligned, List.dropLast_cons_cons, List.all_cons, Bool.and_eq_true, beq_iff_eq] at ih ⊢
      refine ⟨?_, ih⟩
      rw [toGraph_size] at hi
      have hn : g.nodes[i]? = some g.nodes[i] := Array.getElem?_eq_getElem hi
      have hmem : g.nodes[i] ∈ g.nodes := Array.getElem_mem hi
      have := (Array.all_eq_true_iff_forall_mem.mp hc) _ hmem
      rw [succs_toGraph, hn] at ho'
      simp only [Option.map_some, Option.getD_some, List.mem_map] at ho'
      obtain ⟨e, he, _⟩ := ho'
      have hout : (g.nodes[i]).out.isEmpty = false := by
        cases hno : (g.nodes[i]).out with
        | nil => rw [hno] at he; cases he
        | cons _ _ => rfl
      rw [hout] at this
      rw [nodeSeq_toGraph, hn]
      simpa using this

theorem stripEnd_append_star (w : List Char) : stripEnd (w ++ ['*']) = stripEnd w := by
  simp [stripEnd]

theorem secLoop_nil_right (locs : List ALoc) : secLoop locs [] = [] := by
  unfold secLoop
  cases locs with
  | nil => simp [secLoopAux]
  | cons l ls => simp [secLoopAux]


/-! ### assembling: from `translateGraph g = .ok pg` -/

def ascB : Nat → List Nat → Bool
  | _, [] => true
  | lo, k :: ks => decide (lo ≤ k) && ascB (k + 1) ks

theorem ascB_iff : ∀ (ks : List Nat) (lo : Nat), ascB lo ks = true ↔ AscFrom lo ks := by
  intro ks
  induction ks with
  | nil => intro lo; simp [ascB, AscFrom]
  | cons k ks ih => intro lo; simp [ascB, AscFrom, ih]

/-- the positions `fix_selenocysteines` collects are strictly ascending in every node (they are
whenever the locations of a node and the annotated Sec codons are listed in ascending order) -/
def secAscending (g : TGraphIn) : Bool := g.nodes.all fun n => ascB 0 (secHits g n)

theorem Final.path_present {g : TGraphIn} {st : St} (hF : Final g st) {o : Nat} {p : List Nat}
    (hm : MaxPath g.toGraph o p) :
    presentAt st.nodes (pix o) = true → ∀ o' ∈ p, presentAt st.nodes (pix o') = true := by
  induction hm with
  | leaf _ _ => intro hp o' ho'; simp at ho'; subst ho'; exact hp
  | @step i j p _ hj _ ih =>
    intro hp o' ho'
    rcases List.mem_cons.mp ho' with rfl | ho'
    · exact hp
    · exact ih (hF.succ_present hp hj) o' ho'

theorem Final.hitsOk {g : TGraphIn} {st : St} (hF : Final g st) (hc : g.isCirc = false)
    (hasc : secAscending g = true) {o : Nat} (hp : presentAt st.nodes (pix o) = true) : HitsOk g o := by
  intro n hn
  obtain ⟨dn, pn, ho, hmk, _⟩ := hF.node o hp
  rw [hn] at ho; cases ho
  refine ⟨(ascB_iff _ _).mp ?_, (mkNode_seq hc hmk).2.2⟩
  exact (Array.all_eq_true_iff_forall_mem.mp hasc) n (Array.mem_of_getElem? hn)

theorem Final.start_present {g : TGraphIn} {st : St} (hF : Final g st) {d o : Nat}
    (hd : d ∈ g.frames) (ho : o ∈ succs g.toGraph d) : presentAt st.nodes (pix o) = true := by
  rw [succs_toGraph] at ho
  cases hn : g.nodes[d]? with
  | none => rw [hn] at ho; cases ho
  | some dn =>
    rw [hn] at ho
    simp only [Option.map_some, Option.getD_some, List.mem_map] at ho
    obtain ⟨e, he, rfl⟩ := ho
    exact hF.rootReach d hd dn hn e he

theorem Final.root_succs {g : TGraphIn} {st : St} (hF : Final g st) (q : Nat) :
    q ∈ succs (nodesGraph st.nodes) rootIx ↔ ∃ d ∈ g.frames, ∃ o ∈ succs g.toGraph d, q = pix o := by
  rw [succs_nodesGraph _ hF.size2]
  simp only [List.mem_filter, bne_iff_ne, ne_eq]
  rw [hF.rootOuts q]
  constructor
  · rintro ⟨⟨d, hd, dn, hn, ⟨h1, _⟩ | ⟨e, he, rfl⟩⟩, hne⟩
    · exact absurd h1 hne
    · refine ⟨d, hd, e.1, ?_, rfl⟩
      rw [succs_toGraph, hn]
      simp only [Option.map_some, Option.getD_some, List.mem_map]
      exact ⟨e, he, rfl⟩
  · rintro ⟨d, hd, o, ho, rfl⟩
    rw [succs_toGraph] at ho
    cases hn : g.nodes[d]? with
    | none => rw [hn] at ho; cases ho
    | some dn =>
      rw [hn] at ho
      simp only [Option.map_some, Option.getD_some, List.mem_map] at ho
      obtain ⟨e, he, rfl⟩ := ho
      exact ⟨⟨d, hd, dn, hn, Or.inr ⟨e, he, rfl⟩⟩, pix_ne_stop _⟩

theorem translateGraph_final {g : TGraphIn} {pg : PGraph} (h : translateGraph g = .ok pg)
    (hnt : noTerminal g = true ∨ g.hasKnownOrf = false) :
    ∃ st, Final g st ∧ pg.toGraph = nodesGraph st.nodes := by
  obtain ⟨st, hst, hn⟩ := translateGraph_nodes h hnt
  exact ⟨st, translateCore_final hst, by simp [PGraph.toGraph, hn]⟩

theorem fullTranslation_nil_sec (s : List Char) (f : Nat) : fullTranslation s [] f = translate (s.drop f) := by
  simp only [fullTranslation, List.contains_nil, Bool.and_false, Bool.false_eq_true, if_false]
  have : ∀ (l : List Char) (r : List Nat), l.length ≤ r.length →
      (r.zip l).map (fun x : Nat × Char => x.2) = l := by
    intro l r h
    exact List.map_snd_zip h
  exact this _ _ (by simp)


/-! ### the selenocysteine rule: which positions `fix_selenocysteines` collects -/

/-- transcript coordinate of the start of the node's codon that holds the first base of the
matched location `l` -/
def DLoc.codonStart (l : DLoc) : Int := (l.rStart : Int) - ((l.qStart % 3 : Nat) : Int)

/-- the stretch of the transcript covered by WHOLE codons of the node inside the matched location
(`ref_codon_start`, `ref_codon_end` of `fix_selenocysteines` after the offset guards) -/
def DLoc.codonWindow (l : DLoc) : Int × Int :=
  (if l.qStart % 3 > 0 then l.codonStart + 3 else l.codonStart,
   if l.qEnd % 3 > 0 then (l.rEnd : Int) - ((l.qEnd % 3 : Nat) : Int) else (l.rEnd : Int))

theorem aaLoc_refCodonStart (l : DLoc) : (aaLoc l).refCodonStart = l.codonStart := by
  simp only [ALoc.refCodonStart, aaLoc, DLoc.codonStart]
  omega

theorem aaLoc_refCodonEnd (l : DLoc) :
    (aaLoc l).refCodonEnd = (l.rEnd : Int) + (((3 - l.qEnd % 3) % 3 : Nat) : Int) := by
  simp only [ALoc.refCodonEnd, aaLoc, ceilDiv3]
  omega

theorem aaLoc_window (l : DLoc) : (aaLoc l).window = l.codonWindow := by
  simp only [ALoc.window, aaLoc_refCodonStart, aaLoc_refCodonEnd, DLoc.codonWindow]
  have h1 : (aaLoc l).qStartOff = l.qStart % 3 := by simp only [aaLoc]; omega
  have h2 : (aaLoc l).qEndOff = (3 - l.qEnd % 3) % 3 := by simp only [aaLoc, ceilDiv3]; omega
  rw [h1, h2]
  refine Prod.ext ?_ ?_
  · rfl
  · simp only
    by_cases h : l.qEnd % 3 > 0
    · have : (3 - l.qEnd % 3) % 3 > 0 := by omega
      simp only [this, h, if_true]; omega
    · have : ¬ (3 - l.qEnd % 3) % 3 > 0 := by omega
      simp only [this, h, if_false]; omega

/-- soundness of the two-cursor loop: every collected position comes from a location and a Sec
record that satisfy the tests of the loop body -/
theorem mem_secLoopAux : ∀ (fuel : Nat) (locs : List ALoc) (sects : List (Nat × Nat)) (k : Nat),
    k ∈ secLoopAux fuel locs sects →
    ∃ loc ∈ locs, ∃ s ∈ sects, loc.len ≠ 0 ∧ loc.lvl0 = true ∧ loc.qRf = s.1 % 3 ∧
      loc.window.1 < loc.window.2 ∧ loc.window.1 ≤ (s.1 : Int) ∧ (s.2 : Int) ≤ loc.window.2 ∧
      k = loc.qStart + (Int.tdiv ((s.1 : Int) - loc.refCodonStart) 3).toNat := by
  intro fuel
  induction fuel with
  | zero => intro locs sects k h; simp [secLoopAux] at h
  | succ n ih =>
    intro locs sects k h
    match locs, sects with
    | [], _ => simp [secLoopAux] at h
    | _ :: _, [] => simp [secLoopAux] at h
    | loc :: ls, sect :: ss =>
      have lift1 : (∃ l ∈ ls, ∃ s ∈ sect :: ss, l.len ≠ 0 ∧ l.lvl0 = true ∧ l.qRf = s.1 % 3 ∧
          l.window.1 < l.window.2 ∧ l.window.1 ≤ (s.1 : Int) ∧ (s.2 : Int) ≤ l.window.2 ∧
          k = l.qStart + (Int.tdiv ((s.1 : Int) - l.refCodonStart) 3).toNat) →
          ∃ l ∈ loc :: ls, ∃ s ∈ sect :: ss, l.len ≠ 0 ∧ l.lvl0 = true ∧ l.qRf = s.1 % 3 ∧
          l.window.1 < l.window.2 ∧ l.window.1 ≤ (s.1 : Int) ∧ (s.2 : Int) ≤ l.window.2 ∧
          k = l.qStart + (Int.tdiv ((s.1 : Int) - l.refCodonStart) 3).toNat := by
        rintro ⟨l, hl, rest⟩; exact ⟨l, List.mem_cons_of_mem _ hl, rest⟩
      have lift2 : (∃ l ∈ loc :: ls, ∃ s ∈ ss, l.len ≠ 0 ∧ l.lvl0 = true ∧ l.qRf = s.1 % 3 ∧
          l.window.1 < l.window.2 ∧ l.window.1 ≤ (s.1 : Int) ∧ (s.2 : Int) ≤ l.window.2 ∧
          k = l.qStart + (Int.tdiv ((s.1 : Int) - l.refCodonStart) 3).toNat) →
          ∃ l ∈ loc :: ls, ∃ s ∈ sect :: ss, l.len ≠ 0 ∧ l.lvl0 = true ∧ l.qRf = s.1 % 3 ∧
          l.window.1 < l.window.2 ∧ l.window.1 ≤ (s.1 : Int) ∧ (s.2 : Int) ≤ l.window.2 ∧
          k = l.qStart + (Int.tdiv ((s.1 : Int) - l.refCodonStart) 3).toNat := by
        rintro ⟨l, hl, s, hs, rest⟩; exact ⟨l, hl, s, List.mem_cons_of_mem _ hs, rest⟩
      simp only [secLoopAux] at h
      split at h
      · cases h
      · rename_i hlen
        split at h
        · exact lift1 (ih _ _ _ h)
        · rename_i hlvl
          split at h
          · split at h
            · exact lift2 (ih _ _ _ h)
            · exact lift1 (ih _ _ _ h)
          · rename_i hrf
            split at h
            · exact lift1 (ih _ _ _ h)
            · rename_i hw
              split at h
              · rename_i hsup
                rcases List.mem_cons.mp h with rfl | h
                · refine ⟨loc, by simp, sect, by simp, ?_, ?_, ?_, ?_, ?_, ?_, rfl⟩
                  · simpa using hlen
                  · simpa using hlvl
                  · simpa using hrf
                  · omega
                  · simp only [Bool.and_eq_true, decide_eq_true_eq] at hsup; exact hsup.1
                  · simp only [Bool.and_eq_true, decide_eq_true_eq, ge_iff_le] at hsup; exact hsup.2
                · exact lift2 (ih _ _ _ h)
              · split at h
                · exact lift2 (ih _ _ _ h)
                · exact lift1 (ih _ _ _ h)

/-- the Sec rule of `fix_selenocysteines` for the node made from `n`: position `k` of the node's
protein is rewritten to `U` only if some matched location `l` of the node that points into the
level-0 graph, is not empty in amino-acid coordinates and carries the frame `s.start % 3`, holds
the annotated Sec record `s` inside its whole-codon window; `k` is then the codon of the node at
that reference position -/
theorem mem_secHits {g : TGraphIn} {n : DNode} {k : Nat} (h : k ∈ secHits g n) :
    ∃ l ∈ n.locs, ∃ s ∈ g.sect, l.lvl0 = true ∧ l.qRf = s.1 % 3 ∧ l.qStart / 3 ≠ ceilDiv3 l.qEnd ∧
      l.codonWindow.1 < l.codonWindow.2 ∧ l.codonWindow.1 ≤ (s.1 : Int) ∧ (s.2 : Int) ≤ l.codonWindow.2 ∧
      k = l.qStart / 3 + (Int.tdiv ((s.1 : Int) - l.codonStart) 3).toNat := by
  obtain ⟨loc, hloc, s, hs, h1, h2, h3, h4, h5, h6, h7⟩ := mem_secLoopAux _ _ _ _ h
  obtain ⟨l, hl, rfl⟩ := List.mem_map.mp hloc
  rw [aaLoc_window] at h4 h5 h6
  rw [aaLoc_refCodonStart] at h7
  refine ⟨l, hl, s, hs, ?_, ?_, ?_, h4, h5, h6, ?_⟩
  · simpa [aaLoc] using h2
  · simpa [aaLoc] using h3
  · intro hc
    apply h1
    simp only [ALoc.len, aaLoc]
    omega
  · simpa [aaLoc] using h7

/-! ### the stop node at the end of every branch -/

theorem maxPath_last_leaf {G : Graph} {i : Nat} {p : List Nat} (hm : MaxPath G i p) :
    ∀ l, p.getLast? = some l → succs G l = [] ∧ l ∈ p := by
  induction hm with
  | @leaf i _ hs =>
    intro l hl
    simp only [List.getLast?_singleton, Option.some.injEq] at hl
    subst hl; exact ⟨hs, by simp⟩
  | @step i o p _ _ hp ih =>
    intro l hl
    have hne : p ≠ [] := by cases hp <;> simp
    cases p with
    | nil => exact absurd rfl hne
    | cons a as =>
      rw [List.getLast?_cons_cons] at hl
      obtain ⟨h1, h2⟩ := ih l hl
      exact ⟨h1, List.mem_cons_of_mem _ h2⟩

/-- `add_stop`: the image of a node without out-edges has the stop node as its only successor -/
theorem Final.leaf_out {g : TGraphIn} {st : St} (hF : Final g st) {o : Nat}
    (hp : presentAt st.nodes (pix o) = true) (hl : succs g.toGraph o = []) (q : Nat) :
    q ∈ outOf st.nodes (pix o) ↔ q = stopIx := by
  obtain ⟨dn, pn, ho, _, _⟩ := hF.node o hp
  have hout : dn.out = [] := by
    rw [succs_toGraph, ho] at hl
    simpa using hl
  rw [hF.outs o dn hp ho q]
  constructor
  · rintro (⟨h1, _⟩ | ⟨e, he, _⟩)
    · exact h1
    · rw [hout] at he; cases he
  · intro h; exact Or.inl ⟨h, hout⟩

end MoPepGen.Translate
