import MoPepGen.Model.Rmats
import MoPepGen.Model.RmatsSpec
import MoPepGen.Lemmas.Coord
import MoPepGen.Lemmas.Seq
/-! Helper lemmas for C16: cutting a transcript at a genomic position, on both strands. -/
namespace MoPepGen.Rmats
open MoPepGen

/-- every exon lies inside the gene and is not inverted -/
def InGene (g : Gene) (es : List Iv) : Prop :=
  ∀ e ∈ es, g.loc.start ≤ e.start ∧ e.start ≤ e.stop ∧ e.stop ≤ g.loc.stop

theorem InGene.append {g : Gene} {a b : List Iv} (ha : InGene g a) (hb : InGene g b) :
    InGene g (a ++ b) := by
  intro e he
  rcases List.mem_append.mp he with h | h
  · exact ha e h
  · exact hb e h

theorem InGene.left {g : Gene} {a b : List Iv} (h : InGene g (a ++ b)) : InGene g a :=
  fun e he => h e (List.mem_append_left _ he)
theorem InGene.right {g : Gene} {a b : List Iv} (h : InGene g (a ++ b)) : InGene g b :=
  fun e he => h e (List.mem_append_right _ he)

theorem InGene.onChrom {g : Gene} {es : List Iv} {n : Nat} (h : InGene g es)
    (hc : g.loc.stop ≤ n) : OnChrom n es := fun e he => by
  have := h e he; omega

/-- the gene coordinate at which the genomic cut `P` falls: bases with genomic position `< P`
(plus) / `≥ P` (minus) are the ones upstream of it -/
def cut (g : Gene) (P : Nat) : Nat :=
  match g.strand with
  | .plus => P - g.loc.start
  | .minus => g.loc.stop - P

/-- which side of a genomic split `A | B` comes first in the transcript -/
def headPart (s : Strand) (A B : List Iv) : List Iv := match s with | .plus => A | .minus => B
def tailPart (s : Strand) (A B : List Iv) : List Iv := match s with | .plus => B | .minus => A

theorem basesBefore_append (g : Gene) (a b : List Iv) (q : Nat) :
    basesBefore g (a ++ b) q = basesBefore g a q + basesBefore g b q := by
  induction a with
  | nil => simp [basesBefore]
  | cons e es ih => simp [basesBefore, ih]; omega

theorem basesBefore_below_plus {g : Gene} (hs : g.strand = .plus) {L : List Iv} {P : Nat}
    (hg : InGene g L) (h : ∀ e ∈ L, e.stop ≤ P) :
    basesBefore g L (P - g.loc.start) = exonsLen L := by
  induction L with
  | nil => rfl
  | cons e es ih =>
    have h1 := hg e List.mem_cons_self
    have h2 := h e List.mem_cons_self
    simp only [basesBefore, exonsLen, geneIv, hs, Iv.len]
    rw [ih (fun x hx => hg x (List.mem_cons_of_mem _ hx))
      (fun x hx => h x (List.mem_cons_of_mem _ hx))]
    omega

theorem basesBefore_above_plus {g : Gene} (hs : g.strand = .plus) {L : List Iv} {P : Nat}
    (hg : InGene g L) (h : ∀ e ∈ L, P ≤ e.start) :
    basesBefore g L (P - g.loc.start) = 0 := by
  induction L with
  | nil => rfl
  | cons e es ih =>
    have h1 := hg e List.mem_cons_self
    have h2 := h e List.mem_cons_self
    simp only [basesBefore, geneIv, hs]
    rw [ih (fun x hx => hg x (List.mem_cons_of_mem _ hx))
      (fun x hx => h x (List.mem_cons_of_mem _ hx))]
    omega

theorem basesBefore_below_minus {g : Gene} (hs : g.strand = .minus) {L : List Iv} {P : Nat}
    (hg : InGene g L) (h : ∀ e ∈ L, e.stop ≤ P) :
    basesBefore g L (g.loc.stop - P) = 0 := by
  induction L with
  | nil => rfl
  | cons e es ih =>
    have h1 := hg e List.mem_cons_self
    have h2 := h e List.mem_cons_self
    simp only [basesBefore, geneIv, hs]
    rw [ih (fun x hx => hg x (List.mem_cons_of_mem _ hx))
      (fun x hx => h x (List.mem_cons_of_mem _ hx))]
    omega

theorem basesBefore_above_minus {g : Gene} (hs : g.strand = .minus) {L : List Iv} {P : Nat}
    (hg : InGene g L) (h : ∀ e ∈ L, P ≤ e.start) :
    basesBefore g L (g.loc.stop - P) = exonsLen L := by
  induction L with
  | nil => rfl
  | cons e es ih =>
    have h1 := hg e List.mem_cons_self
    have h2 := h e List.mem_cons_self
    simp only [basesBefore, exonsLen, geneIv, hs, Iv.len]
    rw [ih (fun x hx => hg x (List.mem_cons_of_mem _ hx))
      (fun x hx => h x (List.mem_cons_of_mem _ hx))]
    omega

/-- the number of transcript bases upstream of a cut between `A` and `B` -/
theorem basesBefore_cut {g : Gene} {A B : List Iv} {P : Nat}
    (hA : InGene g A) (hB : InGene g B) (hAP : ∀ e ∈ A, e.stop ≤ P) (hPB : ∀ e ∈ B, P ≤ e.start) :
    basesBefore g (A ++ B) (cut g P) = exonsLen (headPart g.strand A B) := by
  rw [basesBefore_append]
  unfold cut headPart
  cases hs : g.strand with
  | plus =>
    simp only
    rw [basesBefore_below_plus hs hA hAP, basesBefore_above_plus hs hB hPB]; omega
  | minus =>
    simp only
    rw [basesBefore_below_minus hs hA hAP, basesBefore_above_minus hs hB hPB]; omega

theorem seqOfExons_length {chrom : List Char} (s : Strand) {L : List Iv}
    (h : OnChrom chrom.length L) : (seqOfExons chrom s L).length = exonsLen L := by
  cases s with
  | plus => simp only [seqOfExons]; exact exonConcat_length h
  | minus => simp only [seqOfExons, revComp_length]; exact exonConcat_length h

theorem seqOfExons_split (chrom : List Char) (s : Strand) (A B : List Iv) :
    seqOfExons chrom s (A ++ B)
      = seqOfExons chrom s (headPart s A B) ++ seqOfExons chrom s (tailPart s A B) := by
  cases s with
  | plus => simp [seqOfExons, headPart, tailPart, exonConcat_append]
  | minus => simp [seqOfExons, headPart, tailPart, exonConcat_append, revComp_append]

theorem take_cut {chrom : List Char} {g : Gene} {A B : List Iv} {P : Nat}
    (hA : InGene g A) (hB : InGene g B) (hc : g.loc.stop ≤ chrom.length)
    (hAP : ∀ e ∈ A, e.stop ≤ P) (hPB : ∀ e ∈ B, P ≤ e.start) :
    (seqOfExons chrom g.strand (A ++ B)).take (basesBefore g (A ++ B) (cut g P))
      = seqOfExons chrom g.strand (headPart g.strand A B) := by
  rw [basesBefore_cut hA hB hAP hPB, seqOfExons_split]
  have hl : (seqOfExons chrom g.strand (headPart g.strand A B)).length
      = exonsLen (headPart g.strand A B) := by
    apply seqOfExons_length
    unfold headPart; cases g.strand <;> simp only
    · exact hA.onChrom hc
    · exact hB.onChrom hc
  rw [← hl, List.take_left]

theorem drop_cut {chrom : List Char} {g : Gene} {A B : List Iv} {P : Nat}
    (hA : InGene g A) (hB : InGene g B) (hc : g.loc.stop ≤ chrom.length)
    (hAP : ∀ e ∈ A, e.stop ≤ P) (hPB : ∀ e ∈ B, P ≤ e.start) :
    (seqOfExons chrom g.strand (A ++ B)).drop (basesBefore g (A ++ B) (cut g P))
      = seqOfExons chrom g.strand (tailPart g.strand A B) := by
  rw [basesBefore_cut hA hB hAP hPB, seqOfExons_split]
  have hl : (seqOfExons chrom g.strand (headPart g.strand A B)).length
      = exonsLen (headPart g.strand A B) := by
    apply seqOfExons_length
    unfold headPart; cases g.strand <;> simp only
    · exact hA.onChrom hc
    · exact hB.onChrom hc
  rw [← hl, List.drop_left]

/-- the donor slice of the gene sequence is the strand-corrected chromosome slice -/
theorem donor_slice {chrom : List Char} {g : Gene} {D : Iv}
    (h1 : g.loc.start ≤ D.start) (h2 : D.start ≤ D.stop) (h3 : D.stop ≤ g.loc.stop)
    (hc : g.loc.stop ≤ chrom.length) :
    slice (geneSeq chrom g) (geneIv g D).start (geneIv g D).stop
      = seqOfExons chrom g.strand [D] := by
  have hgl : (chromSlice chrom g.loc).length = g.loc.stop - g.loc.start := chromSlice_length hc
  have hdl : (chromSlice chrom D).length = D.stop - D.start := chromSlice_length (by omega)
  apply List.ext_getElem?
  intro i
  cases hs : g.strand with
  | plus =>
    simp only [geneSeq, hs, seqOfExons, exonConcat, List.append_nil, geneIv, slice]
    by_cases hi : i < D.stop - D.start
    · rw [List.getElem?_take_of_lt (by omega), List.getElem?_drop,
        chromSlice_getElem? (by omega), chromSlice_getElem? hi]
      congr 1; omega
    · rw [List.getElem?_eq_none (by simp only [List.length_take, List.length_drop]; omega),
        List.getElem?_eq_none (by omega)]
  | minus =>
    simp only [geneSeq, hs, seqOfExons, exonConcat, List.append_nil, geneIv, slice]
    by_cases hi : i < D.stop - D.start
    · rw [List.getElem?_take_of_lt (by omega), List.getElem?_drop,
        revComp_chromSlice_getElem? hc (by omega),
        revComp_chromSlice_getElem? (by omega) hi]
      congr 2; omega
    · rw [List.getElem?_eq_none (by simp only [List.length_take, List.length_drop]; omega),
        List.getElem?_eq_none (by rw [revComp_length]; omega)]

/-- two abutting slices are one slice -/
theorem chromSlice_merge (chrom : List Char) {a b c : Nat} (h1 : a ≤ b) (h2 : b ≤ c) :
    chromSlice chrom ⟨a, b⟩ ++ chromSlice chrom ⟨b, c⟩ = chromSlice chrom ⟨a, c⟩ := by
  simp only [chromSlice]
  have e1 : c - a = (b - a) + (c - b) := by omega
  rw [e1, List.take_add, List.drop_drop]
  congr 3; omega

theorem seqOfExons_merge3 (chrom : List Char) (s : Strand) (pre post : List Iv)
    {a b c d : Nat} (h1 : a ≤ b) (h2 : b ≤ c) (h3 : c ≤ d) :
    seqOfExons chrom s (pre ++ ⟨a, b⟩ :: ⟨b, c⟩ :: ⟨c, d⟩ :: post)
      = seqOfExons chrom s (pre ++ ⟨a, d⟩ :: post) := by
  have : exonConcat chrom (pre ++ ⟨a, b⟩ :: ⟨b, c⟩ :: ⟨c, d⟩ :: post)
      = exonConcat chrom (pre ++ ⟨a, d⟩ :: post) := by
    simp only [exonConcat_append, exonConcat]
    rw [← chromSlice_merge chrom (a := a) (b := b) (c := d) h1 (by omega),
      ← chromSlice_merge chrom (a := b) (b := c) (c := d) h2 h3]
    simp [List.append_assoc]
  cases s <;> simp only [seqOfExons, this]

/-! ## the three record kinds on a transcript cut into genomic parts -/

/-- Deletion of the genomic region `[Ps, Pe)`: `A` lies below it, `M` inside, `B` above -/
theorem apply_deletion {chrom : List Char} {g : Gene} {A M B : List Iv} {Ps Pe : Nat}
    {r : ASRec} (hA : InGene g A) (hM : InGene g M) (hB : InGene g B)
    (hc : g.loc.stop ≤ chrom.length)
    (hA1 : ∀ e ∈ A, e.stop ≤ Ps) (hM1 : ∀ e ∈ M, Ps ≤ e.start) (hM2 : ∀ e ∈ M, e.stop ≤ Pe)
    (hB1 : ∀ e ∈ B, Pe ≤ e.start) (hse : Ps ≤ Pe)
    (hk : r.kind = .deletion) (hr1 : r.start = (geneIv g ⟨Ps, Pe⟩).start)
    (hr2 : r.stop = (geneIv g ⟨Ps, Pe⟩).stop) :
    applyAS g (A ++ M ++ B) (seqOfExons chrom g.strand (A ++ M ++ B)) (geneSeq chrom g) r
      = seqOfExons chrom g.strand (A ++ B) := by
  have hMB : InGene g (M ++ B) := hM.append hB
  have hAM : InGene g (A ++ M) := hA.append hM
  have c1 := take_cut (chrom := chrom) (P := Ps) hA hMB hc hA1 (by
    intro e he; rcases List.mem_append.mp he with h | h
    · exact hM1 e h
    · have := hB1 e h; omega)
  have c2 := drop_cut (chrom := chrom) (P := Ps) hA hMB hc hA1 (by
    intro e he; rcases List.mem_append.mp he with h | h
    · exact hM1 e h
    · have := hB1 e h; omega)
  have c3 := take_cut (chrom := chrom) (P := Pe) hAM hB hc (by
    intro e he; rcases List.mem_append.mp he with h | h
    · have := hA1 e h; omega
    · exact hM2 e h) hB1
  have c4 := drop_cut (chrom := chrom) (P := Pe) hAM hB hc (by
    intro e he; rcases List.mem_append.mp he with h | h
    · have := hA1 e h; omega
    · exact hM2 e h) hB1
  simp only [applyAS, hk, hr1, hr2]
  rw [seqOfExons_split chrom g.strand A B]
  cases hs : g.strand with
  | plus =>
    simp only [hs, geneIv, cut, headPart, tailPart, List.append_assoc] at c1 c4 ⊢
    rw [c1, c4]
  | minus =>
    simp only [hs, geneIv, cut, headPart, tailPart, List.append_assoc] at c2 c3 ⊢
    rw [c3, c2]

/-- Insertion of the genomic donor `D` at a cut `P` between `A` and `B`; `r.start` is the
gene coordinate of the last transcript base before the cut -/
theorem apply_insertion {chrom : List Char} {g : Gene} {A B : List Iv} {P : Nat} {D : Iv}
    {r : ASRec} (hA : InGene g A) (hB : InGene g B) (hD : InGene g [D])
    (hc : g.loc.stop ≤ chrom.length)
    (hA1 : ∀ e ∈ A, e.stop ≤ P) (hB1 : ∀ e ∈ B, P ≤ e.start)
    (hk : r.kind = .insertion) (hr1 : r.start + 1 = cut g P)
    (hr2 : r.donorStart = (geneIv g D).start) (hr3 : r.donorStop = (geneIv g D).stop) :
    applyAS g (A ++ B) (seqOfExons chrom g.strand (A ++ B)) (geneSeq chrom g) r
      = seqOfExons chrom g.strand (A ++ D :: B) := by
  have hd := hD D List.mem_cons_self
  have c1 := take_cut (chrom := chrom) (P := P) hA hB hc hA1 hB1
  have c2 := drop_cut (chrom := chrom) (P := P) hA hB hc hA1 hB1
  simp only [applyAS, hk, hr1, hr2, hr3]
  rw [c1, c2, donor_slice hd.1 hd.2.1 hd.2.2 hc]
  have e1 : A ++ D :: B = A ++ ([D] ++ B) := by simp
  rw [e1, seqOfExons_split chrom g.strand A ([D] ++ B)]
  cases hs : g.strand with
  | plus =>
    simp only [headPart, tailPart]
    rw [seqOfExons_split chrom .plus [D] B]; simp only [headPart, tailPart, List.append_assoc]
  | minus =>
    simp only [headPart, tailPart]
    rw [seqOfExons_split chrom .minus [D] B]; simp only [headPart, tailPart, List.append_assoc]

/-- Substitution of the genomic region `[Ps, Pe)` by the donor `D` -/
theorem apply_substitution {chrom : List Char} {g : Gene} {A M B : List Iv} {Ps Pe : Nat}
    {D : Iv} {r : ASRec} (hA : InGene g A) (hM : InGene g M) (hB : InGene g B)
    (hD : InGene g [D]) (hc : g.loc.stop ≤ chrom.length)
    (hA1 : ∀ e ∈ A, e.stop ≤ Ps) (hM1 : ∀ e ∈ M, Ps ≤ e.start) (hM2 : ∀ e ∈ M, e.stop ≤ Pe)
    (hB1 : ∀ e ∈ B, Pe ≤ e.start) (hse : Ps ≤ Pe)
    (hk : r.kind = .substitution) (hr1 : r.start = (geneIv g ⟨Ps, Pe⟩).start)
    (hr2 : r.stop = (geneIv g ⟨Ps, Pe⟩).stop)
    (hr3 : r.donorStart = (geneIv g D).start) (hr4 : r.donorStop = (geneIv g D).stop) :
    applyAS g (A ++ M ++ B) (seqOfExons chrom g.strand (A ++ M ++ B)) (geneSeq chrom g) r
      = seqOfExons chrom g.strand (A ++ D :: B) := by
  have hd := hD D List.mem_cons_self
  have hMB : InGene g (M ++ B) := hM.append hB
  have hAM : InGene g (A ++ M) := hA.append hM
  have c1 := take_cut (chrom := chrom) (P := Ps) hA hMB hc hA1 (by
    intro e he; rcases List.mem_append.mp he with h | h
    · exact hM1 e h
    · have := hB1 e h; omega)
  have c2 := drop_cut (chrom := chrom) (P := Ps) hA hMB hc hA1 (by
    intro e he; rcases List.mem_append.mp he with h | h
    · exact hM1 e h
    · have := hB1 e h; omega)
  have c3 := take_cut (chrom := chrom) (P := Pe) hAM hB hc (by
    intro e he; rcases List.mem_append.mp he with h | h
    · have := hA1 e h; omega
    · exact hM2 e h) hB1
  have c4 := drop_cut (chrom := chrom) (P := Pe) hAM hB hc (by
    intro e he; rcases List.mem_append.mp he with h | h
    · have := hA1 e h; omega
    · exact hM2 e h) hB1
  simp only [applyAS, hk, hr1, hr2, hr3, hr4]
  rw [donor_slice hd.1 hd.2.1 hd.2.2 hc]
  have e1 : A ++ D :: B = A ++ ([D] ++ B) := by simp
  rw [e1, seqOfExons_split chrom g.strand A ([D] ++ B)]
  cases hs : g.strand with
  | plus =>
    simp only [hs, geneIv, cut, headPart, tailPart, List.append_assoc] at c1 c4 ⊢
    rw [c1, c4, seqOfExons_split chrom .plus [D] B]
    simp only [headPart, tailPart]
  | minus =>
    simp only [hs, geneIv, cut, headPart, tailPart, List.append_assoc] at c2 c3 ⊢
    rw [c3, c2, seqOfExons_split chrom .minus [D] B]
    simp only [headPart, tailPart, List.append_assoc]

/-! ## retained intron: the exon walk -/

theorem riWalk_above {ue ds : Nat} {L : List Iv}
    (h : ∀ e ∈ L, ue < e.start ∧ e.start ≤ e.stop) : riWalk ue ds L = (false, 0) := by
  induction L with
  | nil => rfl
  | cons e rest ih =>
    have h1 := h e List.mem_cons_self
    have hne : ¬ e.stop = ue := by omega
    have ht : riRetainedTest ue ds e = false := by
      simp only [riRetainedTest, Bool.and_eq_false_iff, decide_eq_false_iff_not]; omega
    unfold riWalk
    rw [if_neg hne, ih (fun x hx => h x (List.mem_cons_of_mem _ hx)), ht]
    rfl

theorem riWalk_spliced_form {ue ds : Nat} {pre post : List Iv} {U D : Iv}
    (hp : ∀ e ∈ pre, e.stop < ue) (hu : U.stop = ue) (hd : D.start = ds) (hud : ue < ds):
    riWalk ue ds (pre ++ U :: D :: post) = (true, 0) := by
  induction pre with
  | nil =>
    simp only [List.nil_append]
    unfold riWalk
    rw [if_pos hu]; simp only [hd, if_true]
  | cons e rest ih =>
    have h1 := hp e List.mem_cons_self
    have hne : ¬ e.stop = ue := by omega
    have ht : riRetainedTest ue ds e = false := by
      simp only [riRetainedTest, Bool.and_eq_false_iff, decide_eq_false_iff_not]; omega
    simp only [List.cons_append]
    unfold riWalk
    rw [if_neg hne, ih (fun x hx => hp x (List.mem_cons_of_mem _ hx)), ht]
    rfl

theorem riWalk_retained_form {ue ds : Nat} {pre post : List Iv} {R : Iv}
    (hp : ∀ e ∈ pre, e.stop < ue) (h1 : R.start < ue) (h2 : ue < ds) (h3 : ds < R.stop)
    (hq : ∀ e ∈ post, ue < e.start ∧ e.start ≤ e.stop) :
    riWalk ue ds (pre ++ R :: post) = (false, 1) := by
  induction pre with
  | nil =>
    simp only [List.nil_append]
    have hne : ¬ R.stop = ue := by omega
    have ht : riRetainedTest ue ds R = true := by
      simp only [riRetainedTest, h1, h2, h3, decide_true, Bool.true_and]
    unfold riWalk
    rw [if_neg hne, riWalk_above hq, ht]
    rfl
  | cons e rest ih =>
    have h1 := hp e List.mem_cons_self
    have hne : ¬ e.stop = ue := by omega
    have ht : riRetainedTest ue ds e = false := by
      simp only [riRetainedTest, Bool.and_eq_false_iff, decide_eq_false_iff_not]; omega
    simp only [List.cons_append]
    unfold riWalk
    rw [if_neg hne, ih (fun x hx => hp x (List.mem_cons_of_mem _ hx)), ht]
    rfl

theorem mem_riSpliced {ue ds : Nat} {txs : List Transcript} {k i : Nat}
    (h : i ∈ riSpliced ue ds txs k) :
    k ≤ i ∧ ∃ t, txs[i - k]? = some t ∧ (riWalk ue ds t.exons).1 = true := by
  induction txs generalizing k with
  | nil => simp [riSpliced] at h
  | cons t ts ih =>
    simp only [riSpliced, List.mem_append] at h
    rcases h with h | h
    · by_cases hw : (riWalk ue ds t.exons).1 = true
      · simp only [hw, if_true, List.mem_singleton] at h
        subst h
        exact ⟨Nat.le_refl _, t, by simp, hw⟩
      · simp [hw] at h
    · obtain ⟨h1, t', h2, h3⟩ := ih h
      refine ⟨by omega, t', ?_, h3⟩
      have : i - k = (i - (k + 1)) + 1 := by omega
      rw [this, List.getElem?_cons_succ]; exact h2

theorem mem_riRetained {ue ds : Nat} {txs : List Transcript} {k i : Nat}
    (h : i ∈ riRetained ue ds txs k) :
    k ≤ i ∧ ∃ t, txs[i - k]? = some t ∧ 0 < (riWalk ue ds t.exons).2 := by
  induction txs generalizing k with
  | nil => simp [riRetained] at h
  | cons t ts ih =>
    simp only [riRetained, List.mem_append, List.mem_replicate] at h
    rcases h with h | h
    · obtain ⟨h1, h2⟩ := h
      subst h2
      exact ⟨Nat.le_refl _, t, by simp, by omega⟩
    · obtain ⟨h1, t', h2, h3⟩ := ih h
      refine ⟨by omega, t', ?_, h3⟩
      have : i - k = (i - (k + 1)) + 1 := by omega
      rw [this, List.getElem?_cons_succ]; exact h2

theorem riIns_mem {s e : Nat} {sp : List Nat} {l : List (Nat × ASRec)}
    (h : riIns s e sp = .ok l) {i : Nat} {r : ASRec} (hm : (i, r) ∈ l) :
    i ∈ sp ∧ 0 < s ∧ r = ⟨.insertion, s - 1, s, s, e⟩ := by
  unfold riIns at h
  by_cases h0 : s = 0
  · rw [if_pos h0] at h
    by_cases h1 : sp = []
    · rw [if_pos h1] at h; cases h; simp at hm
    · rw [if_neg h1] at h; cases h
  · rw [if_neg h0] at h
    cases h
    obtain ⟨j, hj, he⟩ := List.mem_map.mp hm
    cases he
    exact ⟨hj, by omega, rfl⟩

theorem riDel_mem {s e : Nat} {rt : List Nat} {l : List (Nat × ASRec)}
    (h : riDel s e rt = .ok l) {i : Nat} {r : ASRec} (hm : (i, r) ∈ l) :
    i ∈ rt ∧ r = ⟨.deletion, s, e, 0, 0⟩ := by
  unfold riDel at h
  cases hl : mkLoc s e with
  | error x => rw [hl] at h; cases h
  | ok u =>
    rw [hl] at h; cases h
    obtain ⟨j, hj, he⟩ := List.mem_map.mp hm
    cases he
    exact ⟨hj, rfl⟩

theorem riConvert_mem {v : RI} {g : Gene} {txs : List Transcript} {mi ms : Nat}
    {out : List (Nat × ASRec)} (h : riConvert v g txs mi ms = .ok out) {i : Nat} {r : ASRec}
    (hm : (i, r) ∈ out) :
    ∃ s e, riCoords v g = .ok (s, e) ∧
      ((i ∈ riSpliced v.ue v.ds txs 0 ∧ v.ijc ≥ mi ∧ riRetained v.ue v.ds txs 0 = [] ∧
          0 < s ∧ r = ⟨.insertion, s - 1, s, s, e⟩) ∨
       (i ∈ riRetained v.ue v.ds txs 0 ∧ v.sjc ≥ ms ∧ riSpliced v.ue v.ds txs 0 = [] ∧
          r = ⟨.deletion, s, e, 0, 0⟩)) := by
  unfold riConvert at h
  cases hc : riCoords v g with
  | error x => rw [hc] at h; cases h
  | ok se =>
    obtain ⟨s, e⟩ := se
    rw [hc] at h
    simp only at h
    refine ⟨s, e, rfl, ?_⟩
    by_cases c1 : riRetained v.ue v.ds txs 0 = [] ∧ v.ijc ≥ mi
    · rw [if_pos c1] at h
      cases hi : riIns s e (riSpliced v.ue v.ds txs 0) with
      | error x => rw [hi] at h; cases h
      | ok ins =>
        rw [hi] at h; simp only at h
        by_cases c2 : riSpliced v.ue v.ds txs 0 = [] ∧ v.sjc ≥ ms
        · rw [if_pos c2] at h
          cases hd : riDel s e (riRetained v.ue v.ds txs 0) with
          | error x => rw [hd] at h; cases h
          | ok del =>
            rw [hd] at h; cases h
            rcases List.mem_append.mp hm with hm | hm
            · have := riIns_mem hi hm
              exact Or.inl ⟨this.1, c1.2, c1.1, this.2⟩
            · have := riDel_mem hd hm
              exact Or.inr ⟨this.1, c2.2, c2.1, this.2⟩
        · rw [if_neg c2] at h; cases h
          rw [List.append_nil] at hm
          have := riIns_mem hi hm
          exact Or.inl ⟨this.1, c1.2, c1.1, this.2⟩
    · rw [if_neg c1] at h; simp only at h
      by_cases c2 : riSpliced v.ue v.ds txs 0 = [] ∧ v.sjc ≥ ms
      · rw [if_pos c2] at h
        cases hd : riDel s e (riRetained v.ue v.ds txs 0) with
        | error x => rw [hd] at h; cases h
        | ok del =>
          rw [hd] at h; cases h
          rw [List.nil_append] at hm
          have := riDel_mem hd hm
          exact Or.inr ⟨this.1, c2.2, c2.1, this.2⟩
      · rw [if_neg c2] at h; cases h; simp at hm

theorem riCoords_eq {v : RI} {g : Gene} (h1 : g.loc.start ≤ v.ue) (h2 : v.ue < v.ds)
    (h3 : v.ds ≤ g.loc.stop) :
    riCoords v g = .ok ((geneIv g ⟨v.ue, v.ds⟩).start, (geneIv g ⟨v.ue, v.ds⟩).stop) := by
  unfold riCoords g2g genomicToGene liftG geneIv
  have c1 : g.loc.start ≤ v.ue ∧ v.ue < g.loc.stop := by omega
  have c2 : g.loc.start ≤ v.ds - 1 ∧ v.ds - 1 < g.loc.stop := by omega
  cases hs : g.strand <;> simp only [if_pos c1, if_pos c2, bind, Except.bind, pure, Except.pure]
  · congr 2; omega
  · congr 2 <;> omega


/-! ## well-formed transcripts cut around one exon -/

theorem wf_parts {t : Transcript} (hw : t.WF) {pre post : List Iv} {X : Iv}
    (he : t.exons = pre ++ X :: post) :
    (∀ e ∈ pre, e.start < e.stop ∧ e.stop < X.start) ∧ X.start < X.stop ∧
      (∀ e ∈ post, X.stop < e.start ∧ e.start < e.stop) := by
  obtain ⟨_, hn, hs⟩ := hw
  rw [he] at hn hs
  unfold Separated at hs
  rw [List.pairwise_append] at hs
  obtain ⟨_, h2, h3⟩ := hs
  rw [List.pairwise_cons] at h2
  refine ⟨fun e hm => ⟨hn e (List.mem_append_left _ hm), h3 e hm X List.mem_cons_self⟩,
    hn X (List.mem_append_right _ List.mem_cons_self),
    fun e hm => ⟨h2.1 e hm, hn e (List.mem_append_right _ (List.mem_cons_of_mem _ hm))⟩⟩

theorem wf_pre_post {t : Transcript} (hw : t.WF) {pre post : List Iv} {X : Iv}
    (he : t.exons = pre ++ X :: post) : ∀ a ∈ pre, ∀ b ∈ post, a.stop < b.start := by
  obtain ⟨_, _, hs⟩ := hw
  rw [he] at hs
  unfold Separated at hs
  rw [List.pairwise_append] at hs
  exact fun a ha b hb => hs.2.2 a ha b (List.mem_cons_of_mem _ hb)

theorem inGene_of_within {t : Transcript} {g : Gene} (hw : t.WF) (hg : t.Within g) :
    InGene g t.exons := fun e he => by
  have := hg.2 e he
  have := hw.2.1 e he
  omega

/-- `applyAS` looks at the exon list only through `basesBefore` -/
theorem applyAS_congr {g : Gene} {es es' : List Iv} (h : ∀ q, basesBefore g es q = basesBefore g es' q)
    (X G : List Char) (r : ASRec) : applyAS g es X G r = applyAS g es' X G r := by
  unfold applyAS
  cases r.kind <;> simp only [h]

theorem basesBefore_split3 (g : Gene) (pre post : List Iv) {a b c d : Nat}
    (h0 : g.loc.start ≤ a) (h1 : a ≤ b) (h2 : b ≤ c) (h3 : c ≤ d) (h4 : d ≤ g.loc.stop) (q : Nat) :
    basesBefore g (pre ++ ⟨a, d⟩ :: post) q
      = basesBefore g (pre ++ ⟨a, b⟩ :: ⟨b, c⟩ :: ⟨c, d⟩ :: post) q := by
  simp only [basesBefore_append, basesBefore, geneIv]
  cases g.strand <;> simp only <;> omega

/-! ## junction novelty -/

theorem hasJunction_cons2 (a b : Nat) (e1 e2 : Iv) (rest : List Iv) :
    hasJunction a b (e1 :: e2 :: rest)
      = if e2.start > b then false
        else if e1.stop = a ∧ e2.start = b then true else hasJunction a b (e2 :: rest) := by
  rw [hasJunction]

theorem hasJunction_of_form {a b : Nat} {pre post : List Iv} {x y : Iv}
    (hn : NonEmptyIvs (pre ++ x :: y :: post)) (hs : Separated (pre ++ x :: y :: post))
    (hx : x.stop = a) (hy : y.start = b) :
    hasJunction a b (pre ++ x :: y :: post) = true := by
  induction pre with
  | nil =>
    simp only [List.nil_append]
    rw [hasJunction_cons2, if_neg (by omega), if_pos ⟨hx, hy⟩]
  | cons e rest ih =>
    have hn' : NonEmptyIvs (rest ++ x :: y :: post) := fun z hz => hn z (List.mem_cons_of_mem _ hz)
    have hs' : Separated (rest ++ x :: y :: post) := by
      unfold Separated at hs ⊢
      simp only [List.cons_append, List.pairwise_cons] at hs
      exact hs.2
    have ih' := ih hn' hs'
    have hxn := hn x (by simp)
    have hsx : x.stop < y.start := by
      unfold Separated at hs'
      rw [List.pairwise_append, List.pairwise_cons] at hs'
      exact hs'.2.1.1 y List.mem_cons_self
    cases rest with
    | nil =>
      simp only [List.nil_append, List.cons_append] at ih' ⊢
      rw [hasJunction_cons2, if_neg (by omega), if_neg (by omega)]
      exact ih'
    | cons r rest' =>
      have hrn := hn r (by simp)
      have hry : r.stop < y.start := by
        unfold Separated at hs'
        simp only [List.cons_append, List.pairwise_cons] at hs'
        exact hs'.1 y (by simp)
      simp only [List.cons_append] at ih' ⊢
      rw [hasJunction_cons2, if_neg (by omega), if_neg (by omega)]
      exact ih'

theorem isNovel_false_of_form {txs : List Transcript} {j : Junction} {t : Transcript}
    (ht : t ∈ txs) (hw : t.WF) (hj : HasJunction j.ue j.ds t.exons) : isNovel txs j = false := by
  obtain ⟨pre, x, y, post, he, hx, hy⟩ := hj
  unfold isNovel
  rw [Bool.not_eq_false', List.any_eq_true]
  refine ⟨t, ht, ?_⟩
  rw [he]
  exact hasJunction_of_form (he ▸ hw.2.1) (he ▸ hw.2.2) hx hy

/-- every junction of the list is annotated in some well-formed isoform -/
def AllAnnotated (txs : List Transcript) (js : List Junction) : Prop :=
  ∀ j ∈ js, j.ue ≤ j.ds ∧ ∃ t ∈ txs, t.WF ∧ HasJunction j.ue j.ds t.exons

theorem allKnown_of_annotated {txs : List Transcript} {js : List Junction}
    (h : AllAnnotated txs js) : allKnown txs js = .ok true := by
  induction js with
  | nil => rfl
  | cons j js ih =>
    obtain ⟨h1, t, ht, hw, hj⟩ := h j List.mem_cons_self
    unfold allKnown isNovelE
    rw [if_neg (by omega)]
    simp only [bind, Except.bind, isNovel_false_of_form ht hw hj]
    exact ih (fun x hx => h x (List.mem_cons_of_mem _ hx))

theorem overTxs_nil {f : Transcript → Except Err (List ASRec)} {txs : List Transcript}
    (h : ∀ t ∈ txs, f t = .ok []) (k : Nat) : overTxs f txs k = .ok [] := by
  induction txs generalizing k with
  | nil => rfl
  | cons t ts ih =>
    unfold overTxs
    rw [h t List.mem_cons_self]
    simp only [bind, Except.bind, ih (fun x hx => h x (List.mem_cons_of_mem _ hx)) (k + 1)]
    rfl

theorem riRetained_ne_nil {ue ds : Nat} {txs : List Transcript} {t : Transcript} (ht : t ∈ txs)
    (h : 0 < (riWalk ue ds t.exons).2) (k : Nat) : riRetained ue ds txs k ≠ [] := by
  induction txs generalizing k with
  | nil => cases ht
  | cons x xs ih =>
    unfold riRetained
    rcases List.mem_cons.mp ht with h1 | h1
    · subst h1
      intro hc
      have := (List.append_eq_nil_iff.mp hc).1
      have hl := congrArg List.length this
      simp at hl; omega
    · intro hc
      exact ih h1 (k + 1) (List.append_eq_nil_iff.mp hc).2

theorem riSpliced_ne_nil {ue ds : Nat} {txs : List Transcript} {t : Transcript} (ht : t ∈ txs)
    (h : (riWalk ue ds t.exons).1 = true) (k : Nat) : riSpliced ue ds txs k ≠ [] := by
  induction txs generalizing k with
  | nil => cases ht
  | cons x xs ih =>
    unfold riSpliced
    rcases List.mem_cons.mp ht with h1 | h1
    · subst h1
      simp [h]
    · intro hc
      exact ih h1 (k + 1) (List.append_eq_nil_iff.mp hc).2

/-! ## record constructors -/

theorem pyGet_nat (es : List Iv) (k : Nat) (e : Iv) (h : es[k]? = some e) :
    pyGet es (k : Int) = .ok e := by
  unfold pyGet
  rw [if_pos (by omega)]
  simp only [Int.toNat_natCast, h]

theorem g2g_ok {g : Gene} {p : Nat} (h1 : g.loc.start ≤ p) (h2 : p < g.loc.stop) :
    g2g g p = .ok (match g.strand with | .plus => p - g.loc.start | .minus => g.loc.stop - 1 - p) := by
  unfold g2g genomicToGene liftG
  rw [if_pos ⟨h1, h2⟩]
  cases g.strand <;> rfl

end MoPepGen.Rmats
