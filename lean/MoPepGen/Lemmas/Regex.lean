import MoPepGen.Model.Digest
/-! Helper lemmas about the rule-expression model. -/
namespace MoPepGen

theorem clsSeq_length {cs : List Cls} {t : List Char} (h : clsSeq cs t = true) :
    cs.length ≤ t.length := by
  induction cs generalizing t with
  | nil => simp
  | cons c cs ih =>
    cases t with
    | nil => simp [clsSeq] at h
    | cons x xs =>
      simp [clsSeq] at h
      have := ih h.2
      simp; omega

/-- `clsSeq` only looks at the first `cs.length` characters. -/
theorem clsSeq_congr {cs : List Cls} {t u : List Char}
    (h : ∀ k, k < cs.length → t[k]? = u[k]?) : clsSeq cs t = clsSeq cs u := by
  induction cs generalizing t u with
  | nil => simp [clsSeq]
  | cons c cs ih =>
    have h0 := h 0 (by simp)
    cases t with
    | nil =>
      cases u with
      | nil => rfl
      | cons y ys => simp at h0
    | cons x xs =>
      cases u with
      | nil => simp at h0
      | cons y ys =>
        simp at h0
        subst h0
        simp only [clsSeq]
        rw [ih (t := xs) (u := ys)]
        intro k hk
        have := h (k + 1) (by simp; omega)
        simpa using this

theorem Alt.flat_length (a : Alt) : a.flat.length = a.width := by
  simp [Alt.flat, Alt.width]; omega

/-- a match with the consumed residue at `i` needs residue `i` to exist -/
theorem Alt.matchAt_lt {a : Alt} {s : List Char} {i : Nat} (h : a.matchAt s i = true) :
    i < s.length := by
  simp [Alt.matchAt] at h
  have := clsSeq_length h.2
  rw [Alt.flat_length] at this
  simp [Alt.width] at this
  omega

theorem Re.matchAt_lt {r : Re} {s : List Char} {i : Nat} (h : r.matchAt s i = true) :
    i < s.length := by
  simp [Re.matchAt] at h
  obtain ⟨a, _, ha⟩ := h
  exact Alt.matchAt_lt ha

/-- Locality: an alternative's verdict at `i` in `s` and at `j` in `t` coincide when the
two windows `[i-|lb|, i+1+|la|)` and `[j-|lb|, j+1+|la|)` carry the same residues. -/
theorem Alt.matchAt_congr (a : Alt) (s t : List Char) (i j : Nat)
    (hi : a.lb.length ≤ i) (hj : a.lb.length ≤ j)
    (h : ∀ k, k < a.width → s[i - a.lb.length + k]? = t[j - a.lb.length + k]?) :
    a.matchAt s i = a.matchAt t j := by
  simp only [Alt.matchAt, hi, hj, decide_true, Bool.true_and]
  apply clsSeq_congr
  intro k hk
  rw [Alt.flat_length] at hk
  simpa [List.getElem?_drop] using h k hk

theorem finditerFrom_eq (r : Re) (s : List Char) (pos fuel : Nat) :
    r.finditerFrom s pos fuel = (List.range' pos fuel).filter (r.matchAt s) := by
  induction fuel generalizing pos with
  | zero => simp [Re.finditerFrom]
  | succ n ih =>
    simp only [Re.finditerFrom, List.range'_succ, List.filter_cons]
    split <;> simp [ih]

end MoPepGen
